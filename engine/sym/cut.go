package sym

import (
	"fmt"
	"go/ast"
	"go/token"
	"time"

	"golang.org/x/tools/go/ssa"
)

type cutSpec struct {
	name   string
	lo, hi uint64
}

type cutState struct {
	name string
	v    *Term // the havoc variable
	real *Term // the value the code actually computed
}

// cutSites finds, in fn's source, binary expressions assigned to a variable called name.
func (e *Engine) cutSites(fn *ssa.Function) map[token.Pos]string {
	if m, ok := e.cutCache[fn]; ok {
		return m
	}
	m := map[token.Pos]string{}
	if syn := fn.Syntax(); syn != nil {
		ast.Inspect(syn, func(n ast.Node) bool {
			as, ok := n.(*ast.AssignStmt)
			if !ok || len(as.Lhs) != 1 || len(as.Rhs) != 1 {
				return true
			}
			id, ok := as.Lhs[0].(*ast.Ident)
			if !ok {
				return true
			}
			if be, ok := as.Rhs[0].(*ast.BinaryExpr); ok {
				m[be.OpPos] = id.Name
			}
			return true
		})
	}
	e.cutCache[fn] = m
	return m
}

// maybeCut replaces the value of a BinOp by a havoc variable if a cut is pending for it.
func (e *Engine) maybeCut(fr *frame, in *ssa.BinOp, val Value) Value {
	if len(e.pendingCuts) == 0 {
		return val
	}
	name, ok := e.cutSites(fr.fn)[in.Pos()]
	if !ok {
		return val
	}
	spec, ok := e.pendingCuts[name]
	if !ok {
		return val
	}
	delete(e.pendingCuts, name)
	real := val.(*Term)
	if e.concreteMode() {
		e.cuts[name] = &cutState{name: name, v: real, real: real}
		return val
	}
	v := e.ts.Var("cut!"+name, real.W)
	e.cuts[name] = &cutState{name: name, v: v, real: real}
	e.assume(e.ts.BAnd(e.ts.Cmp(OpUle, e.ts.Const(real.W, spec.lo), v), e.ts.Cmp(OpUle, v, e.ts.Const(real.W, spec.hi))))
	e.res.Cuts[fmt.Sprintf("%s in %s: value in [%d,%d]", name, fr.fn.String(), spec.lo, spec.hi)]++
	return v
}

// refineCut tries to turn a model found under a cut into one that is realisable by the
// real computation (cut variable == real value). Returns false if it could not.
func (e *Engine) refineCut(j *oblJob) bool {
	base := j.asserts
	var blocked []*Term
	for iter := 0; iter < 6; iter++ {
		// 1. obtain a candidate value for each cut variable
		asserts := append(append([]*Term(nil), base...), blocked...)
		var cutVars []*Term
		for _, c := range j.cuts {
			cutVars = append(cutVars, c.v)
		}
		vars := append(append([]*Term(nil), j.vars...), cutVars...)
		r, m, _, err := RunScript("z3-new", Script(e.ts, asserts, vars), j.timeout, vars)
		if err != nil || r != Sat {
			return false
		}
		// 2. ask for inputs realising exactly this cut value
		fix := append([]*Term(nil), asserts...)
		var thisVal []*Term
		for _, c := range j.cuts {
			k := e.ts.Const(c.v.W, m[c.v.Name])
			fix = append(fix, e.ts.Eq(c.v, k), e.ts.Eq(c.real, k))
			thisVal = append(thisVal, e.ts.Eq(c.v, k))
		}
		r2, m2, _, err := RunScript("z3-new", Script(e.ts, fix, vars), 60*time.Second, vars)
		if err == nil && r2 == Sat {
			j.model = m2
			return true
		}
		if r2 != Unsat {
			return false
		}
		// not realisable: block this cut value and try another
		nb := e.ts.True
		for _, t := range thisVal {
			nb = e.ts.BAnd(nb, t)
		}
		blocked = append(blocked, e.ts.BNot(nb))
	}
	return false
}
