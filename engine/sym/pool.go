package sym

import (
	"fmt"
	"os"
	"runtime"
	"sync"
	"time"
)

// solverSem bounds the number of concurrently running one-shot solver processes.
var solverSem = make(chan struct{}, runtime.NumCPU())

type oblJob struct {
	st      *OblStat
	msg     string
	pos     string
	stack   []string
	script  string
	vars    []*Term
	inputs  []*Term
	tag     string
	asserts []*Term
	cuts    []*cutState
	timeout time.Duration
	// results
	res    Result
	model  map[string]uint64
	solver string
	el     time.Duration
	done   chan struct{}
}

func portfolio(tag string) []string {
	switch tag {
	case "arith":
		return []string{"cvc5-int", "z3-new"}
	case "xor":
		return []string{"z3-new", "cvc5"}
	case "cvc5":
		return []string{"cvc5", "z3-new"}
	}
	return []string{"z3", "z3-new", "cvc5"}
}

// runPortfolio runs the solvers of the portfolio concurrently; first decisive verdict wins.
func runPortfolio(j *oblJob) {
	kinds := portfolio(j.tag)
	type out struct {
		r    Result
		m    map[string]uint64
		kind string
		el   time.Duration
	}
	ch := make(chan out, len(kinds))
	cancel := make(chan struct{})
	var wg sync.WaitGroup
	for _, k := range kinds {
		wg.Add(1)
		go func(k string) {
			defer wg.Done()
			solverSem <- struct{}{}
			defer func() { <-solverSem }()
			select {
			case <-cancel:
				ch <- out{Unknown, nil, k, 0}
				return
			default:
			}
			r, m, el, err := runScriptCancel(k, j.script, j.timeout, j.vars, cancel)
			if err != nil {
				fmt.Fprintf(os.Stderr, "one-shot %s: %v\n", k, err)
				r = Unknown
			}
			ch <- out{r, m, k, el}
		}(k)
	}
	j.res = Unknown
	closed := false
	for range kinds {
		o := <-ch
		j.el += o.el
		if o.r != Unknown && j.res == Unknown {
			j.res, j.model, j.solver = o.r, o.m, o.kind
			if !closed {
				close(cancel)
				closed = true
			}
		}
	}
	if !closed {
		close(cancel)
	}
	wg.Wait()
	close(j.done)
}
