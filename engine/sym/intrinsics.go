package sym

import (
	"fmt"
	"unsafe"
	"go/types"
	"math/bits"
	"strings"

	"golang.org/x/tools/go/ssa"
)

type intrinsic func(e *Engine, fn *ssa.Function, args []Value) Value

const rtPkg = ModulePath + "/internal/verifrt."

var intrinsics = map[string]intrinsic{}
var hostMethods = map[string]func(e *Engine, args []Value) Value{}

func concStr(e *Engine, v Value) string {
	s := v.(Str)
	if !s.Conc {
		e.unsupported("symbolic string passed where a label is required")
	}
	return s.S
}

func (e *Engine) concInt(v Value) int {
	t := v.(*Term)
	if t.Op != OpConst {
		return e.concretizeInt(t, true)
	}
	return int(sext64(t.Val, t.W))
}

// input returns the named nondet variable (or its concrete value in concrete mode).
func (e *Engine) input(name string, idx int, w int) *Term {
	full := name
	if idx >= 0 {
		full = fmt.Sprintf("%s[%d]", name, idx)
	}
	if e.cfg.Concrete != nil {
		e.res.InputNames[full] = w
		arr := e.cfg.Concrete[name]
		i := idx
		if i < 0 {
			i = 0
		}
		var v uint64
		if i < len(arr) {
			v = arr[i]
		}
		if w == 0 {
			return e.ts.Bool(v != 0)
		}
		return e.ts.Const(w, v)
	}
	t := e.ts.Var(full, w)
	e.res.InputNames[full] = w
	if !e.inputSet[full] {
		e.inputSet[full] = true
		e.inputs = append(e.inputs, t)
	}
	return t
}

func (e *Engine) inputBytes(name string, n, cp int) Slice {
	if cp < n {
		cp = n
	}
	o := e.newObj("input " + name)
	o.Arr = make([]Value, cp)
	for i := 0; i < cp; i++ {
		o.Arr[i] = e.input(name, i, 8)
	}
	return Slice{O: o, D: o.Arr[:n:cp]}
}

func tuple2(a, b Value) Value { return Tuple{a, b} }

func (e *Engine) nilErr() Value { return Iface{} }

// bytesToBV concatenates byte terms big-endian into one wide term (nil for empty).
func (e *Engine) bytesToBV(b []*Term) *Term {
	var r *Term
	for _, t := range b {
		if r == nil {
			r = t
		} else {
			r = e.ts.Concat(r, t)
		}
	}
	return r
}

// uf applies an uninterpreted function to byte-string arguments, producing outLen bytes.
// The symbol is specialised by the argument lengths, so functional consistency is
// the solver's congruence; with inj the application is also asserted injective
// (idealised collision-freedom) via inverse functions.
func (e *Engine) uf(name string, outLen int, inj bool, args [][]*Term) []*Term {
	sym := name
	var bv []*Term
	for _, a := range args {
		sym += fmt.Sprintf("_%d", len(a))
		if len(a) > 0 {
			bv = append(bv, e.bytesToBV(a))
		}
	}
	if outLen == 0 {
		return nil
	}
	y := e.ts.App(sym, 8*outLen, bv...)
	if inj {
		// LEN_name(y) identifies the length signature; INV_sym_i(y) recovers each argument
		sigID := e.sigID(name, sym)
		e.addPC(e.ts.Eq(e.ts.App(fmt.Sprintf("LEN!%s!%d", name, outLen), 16, y), e.ts.Const(16, uint64(sigID))))
		for i, a := range bv {
			e.addPC(e.ts.Eq(e.ts.App(fmt.Sprintf("INV!%s!%d", sym, i), a.W, y), a))
		}
	}
	out := make([]*Term, outLen)
	for i := 0; i < outLen; i++ {
		hi := 8*outLen - 1 - 8*i
		out[i] = e.ts.Extract(y, hi, hi-7)
	}
	return out
}

func (e *Engine) sigID(name, sym string) int {
	k := "sig!" + name
	m, _ := e.hostState[k].(map[string]int)
	if m == nil {
		m = map[string]int{}
		e.hostState[k] = m
	}
	if id, ok := m[sym]; ok {
		return id
	}
	// stable id derived from the symbol text so that replays agree
	h := 0
	for _, c := range sym {
		h = (h*131 + int(c)) & 0xffff
	}
	m[sym] = h
	return h
}

func init() {
	reg := func(name string, f intrinsic) { intrinsics[rtPkg+name] = f }

	reg("NativeSkip", func(e *Engine, fn *ssa.Function, a []Value) Value { return nil })
	reg("EngineOnly", func(e *Engine, fn *ssa.Function, a []Value) Value { return nil })
	reg("Thorough", func(e *Engine, fn *ssa.Function, a []Value) Value { return e.ts.Bool(e.cfg.Thorough) })
	reg("Symbolic", func(e *Engine, fn *ssa.Function, a []Value) Value { return e.ts.True })
	reg("Bytes", func(e *Engine, fn *ssa.Function, a []Value) Value {
		n := e.concInt(a[1])
		if n < 0 {
			e.end("prune", "negative length")
		}
		s := e.inputBytes(concStr(e, a[0]), n, n)
		if s.D == nil {
			s.D = []Value{}
		}
		return s
	})
	reg("BytesCap", func(e *Engine, fn *ssa.Function, a []Value) Value {
		n := e.concInt(a[1])
		c := e.concInt(a[2])
		s := e.inputBytes(concStr(e, a[0]), n, c)
		if s.D == nil {
			s.D = []Value{}
		}
		return s
	})
	reg("Byte", func(e *Engine, fn *ssa.Function, a []Value) Value { return e.input(concStr(e, a[0]), -1, 8) })
	reg("Uint16", func(e *Engine, fn *ssa.Function, a []Value) Value { return e.input(concStr(e, a[0]), -1, 16) })
	reg("Uint32", func(e *Engine, fn *ssa.Function, a []Value) Value { return e.input(concStr(e, a[0]), -1, 32) })
	reg("Int32", func(e *Engine, fn *ssa.Function, a []Value) Value { return e.input(concStr(e, a[0]), -1, 32) })
	reg("Uint64", func(e *Engine, fn *ssa.Function, a []Value) Value { return e.input(concStr(e, a[0]), -1, 64) })
	reg("Int64", func(e *Engine, fn *ssa.Function, a []Value) Value { return e.input(concStr(e, a[0]), -1, 64) })
	reg("Int", func(e *Engine, fn *ssa.Function, a []Value) Value { return e.input(concStr(e, a[0]), -1, 64) })
	reg("Bool", func(e *Engine, fn *ssa.Function, a []Value) Value { return e.input(concStr(e, a[0]), -1, 0) })
	reg("IntRange", func(e *Engine, fn *ssa.Function, a []Value) Value {
		x := e.input(concStr(e, a[0]), -1, 64)
		lo, hi := a[1].(*Term), a[2].(*Term)
		e.assume(e.ts.BAnd(e.ts.Cmp(OpSle, lo, x), e.ts.Cmp(OpSle, x, hi)))
		return x
	})
	reg("Choice", func(e *Engine, fn *ssa.Function, a []Value) Value {
		x := e.input(concStr(e, a[0]), -1, 64)
		n := e.concInt(a[1])
		if x.Op == OpConst {
			if x.Val >= uint64(n) {
				e.end("prune", "choice out of range")
			}
			return x
		}
		return e.ts.Const(64, e.chooseAmong(x, n))
	})
	reg("Concrete", func(e *Engine, fn *ssa.Function, a []Value) Value {
		t := a[0].(*Term)
		return e.ts.Const(t.W, e.concretize(t))
	})
	reg("ConcreteU32", func(e *Engine, fn *ssa.Function, a []Value) Value {
		t := a[0].(*Term)
		return e.ts.Const(t.W, e.concretize(t))
	})
	reg("Assume", func(e *Engine, fn *ssa.Function, a []Value) Value {
		e.assume(a[0].(*Term))
		return nil
	})
	reg("Assert", func(e *Engine, fn *ssa.Function, a []Value) Value {
		e.assert(a[0].(*Term), concStr(e, a[1]))
		return nil
	})
	reg("AssertEq", func(e *Engine, fn *ssa.Function, a []Value) Value {
		x, y := a[0].(Slice), a[1].(Slice)
		msg := concStr(e, a[2])
		if len(x.D) != len(y.D) {
			e.assert(e.ts.False, msg+" (length)")
			return nil
		}
		c := e.ts.True
		for i := range x.D {
			c = e.ts.BAnd(c, e.ts.Eq(x.D[i].(*Term), y.D[i].(*Term)))
		}
		e.assert(c, msg)
		return nil
	})
	reg("AssertEqEach", func(e *Engine, fn *ssa.Function, a []Value) Value {
		x, y := a[0].(Slice), a[1].(Slice)
		msg := concStr(e, a[2])
		if len(x.D) != len(y.D) {
			e.assert(e.ts.False, msg+" (length)")
			return nil
		}
		for i := range x.D {
			e.assert(e.ts.Eq(x.D[i].(*Term), y.D[i].(*Term)), fmt.Sprintf("%s [%d]", msg, i))
		}
		return nil
	})
	reg("AssertBits", func(e *Engine, fn *ssa.Function, a []Value) Value {
		// per-output-bit equality of two integers
		x, y := a[0].(*Term), a[1].(*Term)
		msg := concStr(e, a[2])
		for i := 0; i < x.W; i++ {
			e.assert(e.ts.Eq(e.ts.Extract(x, i, i), e.ts.Extract(y, i, i)), fmt.Sprintf("%s bit %d", msg, i))
		}
		return nil
	})
	reg("Reach", func(e *Engine, fn *ssa.Function, a []Value) Value {
		if !e.replaying() {
			e.res.Reached[concStr(e, a[0])]++
		}
		return nil
	})
	reg("Observe", func(e *Engine, fn *ssa.Function, a []Value) Value {
		if e.replaying() {
			return nil
		}
		rec := ObserveRec{Label: concStr(e, a[0])}
		for _, v := range a[1].(Slice).D {
			rec.Vals = append(rec.Vals, e.observeStr(v))
		}
		if len(e.res.Observes) < 4096 {
			e.res.Observes = append(e.res.Observes, rec)
		}
		return nil
	})
	reg("Tag", func(e *Engine, fn *ssa.Function, a []Value) Value {
		e.tag = concStr(e, a[0])
		e.ts.Plain = e.tag == "arith"
		return nil
	})
	reg("Unwind", func(e *Engine, fn *ssa.Function, a []Value) Value {
		e.unwind = e.concInt(a[0])
		return nil
	})
	reg("UnwindAssume", func(e *Engine, fn *ssa.Function, a []Value) Value {
		// stated assumption: no loop forks symbolically more than n times (paths that would are cut)
		e.unwind = e.concInt(a[0])
		e.unwindPrune = true
		e.res.Stubs[fmt.Sprintf("assumption: loops fork at most %d times (UnwindAssume)", e.unwind)]++
		return nil
	})
	reg("Protect", func(e *Engine, fn *ssa.Function, a []Value) Value {
		s := a[0].(Slice)
		if s.O != nil {
			s.O.Protected = concStr(e, a[1])
		}
		return nil
	})
	reg("Unprotect", func(e *Engine, fn *ssa.Function, a []Value) Value {
		s := a[0].(Slice)
		if s.O != nil {
			s.O.Protected = ""
		}
		return nil
	})
	reg("Freeze", func(e *Engine, fn *ssa.Function, a []Value) Value {
		// mark every object reachable from the value as shared state: any later store into
		// one of them is reported (write-set monitor for the concurrency property)
		label := concStr(e, a[1])
		seen := map[*Obj]bool{}
		n := 0
		var walk func(v Value, depth int)
		walk = func(v Value, depth int) {
			if depth > 64 {
				return
			}
			switch x := v.(type) {
			case Ptr:
				if x.O != nil && !seen[x.O] {
					seen[x.O] = true
					x.O.Protected = label
					n++
					if x.O.Arr != nil {
						for _, c := range x.O.Arr {
							walk(c, depth+1)
						}
					} else {
						walk(x.O.V, depth+1)
					}
				} else if x.C != nil && x.O == nil {
					walk(*x.C, depth+1)
				}
			case Slice:
				if x.O != nil && !seen[x.O] {
					seen[x.O] = true
					x.O.Protected = label
					n++
				}
				for _, c := range x.D {
					walk(c, depth+1)
				}
			case Struct:
				for _, c := range x {
					walk(c, depth+1)
				}
			case Array:
				for _, c := range x {
					walk(c, depth+1)
				}
			case Iface:
				if x.T != nil {
					walk(x.V, depth+1)
				}
			case *Closure:
				for _, c := range x.Env {
					walk(c, depth+1)
				}
			case *Map:
				if x != nil {
					for _, en := range x.Entries {
						walk(en.K, depth+1)
						walk(en.V, depth+1)
					}
				}
			}
		}
		walk(a[0], 0)
		e.res.Stubs[fmt.Sprintf("shared-write monitor: froze %d objects (%s)", n, label)]++
		return e.intc(n)
	})
	reg("CheckProtected", func(e *Engine, fn *ssa.Function, a []Value) Value { return nil })
	reg("SameArray", func(e *Engine, fn *ssa.Function, a []Value) Value {
		x, y := a[0].(Slice), a[1].(Slice)
		if x.O == nil || y.O == nil || cap(x.D) == 0 || cap(y.D) == 0 {
			return e.ts.False
		}
		return e.ts.Bool(x.O == y.O)
	})
	reg("ExpectPanic", func(e *Engine, fn *ssa.Function, a []Value) (res Value) {
		depth := len(e.stack)
		res = e.ts.False
		func() {
			defer func() {
				if r := recover(); r != nil {
					if pe, ok := r.(pathEnd); ok && pe.kind == "panic" {
						e.stack = e.stack[:depth]
						res = e.ts.True
						return
					}
					panic(r)
				}
			}()
			e.callValue(a[0], nil, nil)
		}()
		return res
	})
	reg("FreezeAll", func(e *Engine, fn *ssa.Function, a []Value) Value {
		e.epoch++
		e.freezeEpoch = e.epoch
		e.freezeLabel = concStr(e, a[0])
		return nil
	})
	reg("NewEpoch", func(e *Engine, fn *ssa.Function, a []Value) Value {
		e.epoch++
		return nil
	})
	reg("UF", func(e *Engine, fn *ssa.Function, a []Value) Value {
		return e.ufCall(a, false)
	})
	reg("UFInj", func(e *Engine, fn *ssa.Function, a []Value) Value {
		return e.ufCall(a, true)
	})
	reg("FreshBytes", func(e *Engine, fn *ssa.Function, a []Value) Value {
		label := concStr(e, a[0])
		n := e.concInt(a[1])
		k := e.seq[label]
		e.seq[label]++
		s := e.inputBytes(fmt.Sprintf("%s#%d", label, k), n, n)
		if s.D == nil {
			s.D = []Value{}
		}
		e.draws = append(e.draws, Draw{ID: k, N: n, Bytes: sliceTerms(s)})
		return s
	})
	reg("Draws", func(e *Engine, fn *ssa.Function, a []Value) Value { return e.intc(len(e.draws)) })
	reg("DrawBytes", func(e *Engine, fn *ssa.Function, a []Value) Value {
		i := e.concInt(a[0])
		if i < 0 || i >= len(e.draws) {
			return Slice{}
		}
		s := e.byteSlice(e.draws[i].Bytes, "draw")
		if s.D == nil {
			s.D = []Value{}
		}
		return s
	})
	reg("CutNext", func(e *Engine, fn *ssa.Function, a []Value) Value {
		e.pendingCuts[concStr(e, a[0])] = cutSpec{name: concStr(e, a[0]), lo: a[1].(*Term).Val, hi: a[2].(*Term).Val}
		return nil
	})
	reg("CutValueOr", func(e *Engine, fn *ssa.Function, a []Value) Value {
		if c, ok := e.cuts[concStr(e, a[0])]; ok {
			return c.v
		}
		if !e.concreteMode() {
			e.unsupported("cut %q was requested but its site was not found in the code under test", concStr(e, a[0]))
		}
		return a[1]
	})
	reg("Summarize", func(e *Engine, fn *ssa.Function, a []Value) Value {
		e.summaries[concStr(e, a[0])] = a[1].(Iface).V
		e.sumCache = map[*ssa.Function]Value{}
		return nil
	})
	reg("AssumeEq", func(e *Engine, fn *ssa.Function, a []Value) Value {
		x, y := a[0].(Slice), a[1].(Slice)
		if len(x.D) != len(y.D) {
			e.end("prune", "AssumeEq: different lengths")
		}
		c := e.ts.True
		for i := range x.D {
			c = e.ts.BAnd(c, e.ts.Eq(x.D[i].(*Term), y.D[i].(*Term)))
		}
		// axioms about uninterpreted functions: no feasibility query needed
		e.addPC(c)
		return nil
	})
	reg("EqBytes", func(e *Engine, fn *ssa.Function, a []Value) Value {
		x, y := a[0].(Slice), a[1].(Slice)
		if len(x.D) != len(y.D) {
			return e.ts.False
		}
		c := e.ts.True
		for i := range x.D {
			c = e.ts.BAnd(c, e.ts.Eq(x.D[i].(*Term), y.D[i].(*Term)))
		}
		return c
	})
	reg("SameBytes", func(e *Engine, fn *ssa.Function, a []Value) Value {
		// syntactic identity of the byte terms (a concrete answer; sufficient for equality)
		x, y := a[0].(Slice), a[1].(Slice)
		if len(x.D) != len(y.D) {
			return e.ts.False
		}
		for i := range x.D {
			if x.D[i].(*Term) != y.D[i].(*Term) {
				return e.ts.False
			}
		}
		return e.ts.True
	})
	// MemoPut / MemoGet: a per-path table keyed by the syntactic identity of byte terms
	// (used by the models for O(1) "is this literally the output of an earlier call" lookups).
	reg("MemoPut", func(e *Engine, fn *ssa.Function, a []Value) Value {
		tab := concStr(e, a[0])
		val := a[1].(Slice)
		key := memoKey(tab, a[2].(Slice))
		e.memo[key] = append([]Value(nil), val.D...)
		return nil
	})
	reg("MemoGet", func(e *Engine, fn *ssa.Function, a []Value) Value {
		tab := concStr(e, a[0])
		key := memoKey(tab, a[1].(Slice))
		if v, ok := e.memo[key]; ok {
			o := e.newObj("memo")
			o.Arr = append([]Value(nil), v...)
			d := o.Arr
			if d == nil {
				d = []Value{}
			}
			return Tuple{Slice{O: o, D: d}, e.ts.True}
		}
		return Tuple{Slice{}, e.ts.False}
	})
	reg("And", func(e *Engine, fn *ssa.Function, a []Value) Value { return e.ts.BAnd(a[0].(*Term), a[1].(*Term)) })
	reg("Or", func(e *Engine, fn *ssa.Function, a []Value) Value { return e.ts.BOr(a[0].(*Term), a[1].(*Term)) })
	reg("Not", func(e *Engine, fn *ssa.Function, a []Value) Value { return e.ts.BNot(a[0].(*Term)) })
	reg("Implies", func(e *Engine, fn *ssa.Function, a []Value) Value { return e.ts.Implies(a[0].(*Term), a[1].(*Term)) })
	reg("OpaqueString", func(e *Engine, fn *ssa.Function, a []Value) Value {
		return Str{S: "<opaque>", Conc: true}
	})

	// ---- standard library functions without a Go body, or better modelled natively
	intrinsics["crypto/subtle.XORBytes"] = func(e *Engine, fn *ssa.Function, a []Value) Value {
		dst, x, y := a[0].(Slice), a[1].(Slice), a[2].(Slice)
		n := min(len(x.D), len(y.D))
		if n == 0 {
			return e.intc(0)
		}
		if len(dst.D) < n {
			e.targetPanic("subtle.XORBytes: dst too short")
		}
		// inexact overlap check as in the real implementation
		chk := func(s Slice) {
			if s.O != nil && s.O == dst.O && n > 0 {
				ds, ss := sliceStart(dst), sliceStart(s)
				if ds != ss && ds < ss+n && ss < ds+n {
					e.targetPanic("subtle.XORBytes: invalid overlap")
				}
			}
		}
		chk(x)
		chk(y)
		e.checkStore(dst.O)
		tmp := make([]Value, n)
		for i := 0; i < n; i++ {
			tmp[i] = e.ts.Bin(OpXor, x.D[i].(*Term), y.D[i].(*Term))
		}
		copy(dst.D, tmp)
		return e.intc(n)
	}
	// Exact rewrites of crypto/subtle's constant-time idioms into ite form (same value on
	// every input; checked by translator validation). They only make terms smaller.
	intrinsics["crypto/subtle.ConstantTimeSelect"] = func(e *Engine, fn *ssa.Function, a []Value) Value {
		v, x, y := a[0].(*Term), a[1].(*Term), a[2].(*Term)
		if e.ts.knownZero(v, 0)|1 == mask(v.W) {
			return e.ts.Ite(e.ts.Eq(e.ts.Extract(v, 0, 0), e.ts.Const(1, 1)), x, y)
		}
		return e.callSSA(fn, a, nil)
	}
	intrinsics["crypto/subtle.ConstantTimeByteEq"] = func(e *Engine, fn *ssa.Function, a []Value) Value {
		return e.ts.ZExt(e.ts.Ite(e.ts.Eq(a[0].(*Term), a[1].(*Term)), e.ts.Const(1, 1), e.ts.Const(1, 0)), 64)
	}
	intrinsics["crypto/subtle.ConstantTimeEq"] = func(e *Engine, fn *ssa.Function, a []Value) Value {
		return e.ts.ZExt(e.ts.Ite(e.ts.Eq(a[0].(*Term), a[1].(*Term)), e.ts.Const(1, 1), e.ts.Const(1, 0)), 64)
	}
	// Duration.Minutes() = d / 6e10 as an exact rational (the real method rounds to float64;
	// its only use here is the comparison with the integral bound 10, see DESIGN.md C09).
	intrinsics["(time.Duration).Minutes"] = func(e *Engine, fn *ssa.Function, a []Value) Value {
		d := a[0].(*Term)
		if d.Op == OpConst {
			return e.callSSA(fn, a, nil)
		}
		return RatFloat{I: d, Den: 60_000_000_000}
	}
	intrinsics["math/bits.Mul64"] = func(e *Engine, fn *ssa.Function, a []Value) Value {
		x, y := a[0].(*Term), a[1].(*Term)
		if x.Op == OpConst && y.Op == OpConst {
			hi, lo := bits.Mul64(x.Val, y.Val)
			return Tuple{e.ts.Const(64, hi), e.ts.Const(64, lo)}
		}
		lo := e.ts.Bin(OpMul, x, y)
		// hi via 32-bit limbs (as math/bits does), keeps everything <= 64 bits
		m32 := e.ts.Const(64, 0xffffffff)
		c32 := e.ts.Const(64, 32)
		x0, x1 := e.ts.Bin(OpAnd, x, m32), e.ts.Bin(OpLShr, x, c32)
		y0, y1 := e.ts.Bin(OpAnd, y, m32), e.ts.Bin(OpLShr, y, c32)
		w0 := e.ts.Bin(OpMul, x0, y0)
		t := e.ts.Bin(OpAdd, e.ts.Bin(OpMul, x1, y0), e.ts.Bin(OpLShr, w0, c32))
		w1 := e.ts.Bin(OpAdd, e.ts.Bin(OpAnd, t, m32), e.ts.Bin(OpMul, x0, y1))
		hi := e.ts.Bin(OpAdd, e.ts.Bin(OpAdd, e.ts.Bin(OpMul, x1, y1), e.ts.Bin(OpLShr, t, c32)), e.ts.Bin(OpLShr, w1, c32))
		return Tuple{hi, lo}
	}
	intrinsics["math/bits.Add64"] = func(e *Engine, fn *ssa.Function, a []Value) Value {
		x, y, c := a[0].(*Term), a[1].(*Term), a[2].(*Term)
		sum := e.ts.Bin(OpAdd, e.ts.Bin(OpAdd, x, y), c)
		// carry = ((x & y) | ((x | y) &^ sum)) >> 63
		carry := e.ts.Bin(OpLShr, e.ts.Bin(OpOr, e.ts.Bin(OpAnd, x, y), e.ts.Bin(OpAnd, e.ts.Bin(OpOr, x, y), e.ts.Not(sum))), e.ts.Const(64, 63))
		return Tuple{sum, carry}
	}
	for _, n := range []string{"(*sync.Mutex).Lock", "(*sync.Mutex).Unlock", "(*sync.RWMutex).Lock", "(*sync.RWMutex).Unlock", "(*sync.RWMutex).RLock", "(*sync.RWMutex).RUnlock"} {
		intrinsics[n] = func(e *Engine, fn *ssa.Function, a []Value) Value { return Tuple(nil) }
	}
	intrinsics["(*sync.Once).Do"] = func(e *Engine, fn *ssa.Function, a []Value) Value {
		p := a[0].(Ptr)
		key := fmt.Sprintf("once!%p", p.C)
		if e.hostState[key] == nil {
			e.hostState[key] = true
			e.callValue(a[1], nil, nil)
		}
		return Tuple(nil)
	}
	// sync.Pool: a deterministic LIFO free list (what a single goroutine observes when no
	// GC intervenes); Get on an empty pool calls New, or returns nil without one.
	intrinsics["(*sync.Pool).Put"] = func(e *Engine, fn *ssa.Function, a []Value) Value {
		p := a[0].(Ptr)
		if iv, ok := a[1].(Iface); ok && iv.T == nil {
			return Tuple(nil)
		}
		key := fmt.Sprintf("pool!%p", p.C)
		l, _ := e.hostState[key].([]Value)
		e.hostState[key] = append(l, a[1])
		return Tuple(nil)
	}
	intrinsics["(*sync.Pool).Get"] = func(e *Engine, fn *ssa.Function, a []Value) Value {
		p := a[0].(Ptr)
		key := fmt.Sprintf("pool!%p", p.C)
		if l, _ := e.hostState[key].([]Value); len(l) > 0 {
			e.hostState[key] = l[:len(l)-1]
			return l[len(l)-1]
		}
		st := fn.Signature.Recv().Type().(*types.Pointer).Elem().Underlying().(*types.Struct)
		for i := 0; i < st.NumFields(); i++ {
			if st.Field(i).Name() == "New" {
				nf := (*p.C).(Struct)[i]
				if _, isNil := nf.(nilFunc); isNil {
					return Iface{}
				}
				return e.callValue(nf, nil, nil)
			}
		}
		e.unsupported("sync.Pool without a New field")
		return nil
	}
	intrinsics["maps.clone"] = func(e *Engine, fn *ssa.Function, a []Value) Value {
		in := a[0].(Iface)
		m, _ := in.V.(*Map)
		if m == nil {
			return in
		}
		c := &Map{KeyT: m.KeyT}
		for _, en := range m.Entries {
			if !en.Deleted {
				c.Entries = append(c.Entries, &mapEntry{K: copyVal(en.K), V: copyVal(en.V)})
			}
		}
		return Iface{T: in.T, V: c}
	}
	// protobuf enum names go through descriptor reflection: an opaque string is enough for
	// everything the harnesses observe (names of enum values are never asserted on)
	intrinsics["(google.golang.org/protobuf/internal/impl.Export).EnumStringOf"] = func(e *Engine, fn *ssa.Function, a []Value) Value {
		return Str{S: "<enum>", Conc: true}
	}
	// reflect.TypeOf / reflect.TypeFor: an opaque, canonical token per Go type (enough for
	// using reflect.Type values as map keys, which is all the code under test does)
	intrinsics["reflect.TypeOf"] = func(e *Engine, fn *ssa.Function, a []Value) Value {
		iv := a[0].(Iface)
		if iv.T == nil {
			return Iface{}
		}
		return e.reflectType(iv.T)
	}
	intrinsics["reflect.TypeFor"] = func(e *Engine, fn *ssa.Function, a []Value) Value {
		ta := fn.TypeArgs()
		if len(ta) != 1 {
			e.unsupported("reflect.TypeFor without a type argument")
		}
		return e.reflectType(ta[0])
	}
	intrinsics["runtime.KeepAlive"] = func(e *Engine, fn *ssa.Function, a []Value) Value { return Tuple(nil) }
	intrinsics["internal/godebug.New"] = nil
	delete(intrinsics, "internal/godebug.New")
}

func (e *Engine) reflectType(t types.Type) Value {
	rp := e.prog.ImportedPackage("reflect")
	if rp == nil || rp.Type("rtype") == nil {
		e.unsupported("package reflect is not loaded")
	}
	key := "rtype!" + t.String()
	h, _ := e.hostState[key].(*Host)
	if h == nil {
		h = &Host{Kind: "reflect.rtype", Data: t}
		e.hostState[key] = h
	}
	return Iface{T: types.NewPointer(rp.Type("rtype").Type()), V: h}
}

func memoKey(tab string, parts Slice) string {
	var sb strings.Builder
	sb.WriteString(tab)
	for _, p := range parts.D {
		sb.WriteByte('|')
		for _, b := range p.(Slice).D {
			fmt.Fprintf(&sb, "%d,", b.(*Term).ID)
		}
	}
	return sb.String()
}

func sliceStart(s Slice) int {
	// offset of s.D[0] within its backing array o.Arr (by capacity arithmetic)
	if s.O == nil || s.O.Arr == nil || cap(s.D) == 0 || cap(s.O.Arr) == 0 {
		return 0
	}
	a0 := uintptr(unsafe.Pointer(unsafe.SliceData(s.O.Arr)))
	d0 := uintptr(unsafe.Pointer(unsafe.SliceData(s.D)))
	return int((d0 - a0) / unsafe.Sizeof(s.D[:1][0]))
}

func (e *Engine) ufCall(a []Value, inj bool) Value {
	name := concStr(e, a[0])
	outLen := e.concInt(a[1])
	var args [][]*Term
	for _, v := range a[2].(Slice).D {
		args = append(args, sliceTerms(v.(Slice)))
	}
	out := e.uf(name, outLen, inj, args)
	s := e.byteSlice(out, "uf "+name)
	if s.D == nil {
		s.D = []Value{}
	}
	return s
}

func (e *Engine) observeStr(v Value) string {
	switch v := v.(type) {
	case Iface:
		if v.T == nil {
			return "nil"
		}
		if _, isErr := v.T.Underlying().(*types.Pointer); isErr || strings.Contains(v.T.String(), "rror") {
			if _, ok := v.V.(*Term); !ok {
				if _, ok := v.V.(Str); !ok {
					if _, ok := v.V.(Slice); !ok {
						return "nonnil"
					}
				}
			}
		}
		return e.observeStr(v.V)
	case *Term:
		if v.Op == OpConst {
			return fmt.Sprintf("%d", v.Val)
		}
		if v.Op == OpTrue {
			return "true"
		}
		if v.Op == OpFalse {
			return "false"
		}
		return "sym"
	case Str:
		if v.Conc {
			return fmt.Sprintf("%q", v.S)
		}
		return "sym"
	case Slice:
		if v.D == nil {
			return "[]"
		}
		var sb strings.Builder
		sb.WriteByte('[')
		for i, x := range v.D {
			if i > 0 {
				sb.WriteByte(' ')
			}
			sb.WriteString(e.observeStr(x))
		}
		sb.WriteByte(']')
		return sb.String()
	case Array:
		return e.observeStr(Slice{D: v})
	}
	return fmt.Sprintf("<%T>", v)
}
