package sym

import (
	"fmt"
	"go/types"

	"golang.org/x/tools/go/ssa"
)

func (e *Engine) intc(n int) *Term { return e.ts.Const(64, uint64(int64(n))) }

func (e *Engine) callBuiltin(b *ssa.Builtin, args []Value, site ssa.Instruction) Value {
	switch b.Name() {
	case "len":
		switch x := args[0].(type) {
		case Str:
			return e.intc(x.Len())
		case Slice:
			return e.intc(len(x.D))
		case Array:
			return e.intc(len(x))
		case *Map:
			return e.intc(x.Len())
		case Ptr: // *array
			if x.IsNil() {
				// len of nil *[N]T is N, determined statically; SSA gives constant normally
				e.unsupported("len of nil array pointer")
			}
			return e.intc(len((*x.C).(Array)))
		}
	case "cap":
		switch x := args[0].(type) {
		case Slice:
			return e.intc(cap(x.D))
		case Array:
			return e.intc(len(x))
		case Ptr:
			return e.intc(len((*x.C).(Array)))
		}
	case "append":
		return e.appendOp(args[0].(Slice), args[1], b, site)
	case "copy":
		dst := args[0].(Slice)
		var src []Value
		switch s := args[1].(type) {
		case Slice:
			src = s.D
		case Str:
			for _, t := range s.Bytes(e.ts) {
				src = append(src, t)
			}
		}
		n := len(dst.D)
		if len(src) < n {
			n = len(src)
		}
		if n > 0 {
			e.checkStore(dst.O)
			tmp := make([]Value, n)
			for i := 0; i < n; i++ {
				tmp[i] = copyVal(src[i])
			}
			copy(dst.D, tmp)
		}
		return e.intc(n)
	case "delete":
		e.mapDelete(args[0].(*Map), args[1])
		return nil
	case "clear":
		switch x := args[0].(type) {
		case *Map:
			if x != nil {
				x.Entries = nil
			}
		case Slice:
			if len(x.D) > 0 {
				e.checkStore(x.O)
				et := b.Type().(*types.Signature).Params().At(0).Type().Underlying().(*types.Slice).Elem()
				for i := range x.D {
					x.D[i] = e.zero(et)
				}
			}
		}
		return nil
	case "min", "max":
		sig := b.Type().(*types.Signature)
		t := sig.Params().At(0).Type()
		r := args[0]
		for _, a := range args[1:] {
			switch rv := r.(type) {
			case *Term:
				av := a.(*Term)
				var lt *Term
				if isSigned(t) {
					lt = e.ts.Cmp(OpSlt, av, rv)
				} else {
					lt = e.ts.Cmp(OpUlt, av, rv)
				}
				if b.Name() == "min" {
					r = e.ts.Ite(lt, av, rv)
				} else {
					r = e.ts.Ite(lt, rv, av)
				}
			case float64:
				av := a.(float64)
				if b.Name() == "min" {
					r = min(rv, av)
				} else {
					r = max(rv, av)
				}
			default:
				e.unsupported("min/max on %T", r)
			}
		}
		return r
	case "print", "println":
		return nil
	case "recover":
		return Iface{}
	case "ssa:wrapnilchk":
		if p, ok := args[0].(Ptr); ok && p.IsNil() {
			e.targetPanic("value method called via nil pointer")
		}
		return args[0]
	}
	e.unsupported("builtin %s on %T", b.Name(), args[0])
	return nil
}

func (e *Engine) appendOp(s Slice, more Value, b *ssa.Builtin, site ssa.Instruction) Value {
	var add []Value
	switch m := more.(type) {
	case Slice:
		add = m.D
	case Str:
		for _, t := range m.Bytes(e.ts) {
			add = append(add, t)
		}
	default:
		panic(fmt.Sprintf("append of %T", more))
	}
	if len(add) == 0 {
		return s
	}
	tmp := make([]Value, len(add))
	for i := range add {
		tmp[i] = copyVal(add[i])
	}
	n := len(s.D)
	if n+len(tmp) <= cap(s.D) {
		// in place: writes into the spare capacity of s's backing array
		e.checkStore(s.O)
		d := s.D[:n+len(tmp)]
		copy(d[n:], tmp)
		return Slice{O: s.O, D: d}
	}
	newCap := 2 * cap(s.D)
	if newCap < n+len(tmp) {
		newCap = n + len(tmp)
	}
	if newCap < 8 && n+len(tmp) <= 8 {
		// mimic small-size rounding of the runtime: byte slices grow to size classes
		newCap = n + len(tmp)
		if r := newCap % 8; r != 0 {
			newCap += 8 - r
		}
	}
	o := e.newObj("append")
	o.Arr = make([]Value, newCap)
	var zero Value
	switch site.(type) {
	default:
		et := s.elemTypeFromSite(site)
		if et != nil {
			zero = e.zero(et)
		}
	}
	for i := range o.Arr {
		if i < n {
			o.Arr[i] = copyVal(s.D[i])
		} else if i < n+len(tmp) {
			o.Arr[i] = tmp[i-n]
		} else if zero != nil {
			o.Arr[i] = copyVal(zero)
		}
	}
	return Slice{O: o, D: o.Arr[: n+len(tmp) : newCap]}
}

func (s Slice) elemTypeFromSite(site ssa.Instruction) types.Type {
	if v, ok := site.(ssa.Value); ok {
		if st, ok := v.Type().Underlying().(*types.Slice); ok {
			return st.Elem()
		}
	}
	return nil
}
