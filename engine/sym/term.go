// Package sym is a bounded symbolic executor for Go SSA (golang.org/x/tools/go/ssa)
// that turns in-package harness functions into SMT-LIB2 queries.
package sym

import (
	"fmt"
	"math/bits"
	"strings"
)

// Op is a term operator.
type Op uint8

const (
	OpConst Op = iota // BV constant (w<=64), val
	OpVar             // BV or Bool variable, name
	OpApp             // uninterpreted function application, name, args
	OpNot             // bvnot
	OpNeg
	OpAdd
	OpSub
	OpMul
	OpUDiv
	OpURem
	OpSDiv
	OpSRem
	OpAnd
	OpOr
	OpXor
	OpShl
	OpLShr
	OpAShr
	OpConcat  // args[0] is high part
	OpExtract // val = hi<<16 | lo
	OpZExt
	OpSExt
	OpIte
	// Bool-sorted
	OpTrue
	OpFalse
	OpEq
	OpUlt
	OpUle
	OpSlt
	OpSle
	OpBNot
	OpBAnd
	OpBOr
)

var opNames = map[Op]string{
	OpNot: "bvnot", OpNeg: "bvneg", OpAdd: "bvadd", OpSub: "bvsub", OpMul: "bvmul", OpUDiv: "bvudiv", OpURem: "bvurem",
	OpSDiv: "bvsdiv", OpSRem: "bvsrem", OpAnd: "bvand", OpOr: "bvor", OpXor: "bvxor", OpShl: "bvshl", OpLShr: "bvlshr",
	OpAShr: "bvashr", OpConcat: "concat", OpIte: "ite", OpEq: "=", OpUlt: "bvult", OpUle: "bvule", OpSlt: "bvslt",
	OpSle: "bvsle", OpBNot: "not", OpBAnd: "and", OpBOr: "or",
}

// Term is a hash-consed node. W==0 means Bool sort.
type Term struct {
	ID   int
	Op   Op
	W    int
	Val  uint64
	Name string
	Args []*Term
}

func (t *Term) IsConst() bool { return t.Op == OpConst || t.Op == OpTrue || t.Op == OpFalse }
func (t *Term) IsBool() bool  { return t.W == 0 }

type termKey struct {
	op         Op
	w          int
	val        uint64
	name       string
	a0, a1, a2 int
}

// Terms is a term factory with hash-consing and local simplification.
type Terms struct {
	tab   map[termKey]*Term
	ntab  map[string]*Term
	next  int
	True  *Term
	False *Term
	// UF signatures by name: arg widths + result width
	UFs map[string][]int
	// Vars by name
	Vars map[string]*Term
	// Plain disables bit-level canonicalisation (shift/mask -> extract/concat, extract
	// pushed into arithmetic) so that word-level arithmetic reaches the solver as written;
	// used for obligations sent to the integer-blasting back end.
	Plain bool
	ArithCanon bool
}

func NewTerms() *Terms {
	ts := &Terms{tab: map[termKey]*Term{}, ntab: map[string]*Term{}, UFs: map[string][]int{}, Vars: map[string]*Term{}}
	ts.True = ts.mk(OpTrue, 0, 0, "")
	ts.False = ts.mk(OpFalse, 0, 0, "")
	return ts
}

func (ts *Terms) Count() int { return ts.next }

func (ts *Terms) mk(op Op, w int, val uint64, name string, args ...*Term) *Term {
	if len(args) <= 3 {
		k := termKey{op: op, w: w, val: val, name: name, a0: -1, a1: -1, a2: -1}
		if len(args) > 0 {
			k.a0 = args[0].ID
		}
		if len(args) > 1 {
			k.a1 = args[1].ID
		}
		if len(args) > 2 {
			k.a2 = args[2].ID
		}
		if t, ok := ts.tab[k]; ok {
			return t
		}
		t := &Term{ID: ts.next, Op: op, W: w, Val: val, Name: name, Args: append([]*Term(nil), args...)}
		ts.next++
		ts.tab[k] = t
		return t
	}
	var sb strings.Builder
	fmt.Fprintf(&sb, "%d/%d/%d/%s", op, w, val, name)
	for _, a := range args {
		fmt.Fprintf(&sb, ",%d", a.ID)
	}
	k := sb.String()
	if t, ok := ts.ntab[k]; ok {
		return t
	}
	t := &Term{ID: ts.next, Op: op, W: w, Val: val, Name: name, Args: append([]*Term(nil), args...)}
	ts.next++
	ts.ntab[k] = t
	return t
}

func mask(w int) uint64 {
	if w >= 64 {
		return ^uint64(0)
	}
	return (uint64(1) << uint(w)) - 1
}

func sext64(v uint64, w int) int64 {
	if w >= 64 {
		return int64(v)
	}
	sh := uint(64 - w)
	return int64(v<<sh) >> sh
}

// Const makes a BV constant of width w (1..64).
func (ts *Terms) Const(w int, v uint64) *Term {
	if w <= 0 || w > 64 {
		panic(fmt.Sprintf("Const width %d", w))
	}
	return ts.mk(OpConst, w, v&mask(w), "")
}

func (ts *Terms) Bool(b bool) *Term {
	if b {
		return ts.True
	}
	return ts.False
}

// Var makes (or returns) a variable; w==0 is Bool.
func (ts *Terms) Var(name string, w int) *Term {
	if t, ok := ts.Vars[name]; ok {
		if t.W != w {
			panic(fmt.Sprintf("variable %s redeclared with width %d (was %d)", name, w, t.W))
		}
		return t
	}
	t := ts.mk(OpVar, w, 0, name)
	ts.Vars[name] = t
	return t
}

// App makes an uninterpreted function application with result width w.
func (ts *Terms) App(name string, w int, args ...*Term) *Term {
	sig := make([]int, 0, len(args)+1)
	for _, a := range args {
		sig = append(sig, a.W)
	}
	sig = append(sig, w)
	if old, ok := ts.UFs[name]; ok {
		if len(old) != len(sig) {
			panic("UF arity mismatch " + name)
		}
		for i := range old {
			if old[i] != sig[i] {
				panic("UF signature mismatch " + name)
			}
		}
	} else {
		ts.UFs[name] = sig
	}
	return ts.mk(OpApp, w, 0, name, args...)
}

// knownZero returns a mask of bits of t (w<=64) that are certainly zero.
func (ts *Terms) knownZero(t *Term, depth int) uint64 {
	if t.W > 64 || t.W == 0 {
		return 0
	}
	m := mask(t.W)
	if depth > 12 {
		return 0
	}
	switch t.Op {
	case OpConst:
		return ^t.Val & m
	case OpZExt:
		return (ts.knownZero(t.Args[0], depth+1) | ^mask(t.Args[0].W)) & m
	case OpAnd:
		return (ts.knownZero(t.Args[0], depth+1) | ts.knownZero(t.Args[1], depth+1)) & m
	case OpOr, OpXor:
		return ts.knownZero(t.Args[0], depth+1) & ts.knownZero(t.Args[1], depth+1) & m
	case OpShl:
		if t.Args[1].Op == OpConst {
			k := t.Args[1].Val
			if k >= uint64(t.W) {
				return m
			}
			return (ts.knownZero(t.Args[0], depth+1)<<k | mask(int(k))) & m
		}
	case OpLShr:
		if t.Args[1].Op == OpConst {
			k := t.Args[1].Val
			if k >= uint64(t.W) {
				return m
			}
			return (ts.knownZero(t.Args[0], depth+1)>>k | ^(m >> k)) & m
		}
	case OpMul:
		if t.Args[1].Op == OpConst && bits.OnesCount64(t.Args[1].Val) == 1 {
			k := uint64(bits.TrailingZeros64(t.Args[1].Val))
			return (ts.knownZero(t.Args[0], depth+1)<<k | mask(int(k))) & m
		}
	case OpUDiv:
		if t.Args[1].Op == OpConst && bits.OnesCount64(t.Args[1].Val) == 1 {
			k := uint64(bits.TrailingZeros64(t.Args[1].Val))
			return (ts.knownZero(t.Args[0], depth+1)>>k | ^(m >> k)) & m
		}
	case OpURem:
		if t.Args[1].Op == OpConst && bits.OnesCount64(t.Args[1].Val) == 1 {
			k := bits.TrailingZeros64(t.Args[1].Val)
			return (ts.knownZero(t.Args[0], depth+1) | ^mask(k)) & m
		}
	case OpConcat:
		lw := t.Args[1].W
		if t.Args[0].W <= 64 {
			return (ts.knownZero(t.Args[0], depth+1)<<uint(lw) | ts.knownZero(t.Args[1], depth+1)) & m
		}
	case OpExtract:
		lo := int(t.Val & 0xffff)
		if t.Args[0].W <= 64 {
			return (ts.knownZero(t.Args[0], depth+1) >> uint(lo)) & m
		}
	case OpIte:
		return ts.knownZero(t.Args[1], depth+1) & ts.knownZero(t.Args[2], depth+1) & m
	}
	return 0
}

func (ts *Terms) isAllOnes(t *Term) bool { return t.Op == OpConst && t.Val == mask(t.W) }
func isZero(t *Term) bool              { return t.Op == OpConst && t.Val == 0 }

func (ts *Terms) Not(a *Term) *Term {
	if a.Op == OpConst {
		return ts.Const(a.W, ^a.Val)
	}
	if a.Op == OpNot {
		return a.Args[0]
	}
	return ts.mk(OpNot, a.W, 0, "", a)
}

func (ts *Terms) Neg(a *Term) *Term {
	if a.Op == OpConst {
		return ts.Const(a.W, -a.Val)
	}
	return ts.mk(OpNeg, a.W, 0, "", a)
}

func chkW(a, b *Term, what string) {
	if a.W != b.W {
		panic(fmt.Sprintf("%s: width mismatch %d vs %d", what, a.W, b.W))
	}
}

// Bin builds a binary BV operation.
func (ts *Terms) Bin(op Op, a, b *Term) *Term {
	chkW(a, b, opNames[op])
	w := a.W
	if w > 64 {
		// wide terms: no folding except trivial
		switch op {
		case OpXor, OpAnd, OpOr, OpAdd, OpSub:
			return ts.mk(op, w, 0, "", a, b)
		}
		panic("wide op unsupported: " + opNames[op])
	}
	if a.Op == OpConst && b.Op == OpConst {
		x, y := a.Val, b.Val
		m := mask(w)
		switch op {
		case OpAdd:
			return ts.Const(w, x+y)
		case OpSub:
			return ts.Const(w, x-y)
		case OpMul:
			return ts.Const(w, x*y)
		case OpUDiv:
			if y == 0 {
				return ts.Const(w, m)
			}
			return ts.Const(w, x/y)
		case OpURem:
			if y == 0 {
				return ts.Const(w, x)
			}
			return ts.Const(w, x%y)
		case OpSDiv:
			sx, sy := sext64(x, w), sext64(y, w)
			if sy == 0 {
				if sx < 0 {
					return ts.Const(w, 1)
				}
				return ts.Const(w, m)
			}
			if sy == -1 {
				return ts.Const(w, uint64(-sx))
			}
			return ts.Const(w, uint64(sx/sy))
		case OpSRem:
			sx, sy := sext64(x, w), sext64(y, w)
			if sy == 0 {
				return ts.Const(w, x)
			}
			if sy == -1 {
				return ts.Const(w, 0)
			}
			return ts.Const(w, uint64(sx%sy))
		case OpAnd:
			return ts.Const(w, x&y)
		case OpOr:
			return ts.Const(w, x|y)
		case OpXor:
			return ts.Const(w, x^y)
		case OpShl:
			if y >= uint64(w) {
				return ts.Const(w, 0)
			}
			return ts.Const(w, x<<y)
		case OpLShr:
			if y >= uint64(w) {
				return ts.Const(w, 0)
			}
			return ts.Const(w, x>>y)
		case OpAShr:
			sx := sext64(x, w)
			if y >= uint64(w) {
				y = uint64(w - 1)
			}
			return ts.Const(w, uint64(sx>>y))
		}
	}
	if ts.Plain && ts.ArithCanon {
		switch op {
		case OpShl:
			if b.Op == OpConst && b.Val < uint64(w) && b.Val > 0 {
				return ts.Bin(OpMul, a, ts.Const(w, uint64(1)<<b.Val))
			}
		case OpLShr:
			if b.Op == OpConst && b.Val < uint64(w) && b.Val > 0 {
				return ts.Bin(OpUDiv, a, ts.Const(w, uint64(1)<<b.Val))
			}
		case OpAnd:
			for i := 0; i < 2; i++ {
				if b.Op == OpConst && b.Val != 0 && b.Val&(b.Val+1) == 0 && b.Val != mask(w) {
					return ts.Bin(OpURem, a, ts.Const(w, b.Val+1))
				}
				a, b = b, a
			}
		case OpOr:
			if ts.knownZero(a, 0)|ts.knownZero(b, 0) == mask(w) && !isZero(a) && !isZero(b) {
				return ts.Bin(OpAdd, a, b)
			}
		}
	}
	// algebraic simplifications
	switch op {
	case OpAdd:
		if isZero(a) {
			return b
		}
		if isZero(b) {
			return a
		}
		if a.Op == OpConst { // canonical: const on the right
			a, b = b, a
		}
		// (x + c1) + c2
		if b.Op == OpConst && a.Op == OpAdd && a.Args[1].Op == OpConst {
			return ts.Bin(OpAdd, a.Args[0], ts.Const(w, a.Args[1].Val+b.Val))
		}
	case OpSub:
		if isZero(b) {
			return a
		}
		if a == b {
			return ts.Const(w, 0)
		}
		if b.Op == OpConst {
			return ts.Bin(OpAdd, a, ts.Const(w, -b.Val))
		}
	case OpMul:
		if isZero(a) || isZero(b) {
			return ts.Const(w, 0)
		}
		if a.Op == OpConst && a.Val == 1 {
			return b
		}
		if b.Op == OpConst && b.Val == 1 {
			return a
		}
		if a.Op == OpConst {
			a, b = b, a
		}
		if !ts.Plain && b.Op == OpConst && bits.OnesCount64(b.Val) == 1 {
			return ts.Bin(OpShl, a, ts.Const(w, uint64(bits.TrailingZeros64(b.Val))))
		}
	case OpAnd:
		if isZero(a) || isZero(b) {
			return ts.Const(w, 0)
		}
		if ts.isAllOnes(a) {
			return b
		}
		if ts.isAllOnes(b) {
			return a
		}
		if a == b {
			return a
		}
		if a.Op == OpConst {
			a, b = b, a
		}
		if b.Op == OpConst && !ts.Plain {
			// mask of low k bits -> zext(extract)
			v := b.Val
			if v&(v+1) == 0 { // 2^k-1
				k := bits.Len64(v)
				return ts.ZExt(ts.Extract(a, k-1, 0), w)
			}
			// high mask: ones then zeros
			inv := ^v & mask(w)
			if inv&(inv+1) == 0 {
				k := bits.Len64(inv) // low k bits cleared
				return ts.Concat(ts.Extract(a, w-1, k), ts.Const(k, 0))
			}
		}
	case OpOr:
		if isZero(a) {
			return b
		}
		if isZero(b) {
			return a
		}
		if a == b {
			return a
		}
		if ts.isAllOnes(a) || ts.isAllOnes(b) {
			return ts.Const(w, mask(w))
		}
		if r := ts.orDisjoint(a, b); r != nil && !ts.Plain {
			return r
		}
	case OpXor:
		if isZero(a) {
			return b
		}
		if isZero(b) {
			return a
		}
		if a == b {
			return ts.Const(w, 0)
		}
		// xor of values with disjoint possibly-set bits is a bit-field assembly: same as or
		if !ts.Plain && w <= 64 && ts.knownZero(a, 0)|ts.knownZero(b, 0) == mask(w) {
			if r := ts.orDisjoint(a, b); r != nil {
				return r
			}
		}
		// (x ^ y) ^ y -> x
		if a.Op == OpXor {
			if a.Args[0] == b {
				return a.Args[1]
			}
			if a.Args[1] == b {
				return a.Args[0]
			}
		}
		if b.Op == OpXor {
			if b.Args[0] == a {
				return b.Args[1]
			}
			if b.Args[1] == a {
				return b.Args[0]
			}
		}
	case OpShl:
		if isZero(b) {
			return a
		}
		if isZero(a) {
			return a
		}
		if b.Op == OpConst && !ts.Plain {
			if b.Val >= uint64(w) {
				return ts.Const(w, 0)
			}
			k := int(b.Val)
			return ts.Concat(ts.Extract(a, w-1-k, 0), ts.Const(k, 0))
		}
	case OpLShr:
		if isZero(b) {
			return a
		}
		if isZero(a) {
			return a
		}
		if b.Op == OpConst && !ts.Plain {
			if b.Val >= uint64(w) {
				return ts.Const(w, 0)
			}
			k := int(b.Val)
			return ts.ZExt(ts.Extract(a, w-1, k), w)
		}
	case OpAShr:
		if isZero(b) {
			return a
		}
		if b.Op == OpConst && !ts.Plain {
			k := int(b.Val)
			if k >= w {
				k = w - 1
			}
			return ts.SExt(ts.Extract(a, w-1, k), w)
		}
	case OpUDiv:
		if b.Op == OpConst && b.Val == 1 {
			return a
		}
		if !ts.Plain && b.Op == OpConst && bits.OnesCount64(b.Val) == 1 {
			return ts.Bin(OpLShr, a, ts.Const(w, uint64(bits.TrailingZeros64(b.Val))))
		}
	case OpURem:
		if !ts.Plain && b.Op == OpConst && bits.OnesCount64(b.Val) == 1 {
			return ts.Bin(OpAnd, a, ts.Const(w, b.Val-1))
		}
	}
	if (op == OpAdd || op == OpMul || op == OpAnd || op == OpOr || op == OpXor) && a.ID > b.ID && b.Op != OpConst {
		a, b = b, a
	}
	return ts.mk(op, w, 0, "", a, b)
}

// parts decomposes t (width w) into a list of (term, width) from high to low if it
// is a concat/zext tree; used to merge ORs of disjoint fields.
func (ts *Terms) parts(t *Term, out []*Term) []*Term {
	switch t.Op {
	case OpConcat:
		out = ts.parts(t.Args[0], out)
		return ts.parts(t.Args[1], out)
	case OpZExt:
		out = append(out, ts.Const64w(t.W-t.Args[0].W, 0)...)
		return ts.parts(t.Args[0], out)
	}
	return append(out, t)
}

// Const64w returns zero constants totalling width w (split in <=64 chunks).
func (ts *Terms) Const64w(w int, v uint64) []*Term {
	var out []*Term
	for w > 64 {
		out = append(out, ts.Const(64, 0))
		w -= 64
	}
	if w > 0 {
		out = append(out, ts.Const(w, v))
	}
	return out
}

func (ts *Terms) orDisjoint(a, b *Term) *Term {
	if a.W > 64 {
		return nil
	}
	isCat := func(t *Term) bool { return t.Op == OpConcat || t.Op == OpZExt }
	if !isCat(a) && !isCat(b) {
		return nil
	}
	pa := ts.parts(a, nil)
	pb := ts.parts(b, nil)
	// walk both lists bit-aligned; succeed if for every aligned segment one side is zero const
	var res []*Term
	i, j := 0, 0
	var ra, rb *Term // remaining pieces
	for {
		if ra == nil {
			if i >= len(pa) {
				break
			}
			ra = pa[i]
			i++
		}
		if rb == nil {
			if j >= len(pb) {
				break
			}
			rb = pb[j]
			j++
		}
		w := ra.W
		if rb.W < w {
			w = rb.W
		}
		xa := ts.Extract(ra, ra.W-1, ra.W-w)
		xb := ts.Extract(rb, rb.W-1, rb.W-w)
		switch {
		case isZero(xa):
			res = append(res, xb)
		case isZero(xb):
			res = append(res, xa)
		case xa.Op == OpConst && xb.Op == OpConst:
			res = append(res, ts.Const(w, xa.Val|xb.Val))
		default:
			return nil
		}
		if ra.W > w {
			ra = ts.Extract(ra, ra.W-w-1, 0)
		} else {
			ra = nil
		}
		if rb.W > w {
			rb = ts.Extract(rb, rb.W-w-1, 0)
		} else {
			rb = nil
		}
	}
	if ra != nil || rb != nil {
		return nil
	}
	r := res[0]
	for _, p := range res[1:] {
		r = ts.Concat(r, p)
	}
	return r
}

// Concat: hi ++ lo.
func (ts *Terms) Concat(hi, lo *Term) *Term {
	if hi == nil || hi.W == 0 && hi.Op != OpTrue && hi.Op != OpFalse {
		return lo
	}
	w := hi.W + lo.W
	if hi.Op == OpConst && lo.Op == OpConst && w <= 64 {
		return ts.Const(w, hi.Val<<uint(lo.W)|lo.Val)
	}
	// zero high part => zext
	if isZero(hi) && w <= 64 {
		return ts.ZExt(lo, w)
	}
	// merge adjacent extracts of the same term
	if hi.Op == OpExtract && lo.Op == OpExtract && hi.Args[0] == lo.Args[0] {
		hh, hl := int(hi.Val>>16), int(hi.Val&0xffff)
		lh, ll := int(lo.Val>>16), int(lo.Val&0xffff)
		if hl == lh+1 {
			return ts.Extract(hi.Args[0], hh, ll)
		}
	}
	// concat(x, concat(extract..)) re-association for merging: concat(a, concat(b,c)) where a,b adjacent extracts
	if lo.Op == OpConcat && hi.Op == OpExtract && lo.Args[0].Op == OpExtract && hi.Args[0] == lo.Args[0].Args[0] {
		hl := int(hi.Val & 0xffff)
		lh := int(lo.Args[0].Val >> 16)
		if hl == lh+1 {
			return ts.Concat(ts.Concat(hi, lo.Args[0]), lo.Args[1])
		}
	}
	return ts.mk(OpConcat, w, 0, "", hi, lo)
}

// Extract bits hi..lo (inclusive).
func (ts *Terms) Extract(a *Term, hi, lo int) *Term {
	if hi < lo || lo < 0 || hi >= a.W {
		panic(fmt.Sprintf("Extract[%d:%d] of width %d", hi, lo, a.W))
	}
	w := hi - lo + 1
	if w == a.W {
		return a
	}
	switch a.Op {
	case OpConst:
		return ts.Const(w, a.Val>>uint(lo))
	case OpExtract:
		l0 := int(a.Val & 0xffff)
		return ts.Extract(a.Args[0], hi+l0, lo+l0)
	case OpConcat:
		lw := a.Args[1].W
		if hi < lw {
			return ts.Extract(a.Args[1], hi, lo)
		}
		if lo >= lw {
			return ts.Extract(a.Args[0], hi-lw, lo-lw)
		}
		return ts.Concat(ts.Extract(a.Args[0], hi-lw, 0), ts.Extract(a.Args[1], lw-1, lo))
	case OpZExt:
		iw := a.Args[0].W
		if hi < iw {
			return ts.Extract(a.Args[0], hi, lo)
		}
		if lo >= iw {
			return ts.Const(w, 0)
		}
		return ts.ZExt(ts.Extract(a.Args[0], iw-1, lo), w)
	case OpSExt:
		iw := a.Args[0].W
		if hi < iw {
			return ts.Extract(a.Args[0], hi, lo)
		}
	case OpAnd, OpOr, OpXor:
		if ts.Plain {
			break
		}
		if lo == 0 || a.Args[0].Op == OpConst || a.Args[1].Op == OpConst || a.Args[0].Op == OpConcat || a.Args[1].Op == OpConcat || a.Args[0].Op == OpZExt || a.Args[1].Op == OpZExt {
			return ts.Bin(a.Op, ts.Extract(a.Args[0], hi, lo), ts.Extract(a.Args[1], hi, lo))
		}
	case OpNot:
		return ts.Not(ts.Extract(a.Args[0], hi, lo))
	case OpAdd, OpSub, OpMul:
		if lo == 0 && !ts.Plain {
			return ts.Bin(a.Op, ts.Extract(a.Args[0], hi, 0), ts.Extract(a.Args[1], hi, 0))
		}
	case OpIte:
		if a.Args[1].Op == OpConst && a.Args[2].Op == OpConst {
			return ts.Ite(a.Args[0], ts.Extract(a.Args[1], hi, lo), ts.Extract(a.Args[2], hi, lo))
		}
	}
	return ts.mk(OpExtract, w, uint64(hi)<<16|uint64(lo), "", a)
}

func (ts *Terms) ZExt(a *Term, w int) *Term {
	if w == a.W {
		return a
	}
	if w < a.W {
		panic("ZExt narrowing")
	}
	if a.Op == OpConst && w <= 64 {
		return ts.Const(w, a.Val)
	}
	if a.Op == OpZExt {
		return ts.ZExt(a.Args[0], w)
	}
	if a.Op == OpIte && a.Args[1].Op == OpConst && a.Args[2].Op == OpConst && w <= 64 {
		return ts.Ite(a.Args[0], ts.Const(w, a.Args[1].Val), ts.Const(w, a.Args[2].Val))
	}
	return ts.mk(OpZExt, w, 0, "", a)
}

func (ts *Terms) SExt(a *Term, w int) *Term {
	if w == a.W {
		return a
	}
	if w < a.W {
		panic("SExt narrowing")
	}
	if a.Op == OpConst && w <= 64 {
		return ts.Const(w, uint64(sext64(a.Val, a.W)))
	}
	if a.Op == OpZExt { // zero-extended value has 0 sign bit
		return ts.ZExt(a.Args[0], w)
	}
	return ts.mk(OpSExt, w, 0, "", a)
}

// Resize truncates or extends (signed or unsigned) to width w.
func (ts *Terms) Resize(a *Term, w int, signed bool) *Term {
	if w == a.W {
		return a
	}
	if w < a.W {
		return ts.Extract(a, w-1, 0)
	}
	if signed {
		return ts.SExt(a, w)
	}
	return ts.ZExt(a, w)
}

func (ts *Terms) Ite(c, a, b *Term) *Term {
	if c.Op == OpTrue {
		return a
	}
	if c.Op == OpFalse {
		return b
	}
	if a == b {
		return a
	}
	if a.W == 0 {
		// boolean ite
		if a.Op == OpTrue && b.Op == OpFalse {
			return c
		}
		if a.Op == OpFalse && b.Op == OpTrue {
			return ts.BNot(c)
		}
		if a.Op == OpTrue {
			return ts.BOr(c, b)
		}
		if a.Op == OpFalse {
			return ts.BAnd(ts.BNot(c), b)
		}
		if b.Op == OpFalse {
			return ts.BAnd(c, a)
		}
		if b.Op == OpTrue {
			return ts.BOr(ts.BNot(c), a)
		}
		return ts.BOr(ts.BAnd(c, a), ts.BAnd(ts.BNot(c), b))
	}
	chkW(a, b, "ite")
	if c.Op == OpBNot {
		return ts.Ite(c.Args[0], b, a)
	}
	return ts.mk(OpIte, a.W, 0, "", c, a, b)
}

func (ts *Terms) BNot(a *Term) *Term {
	switch a.Op {
	case OpTrue:
		return ts.False
	case OpFalse:
		return ts.True
	case OpBNot:
		return a.Args[0]
	}
	return ts.mk(OpBNot, 0, 0, "", a)
}

func (ts *Terms) BAnd(a, b *Term) *Term {
	if a.Op == OpFalse || b.Op == OpFalse {
		return ts.False
	}
	if a.Op == OpTrue {
		return b
	}
	if b.Op == OpTrue {
		return a
	}
	if a == b {
		return a
	}
	if a.ID > b.ID {
		a, b = b, a
	}
	return ts.mk(OpBAnd, 0, 0, "", a, b)
}

func (ts *Terms) BOr(a, b *Term) *Term {
	if a.Op == OpTrue || b.Op == OpTrue {
		return ts.True
	}
	if a.Op == OpFalse {
		return b
	}
	if b.Op == OpFalse {
		return a
	}
	if a == b {
		return a
	}
	if a.ID > b.ID {
		a, b = b, a
	}
	return ts.mk(OpBOr, 0, 0, "", a, b)
}

func (ts *Terms) Implies(a, b *Term) *Term { return ts.BOr(ts.BNot(a), b) }

// Eq on BV or Bool.
func (ts *Terms) Eq(a, b *Term) *Term {
	chkW(a, b, "eq")
	if a == b {
		return ts.True
	}
	if a.W == 0 {
		if a.IsConst() && b.IsConst() {
			return ts.Bool(a.Op == b.Op)
		}
		if a.Op == OpTrue {
			return b
		}
		if b.Op == OpTrue {
			return a
		}
		if a.Op == OpFalse {
			return ts.BNot(b)
		}
		if b.Op == OpFalse {
			return ts.BNot(a)
		}
	} else if a.Op == OpConst && b.Op == OpConst {
		return ts.Bool(a.Val == b.Val)
	}
	if a.Op == OpConst {
		a, b = b, a
	}
	if b.Op == OpConst && a.W == 1 && b.Val == 0 {
		// canonical form for single bits: (x == 0) is ¬(x == 1)
		return ts.BNot(ts.Eq(a, ts.Const(1, 1)))
	}
	if b.Op == OpConst && a.W > 0 {
		// ite(c, k1, k2) == k
		if a.Op == OpIte && a.Args[1].Op == OpConst && a.Args[2].Op == OpConst {
			e1 := a.Args[1].Val == b.Val
			e2 := a.Args[2].Val == b.Val
			switch {
			case e1 && e2:
				return ts.True
			case e1:
				return a.Args[0]
			case e2:
				return ts.BNot(a.Args[0])
			default:
				return ts.False
			}
		}
		// zext(x) == k
		if a.Op == OpZExt {
			iw := a.Args[0].W
			if iw < 64 && b.Val>>uint(iw) != 0 {
				return ts.False
			}
			return ts.Eq(a.Args[0], ts.Const(iw, b.Val))
		}
		// concat(hi, lo) == k  (both sides narrow)
		if a.Op == OpConcat && a.W <= 64 {
			lw := a.Args[1].W
			return ts.BAnd(ts.Eq(a.Args[0], ts.Const(a.Args[0].W, b.Val>>uint(lw))), ts.Eq(a.Args[1], ts.Const(lw, b.Val)))
		}
	}
	if a.ID > b.ID && b.Op != OpConst {
		a, b = b, a
	}
	return ts.mk(OpEq, 0, 0, "", a, b)
}

// Cmp builds an ordering comparison.
func (ts *Terms) Cmp(op Op, a, b *Term) *Term {
	chkW(a, b, opNames[op])
	if a.Op == OpConst && b.Op == OpConst {
		switch op {
		case OpUlt:
			return ts.Bool(a.Val < b.Val)
		case OpUle:
			return ts.Bool(a.Val <= b.Val)
		case OpSlt:
			return ts.Bool(sext64(a.Val, a.W) < sext64(b.Val, b.W))
		case OpSle:
			return ts.Bool(sext64(a.Val, a.W) <= sext64(b.Val, b.W))
		}
	}
	if a == b {
		return ts.Bool(op == OpUle || op == OpSle)
	}
	if op == OpUlt && isZero(b) {
		return ts.False
	}
	if op == OpUle && isZero(a) {
		return ts.True
	}
	return ts.mk(op, 0, 0, "", a, b)
}

// ---- printing

func (t *Term) sortStr() string {
	if t.W == 0 {
		return "Bool"
	}
	return fmt.Sprintf("(_ BitVec %d)", t.W)
}

func constStr(w int, v uint64) string {
	if w%4 == 0 {
		return fmt.Sprintf("#x%0*x", w/4, v)
	}
	return fmt.Sprintf("#b%0*b", w, v)
}

func smtName(s string) string {
	ok := true
	for _, c := range s {
		if !(c >= 'a' && c <= 'z' || c >= 'A' && c <= 'Z' || c >= '0' && c <= '9' || c == '_' || c == '.' || c == '$' || c == '!') {
			ok = false
			break
		}
	}
	if ok && len(s) > 0 && !(s[0] >= '0' && s[0] <= '9') {
		return s
	}
	return "|" + strings.ReplaceAll(s, "|", "_") + "|"
}

// ref returns the SMT reference to t, assuming definitions were emitted.
func (t *Term) ref() string {
	switch t.Op {
	case OpConst:
		return constStr(t.W, t.Val)
	case OpTrue:
		return "true"
	case OpFalse:
		return "false"
	case OpVar:
		return smtName("v!" + t.Name)
	}
	return fmt.Sprintf("t%d", t.ID)
}

// body returns the defining SMT expression of a non-leaf term.
func (t *Term) body() string {
	var sb strings.Builder
	switch t.Op {
	case OpApp:
		if len(t.Args) == 0 {
			return smtName(t.Name)
		}
		sb.WriteString("(" + smtName(t.Name))
	case OpExtract:
		fmt.Fprintf(&sb, "((_ extract %d %d)", t.Val>>16, t.Val&0xffff)
	case OpZExt:
		fmt.Fprintf(&sb, "((_ zero_extend %d)", t.W-t.Args[0].W)
	case OpSExt:
		fmt.Fprintf(&sb, "((_ sign_extend %d)", t.W-t.Args[0].W)
	default:
		sb.WriteString("(" + opNames[t.Op])
	}
	for _, a := range t.Args {
		sb.WriteByte(' ')
		sb.WriteString(a.ref())
	}
	sb.WriteByte(')')
	return sb.String()
}

// String renders a small term for diagnostics (bounded depth).
func (t *Term) String() string { return t.str(4) }

func (t *Term) str(d int) string {
	switch t.Op {
	case OpConst, OpTrue, OpFalse, OpVar:
		return t.ref()
	}
	if d == 0 {
		return fmt.Sprintf("t%d", t.ID)
	}
	var sb strings.Builder
	switch t.Op {
	case OpApp:
		sb.WriteString("(" + t.Name)
	case OpExtract:
		fmt.Fprintf(&sb, "(extract[%d:%d]", t.Val>>16, t.Val&0xffff)
	case OpZExt:
		fmt.Fprintf(&sb, "(zext%d", t.W)
	case OpSExt:
		fmt.Fprintf(&sb, "(sext%d", t.W)
	default:
		sb.WriteString("(" + opNames[t.Op])
	}
	for _, a := range t.Args {
		sb.WriteByte(' ')
		sb.WriteString(a.str(d - 1))
	}
	sb.WriteByte(')')
	return sb.String()
}
