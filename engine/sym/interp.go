package sym

import (
	"os"
	"fmt"
	"strings"
	"go/constant"
	"go/token"
	"go/types"

	"golang.org/x/tools/go/ssa"
)

type fnInfo struct {
	idx   map[ssa.Value]int
	nregs int
	pure  map[*ssa.BasicBlock]int // 0 unknown, 1 pure, 2 impure
}

type deferred struct {
	fn   Value
	args []Value
}

type frame struct {
	fn     *ssa.Function
	info   *fnInfo
	regs   []Value
	env    []Value
	block  *ssa.BasicBlock
	prev   *ssa.BasicBlock
	cur    ssa.Instruction
	defers []deferred
	visits map[ssa.Instruction]int
	result Value
}

func (e *Engine) info(fn *ssa.Function) *fnInfo {
	if fi, ok := e.fnInfos[fn]; ok {
		return fi
	}
	fi := &fnInfo{idx: map[ssa.Value]int{}, pure: map[*ssa.BasicBlock]int{}}
	n := 0
	for _, p := range fn.Params {
		fi.idx[p] = n
		n++
	}
	for _, b := range fn.Blocks {
		for _, in := range b.Instrs {
			if v, ok := in.(ssa.Value); ok {
				fi.idx[v] = n
				n++
			}
		}
	}
	fi.nregs = n
	e.fnInfos[fn] = fi
	return fi
}

func (fr *frame) set(v ssa.Value, x Value) { fr.regs[fr.info.idx[v]] = x }

func (e *Engine) get(fr *frame, v ssa.Value) Value {
	switch v := v.(type) {
	case nil:
		return nil
	case *ssa.Const:
		return e.constValue(v)
	case *ssa.Global:
		return e.globalPtr(v)
	case *ssa.Function:
		return v
	case *ssa.Builtin:
		return v
	case *ssa.FreeVar:
		for i, fv := range fr.fn.FreeVars {
			if fv == v {
				return fr.env[i]
			}
		}
		panic("free var not found")
	}
	i, ok := fr.info.idx[v]
	if !ok {
		panic(fmt.Sprintf("get: no register for %T %s", v, v.Name()))
	}
	x := fr.regs[i]
	if x == nil {
		panic(fmt.Sprintf("get: unset register %s in %s", v.Name(), fr.fn))
	}
	return x
}

func (e *Engine) constValue(c *ssa.Const) Value {
	t := c.Type()
	if c.Value == nil {
		if b, ok := t.Underlying().(*types.Basic); ok && b.Kind() == types.UntypedNil {
			return Iface{}
		}
		return e.zero(t)
	}
	if tp, ok := t.(*types.TypeParam); ok {
		_ = tp
		panic("const of type-parameter type")
	}
	b, ok := t.Underlying().(*types.Basic)
	if !ok {
		panic(fmt.Sprintf("constValue: non-basic %v", t))
	}
	switch {
	case b.Info()&types.IsBoolean != 0:
		return e.ts.Bool(constant.BoolVal(c.Value))
	case b.Info()&types.IsInteger != 0:
		w := e.intWidth(b)
		if b.Info()&types.IsUnsigned != 0 || b.Kind() == types.Uintptr {
			u, _ := constant.Uint64Val(constant.ToInt(c.Value))
			return e.ts.Const(w, u)
		}
		i, _ := constant.Int64Val(constant.ToInt(c.Value))
		return e.ts.Const(w, uint64(i))
	case b.Info()&types.IsFloat != 0:
		f, _ := constant.Float64Val(c.Value)
		return f
	case b.Info()&types.IsString != 0:
		return Str{S: constant.StringVal(c.Value), Conc: true}
	case b.Info()&types.IsComplex != 0:
		re, _ := constant.Float64Val(constant.Real(c.Value))
		im, _ := constant.Float64Val(constant.Imag(c.Value))
		return complex(re, im)
	}
	panic(fmt.Sprintf("constValue: %v", t))
}

// globalPtr returns the address of a package-level variable, running the owning
// package's initializer (tolerantly) on first use on this path.
func (e *Engine) globalPtr(g *ssa.Global) Ptr {
	if o, ok := e.globals[g]; ok {
		return Ptr{O: o, C: &o.V}
	}
	o := e.newObj("global " + g.String())
	o.Epoch = -1
	o.Exempt = g.Pkg != nil && isModelPkg(g.Pkg.Pkg.Path())
	o.V = e.zero(g.Type().(*types.Pointer).Elem())
	e.globals[g] = o
	e.ensureInit(g.Pkg)
	return Ptr{O: o, C: &o.V}
}

type poison struct{ why string }

// ensureInit runs pkg's synthesized init function in tolerant mode: each
// instruction that cannot be executed poisons its result instead of aborting.
func (e *Engine) ensureInit(pkg *ssa.Package) {
	if pkg == nil || e.initDone[pkg] || e.initBusy[pkg] {
		return
	}
	e.initBusy[pkg] = true
	init := pkg.Func("init")
	if init != nil && len(init.Blocks) > 0 {
		savedStack := len(e.stack)
		savedEpoch := e.epoch
		e.epoch = -1
		e.tolerant++
		func() {
			defer func() {
				if r := recover(); r != nil {
					// tolerate: leave remaining globals at zero/poison
					e.stack = e.stack[:savedStack]
				}
			}()
			e.callSSA(init, nil, nil)
		}()
		e.tolerant--
		e.epoch = savedEpoch
	}
	e.initDone[pkg] = true
	delete(e.initBusy, pkg)
}

// call invokes fn (function, closure or builtin) with args.
func (e *Engine) callValue(fnv Value, args []Value, site ssa.Instruction) Value {
	switch f := fnv.(type) {
	case *ssa.Function:
		if f == nil {
			e.targetPanic("call of nil function")
		}
		return e.call(f, args, nil)
	case *Closure:
		return e.call(f.Fn, args, f.Env)
	case *ssa.Builtin:
		return e.callBuiltin(f, args, site)
	case nilFunc:
		e.targetPanic("call of nil func value")
	case *HostFunc:
		return f.F(e, args)
	}
	panic(fmt.Sprintf("cannot call %T", fnv))
}

// HostFunc is a function value implemented by the engine.
type HostFunc struct {
	Name string
	F    func(e *Engine, args []Value) Value
}

func (e *Engine) call(fn *ssa.Function, args []Value, env []Value) Value {
	name := fn.String()
	if os.Getenv("VERIF_DEBUGCALL") != "" && strings.Contains(name, os.Getenv("VERIF_DEBUGCALL")) {
		fmt.Fprintf(os.Stderr, "CALL %s summaries=%d tolerant=%d inSummary=%v\n", name, len(e.summaries), e.tolerant, e.inSummary)
	}
	if len(e.summaries) > 0 && e.tolerant == 0 {
		sv, ok := e.sumCache[fn]
		if !ok {
			for suf, v := range e.summaries {
				if strings.HasSuffix(name, suf) {
					sv = v
				}
			}
			e.sumCache[fn] = sv
		}
		if sv != nil && !e.inSummary {
			e.res.Summaries[name]++
			e.inSummary = true
			r := e.callValue(sv, args, nil)
			e.inSummary = false
			return r
		}
	}
	if h, ok := intrinsics[name]; ok {
		e.res.Stubs[name]++
		return h(e, fn, args)
	}
	if o := fn.Origin(); o != nil && o != fn {
		if h, ok := intrinsics[o.String()]; ok {
			e.res.Stubs[o.String()]++
			return h(e, fn, args)
		}
	}
	repl, ok := e.ld.Intercepts[name]
	if !ok {
		if o := fn.Origin(); o != nil && o != fn {
			repl, ok = e.ld.Intercepts[o.String()]
		}
	}
	if ok {
		e.res.Stubs[name+" -> "+repl.String()]++
		fn = repl
		name = repl.String()
	}
	if e.tolerant > 0 && len(e.stack) > 0 && (fn.Name() == "init" || strings.HasPrefix(fn.Name(), "init#")) && fn.Signature.Recv() == nil {
		// nested package initialisers and user init() functions are not run: packages are
		// initialised lazily on first access to one of their variables
		return Tuple(nil)
	}
	return e.callSSA(fn, args, env)
}

// callSSA interprets fn's own SSA body (no intrinsic / summary / intercept lookup).
func (e *Engine) callSSA(fn *ssa.Function, args []Value, env []Value) Value {
	name := fn.String()
	if len(fn.Blocks) == 0 {
		// assembly kernels with a portable Go twin (math/big's addVV / addVV_g, ...)
		if fn.Pkg != nil {
			if g := fn.Pkg.Func(fn.Name() + "_g"); g != nil && len(g.Blocks) > 0 {
				return e.callSSA(g, args, env)
			}
		}
		e.unsupported("function without body: %s", name)
	}
	if len(e.stack) > 400 {
		e.unsupported("call depth exceeded")
	}
	if e.tolerant == 0 {
		e.res.Funcs[name] = true
	}
	fi := e.info(fn)
	fr := &frame{fn: fn, info: fi, regs: make([]Value, fi.nregs), env: env}
	for i, p := range fn.Params {
		fr.regs[fi.idx[p]] = args[i]
	}
	e.stack = append(e.stack, fr)
	e.runFrame(fr)
	e.stack = e.stack[:len(e.stack)-1]
	return fr.result
}

func (e *Engine) runFrame(fr *frame) {
	fr.block = fr.fn.Blocks[0]
	for fr.block != nil {
		b := fr.block
		// phis (parallel assignment)
		nphi := 0
		var phivals []Value
		for _, in := range b.Instrs {
			phi, ok := in.(*ssa.Phi)
			if !ok {
				break
			}
			nphi++
			for i, pred := range b.Preds {
				if pred == fr.prev {
					phivals = append(phivals, e.get(fr, phi.Edges[i]))
					break
				}
			}
		}
		for i := 0; i < nphi; i++ {
			fr.set(b.Instrs[i].(*ssa.Phi), phivals[i])
		}
		next := false
		for _, in := range b.Instrs[nphi:] {
			fr.cur = in
			e.steps++
			if e.steps > e.cfg.MaxSteps {
				e.end("steps", "instruction budget exhausted")
			}
			if e.tolerant > 0 {
				if e.tolerantExec(fr, in) {
					next = true
					break
				}
				continue
			}
			if e.exec(fr, in) {
				next = true
				break
			}
		}
		if !next {
			panic("block fell through: " + fr.fn.String())
		}
	}
}

// tolerantExec executes in, converting failures into poison results.
func (e *Engine) tolerantExec(fr *frame, in ssa.Instruction) (jumped bool) {
	depth := len(e.stack)
	defer func() {
		if r := recover(); r != nil {
			e.stack = e.stack[:depth]
			switch in.(type) {
			case *ssa.If, *ssa.Jump, *ssa.Return, *ssa.Panic:
				panic(r) // control flow cannot be poisoned: abandon this init
			}
			if v, ok := in.(ssa.Value); ok {
				fr.set(v, poison{fmt.Sprint(r)})
			}
			jumped = false
		}
	}()
	return e.exec(fr, in)
}

func (e *Engine) jump(fr *frame, to *ssa.BasicBlock) {
	fr.prev = fr.block
	fr.block = to
}

// exec interprets one instruction; returns true if control moved to another block (or returned).
func (e *Engine) exec(fr *frame, in ssa.Instruction) bool {
	switch in := in.(type) {
	case *ssa.DebugRef:
	case *ssa.UnOp:
		fr.set(in, e.unop(in, e.get(fr, in.X)))
	case *ssa.BinOp:
		fr.set(in, e.maybeCut(fr, in, e.binop(in.Op, in.X.Type(), in.Y.Type(), e.get(fr, in.X), e.get(fr, in.Y))))
	case *ssa.Call:
		fr.set(in, e.doCall(fr, &in.Call, in))
	case *ssa.ChangeInterface:
		fr.set(in, e.get(fr, in.X))
	case *ssa.ChangeType:
		fr.set(in, e.get(fr, in.X))
	case *ssa.Convert:
		fr.set(in, e.conv(in.Type(), in.X.Type(), e.get(fr, in.X)))
	case *ssa.MultiConvert:
		fr.set(in, e.conv(in.Type(), in.X.Type(), e.get(fr, in.X)))
	case *ssa.SliceToArrayPointer:
		s := e.get(fr, in.X).(Slice)
		n := int(in.Type().Underlying().(*types.Pointer).Elem().Underlying().(*types.Array).Len())
		if len(s.D) < n {
			e.targetPanic("slice to array pointer: length %d < %d", len(s.D), n)
		}
		if s.D == nil {
			fr.set(in, Ptr{})
		} else {
			fr.set(in, Ptr{O: s.O, C: nil, Arr: s.D[:n:n], Idx: nil}.asArrayPtr())
		}
	case *ssa.MakeInterface:
		fr.set(in, Iface{T: in.X.Type(), V: e.get(fr, in.X)})
	case *ssa.Extract:
		fr.set(in, e.get(fr, in.Tuple).(Tuple)[in.Index])
	case *ssa.Slice:
		fr.set(in, e.sliceOp(in, e.get(fr, in.X), e.get(fr, in.Low), e.get(fr, in.High), e.get(fr, in.Max)))
	case *ssa.Return:
		switch len(in.Results) {
		case 0:
			fr.result = Tuple(nil)
		case 1:
			fr.result = e.get(fr, in.Results[0])
		default:
			res := make(Tuple, len(in.Results))
			for i, r := range in.Results {
				res[i] = e.get(fr, r)
			}
			fr.result = res
		}
		fr.block = nil
		return true
	case *ssa.RunDefers:
		for len(fr.defers) > 0 {
			d := fr.defers[len(fr.defers)-1]
			fr.defers = fr.defers[:len(fr.defers)-1]
			e.callValue(d.fn, d.args, in)
		}
	case *ssa.Panic:
		v := e.get(fr, in.X)
		e.targetPanic("explicit panic: %s", e.describe(v))
	case *ssa.Store:
		e.store(e.get(fr, in.Addr).(Ptr), e.get(fr, in.Val), in)
	case *ssa.If:
		c := e.get(fr, in.Cond).(*Term)
		if !c.IsConst() {
			if e.ifConvert(fr, in, c) {
				return true
			}
			fr.visitCheck(e, in)
		}
		if e.decideBool(c) {
			e.jump(fr, fr.block.Succs[0])
		} else {
			e.jump(fr, fr.block.Succs[1])
		}
		return true
	case *ssa.Jump:
		e.jump(fr, fr.block.Succs[0])
		return true
	case *ssa.Defer:
		fn, args := e.prepareCall(fr, &in.Call)
		fr.defers = append(fr.defers, deferred{fn, args})
	case *ssa.Go, *ssa.Send, *ssa.Select, *ssa.MakeChan:
		e.unsupported("concurrency instruction %T", in)
	case *ssa.Alloc:
		fr.set(in, e.allocCell(in.Type().Underlying().(*types.Pointer).Elem(), in.Comment))
	case *ssa.MakeSlice:
		ln := e.concretizeInt(e.get(fr, in.Len).(*Term), true)
		cp := e.concretizeInt(e.get(fr, in.Cap).(*Term), true)
		if ln < 0 || cp < ln {
			e.targetPanic("makeslice: len out of range")
		}
		if cp > 1<<22 {
			e.unsupported("makeslice of %d elements", cp)
		}
		fr.set(in, e.makeSlice(in.Type().Underlying().(*types.Slice).Elem(), ln, cp, "makeslice"))
	case *ssa.MakeMap:
		fr.set(in, &Map{KeyT: in.Type().Underlying().(*types.Map).Key()})
	case *ssa.Range:
		fr.set(in, e.rangeIter(e.get(fr, in.X)))
	case *ssa.Next:
		fr.set(in, e.next(e.get(fr, in.Iter).(*Iter), in))
	case *ssa.FieldAddr:
		p := e.get(fr, in.X).(Ptr)
		if p.IsNil() {
			e.targetPanic("nil pointer dereference (field %d)", in.Field)
		}
		if p.C == nil {
			e.unsupported("field address through symbolic pointer")
		}
		s, ok := (*p.C).(Struct)
		if !ok {
			panic(fmt.Sprintf("FieldAddr on %T", *p.C))
		}
		fr.set(in, Ptr{O: p.O, C: &s[in.Field]})
	case *ssa.Field:
		fr.set(in, copyVal(e.get(fr, in.X).(Struct)[in.Field]))
	case *ssa.IndexAddr:
		fr.set(in, e.indexAddr(e.get(fr, in.X), e.get(fr, in.Index).(*Term), in))
	case *ssa.Index:
		fr.set(in, e.index(e.get(fr, in.X), e.get(fr, in.Index).(*Term), in))
	case *ssa.Lookup:
		fr.set(in, e.lookup(in, e.get(fr, in.X), e.get(fr, in.Index)))
	case *ssa.MapUpdate:
		e.mapUpdate(e.get(fr, in.Map).(*Map), e.get(fr, in.Key), e.get(fr, in.Value))
	case *ssa.TypeAssert:
		fr.set(in, e.typeAssert(in, e.get(fr, in.X).(Iface)))
	case *ssa.MakeClosure:
		var env []Value
		for _, b := range in.Bindings {
			env = append(env, e.get(fr, b))
		}
		fr.set(in, &Closure{Fn: in.Fn.(*ssa.Function), Env: env})
	default:
		e.unsupported("instruction %T", in)
	}
	return false
}

// asArrayPtr turns a slice view into a pointer to an array value sharing cells.
// Arrays behind pointers are represented as Ptr{Arr: cells} with Idx==nil and C==nil is
// not possible in general, so we materialise an Array header that aliases the cells.
func (p Ptr) asArrayPtr() Ptr {
	arr := Array(p.Arr)
	var v Value = arr
	return Ptr{O: p.O, C: &v}
}

func (fr *frame) visitCheck(e *Engine, in ssa.Instruction) {
	if fr.visits == nil {
		fr.visits = map[ssa.Instruction]int{}
	}
	fr.visits[in]++
	if fr.visits[in] > e.unwind {
		if e.unwindPrune {
			e.end("prune", "assumed unwinding bound reached")
		}
		e.end("unwind", "unwinding bound %d exceeded", e.unwind)
	}
}

func (e *Engine) prepareCall(fr *frame, c *ssa.CallCommon) (Value, []Value) {
	v := e.get(fr, c.Value)
	var args []Value
	var fn Value
	if c.Method == nil {
		fn = v
	} else {
		recv, ok := v.(Iface)
		if !ok {
			panic(fmt.Sprintf("invoke on %T", v))
		}
		if recv.T == nil {
			e.targetPanic("method %s invoked on nil interface", c.Method.Name())
		}
		if h, ok := recv.V.(*Host); ok && h != nil {
			if hm, ok := hostMethods[h.Kind+"."+c.Method.Name()]; ok {
				fn = &HostFunc{Name: h.Kind + "." + c.Method.Name(), F: hm}
				args = append(args, recv.V)
				for _, a := range c.Args {
					args = append(args, e.get(fr, a))
				}
				return fn, args
			}
		}
		f := e.prog.LookupMethod(recv.T, c.Method.Pkg(), c.Method.Name())
		if f == nil {
			panic(fmt.Sprintf("method %s not found on %v", c.Method.Name(), recv.T))
		}
		fn = f
		args = append(args, recv.V)
	}
	for _, a := range c.Args {
		args = append(args, e.get(fr, a))
	}
	return fn, args
}

func (e *Engine) doCall(fr *frame, c *ssa.CallCommon, site ssa.Instruction) Value {
	fn, args := e.prepareCall(fr, c)
	for _, a := range args {
		if p, ok := a.(poison); ok {
			panic("poisoned argument: " + p.why)
		}
	}
	return e.callValue(fn, args, site)
}

// ifConvert handles a symbolic branch whose arms are side-effect-free by evaluating
// both and merging at the join with ite (no path fork). Shapes handled:
//
//	B: if c goto T else J   T: pure; jump J          (triangle)
//	B: if c goto J else F   F: pure; jump J
//	B: if c goto T else F   T,F pure; both jump J    (diamond)
func (e *Engine) ifConvert(fr *frame, in *ssa.If, c *Term) bool {
	b := fr.block
	t, f := b.Succs[0], b.Succs[1]
	var join *ssa.BasicBlock
	tPure := e.pureArm(fr, t, b)
	fPure := e.pureArm(fr, f, b)
	switch {
	case tPure && fPure && t.Succs[0] == f.Succs[0] && t != f:
		join = t.Succs[0]
	case tPure && t.Succs[0] == f:
		join = f
		fPure = false
	case fPure && f.Succs[0] == t:
		join = t
		tPure = false
	default:
		return false
	}
	if join == b {
		return false
	}
	// the join's phis must be mergeable: evaluate arms
	if tPure && !e.execPure(fr, t) {
		return false
	}
	if fPure && !e.execPure(fr, f) {
		return false
	}
	tPred, fPred := b, b
	if tPure {
		tPred = t
	}
	if fPure {
		fPred = f
	}
	// compute merged phi values
	var phis []*ssa.Phi
	var vals []Value
	for _, ji := range join.Instrs {
		phi, ok := ji.(*ssa.Phi)
		if !ok {
			break
		}
		var vt, vf Value
		for i, p := range join.Preds {
			if p == tPred {
				vt = e.get(fr, phi.Edges[i])
			}
			if p == fPred {
				vf = e.get(fr, phi.Edges[i])
			}
		}
		m, ok := e.mergeVals(c, vt, vf)
		if !ok {
			return false
		}
		phis = append(phis, phi)
		vals = append(vals, m)
	}
	for i, phi := range phis {
		fr.set(phi, vals[i])
	}
	// continue at join, after the phis
	fr.prev = tPred
	fr.block = join
	e.runBlockAfterPhis(fr, len(phis))
	return true
}

// runBlockAfterPhis executes the rest of fr.block; control continues in runFrame.
func (e *Engine) runBlockAfterPhis(fr *frame, nphi int) {
	b := fr.block
	for _, in := range b.Instrs[nphi:] {
		fr.cur = in
		e.steps++
		if e.exec(fr, in) {
			return
		}
	}
	panic("block fell through")
}

func (e *Engine) mergeVals(c *Term, a, b Value) (Value, bool) {
	ta, ok1 := a.(*Term)
	tb, ok2 := b.(*Term)
	if ok1 && ok2 && ta.W == tb.W {
		return e.ts.Ite(c, ta, tb), true
	}
	return nil, false
}

// pureArm reports whether blk is a single-predecessor block of side-effect-free
// scalar instructions ending in an unconditional jump.
func (e *Engine) pureArm(fr *frame, blk, pred *ssa.BasicBlock) bool {
	if st := fr.info.pure[blk]; st != 0 {
		return st == 1
	}
	ok := len(blk.Preds) == 1 && blk.Preds[0] == pred && len(blk.Succs) == 1 && len(blk.Instrs) <= 24
	if ok {
		for i, in := range blk.Instrs {
			switch in := in.(type) {
			case *ssa.BinOp:
				switch in.Op {
				case token.QUO, token.REM, token.SHL, token.SHR:
					// may panic (division by zero, negative shift): execPure re-checks the
					// run-time divisor/count and abandons the conversion if it is not a safe constant
				}
				if !isScalar(in.X.Type()) {
					ok = false
				}
			case *ssa.UnOp:
				if in.Op == token.MUL || in.Op == token.ARROW {
					ok = false
				}
			case *ssa.Convert:
				if !isScalar(in.Type()) || !isScalar(in.X.Type()) {
					ok = false
				}
			case *ssa.ChangeType:
				if !isScalar(in.Type()) {
					ok = false
				}
			case *ssa.DebugRef:
			case *ssa.Jump:
				if i != len(blk.Instrs)-1 {
					ok = false
				}
			default:
				ok = false
			}
		}
	}
	if ok {
		fr.info.pure[blk] = 1
	} else {
		fr.info.pure[blk] = 2
	}
	return ok
}

func isScalar(t types.Type) bool {
	b, ok := t.Underlying().(*types.Basic)
	return ok && b.Info()&(types.IsInteger|types.IsBoolean) != 0
}

func (e *Engine) execPure(fr *frame, blk *ssa.BasicBlock) bool {
	for _, in := range blk.Instrs {
		if _, ok := in.(*ssa.Jump); ok {
			return true
		}
		if bo, ok := in.(*ssa.BinOp); ok {
			switch bo.Op {
			case token.QUO, token.REM:
				y, ok := e.get(fr, bo.Y).(*Term)
				if !ok || y.Op != OpConst || y.Val == 0 {
					return false
				}
			case token.SHL, token.SHR:
				if isSigned(bo.Y.Type()) {
					y, ok := e.get(fr, bo.Y).(*Term)
					if !ok || y.Op != OpConst || sext64(y.Val, y.W) < 0 {
						return false
					}
				}
			}
		}
		fr.cur = in
		e.steps++
		e.exec(fr, in)
	}
	return true
}

func (e *Engine) describe(v Value) string {
	switch v := v.(type) {
	case Iface:
		if v.T == nil {
			return "nil"
		}
		return fmt.Sprintf("%v(%s)", v.T, e.describe(v.V))
	case Str:
		if v.Conc {
			return fmt.Sprintf("%q", v.S)
		}
		return "<symbolic string>"
	case *Term:
		return v.String()
	}
	return fmt.Sprintf("%T", v)
}
