package sym

import (
	"fmt"
	"strings"
	"go/types"

	"golang.org/x/tools/go/ssa"
)

// Value is a boxed interpreter value. Dynamic types:
//
//	*Term      integers and booleans (bit-vector / Bool terms)
//	float64    concrete floating point
//	Str        string (immutable byte-term vector)
//	Ptr        pointer (zero Ptr is nil)
//	Slice      slice (D == nil is the nil slice)
//	Struct     struct value (copied on load/store)
//	Array      array value (copied on load/store)
//	Iface      interface value (T == nil is the nil interface)
//	*Closure, *ssa.Function, *ssa.Builtin, nilFunc  functions
//	*Map       map (nil *Map is the nil map)
//	Tuple      multi-value
//	*Iter      range iterator
//	*Host      opaque host object used by models
type Value = any

type Tuple []Value
type Struct []Value
type Array []Value

// Obj identifies an allocation (for ownership monitors and pointer identity).
type Obj struct {
	ID        int
	Epoch     int
	Name      string
	Protected string // non-empty: stores are violations (reason label)
	Exempt    bool   // owned by the models / runtime: not subject to FreezeAll
	Site      string
	V         Value   // for Alloc'ed cells
	Arr       []Value // for MakeSlice backing arrays
	Blob      *Blob   // attached opaque payload (proto blobs)
}

type Ptr struct {
	O *Obj
	C *Value
	// symbolic element pointer: Arr/Idx set, C nil
	Arr []Value
	Idx *Term
}

func (p Ptr) IsNil() bool { return p.C == nil && p.Idx == nil }

type Slice struct {
	O *Obj
	D []Value
}

type Str struct {
	B []*Term // each 8-bit
	S string  // valid when Conc
	Conc bool
}

type Iface struct {
	T types.Type
	V Value
}

type Closure struct {
	Fn  *ssa.Function
	Env []Value
}

type nilFunc struct{}

type mapEntry struct {
	K, V    Value
	Deleted bool
}

type Map struct {
	KeyT    types.Type
	Entries []*mapEntry
}

type Iter struct {
	// map iteration
	M   *Map
	Pos int
	// string iteration
	S    Str
	IsStr bool
}

// RatFloat is a floating-point value known to be exactly I/Den for a (possibly symbolic)
// signed 64-bit integer I with |I| <= 2^53 and a positive concrete Den. It arises from
// int->float conversions of symbolic integers and supports only what the code under test
// does with such values: conversion back to an integer (Den == 1) and ordering against
// concrete floats.
type RatFloat struct {
	I   *Term
	Den int64
}

// Host is an opaque object owned by a host-side model.
type Host struct {
	Kind string
	Data any
}

// Blob is the payload of a structure-preserving serialization.
type Blob struct {
	T   types.Type
	Val Value
	ID  int
}

func mkStr(s string, ts *Terms) Str {
	return Str{S: s, Conc: true}
}

func (s Str) Len() int {
	if s.Conc {
		return len(s.S)
	}
	return len(s.B)
}

func (s Str) Byte(ts *Terms, i int) *Term {
	if s.Conc {
		return ts.Const(8, uint64(s.S[i]))
	}
	return s.B[i]
}

func (s Str) Bytes(ts *Terms) []*Term {
	if !s.Conc {
		return s.B
	}
	out := make([]*Term, len(s.S))
	for i := 0; i < len(s.S); i++ {
		out[i] = ts.Const(8, uint64(s.S[i]))
	}
	return out
}

func strFromTerms(b []*Term) Str {
	conc := true
	for _, t := range b {
		if t.Op != OpConst {
			conc = false
			break
		}
	}
	if conc {
		bs := make([]byte, len(b))
		for i, t := range b {
			bs[i] = byte(t.Val)
		}
		return Str{S: string(bs), Conc: true}
	}
	return Str{B: append([]*Term(nil), b...)}
}

// zero returns the zero value of t.
func (e *Engine) zero(t types.Type) Value {
	switch t := t.(type) {
	case *types.Basic:
		if t.Kind() == types.UntypedNil {
			panic("untyped nil has no zero value")
		}
		switch {
		case t.Info()&types.IsBoolean != 0:
			return e.ts.False
		case t.Info()&types.IsInteger != 0:
			return e.ts.Const(e.intWidth(t), 0)
		case t.Info()&types.IsFloat != 0:
			return float64(0)
		case t.Info()&types.IsString != 0:
			return Str{Conc: true}
		case t.Kind() == types.UnsafePointer:
			return Ptr{}
		case t.Info()&types.IsComplex != 0:
			return complex128(0)
		}
	case *types.Pointer:
		return Ptr{}
	case *types.Array:
		a := make(Array, t.Len())
		for i := range a {
			a[i] = e.zero(t.Elem())
		}
		return a
	case *types.Slice:
		return Slice{}
	case *types.Struct:
		s := make(Struct, t.NumFields())
		for i := range s {
			s[i] = e.zero(t.Field(i).Type())
		}
		return s
	case *types.Tuple:
		if t.Len() == 1 {
			return e.zero(t.At(0).Type())
		}
		s := make(Tuple, t.Len())
		for i := range s {
			s[i] = e.zero(t.At(i).Type())
		}
		return s
	case *types.Chan:
		return (*Host)(nil)
	case *types.Map:
		return (*Map)(nil)
	case *types.Signature:
		return nilFunc{}
	case *types.Interface:
		return Iface{}
	case *types.Named, *types.Alias:
		return e.zero(t.Underlying())
	case *types.TypeParam:
		panic("zero of type parameter")
	}
	panic(fmt.Sprintf("zero: unexpected type %T %v", t, t))
}

func (e *Engine) intWidth(t *types.Basic) int {
	switch t.Kind() {
	case types.Int8, types.Uint8:
		return 8
	case types.Int16, types.Uint16:
		return 16
	case types.Int32, types.Uint32:
		return 32
	case types.Int64, types.Uint64, types.Int, types.Uint, types.Uintptr, types.UntypedInt, types.UntypedRune:
		return 64
	}
	panic("intWidth: " + t.String())
}

func isSigned(t types.Type) bool {
	b, ok := t.Underlying().(*types.Basic)
	return ok && b.Info()&types.IsInteger != 0 && b.Info()&types.IsUnsigned == 0
}

func isInteger(t types.Type) bool {
	b, ok := t.Underlying().(*types.Basic)
	return ok && b.Info()&types.IsInteger != 0
}

func isFloat(t types.Type) bool {
	b, ok := t.Underlying().(*types.Basic)
	return ok && b.Info()&types.IsFloat != 0
}

func isString(t types.Type) bool {
	b, ok := t.Underlying().(*types.Basic)
	return ok && b.Info()&types.IsString != 0
}

func isBoolean(t types.Type) bool {
	b, ok := t.Underlying().(*types.Basic)
	return ok && b.Info()&types.IsBoolean != 0
}

// copyVal makes a deep copy of aggregate values (arrays/structs have value semantics).
func copyVal(v Value) Value {
	switch v := v.(type) {
	case Struct:
		c := make(Struct, len(v))
		for i := range v {
			c[i] = copyVal(v[i])
		}
		return c
	case Array:
		c := make(Array, len(v))
		for i := range v {
			c[i] = copyVal(v[i])
		}
		return c
	case Tuple:
		// tuples are immutable
		return v
	}
	return v
}

// newObj allocates a tracked object.
func (e *Engine) newObj(name string) *Obj {
	e.objSeq++
	o := &Obj{ID: e.objSeq, Epoch: e.epoch, Name: name}
	// memory owned by the environment models / the harness runtime is not subject to FreezeAll
	if n := len(e.stack); n > 0 {
		if fn := e.stack[n-1].fn; fn != nil && fn.Pkg != nil && isModelPkg(fn.Pkg.Pkg.Path()) {
			o.Exempt = true
		}
	}
	return o
}

func isModelPkg(path string) bool {
	return strings.HasSuffix(path, "/internal/verifmodels") || strings.HasSuffix(path, "/internal/verifrt")
}

func (e *Engine) allocCell(t types.Type, name string) Ptr {
	o := e.newObj(name)
	o.V = e.zero(t)
	return Ptr{O: o, C: &o.V}
}

func (e *Engine) makeSlice(elem types.Type, ln, cp int, name string) Slice {
	o := e.newObj(name)
	o.Arr = make([]Value, cp)
	for i := range o.Arr {
		o.Arr[i] = e.zero(elem)
	}
	return Slice{O: o, D: o.Arr[:ln:cp]}
}

// byteSlice builds a fresh []byte slice value from terms.
func (e *Engine) byteSlice(b []*Term, name string) Slice {
	o := e.newObj(name)
	o.Arr = make([]Value, len(b))
	for i, t := range b {
		o.Arr[i] = t
	}
	return Slice{O: o, D: o.Arr}
}

func sliceTerms(s Slice) []*Term {
	out := make([]*Term, len(s.D))
	for i, v := range s.D {
		out[i] = v.(*Term)
	}
	return out
}
