package sym

import (
	"bufio"
	"fmt"
	"io"
	"os"
	"os/exec"
	"strconv"
	"strings"
	"time"
)

// Solver is one long-lived SMT solver process driven over stdin/stdout.
type Solver struct {
	Kind    string // "z3", "z3-new", "cvc5", "cvc5-int"
	cmd     *exec.Cmd
	in      io.WriteCloser
	out     *bufio.Reader
	ts      *Terms
	defined map[int]bool
	declV   map[string]bool
	declF   map[string]bool
	depth   int
	Queries int
	Time    time.Duration
	Errors  int
	log     io.Writer
	timeout int // ms
	dead    bool
}

func solverArgv(kind string) []string {
	switch kind {
	case "z3":
		return []string{"z3", "-in"}
	case "z3-new":
		return []string{"z3-new", "-in"}
	case "cvc5":
		return []string{"cvc5", "--incremental", "--produce-models", "--lang=smt2"}
	case "cvc5-int":
		return []string{"cvc5", "--incremental", "--produce-models", "--lang=smt2", "--solve-bv-as-int=sum"}
	}
	panic("unknown solver " + kind)
}

func oneShotArgv(kind string) []string {
	switch kind {
	case "z3":
		return []string{"z3", "-in"}
	case "z3-new":
		return []string{"z3-new", "-in"}
	case "cvc5":
		return []string{"cvc5", "--produce-models", "--lang=smt2"}
	case "cvc5-int":
		return []string{"cvc5", "--produce-models", "--lang=smt2", "--solve-bv-as-int=sum"}
	}
	panic("unknown solver " + kind)
}

// NewSolver starts a solver process.
func NewSolver(kind string, ts *Terms, timeoutMs int) (*Solver, error) {
	argv := solverArgv(kind)
	cmd := exec.Command(argv[0], argv[1:]...)
	in, err := cmd.StdinPipe()
	if err != nil {
		return nil, err
	}
	out, err := cmd.StdoutPipe()
	if err != nil {
		return nil, err
	}
	cmd.Stderr = cmd.Stdout
	if err := cmd.Start(); err != nil {
		return nil, err
	}
	s := &Solver{Kind: kind, cmd: cmd, in: in, out: bufio.NewReaderSize(out, 1<<16), ts: ts, defined: map[int]bool{}, declV: map[string]bool{}, declF: map[string]bool{}, timeout: timeoutMs}
	if p := os.Getenv("VERIF_SMTLOG"); p != "" {
		f, _ := os.OpenFile(p, os.O_CREATE|os.O_WRONLY|os.O_APPEND, 0o644)
		s.log = f
	}
	s.send("(set-option :print-success false)")
	s.send("(set-option :global-declarations true)")
	if strings.HasPrefix(kind, "cvc5") {
		s.send("(set-logic ALL)")
		s.send(fmt.Sprintf("(set-option :tlimit-per %d)", timeoutMs))
	} else {
		s.send("(set-option :produce-models true)")
		s.send(fmt.Sprintf("(set-option :timeout %d)", timeoutMs))
	}
	return s, nil
}

func (s *Solver) SetTimeout(ms int) {
	if ms == s.timeout {
		return
	}
	s.timeout = ms
	if strings.HasPrefix(s.Kind, "cvc5") {
		s.send(fmt.Sprintf("(set-option :tlimit-per %d)", ms))
	} else {
		s.send(fmt.Sprintf("(set-option :timeout %d)", ms))
	}
}

func (s *Solver) Close() {
	if s.cmd != nil {
		s.in.Close()
		s.cmd.Process.Kill()
		s.cmd.Wait()
		s.cmd = nil
	}
}

func (s *Solver) send(line string) {
	if s.log != nil {
		fmt.Fprintln(s.log, line)
	}
	if _, err := io.WriteString(s.in, line+"\n"); err != nil {
		s.dead = true
	}
}

// define emits declarations/definitions for t and all its sub-terms.
func (s *Solver) define(t *Term) {
	// iterative post-order
	type fr struct {
		t *Term
		i int
	}
	if s.isDefined(t) {
		return
	}
	stack := []fr{{t, 0}}
	for len(stack) > 0 {
		top := &stack[len(stack)-1]
		if top.i < len(top.t.Args) {
			a := top.t.Args[top.i]
			top.i++
			if !s.isDefined(a) {
				stack = append(stack, fr{a, 0})
			}
			continue
		}
		u := top.t
		stack = stack[:len(stack)-1]
		if s.isDefined(u) {
			continue
		}
		switch u.Op {
		case OpVar:
			s.send(fmt.Sprintf("(declare-const %s %s)", u.ref(), u.sortStr()))
			s.declV[u.Name] = true
		case OpApp:
			if !s.declF[u.Name] {
				var sb strings.Builder
				fmt.Fprintf(&sb, "(declare-fun %s (", smtName(u.Name))
				for i, a := range u.Args {
					if i > 0 {
						sb.WriteByte(' ')
					}
					sb.WriteString(a.sortStr())
				}
				fmt.Fprintf(&sb, ") %s)", u.sortStr())
				s.send(sb.String())
				s.declF[u.Name] = true
			}
			s.send(fmt.Sprintf("(define-fun t%d () %s %s)", u.ID, u.sortStr(), u.body()))
			s.defined[u.ID] = true
		default:
			s.send(fmt.Sprintf("(define-fun t%d () %s %s)", u.ID, u.sortStr(), u.body()))
			s.defined[u.ID] = true
		}
	}
}

func (s *Solver) isDefined(t *Term) bool {
	switch t.Op {
	case OpConst, OpTrue, OpFalse:
		return true
	case OpVar:
		return s.declV[t.Name]
	}
	return s.defined[t.ID]
}

func (s *Solver) Push() {
	s.send("(push 1)")
	s.depth++
}

func (s *Solver) Pop(n int) {
	if n <= 0 {
		return
	}
	s.send(fmt.Sprintf("(pop %d)", n))
	s.depth -= n
}

func (s *Solver) Assert(t *Term) {
	s.define(t)
	s.send("(assert " + t.ref() + ")")
}

// Result of a check.
type Result int

const (
	Unsat Result = iota
	Sat
	Unknown
)

func (r Result) String() string { return [...]string{"unsat", "sat", "unknown"}[r] }

func (s *Solver) readLine() (string, error) {
	type res struct {
		l   string
		err error
	}
	ch := make(chan res, 1)
	go func() {
		l, err := s.out.ReadString('\n')
		ch <- res{l, err}
	}()
	lim := time.Duration(s.timeout)*time.Millisecond*2 + 30*time.Second
	select {
	case r := <-ch:
		return strings.TrimSpace(r.l), r.err
	case <-time.After(lim):
		s.dead = true
		s.cmd.Process.Kill()
		return "", fmt.Errorf("solver hung")
	}
}

// Check runs (check-sat).
func (s *Solver) Check() Result {
	if s.dead {
		return Unknown
	}
	t0 := time.Now()
	s.send("(check-sat)")
	s.Queries++
	defer func() { s.Time += time.Since(t0) }()
	for {
		l, err := s.readLine()
		if err != nil {
			s.dead = true
			s.Errors++
			return Unknown
		}
		switch {
		case l == "sat":
			return Sat
		case l == "unsat":
			return Unsat
		case l == "unknown" || l == "timeout":
			return Unknown
		case l == "":
			continue
		case strings.Contains(l, "(error"):
			s.Errors++
			fmt.Fprintf(os.Stderr, "solver %s error: %s\n", s.Kind, l)
			// keep reading: a verdict line may still follow; but mark inconclusive
			r := s.drainVerdict()
			_ = r
			return Unknown
		default:
			// warnings etc.
			continue
		}
	}
}

func (s *Solver) drainVerdict() Result {
	for {
		l, err := s.readLine()
		if err != nil {
			return Unknown
		}
		if l == "sat" || l == "unsat" || l == "unknown" || l == "timeout" {
			return Unknown
		}
	}
}

// CheckWith pushes, asserts extra, checks, and pops.
func (s *Solver) CheckWith(extra ...*Term) Result {
	for _, e := range extra {
		s.define(e)
	}
	s.Push()
	for _, e := range extra {
		s.send("(assert " + e.ref() + ")")
	}
	r := s.Check()
	s.Pop(1)
	return r
}

// CheckWithModel is CheckWith but on Sat also fetches values for vars before popping.
func (s *Solver) CheckWithModel(vars []*Term, extra ...*Term) (Result, map[string]uint64) {
	for _, e := range extra {
		s.define(e)
	}
	for _, v := range vars {
		s.define(v)
	}
	s.Push()
	for _, e := range extra {
		s.send("(assert " + e.ref() + ")")
	}
	r := s.Check()
	var m map[string]uint64
	if r == Sat {
		m = s.GetValues(vars)
	}
	s.Pop(1)
	return r, m
}

// GetValues fetches model values (after a Sat). Wide (>64-bit) vars are not supported.
func (s *Solver) GetValues(vars []*Term) map[string]uint64 {
	m := map[string]uint64{}
	if len(vars) == 0 || s.dead {
		return m
	}
	// chunk to keep lines manageable
	for i := 0; i < len(vars); i += 200 {
		j := i + 200
		if j > len(vars) {
			j = len(vars)
		}
		var sb strings.Builder
		sb.WriteString("(get-value (")
		for _, v := range vars[i:j] {
			sb.WriteString(v.ref())
			sb.WriteByte(' ')
		}
		sb.WriteString("))")
		s.send(sb.String())
		// read balanced s-expression
		text := s.readSexp()
		parseValues(text, vars[i:j], m)
	}
	return m
}

func (s *Solver) readSexp() string {
	var sb strings.Builder
	depth := 0
	started := false
	for {
		l, err := s.readLine()
		if err != nil {
			s.dead = true
			return sb.String()
		}
		if !started && strings.Contains(l, "(error") {
			s.Errors++
			return ""
		}
		for _, c := range l {
			if c == '(' {
				depth++
				started = true
			} else if c == ')' {
				depth--
			}
		}
		sb.WriteString(l)
		sb.WriteByte(' ')
		if started && depth <= 0 {
			return sb.String()
		}
	}
}

func parseValues(text string, vars []*Term, m map[string]uint64) {
	// tokens: ((name value) (name value) ...)
	toks := tokenize(text)
	// walk pairs: "(" name value ")"
	byRef := map[string]*Term{}
	for _, v := range vars {
		byRef[v.ref()] = v
	}
	for i := 0; i+2 < len(toks); i++ {
		if toks[i] == "(" && toks[i+1] != "(" {
			name := toks[i+1]
			v, ok := byRef[name]
			if !ok {
				continue
			}
			val := toks[i+2]
			var x uint64
			switch {
			case val == "true":
				x = 1
			case val == "false":
				x = 0
			case strings.HasPrefix(val, "#x"):
				x, _ = strconv.ParseUint(val[2:], 16, 64)
			case strings.HasPrefix(val, "#b"):
				x, _ = strconv.ParseUint(val[2:], 2, 64)
			case val == "(" && i+4 < len(toks) && toks[i+3] == "_" && strings.HasPrefix(toks[i+4], "bv"):
				x, _ = strconv.ParseUint(toks[i+4][2:], 10, 64)
			}
			key := v.Name
			if v.Op != OpVar {
				key = v.ref()
			}
			m[key] = x
		}
	}
}

func tokenize(s string) []string {
	var out []string
	i := 0
	for i < len(s) {
		c := s[i]
		switch {
		case c == '(' || c == ')':
			out = append(out, string(c))
			i++
		case c == ' ' || c == '\n' || c == '\t' || c == '\r':
			i++
		case c == '|':
			j := i + 1
			for j < len(s) && s[j] != '|' {
				j++
			}
			out = append(out, s[i:j+1])
			i = j + 1
		default:
			j := i
			for j < len(s) && s[j] != '(' && s[j] != ')' && s[j] != ' ' && s[j] != '\n' {
				j++
			}
			out = append(out, s[i:j])
			i = j
		}
	}
	return out
}

// Script renders a standalone SMT-LIB2 script asserting all of asserts.
func Script(ts *Terms, asserts []*Term, getVars []*Term) string {
	var sb strings.Builder
	sb.WriteString("(set-logic ALL)\n")
	seen := map[int]bool{}
	declF := map[string]bool{}
	var walk func(t *Term)
	walk = func(t *Term) {
		if seen[t.ID] || t.IsConst() {
			return
		}
		seen[t.ID] = true
		for _, a := range t.Args {
			walk(a)
		}
		switch t.Op {
		case OpVar:
			fmt.Fprintf(&sb, "(declare-const %s %s)\n", t.ref(), t.sortStr())
		case OpApp:
			if !declF[t.Name] {
				fmt.Fprintf(&sb, "(declare-fun %s (", smtName(t.Name))
				for i, a := range t.Args {
					if i > 0 {
						sb.WriteByte(' ')
					}
					sb.WriteString(a.sortStr())
				}
				fmt.Fprintf(&sb, ") %s)\n", t.sortStr())
				declF[t.Name] = true
			}
			fmt.Fprintf(&sb, "(define-fun t%d () %s %s)\n", t.ID, t.sortStr(), t.body())
		default:
			fmt.Fprintf(&sb, "(define-fun t%d () %s %s)\n", t.ID, t.sortStr(), t.body())
		}
	}
	for _, a := range asserts {
		walk(a)
	}
	for _, v := range getVars {
		walk(v)
	}
	for _, a := range asserts {
		fmt.Fprintf(&sb, "(assert %s)\n", a.ref())
	}
	sb.WriteString("(check-sat)\n")
	if len(getVars) > 0 {
		sb.WriteString("(get-value (")
		for _, v := range getVars {
			sb.WriteString(v.ref() + " ")
		}
		sb.WriteString("))\n")
	}
	return sb.String()
}

// RunScript runs a one-shot solver on a script with a wall-clock cap.
func RunScript(kind, script string, timeout time.Duration, vars []*Term) (Result, map[string]uint64, time.Duration, error) {
	return runScriptCancel(kind, script, timeout, vars, nil)
}

func runScriptCancel(kind, script string, timeout time.Duration, vars []*Term, cancel <-chan struct{}) (Result, map[string]uint64, time.Duration, error) {
	argv := oneShotArgv(kind)
	cmd := exec.Command(argv[0], argv[1:]...)
	cmd.Stdin = strings.NewReader(script)
	var outb strings.Builder
	cmd.Stdout = &outb
	cmd.Stderr = &outb
	t0 := time.Now()
	if err := cmd.Start(); err != nil {
		return Unknown, nil, 0, err
	}
	done := make(chan error, 1)
	go func() { done <- cmd.Wait() }()
	select {
	case <-done:
	case <-time.After(timeout):
		cmd.Process.Kill()
		<-done
		return Unknown, nil, time.Since(t0), nil
	case <-cancel:
		cmd.Process.Kill()
		<-done
		return Unknown, nil, time.Since(t0), nil
	}
	el := time.Since(t0)
	out := outb.String()
	lines := strings.Split(out, "\n")
	res := Unknown
	idx := -1
	for i, l := range lines {
		l = strings.TrimSpace(l)
		if strings.Contains(l, "(error") {
			// an error before the verdict makes the run inconclusive
			return Unknown, nil, el, fmt.Errorf("solver error: %s", l)
		}
		if l == "sat" {
			res = Sat
			idx = i
			break
		}
		if l == "unsat" {
			res = Unsat
			break
		}
		if l == "unknown" || l == "timeout" {
			break
		}
	}
	m := map[string]uint64{}
	if res == Sat && len(vars) > 0 {
		parseValues(strings.Join(lines[idx+1:], " "), vars, m)
	}
	return res, m, el, nil
}

func firstLine(s string) string {
	for _, l := range strings.Split(s, "\n") {
		if strings.Contains(l, "(error") {
			return l
		}
	}
	return ""
}
