package sym

import (
	"fmt"
	"go/types"
	"strings"

	"golang.org/x/tools/go/ssa"
)

// Structure-preserving model of proto.Marshal / proto.Unmarshal: Marshal snapshots the
// message's field values into a blob table and returns 8 bytes "PBLOB" || id; Unmarshal of
// such bytes restores the snapshot. Structurally identical snapshots share one id, so two
// serializations of equal messages are byte-identical. The model assumes what the protobuf
// wire format guarantees for well-formed messages (lossless round trip, deterministic
// encoding of equal messages); parsing of arbitrary bytes is outside it.

type blobRec struct {
	t   types.Type // the message struct type
	val Value      // deep snapshot (Struct)
	key string
}

func isProtoInternalField(f *types.Var) bool {
	n := f.Name()
	return n == "state" || n == "sizeCache" || n == "unknownFields" || n == "extensionFields" || n == "XXX_unrecognized"
}

// snapshot deep-copies v of type t (following pointers to messages and slices).
func (e *Engine) snapshot(v Value, t types.Type, depth int) Value {
	if depth > 12 {
		e.unsupported("proto snapshot: nesting too deep")
	}
	switch tt := t.Underlying().(type) {
	case *types.Struct:
		sv, ok := v.(Struct)
		if !ok {
			return v
		}
		out := make(Struct, len(sv))
		for i := range sv {
			f := tt.Field(i)
			if isProtoInternalField(f) {
				out[i] = e.zero(f.Type())
				continue
			}
			out[i] = e.snapshot(sv[i], f.Type(), depth+1)
		}
		return out
	case *types.Pointer:
		p, ok := v.(Ptr)
		if !ok || p.IsNil() || p.C == nil {
			return Ptr{}
		}
		if _, isStruct := tt.Elem().Underlying().(*types.Struct); !isStruct {
			return v
		}
		o := e.newObj("proto snapshot")
		o.V = e.snapshot(*p.C, tt.Elem(), depth+1)
		return Ptr{O: o, C: &o.V}
	case *types.Slice:
		s, ok := v.(Slice)
		if !ok || s.D == nil {
			return Slice{}
		}
		o := e.newObj("proto snapshot")
		o.Arr = make([]Value, len(s.D))
		for i := range s.D {
			o.Arr[i] = e.snapshot(s.D[i], tt.Elem(), depth+1)
		}
		return Slice{O: o, D: o.Arr}
	case *types.Interface:
		// oneof wrappers
		iv, ok := v.(Iface)
		if !ok || iv.T == nil {
			return Iface{}
		}
		return Iface{T: iv.T, V: e.snapshot(iv.V, iv.T, depth+1)}
	case *types.Map:
		m, _ := v.(*Map)
		if m == nil {
			return (*Map)(nil)
		}
		c := &Map{KeyT: m.KeyT}
		for _, en := range m.Entries {
			if !en.Deleted {
				c.Entries = append(c.Entries, &mapEntry{K: en.K, V: e.snapshot(en.V, tt.Elem(), depth+1)})
			}
		}
		return c
	}
	return v
}

// fingerprint renders a snapshot structurally (term ids for scalars) for deduplication.
func (e *Engine) fingerprint(v Value, sb *strings.Builder, depth int) {
	switch x := v.(type) {
	case *Term:
		fmt.Fprintf(sb, "t%d", x.ID)
	case Str:
		if x.Conc {
			fmt.Fprintf(sb, "%q", x.S)
		} else {
			sb.WriteString("s(")
			for _, b := range x.B {
				fmt.Fprintf(sb, "%d,", b.ID)
			}
			sb.WriteString(")")
		}
	case Struct:
		sb.WriteString("{")
		for _, f := range x {
			e.fingerprint(f, sb, depth+1)
			sb.WriteString(";")
		}
		sb.WriteString("}")
	case Ptr:
		if x.IsNil() || x.C == nil {
			sb.WriteString("nil")
		} else {
			sb.WriteString("&")
			e.fingerprint(*x.C, sb, depth+1)
		}
	case Slice:
		if x.D == nil || len(x.D) == 0 {
			// proto3 does not distinguish nil and empty byte fields / repeated fields
			sb.WriteString("[]")
		} else {
			sb.WriteString("[")
			for _, f := range x.D {
				e.fingerprint(f, sb, depth+1)
				sb.WriteString(",")
			}
			sb.WriteString("]")
		}
	case Iface:
		if x.T == nil {
			sb.WriteString("inil")
		} else {
			sb.WriteString(x.T.String() + ":")
			e.fingerprint(x.V, sb, depth+1)
		}
	case *Map:
		sb.WriteString("map")
		if x != nil {
			for _, en := range x.Entries {
				if !en.Deleted {
					e.fingerprint(en.K, sb, depth+1)
					sb.WriteString("=>")
					e.fingerprint(en.V, sb, depth+1)
				}
			}
		}
	case float64:
		fmt.Fprintf(sb, "f%v", x)
	default:
		fmt.Fprintf(sb, "<%T>", v)
	}
}

var blobMagic = []byte("PBLOB")

func (e *Engine) protoMarshal(m Value) Value {
	iv, ok := m.(Iface)
	if !ok || iv.T == nil {
		return Tuple{Slice{}, e.opaqueErr()}
	}
	pt, ok := iv.T.Underlying().(*types.Pointer)
	p, ok2 := iv.V.(Ptr)
	if !ok || !ok2 {
		e.unsupported("proto.Marshal of %v", iv.T)
	}
	if p.IsNil() {
		s := e.byteSlice(nil, "proto bytes")
		s.D = []Value{}
		return Tuple{s, Iface{}}
	}
	snap := e.snapshot(*p.C, pt.Elem(), 0)
	var sb strings.Builder
	sb.WriteString(pt.Elem().String())
	e.fingerprint(snap, &sb, 0)
	key := sb.String()
	id := -1
	for i, b := range e.blobs {
		if b.key == key {
			id = i
			break
		}
	}
	if id < 0 {
		id = len(e.blobs)
		e.blobs = append(e.blobs, blobRec{t: pt.Elem(), val: snap, key: key})
	}
	var out []*Term
	for _, c := range blobMagic {
		out = append(out, e.ts.Const(8, uint64(c)))
	}
	out = append(out, e.ts.Const(8, uint64(id>>16)), e.ts.Const(8, uint64(id>>8)), e.ts.Const(8, uint64(id)))
	return Tuple{e.byteSlice(out, "proto bytes"), Iface{}}
}

func (e *Engine) opaqueErr() Value {
	// a non-nil error value: *errors.errorString is not constructible here without its type;
	// use the model's OpaqueError through fmt.Errorf's intercept if present
	if fn, ok := e.ld.Intercepts["fmt.Errorf"]; ok {
		return e.call(fn, []Value{Str{S: "proto", Conc: true}, Slice{}}, nil)
	}
	e.unsupported("cannot build an error value")
	return nil
}

func (e *Engine) protoUnmarshal(b Value, m Value) Value {
	s := b.(Slice)
	iv := m.(Iface)
	pt, ok := iv.T.Underlying().(*types.Pointer)
	p, ok2 := iv.V.(Ptr)
	if !ok || !ok2 || p.IsNil() {
		e.unsupported("proto.Unmarshal into %v", iv.T)
	}
	if len(s.D) == 0 {
		// empty input: the zero message
		*p.C = e.zero(pt.Elem())
		return Iface{}
	}
	if len(s.D) != len(blobMagic)+3 {
		e.unsupported("proto.Unmarshal of bytes that were not produced by proto.Marshal (wire-format parsing is outside the model)")
	}
	id := 0
	for i, v := range s.D {
		t := v.(*Term)
		if t.Op != OpConst {
			e.unsupported("proto.Unmarshal of symbolic bytes (wire-format parsing is outside the model)")
		}
		if i < len(blobMagic) {
			if byte(t.Val) != blobMagic[i] {
				e.unsupported("proto.Unmarshal of bytes that were not produced by proto.Marshal")
			}
		} else {
			id = id<<8 | int(t.Val)
		}
	}
	if id >= len(e.blobs) {
		e.unsupported("proto.Unmarshal: unknown blob")
	}
	rec := e.blobs[id]
	if !types.Identical(rec.t, pt.Elem()) {
		// parsing a message as another message type: the wire format may or may not accept; not modelled
		return e.opaqueErr()
	}
	e.checkStore(p.O)
	*p.C = e.snapshot(rec.val, rec.t, 0)
	return Iface{}
}

func init() {
	intrinsics["google.golang.org/protobuf/proto.Marshal"] = func(e *Engine, fn *ssa.Function, a []Value) Value {
		return e.protoMarshal(a[0])
	}
	intrinsics["google.golang.org/protobuf/proto.Unmarshal"] = func(e *Engine, fn *ssa.Function, a []Value) Value {
		return e.protoUnmarshal(a[0], a[1])
	}
	// proto.Clone: a deep copy of the message (reflection-free)
	intrinsics["google.golang.org/protobuf/proto.Clone"] = func(e *Engine, fn *ssa.Function, a []Value) Value {
		iv, ok := a[0].(Iface)
		if !ok || iv.T == nil {
			return Iface{}
		}
		if p, isPtr := iv.V.(Ptr); isPtr && p.IsNil() {
			return iv
		}
		return Iface{T: iv.T, V: e.snapshot(iv.V, iv.T, 0)}
	}
	intrinsics["(google.golang.org/protobuf/proto.MarshalOptions).Marshal"] = func(e *Engine, fn *ssa.Function, a []Value) Value {
		return e.protoMarshal(a[1])
	}
}
