package sym

import (
	"fmt"
	"go/token"
	"go/types"
	"math"
	"unicode/utf8"

	"golang.org/x/tools/go/ssa"
)

func (e *Engine) load(p Ptr) Value {
	if p.IsNil() {
		e.targetPanic("nil pointer dereference (load)")
	}
	if p.C != nil {
		v := *p.C
		if pz, ok := v.(poison); ok {
			if e.tolerant > 0 {
				panic("poison load")
			}
			e.unsupported("read of a package variable whose initializer could not be executed: %s", pz.why)
		}
		return copyVal(v)
	}
	// symbolic index: ite chain
	var r *Term
	for i := len(p.Arr) - 1; i >= 0; i-- {
		el, ok := p.Arr[i].(*Term)
		if !ok {
			e.unsupported("symbolic index over non-scalar elements")
		}
		if r == nil {
			r = el
		} else {
			r = e.ts.Ite(e.ts.Eq(p.Idx, e.ts.Const(p.Idx.W, uint64(i))), el, r)
		}
	}
	return r
}

func (e *Engine) checkStore(o *Obj) {
	if o == nil || e.tolerant != 0 {
		return
	}
	if o.Protected != "" {
		e.protectedStore(o)
		return
	}
	// FreezeAll: everything that existed when it was called is read-only from then on
	if e.freezeEpoch > 0 && o.Epoch < e.freezeEpoch && !o.Exempt {
		saved := o.Protected
		o.Protected = e.freezeLabel
		e.protectedStore(o)
		o.Protected = saved
	}
}

func (e *Engine) protectedStore(o *Obj) {
	key := "no write to " + o.Protected + "@" + e.curPos()
	st := e.oblStat(key, "no write to "+o.Protected)
	if e.replaying() {
		return
	}
	st.Checked++
	st.Violated++
	var m map[string]uint64
	if e.solver != nil {
		e.solver.SetTimeout(e.cfg.AssertTimeout)
		_, m = e.checkModel(e.inputVars())
	}
	e.recordViolationAlt("protected-store", "write into "+o.Protected+" ("+o.Name+")", m, e.ts.True)
}

func (e *Engine) store(p Ptr, v Value, in ssa.Instruction) {
	if p.IsNil() {
		e.targetPanic("nil pointer dereference (store)")
	}
	e.checkStore(p.O)
	if p.C != nil {
		*p.C = copyVal(v)
		return
	}
	vt, ok := v.(*Term)
	if !ok {
		e.unsupported("symbolic-index store of non-scalar")
	}
	for i := range p.Arr {
		old := p.Arr[i].(*Term)
		p.Arr[i] = e.ts.Ite(e.ts.Eq(p.Idx, e.ts.Const(p.Idx.W, uint64(i))), vt, old)
	}
}

func (e *Engine) unop(in *ssa.UnOp, x Value) Value {
	switch in.Op {
	case token.MUL:
		return e.load(x.(Ptr))
	case token.SUB:
		switch x := x.(type) {
		case *Term:
			return e.ts.Neg(x)
		case float64:
			return -x
		}
	case token.XOR:
		return e.ts.Not(x.(*Term))
	case token.NOT:
		return e.ts.BNot(x.(*Term))
	case token.ARROW:
		e.unsupported("channel receive")
	}
	panic(fmt.Sprintf("unop %v on %T", in.Op, x))
}

// shiftCount normalises a shift count y (type ty) to width w, saturating at w.
func (e *Engine) shiftCount(y *Term, ty types.Type, w int) *Term {
	if isSigned(ty) {
		neg := e.ts.Cmp(OpSlt, y, e.ts.Const(y.W, 0))
		if e.decideBool(neg) {
			e.targetPanic("negative shift amount")
		}
	}
	if y.Op == OpConst {
		v := y.Val
		if v > uint64(w) {
			v = uint64(w)
		}
		return e.ts.Const(w, v)
	}
	if y.W == w {
		return y
	}
	if y.W < w {
		return e.ts.ZExt(y, w)
	}
	big := e.ts.Cmp(OpUle, e.ts.Const(y.W, uint64(w)), y)
	return e.ts.Ite(big, e.ts.Const(w, uint64(w)), e.ts.Extract(y, w-1, 0))
}

func (e *Engine) binop(op token.Token, tx, ty types.Type, x, y Value) Value {
	switch xv := x.(type) {
	case *Term:
		yv, ok := y.(*Term)
		if !ok {
			panic(fmt.Sprintf("binop %v: %T vs %T", op, x, y))
		}
		if xv.W == 0 { // booleans
			switch op {
			case token.EQL:
				return e.ts.Eq(xv, yv)
			case token.NEQ:
				return e.ts.BNot(e.ts.Eq(xv, yv))
			case token.AND, token.LAND:
				return e.ts.BAnd(xv, yv)
			case token.OR, token.LOR:
				return e.ts.BOr(xv, yv)
			}
			panic("bool binop " + op.String())
		}
		signed := isSigned(tx)
		switch op {
		case token.ADD:
			return e.ts.Bin(OpAdd, xv, yv)
		case token.SUB:
			return e.ts.Bin(OpSub, xv, yv)
		case token.MUL:
			return e.ts.Bin(OpMul, xv, yv)
		case token.QUO, token.REM:
			z := e.ts.Eq(yv, e.ts.Const(yv.W, 0))
			if e.decideBool(z) {
				e.targetPanic("integer divide by zero")
			}
			if signed {
				if op == token.QUO {
					return e.ts.Bin(OpSDiv, xv, yv)
				}
				return e.ts.Bin(OpSRem, xv, yv)
			}
			if op == token.QUO {
				return e.ts.Bin(OpUDiv, xv, yv)
			}
			return e.ts.Bin(OpURem, xv, yv)
		case token.AND:
			return e.ts.Bin(OpAnd, xv, yv)
		case token.OR:
			return e.ts.Bin(OpOr, xv, yv)
		case token.XOR:
			return e.ts.Bin(OpXor, xv, yv)
		case token.AND_NOT:
			return e.ts.Bin(OpAnd, xv, e.ts.Not(yv))
		case token.SHL:
			return e.ts.Bin(OpShl, xv, e.shiftCount(yv, ty, xv.W))
		case token.SHR:
			c := e.shiftCount(yv, ty, xv.W)
			if signed {
				return e.ts.Bin(OpAShr, xv, c)
			}
			return e.ts.Bin(OpLShr, xv, c)
		case token.EQL:
			return e.ts.Eq(xv, yv)
		case token.NEQ:
			return e.ts.BNot(e.ts.Eq(xv, yv))
		case token.LSS:
			if signed {
				return e.ts.Cmp(OpSlt, xv, yv)
			}
			return e.ts.Cmp(OpUlt, xv, yv)
		case token.LEQ:
			if signed {
				return e.ts.Cmp(OpSle, xv, yv)
			}
			return e.ts.Cmp(OpUle, xv, yv)
		case token.GTR:
			if signed {
				return e.ts.Cmp(OpSlt, yv, xv)
			}
			return e.ts.Cmp(OpUlt, yv, xv)
		case token.GEQ:
			if signed {
				return e.ts.Cmp(OpSle, yv, xv)
			}
			return e.ts.Cmp(OpUle, yv, xv)
		}
	case float64:
		if ry, ok := y.(RatFloat); ok {
			return e.ratCmp(op, ry, x, true)
		}
		yv := y.(float64)
		if b, ok := tx.Underlying().(*types.Basic); ok && b.Kind() == types.Float32 {
			switch op {
			case token.ADD:
				return float64(float32(xv) + float32(yv))
			case token.SUB:
				return float64(float32(xv) - float32(yv))
			case token.MUL:
				return float64(float32(xv) * float32(yv))
			case token.QUO:
				return float64(float32(xv) / float32(yv))
			}
		}
		switch op {
		case token.ADD:
			return xv + yv
		case token.SUB:
			return xv - yv
		case token.MUL:
			return xv * yv
		case token.QUO:
			return xv / yv
		case token.EQL:
			return e.ts.Bool(xv == yv)
		case token.NEQ:
			return e.ts.Bool(xv != yv)
		case token.LSS:
			return e.ts.Bool(xv < yv)
		case token.LEQ:
			return e.ts.Bool(xv <= yv)
		case token.GTR:
			return e.ts.Bool(xv > yv)
		case token.GEQ:
			return e.ts.Bool(xv >= yv)
		}
	case RatFloat:
		return e.ratCmp(op, xv, y, false)
	case Str:
		yv := y.(Str)
		switch op {
		case token.ADD:
			if xv.Conc && yv.Conc {
				return Str{S: xv.S + yv.S, Conc: true}
			}
			return strFromTerms(append(append([]*Term(nil), xv.Bytes(e.ts)...), yv.Bytes(e.ts)...))
		case token.EQL:
			return e.strEq(xv, yv)
		case token.NEQ:
			return e.ts.BNot(e.strEq(xv, yv))
		case token.LSS, token.LEQ, token.GTR, token.GEQ:
			if xv.Conc && yv.Conc {
				switch op {
				case token.LSS:
					return e.ts.Bool(xv.S < yv.S)
				case token.LEQ:
					return e.ts.Bool(xv.S <= yv.S)
				case token.GTR:
					return e.ts.Bool(xv.S > yv.S)
				case token.GEQ:
					return e.ts.Bool(xv.S >= yv.S)
				}
			}
			e.unsupported("ordering of symbolic strings")
		}
	}
	switch op {
	case token.EQL:
		return e.equalVals(tx, x, y)
	case token.NEQ:
		return e.ts.BNot(e.equalVals(tx, x, y))
	}
	panic(fmt.Sprintf("binop %v on %T,%T", op, x, y))
}

// ratCmp orders a RatFloat against a concrete float (swapped: the RatFloat is the right operand).
func (e *Engine) ratCmp(op token.Token, r RatFloat, other Value, swapped bool) Value {
	c, ok := other.(float64)
	if !ok {
		e.unsupported("arithmetic between symbolic floats")
	}
	scaled := c * float64(r.Den)
	if scaled != math.Trunc(scaled) || math.Abs(scaled) > 1<<62 {
		e.unsupported("comparison of a symbolic float with a non-integral bound")
	}
	k := e.ts.Const(64, uint64(int64(scaled)))
	if swapped {
		// c OP r  ==  r OP' c
		switch op {
		case token.LSS:
			op = token.GTR
		case token.LEQ:
			op = token.GEQ
		case token.GTR:
			op = token.LSS
		case token.GEQ:
			op = token.LEQ
		}
	}
	switch op {
	case token.EQL:
		return e.ts.Eq(r.I, k)
	case token.NEQ:
		return e.ts.BNot(e.ts.Eq(r.I, k))
	case token.LSS:
		return e.ts.Cmp(OpSlt, r.I, k)
	case token.LEQ:
		return e.ts.Cmp(OpSle, r.I, k)
	case token.GTR:
		return e.ts.Cmp(OpSlt, k, r.I)
	case token.GEQ:
		return e.ts.Cmp(OpSle, k, r.I)
	}
	e.unsupported("arithmetic on a symbolic float (%v)", op)
	return nil
}

func (e *Engine) strEq(a, b Str) *Term {
	if a.Conc && b.Conc {
		return e.ts.Bool(a.S == b.S)
	}
	if a.Len() != b.Len() {
		return e.ts.False
	}
	r := e.ts.True
	for i := 0; i < a.Len(); i++ {
		r = e.ts.BAnd(r, e.ts.Eq(a.Byte(e.ts, i), b.Byte(e.ts, i)))
	}
	return r
}

// equalVals implements == for comparable values.
func (e *Engine) equalVals(t types.Type, x, y Value) *Term {
	switch xv := x.(type) {
	case *Term:
		return e.ts.Eq(xv, y.(*Term))
	case float64:
		return e.ts.Bool(xv == y.(float64))
	case Str:
		return e.strEq(xv, y.(Str))
	case Ptr:
		yv := y.(Ptr)
		if xv.Idx != nil || yv.Idx != nil {
			e.unsupported("comparison of symbolic pointers")
		}
		return e.ts.Bool(xv.C == yv.C)
	case Iface:
		yv, ok := y.(Iface)
		if !ok {
			panic("iface == non-iface")
		}
		if xv.T == nil || yv.T == nil {
			return e.ts.Bool(xv.T == nil && yv.T == nil)
		}
		if !types.Identical(xv.T, yv.T) {
			return e.ts.False
		}
		return e.equalVals(xv.T, xv.V, yv.V)
	case Struct:
		yv := y.(Struct)
		st := t.Underlying().(*types.Struct)
		r := e.ts.True
		for i := range xv {
			if st.Field(i).Name() == "_" {
				continue
			}
			r = e.ts.BAnd(r, e.equalVals(st.Field(i).Type(), xv[i], yv[i]))
		}
		return r
	case Array:
		yv := y.(Array)
		et := t.Underlying().(*types.Array).Elem()
		r := e.ts.True
		for i := range xv {
			r = e.ts.BAnd(r, e.equalVals(et, xv[i], yv[i]))
		}
		return r
	case *Map:
		yv, _ := y.(*Map)
		return e.ts.Bool(xv == yv)
	case Slice:
		// only comparison with nil is legal
		yv := y.(Slice)
		if yv.D == nil {
			return e.ts.Bool(xv.D == nil)
		}
		if xv.D == nil {
			return e.ts.Bool(yv.D == nil)
		}
		panic("slice == slice")
	case nilFunc:
		_, ok := y.(nilFunc)
		return e.ts.Bool(ok)
	case *Closure, *ssa.Function, *HostFunc:
		if _, ok := y.(nilFunc); ok {
			return e.ts.False
		}
		panic("func == func")
	case *Host:
		yv, _ := y.(*Host)
		return e.ts.Bool(xv == yv)
	case poison:
		panic("poison compare")
	}
	panic(fmt.Sprintf("equalVals: %T", x))
}

func (e *Engine) conv(tdst, tsrc types.Type, x Value) Value {
	ud, us := tdst.Underlying(), tsrc.Underlying()
	switch ud := ud.(type) {
	case *types.Basic:
		switch {
		case ud.Info()&types.IsInteger != 0:
			w := e.intWidth(ud)
			switch xv := x.(type) {
			case *Term:
				return e.ts.Resize(xv, w, isSigned(tsrc))
			case float64:
				if ud.Info()&types.IsUnsigned != 0 {
					return e.ts.Const(w, uint64(xv))
				}
				return e.ts.Const(w, uint64(int64(xv)))
			case RatFloat:
				if xv.Den != 1 {
					e.unsupported("non-integral symbolic float to integer conversion")
				}
				return e.ts.Resize(xv.I, w, true)
			case Ptr: // unsafe.Pointer -> uintptr
				e.unsupported("pointer to integer conversion")
			}
		case ud.Info()&types.IsFloat != 0:
			switch xv := x.(type) {
			case float64:
				if ud.Kind() == types.Float32 {
					return float64(float32(xv))
				}
				return xv
			case RatFloat:
				if ud.Kind() == types.Float32 {
					e.unsupported("float32 of symbolic value")
				}
				return xv
			case *Term:
				if xv.Op != OpConst {
					// exact while |i| <= 2^53: checked on the path
					var i64 *Term
					if isSigned(tsrc) {
						i64 = e.ts.SExt(xv, 64)
					} else {
						if xv.W == 64 {
							if e.decideBool(e.ts.Cmp(OpSlt, xv, e.ts.Const(64, 0))) {
								e.unsupported("uint64 above 2^63 converted to float")
							}
						}
						i64 = e.ts.ZExt(xv, 64)
					}
					lim := e.ts.Const(64, 1<<53)
					exact := e.ts.BAnd(e.ts.Cmp(OpSle, e.ts.Neg(lim), i64), e.ts.Cmp(OpSle, i64, lim))
					if !e.decideBool(exact) {
						e.unsupported("integer beyond 2^53 converted to float (inexact)")
					}
					if ud.Kind() == types.Float32 {
						e.unsupported("float32 of symbolic value")
					}
					return RatFloat{I: i64, Den: 1}
				}
				var f float64
				if isSigned(tsrc) {
					f = float64(sext64(xv.Val, xv.W))
				} else {
					f = float64(xv.Val)
				}
				if ud.Kind() == types.Float32 {
					f = float64(float32(f))
				}
				return f
			}
		case ud.Info()&types.IsString != 0:
			switch xv := x.(type) {
			case Str:
				return xv
			case Slice: // []byte or []rune -> string
				if el, ok := us.(*types.Slice); ok {
					if b, ok := el.Elem().Underlying().(*types.Basic); ok && b.Kind() == types.Uint8 {
						return strFromTerms(sliceTerms(xv))
					}
					// []rune
					var bs []byte
					for _, r := range xv.D {
						rt := r.(*Term)
						if rt.Op != OpConst {
							e.unsupported("symbolic rune to string")
						}
						bs = utf8.AppendRune(bs, rune(int32(rt.Val)))
					}
					return Str{S: string(bs), Conc: true}
				}
			case *Term: // integer -> string (rune)
				if xv.Op != OpConst {
					e.unsupported("symbolic rune to string")
				}
				return Str{S: string(rune(sext64(xv.Val, xv.W))), Conc: true}
			}
		case ud.Kind() == types.UnsafePointer:
			if p, ok := x.(Ptr); ok {
				return p
			}
			e.unsupported("conversion to unsafe.Pointer")
		}
	case *types.Slice:
		if s, ok := x.(Str); ok {
			if b, ok := ud.Elem().Underlying().(*types.Basic); ok && b.Kind() == types.Uint8 {
				sl := e.byteSlice(s.Bytes(e.ts), "[]byte(string)")
				if sl.D == nil {
					sl.D = []Value{}
				}
				return sl
			}
			// []rune(string)
			if !s.Conc {
				e.unsupported("symbolic string to []rune")
			}
			var ts []*Term
			for _, r := range s.S {
				ts = append(ts, e.ts.Const(32, uint64(uint32(r))))
			}
			sl := e.byteSlice(ts, "[]rune(string)")
			if sl.D == nil {
				sl.D = []Value{}
			}
			return sl
		}
		if _, ok := x.(Slice); ok {
			return x
		}
	case *types.Pointer:
		if p, ok := x.(Ptr); ok {
			// unsafe.Pointer -> *T
			if _, isUP := us.(*types.Basic); isUP {
				e.unsupported("unsafe.Pointer to typed pointer conversion")
			}
			return p
		}
	}
	panic(fmt.Sprintf("conv %v <- %v (%T)", tdst, tsrc, x))
}

func (e *Engine) optInt(v Value, def int) int {
	if v == nil {
		return def
	}
	return e.concretizeInt(v.(*Term), true)
}

func (e *Engine) sliceOp(in *ssa.Slice, x, lo, hi, max Value) Value {
	switch xv := x.(type) {
	case Str:
		l := e.optInt(lo, 0)
		h := e.optInt(hi, xv.Len())
		if l < 0 || h < l || h > xv.Len() {
			e.targetPanic("slice bounds out of range [%d:%d] with string length %d", l, h, xv.Len())
		}
		if xv.Conc {
			return Str{S: xv.S[l:h], Conc: true}
		}
		return strFromTerms(xv.B[l:h])
	case Slice:
		l := e.optInt(lo, 0)
		h := e.optInt(hi, len(xv.D))
		m := e.optInt(max, cap(xv.D))
		if l < 0 || h < l || m < h || m > cap(xv.D) {
			e.targetPanic("slice bounds out of range [%d:%d:%d] with capacity %d", l, h, m, cap(xv.D))
		}
		if xv.D == nil {
			return Slice{}
		}
		return Slice{O: xv.O, D: xv.D[l:h:m]}
	case Ptr: // *array
		if xv.IsNil() {
			e.targetPanic("slice of nil array pointer")
		}
		arr := (*xv.C).(Array)
		l := e.optInt(lo, 0)
		h := e.optInt(hi, len(arr))
		m := e.optInt(max, len(arr))
		if l < 0 || h < l || m < h || m > len(arr) {
			e.targetPanic("slice bounds out of range [%d:%d:%d] with array length %d", l, h, m, len(arr))
		}
		return Slice{O: xv.O, D: []Value(arr)[l:h:m]}
	}
	panic(fmt.Sprintf("slice of %T", x))
}

func (e *Engine) elemPtr(o *Obj, cells []Value, idx *Term, signed bool, what string) Ptr {
	n := len(cells)
	if idx.Op == OpConst {
		i := int(idx.Val)
		if signed {
			i = int(sext64(idx.Val, idx.W))
		}
		if i < 0 || i >= n {
			e.targetPanic("index out of range [%d] with length %d (%s)", i, n, what)
		}
		return Ptr{O: o, C: &cells[i]}
	}
	// widen to 64 bits so that the comparison with n cannot wrap (a negative signed index
	// becomes a huge unsigned one and is out of range)
	if idx.W < 64 {
		if signed {
			idx = e.ts.SExt(idx, 64)
		} else {
			idx = e.ts.ZExt(idx, 64)
		}
	}
	inb := e.ts.Cmp(OpUlt, idx, e.ts.Const(64, uint64(n)))
	if !e.decideBool(inb) {
		e.targetPanic("index out of range (symbolic index, length %d, %s)", n, what)
	}
	if n == 1 {
		return Ptr{O: o, C: &cells[0]}
	}
	scalar := true
	for _, c := range cells {
		if _, ok := c.(*Term); !ok {
			scalar = false
			break
		}
	}
	if !scalar || n > 4096 {
		i := e.concretizeInt(idx, false)
		return Ptr{O: o, C: &cells[i]}
	}
	return Ptr{O: o, Arr: cells, Idx: idx}
}

func (e *Engine) indexAddr(x Value, idx *Term, in *ssa.IndexAddr) Value {
	signed := isSigned(in.Index.Type())
	switch xv := x.(type) {
	case Slice:
		return e.elemPtr(xv.O, xv.D, idx, signed, "slice")
	case Ptr:
		if xv.IsNil() {
			e.targetPanic("index of nil array pointer")
		}
		arr := (*xv.C).(Array)
		return e.elemPtr(xv.O, arr, idx, signed, "array")
	}
	panic(fmt.Sprintf("IndexAddr on %T", x))
}

func (e *Engine) index(x Value, idx *Term, in *ssa.Index) Value {
	signed := isSigned(in.Index.Type())
	switch xv := x.(type) {
	case Array:
		return e.load(e.elemPtr(nil, xv, idx, signed, "array value"))
	case Str:
		b := xv.Bytes(e.ts)
		cells := make([]Value, len(b))
		for i := range b {
			cells[i] = b[i]
		}
		return e.load(e.elemPtr(nil, cells, idx, signed, "string"))
	}
	panic(fmt.Sprintf("Index on %T", x))
}

// ---- maps

func (e *Engine) mapFind(m *Map, key Value) *mapEntry {
	if m == nil {
		return nil
	}
	for _, en := range m.Entries {
		if en.Deleted {
			continue
		}
		eq := e.equalVals(m.KeyT, en.K, key)
		if e.decideBool(eq) {
			return en
		}
	}
	return nil
}

func (e *Engine) lookup(in *ssa.Lookup, x, key Value) Value {
	switch xv := x.(type) {
	case Str:
		b := xv.Bytes(e.ts)
		cells := make([]Value, len(b))
		for i := range b {
			cells[i] = b[i]
		}
		return e.load(e.elemPtr(nil, cells, key.(*Term), isSigned(in.Index.Type()), "string"))
	case *Map:
		elemT := in.X.Type().Underlying().(*types.Map).Elem()
		if v, ok := e.mapLookupIte(xv, key, elemT, in.CommaOk); ok {
			return v
		}
		en := e.mapFind(xv, key)
		var v Value
		if en != nil {
			v = copyVal(en.V)
		} else {
			v = e.zero(elemT)
		}
		if in.CommaOk {
			return Tuple{v, e.ts.Bool(en != nil)}
		}
		return v
	}
	panic(fmt.Sprintf("lookup on %T", x))
}

// mapLookupIte answers a lookup with a symbolic key in a scalar-valued map without forking:
// value = ite(k==k1, v1, ite(k==k2, v2, ... zero)), ok = (k==k1) ∨ (k==k2) ∨ ...
func (e *Engine) mapLookupIte(m *Map, key Value, elemT types.Type, commaOk bool) (Value, bool) {
	if m == nil || !isScalar(elemT) {
		return nil, false
	}
	kt, isT := key.(*Term)
	if !isT || kt.Op == OpConst {
		return nil, false
	}
	val := e.zero(elemT).(*Term)
	found := e.ts.False
	// later entries never duplicate earlier keys (insertion checks), so order is irrelevant
	for i := len(m.Entries) - 1; i >= 0; i-- {
		en := m.Entries[i]
		if en.Deleted {
			continue
		}
		ev, ok := en.V.(*Term)
		if !ok {
			return nil, false
		}
		eq := e.equalVals(m.KeyT, en.K, key)
		val = e.ts.Ite(eq, ev, val)
		found = e.ts.BOr(found, eq)
	}
	if commaOk {
		return Tuple{val, found}, true
	}
	return val, true
}

func (e *Engine) mapUpdate(m *Map, key, val Value) {
	if m == nil {
		e.targetPanic("assignment to entry in nil map")
	}
	if en := e.mapFind(m, key); en != nil {
		en.V = copyVal(val)
		return
	}
	m.Entries = append(m.Entries, &mapEntry{K: copyVal(key), V: copyVal(val)})
}

func (e *Engine) mapDelete(m *Map, key Value) {
	if en := e.mapFind(m, key); en != nil {
		en.Deleted = true
	}
}

func (m *Map) Len() int {
	if m == nil {
		return 0
	}
	n := 0
	for _, en := range m.Entries {
		if !en.Deleted {
			n++
		}
	}
	return n
}

func (e *Engine) rangeIter(x Value) Value {
	switch xv := x.(type) {
	case *Map:
		return &Iter{M: xv}
	case Str:
		return &Iter{S: xv, IsStr: true}
	}
	panic(fmt.Sprintf("range over %T", x))
}

func (e *Engine) next(it *Iter, in *ssa.Next) Value {
	if it.IsStr {
		if it.Pos >= it.S.Len() {
			return Tuple{e.ts.False, e.ts.Const(64, 0), e.ts.Const(32, 0)}
		}
		if !it.S.Conc {
			e.unsupported("range over symbolic string")
		}
		r, sz := utf8.DecodeRuneInString(it.S.S[it.Pos:])
		p := it.Pos
		it.Pos += sz
		return Tuple{e.ts.True, e.ts.Const(64, uint64(p)), e.ts.Const(32, uint64(uint32(r)))}
	}
	if it.M != nil {
		for it.Pos < len(it.M.Entries) {
			en := it.M.Entries[it.Pos]
			it.Pos++
			if !en.Deleted {
				return Tuple{e.ts.True, copyVal(en.K), copyVal(en.V)}
			}
		}
	}
	// exhausted: key/value zero of proper types are never read
	return Tuple{e.ts.False, nil, nil}
}

// ---- interfaces

func (e *Engine) typeAssert(in *ssa.TypeAssert, x Iface) Value {
	ok := false
	if x.T != nil {
		if it, isI := in.AssertedType.Underlying().(*types.Interface); isI {
			ok = types.Implements(x.T, it)
		} else {
			ok = types.Identical(x.T, in.AssertedType)
		}
	}
	var v Value
	if ok {
		if _, isI := in.AssertedType.Underlying().(*types.Interface); isI {
			v = x
		} else {
			v = x.V
		}
	}
	if in.CommaOk {
		if !ok {
			v = e.zero(in.AssertedType)
		}
		return Tuple{v, e.ts.Bool(ok)}
	}
	if !ok {
		if x.T == nil {
			e.targetPanic("interface conversion: interface is nil, not %v", in.AssertedType)
		}
		e.targetPanic("interface conversion: %v is not %v", x.T, in.AssertedType)
	}
	return v
}

var _ = math.Inf
