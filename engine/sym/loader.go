package sym

import (
	"fmt"
	"go/ast"
	"os"
	"path/filepath"
	"sort"
	"strings"

	"golang.org/x/tools/go/packages"
	"golang.org/x/tools/go/ssa"
	"golang.org/x/tools/go/ssa/ssautil"
)

const ModulePath = "github.com/tink-crypto/tink-go/v2"

// Loaded is an SSA program built from /repo's working tree plus overlay harnesses.
type Loaded struct {
	Prog       *ssa.Program
	Pkgs       []*ssa.Package
	Harnesses  map[string]*ssa.Function // by name
	Intercepts map[string]*ssa.Function
	Overlay    map[string][]byte
	OverlayMap map[string]string // virtual path -> real path (for go test -overlay)
	RepoDir    string
	Patterns   []string
}

// BuildOverlay maps /verif/harness/... files into virtual /repo paths.
func BuildOverlay(repoDir, harnessDir string) (map[string][]byte, map[string]string, []string, error) {
	ov := map[string][]byte{}
	real := map[string]string{}
	pkgset := map[string]bool{}
	err := filepath.Walk(harnessDir, func(p string, info os.FileInfo, err error) error {
		if err != nil {
			return err
		}
		if info.IsDir() || !strings.HasSuffix(p, ".go") {
			return nil
		}
		rel, _ := filepath.Rel(harnessDir, p)
		dir := filepath.Dir(rel)
		var vdir string
		switch {
		case strings.HasPrefix(dir, "_"):
			vdir = "internal/verif" + dir[1:]
		default:
			vdir = dir
		}
		vp := filepath.Join(repoDir, vdir, filepath.Base(p))
		b, err := os.ReadFile(p)
		if err != nil {
			return err
		}
		ov[vp] = b
		real[vp] = p
		if !strings.HasSuffix(p, "_test.go") {
			pkgset["./"+vdir] = true
		}
		return nil
	})
	var pkgs []string
	for p := range pkgset {
		pkgs = append(pkgs, p)
	}
	sort.Strings(pkgs)
	return ov, real, pkgs, err
}

// Load type-checks and builds SSA for the given package patterns (relative to repoDir).
func Load(repoDir, harnessDir string, patterns []string) (*Loaded, error) {
	ov, real, all, err := BuildOverlay(repoDir, harnessDir)
	if err != nil {
		return nil, err
	}
	if len(patterns) == 0 {
		patterns = all
	} else {
		patterns = append(append([]string(nil), patterns...), "./internal/verifrt", "./internal/verifmodels")
	}
	env := os.Environ()
	env = append(env, "GOFLAGS=-mod=mod", "GOPROXY=off", "GOTOOLCHAIN=auto", "CGO_ENABLED=0")
	cfg := &packages.Config{
		Mode:    packages.LoadAllSyntax,
		Dir:     repoDir,
		Overlay: ov,
		Env:     env,
		Tests:   false,
	}
	pkgs, err := packages.Load(cfg, patterns...)
	if err != nil {
		return nil, err
	}
	var errs []string
	packages.Visit(pkgs, nil, func(p *packages.Package) {
		for _, e := range p.Errors {
			errs = append(errs, e.Error())
		}
	})
	if len(errs) > 0 {
		if len(errs) > 20 {
			errs = errs[:20]
		}
		return nil, fmt.Errorf("load errors:\n%s", strings.Join(errs, "\n"))
	}
	prog, spkgs := ssautil.AllPackages(pkgs, ssa.InstantiateGenerics)
	prog.Build()
	ld := &Loaded{Prog: prog, Harnesses: map[string]*ssa.Function{}, Intercepts: map[string]*ssa.Function{}, Overlay: ov, OverlayMap: real, RepoDir: repoDir, Patterns: patterns}
	for i, sp := range spkgs {
		if sp == nil {
			continue
		}
		ld.Pkgs = append(ld.Pkgs, sp)
		for name, m := range sp.Members {
			if fn, ok := m.(*ssa.Function); ok && strings.HasPrefix(name, "VerifH_") {
				ld.Harnesses[name] = fn
			}
		}
		// intercept directives in verifmodels
		if strings.HasSuffix(sp.Pkg.Path(), "/internal/verifmodels") {
			for _, f := range pkgs[i].Syntax {
				for _, d := range f.Decls {
					fd, ok := d.(*ast.FuncDecl)
					if !ok || fd.Doc == nil || fd.Recv != nil {
						continue
					}
					for _, c := range fd.Doc.List {
						if rest, ok := strings.CutPrefix(c.Text, "//verif:intercept "); ok {
							if fn := sp.Func(fd.Name.Name); fn != nil {
								for _, tgt := range strings.Fields(rest) {
									ld.Intercepts[tgt] = fn
								}
							}
						}
					}
				}
			}
		}
	}
	return ld, nil
}
