package sym

import (
	"fmt"
	"go/token"
	"go/types"
	"os"
	"sort"
	"strings"
	"time"

	"golang.org/x/tools/go/ssa"
)

// Config controls one harness exploration.
type Config struct {
	Unwind        int           // symbolic-branch visits per (frame, If) before an unwinding failure
	MaxSteps      int           // instruction budget per path
	MaxPaths      int           // path budget per harness
	MaxValues     int           // concretisation fan-out limit
	QueryTimeout  int           // ms, feasibility queries
	AssertTimeout int           // ms, obligation queries
	QuickAssertTimeout int      // ms, first incremental attempt at an obligation
	Deadline      time.Time     // wall-clock cap for the harness
	Solver        string        // incremental solver kind
	Concrete      map[string][]uint64 // concrete assignment (translator validation mode); nil = symbolic
	Trace         bool
	Witnesses     int // number of completed paths for which a witness model is kept
	Thorough      bool
	ScriptDir     string // where standalone obligation scripts are written
	TagTimeout    time.Duration
}

// pathEnd is thrown (as a Go panic) to finish the current path.
type pathEnd struct {
	kind  string // "panic", "prune", "unsupported", "unwind", "steps", "exit"
	msg   string
	pos   string
	stack []string
}

func (p pathEnd) Error() string { return p.kind + ": " + p.msg + " @" + p.pos }

type decision struct {
	isVal  bool
	isChoice bool
	choice uint64
	alts   []uint64
	tried  []uint64
	pcLen  int
	term   *Term
}

// Obligation statistics for one assertion site.
type OblStat struct {
	Key        string
	Msg        string
	Checked    int
	Trivial    int
	Discharged int
	Violated   int
	Unknown    int
	Tag        string
}

// Violation is a candidate counterexample (model of PC ∧ ¬assertion).
type Violation struct {
	Harness string
	Kind    string // "assert", "panic", "protected-store"
	Msg     string
	Pos     string
	Model   map[string][]uint64
	Alt     []map[string][]uint64 // further models of the same violation (diversified inputs)
	Stack   []string
}

// Inconclusive records something that could not be decided.
type Inconclusive struct {
	Harness string
	Reason  string
	Pos     string
}

// Draw is one logged draw from the randomness model.
type Draw struct {
	ID    int
	N     int
	Bytes []*Term
}

// Result accumulates everything about one harness exploration.
type HarnessResult struct {
	Harness       string
	Paths         int
	PathsPruned   int
	Steps         int64
	Obls          map[string]*OblStat
	Violations    []Violation
	Inconclusives []Inconclusive
	Reached       map[string]int
	Observes      []ObserveRec
	Funcs         map[string]bool
	Queries       int
	SolverTime    time.Duration
	Wall          time.Duration
	Samples       []string
	TagObls       int
	TagDischarged int
	Stubs         map[string]int
	Cuts          map[string]int
	SolverRestarts int
	Summaries     map[string]int
	Witnesses     []map[string][]uint64 // models of completed paths (inputs for translator validation)
	InputNames    map[string]int // nondet variable name -> width (0 = bool), over all paths
}

type ObserveRec struct {
	Label string
	Vals  []string
}

// Engine explores one harness function.
type Engine struct {
	prog   *ssa.Program
	ld     *Loaded
	ts     *Terms
	solver *Solver
	cfg    Config
	res    *HarnessResult

	// per-path state
	pc       []*Term
	pcSet    map[int]bool
	trace    []decision
	pos      int
	globals  map[*ssa.Global]*Obj
	initDone map[*ssa.Package]bool
	initBusy map[*ssa.Package]bool
	objSeq   int
	epoch    int
	// FreezeAll monitor: objects allocated before this epoch are read-only
	freezeEpoch int
	freezeLabel string
	steps    int
	seq      map[string]int
	draws    []Draw
	inputs   []*Term // named nondet variables created on this path
	inputSet map[string]bool
	tag      string
	unwind   int
	stack    []*frame
	tolerant int
	hostState map[string]any
	unknownBranch bool

	solverPC []int

	jobs []*oblJob
	summaries map[string]Value           // function-name suffix -> replacement closure (per path)
	sumCache  map[*ssa.Function]Value
	inSummary bool
	memo      map[string][]Value
	blobs     []blobRec
	unwindPrune bool
	restarts  int
	pendingCuts map[string]cutSpec
	cuts        map[string]*cutState
	cutCache    map[*ssa.Function]map[token.Pos]string
	fnInfos map[*ssa.Function]*fnInfo
	allInputs map[string]*Term
}

func NewEngine(ld *Loaded, cfg Config) *Engine {
	if cfg.Unwind == 0 {
		cfg.Unwind = 80
	}
	if cfg.MaxSteps == 0 {
		cfg.MaxSteps = 30_000_000
	}
	if cfg.MaxPaths == 0 {
		cfg.MaxPaths = 200_000
	}
	if cfg.MaxValues == 0 {
		cfg.MaxValues = 300
	}
	if cfg.QueryTimeout == 0 {
		cfg.QueryTimeout = 10_000
	}
	if cfg.AssertTimeout == 0 {
		cfg.AssertTimeout = 20_000
	}
	if cfg.QuickAssertTimeout == 0 {
		cfg.QuickAssertTimeout = 1500
	}
	if cfg.Solver == "" {
		cfg.Solver = "z3"
	}
	if cfg.ScriptDir == "" {
		cfg.ScriptDir = os.Getenv("VERIF_SCRIPTDIR")
	}
	if cfg.TagTimeout == 0 {
		cfg.TagTimeout = 60 * time.Second
	}
	return &Engine{prog: ld.Prog, ld: ld, cfg: cfg, fnInfos: map[*ssa.Function]*fnInfo{}, allInputs: map[string]*Term{}, cutCache: map[*ssa.Function]map[token.Pos]string{}}
}

func (e *Engine) posStr(p token.Pos) string {
	if p == token.NoPos {
		return "?"
	}
	ps := e.prog.Fset.Position(p)
	f := ps.Filename
	if i := strings.Index(f, "/repo/"); i >= 0 {
		f = f[i+6:]
	}
	return fmt.Sprintf("%s:%d", f, ps.Line)
}

func (e *Engine) curPos() string {
	if len(e.stack) == 0 {
		return "?"
	}
	fr := e.stack[len(e.stack)-1]
	return e.framePos(fr)
}

func (e *Engine) framePos(fr *frame) string {
	if fr.cur != nil {
		if p := fr.cur.Pos(); p != token.NoPos {
			return e.posStr(p)
		}
	}
	return fr.fn.String()
}

func (e *Engine) stackStrings() []string {
	var out []string
	for i := len(e.stack) - 1; i >= 0 && len(out) < 12; i-- {
		fr := e.stack[i]
		out = append(out, fr.fn.String()+" "+e.framePos(fr))
	}
	return out
}

func (e *Engine) end(kind, format string, a ...any) {
	pe := pathEnd{kind: kind, msg: fmt.Sprintf(format, a...), pos: e.curPos()}
	if kind != "prune" {
		pe.stack = e.stackStrings()
	}
	panic(pe)
}

func (e *Engine) unsupported(format string, a ...any) { e.end("unsupported", format, a...) }

// targetPanic models a run-time panic of the code under test.
func (e *Engine) targetPanic(format string, a ...any) { e.end("panic", format, a...) }

// ---- path condition

func (e *Engine) addPC(t *Term) {
	if t.Op == OpTrue {
		return
	}
	idx := len(e.pc)
	e.pc = append(e.pc, t)
	e.pcSet[t.ID] = true
	if e.solver == nil {
		return
	}
	if idx < len(e.solverPC) {
		if e.solverPC[idx] != t.ID {
			panic(fmt.Sprintf("nondeterministic replay at pc[%d]: have t%d want t%d (%s)", idx, t.ID, e.solverPC[idx], t))
		}
		return
	}
	e.solver.Push()
	e.solver.Assert(t)
	e.solverPC = append(e.solverPC, t.ID)
}

func (e *Engine) replaying() bool { return e.pos < len(e.trace) }

func (e *Engine) concreteMode() bool { return e.cfg.Concrete != nil }

// reviveSolver restarts a crashed solver process and re-asserts the path condition.
func (e *Engine) reviveSolver() {
	if e.solver == nil || !e.solver.dead || e.restarts >= 25 {
		return
	}
	e.restarts++
	old := e.solver
	e.res.Queries += old.Queries
	e.res.SolverTime += old.Time
	old.Close()
	s, err := NewSolver(e.cfg.Solver, e.ts, e.cfg.QueryTimeout)
	if err != nil {
		return
	}
	e.solver = s
	e.solverPC = e.solverPC[:0]
	for _, t := range e.pc {
		s.Push()
		s.Assert(t)
		e.solverPC = append(e.solverPC, t.ID)
	}
	e.res.SolverRestarts++
}

// feasible reports whether pc ∧ c may be satisfiable (Unknown counts as feasible).
func (e *Engine) feasible(c *Term) Result {
	if c.Op == OpTrue {
		return Sat
	}
	if c.Op == OpFalse {
		return Unsat
	}
	e.solver.SetTimeout(e.cfg.QueryTimeout)
	r := e.solver.CheckWith(c)
	if e.solver.dead {
		e.reviveSolver()
		r = Unknown
	}
	return r
}

// checkModel wraps Solver.CheckWithModel with crash recovery.
func (e *Engine) checkModel(vars []*Term, extra ...*Term) (Result, map[string]uint64) {
	r, m := e.solver.CheckWithModel(vars, extra...)
	if e.solver.dead {
		e.reviveSolver()
		return Unknown, nil
	}
	return r, m
}

// decideBool resolves a branch condition, forking the path when both outcomes are feasible.
func (e *Engine) decideBool(c *Term) bool {
	if c.Op == OpTrue {
		return true
	}
	if c.Op == OpFalse {
		return false
	}
	if e.pcSet[c.ID] {
		return true
	}
	nc := e.ts.BNot(c)
	if e.pcSet[nc.ID] {
		return false
	}
	if e.replaying() {
		d := &e.trace[e.pos]
		e.pos++
		if d.isVal || d.term != c {
			panic(fmt.Sprintf("nondeterministic replay: decision %d term mismatch", e.pos-1))
		}
		if d.choice == 1 {
			e.addPC(c)
			return true
		}
		e.addPC(nc)
		return false
	}
	if e.concreteMode() {
		e.unsupported("symbolic branch in concrete mode: %s", c)
	}
	d := decision{pcLen: len(e.pc), term: c}
	rt := e.feasible(c)
	switch rt {
	case Unsat:
		d.choice = 0
	default:
		rf := e.feasible(nc)
		if rf == Unsat {
			d.choice = 1
		} else {
			d.choice = 1
			d.alts = []uint64{0}
			if rt == Unknown || rf == Unknown {
				e.unknownBranch = true
			}
		}
	}
	e.trace = append(e.trace, d)
	e.pos++
	if d.choice == 1 {
		e.addPC(c)
		return true
	}
	e.addPC(nc)
	return false
}

// concretize forks over the feasible values of t.
func (e *Engine) concretize(t *Term) uint64 {
	if t.Op == OpConst {
		return t.Val
	}
	if t.W == 0 {
		if e.decideBool(t) {
			return 1
		}
		return 0
	}
	if e.replaying() {
		d := &e.trace[e.pos]
		e.pos++
		if !d.isVal || d.term != t {
			panic("nondeterministic replay: value decision mismatch")
		}
		e.addPC(e.ts.Eq(t, e.ts.Const(t.W, d.choice)))
		return d.choice
	}
	if e.concreteMode() {
		e.unsupported("symbolic value in concrete mode: %s", t)
	}
	e.solver.SetTimeout(e.cfg.QueryTimeout)
	r, m := e.checkModel([]*Term{t})
	if r != Sat {
		e.end("inconclusive", "concretize: solver said %v", r)
	}
	v := m[termKeyName(t)]
	d := decision{isVal: true, choice: v, tried: []uint64{v}, pcLen: len(e.pc), term: t}
	e.trace = append(e.trace, d)
	e.pos++
	e.addPC(e.ts.Eq(t, e.ts.Const(t.W, v)))
	return v
}

// chooseAmong forks over the values 0..n-1 of a fresh input variable without solver queries.
func (e *Engine) chooseAmong(x *Term, n int) uint64 {
	if n <= 0 {
		e.end("prune", "empty choice")
	}
	if e.replaying() {
		d := &e.trace[e.pos]
		e.pos++
		if !d.isVal || d.term != x {
			panic("nondeterministic replay: choice mismatch")
		}
		e.addPC(e.ts.Eq(x, e.ts.Const(x.W, d.choice)))
		return d.choice
	}
	d := decision{isVal: true, isChoice: true, choice: 0, pcLen: len(e.pc), term: x}
	for i := 1; i < n; i++ {
		d.alts = append(d.alts, uint64(i))
	}
	e.trace = append(e.trace, d)
	e.pos++
	e.addPC(e.ts.Eq(x, e.ts.Const(x.W, 0)))
	return 0
}

func termKeyName(t *Term) string {
	if t.Op == OpVar {
		return t.Name
	}
	return t.ref()
}

func (e *Engine) concretizeInt(t *Term, signed bool) int {
	v := e.concretize(t)
	if signed {
		return int(sext64(v, t.W))
	}
	return int(v)
}

// backtrack prepares the trace for the next unexplored path; false when done.
func (e *Engine) backtrack() bool {
	for len(e.trace) > 0 {
		d := &e.trace[len(e.trace)-1]
		if n := len(e.solverPC) - d.pcLen; n > 0 {
			e.solver.Pop(n)
			e.solverPC = e.solverPC[:d.pcLen]
		}
		if !d.isVal || d.isChoice {
			if len(d.alts) > 0 {
				if d.isChoice {
					d.choice = d.alts[0]
					d.alts = d.alts[1:]
					return true
				}
				d.choice = d.alts[0]
				d.alts = nil
				return true
			}
		} else if len(d.tried) < e.cfg.MaxValues {
			var ex []*Term
			for _, v := range d.tried {
				ex = append(ex, e.ts.BNot(e.ts.Eq(d.term, e.ts.Const(d.term.W, v))))
			}
			e.solver.SetTimeout(e.cfg.QueryTimeout)
			r, m := e.checkModel([]*Term{d.term}, ex...)
			if r == Sat {
				v := m[termKeyName(d.term)]
				d.choice = v
				d.tried = append(d.tried, v)
				return true
			}
			if r == Unknown {
				e.res.Inconclusives = append(e.res.Inconclusives, Inconclusive{Harness: e.res.Harness, Reason: "concretize: unknown while enumerating values of " + d.term.String()})
			}
		} else {
			e.res.Inconclusives = append(e.res.Inconclusives, Inconclusive{Harness: e.res.Harness, Reason: fmt.Sprintf("concretize: more than %d values for %s", e.cfg.MaxValues, d.term)})
		}
		e.trace = e.trace[:len(e.trace)-1]
	}
	return false
}

// ---- obligations

func (e *Engine) oblStat(key, msg string) *OblStat {
	s := e.res.Obls[key]
	if s == nil {
		s = &OblStat{Key: key, Msg: msg, Tag: e.tag}
		e.res.Obls[key] = s
	}
	return s
}

func (e *Engine) inputVars() []*Term {
	return e.inputs
}

func (e *Engine) modelToAssignment(m map[string]uint64) map[string][]uint64 {
	// group "name[i]" into arrays
	out := map[string][]uint64{}
	for _, v := range e.inputs {
		val := m[v.Name]
		name := v.Name
		if i := strings.LastIndexByte(name, '['); i >= 0 && strings.HasSuffix(name, "]") {
			base := name[:i]
			var idx int
			fmt.Sscanf(name[i+1:len(name)-1], "%d", &idx)
			arr := out[base]
			for len(arr) <= idx {
				arr = append(arr, 0)
			}
			arr[idx] = val
			out[base] = arr
		} else {
			out[name] = []uint64{val}
		}
	}
	return out
}

// diversify looks for a second model of pc ∧ nc in which as many input variables as
// possible take pseudo-random values. Uninterpreted functions hide special values of the
// real primitives (a zero POLYVAL key annihilates everything, say), so the solver's first,
// typically all-zero, model may not exhibit natively a defect that generic inputs do.
func (e *Engine) diversify(nc *Term, budget int) map[string]uint64 {
	if e.solver == nil || len(e.inputs) == 0 || e.concreteMode() {
		return nil
	}
	vars := e.inputs
	h := uint64(88172645463325252)
	next := func() uint64 { h ^= h << 13; h ^= h >> 7; h ^= h << 17; return h }
	target := make([]*Term, len(vars))
	for i, v := range vars {
		r := next()
		if v.W == 0 {
			target[i] = nil // leave booleans / choices alone
			continue
		}
		if v.W > 8 {
			target[i] = nil // scalars (lengths, ids, choices) keep the solver's value
			continue
		}
		target[i] = e.ts.Eq(v, e.ts.Const(v.W, r|1))
	}
	var fixed []*Term
	e.solver.SetTimeout(1500)
	var fix func(lo, hi int)
	fix = func(lo, hi int) {
		if budget <= 0 || lo >= hi {
			return
		}
		var eqs []*Term
		for i := lo; i < hi; i++ {
			if target[i] != nil {
				eqs = append(eqs, target[i])
			}
		}
		if len(eqs) == 0 {
			return
		}
		budget--
		q := append(append([]*Term{nc}, fixed...), eqs...)
		if e.solver.CheckWith(q...) == Sat {
			fixed = append(fixed, eqs...)
			return
		}
		if e.solver.dead {
			e.reviveSolver()
			budget = 0
			return
		}
		if hi-lo == 1 {
			return
		}
		mid := (lo + hi) / 2
		fix(lo, mid)
		fix(mid, hi)
	}
	fix(0, len(vars))
	if len(fixed) == 0 {
		return nil
	}
	r, m := e.checkModel(vars, append([]*Term{nc}, fixed...)...)
	if r != Sat {
		return nil
	}
	return m
}

const maxPerSite = 4

func (e *Engine) sameSite(v Violation) int {
	n := 0
	for _, o := range e.res.Violations {
		if o.Kind == v.Kind && o.Msg == v.Msg && o.Pos == v.Pos {
			n++
		}
	}
	return n
}

func (e *Engine) recordViolationAlt(kind, msg string, m map[string]uint64, nc *Term) {
	n := len(e.res.Violations)
	e.recordViolation(kind, msg, m)
	if len(e.res.Violations) > n {
		if alt := e.diversify(nc, 40); alt != nil {
			e.res.Violations[n].Alt = append(e.res.Violations[n].Alt, e.modelToAssignment(alt))
		}
	}
}

func (e *Engine) recordViolation(kind, msg string, m map[string]uint64) {
	v := Violation{Harness: e.res.Harness, Kind: kind, Msg: msg, Pos: e.curPos(), Model: e.modelToAssignment(m), Stack: e.stackStrings()}
	if os.Getenv("VERIF_DEBUGPC") != "" {
		fmt.Fprintf(os.Stderr, "--- violation %s %s: pc:\n", kind, msg)
		for i, t := range e.pc {
			fmt.Fprintf(os.Stderr, "  pc[%d] = %s\n", i, t.str(6))
		}
		for i, d := range e.trace {
			fmt.Fprintf(os.Stderr, "  dec[%d] isVal=%v choice=%d tried=%v pcLen=%d term=%s\n", i, d.isVal, d.choice, d.tried, d.pcLen, d.term.str(3))
		}
	}
	// keep at most a few candidates per (kind,msg,pos): different paths give different inputs
	if e.sameSite(v) >= maxPerSite {
		return
	}
	e.res.Violations = append(e.res.Violations, v)
}

// assert checks an obligation on the current path.
func (e *Engine) assert(c *Term, msg string) {
	key := msg + "@" + e.callerPos()
	st := e.oblStat(key, msg)
	if e.replaying() {
		e.addPC(c)
		return
	}
	st.Checked++
	if c.Op == OpTrue {
		st.Trivial++
		st.Discharged++
		return
	}
	if e.concreteMode() {
		if c.Op == OpFalse {
			st.Violated++
			e.recordViolation("assert", msg, nil)
			e.end("prune", "assertion failed concretely")
		}
		e.unsupported("symbolic assertion in concrete mode")
	}
	nc := e.ts.BNot(c)
	r := Unknown
	var m map[string]uint64
	if e.tag == "" {
		e.solver.SetTimeout(e.cfg.QuickAssertTimeout)
		r, m = e.checkModel(e.inputVars(), nc)
	}
	switch r {
	case Unsat:
		st.Discharged++
		if len(e.res.Samples) < 3 {
			e.res.Samples = append(e.res.Samples, fmt.Sprintf("%s: pc[%d] ∧ ¬(%s) unsat", msg, len(e.pc), c))
		}
	case Sat:
		st.Violated++
		e.recordViolationAlt("assert", msg, m, nc)
		if len(e.res.Samples) < 6 {
			e.res.Samples = append(e.res.Samples, fmt.Sprintf("VIOLATED %s: %s", msg, nc))
		}
		if e.feasible(c) == Unsat {
			e.end("prune", "assertion always violated on this path")
		}
	default:
		e.submit(st, nc, msg)
	}
	e.addPC(c)
}

// submit hands pc ∧ nc to the one-shot solver portfolio (asynchronously).
func (e *Engine) submit(st *OblStat, nc *Term, msg string) {
	asserts := append(append([]*Term(nil), e.pc...), nc)
	vars := append([]*Term(nil), e.inputVars()...)
	j := &oblJob{st: st, msg: msg, pos: e.callerPos(), stack: e.stackStrings(), script: Script(e.ts, asserts, vars), vars: vars, tag: e.tag, timeout: e.cfg.TagTimeout, done: make(chan struct{})}
	if len(e.cuts) > 0 {
		j.asserts = asserts
		for _, c := range e.cuts {
			j.cuts = append(j.cuts, c)
		}
	}
	e.jobs = append(e.jobs, j)
	e.res.TagObls++
	go runPortfolio(j)
}

// collect waits for all outstanding one-shot jobs and folds their verdicts in.
func (e *Engine) collect() {
	for i, j := range e.jobs {
		<-j.done
		e.res.SolverTime += j.el
		e.res.Queries++
		switch j.res {
		case Unsat:
			j.st.Discharged++
			e.res.TagDischarged++
			if len(e.res.Samples) < 6 {
				e.res.Samples = append(e.res.Samples, fmt.Sprintf("[one-shot %s] %s: unsat in %v", j.solver, j.msg, j.el.Round(time.Millisecond)))
			}
		case Sat:
			if len(j.cuts) > 0 && !e.refineCut(j) {
				j.st.Unknown++
				e.res.Inconclusives = append(e.res.Inconclusives, Inconclusive{Harness: e.res.Harness, Reason: "cut-spurious or unrefinable counterexample under a cut: " + j.msg, Pos: j.pos})
				continue
			}
			j.st.Violated++
			saved := e.inputs
			e.inputs = j.vars
			v := Violation{Harness: e.res.Harness, Kind: "assert", Msg: j.msg, Pos: j.pos, Model: e.modelToAssignment(j.model), Stack: j.stack}
			e.inputs = saved
			if e.sameSite(v) < maxPerSite {
				e.res.Violations = append(e.res.Violations, v)
			}
		default:
			j.st.Unknown++
			if e.cfg.ScriptDir != "" {
				os.MkdirAll(e.cfg.ScriptDir, 0o755)
				os.WriteFile(fmt.Sprintf("%s/%s_%d.smt2", e.cfg.ScriptDir, e.res.Harness, i), []byte(j.script), 0o644)
			}
			e.res.Inconclusives = append(e.res.Inconclusives, Inconclusive{Harness: e.res.Harness, Reason: "obligation unknown/timeout in all portfolio solvers: " + j.msg, Pos: j.pos})
		}
	}
	e.jobs = nil
}

func (e *Engine) assume(c *Term) {
	if c.Op == OpTrue {
		return
	}
	if c.Op == OpFalse {
		e.end("prune", "assume false")
	}
	if !e.replaying() {
		if e.concreteMode() {
			e.unsupported("symbolic assume in concrete mode")
		}
		if e.feasible(c) == Unsat {
			e.end("prune", "assume infeasible")
		}
	}
	e.addPC(c)
}

// callerPos is the position of the innermost frame that is inside a harness file
// (so intrinsics report the harness line that called them).
func (e *Engine) callerPos() string {
	for i := len(e.stack) - 1; i >= 0; i-- {
		fr := e.stack[i]
		if fr.cur != nil && fr.cur.Pos() != token.NoPos {
			return e.framePos(fr)
		}
	}
	return "?"
}

// ---- exploration

func (e *Engine) resetPath() {
	e.pc = e.pc[:0]
	e.pcSet = map[int]bool{}
	e.pos = 0
	e.globals = map[*ssa.Global]*Obj{}
	e.initDone = map[*ssa.Package]bool{}
	e.initBusy = map[*ssa.Package]bool{}
	e.objSeq = 0
	e.epoch = 0
	e.freezeEpoch = 0
	e.steps = 0
	e.seq = map[string]int{}
	e.draws = nil
	e.inputs = nil
	e.inputSet = map[string]bool{}
	e.tag = ""
	e.ts.Plain = false
	e.unwind = e.cfg.Unwind
	e.stack = e.stack[:0]
	e.tolerant = 0
	e.inSummary = false
	e.hostState = map[string]any{}
	e.unknownBranch = false
	e.memo = map[string][]Value{}
	e.blobs = nil
	e.unwindPrune = false
	e.summaries = map[string]Value{}
	e.sumCache = map[*ssa.Function]Value{}
	e.pendingCuts = map[string]cutSpec{}
	e.cuts = map[string]*cutState{}
}

// Explore runs all paths of harness fn.
func (e *Engine) Explore(fn *ssa.Function) (res *HarnessResult) {
	t0 := time.Now()
	e.ts = NewTerms()
	e.res = &HarnessResult{Harness: fn.Name(), Obls: map[string]*OblStat{}, Reached: map[string]int{}, Funcs: map[string]bool{}, Stubs: map[string]int{}, InputNames: map[string]int{}, Cuts: map[string]int{}, Summaries: map[string]int{}}
	res = e.res
	if !e.concreteMode() {
		s, err := NewSolver(e.cfg.Solver, e.ts, e.cfg.QueryTimeout)
		if err != nil {
			res.Inconclusives = append(res.Inconclusives, Inconclusive{Harness: fn.Name(), Reason: "cannot start solver: " + err.Error()})
			return
		}
		e.solver = s
		defer func() {
			s := e.solver
			res.Queries += s.Queries
			res.SolverTime += s.Time
			if s.Errors > 0 && res.SolverRestarts == 0 {
				res.Inconclusives = append(res.Inconclusives, Inconclusive{Harness: fn.Name(), Reason: fmt.Sprintf("%d solver error lines", s.Errors)})
			}
			s.Close()
		}()
	}
	e.trace = nil
	e.solverPC = nil
	for {
		e.resetPath()
		e.runPath(fn)
		res.Paths++
		res.Steps += int64(e.steps)
		if res.Paths >= e.cfg.MaxPaths {
			res.Inconclusives = append(res.Inconclusives, Inconclusive{Harness: fn.Name(), Reason: fmt.Sprintf("path budget %d exhausted", e.cfg.MaxPaths)})
			break
		}
		if !e.cfg.Deadline.IsZero() && time.Now().After(e.cfg.Deadline) {
			res.Inconclusives = append(res.Inconclusives, Inconclusive{Harness: fn.Name(), Reason: "wall-clock cap reached before all paths were explored"})
			break
		}
		if e.concreteMode() || (e.solver != nil && e.solver.dead) {
			if e.solver != nil && e.solver.dead {
				res.Inconclusives = append(res.Inconclusives, Inconclusive{Harness: fn.Name(), Reason: "solver died"})
			}
			break
		}
		if !e.backtrack() {
			break
		}
	}
	e.collect()
	res.Wall = time.Since(t0)
	return
}

func (e *Engine) runPath(fn *ssa.Function) {
	defer func() {
		if r := recover(); r != nil {
			pe, ok := r.(pathEnd)
			if !ok {
				// engine bug or host panic: report as inconclusive with location
				if os.Getenv("VERIF_DEBUG") != "" {
					panic(r)
				}
				e.res.Inconclusives = append(e.res.Inconclusives, Inconclusive{Harness: e.res.Harness, Reason: fmt.Sprintf("engine error: %v | %s", r, strings.Join(e.stackStrings(), " <- ")), Pos: e.curPos()})
				return
			}
			switch pe.kind {
			case "prune", "exit":
				e.res.PathsPruned++
			case "panic":
				// a feasible path reaches a run-time panic: violation candidate
				var m map[string]uint64
				if e.solver != nil {
					e.solver.SetTimeout(e.cfg.AssertTimeout)
					var r Result
					r, m = e.checkModel(e.inputVars())
					if r == Unsat {
						e.res.PathsPruned++
						return
					}
					if r == Unknown {
						e.res.Inconclusives = append(e.res.Inconclusives, Inconclusive{Harness: e.res.Harness, Reason: "panic path with unknown feasibility: " + pe.msg, Pos: pe.pos})
						return
					}
				}
				v := Violation{Harness: e.res.Harness, Kind: "panic", Msg: pe.msg, Pos: pe.pos, Model: e.modelToAssignment(m), Stack: pe.stack}
				dup := e.sameSite(v) >= maxPerSite
				if !dup {
					if alt := e.diversify(e.ts.True, 40); alt != nil {
						v.Alt = append(v.Alt, e.modelToAssignment(alt))
					}
					e.res.Violations = append(e.res.Violations, v)
				}
			default:
				e.res.Inconclusives = append(e.res.Inconclusives, Inconclusive{Harness: e.res.Harness, Reason: pe.kind + ": " + pe.msg + " | " + strings.Join(e.stackStrings(), " <- "), Pos: pe.pos})
			}
		}
	}()
	e.call(fn, nil, nil)
	// a completed path: keep a model of its path condition as a concrete witness input
	if e.solver != nil && !e.concreteMode() && len(e.res.Witnesses) < e.cfg.Witnesses && len(e.inputs) > 0 {
		e.solver.SetTimeout(3000)
		m := e.diversify(e.ts.True, 5)
		if m == nil {
			var r Result
			r, m = e.checkModel(e.inputs)
			if r != Sat {
				m = nil
			}
		}
		if m != nil {
			// values decided by the path itself (Choice, concretisations of input variables) are
			// taken from the decision trace, whatever the solver reported for them
			for i := 0; i < e.pos && i < len(e.trace); i++ {
				if d := e.trace[i]; d.isVal && d.term != nil && d.term.Op == OpVar {
					m[d.term.Name] = d.choice
				}
			}
			e.res.Witnesses = append(e.res.Witnesses, e.modelToAssignment(m))
		}
	}
}

// FuncList returns the sorted list of functions symbolically executed.
func (r *HarnessResult) FuncList() []string {
	var out []string
	for f := range r.Funcs {
		out = append(out, f)
	}
	sort.Strings(out)
	return out
}

var _ = types.Typ
