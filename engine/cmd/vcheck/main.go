// vcheck decides one property: it loads /repo's working tree plus the overlay harnesses,
// symbolically executes every harness registered for the property, replays each solver
// model natively, cross-validates the translator, and writes /verif/evidence/<id>.json.
package main

import (
	"encoding/json"
	"fmt"
	"math/rand"
	"os"
	"os/exec"
	"path/filepath"
	"sort"
	"strconv"
	"strings"
	"sync"
	"time"

	"verif/engine/sym"
)

const (
	verifDir = "/verif"
	repoDir  = "/repo"
)

type harnessCfg struct {
	Name      string   `json:"name"`
	Tiers     []string `json:"tiers"`     // default both
	TimeoutS  int      `json:"timeout_s"` // wall cap for this harness (per tier default otherwise)
	Validate  int      `json:"validate"`  // concrete cross-validation runs (default per tier)
	OblS      int      `json:"obligation_timeout_s"`
	Solver    string   `json:"solver"`
	NoReplay  bool     `json:"no_replay"` // violations of this harness cannot be replayed natively (e.g. engine-only monitors)
	MaxPaths  int      `json:"max_paths"`
}

type checkCfg struct {
	Property     string       `json:"property"`
	Level        string       `json:"level"`
	Harnesses    []harnessCfg `json:"harnesses"`
	Assumptions  []string     `json:"assumptions"`
	OutsideClaim []string     `json:"outside_claim"`
	Bounds       map[string]string `json:"bounds"`
	Stubs        []string     `json:"stubs"`
	Solver       string       `json:"solver"`
}

type knownFinding struct {
	Status   string `json:"status"` // "known" | "fixed"
	Property string `json:"property"`
	Harness  string `json:"harness"`
	Kind     string `json:"kind"`
	Pos      string `json:"pos"`  // code location of the offending store/branch/assert (file:line, or file only)
	Match    string `json:"match"` // substring of the violation message
	Commit   string `json:"commit"`
	Text     string `json:"text"`
	// Inputs: values the counterexample's inputs must have (name -> values); a violation of
	// the same assertion with other inputs is not this finding
	Inputs map[string][]uint64 `json:"inputs"`
}

func main() {
	if len(os.Args) >= 3 && os.Args[1] == "--replay" {
		os.Exit(replayCmd(os.Args[2]))
	}
	if len(os.Args) < 3 {
		fmt.Fprintln(os.Stderr, "usage: vcheck <property> <quick|thorough> | vcheck --replay <file>")
		os.Exit(2)
	}
	prop, tier := os.Args[1], os.Args[2]
	if t := os.Getenv("VERIF_TIER"); t != "" && len(os.Args) < 3 {
		tier = t
	}
	os.Exit(run(prop, tier))
}

func seed() int64 {
	if s := os.Getenv("VERIF_SEED"); s != "" {
		if v, err := strconv.ParseInt(s, 10, 64); err == nil {
			return v
		}
	}
	return 1
}

func inTier(h harnessCfg, tier string) bool {
	if len(h.Tiers) == 0 {
		return true
	}
	for _, t := range h.Tiers {
		if t == tier {
			return true
		}
	}
	return false
}

type hOutcome struct {
	cfg       harnessCfg
	res       *sym.HarnessResult
	confirmed []confirmedV
	unconf    []sym.Violation
	validated int
	valMismatch []string
	valSkipped int
}

type confirmedV struct {
	v      sym.Violation
	replay string
	detail string
	known  *knownFinding
}

func run(prop, tier string) int {
	t0 := time.Now()
	var cfg checkCfg
	b, err := os.ReadFile(filepath.Join(verifDir, "checks", prop+".json"))
	if err != nil {
		fmt.Fprintln(os.Stderr, err)
		return 2
	}
	if err := json.Unmarshal(b, &cfg); err != nil {
		fmt.Fprintln(os.Stderr, "checks config:", err)
		return 2
	}
	known := loadKnown()
	outDir := filepath.Join(verifDir, "out", prop)
	os.RemoveAll(outDir)
	os.MkdirAll(outDir, 0o755)

	ld, err := sym.Load(repoDir, filepath.Join(verifDir, "harness"), nil)
	if err != nil {
		// a tree that does not type-check cannot be decided; not a violation
		fmt.Printf("INCONCLUSIVE property=%s reason=load-failed\n%v\n", prop, err)
		writeEvidence(prop, tier, cfg, nil, t0, 0, []string{"load failed: " + err.Error()})
		return 0
	}
	loadT := time.Since(t0)

	var todo []harnessCfg
	for _, h := range cfg.Harnesses {
		if inTier(h, tier) {
			todo = append(todo, h)
		}
	}
	outcomes := make([]*hOutcome, len(todo))
	var wg sync.WaitGroup
	sem := make(chan struct{}, 12)
	for i, h := range todo {
		wg.Add(1)
		go func(i int, h harnessCfg) {
			defer wg.Done()
			sem <- struct{}{}
			defer func() { <-sem }()
			if h.Solver == "" {
				h.Solver = cfg.Solver
			}
			if h.Solver == "" {
				h.Solver = "cvc5"
			}
			outcomes[i] = runHarness(ld, h, tier, outDir)
		}(i, h)
	}
	wg.Wait()

	// native replay of all candidate violations + translator validation, batched per package
	nativePhase(ld, prop, tier, outcomes, outDir)

	// verdicts
	exit := 0
	nviol := 0
	var notes []string
	for _, o := range outcomes {
		if o == nil || o.res == nil {
			continue
		}
		seenSite := map[string]bool{}
		for i := range o.confirmed {
			c := &o.confirmed[i]
			site := c.v.Kind + "|" + c.v.Msg + "|" + c.v.Pos
			if seenSite[site] {
				continue
			}
			seenSite[site] = true
			if k := matchKnown(known, prop, c.v); k != nil {
				c.known = k
				fmt.Printf("KNOWN-FINDING: property=%s %s\n", prop, k.Text)
				continue
			}
			fmt.Printf("VIOLATION property=%s replay=%s\n", prop, c.replay)
			fmt.Printf("  harness=%s kind=%s msg=%q at %s\n  native: %s\n", c.v.Harness, c.v.Kind, c.v.Msg, c.v.Pos, c.detail)
			for _, s := range c.v.Stack {
				fmt.Printf("    %s\n", s)
			}
			nviol++
			exit = 1
		}
		for _, u := range o.unconf {
			if seenSite[u.Kind+"|"+u.Msg+"|"+u.Pos] {
				continue // another model of the same violation did reproduce
			}
			seenSite[u.Kind+"|"+u.Msg+"|"+u.Pos] = true
			fmt.Printf("UNCONFIRMED property=%s harness=%s kind=%s msg=%q at %s (solver model did not reproduce natively; encoding or stub suspect)\n", prop, u.Harness, u.Kind, u.Msg, u.Pos)
			notes = append(notes, "unconfirmed: "+u.Harness+": "+u.Msg)
		}
		for _, ic := range o.res.Inconclusives {
			fmt.Printf("INCONCLUSIVE property=%s harness=%s reason=%q at %s\n", prop, o.res.Harness, ic.Reason, ic.Pos)
		}
		if len(o.res.Reached) == 0 && len(o.res.Violations) == 0 && len(o.res.Inconclusives) == 0 {
			fmt.Printf("INCONCLUSIVE property=%s harness=%s reason=%q\n", prop, o.res.Harness, "vacuous: no Reach witness was reached")
			notes = append(notes, "vacuous harness: "+o.res.Harness)
		}
		for _, m := range o.valMismatch {
			fmt.Printf("TRANSLATOR-MISMATCH property=%s harness=%s %s\n", prop, o.res.Harness, m)
			notes = append(notes, "translator mismatch: "+o.res.Harness+": "+m)
		}
	}
	writeEvidenceFull(prop, tier, cfg, outcomes, t0, loadT, nviol, notes)
	summary(prop, tier, outcomes, time.Since(t0))
	return exit
}

func runHarness(ld *sym.Loaded, h harnessCfg, tier, outDir string) *hOutcome {
	o := &hOutcome{cfg: h}
	fn := ld.Harnesses[h.Name]
	if fn == nil {
		o.res = &sym.HarnessResult{Harness: h.Name, Obls: map[string]*sym.OblStat{}, Reached: map[string]int{}, Funcs: map[string]bool{}, Stubs: map[string]int{}}
		o.res.Inconclusives = append(o.res.Inconclusives, sym.Inconclusive{Harness: h.Name, Reason: "harness function not found"})
		return o
	}
	capS := h.TimeoutS
	if capS == 0 {
		capS = 240
	}
	maxPaths := h.MaxPaths
	if tier == "thorough" {
		// the thorough tier explores larger bounds: ten times the wall cap (at least 40
		// minutes) and ten times the path budget
		capS = max(10*capS, 2400)
		if maxPaths == 0 {
			maxPaths = 2000000
		} else {
			maxPaths *= 10
		}
	}
	oblS := h.OblS
	if oblS == 0 {
		oblS = 60
		if tier == "thorough" {
			oblS = 300
		}
	}
	c := sym.Config{
		Deadline:   time.Now().Add(time.Duration(capS) * time.Second),
		TagTimeout: time.Duration(oblS) * time.Second,
		Solver:     h.Solver,
		ScriptDir:  filepath.Join(outDir, "unknown"),
		Thorough:   tier == "thorough",
		MaxPaths:   maxPaths,
		Witnesses:  3,
	}
	e := sym.NewEngine(ld, c)
	o.res = e.Explore(fn)
	return o
}

// ---- native phase

type replayDoc struct {
	Harness string              `json:"harness"`
	Tier    string              `json:"tier"`
	Inputs  map[string][]uint64 `json:"inputs"`
}

type nativeResult struct {
	status string // ok | fail | panic | skip | missing
	detail string
	obs    []string
}

func writeReplay(path string, d replayDoc) {
	b, _ := json.MarshalIndent(d, "", " ")
	os.WriteFile(path, b, 0o644)
}

func pkgOfHarness(ld *sym.Loaded, name string) string {
	fn := ld.Harnesses[name]
	if fn == nil || fn.Pkg == nil {
		return ""
	}
	return strings.TrimPrefix(fn.Pkg.Pkg.Path(), sym.ModulePath+"/")
}

func nativePhase(ld *sym.Loaded, prop, tier string, outcomes []*hOutcome, outDir string) {
	type item struct {
		o      *hOutcome
		viol   *sym.Violation // nil for validation run
		file   string
		inputs map[string][]uint64
		engObs []sym.ObserveRec
		alt    bool
	}
	byPkg := map[string][]*item{}
	rng := rand.New(rand.NewSource(seed()))
	for _, o := range outcomes {
		if o == nil || o.res == nil {
			continue
		}
		pkg := pkgOfHarness(ld, o.res.Harness)
		if pkg == "" {
			continue
		}
		for i := range o.res.Violations {
			v := &o.res.Violations[i]
			f := filepath.Join(outDir, fmt.Sprintf("%s_cex%d.json", o.res.Harness, i))
			writeReplay(f, replayDoc{Harness: o.res.Harness, Tier: tier, Inputs: v.Model})
			if o.cfg.NoReplay {
				o.confirmed = append(o.confirmed, confirmedV{v: *v, replay: f, detail: "engine-level monitor (no native replay available for this harness)"})
				continue
			}
			byPkg[pkg] = append(byPkg[pkg], &item{o: o, viol: v, file: f, inputs: v.Model})
			for k, alt := range v.Alt {
				fa := filepath.Join(outDir, fmt.Sprintf("%s_cex%d_alt%d.json", o.res.Harness, i, k))
				writeReplay(fa, replayDoc{Harness: o.res.Harness, Tier: tier, Inputs: alt})
				byPkg[pkg] = append(byPkg[pkg], &item{o: o, viol: v, file: fa, inputs: alt, alt: true})
			}
		}
		// translator validation: random concrete assignments over the harness's input names
		k := o.cfg.Validate
		if k == 0 {
			k = 3
			if tier == "thorough" {
				k = 6
			}
		}
		if k < 0 || len(o.res.InputNames) == 0 || o.cfg.NoReplay {
			continue // engine-only harnesses have no native counterpart to validate against
		}
		fn := ld.Harnesses[o.res.Harness]
		for j := 0; j < k; j++ {
			in := map[string][]uint64{}
			if j < len(o.res.Witnesses) {
				// a solver model of a completed path: satisfies every assumption of that path
				in = o.res.Witnesses[j]
			} else {
				for name, w := range o.res.InputNames {
					base, idx := splitIdx(name)
					arr := in[base]
					for len(arr) <= idx {
						arr = append(arr, 0)
					}
					var v uint64
					switch rng.Intn(4) {
					case 0:
						v = 0
					case 1:
						v = uint64(rng.Intn(4))
					default:
						v = rng.Uint64()
					}
					if w > 0 && w < 64 {
						v &= (uint64(1) << uint(w)) - 1
					}
					if w == 0 {
						v &= 1
					}
					arr[idx] = v
					in[base] = arr
				}
			}
			ce := sym.NewEngine(ld, sym.Config{Concrete: in, Thorough: tier == "thorough", Deadline: time.Now().Add(60 * time.Second)})
			cr := ce.Explore(fn)
			if len(cr.Inconclusives) > 0 {
				o.valSkipped++
				continue
			}
			if cr.PathsPruned > 0 && j >= len(o.res.Witnesses) {
				// a RANDOM input that the engine prunes (it violates a harness or model assumption,
				// e.g. "the modelled key generator never returns a key with a zero top byte"): the
				// native run has no such assumption inside the real code, so there is nothing to
				// compare. Solver-model witnesses never prune and are always compared.
				o.valSkipped++
				continue
			}
			f := filepath.Join(outDir, fmt.Sprintf("%s_val%d.json", o.res.Harness, j))
			writeReplay(f, replayDoc{Harness: o.res.Harness, Tier: tier, Inputs: in})
			it := &item{o: o, file: f, inputs: in, engObs: cr.Observes}
			if cr.PathsPruned > 0 {
				it.engObs = append(it.engObs, sym.ObserveRec{Label: "!engine-pruned"})
			}
			if len(cr.Violations) > 0 {
				it.engObs = append(it.engObs, sym.ObserveRec{Label: "!engine-violation"})
			}
			byPkg[pkg] = append(byPkg[pkg], it)
		}
	}
	if len(byPkg) == 0 {
		return
	}
	// overlay with generated test drivers
	ovMap := map[string]string{}
	for v, r := range ld.OverlayMap {
		ovMap[v] = r
	}
	for pkg := range byPkg {
		var names []string
		for n := range ld.Harnesses {
			if pkgOfHarness(ld, n) == pkg {
				names = append(names, n)
			}
		}
		sort.Strings(names)
		pkgName := ld.Harnesses[names[0]].Pkg.Pkg.Name()
		var sb strings.Builder
		fmt.Fprintf(&sb, "package %s\n\nimport (\n\t\"testing\"\n\t\"%s/internal/verifrt\"\n)\n\nfunc TestVerifReplay(t *testing.T) {\n\tverifrt.RunAll(map[string]func(){\n", pkgName, sym.ModulePath)
		for _, n := range names {
			fmt.Fprintf(&sb, "\t\t%q: %s,\n", n, n)
		}
		sb.WriteString("\t})\n}\n")
		real := filepath.Join(outDir, "driver_"+strings.ReplaceAll(pkg, "/", "_")+"_test.go")
		os.WriteFile(real, []byte(sb.String()), 0o644)
		ovMap[filepath.Join(repoDir, pkg, "zz_verif_replay_test.go")] = real
	}
	ovJSON, _ := json.Marshal(map[string]any{"Replace": ovMap})
	ovFile := filepath.Join(outDir, "overlay.json")
	os.WriteFile(ovFile, ovJSON, 0o644)

	var mu sync.Mutex
	var wg sync.WaitGroup
	sem := make(chan struct{}, 6)
	violDone := map[*sym.Violation]bool{}
	violTried := map[*sym.Violation]*hOutcome{}
	defer func() {
		for v, o := range violTried {
			if !violDone[v] {
				o.unconf = append(o.unconf, *v)
			}
		}
	}()
	for pkg, items := range byPkg {
		wg.Add(1)
		go func(pkg string, items []*item) {
			defer wg.Done()
			sem <- struct{}{}
			defer func() { <-sem }()
			listFile := filepath.Join(outDir, "list_"+strings.ReplaceAll(pkg, "/", "_")+".txt")
			var lines []string
			for _, it := range items {
				lines = append(lines, it.file)
			}
			os.WriteFile(listFile, []byte(strings.Join(lines, "\n")+"\n"), 0o644)
			results, raw := goTestReplay(ovFile, pkg, listFile)
			mu.Lock()
			defer mu.Unlock()
			for _, it := range items {
				r, ok := results[it.file]
				if !ok {
					r = nativeResult{status: "missing", detail: lastLines(raw, 12)}
				}
				if it.viol != nil {
					if r.status == "fail" || r.status == "panic" {
						if !violDone[it.viol] {
							violDone[it.viol] = true
							it.o.confirmed = append(it.o.confirmed, confirmedV{v: *it.viol, replay: it.file, detail: r.status + ": " + r.detail})
						}
					} else if r.status == "skip" {
						// the native run could not follow the engine on this path: the harness declares it
						// (NativeSkip / EngineOnly: summarised internals, uninterpreted curve, ...) or a
						// harness assumption over environment-model values (uninterpreted functions, ideal
						// ciphers) does not hold for the native stand-ins. Nothing contradicts the engine's
						// counterexample, so it has the same standing as one of a no_replay harness and is
						// reported as an engine-level violation. (UNCONFIRMED is kept for native runs that
						// complete without failing.)
						if !violDone[it.viol] {
							violDone[it.viol] = true
							it.o.confirmed = append(it.o.confirmed, confirmedV{v: *it.viol, replay: it.file, detail: "engine-level counterexample (the native run cannot follow the engine here: " + r.detail + ")"})
						}
					} else {
						os.WriteFile(it.file+".native.txt", []byte(r.status+"\n"+r.detail+"\n"+raw), 0o644)
						violTried[it.viol] = it.o
					}
					continue
				}
				// validation: compare observes
				if r.status == "skip" && strings.Contains(r.detail, "native-unsupported") {
					it.o.valSkipped++
					continue
				}
				if r.status == "missing" {
					it.o.valMismatch = append(it.o.valMismatch, "native run missing for "+it.file+": "+r.detail)
					continue
				}
				if mm := compareObs(it.engObs, r); mm != "" {
					it.o.valMismatch = append(it.o.valMismatch, fmt.Sprintf("%s: %s", filepath.Base(it.file), mm))
				} else {
					it.o.validated++
				}
			}
		}(pkg, items)
	}
	wg.Wait()
}

func splitIdx(name string) (string, int) {
	if i := strings.LastIndexByte(name, '['); i >= 0 && strings.HasSuffix(name, "]") {
		n, _ := strconv.Atoi(name[i+1 : len(name)-1])
		return name[:i], n
	}
	return name, 0
}

func compareObs(eng []sym.ObserveRec, r nativeResult) string {
	engViol, engPruned := false, false
	var engLines []string
	for _, o := range eng {
		if o.Label == "!engine-violation" {
			engViol = true
			continue
		}
		if o.Label == "!engine-pruned" {
			engPruned = true
			continue
		}
		engLines = append(engLines, strings.TrimSpace(o.Label+" "+strings.Join(o.Vals, " ")))
	}
	if (r.status == "skip") != engPruned {
		return fmt.Sprintf("engine pruned=%v but native status=%s (%s)", engPruned, r.status, r.detail)
	}
	natFail := r.status == "fail" || r.status == "panic"
	if engViol != natFail && r.status != "skip" {
		return fmt.Sprintf("engine violation=%v but native status=%s (%s)", engViol, r.status, r.detail)
	}
	if r.status == "skip" {
		// native Assume failed: engine must also have pruned (no observes after the prune point); compare prefix
		if len(r.obs) > len(engLines) {
			return "native observed more than engine on a skipped run"
		}
	}
	n := len(r.obs)
	if len(engLines) < n {
		n = len(engLines)
	}
	if r.status == "ok" && len(engLines) != len(r.obs) {
		return fmt.Sprintf("observe count differs: engine %d native %d", len(engLines), len(r.obs))
	}
	for i := 0; i < n; i++ {
		if strings.Contains(engLines[i], "sym") {
			continue
		}
		if engLines[i] != r.obs[i] {
			return fmt.Sprintf("observe %d differs: engine %q native %q", i, engLines[i], r.obs[i])
		}
	}
	return ""
}

func lastLines(s string, n int) string {
	l := strings.Split(strings.TrimSpace(s), "\n")
	if len(l) > n {
		l = l[len(l)-n:]
	}
	return strings.Join(l, " | ")
}

func goTestReplay(ovFile, pkg, listFile string) (map[string]nativeResult, string) {
	cmd := exec.Command("go", "test", "-v", "-vet=off", "-count=1", "-overlay", ovFile, "-run", "^TestVerifReplay$", "-timeout", "20m", "./"+pkg)
	cmd.Dir = repoDir
	env := os.Environ()
	env = append(env, "GOFLAGS=-mod=mod", "GOPROXY=off", "GOTOOLCHAIN=auto", "VERIF_REPLAY_LIST="+listFile)
	cmd.Env = env
	out, _ := cmd.CombinedOutput()
	res := map[string]nativeResult{}
	for _, l := range strings.Split(string(out), "\n") {
		if rest, ok := strings.CutPrefix(l, "VERIF-RESULT "); ok {
			f := field(rest, "file")
			r := res[f]
			r.status = field(rest, "status")
			if i := strings.Index(rest, "detail="); i >= 0 {
				r.detail = rest[i+7:]
			}
			res[f] = r
		} else if rest, ok := strings.CutPrefix(l, "VERIF-OBS "); ok {
			f := field(rest, "file")
			if i := strings.Index(rest, " obs="); i >= 0 {
				r := res[f]
				r.obs = append(r.obs, strings.TrimSpace(rest[i+5:]))
				res[f] = r
			}
		}
	}
	return res, string(out)
}

func field(s, k string) string {
	i := strings.Index(s, k+"=")
	if i < 0 {
		return ""
	}
	s = s[i+len(k)+1:]
	if j := strings.IndexByte(s, ' '); j >= 0 {
		s = s[:j]
	}
	return s
}

// ---- known findings

func loadKnown() []knownFinding {
	var out []knownFinding
	b, err := os.ReadFile(filepath.Join(verifDir, "known_findings.jsonl"))
	if err != nil {
		return nil
	}
	for _, l := range strings.Split(string(b), "\n") {
		l = strings.TrimSpace(l)
		if l == "" || strings.HasPrefix(l, "#") {
			continue
		}
		var k knownFinding
		if json.Unmarshal([]byte(l), &k) == nil {
			out = append(out, k)
		}
	}
	return out
}

func matchKnown(known []knownFinding, prop string, v sym.Violation) *knownFinding {
	for i := range known {
		k := &known[i]
		if k.Status != "known" || k.Property != prop {
			continue
		}
		if k.Harness != "" && k.Harness != v.Harness {
			continue
		}
		if k.Kind != "" && k.Kind != v.Kind {
			continue
		}
		if k.Pos != "" && !strings.HasPrefix(v.Pos, k.Pos) {
			continue
		}
		if k.Match != "" && !strings.Contains(v.Msg, k.Match) {
			continue
		}
		if !inputsMatch(k.Inputs, v.Model) {
			continue
		}
		return k
	}
	return nil
}

func inputsMatch(want, got map[string][]uint64) bool {
	for name, w := range want {
		g, ok := got[name]
		if !ok || len(g) != len(w) {
			return false
		}
		for i := range w {
			if g[i] != w[i] {
				return false
			}
		}
	}
	return true
}

// ---- replay command

func replayCmd(file string) int {
	b, err := os.ReadFile(file)
	if err != nil {
		fmt.Fprintln(os.Stderr, err)
		return 2
	}
	var d replayDoc
	if err := json.Unmarshal(b, &d); err != nil {
		fmt.Fprintln(os.Stderr, err)
		return 2
	}
	ld, err := sym.Load(repoDir, filepath.Join(verifDir, "harness"), nil)
	if err != nil {
		fmt.Fprintln(os.Stderr, err)
		return 2
	}
	pkg := pkgOfHarness(ld, d.Harness)
	if pkg == "" {
		fmt.Fprintln(os.Stderr, "unknown harness", d.Harness)
		return 2
	}
	outDir := filepath.Join(verifDir, "out", "replay")
	os.MkdirAll(outDir, 0o755)
	o := &hOutcome{res: &sym.HarnessResult{Harness: d.Harness, Violations: []sym.Violation{{Harness: d.Harness, Kind: "replay", Model: d.Inputs}}}}
	abs, _ := filepath.Abs(file)
	_ = abs
	nativePhase(ld, "replay", d.Tier, []*hOutcome{o}, outDir)
	if len(o.confirmed) > 0 {
		fmt.Printf("REPRODUCED harness=%s %s\n", d.Harness, o.confirmed[0].detail)
		return 1
	}
	fmt.Printf("NOT-REPRODUCED harness=%s\n", d.Harness)
	return 0
}

func summary(prop, tier string, outcomes []*hOutcome, wall time.Duration) {
	var paths, obls, dis, unk, viol, q int
	var st time.Duration
	for _, o := range outcomes {
		if o == nil || o.res == nil {
			continue
		}
		paths += o.res.Paths
		q += o.res.Queries
		st += o.res.SolverTime
		for _, ob := range o.res.Obls {
			obls += ob.Checked
			dis += ob.Discharged
			unk += ob.Unknown
			viol += ob.Violated
		}
	}
	fmt.Printf("SUMMARY property=%s tier=%s harnesses=%d paths=%d obligations=%d discharged=%d violated=%d unknown=%d queries=%d solver_time=%.1fs wall=%.1fs\n",
		prop, tier, len(outcomes), paths, obls, dis, viol, unk, q, st.Seconds(), wall.Seconds())
}
