package main

import (
	"encoding/json"
	"fmt"
	"os"
	"path/filepath"
	"sort"
	"time"
)

type evidence struct {
	PropertyID  string         `json:"property_id"`
	Tier        string         `json:"tier"`
	Seed        int64          `json:"seed"`
	Level       string         `json:"level"`
	Coverage    map[string]any `json:"coverage"`
	Assumptions []string       `json:"assumptions"`
	WallS       float64        `json:"wall_s"`
	Violations  int            `json:"violations"`
}

func writeEvidence(prop, tier string, cfg checkCfg, outcomes []*hOutcome, t0 time.Time, nviol int, notes []string) {
	writeEvidenceFull(prop, tier, cfg, outcomes, t0, 0, nviol, notes)
}

func writeEvidenceFull(prop, tier string, cfg checkCfg, outcomes []*hOutcome, t0 time.Time, loadT time.Duration, nviol int, notes []string) {
	level := cfg.Level
	if level == "" {
		level = "model_checking"
	}
	var paths, pruned, obls, dis, trivial, unk, viol, queries, validated, valSkipped, oneShot, oneShotDis int
	var steps int64
	var solverT time.Duration
	funcs := map[string]bool{}
	stubs := map[string]int{}
	var samples []any
	var perH []map[string]any
	var inconcl []string
	var unconf, known int
	for _, o := range outcomes {
		if o == nil || o.res == nil {
			continue
		}
		r := o.res
		paths += r.Paths
		pruned += r.PathsPruned
		steps += r.Steps
		queries += r.Queries
		solverT += r.SolverTime
		validated += o.validated
		valSkipped += o.valSkipped
		oneShot += r.TagObls
		oneShotDis += r.TagDischarged
		unconf += len(o.unconf)
		for f := range r.Funcs {
			funcs[f] = true
		}
		for s, n := range r.Stubs {
			stubs[s] += n
		}
		ho, hd, hu, hv := 0, 0, 0, 0
		var keys []string
		for k := range r.Obls {
			keys = append(keys, k)
		}
		sort.Strings(keys)
		for _, k := range keys {
			ob := r.Obls[k]
			ho += ob.Checked
			hd += ob.Discharged
			hu += ob.Unknown
			hv += ob.Violated
			trivial += ob.Trivial
		}
		obls += ho
		dis += hd
		unk += hu
		viol += hv
		for _, s := range r.Samples {
			if len(samples) < 12 {
				samples = append(samples, map[string]any{"harness": r.Harness, "obligation": s})
			}
		}
		for _, c := range o.confirmed {
			if c.known != nil {
				known++
			}
			if len(samples) < 16 {
				samples = append(samples, map[string]any{"harness": r.Harness, "violation": c.v.Msg, "at": c.v.Pos, "inputs": c.v.Model, "native": c.detail})
			}
		}
		for _, ic := range r.Inconclusives {
			inconcl = append(inconcl, r.Harness+": "+ic.Reason)
		}
		perH = append(perH, map[string]any{
			"harness": r.Harness, "paths": r.Paths, "paths_pruned": r.PathsPruned, "ssa_instructions": r.Steps,
			"obligations": ho, "discharged": hd, "unknown": hu, "violated": hv, "reach_witnesses": r.Reached,
			"queries": r.Queries, "solver_time_s": round3(r.SolverTime.Seconds()), "wall_s": round3(r.Wall.Seconds()),
			"translator_validated_runs": o.validated, "obligation_sites": keys,
		})
	}
	if len(samples) == 0 {
		samples = append(samples, map[string]any{"note": "no obligations were generated"})
	}
	var flist []string
	for f := range funcs {
		flist = append(flist, f)
	}
	sort.Strings(flist)
	var slist []string
	for s, n := range stubs {
		slist = append(slist, fmt.Sprintf("%s x%d", s, n))
	}
	sort.Strings(slist)
	if paths == 0 {
		paths = 0
	}
	cov := map[string]any{
		"states":                        max(paths, 1),
		"transitions":                   max(int(steps), 1),
		"traces_validated_against_impl": validated,
		"samples":                       samples,
		"obligations":                   obls,
		"discharged":                    dis,
		"trivially_true":                trivial,
		"inconclusive":                  unk,
		"violated":                      viol,
		"unconfirmed_models":            unconf,
		"known_findings_matched":        known,
		"paths_pruned":                  pruned,
		"queries":                       queries,
		"one_shot_obligations":          oneShot,
		"one_shot_discharged":           oneShotDis,
		"solver_time_s":                 round3(solverT.Seconds()),
		"load_time_s":                   round3(loadT.Seconds()),
		"solvers":                       []string{"z3 4.8.12 (incremental, path feasibility + first attempt)", "portfolio one-shot: z3 4.8.12, z3 5.1.0, cvc5 1.0 (cvc5 --solve-bv-as-int=sum for tag arith)"},
		"functions_encoded":             flist,
		"functions_encoded_count":       len(flist),
		"stubs_used":                    slist,
		"bounds":                        cfg.Bounds[tier],
		"outside_claim":                 cfg.OutsideClaim,
		"harnesses":                     perH,
		"inconclusive_details":          inconcl,
		"validation_runs_not_comparable": valSkipped,
		"notes":                         notes,
		"explanation":                   "states = symbolic paths completed; transitions = SSA instructions executed symbolically; each obligation is (path condition ∧ ¬assertion) decided by an SMT solver; traces_validated_against_impl = concrete runs where the engine's execution of the harness and the natively compiled harness agreed on every Observe value",
		"exhaustive":                    false,
	}
	ev := evidence{PropertyID: prop, Tier: tier, Seed: seed(), Level: level, Coverage: cov, Assumptions: append(append([]string{}, cfg.Assumptions...), cfg.Stubs...), WallS: round3(time.Since(t0).Seconds()), Violations: nviol}
	if ev.Assumptions == nil {
		ev.Assumptions = []string{}
	}
	b, _ := json.MarshalIndent(ev, "", " ")
	os.MkdirAll(filepath.Join(verifDir, "evidence"), 0o755)
	os.WriteFile(filepath.Join(verifDir, "evidence", prop+".json"), b, 0o644)
}

func round3(f float64) float64 { return float64(int64(f*1000+0.5)) / 1000 }
