// gosym runs harnesses through the symbolic engine and prints a summary (debug driver).
package main

import (
	"encoding/json"
	"flag"
	"fmt"
	"os"
	"regexp"
	"sort"
	"strings"
	"time"

	"verif/engine/sym"
)

func main() {
	repo := flag.String("repo", "/repo", "repository")
	hdir := flag.String("harness", "/verif/harness", "harness dir")
	pat := flag.String("run", ".", "harness name regexp")
	pkgs := flag.String("pkgs", "", "comma-separated package patterns (default: all harness packages)")
	solver := flag.String("solver", "z3", "incremental solver")
	capS := flag.Int("cap", 120, "wall-clock cap per harness (s)")
	thorough := flag.Bool("thorough", false, "thorough tier bounds")
	concrete := flag.String("concrete", "", "replay JSON: run in concrete mode with these inputs")
	flag.Parse()
	var patterns []string
	if *pkgs != "" {
		patterns = strings.Split(*pkgs, ",")
	}
	t0 := time.Now()
	ld, err := sym.Load(*repo, *hdir, patterns)
	if err != nil {
		fmt.Fprintln(os.Stderr, err)
		os.Exit(2)
	}
	fmt.Printf("loaded in %v: %d harnesses, %d intercepts\n", time.Since(t0), len(ld.Harnesses), len(ld.Intercepts))
	re := regexp.MustCompile(*pat)
	var names []string
	for n := range ld.Harnesses {
		if re.MatchString(n) {
			names = append(names, n)
		}
	}
	sort.Strings(names)
	for _, n := range names {
		var conc map[string][]uint64
		if *concrete != "" {
			var d struct {
				Inputs map[string][]uint64 `json:"inputs"`
			}
			b, _ := os.ReadFile(*concrete)
			json.Unmarshal(b, &d)
			conc = d.Inputs
		}
		e := sym.NewEngine(ld, sym.Config{Concrete: conc, Solver: *solver, Deadline: time.Now().Add(time.Duration(*capS) * time.Second), Thorough: *thorough})
		r := e.Explore(ld.Harnesses[n])
		fmt.Printf("== %s: paths=%d pruned=%d steps=%d queries=%d solver=%v wall=%v\n", n, r.Paths, r.PathsPruned, r.Steps, r.Queries, r.SolverTime.Round(time.Millisecond), r.Wall.Round(time.Millisecond))
		var keys []string
		for k := range r.Obls {
			keys = append(keys, k)
		}
		sort.Strings(keys)
		for _, k := range keys {
			o := r.Obls[k]
			fmt.Printf("   obl %-60s checked=%d discharged=%d violated=%d unknown=%d\n", k, o.Checked, o.Discharged, o.Violated, o.Unknown)
		}
		for k, v := range r.Reached {
			fmt.Printf("   reach %s x%d\n", k, v)
		}
		for _, v := range r.Violations {
			fmt.Printf("   VIOLATION %s %s @%s model=%v\n      stack=%v\n", v.Kind, v.Msg, v.Pos, v.Model, v.Stack)
		}
		for _, ic := range r.Inconclusives {
			fmt.Printf("   INCONCLUSIVE %s @%s\n", ic.Reason, ic.Pos)
		}
	}
}
