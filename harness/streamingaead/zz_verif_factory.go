package streamingaead

import (
	"bytes"
	"crypto/sha256"
	"io"

	"github.com/tink-crypto/tink-go/v2/internal/internalapi"
	"github.com/tink-crypto/tink-go/v2/internal/verifh"
	"github.com/tink-crypto/tink-go/v2/internal/verifrt"
	"github.com/tink-crypto/tink-go/v2/internal/verifspec"
	"github.com/tink-crypto/tink-go/v2/key"
	"github.com/tink-crypto/tink-go/v2/streamingaead/subtle"
	"github.com/tink-crypto/tink-go/v2/tink"
)

// Per-key primitives are the REAL AES-GCM-HKDF streaming primitives (over the ideal AES-GCM
// and uninterpreted HMAC of the engine): keys of 16 and 32 bytes have stream headers of 24
// and 40 bytes, which is what makes the order in which keys are tried observable.
type sConfig struct {
	main [][]byte
}

func segSize(keySize int) int { return 1 + keySize + 7 + 16 + 2 } // first plaintext segment: 2 bytes

func (c *sConfig) prim(i int) tink.StreamingAEAD {
	p, err := subtle.NewAESGCMHKDF(c.main[i], "SHA256", len(c.main[i]), segSize(len(c.main[i])), 0)
	verifrt.Assert(err == nil, "NewAESGCMHKDF")
	return p
}

func (c *sConfig) PrimitiveFromKey(k key.Key, _ internalapi.Token) (any, error) {
	return c.prim(k.(*verifh.FKey).Idx), nil
}

func encryptWith(p tink.StreamingAEAD, pt, aad []byte) []byte {
	var sink bytes.Buffer
	w, err := p.NewEncryptingWriter(&sink, aad)
	verifrt.Assert(err == nil, "NewEncryptingWriter succeeds")
	n, err := w.Write(pt)
	verifrt.Assert(err == nil && n == len(pt), "Write succeeds")
	verifrt.Assert(w.Close() == nil, "Close succeeds")
	return sink.Bytes()
}

// readAll reads r with buffers of the given size until an error; it returns what was read.
func readAll(r io.Reader, bufSize int) ([]byte, error) {
	var out []byte
	buf := make([]byte, bufSize)
	for i := 0; i < 12; i++ {
		n, err := r.Read(buf)
		out = append(out, buf[:n]...)
		if err != nil {
			return out, err
		}
	}
	return out, nil
}

// The keyset streaming AEAD encrypts with the primary only, and decrypts a stream iff it was
// produced by some ENABLED key of the keyset -- whatever the key order, the mix of header
// lengths, the plaintext length (incl. empty) and the read buffer size; then io.EOF.
func VerifH_factory_streaming() {
	max := 2
	if verifrt.Thorough() {
		max = 3
	}
	ks := verifh.SymbolicKeyset(max, []int{0, 3}, false)
	cfg := &sConfig{}
	names := [...]string{"main0", "main1", "main2"}
	for i := range ks.Keys {
		cfg.main = append(cfg.main, verifrt.Bytes(names[i], 16+16*verifrt.Choice(names[i]+".size", 2)))
	}
	p, err := NewWithConfig(ks.Handle, cfg)
	verifrt.Assert(err == nil, "NewWithConfig succeeds")
	aad := verifrt.Bytes("aad", 1)
	pt := verifrt.Bytes("pt", verifrt.Choice("len", 4))

	producer := verifrt.Choice("producer", len(ks.Keys))
	var ct []byte
	if producer == ks.Primary {
		// through the keyset primitive; the primary's own primitive must read it back
		ct = encryptWith(p, pt, aad)
		r, err := cfg.prim(ks.Primary).NewDecryptingReader(bytes.NewReader(ct), aad)
		verifrt.Assert(err == nil, "the primary key's primitive accepts the keyset primitive's header")
		got, err := readAll(r, 8)
		verifrt.Assert(err == io.EOF, "the primary key's primitive decrypts the keyset primitive's stream")
		verifrt.AssertEq(got, pt, "keyset primitive encrypts with the primary key")
	} else {
		ct = encryptWith(cfg.prim(producer), pt, aad)
	}
	// idealisation: HKDF under different main keys gives different session keys
	hl := 1 + len(cfg.main[producer]) + 7
	salt := ct[1 : 1+len(cfg.main[producer])]
	for i := range ks.Keys {
		if i != producer && len(cfg.main[i]) == len(cfg.main[producer]) {
			n := len(cfg.main[i])
			verifrt.Assume(!verifrt.EqBytes(verifspec.HKDF(sha256.New, cfg.main[i], salt, aad, n), verifspec.HKDF(sha256.New, cfg.main[producer], salt, aad, n)))
		}
	}
	verifrt.Assert(int(ct[0]) == hl, "header length byte")

	// the ciphertext source: bytes.Reader, a reader that returns its last bytes together with
	// io.EOF (as io.Reader allows), or one byte per call
	var src io.Reader = bytes.NewReader(ct)
	if mode := verifrt.Choice("src", 3); mode > 0 {
		src = &modeReader{data: ct, mode: mode}
	}
	// the caller may reuse its associated-data buffer as soon as NewDecryptingReader has
	// returned (C19): what the reader decrypts does not depend on later writes into it
	aadArg := append([]byte{}, aad...)
	r, err := p.NewDecryptingReader(src, aadArg)
	verifrt.Assert(err == nil, "NewDecryptingReader")
	if verifrt.Choice("aadreuse", 2) == 1 {
		for i := range aadArg {
			aadArg[i] ^= 0xA5
		}
	}
	got, err := readAll(r, [...]int{1, 2, 8}[verifrt.Choice("buf", 3)])
	if ks.Enabled(producer) {
		verifrt.Assert(err == io.EOF, "a stream produced by an ENABLED key decrypts and ends with io.EOF")
		verifrt.AssertEq(got, pt, "decrypted stream == plaintext")
	} else {
		verifrt.Assert(err != nil && err != io.EOF, "a stream produced by a key that is not ENABLED is rejected")
		verifrt.Assert(len(got) == 0, "no plaintext from a rejected stream")
	}
	verifrt.Reach("end")
}

// modeReader: mode 1 returns the final bytes together with io.EOF, mode 2 returns at most one
// byte per call (both legal io.Reader behaviours).
type modeReader struct {
	data []byte
	off  int
	mode int
}

func (s *modeReader) Read(p []byte) (int, error) {
	if s.off >= len(s.data) {
		return 0, io.EOF
	}
	n := len(p)
	if s.mode == 2 && n > 1 {
		n = 1
	}
	if n > len(s.data)-s.off {
		n = len(s.data) - s.off
	}
	copy(p, s.data[s.off:s.off+n])
	s.off += n
	if s.mode == 1 && s.off == len(s.data) {
		return n, io.EOF
	}
	return n, nil
}
