package streamingaead

import (
	"github.com/tink-crypto/tink-go/v2/internal/verifrt"
	ctrhmacpb "github.com/tink-crypto/tink-go/v2/proto/aes_ctr_hmac_streaming_go_proto"
	gcmhkdfpb "github.com/tink-crypto/tink-go/v2/proto/aes_gcm_hkdf_streaming_go_proto"
	commonpb "github.com/tink-crypto/tink-go/v2/proto/common_go_proto"
	tinkpb "github.com/tink-crypto/tink-go/v2/proto/tink_go_proto"
	"google.golang.org/protobuf/proto"
)

// C12, streamingaead/streamingaead_key_templates.go: what the name and doc comment of each
// streaming AEAD key template promise, written out by hand. Streaming AEAD ciphertexts carry
// no Tink prefix (the key managers / parameters accept RAW only), so every template is RAW.
//   - AESnnn...: main key size nnn/8 AND derived key size nnn/8
//   - ...4KB: ciphertext segment size 4096; ...1MB: 1048576 (= 1 << 20)
//   - HKDF hash: HMAC-SHA256 (doc comment)
//   - CTRHMACSHA256: tag algorithm SHA256, tag size 32 bytes (doc comment)
type ktRow struct {
	name     string
	fn       func() *tinkpb.KeyTemplate
	ctrhmac  bool
	keySize  uint32 // main key and derived key
	segment  uint32
	hkdfHash commonpb.HashType
	tagHash  commonpb.HashType
	tagSize  uint32
}

const (
	kt4KB = 4096
	kt1MB = 1 << 20
)

var ktTable = [8]ktRow{
	{"AES128GCMHKDF4KBKeyTemplate", AES128GCMHKDF4KBKeyTemplate, false, 16, kt4KB, commonpb.HashType_SHA256, 0, 0},
	{"AES128GCMHKDF1MBKeyTemplate", AES128GCMHKDF1MBKeyTemplate, false, 16, kt1MB, commonpb.HashType_SHA256, 0, 0},
	{"AES256GCMHKDF4KBKeyTemplate", AES256GCMHKDF4KBKeyTemplate, false, 32, kt4KB, commonpb.HashType_SHA256, 0, 0},
	{"AES256GCMHKDF1MBKeyTemplate", AES256GCMHKDF1MBKeyTemplate, false, 32, kt1MB, commonpb.HashType_SHA256, 0, 0},
	{"AES128CTRHMACSHA256Segment4KBKeyTemplate", AES128CTRHMACSHA256Segment4KBKeyTemplate, true, 16, kt4KB, commonpb.HashType_SHA256, commonpb.HashType_SHA256, 32},
	{"AES128CTRHMACSHA256Segment1MBKeyTemplate", AES128CTRHMACSHA256Segment1MBKeyTemplate, true, 16, kt1MB, commonpb.HashType_SHA256, commonpb.HashType_SHA256, 32},
	{"AES256CTRHMACSHA256Segment4KBKeyTemplate", AES256CTRHMACSHA256Segment4KBKeyTemplate, true, 32, kt4KB, commonpb.HashType_SHA256, commonpb.HashType_SHA256, 32},
	{"AES256CTRHMACSHA256Segment1MBKeyTemplate", AES256CTRHMACSHA256Segment1MBKeyTemplate, true, 32, kt1MB, commonpb.HashType_SHA256, commonpb.HashType_SHA256, 32},
}

func VerifH_templates_streamingaead() {
	row := ktTable[verifrt.Choice("tmpl", 8)]
	t := row.fn()
	verifrt.Assert(t != nil, "template")
	verifrt.Assert(t.GetOutputPrefixType() == tinkpb.OutputPrefixType_RAW, "streaming AEAD templates are RAW")
	if row.ctrhmac {
		verifrt.Assert(t.GetTypeUrl() == "type.googleapis.com/google.crypto.tink.AesCtrHmacStreamingKey", "type URL AesCtrHmacStreamingKey")
		f := &ctrhmacpb.AesCtrHmacStreamingKeyFormat{}
		verifrt.Assert(proto.Unmarshal(t.GetValue(), f) == nil, "key format parses")
		p := f.GetParams()
		verifrt.Assert(p != nil && p.GetHmacParams() != nil, "params and HMAC params present")
		verifrt.Assert(f.GetKeySize() == row.keySize, "AESnnn: main key size nnn/8")
		verifrt.Assert(p.GetDerivedKeySize() == row.keySize, "AESnnn: derived key size nnn/8")
		verifrt.Assert(p.GetCiphertextSegmentSize() == row.segment, "4KB / 1MB: ciphertext segment size")
		verifrt.Assert(p.GetHkdfHashType() == row.hkdfHash, "HKDF hash SHA256")
		verifrt.Assert(p.GetHmacParams().GetHash() == row.tagHash, "HMACSHA256: tag algorithm SHA256")
		verifrt.Assert(p.GetHmacParams().GetTagSize() == row.tagSize, "tag size 32")
		verifrt.Assert(f.GetVersion() == 0, "version 0")
	} else {
		verifrt.Assert(t.GetTypeUrl() == "type.googleapis.com/google.crypto.tink.AesGcmHkdfStreamingKey", "type URL AesGcmHkdfStreamingKey")
		f := &gcmhkdfpb.AesGcmHkdfStreamingKeyFormat{}
		verifrt.Assert(proto.Unmarshal(t.GetValue(), f) == nil, "key format parses")
		p := f.GetParams()
		verifrt.Assert(p != nil, "params present")
		verifrt.Assert(f.GetKeySize() == row.keySize, "AESnnn: main key size nnn/8")
		verifrt.Assert(p.GetDerivedKeySize() == row.keySize, "AESnnn: derived key size nnn/8")
		verifrt.Assert(p.GetCiphertextSegmentSize() == row.segment, "4KB / 1MB: ciphertext segment size")
		verifrt.Assert(p.GetHkdfHashType() == row.hkdfHash, "HKDF hash SHA256")
		verifrt.Assert(f.GetVersion() == 0, "version 0")
	}
	verifrt.Reach("end")
}
