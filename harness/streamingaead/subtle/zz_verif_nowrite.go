package subtle

import (
	"github.com/tink-crypto/tink-go/v2/internal/verifh"
	"github.com/tink-crypto/tink-go/v2/internal/verifrt"
)

// C19 for AES-GCM-HKDF streaming (segment size 41+offset: first plaintext segment 1 byte,
// later ones 25): see verifh.CheckStreamNoWrite for what is decided about aad, Write(p) and
// Read(p). In addition the ciphertext equals the reference stream computed from the
// ORIGINAL associated data and plaintext, although the caller overwrote its aad slice right
// after NewEncryptingWriter returned and every plaintext slice right after Write returned;
// the constructor copies the caller's main key.
func VerifH_c19_gcmhkdf() {
	spare := verifh.SpareProfile("key.spare")
	mainKey := verifh.BufWith("mainkey", 16, spare, "caller main-key buffer")
	key0 := append([]byte{}, mainKey...)
	offset := verifrt.Choice("offset", 2)
	segSize := 41 + offset
	a, err := NewAESGCMHKDF(mainKey, "SHA256", 16, segSize, offset)
	verifrt.Assert(err == nil, "NewAESGCMHKDF")
	verifh.CheckCtorClones("NewAESGCMHKDF(mainKey)", mainKey, func() []byte { return a.mainKey }, a.mainKey)
	first := segSize - 16 - offset - 24
	lens := []int{0, first, first + 1}
	if verifrt.Thorough() {
		lens = []int{0, first, first + 1, first + 25, first + 26}
	}
	ct, aad0, pt0 := verifh.CheckStreamNoWrite(a, lens)
	if len(ct) < 24 {
		return
	}
	// salt and nonce prefix are read back from the header the primitive wrote
	salt, prefix := ct[1:17], ct[17:24]
	verifrt.AssertEq(ct, specStream(key0, salt, prefix, aad0, pt0, segSize, offset), "stream == reference stream for the original key, associated data and plaintext")
	verifrt.Reach("end")
}
