package subtle

import (
	"bytes"
	"crypto/aes"
	"crypto/cipher"
	"crypto/sha256"
	"errors"
	"io"

	"github.com/tink-crypto/tink-go/v2/internal/verifrt"
	"github.com/tink-crypto/tink-go/v2/internal/verifspec"
)

type failWriter struct {
	buf    bytes.Buffer
	calls  int
	failAt int
}

func (w *failWriter) Write(p []byte) (int, error) {
	w.calls++
	if w.calls == w.failAt {
		return 0, errors.New("injected write error")
	}
	return w.buf.Write(p)
}

// specStream: header = len || salt || nonce prefix; session key = HKDF(hash, mainKey, salt,
// aad); segments AES-GCM(session key) with nonce = prefix || be32(i) || last; the first
// segment is shortened by header length + first-segment offset.
func specStream(mainKey, salt, prefix, aad, pt []byte, segSize, offset int) []byte {
	hlen := 1 + len(salt) + 7
	out := append(append([]byte{byte(hlen)}, salt...), prefix...)
	dkey := verifspec.HKDF(sha256.New, mainKey, salt, aad, len(salt))
	b, _ := aes.NewCipher(dkey)
	g, _ := cipher.NewGCM(b)
	ptSeg := segSize - 16
	for i := 0; ; i++ {
		lim := ptSeg
		if i == 0 {
			lim -= offset + hlen
		}
		last := len(pt) <= lim
		n := lim
		if last {
			n = len(pt)
		}
		nonce := make([]byte, 12)
		copy(nonce, prefix)
		nonce[7], nonce[8], nonce[9], nonce[10] = byte(i>>24), byte(i>>16), byte(i>>8), byte(i)
		if last {
			nonce[11] = 1
		}
		out = append(out, g.Seal(nil, nonce, pt[:n], nil)...)
		pt = pt[n:]
		if last {
			return out
		}
	}
}

func VerifH_gcmhkdf_stream() {
	mainKey := verifrt.Bytes("mainkey", 16)
	offset := verifrt.Choice("offset", 2)
	segSize := 41 + offset + verifrt.Choice("segextra", 2)
	a, err := NewAESGCMHKDF(mainKey, "SHA256", 16, segSize, offset)
	verifrt.Assert(err == nil, "NewAESGCMHKDF accepts segment sizes above header+offset+tag")
	aad := verifrt.Bytes("aad", verifrt.Choice("aadn", 2))
	first := segSize - 16 - offset - 24
	l := [...]int{0, 1, first, first + 1, first + (segSize - 16), first + (segSize - 16) + 1}[verifrt.Choice("len", 6)]
	pt := verifrt.Bytes("pt", l)
	var sink bytes.Buffer
	d0 := verifrt.Draws()
	w, err := a.NewEncryptingWriter(&sink, aad)
	verifrt.Assert(err == nil, "NewEncryptingWriter succeeds")
	verifrt.Assert(verifrt.Draws() == d0+2, "exactly two draws per stream: salt and nonce prefix")
	salt, prefix := verifrt.DrawBytes(d0), verifrt.DrawBytes(d0+1)
	verifrt.Assert(len(salt) == 16 && len(prefix) == 7, "salt has the key size, the nonce prefix 7 bytes")
	c1 := verifrt.Choice("c1", l+1)
	n1, e1 := w.Write(pt[:c1])
	n2, e2 := w.Write(pt[c1:])
	verifrt.Assert(e1 == nil && e2 == nil && n1 == c1 && n2 == l-c1, "writes succeed")
	verifrt.Assert(w.Close() == nil, "Close succeeds")
	ct := sink.Bytes()
	verifrt.AssertEq(ct, specStream(mainKey, salt, prefix, aad, pt, segSize, offset), "stream == header(len || salt || prefix) || GCM segments under HKDF(mainKey, salt, aad)")

	r, err := a.NewDecryptingReader(bytes.NewReader(ct), aad)
	verifrt.Assert(err == nil, "NewDecryptingReader accepts the header")
	got, err := io.ReadAll(r)
	verifrt.Assert(err == nil, "reading succeeds up to io.EOF")
	verifrt.AssertEq(got, pt, "decrypted stream == plaintext")
	verifrt.Reach("end")
}

// Other associated data, a wrong header length byte, a truncated header: an error, never data.
func VerifH_gcmhkdf_reject() {
	mainKey := verifrt.Bytes("mainkey", 16)
	a, _ := NewAESGCMHKDF(mainKey, "SHA256", 16, 41, 0)
	aad := verifrt.Bytes("aad", 1)
	pt := verifrt.Bytes("pt", verifrt.Choice("len", 3))
	var sink bytes.Buffer
	w, _ := a.NewEncryptingWriter(&sink, aad)
	w.Write(pt)
	w.Close()
	ct := sink.Bytes()
	switch verifrt.Choice("attack", 4) {
	case 0: // different associated data
		aad2 := verifrt.Bytes("aad2", 1)
		verifrt.Assume(aad2[0] != aad[0])
		// idealisation (HKDF as a collision-free function of its info input): other associated
		// data gives another session key. What is decided is that the reader derives its key
		// from the associated data it was given, and then rejects.
		salt := ct[1:17]
		verifrt.Assume(!verifrt.EqBytes(verifspec.HKDF(sha256.New, mainKey, salt, aad, 16), verifspec.HKDF(sha256.New, mainKey, salt, aad2, 16)))
		r, err := a.NewDecryptingReader(bytes.NewReader(ct), aad2)
		verifrt.Assert(err == nil, "header is accepted (it is not authenticated by itself)")
		got, err := io.ReadAll(r)
		verifrt.Assert(err != nil && len(got) == 0, "other associated data => error, no plaintext")
	case 1: // header length byte altered
		bad := append([]byte{}, ct...)
		bad[0] ^= verifrt.Byte("d")
		verifrt.Assume(bad[0] != ct[0])
		_, err := a.NewDecryptingReader(bytes.NewReader(bad), aad)
		verifrt.Assert(err != nil, "wrong header length byte rejected")
	case 2: // truncated inside the header
		cut := verifrt.Choice("cut", 24)
		_, err := a.NewDecryptingReader(bytes.NewReader(ct[:cut]), aad)
		verifrt.Assert(err != nil, "truncated header rejected")
	default: // header write fails
		fw := &failWriter{failAt: 1}
		_, err := a.NewEncryptingWriter(fw, aad)
		verifrt.Assert(err != nil, "a failing header write fails the constructor")
	}
	verifrt.Reach("end")
}

// Segment-size arithmetic for all int arguments: accepted => positive first plaintext segment.
func VerifH_gcmhkdf_params() {
	seg := verifrt.IntRange("seg", -5, 200)
	off := verifrt.IntRange("off", 0, 100)
	ks := [...]int{16, 32, 24, 8}[verifrt.Choice("ks", 4)]
	a, err := NewAESGCMHKDF(make([]byte, 32), "SHA256", ks, seg, off)
	if err == nil {
		verifrt.Assert(ks == 16 || ks == 32, "only AES-128/256 session keys")
		verifrt.Assert(a.plaintextSegmentSize-a.firstCiphertextSegmentOffset > 0 && a.plaintextSegmentSize == seg-16, "first plaintext segment is non-empty")
	}
	verifrt.Reach("end")
}
