package subtle

import (
	"github.com/tink-crypto/tink-go/v2/internal/verifh"
	"github.com/tink-crypto/tink-go/v2/internal/verifrt"
)

// C18 (sufficient condition): one AES-GCM-HKDF primitive, frozen after construction, serves
// two encrypting and two decrypting sessions that are open at the same time (different
// associated data, different plaintexts, interleaved calls). Only the primitive is frozen:
// writers and readers are per-session objects.
func VerifH_c18_gcmhkdf() {
	verifrt.EngineOnly()
	a, err := NewAESGCMHKDF(verifrt.Bytes("mainkey", 16), "SHA256", 16, 41, 0)
	verifrt.Assert(err == nil, "NewAESGCMHKDF")
	lens := []int{0, 1, 2}
	if verifrt.Thorough() {
		lens = []int{0, 1, 2, 26, 27}
	}
	verifh.CheckStreamShared(a, lens)
}
