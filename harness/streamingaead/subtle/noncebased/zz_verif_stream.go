package noncebased

import (
	"crypto/aes"
	"crypto/cipher"
	"errors"
	"io"

	"github.com/tink-crypto/tink-go/v2/internal/verifmodels"
	"github.com/tink-crypto/tink-go/v2/internal/verifrt"
)

const (
	segPT  = 3        // plaintext segment size
	segCT  = segPT + 16 // ciphertext segment size (GCM tag)
	nonceN = 12
)

// gcmSeg is the segment cipher: AES-GCM with the segment nonce (ideal AEAD under the engine,
// the real one natively).
type gcmSeg struct{ a cipher.AEAD }

func newSeg(key []byte) *gcmSeg {
	b, _ := aes.NewCipher(key)
	a, _ := cipher.NewGCM(b)
	return &gcmSeg{a}
}
func (g *gcmSeg) EncryptSegment(seg, nonce []byte) ([]byte, error) {
	return g.a.Seal(nil, nonce, seg, nil), nil
}
func (g *gcmSeg) DecryptSegment(seg, nonce []byte) ([]byte, error) {
	return g.a.Open(nil, nonce, seg, nil)
}

// sink collects written bytes; fails on the failAt-th Write call (0 = never).
type sink struct {
	buf    []byte
	calls  int
	failAt int
}

var errIO = errors.New("injected I/O error")

func (s *sink) Write(p []byte) (int, error) {
	s.calls++
	if s.calls == s.failAt {
		return 0, errIO
	}
	s.buf = append(s.buf, p...)
	return len(p), nil
}

// source serves data with short reads (at most `step` bytes per call); fails on the failAt-th call.
type source struct {
	data   []byte
	pos    int
	step   int
	calls  int
	failAt int
}

func (s *source) Read(p []byte) (int, error) {
	s.calls++
	if s.calls == s.failAt {
		return 0, errIO
	}
	if s.pos >= len(s.data) {
		return 0, io.EOF
	}
	n := len(p)
	if n > s.step {
		n = s.step
	}
	if n > len(s.data)-s.pos {
		n = len(s.data) - s.pos
	}
	copy(p, s.data[s.pos:s.pos+n])
	s.pos += n
	return n, nil
}

// specSegments: the documented format. Segment i (0-based) holds the next bytes of the
// plaintext: segPT-off for the first, segPT for the others; the final segment is the one
// that exhausts the plaintext (it may be full-sized, and it is empty only for the empty
// plaintext); nonce = prefix || be32(i) || last-flag.
func specCiphertext(g *gcmSeg, prefix, pt []byte, off int) []byte {
	var out []byte
	i := 0
	for {
		lim := segPT
		if i == 0 {
			lim -= off
		}
		last := len(pt) <= lim
		n := lim
		if last {
			n = len(pt)
		}
		nonce := make([]byte, nonceN)
		copy(nonce, prefix)
		nonce[len(prefix)], nonce[len(prefix)+1], nonce[len(prefix)+2], nonce[len(prefix)+3] = byte(i>>24), byte(i>>16), byte(i>>8), byte(i)
		if last {
			nonce[len(prefix)+4] = 1
		}
		out = append(out, g.a.Seal(nil, nonce, pt[:n], nil)...)
		pt = pt[n:]
		if last {
			return out
		}
		i++
	}
}

func setup() (*gcmSeg, []byte, int) {
	g := newSeg(verifrt.Bytes("key", 16))
	prefix := verifrt.Bytes("prefix", 7)
	off := verifrt.Choice("off", 3)
	return g, prefix, off
}

func streamMax() int {
	if verifrt.Thorough() {
		return 3*segPT + 1
	}
	return 2*segPT + 1
}

// encrypt with up to 3 Write calls of the given sizes
func encrypt(g *gcmSeg, prefix []byte, off int, pt []byte, c1, c2 int, failAt int) ([]byte, error) {
	sk := &sink{failAt: failAt}
	w, err := NewWriter(WriterParams{W: sk, SegmentEncrypter: g, NonceSize: nonceN, NoncePrefix: prefix, PlaintextSegmentSize: segPT, FirstCiphertextSegmentOffset: off})
	if err != nil {
		return nil, err
	}
	parts := [][]byte{pt[:c1], pt[c1:c2], pt[c2:]}
	for _, p := range parts {
		n, err := w.Write(p)
		if err != nil {
			return sk.buf, err
		}
		verifrt.Assert(n == len(p), "Write consumes all of p")
	}
	if err := w.Close(); err != nil {
		return sk.buf, err
	}
	verifrt.Assert(w.Close() == nil, "Close is idempotent")
	_, err = w.Write([]byte{1})
	verifrt.Assert(err != nil, "Write after Close fails")
	return sk.buf, nil
}

// readAll reads until an error (io.EOF included) with buffers of size bufN; at most 12 calls.
func readAll(r *Reader, bufN int) ([]byte, error) {
	var out []byte
	for i := 0; i < 14; i++ {
		b := make([]byte, bufN)
		n, err := r.Read(b)
		out = append(out, b[:n]...)
		if err != nil {
			return out, err
		}
	}
	return out, errors.New("no end of stream")
}

func newReader(g *gcmSeg, prefix []byte, off int, src io.Reader) *Reader {
	r, _ := NewReader(ReaderParams{R: src, SegmentDecrypter: g, NonceSize: nonceN, NoncePrefix: prefix, CiphertextSegmentSize: segCT, FirstCiphertextSegmentOffset: off})
	return r
}

// Any partition of the writes gives the documented ciphertext; any partition of the reads
// over any short-read behaviour of the source gives the plaintext and then io.EOF.
func VerifH_stream_roundtrip() {
	g, prefix, off := setup()
	l := verifrt.Choice("len", streamMax()+1)
	pt := verifrt.Bytes("pt", l)
	c1 := verifrt.Choice("c1", l+1)
	c2 := c1 + verifrt.Choice("c2", l-c1+1)
	ct, err := encrypt(g, prefix, off, pt, c1, c2, 0)
	verifrt.Assert(err == nil, "encrypting succeeds")
	verifrt.AssertEq(ct, specCiphertext(g, prefix, pt, off), "ciphertext == documented segment format, independent of the write partition")
	step := [...]int{1, 2, segCT, segCT + 1, 1000}[verifrt.Choice("step", 5)]
	bufN := [...]int{1, 2, segPT, segPT + 1, 64}[verifrt.Choice("buf", 5)]
	got, err := readAll(newReader(g, prefix, off, &source{data: ct, step: step}), bufN)
	verifrt.Assert(err == io.EOF, "reading ends with io.EOF")
	verifrt.AssertEq(got, pt, "decrypted stream == plaintext, independent of read sizes and short reads")
	verifrt.Reach("end")
}

// Any manipulation of the ciphertext is reported as an error instead of a clean end of
// stream, and whatever was returned before the error is a prefix of the plaintext.
func VerifH_stream_tamper() {
	g, prefix, off := setup()
	l := verifrt.Choice("len", streamMax()+1)
	pt := verifrt.Bytes("pt", l)
	ct, err := encrypt(g, prefix, off, pt, l, l, 0)
	verifrt.Assert(err == nil, "encrypting succeeds")
	verifmodels.AdversaryPhase()
	// segment boundaries of this ciphertext
	var bounds []int
	pos := 0
	for i := 0; pos < len(ct) || i == 0; i++ {
		n := segCT
		if i == 0 {
			n -= off
		}
		if pos+n > len(ct) {
			n = len(ct) - pos
		}
		bounds = append(bounds, pos)
		pos += n
		if n == 0 {
			break
		}
	}
	bounds = append(bounds, len(ct))
	nseg := len(bounds) - 1
	seg := func(i int) []byte { return ct[bounds[i]:bounds[i+1]] }
	var bad []byte
	switch verifrt.Choice("attack", 6) {
	case 0: // truncate anywhere
		bad = append([]byte{}, ct[:verifrt.Choice("cut", len(ct))]...)
	case 1: // append 1..2 bytes
		bad = append(append([]byte{}, ct...), verifrt.Bytes("ext", 1+verifrt.Choice("extn", 2))...)
	case 2: // alter: same length, xor a non-zero delta
		delta := verifrt.Bytes("delta", len(ct))
		verifrt.Assume(!verifrt.EqBytes(delta, make([]byte, len(ct))))
		bad = make([]byte, len(ct))
		for i := range ct {
			bad[i] = ct[i] ^ delta[i]
		}
	case 3: // drop a segment
		d := verifrt.Choice("drop", nseg)
		for i := 0; i < nseg; i++ {
			if i != d {
				bad = append(bad, seg(i)...)
			}
		}
	case 4: // duplicate a segment
		d := verifrt.Choice("dup", nseg)
		for i := 0; i < nseg; i++ {
			bad = append(bad, seg(i)...)
			if i == d {
				bad = append(bad, seg(i)...)
			}
		}
	default: // swap two adjacent segments
		verifrt.Assume(nseg >= 2)
		d := verifrt.Choice("swap", nseg-1)
		for i := 0; i < nseg; i++ {
			switch i {
			case d:
				bad = append(bad, seg(d+1)...)
			case d + 1:
				bad = append(bad, seg(d)...)
			default:
				bad = append(bad, seg(i)...)
			}
		}
	}
	// a manipulation changes the byte string (dropping an empty segment, or swapping equal
	// segments, is not one)
	verifrt.Assume(!verifrt.EqBytes(bad, ct))
	got, err := readAll(newReader(g, prefix, off, &source{data: bad, step: 1000}), 64)
	verifrt.Assert(err != io.EOF, "a manipulated ciphertext never ends with a clean io.EOF")
	verifrt.Assert(len(got) <= len(pt) && verifrt.EqBytes(got, pt[:min(len(got), len(pt))]), "bytes returned before the error are a prefix of the plaintext")
	verifrt.Reach("end")
}

// A persistent I/O error of the underlying writer or reader surfaces as an error.
func VerifH_stream_ioerror() {
	g, prefix, off := setup()
	l := verifrt.Choice("len", streamMax()+1)
	pt := verifrt.Bytes("pt", l)
	if verifrt.Choice("side", 2) == 0 {
		failAt := 1 + verifrt.Choice("failAt", 4)
		c1 := verifrt.Choice("c1", l+1)
		sk := &sink{failAt: failAt}
		w, _ := NewWriter(WriterParams{W: sk, SegmentEncrypter: g, NonceSize: nonceN, NoncePrefix: prefix, PlaintextSegmentSize: segPT, FirstCiphertextSegmentOffset: off})
		_, e1 := w.Write(pt[:c1])
		_, e2 := w.Write(pt[c1:])
		e3 := w.Close()
		verifrt.Assert((sk.calls >= failAt) == (e1 != nil || e2 != nil || e3 != nil), "a failing sink write surfaces from Write or Close (and only then)")
	} else {
		ct, _ := encrypt(g, prefix, off, pt, l, l, 0)
		failAt := 1 + verifrt.Choice("failAt", 4)
		src := &source{data: ct, step: [...]int{2, 1000}[verifrt.Choice("step", 2)], failAt: failAt}
		_, err := readAll(newReader(g, prefix, off, src), 64)
		verifrt.Assert((src.calls >= failAt) == (err != io.EOF), "a failing source read surfaces as an error instead of io.EOF (and only then)")
	}
	verifrt.Reach("end")
}

// Segment nonce and the 2^32-1 segment limit.
func VerifH_stream_nonce() {
	prefix := verifrt.Bytes("prefix", verifrt.Choice("pl", 8))
	cnt := verifrt.Uint64("cnt")
	last := verifrt.Bool("last")
	n, err := generateSegmentNonce(nonceN, prefix, cnt, last)
	verifrt.Assert((err == nil) == (cnt < 0xffffffff), "at most 2^32-1 segments")
	if err == nil {
		want := make([]byte, nonceN)
		copy(want, prefix)
		o := len(prefix)
		want[o], want[o+1], want[o+2], want[o+3] = byte(cnt>>24), byte(cnt>>16), byte(cnt>>8), byte(cnt)
		if last {
			want[o+4] = 1
		}
		verifrt.AssertEq(n, want, "nonce == prefix || be32(counter) || last flag, zero padded")
	}
	_, e1 := NewWriter(WriterParams{NonceSize: nonceN, NoncePrefix: verifrt.Bytes("p2", 8)})
	_, e2 := NewReader(ReaderParams{NonceSize: nonceN, NoncePrefix: verifrt.Bytes("p2", 8)})
	verifrt.Assert(e1 != nil && e2 != nil, "nonce must leave 5 bytes for counter and flag")
	verifrt.Reach("end")
}
