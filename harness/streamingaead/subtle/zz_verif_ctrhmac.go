package subtle

import (
	"bytes"
	"crypto/hmac"
	"crypto/sha1"
	"crypto/sha256"
	"crypto/sha512"
	"errors"
	"hash"
	"io"

	"github.com/tink-crypto/tink-go/v2/internal/verifmodels"
	"github.com/tink-crypto/tink-go/v2/internal/verifrt"
	"github.com/tink-crypto/tink-go/v2/internal/verifspec"
)

// ---------------------------------------------------------------------------------------
// AES-CTR-HMAC streaming AEAD (aes_ctr_hmac.go over noncebased).
//
// Reference, written from https://developers.google.com/tink/streaming-aead/aes_ctr_hmac_streaming:
//
//	stream    = header || segment_0 || segment_1 || ...
//	header    = len(header) (1 byte) || salt (key size bytes) || nonce prefix (7 bytes)
//	km        = HKDF(hkdf hash, ikm = main key, salt = salt, info = associated data, key size + 32)
//	AES key   = km[:key size],  HMAC key = km[key size:]   (always 32 bytes)
//	IV_i      = nonce prefix || be32(i) || (1 if segment i is the last one else 0) || 00 00 00 00
//	segment_i = c_i || tag_i,  c_i = AES-CTR(AES key, IV_i, p_i),
//	            tag_i = HMAC(tag hash, HMAC key, IV_i || c_i) truncated to the tag size
//	|p_0| = segment size - tag size - header length - first-segment offset, |p_i| = segment size -
//	tag size; the last segment is the one that exhausts the plaintext (it may be full, and it is
//	empty only for the empty plaintext).
// ---------------------------------------------------------------------------------------

// chHash maps Tink's hash names to constructors independently of subtle.GetHashFunc.
func chHash(name string) func() hash.Hash {
	switch name {
	case "SHA1":
		return sha1.New
	case "SHA256":
		return sha256.New
	case "SHA512":
		return sha512.New
	}
	panic("harness: hash not used")
}

// chIV is the 16-byte CTR IV / MAC prefix of segment i.
func chIV(prefix []byte, i int, last bool) []byte {
	iv := make([]byte, 16)
	copy(iv, prefix)
	iv[7], iv[8], iv[9], iv[10] = byte(i>>24), byte(i>>16), byte(i>>8), byte(i)
	if last {
		iv[11] = 1
	}
	return iv
}

// chKeys: the two per-stream keys.
func chKeys(hkdfAlg string, mainKey, salt, aad []byte, keySize int) (aesKey, hmacKey []byte) {
	km := verifspec.HKDF(chHash(hkdfAlg), mainKey, salt, aad, keySize+32)
	return km[:keySize], km[keySize:]
}

func specCtrHmacStream(hkdfAlg, tagAlg string, mainKey, salt, prefix, aad, pt []byte, keySize, tagSize, segSize, offset int) []byte {
	hlen := 1 + keySize + 7
	out := append(append([]byte{byte(hlen)}, salt...), prefix...)
	aesKey, hmacKey := chKeys(hkdfAlg, mainKey, salt, aad, keySize)
	ptSeg := segSize - tagSize
	for i := 0; ; i++ {
		lim := ptSeg
		if i == 0 {
			lim -= offset + hlen
		}
		last := len(pt) <= lim
		n := lim
		if last {
			n = len(pt)
		}
		iv := chIV(prefix, i, last)
		c := verifspec.CTRXor(aesKey, iv, pt[:n])
		m := hmac.New(chHash(tagAlg), hmacKey)
		m.Write(iv)
		m.Write(c)
		out = append(out, c...)
		out = append(out, m.Sum(nil)[:tagSize]...)
		pt = pt[n:]
		if last {
			return out
		}
	}
}

type chCfg struct {
	ks      int
	hkdfAlg string
	tagAlg  string
	tag     int
}

// chConfigs: key size 16/32; tag sizes 10, 16 and the digest size for SHA-256; SHA-1 and
// SHA-512 (as HKDF hash and as tag hash) at their digest size. The thorough tier takes the
// full product key size x (hash, tag size) and adds mixed HKDF/tag hashes.
func chConfigs() []chCfg {
	quick := []chCfg{
		{16, "SHA256", "SHA256", 10},
		{16, "SHA256", "SHA256", 16},
		{16, "SHA256", "SHA256", 32},
		{32, "SHA256", "SHA256", 16},
		{16, "SHA1", "SHA1", 20},
		{32, "SHA512", "SHA512", 64},
	}
	if !verifrt.Thorough() {
		return quick
	}
	return append(quick,
		chCfg{32, "SHA256", "SHA256", 10},
		chCfg{32, "SHA256", "SHA256", 32},
		chCfg{32, "SHA1", "SHA1", 20},
		chCfg{16, "SHA512", "SHA512", 64},
		chCfg{16, "SHA1", "SHA256", 32},
		chCfg{32, "SHA256", "SHA512", 33},
		chCfg{16, "SHA512", "SHA1", 10},
	)
}

// chPRK is HKDF-Extract (SHA-256).
func chPRK(mainKey, salt []byte) []byte {
	m := hmac.New(sha256.New, salt)
	m.Write(mainKey)
	return m.Sum(nil)
}

// chAssumeOtherKey states that k, as an HMAC-SHA-256 key (zero padded to the block size, RFC
// 2104), differs from each of the others.
func chAssumeOtherKey(k []byte, others [][]byte) {
	pad := func(k []byte) []byte { return append(append([]byte{}, k...), make([]byte, 64-len(k))...) }
	for _, o := range others {
		verifrt.Assume(!verifrt.EqBytes(pad(k), pad(o)))
	}
}

// chSource serves data with short reads (at most step bytes per call) and fails
// persistently from the failAt-th call on (0 = never).
type chSource struct {
	data   []byte
	pos    int
	step   int
	calls  int
	failAt int
}

var errChIO = errors.New("injected read error")

func (s *chSource) Read(p []byte) (int, error) {
	s.calls++
	if s.failAt != 0 && s.calls >= s.failAt {
		return 0, errChIO
	}
	if s.pos >= len(s.data) {
		return 0, io.EOF
	}
	n := min(len(p), s.step, len(s.data)-s.pos)
	copy(p, s.data[s.pos:s.pos+n])
	s.pos += n
	return n, nil
}

// chReadAll reads with buffers of bufN bytes until an error (io.EOF included).
func chReadAll(r io.Reader, bufN, maxCalls int) ([]byte, error) {
	var out []byte
	for i := 0; i < maxCalls; i++ {
		b := make([]byte, bufN)
		n, err := r.Read(b)
		out = append(out, b[:n]...)
		if err != nil {
			return out, err
		}
	}
	return out, errors.New("no end of stream")
}

// Stream == documented format for every partition into two writes; exactly two random draws;
// reading back (any of several read-buffer sizes, over a source with short reads) gives the
// plaintext and then io.EOF.
func VerifH_ctrhmac_stream() {
	cfgs := chConfigs()
	cfg := cfgs[verifrt.Choice("cfg", len(cfgs))]
	mainKey := verifrt.Bytes("mainkey", cfg.ks+verifrt.Choice("mkextra", 2))
	offset := verifrt.Choice("offset", 2)
	hlen := 1 + cfg.ks + 7
	segSize := hlen + offset + cfg.tag + 1 + verifrt.Choice("segextra", 2)
	a, err := NewAESCTRHMAC(mainKey, cfg.hkdfAlg, cfg.ks, cfg.tagAlg, cfg.tag, segSize, offset)
	verifrt.Assert(err == nil, "NewAESCTRHMAC accepts segment sizes above header+offset+tag")
	verifrt.Assert(a.HeaderLength() == hlen, "header length == 1 + key size + 7")
	aad := verifrt.Bytes("aad", verifrt.Choice("aadn", 2))
	seg := segSize - cfg.tag
	first := seg - offset - hlen
	l := [...]int{0, 1, first, first + 1, first + seg, first + seg + 1}[verifrt.Choice("len", 6)]
	pt := verifrt.Bytes("pt", l)
	var sink bytes.Buffer
	d0 := verifrt.Draws()
	w, err := a.NewEncryptingWriter(&sink, aad)
	verifrt.Assert(err == nil, "NewEncryptingWriter succeeds")
	verifrt.Assert(verifrt.Draws() == d0+2, "exactly two draws per stream: salt and nonce prefix")
	salt, prefix := verifrt.DrawBytes(d0), verifrt.DrawBytes(d0+1)
	verifrt.Assert(len(salt) == cfg.ks && len(prefix) == 7, "salt has the key size, the nonce prefix 7 bytes")
	// the split point of the two writes: every one for the AES-128/SHA-256 configurations
	// (thorough: all configurations), the ones around the segment boundaries otherwise
	var c1 int
	if verifrt.Thorough() || cfg.tagAlg == "SHA256" && cfg.ks == 16 {
		c1 = verifrt.Choice("c1", l+1)
	} else {
		c1 = min(l, [...]int{0, 1, first, first + 1, first + seg, l}[verifrt.Choice("c1", 6)])
	}
	n1, e1 := w.Write(pt[:c1])
	n2, e2 := w.Write(pt[c1:])
	verifrt.Assert(e1 == nil && e2 == nil && n1 == c1 && n2 == l-c1, "writes succeed")
	verifrt.Assert(w.Close() == nil, "Close succeeds")
	ct := sink.Bytes()
	verifrt.Assert(len(ct) >= hlen && ct[0] == byte(hlen), "stream starts with the header length byte")
	verifrt.AssertEq(ct[1:1+cfg.ks], salt, "the salt draw is placed verbatim after the length byte")
	verifrt.AssertEq(ct[1+cfg.ks:hlen], prefix, "the nonce prefix draw is placed verbatim after the salt")
	verifrt.AssertEq(ct, specCtrHmacStream(cfg.hkdfAlg, cfg.tagAlg, mainKey, salt, prefix, aad, pt, cfg.ks, cfg.tag, segSize, offset),
		"stream == header(len || salt || prefix) || segments AES-CTR(IV) || HMAC(IV || c)[:tag] under HKDF(mainKey, salt, aad)")

	// read side: the read-buffer size (1, 2, segment, segment+1, 512) and the source's
	// short-read behaviour (at most 1, 3, segment, segment+1 bytes per call, or unlimited) are
	// taken from the write split instead of a further case split
	rb := [...]int{1, 2, seg, seg + 1, 512}[c1%5]
	step := [...]int{1, 1000, 3, segSize, segSize + 1}[(c1+offset)%5]
	r, err := a.NewDecryptingReader(&chSource{data: ct, step: step}, aad)
	verifrt.Assert(err == nil, "NewDecryptingReader accepts the header")
	got, err := chReadAll(r, rb, l+8)
	verifrt.Assert(err == io.EOF, "reading ends with io.EOF")
	verifrt.AssertEq(got, pt, "decrypted stream == plaintext")
	// and through the standard library's readers
	r2, err := a.NewDecryptingReader(bytes.NewReader(ct), aad)
	verifrt.Assert(err == nil, "NewDecryptingReader accepts the header (bytes.Reader)")
	got2, err := io.ReadAll(r2)
	verifrt.Assert(err == nil, "io.ReadAll succeeds up to io.EOF")
	verifrt.AssertEq(got2, pt, "decrypted stream == plaintext (io.ReadAll)")
	verifrt.Reach("end")
}

// Manipulated input: an error instead of a clean end of stream, and only a plaintext prefix
// before it. Persistent I/O errors surface.
func VerifH_ctrhmac_reject() {
	ks := 16
	tags, offs := 2, 1
	if verifrt.Thorough() {
		tags, offs = 3, 2
	}
	tag := [...]int{16, 10, 32}[verifrt.Choice("tag", tags)]
	offset := verifrt.Choice("offset", offs)
	hlen := 1 + ks + 7
	segSize := hlen + offset + tag + 2 // first plaintext segment: 2 bytes, the others segSize-tag
	mainKey := verifrt.Bytes("mainkey", 16)
	a, err := NewAESCTRHMAC(mainKey, "SHA256", ks, "SHA256", tag, segSize, offset)
	verifrt.Assert(err == nil, "NewAESCTRHMAC succeeds")
	aad := verifrt.Bytes("aad", 1)
	l := verifrt.Choice("len", 4) // 0..3 bytes: one segment (empty, short, full) or two
	pt := verifrt.Bytes("pt", l)
	var sink bytes.Buffer
	w, err := a.NewEncryptingWriter(&sink, aad)
	verifrt.Assert(err == nil, "NewEncryptingWriter succeeds")
	w.Write(pt)
	verifrt.Assert(w.Close() == nil, "Close succeeds")
	ct := sink.Bytes()
	nseg := 1
	if l > 2 {
		nseg = 2
	}
	verifrt.Assert(len(ct) == hlen+l+nseg*tag, "stream length == header + plaintext + one tag per segment")
	salt := ct[1 : 1+ks]
	// Idealisation (key separation inside HKDF): the derived HMAC key is neither of the keys
	// HKDF itself runs HMAC under (the salt, the pseudorandom key). Without it the
	// unforgeability idealisation below would count HKDF's own HMAC calls as honest tags
	// under the segment key (a 2^-256 coincidence such as HMAC key == salt || 0^16).
	_, hk := chKeys("SHA256", mainKey, salt, aad, ks)
	honestKeys := [][]byte{salt, chPRK(mainKey, salt), hk}
	chAssumeOtherKey(hk, honestKeys[:2])

	// From here on everything is triggered by untrusted input (MAC unforgeability
	// idealisation: a tag over a (key, message) pair no honest computation MACed is never
	// equal to the candidate).
	verifmodels.AdversaryPhase()

	// mustFail reads the manipulated stream to its end
	mustFail := func(bad, aad []byte, what string) {
		r, err := a.NewDecryptingReader(&chSource{data: bad, step: 1000}, aad)
		if err != nil {
			verifrt.Reach("rejected-by-header")
			return
		}
		got, err := chReadAll(r, 64, 8)
		verifrt.Assert(err != nil && err != io.EOF, what+" => an error, not a clean end of stream")
		verifrt.Assert(len(got) <= len(pt) && verifrt.EqBytes(got, pt[:min(len(got), len(pt))]), what+" => bytes returned before the error are a prefix of the plaintext")
	}

	switch verifrt.Choice("attack", 11) {
	case 0: // different associated data
		aad2 := verifrt.Bytes("aad2", 1)
		verifrt.Assume(aad2[0] != aad[0])
		// idealisation (HKDF as a collision-free function of its info input): other associated
		// data gives another HMAC key. What is decided is that the reader derives its keys
		// from the associated data it was given, and then rejects.
		_, hk2 := chKeys("SHA256", mainKey, salt, aad2, ks)
		chAssumeOtherKey(hk2, honestKeys)
		r, err := a.NewDecryptingReader(bytes.NewReader(ct), aad2)
		verifrt.Assert(err == nil, "header is accepted (it is not authenticated by itself)")
		got, err := io.ReadAll(r)
		verifrt.Assert(err != nil && len(got) == 0, "other associated data => error, no plaintext")
	case 1: // associated data of another length (empty / longer)
		aad2 := verifrt.Bytes("aad3", 2*verifrt.Choice("aad3n", 2))
		_, hk2 := chKeys("SHA256", mainKey, salt, aad2, ks)
		chAssumeOtherKey(hk2, honestKeys)
		r, err := a.NewDecryptingReader(bytes.NewReader(ct), aad2)
		verifrt.Assert(err == nil, "header is accepted (it is not authenticated by itself)")
		got, err := io.ReadAll(r)
		verifrt.Assert(err != nil && len(got) == 0, "associated data of another length => error, no plaintext")
	case 2: // header length byte altered
		bad := append([]byte{}, ct...)
		bad[0] ^= verifrt.Byte("d")
		verifrt.Assume(bad[0] != ct[0])
		_, err := a.NewDecryptingReader(bytes.NewReader(bad), aad)
		verifrt.Assert(err != nil, "wrong header length byte rejected")
	case 3: // truncated inside the header
		cut := verifrt.Choice("cut", hlen)
		_, err := a.NewDecryptingReader(bytes.NewReader(ct[:cut]), aad)
		verifrt.Assert(err != nil, "truncated header rejected")
	case 4: // header write fails; a later segment write fails
		failAt := 1 + verifrt.Choice("failAt", 3)
		fw := &failWriter{failAt: failAt}
		w, err := a.NewEncryptingWriter(fw, aad)
		if failAt == 1 {
			verifrt.Assert(err != nil, "a failing header write fails the constructor")
			break
		}
		verifrt.Assert(err == nil, "constructor succeeds when the header write does")
		_, e1 := w.Write(pt)
		e2 := w.Close()
		verifrt.Assert((fw.calls >= failAt) == (e1 != nil || e2 != nil), "a failing segment write surfaces from Write or Close (and only then)")
		verifrt.Assert(failAt != 2 || e1 != nil || e2 != nil, "every stream has at least one segment write")
	case 5: // salt altered: other keys (stated as for other associated data)
		delta := verifrt.Bytes("dsalt", ks)
		verifrt.Assume(!verifrt.EqBytes(delta, make([]byte, ks)))
		bad := append([]byte{}, ct...)
		for i := range delta {
			bad[1+i] ^= delta[i]
		}
		_, hk2 := chKeys("SHA256", mainKey, bad[1:1+ks], aad, ks)
		chAssumeOtherKey(hk2, honestKeys)
		mustFail(bad, aad, "altered salt")
	case 6: // nonce prefix, segment ciphertext or tag bytes altered (any same-length change after the salt)
		delta := verifrt.Bytes("delta", len(ct)-1-ks)
		verifrt.Assume(!verifrt.EqBytes(delta, make([]byte, len(delta))))
		bad := append([]byte{}, ct...)
		for i := range delta {
			bad[1+ks+i] ^= delta[i]
		}
		mustFail(bad, aad, "altered nonce prefix / segment bytes")
	case 7: // one altered byte of a chosen kind: first / last ciphertext byte, first / last tag byte of a segment
		s := verifrt.Choice("seg", nseg)
		start, end := hlen, len(ct) // segment s
		if nseg == 2 {
			if s == 0 {
				end = hlen + 2 + tag
			} else {
				start = hlen + 2 + tag
			}
		}
		pos := [...]int{start, end - tag - 1, end - tag, end - 1}[verifrt.Choice("pos", 4)]
		verifrt.Assume(pos >= start) // the empty segment has no ciphertext byte
		bad := append([]byte{}, ct...)
		bad[pos] ^= verifrt.Byte("d1")
		verifrt.Assume(bad[pos] != ct[pos])
		mustFail(bad, aad, "altered segment byte")
	case 8: // truncation at every point after the header
		cut := hlen + verifrt.Choice("cut2", len(ct)-hlen)
		mustFail(ct[:cut], aad, "truncated stream")
	case 9: // bytes appended
		ext := verifrt.Bytes("ext", 1+verifrt.Choice("extn", 2))
		mustFail(append(append([]byte{}, ct...), ext...), aad, "extended stream")
	default: // the source fails persistently from some call on: inside the header, or at the 1st..4th call after it
		rfail := verifrt.Choice("rfail", 5)
		src := &chSource{data: ct, step: [...]int{2, 1000}[verifrt.Choice("step", 2)]}
		if rfail == 0 {
			src.failAt = 2
		}
		r, err := a.NewDecryptingReader(src, aad)
		if rfail == 0 {
			verifrt.Assert(err != nil, "a source failing inside the header fails the constructor")
			break
		}
		verifrt.Assert(err == nil, "NewDecryptingReader accepts the header")
		failAt := src.calls + rfail
		src.failAt = failAt
		got, err := chReadAll(r, 64, 40)
		verifrt.Assert(err != nil, "reading ends with an error or io.EOF")
		verifrt.Assert((err != io.EOF) == (src.calls >= failAt), "a failing source read surfaces as an error instead of io.EOF (and only then)")
		verifrt.Assert(len(got) <= len(pt) && verifrt.EqBytes(got, pt[:min(len(got), len(pt))]), "bytes returned before the I/O error are a prefix of the plaintext")
		if err == io.EOF {
			verifrt.AssertEq(got, pt, "clean end => whole plaintext")
		}
	}
	verifrt.Reach("end")
}

// NewAESCTRHMAC's argument validation for all int arguments: accepted exactly for AES-128/256
// sub keys, a main key at least as long as max(16, key size), 10 <= tag size <= digest size,
// a non-negative first-segment offset and a segment size that leaves a non-empty first
// plaintext segment; the derived fields are the documented ones.
func VerifH_ctrhmac_params() {
	// Range: all of int32. (Outside it the uint32 conversions in the validation truncate on
	// 64-bit platforms: tag size 2^32+20 or key size 16-2^39 are accepted; reported as an
	// observation, unreachable from key protos whose fields are uint32.)
	const big = 1 << 31
	ks := verifrt.IntRange("ks", -big, big)
	tag := verifrt.IntRange("tag", -big, big)
	seg := verifrt.IntRange("seg", -big, big)
	off := verifrt.IntRange("off", -big, big)
	algs := [...]string{"SHA1", "SHA224", "SHA256", "SHA384", "SHA512", "MD5", ""}
	digest := [...]int{20, 28, 32, 48, 64, -1, -1}
	ai := verifrt.Choice("alg", len(algs))
	mkLen := [...]int{0, 15, 16, 31, 32, 33}[verifrt.Choice("mk", 6)]
	a, err := NewAESCTRHMAC(make([]byte, mkLen), "SHA256", ks, algs[ai], tag, seg, off)
	hlen := 1 + ks + 7
	valid := (ks == 16 || ks == 32) && mkLen >= 16 && mkLen >= ks &&
		digest[ai] > 0 && tag >= 10 && tag <= digest[ai] &&
		off >= 0 && seg > off+hlen+tag
	verifrt.Assert((err == nil) == valid, "accepted iff key size 16/32, main key >= max(16, key size), 10 <= tag <= digest size, offset >= 0, segment size > offset + header + tag")
	if err == nil {
		verifrt.Assert(a != nil, "a primitive is returned")
		verifrt.Assert(ks == 16 || ks == 32, "only AES-128/256 sub keys")
		verifrt.Assert(tag >= 10 && tag <= digest[ai], "tag size within [10, digest size]")
		verifrt.Assert(a.HeaderLength() == hlen && hlen < 256, "header length == 1 + key size + 7 and fits its length byte")
		verifrt.Assert(a.keySizeInBytes == ks && a.tagSizeInBytes == tag && a.ciphertextSegmentSize == seg, "parameters stored as given")
		verifrt.Assert(a.plaintextSegmentSize == seg-tag, "plaintext segment == ciphertext segment - tag")
		verifrt.Assert(a.firstCiphertextSegmentOffset == off+hlen, "first segment is shortened by offset + header")
		verifrt.Assert(a.plaintextSegmentSize-a.firstCiphertextSegmentOffset > 0, "first plaintext segment is non-empty")
		verifrt.Reach("accepted")
	} else {
		verifrt.Assert(a == nil, "no primitive together with an error")
		verifrt.Reach("rejected")
	}
	verifrt.Reach("end")
}
