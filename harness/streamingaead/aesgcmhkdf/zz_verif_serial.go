package aesgcmhkdf

import (
	"math"

	"github.com/tink-crypto/tink-go/v2/insecuresecretdataaccess"
	"github.com/tink-crypto/tink-go/v2/internal/verifh"
	"github.com/tink-crypto/tink-go/v2/internal/verifrt"
	tinkpb "github.com/tink-crypto/tink-go/v2/proto/tink_go_proto"
	"github.com/tink-crypto/tink-go/v2/secretdata"
)

// Every valid parameter combination: derived key size {16,32}; key size {16,17,32,33,64}
// resp. {32,33,48,64,65} (KeySizeInBytes == and != DerivedKeySizeInBytes); every HKDF hash;
// segment sizes at the lower boundary (min = dk+25, min+1), typical (4096, 1 MiB) and the
// upper boundary (MaxInt32-1, MaxInt32). Symbolic key bytes.
func VerifH_serial_streaming_aesgcmhkdf() {
	di := verifrt.Choice("dk", 2)
	dk := [...]int{16, 32}[di]
	ks := [...][5]int{{16, 17, 32, 33, 64}, {32, 33, 48, 64, 65}}[di][verifrt.Choice("ks", 5)]
	hkdf := [...]HashType{SHA1, SHA256, SHA512}[verifrt.Choice("hkdf", 3)]
	min := int32(dk + 24 + 1)
	seg := [...]int32{min, min + 1, 4096, 1 << 20, math.MaxInt32 - 1, math.MaxInt32}[verifrt.Choice("seg", 6)]
	params, err := NewParameters(ParametersOpts{KeySizeInBytes: ks, DerivedKeySizeInBytes: dk, HKDFHashType: hkdf, SegmentSizeInBytes: seg})
	verifrt.Assert(err == nil, "NewParameters")
	verifrt.Assert(params.KeySizeInBytes() == ks && params.DerivedKeySizeInBytes() == dk && params.SegmentSizeInBytes() == seg && params.HKDFHashType() == hkdf, "getters")
	k, err := NewKey(params, secretdata.NewBytesFromData(verifrt.Bytes("key", ks), insecuresecretdataaccess.Token{}))
	verifrt.Assert(err == nil, "NewKey")
	verifh.CheckKeyRoundTrip(k, &keySerializer{}, &keyParser{}, &parametersSerializer{}, &parametersParser{}, 3, 0, typeURL, tinkpb.KeyData_SYMMETRIC)
}

// Symbolic segment size (every int32 >= the minimum), parameters only.
func VerifH_serialparams_streaming_aesgcmhkdf_symseg() {
	di := verifrt.Choice("dk", 2)
	dk := [...]int{16, 32}[di]
	ks := [...][5]int{{16, 17, 32, 33, 64}, {32, 33, 48, 64, 65}}[di][verifrt.Choice("ks", 5)]
	hkdf := [...]HashType{SHA1, SHA256, SHA512}[verifrt.Choice("hkdf", 3)]
	seg := verifrt.Int32("seg")
	verifrt.Assume(seg >= int32(dk+24+1))
	params, err := NewParameters(ParametersOpts{KeySizeInBytes: ks, DerivedKeySizeInBytes: dk, HKDFHashType: hkdf, SegmentSizeInBytes: seg})
	verifrt.Assert(err == nil, "NewParameters")
	verifh.CheckParamsRoundTrip(params, &parametersSerializer{}, &parametersParser{}, 3, typeURL)
}
