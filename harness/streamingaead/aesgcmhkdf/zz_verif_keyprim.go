package aesgcmhkdf

import (
	"github.com/tink-crypto/tink-go/v2/insecuresecretdataaccess"
	"github.com/tink-crypto/tink-go/v2/internal/verifrt"
	"github.com/tink-crypto/tink-go/v2/secretdata"
	"github.com/tink-crypto/tink-go/v2/streamingaead/subtle"
)

// The streaming primitive built from an AES-GCM-HKDF KEY OBJECT is the subtle primitive with
// exactly the parameters' values: key bytes, HKDF hash name, DERIVED key size (which may be
// smaller than the key), segment size, first-segment offset 0.
func VerifH_keyprim_streaming_aesgcmhkdf() {
	verifrt.EngineOnly()
	sizes := [...][2]int{{16, 16}, {32, 16}, {32, 32}}[verifrt.Choice("sizes", 3)]
	hSel := verifrt.Choice("hash", 3)
	ht := [...]HashType{SHA1, SHA256, SHA512}[hSel]
	hname := [...]string{"SHA1", "SHA256", "SHA512"}[hSel]
	seg := int32(sizes[1] + 25 + verifrt.Choice("segextra", 3)*1000)
	params, err := NewParameters(ParametersOpts{KeySizeInBytes: sizes[0], DerivedKeySizeInBytes: sizes[1], HKDFHashType: ht, SegmentSizeInBytes: seg})
	verifrt.Assert(err == nil, "NewParameters")
	kb := verifrt.Bytes("key", sizes[0])
	k, err := NewKey(params, secretdata.NewBytesFromData(kb, insecuresecretdataaccess.Token{}))
	verifrt.Assert(err == nil, "NewKey")
	var gotKey []byte
	var gotHash string
	var gotDerived, gotSeg, gotOff int
	calls := 0
	verifrt.Summarize("streamingaead/subtle.NewAESGCMHKDF", func(mainKey []byte, hkdfAlg string, keySizeInBytes, ciphertextSegmentSize, firstSegmentOffset int) (*subtle.AESGCMHKDF, error) {
		calls++
		gotKey, gotHash, gotDerived, gotSeg, gotOff = append([]byte{}, mainKey...), hkdfAlg, keySizeInBytes, ciphertextSegmentSize, firstSegmentOffset
		return &subtle.AESGCMHKDF{}, nil
	})
	p, err := primitiveConstructor(k)
	verifrt.Assert(err == nil && p != nil && calls == 1, "primitive from the key object")
	verifrt.AssertEq(gotKey, kb, "main key = the key's bytes")
	verifrt.Assert(gotHash == hname, "HKDF hash of the parameters")
	verifrt.Assert(gotDerived == sizes[1], "DERIVED key size of the parameters (not the key length)")
	verifrt.Assert(gotSeg == int(seg) && gotOff == 0, "segment size of the parameters, first-segment offset 0")
	verifrt.Reach("end")
}
