package aesgcmhkdf

import (
	"google.golang.org/protobuf/proto"

	"github.com/tink-crypto/tink-go/v2/insecuresecretdataaccess"
	"github.com/tink-crypto/tink-go/v2/internal/verifh"
	"github.com/tink-crypto/tink-go/v2/internal/verifrt"
	pb "github.com/tink-crypto/tink-go/v2/proto/aes_gcm_hkdf_streaming_go_proto"
	commonpb "github.com/tink-crypto/tink-go/v2/proto/common_go_proto"
	tinkpb "github.com/tink-crypto/tink-go/v2/proto/tink_go_proto"
)

// parseHashOf: the streaming types know SHA1 (1), SHA256 (3), SHA512 (4) only.
func parseHashOf(hash int32) HashType {
	switch hash {
	case 1:
		return SHA1
	case 3:
		return SHA256
	case 4:
		return SHA512
	}
	return HashTypeUnknown
}

// parseBodyValid: derived key size 16 or 32; key at least as long as the derived key; HKDF
// hash SHA1/SHA256/SHA512; ciphertext segment size at least derived key size + 25 (header
// = 1 + derived-key-size salt + 7 nonce prefix, one 16-byte tag, one byte of plaintext) and
// representable as int32.
func parseBodyValid(version uint32, keyLen uint64, derived, segment uint32, hash int32) bool {
	ok := verifrt.And(version == 0, derived == 16 || derived == 32)
	ok = verifrt.And(ok, keyLen >= uint64(derived))
	ok = verifrt.And(ok, hash == 1 || hash == 3 || hash == 4)
	return verifrt.And(ok, uint64(segment) >= uint64(derived)+25 && segment <= 0x7fffffff)
}

// VerifH_parse_sgcmhkdf: keyParser.ParseKey of AES-GCM-HKDF streaming keys on hostile fields
// (AesGcmHkdfStreamingKey{version, params{ciphertext_segment_size, derived_key_size,
// hkdf_hash_type}, key_value}). Besides parseBodyValid: SYMMETRIC, own type URL, and - a
// streaming key has no output prefix and no id requirement - prefix type RAW.
func VerifH_parse_sgcmhkdf() {
	h := verifh.NewHostile()
	version, derived, segment, hash := verifrt.Uint32("version"), verifrt.Uint32("derived"), verifrt.Uint32("segment"), verifrt.Int32("hash")
	n := h.Len("keylen", 32, 0, 1, 15, 16, 17, 31, 33, 64)
	kv := verifrt.Bytes("key", n)
	msg := &pb.AesGcmHkdfStreamingKey{Version: version, KeyValue: kv, Params: &pb.AesGcmHkdfStreamingParams{CiphertextSegmentSize: segment, DerivedKeySize: derived, HkdfHashType: commonpb.HashType(hash)}}
	shape := h.Shape("shape", 3)
	var value []byte
	switch shape {
	case 1:
		version, derived, segment, hash, n, kv = 0, 0, 0, 0, 0, nil
	case 2:
		msg.Params, derived, segment, hash = nil, 0, 0, 0
	}
	if shape != 1 {
		var err error
		value, err = proto.Marshal(msg)
		verifrt.Assert(err == nil, "marshal")
	}
	if !h.Wrap(typeURL, value) {
		return
	}
	k, err := (&keyParser{}).ParseKey(h.KS)
	body := parseBodyValid(version, uint64(n), derived, segment, hash)
	inner := verifrt.And(h.URLOK && h.Material == tinkpb.KeyData_SYMMETRIC, body)
	// stated separately so that a defect in one rule does not hide the others
	// NOT asserted: "accepted => prefix type RAW". Streaming key parsers ignore the prefix type on
	// purpose (legacy keysets carry non-RAW streaming keys; see streamingaead/decrypt_reader.go);
	// recorded as an observation in DESIGN.md.
	verifrt.Observe("prefix-unchecked", err == nil && h.Prefix != tinkpb.OutputPrefixType_RAW)
	verifrt.Assert(verifrt.Implies(err == nil, inner), "accepted => version 0, derived key 16/32, key >= derived, HKDF hash SHA1/256/512, segment in [derived+25, 2^31), SYMMETRIC, own type URL")
	verifrt.Assert(verifrt.Implies(verifrt.And(inner, h.Prefix == tinkpb.OutputPrefixType_RAW), err == nil), "every valid AES-GCM-HKDF streaming key is accepted")
	if err != nil {
		verifrt.Reach("rejected")
		return
	}
	if h.Kind() == 3 {
		h.CheckParsedEnvelope(k)
	}
	ak, ok := k.(*Key)
	verifrt.Assert(ok && ak != nil, "parsed key is *aesgcmhkdf.Key")
	p := ak.Parameters().(*Parameters)
	verifrt.Assert(p.KeySizeInBytes() == n && p.DerivedKeySizeInBytes() == int(derived) && int64(p.SegmentSizeInBytes()) == int64(segment) && p.HKDFHashType() == parseHashOf(hash), "parameters = the message's")
	verifrt.AssertEq(ak.KeyBytes().Data(insecuresecretdataaccess.Token{}), kv, "key bytes are key_value")
	verifrt.Reach("accepted")
}

// VerifH_parse_sgcmhkdf_params: parametersParser.Parse on a hostile key template
// (AesGcmHkdfStreamingKeyFormat{version, params, key_size}).
func VerifH_parse_sgcmhkdf_params() {
	version, derived, segment, hash, ks := verifrt.Uint32("version"), verifrt.Uint32("derived"), verifrt.Uint32("segment"), verifrt.Int32("hash"), verifrt.Uint32("keysize")
	msg := &pb.AesGcmHkdfStreamingKeyFormat{Version: version, KeySize: ks, Params: &pb.AesGcmHkdfStreamingParams{CiphertextSegmentSize: segment, DerivedKeySize: derived, HkdfHashType: commonpb.HashType(hash)}}
	if verifrt.Choice("nilparams", 2) == 1 {
		msg.Params, derived, segment, hash = nil, 0, 0, 0
	}
	value, err := proto.Marshal(msg)
	verifrt.Assert(err == nil, "marshal")
	t, urlOK, prefix := verifh.HostileTemplate(typeURL, value)
	p, err := (&parametersParser{}).Parse(t)
	valid := verifrt.And(urlOK && prefix == tinkpb.OutputPrefixType_RAW, parseBodyValid(version, uint64(ks), derived, segment, hash))
	verifrt.Assert((err == nil) == valid, "template accepted <=> own type URL, prefix RAW, version 0, derived key 16/32, key size >= derived, HKDF hash SHA1/256/512, segment in [derived+25, 2^31)")
	if err != nil {
		verifrt.Reach("rejected")
		return
	}
	ap := p.(*Parameters)
	verifrt.Assert(ap.KeySizeInBytes() == int(ks) && ap.DerivedKeySizeInBytes() == int(derived) && int64(ap.SegmentSizeInBytes()) == int64(segment) && ap.HKDFHashType() == parseHashOf(hash) && !ap.HasIDRequirement(), "parameters mirror the format")
	_, nerr := (&parametersParser{}).Parse(nil)
	verifrt.Assert(nerr != nil, "nil template rejected, no panic")
	verifrt.Reach("accepted")
}
