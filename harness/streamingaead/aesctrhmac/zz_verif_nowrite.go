package aesctrhmac

import (
	"github.com/tink-crypto/tink-go/v2/internal/verifh"
	"github.com/tink-crypto/tink-go/v2/internal/verifrt"
	"github.com/tink-crypto/tink-go/v2/key"
	"github.com/tink-crypto/tink-go/v2/secretdata"
)

// C19, key object: see verifh.CheckSymKeyObject (this key type has no output prefix).
func VerifH_c19_streaming_aesctrhmackey() {
	dk := [...]int{16, 32}[verifrt.Choice("dk", 2)]
	ks := [...]int{32, 33}[verifrt.Choice("ks", 2)]
	params, err := NewParameters(ParametersOpts{KeySizeInBytes: ks, DerivedKeySizeInBytes: dk, HkdfHashType: SHA256, HmacHashType: SHA256, HmacTagSizeInBytes: 32, SegmentSizeInBytes: 4096})
	verifrt.Assert(err == nil, "NewParameters")
	verifh.CheckSymKeyObject(ks, func(b secretdata.Bytes) (key.Key, error) { return NewKey(params, b) }, nwKeyBytes, nil, 0)
}

func nwKeyBytes(k key.Key) secretdata.Bytes { return k.(*Key).KeyBytes() }
