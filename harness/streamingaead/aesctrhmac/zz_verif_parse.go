package aesctrhmac

import (
	"google.golang.org/protobuf/proto"

	"github.com/tink-crypto/tink-go/v2/insecuresecretdataaccess"
	"github.com/tink-crypto/tink-go/v2/internal/verifh"
	"github.com/tink-crypto/tink-go/v2/internal/verifrt"
	pb "github.com/tink-crypto/tink-go/v2/proto/aes_ctr_hmac_streaming_go_proto"
	commonpb "github.com/tink-crypto/tink-go/v2/proto/common_go_proto"
	hmacpb "github.com/tink-crypto/tink-go/v2/proto/hmac_go_proto"
	tinkpb "github.com/tink-crypto/tink-go/v2/proto/tink_go_proto"
)

// parseHashOf: the streaming types know SHA1 (1), SHA256 (3), SHA512 (4) only.
func parseHashOf(hash int32) HashType {
	switch hash {
	case 1:
		return SHA1
	case 3:
		return SHA256
	case 4:
		return SHA512
	}
	return UnknownHashType
}

// parseBodyValid: derived key size 16 or 32; key at least as long as the derived key; HKDF
// hash and HMAC hash each SHA1/SHA256/SHA512; tag size in [10, digest length of the HMAC
// hash]; ciphertext segment size at least derived key size + tag size + 9 (header = 1 +
// derived-key-size salt + 7 nonce prefix, one tag, one byte of plaintext) and representable
// as int32.
func parseBodyValid(version uint32, keyLen uint64, derived, segment uint32, hkdfHash, macHash int32, tag uint32) bool {
	ok := verifrt.And(version == 0, derived == 16 || derived == 32)
	ok = verifrt.And(ok, keyLen >= uint64(derived))
	ok = verifrt.And(ok, hkdfHash == 1 || hkdfHash == 3 || hkdfHash == 4)
	ok = verifrt.And(ok, macHash == 1 || macHash == 3 || macHash == 4)
	ok = verifrt.And(ok, tag >= 10 && uint64(tag) <= uint64(verifh.DigestLen(macHash)))
	return verifrt.And(ok, uint64(segment) >= uint64(derived)+uint64(tag)+9 && segment <= 0x7fffffff)
}

// VerifH_parse_sctrhmac: keyParser.ParseKey of AES-CTR-HMAC streaming keys on hostile fields
// (AesCtrHmacStreamingKey{version, params{ciphertext_segment_size, derived_key_size,
// hkdf_hash_type, hmac_params{hash, tag_size}}, key_value}). Besides parseBodyValid:
// SYMMETRIC, own type URL, and - a streaming key has no output prefix and no id requirement -
// prefix type RAW.
func VerifH_parse_sctrhmac() {
	h := verifh.NewHostile()
	version, derived, segment := verifrt.Uint32("version"), verifrt.Uint32("derived"), verifrt.Uint32("segment")
	hkdfHash, macHash, tag := verifrt.Int32("hkdfhash"), verifrt.Int32("machash"), verifrt.Uint32("tag")
	n := h.Len("keylen", 32, 0, 1, 15, 16, 17, 31, 33, 64)
	kv := verifrt.Bytes("key", n)
	msg := &pb.AesCtrHmacStreamingKey{Version: version, KeyValue: kv, Params: &pb.AesCtrHmacStreamingParams{
		CiphertextSegmentSize: segment, DerivedKeySize: derived, HkdfHashType: commonpb.HashType(hkdfHash),
		HmacParams: &hmacpb.HmacParams{Hash: commonpb.HashType(macHash), TagSize: tag}}}
	shape := h.Shape("shape", 4)
	var value []byte
	switch shape {
	case 1:
		version, derived, segment, hkdfHash, macHash, tag, n, kv = 0, 0, 0, 0, 0, 0, 0, nil
	case 2:
		msg.Params, derived, segment, hkdfHash, macHash, tag = nil, 0, 0, 0, 0, 0
	case 3:
		msg.Params.HmacParams, macHash, tag = nil, 0, 0
	}
	if shape != 1 {
		var err error
		value, err = proto.Marshal(msg)
		verifrt.Assert(err == nil, "marshal")
	}
	if !h.Wrap(typeURL, value) {
		return
	}
	k, err := (&keyParser{}).ParseKey(h.KS)
	body := parseBodyValid(version, uint64(n), derived, segment, hkdfHash, macHash, tag)
	inner := verifrt.And(h.URLOK && h.Material == tinkpb.KeyData_SYMMETRIC, body)
	// stated separately so that a defect in one rule does not hide the others
	// NOT asserted: "accepted => prefix type RAW". Streaming key parsers ignore the prefix type on
	// purpose (legacy keysets carry non-RAW streaming keys; see streamingaead/decrypt_reader.go);
	// recorded as an observation in DESIGN.md.
	verifrt.Observe("prefix-unchecked", err == nil && h.Prefix != tinkpb.OutputPrefixType_RAW)
	verifrt.Assert(verifrt.Implies(err == nil, inner), "accepted => version 0, derived key 16/32, key >= derived, hashes SHA1/256/512, tag in [10, digest], segment in [derived+tag+9, 2^31), SYMMETRIC, own type URL")
	verifrt.Assert(verifrt.Implies(verifrt.And(inner, h.Prefix == tinkpb.OutputPrefixType_RAW), err == nil), "every valid AES-CTR-HMAC streaming key is accepted")
	if err != nil {
		verifrt.Reach("rejected")
		return
	}
	if h.Kind() == 3 {
		h.CheckParsedEnvelope(k)
	}
	ak, ok := k.(*Key)
	verifrt.Assert(ok && ak != nil, "parsed key is *aesctrhmac.Key")
	p := ak.Parameters().(*Parameters)
	verifrt.Assert(p.KeySizeInBytes() == n && p.DerivedKeySizeInBytes() == int(derived) && int64(p.SegmentSizeInBytes()) == int64(segment), "parameters: sizes = the message's")
	verifrt.Assert(p.HkdfHashType() == parseHashOf(hkdfHash) && p.HmacHashType() == parseHashOf(macHash) && p.HmacTagSizeInBytes() == int(tag), "parameters: hashes and tag size = the message's")
	verifrt.AssertEq(ak.KeyBytes().Data(insecuresecretdataaccess.Token{}), kv, "key bytes are key_value")
	verifrt.Reach("accepted")
}

// VerifH_parse_sctrhmac_params: parametersParser.Parse on a hostile key template
// (AesCtrHmacStreamingKeyFormat{version, params, key_size}).
func VerifH_parse_sctrhmac_params() {
	version, derived, segment, ks := verifrt.Uint32("version"), verifrt.Uint32("derived"), verifrt.Uint32("segment"), verifrt.Uint32("keysize")
	hkdfHash, macHash, tag := verifrt.Int32("hkdfhash"), verifrt.Int32("machash"), verifrt.Uint32("tag")
	msg := &pb.AesCtrHmacStreamingKeyFormat{Version: version, KeySize: ks, Params: &pb.AesCtrHmacStreamingParams{
		CiphertextSegmentSize: segment, DerivedKeySize: derived, HkdfHashType: commonpb.HashType(hkdfHash),
		HmacParams: &hmacpb.HmacParams{Hash: commonpb.HashType(macHash), TagSize: tag}}}
	switch verifrt.Choice("shape", 3) {
	case 1:
		msg.Params, derived, segment, hkdfHash, macHash, tag = nil, 0, 0, 0, 0, 0
	case 2:
		msg.Params.HmacParams, macHash, tag = nil, 0, 0
	}
	value, err := proto.Marshal(msg)
	verifrt.Assert(err == nil, "marshal")
	t, urlOK, prefix := verifh.HostileTemplate(typeURL, value)
	p, err := (&parametersParser{}).Parse(t)
	valid := verifrt.And(urlOK && prefix == tinkpb.OutputPrefixType_RAW, parseBodyValid(version, uint64(ks), derived, segment, hkdfHash, macHash, tag))
	verifrt.Assert((err == nil) == valid, "template accepted <=> own type URL, prefix RAW, version 0, derived key 16/32, key size >= derived, hashes SHA1/256/512, tag in [10, digest], segment in [derived+tag+9, 2^31)")
	if err != nil {
		verifrt.Reach("rejected")
		return
	}
	ap := p.(*Parameters)
	verifrt.Assert(ap.KeySizeInBytes() == int(ks) && ap.DerivedKeySizeInBytes() == int(derived) && int64(ap.SegmentSizeInBytes()) == int64(segment) && !ap.HasIDRequirement(), "parameters mirror the format: sizes")
	verifrt.Assert(ap.HkdfHashType() == parseHashOf(hkdfHash) && ap.HmacHashType() == parseHashOf(macHash) && ap.HmacTagSizeInBytes() == int(tag), "parameters mirror the format: hashes and tag size")
	verifrt.Reach("accepted")
}
