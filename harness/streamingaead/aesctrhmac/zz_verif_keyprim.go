package aesctrhmac

import (
	"github.com/tink-crypto/tink-go/v2/insecuresecretdataaccess"
	"github.com/tink-crypto/tink-go/v2/internal/verifrt"
	"github.com/tink-crypto/tink-go/v2/secretdata"
	"github.com/tink-crypto/tink-go/v2/streamingaead/subtle"
)

// The streaming primitive built from an AES-CTR-HMAC KEY OBJECT is the subtle primitive with
// exactly the parameters' values: key bytes, HKDF hash, DERIVED key size, HMAC hash, tag size,
// segment size, first-segment offset 0.
func VerifH_keyprim_streaming_aesctrhmac() {
	verifrt.EngineOnly()
	sizes := [...][2]int{{16, 16}, {32, 16}, {32, 32}}[verifrt.Choice("sizes", 3)]
	names := [...]string{"SHA1", "SHA256", "SHA512"}
	hs := [...]HashType{SHA1, SHA256, SHA512}
	h1, h2 := verifrt.Choice("hkdf", 3), verifrt.Choice("hmac", 3)
	tag := [...]int{10, 16, 20}[verifrt.Choice("tag", 3)]
	seg := int32(sizes[1] + tag + 9 + verifrt.Choice("segextra", 3)*1000)
	params, err := NewParameters(ParametersOpts{KeySizeInBytes: sizes[0], DerivedKeySizeInBytes: sizes[1], HkdfHashType: hs[h1], HmacHashType: hs[h2], HmacTagSizeInBytes: tag, SegmentSizeInBytes: seg})
	verifrt.Assert(err == nil, "NewParameters")
	kb := verifrt.Bytes("key", sizes[0])
	k, err := NewKey(params, secretdata.NewBytesFromData(kb, insecuresecretdataaccess.Token{}))
	verifrt.Assert(err == nil, "NewKey")
	var gotKey []byte
	var gotHKDF, gotHMAC string
	var gotDerived, gotTag, gotSeg, gotOff int
	calls := 0
	verifrt.Summarize("streamingaead/subtle.NewAESCTRHMAC", func(mainKey []byte, hkdfAlg string, keySizeInBytes int, tagAlg string, tagSizeInBytes, ciphertextSegmentSize, firstSegmentOffset int) (*subtle.AESCTRHMAC, error) {
		calls++
		gotKey, gotHKDF, gotDerived, gotHMAC, gotTag, gotSeg, gotOff = append([]byte{}, mainKey...), hkdfAlg, keySizeInBytes, tagAlg, tagSizeInBytes, ciphertextSegmentSize, firstSegmentOffset
		return &subtle.AESCTRHMAC{}, nil
	})
	p, err := primitiveConstructor(k)
	verifrt.Assert(err == nil && p != nil && calls == 1, "primitive from the key object")
	verifrt.AssertEq(gotKey, kb, "main key = the key's bytes")
	verifrt.Assert(gotHKDF == names[h1] && gotHMAC == names[h2], "HKDF hash and HMAC hash of the parameters, in that order")
	verifrt.Assert(gotDerived == sizes[1], "DERIVED key size of the parameters (not the key length)")
	verifrt.Assert(gotTag == tag && gotSeg == int(seg) && gotOff == 0, "tag size and segment size of the parameters, first-segment offset 0")
	verifrt.Reach("end")
}
