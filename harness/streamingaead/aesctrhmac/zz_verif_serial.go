package aesctrhmac

import (
	"math"

	"github.com/tink-crypto/tink-go/v2/insecuresecretdataaccess"
	"github.com/tink-crypto/tink-go/v2/internal/verifh"
	"github.com/tink-crypto/tink-go/v2/internal/verifrt"
	tinkpb "github.com/tink-crypto/tink-go/v2/proto/tink_go_proto"
	"github.com/tink-crypto/tink-go/v2/secretdata"
)

// serialParams enumerates every valid parameter combination: derived key size {16,32},
// key size in {16,17,32,33,64} resp. {32,33,48,64,65} (KeySizeInBytes == and != DerivedKeySizeInBytes),
// every HKDF hash x every HMAC hash, every tag size 10..digest, segment sizes at the lower
// boundary (min, min+1), typical (4096, 1 MiB) and the upper boundary (MaxInt32-1, MaxInt32).
func serialParams() *Parameters {
	di := verifrt.Choice("dk", 2)
	dk := [...]int{16, 32}[di]
	ks := [...][5]int{{16, 17, 32, 33, 64}, {32, 33, 48, 64, 65}}[di][verifrt.Choice("ks", 5)]
	hkdf := [...]HashType{SHA1, SHA256, SHA512}[verifrt.Choice("hkdf", 3)]
	hi := verifrt.Choice("hmac", 3)
	hm := [...]HashType{SHA1, SHA256, SHA512}[hi]
	digest := [...]int{20, 32, 64}[hi]
	tag := 10 + verifrt.Choice("tag", digest-10+1)
	min := int32(dk + noncePrefixSize + headerLengthSize + tag + 1)
	seg := [...]int32{min, min + 1, 4096, 1 << 20, math.MaxInt32 - 1, math.MaxInt32}[verifrt.Choice("seg", 6)]
	params, err := NewParameters(ParametersOpts{KeySizeInBytes: ks, DerivedKeySizeInBytes: dk, HkdfHashType: hkdf, HmacHashType: hm, HmacTagSizeInBytes: tag, SegmentSizeInBytes: seg})
	verifrt.Assert(err == nil, "NewParameters")
	verifrt.Assert(params.KeySizeInBytes() == ks && params.DerivedKeySizeInBytes() == dk && params.SegmentSizeInBytes() == seg && params.HmacTagSizeInBytes() == tag, "getters")
	return params
}

func VerifH_serial_streaming_aesctrhmac() {
	params := serialParams()
	k, err := NewKey(params, secretdata.NewBytesFromData(verifrt.Bytes("key", params.KeySizeInBytes()), insecuresecretdataaccess.Token{}))
	verifrt.Assert(err == nil, "NewKey")
	verifh.CheckKeyRoundTrip(k, &keySerializer{}, &keyParser{}, &parametersSerializer{}, &parametersParser{}, 3, 0, typeURL, tinkpb.KeyData_SYMMETRIC)
}

// Symbolic segment size (every int32 >= the minimum) and symbolic tag size, parameters only.
func VerifH_serialparams_streaming_aesctrhmac_symseg() {
	dk := [...]int{16, 32}[verifrt.Choice("dk", 2)]
	ks := [...]int{dk, dk + 1, 64}[verifrt.Choice("ks", 3)]
	hkdf := [...]HashType{SHA1, SHA256, SHA512}[verifrt.Choice("hkdf", 3)]
	hi := verifrt.Choice("hmac", 3)
	hm := [...]HashType{SHA1, SHA256, SHA512}[hi]
	tag := verifrt.IntRange("tag", 10, [...]int{20, 32, 64}[hi])
	seg := verifrt.Int32("seg")
	verifrt.Assume(seg >= int32(dk+noncePrefixSize+headerLengthSize+tag+1))
	params, err := NewParameters(ParametersOpts{KeySizeInBytes: ks, DerivedKeySizeInBytes: dk, HkdfHashType: hkdf, HmacHashType: hm, HmacTagSizeInBytes: tag, SegmentSizeInBytes: seg})
	verifrt.Assert(err == nil, "NewParameters")
	verifh.CheckParamsRoundTrip(params, &parametersSerializer{}, &parametersParser{}, 3, typeURL)
}
