package subtle

import (
	"github.com/tink-crypto/tink-go/v2/internal/verifh"
	"github.com/tink-crypto/tink-go/v2/internal/verifrt"
	"github.com/tink-crypto/tink-go/v2/internal/verifspec"
)

func VerifH_kwp_wrappingSize() {
	n := verifrt.IntRange("n", 0, 1<<31-1)
	w := wrappingSize(n)
	verifrt.Assert(w == 8*((n+7)/8)+8, "wrappingSize(n) == 8*ceil(n/8)+8")
	verifrt.Reach("end")
}

func kwpMax() int {
	if verifrt.Thorough() {
		return 56
	}
	return 33
}

func kekLen() int {
	if verifrt.Choice("kl", 2) == 0 {
		return 16
	}
	return 32
}

func VerifH_kwp_wrap() {
	kek := verifrt.Bytes("kek", kekLen())
	n := 16 + verifrt.Choice("n", kwpMax()-16+1)
	data := verifrt.Bytes("data", n)
	k, err := NewKWP(kek)
	verifrt.Assert(err == nil, "NewKWP accepts 16/32-byte KEK")
	w, err := k.Wrap(data)
	verifrt.Assert(err == nil, "Wrap accepts 16..8192 bytes")
	verifrt.AssertEq(w, verifspec.KWPWrap(kek, data), "Wrap == RFC 5649 KWP-AE")
	verifrt.Observe("w", w)
	verifrt.Reach("wrapped")
	u, err := k.Unwrap(w)
	verifrt.Assert(err == nil, "Unwrap accepts own wrapping")
	verifrt.AssertEq(u, data, "Unwrap inverts Wrap")
	verifrt.Reach("end")
}

func VerifH_kwp_limits() {
	kek := verifrt.Bytes("kek", 16)
	k, _ := NewKWP(kek)
	n := verifrt.Choice("n", 18)
	if n < 16 {
		_, err := k.Wrap(verifrt.Bytes("data", n))
		verifrt.Assert(err != nil, "Wrap rejects < 16 bytes")
	} else if n == 16 {
		_, err := k.Wrap(make([]byte, 8193))
		verifrt.Assert(err != nil, "Wrap rejects > 8192 bytes")
	} else {
		kl := verifrt.Choice("kl", 40)
		verifrt.Assume(kl != 16 && kl != 32)
		_, err := NewKWP(verifrt.Bytes("k2", kl))
		verifrt.Assert(err != nil, "NewKWP rejects other KEK sizes (incl. 24)")
	}
	verifrt.Reach("end")
}

// Arbitrary byte strings of any length: never a panic; lengths that are not a multiple of
// 8 or are below 24 are rejected.
func VerifH_kwp_unwrap_arbitrary() {
	kek := verifrt.Bytes("kek", 16)
	n := verifrt.Choice("n", 34)
	verifrt.Assume(n < 24 || n%8 != 0)
	c := verifrt.Bytes("c", n)
	k, _ := NewKWP(kek)
	d, err := k.Unwrap(c)
	verifrt.Assert(err != nil && d == nil, "mis-sized wrapping rejected")
	verifrt.Reach("end")
}

// Every well-sized ciphertext is W(S) for exactly one string S (W is a permutation), so
// ranging over all S ranges over all ciphertexts. Unwrap must accept W(S) iff S is a valid
// RFC 5649 plaintext encoding (AIV constant, length field consistent with the size, zero
// padding), and then return exactly the encoded key.
func VerifH_kwp_unwrap_all() {
	kek := verifrt.Bytes("kek", kekLen())
	blocks := 3 + verifrt.Choice("blocks", kwpBlocks()) // 64-bit blocks incl. A
	n := 8 * blocks
	s := verifrt.Bytes("s", n)
	c := verifspec.KWPW(kek, s)
	k, _ := NewKWP(kek)
	verifrt.Unwind(96)
	d, err := k.Unwrap(c)
	mli := int(uint32(s[4])<<24 | uint32(s[5])<<16 | uint32(s[6])<<8 | uint32(s[7]))
	valid := s[0] == 0xA6 && s[1] == 0x59 && s[2] == 0x59 && s[3] == 0xA6 && mli > n-16 && mli <= n-8
	if valid {
		for i := 8 + mli; i < n; i++ {
			if s[i] != 0 {
				valid = false
			}
		}
	}
	verifrt.Assert((err == nil) == valid, "Unwrap accepts exactly the valid RFC 5649 encodings")
	if err == nil && valid {
		verifrt.AssertEq(d, s[8:8+mli], "Unwrap returns the encoded key")
		verifrt.Reach("accepted")
	} else {
		verifrt.Assert(d == nil, "no data on error")
		verifrt.Reach("rejected")
	}
}

func kwpBlocks() int {
	if verifrt.Thorough() {
		return 5
	}
	return 3
}

func VerifH_c19_kwp() {
	k, _ := NewKWP(verifrt.Bytes("kek", 16))
	data := verifh.Buf("data", 16+verifrt.Choice("n", 10), "caller key buffer")
	w, err := k.Wrap(data)
	verifrt.Assert(err == nil, "Wrap succeeds")
	verifrt.CheckProtected()
	verifrt.Assert(!verifrt.SameArray(w, data), "wrapping shares no memory with the input")
	wbuf := make([]byte, len(w), len(w)+verifrt.Choice("w.spare", 3))
	copy(wbuf, w)
	verifrt.Protect(wbuf, "caller wrapped-key buffer")
	u, err := k.Unwrap(wbuf)
	verifrt.Assert(err == nil, "Unwrap succeeds")
	verifrt.CheckProtected()
	verifrt.Assert(!verifrt.SameArray(u, wbuf), "unwrapped key shares no memory with the input")
	verifrt.Reach("end")
}

// The upper end of the size range: payloads of 8184, 8185 and 8192 bytes (wrappings of 8192
// and 8200 bytes) still equal RFC 5649 and unwrap to themselves; 8193 is refused.
func VerifH_kwp_maxsize() {
	kek := verifrt.Bytes("kek", 16)
	n := [...]int{8184, 8185, 8192}[verifrt.Choice("n", 3)]
	data := make([]byte, n)
	copy(data, verifrt.Bytes("head", 9))
	copy(data[n-9:], verifrt.Bytes("tail", 9))
	k, _ := NewKWP(kek)
	w, err := k.Wrap(data)
	verifrt.Assert(err == nil && len(w) == 8*((n+7)/8)+8, "Wrap accepts payloads up to 8192 bytes")
	verifrt.AssertEq(w, verifspec.KWPWrap(kek, data), "Wrap == RFC 5649 at the upper size limit")
	u, err := k.Unwrap(w)
	verifrt.Assert(err == nil, "Unwrap accepts the wrapping of a maximum-size key")
	verifrt.AssertEq(u, data, "Unwrap inverts Wrap at the upper size limit")
	_, err = k.Unwrap(make([]byte, 8208))
	verifrt.Assert(err != nil, "Unwrap refuses wrappings longer than that of an 8192-byte key")
	verifrt.Reach("end")
}
