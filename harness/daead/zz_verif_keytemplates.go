package daead

import (
	"github.com/tink-crypto/tink-go/v2/internal/verifrt"
	aspb "github.com/tink-crypto/tink-go/v2/proto/aes_siv_go_proto"
	tinkpb "github.com/tink-crypto/tink-go/v2/proto/tink_go_proto"
	"google.golang.org/protobuf/proto"
)

// C12, daead/daead_key_templates.go. The only template is AESSIVKeyTemplate ("generates a
// AES-SIV key"): no Raw/NoPrefix in the name => TINK; the only AES-SIV key size Tink accepts
// (and the one of the cross-language AES256_SIV template) is 64 bytes = two AES-256 keys
// (RFC 5297 AEAD_AES_SIV_CMAC_512).
type ktRow struct {
	name    string
	fn      func() *tinkpb.KeyTemplate
	keySize uint32
	prefix  tinkpb.OutputPrefixType
}

var ktTable = [1]ktRow{
	{"AESSIVKeyTemplate", AESSIVKeyTemplate, 64, tinkpb.OutputPrefixType_TINK},
}

func VerifH_templates_daead() {
	row := ktTable[verifrt.Choice("tmpl", 1)]
	t := row.fn()
	verifrt.Assert(t != nil, "template")
	verifrt.Assert(t.GetTypeUrl() == "type.googleapis.com/google.crypto.tink.AesSivKey", "type URL AesSivKey")
	verifrt.Assert(t.GetOutputPrefixType() == row.prefix, "output prefix type TINK")
	f := &aspb.AesSivKeyFormat{}
	verifrt.Assert(proto.Unmarshal(t.GetValue(), f) == nil, "key format parses")
	verifrt.Assert(f.GetKeySize() == row.keySize, "AES-SIV key size 64 bytes")
	verifrt.Assert(f.GetVersion() == 0, "version 0")
	verifrt.Reach("end")
}
