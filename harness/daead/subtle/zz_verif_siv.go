package subtle

import (
	"github.com/tink-crypto/tink-go/v2/internal/verifh"
	"github.com/tink-crypto/tink-go/v2/internal/verifrt"
	"github.com/tink-crypto/tink-go/v2/internal/verifspec"
)

func sivMax() int {
	if verifrt.Thorough() {
		return 49
	}
	return 33
}

func VerifH_siv_multiplyByX() {
	b := verifrt.Bytes("b", 16)
	var in [16]byte
	copy(in[:], b)
	want := verifspec.Dbl(in)
	multiplyByX(b)
	verifrt.AssertEq(b, want[:], "multiplyByX == dbl")
	verifrt.Reach("end")
}

func VerifH_siv_encrypt() {
	key := verifrt.Bytes("key", 64)
	n := verifrt.Choice("n", sivMax()+1)
	m := verifrt.Choice("m", 18)
	pt := verifrt.Bytes("pt", n)
	ad := verifrt.Bytes("ad", m)
	s, err := NewAESSIV(key)
	verifrt.Assert(err == nil, "NewAESSIV accepts a 64-byte key")
	ct, err := s.EncryptDeterministically(pt, ad)
	verifrt.Assert(err == nil, "encrypt succeeds")
	verifrt.AssertEq(ct, verifspec.SIVEncrypt(key, ad, pt), "ciphertext == RFC 5297 AES-SIV-CMAC (SIV || CTR)")
	ct2, _ := s.EncryptDeterministically(pt, ad)
	verifrt.AssertEq(ct2, ct, "deterministic")
	got, err := s.DecryptDeterministically(ct, ad)
	verifrt.Assert(err == nil, "decrypt of own ciphertext succeeds")
	verifrt.AssertEq(got, pt, "decrypt inverts encrypt")
	verifrt.Observe("ct", ct)
	verifrt.Reach("end")
}

// Every ciphertext of length >= 16 is V || CTR_{K2}(Q(V), P) for exactly one (V, P), so
// ranging over all (V, P) ranges over all ciphertexts. Decrypt must accept iff
// V == S2V(K1, ad, P) and then return P; in particular no modified ciphertext or
// associated data is accepted. Shorter inputs are rejected; nothing panics.
func VerifH_siv_decrypt_all() {
	key := verifrt.Bytes("key", 64)
	n := verifrt.Choice("n", sivDecMax()+1)
	m := verifrt.Choice("m", 3)
	delta := verifrt.Bytes("delta", 16)
	p := verifrt.Bytes("p", n)
	ad := verifrt.Bytes("ad", m)
	// V is expressed as an offset from the genuine SIV so that a counterexample replays
	// with the real AES: v = S2V(ad, P) xor delta ranges over all 16-byte strings.
	sv := verifspec.S2V(key[:32], ad, p)
	v := make([]byte, 16)
	for i := range v {
		v[i] = sv[i] ^ delta[i]
	}
	q := append([]byte{}, v...)
	q[8] &= 0x7f
	q[12] &= 0x7f
	ct := append(append([]byte{}, v...), verifspec.CTRXor(key[32:], q, p)...)
	s, _ := NewAESSIV(key)
	got, err := s.DecryptDeterministically(ct, ad)
	want := verifrt.EqBytes(delta, make([]byte, 16))
	verifrt.Assert((err == nil) == want, "Decrypt accepts exactly V == S2V(ad, P)")
	if err == nil {
		verifrt.AssertEq(got, p, "Decrypt returns P")
		verifrt.Reach("accepted")
	} else {
		verifrt.Assert(got == nil, "no plaintext on error")
		verifrt.Reach("rejected")
	}
}

func sivDecMax() int {
	if verifrt.Thorough() {
		return 33
	}
	return 18
}

func VerifH_siv_decrypt_short() {
	key := verifrt.Bytes("key", 64)
	n := verifrt.Choice("n", 16)
	s, _ := NewAESSIV(key)
	pt, err := s.DecryptDeterministically(verifrt.Bytes("ct", n), verifrt.Bytes("ad", 1))
	verifrt.Assert(err != nil && pt == nil, "ciphertext shorter than the SIV is rejected")
	verifrt.Reach("end")
}

func VerifH_siv_badkey() {
	kl := verifrt.Choice("kl", 70)
	verifrt.Assume(kl != 64)
	_, err := NewAESSIV(verifrt.Bytes("key", kl))
	verifrt.Assert(err != nil, "NewAESSIV rejects keys that are not 64 bytes")
	verifrt.Reach("end")
}

func VerifH_c19_siv() {
	s, _ := NewAESSIV(verifrt.Bytes("key", 64))
	pt := verifh.Buf("pt", verifrt.Choice("n", 18), "caller plaintext buffer")
	ad := verifh.Buf("ad", verifrt.Choice("m", 2), "caller associated-data buffer")
	ct, err := s.EncryptDeterministically(pt, ad)
	verifrt.Assert(err == nil, "encrypt succeeds")
	verifrt.CheckProtected()
	verifrt.Assert(!verifrt.SameArray(ct, pt) && !verifrt.SameArray(ct, ad), "ciphertext shares no memory with the inputs")
	cbuf := make([]byte, len(ct), len(ct)+verifrt.Choice("ct.spare", 3))
	copy(cbuf, ct)
	verifrt.Protect(cbuf, "caller ciphertext buffer")
	got, err := s.DecryptDeterministically(cbuf, ad)
	verifrt.Assert(err == nil, "decrypt succeeds")
	verifrt.CheckProtected()
	verifrt.Assert(!verifrt.SameArray(got, cbuf), "plaintext shares no memory with the input")
	verifrt.Reach("end")
}

func VerifH_c18_siv() {
	verifrt.EngineOnly()
	s, _ := NewAESSIV(verifrt.Bytes("key", 64))
	n := verifrt.Freeze(s, "state shared between concurrent calls (AES-SIV primitive)")
	verifrt.Assert(n > 0, "the primitive has state to freeze")
	pt := verifrt.Bytes("pt", verifrt.Choice("n", 18))
	ad := verifrt.Bytes("ad", 1)
	c1, e1 := s.EncryptDeterministically(pt, ad)
	c2, e2 := s.EncryptDeterministically(pt, ad)
	verifrt.Assert(e1 == nil && e2 == nil, "encrypt succeeds")
	verifrt.AssertEq(c1, c2, "deterministic across calls")
	p1, e3 := s.DecryptDeterministically(c1, ad)
	verifrt.Assert(e3 == nil, "decrypt succeeds")
	verifrt.AssertEq(p1, pt, "round trip")
	verifrt.Reach("shared-ok")
}
