package aessiv

import (
	"github.com/tink-crypto/tink-go/v2/insecuresecretdataaccess"
	"github.com/tink-crypto/tink-go/v2/internal/verifh"
	"github.com/tink-crypto/tink-go/v2/internal/verifrt"
	tinkpb "github.com/tink-crypto/tink-go/v2/proto/tink_go_proto"
	"github.com/tink-crypto/tink-go/v2/secretdata"
)

// Every valid parameter combination: key sizes {32,48,64} x variants {TINK,CRUNCHY,NO_PREFIX};
// symbolic key bytes and key id.
func VerifH_serial_aessiv() {
	kind := verifrt.Choice("variant", 3)
	v := [...]Variant{VariantTink, VariantCrunchy, VariantNoPrefix}[kind]
	pk := kind
	id := verifrt.Uint32("id")
	if kind == 2 {
		id, pk = 0, 3
	}
	ks := [...]int{32, 48, 64}[verifrt.Choice("ks", 3)]
	params, err := NewParameters(ks, v)
	verifrt.Assert(err == nil, "NewParameters")
	k, err := NewKey(secretdata.NewBytesFromData(verifrt.Bytes("key", ks), insecuresecretdataaccess.Token{}), id, params)
	verifrt.Assert(err == nil, "NewKey")
	verifh.CheckKeyRoundTrip(k, &keySerializer{}, &keyParser{}, &parametersSerializer{}, &parametersParser{}, pk, id, typeURL, tinkpb.KeyData_SYMMETRIC)
}

// VerifSerializers exposes this package's (unexported) proto serializers/parsers and type URL
// to the harnesses of composite key types (keyderivation/prfbasedkeyderivation, hybrid/ecies), which
// dispatch to them exactly as the registry does after this package's init().
func VerifSerializers() (verifh.KeySer, verifh.KeyPar, verifh.ParSer, verifh.ParPar) {
	return &keySerializer{}, &keyParser{}, &parametersSerializer{}, &parametersParser{}
}

const VerifTypeURL = typeURL
