package aessiv

import (
	"github.com/tink-crypto/tink-go/v2/internal/internalapi"
	"github.com/tink-crypto/tink-go/v2/internal/verifh"
	"github.com/tink-crypto/tink-go/v2/internal/verifrt"
)

// C18 (sufficient condition): the key-level DAEAD (and the key object it was built from)
// is only read by EncryptDeterministically / DecryptDeterministically.
func VerifH_c18_aessiv() {
	verifrt.EngineOnly()
	k, _ := nwKey("key")
	d, err := NewDeterministicAEAD(k, internalapi.Token{})
	verifrt.Assert(err == nil, "NewDeterministicAEAD")
	verifrt.Freeze(k, "state shared between concurrent calls (AES-SIV key object)")
	maxPT := 2
	if verifrt.Thorough() {
		maxPT = 17
	}
	verifh.CheckDAEADShared(d, maxPT)
}
