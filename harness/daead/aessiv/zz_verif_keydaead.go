package aessiv

import (
	"github.com/tink-crypto/tink-go/v2/insecuresecretdataaccess"
	"github.com/tink-crypto/tink-go/v2/internal/internalapi"
	"github.com/tink-crypto/tink-go/v2/internal/verifrt"
	"github.com/tink-crypto/tink-go/v2/internal/verifspec"
	"github.com/tink-crypto/tink-go/v2/secretdata"
)

// The DAEAD built from an AES-SIV KEY OBJECT: ciphertext == output prefix || RFC 5297
// AES-SIV(key, ad, pt); decryption strips exactly the prefix and inverts; another prefix, and
// inputs shorter than the prefix, are rejected without a panic; only 64-byte keys give a
// primitive.
func VerifH_keydaead_aessiv() {
	kind := [...]int{0, 1, 3}[verifrt.Choice("variant", 3)]
	v := map[int]Variant{0: VariantTink, 1: VariantCrunchy, 3: VariantNoPrefix}[kind]
	id := verifrt.Uint32("id")
	if kind == 3 {
		id = 0
	}
	ks := [...]int{32, 48, 64}[verifrt.Choice("ks", 3)]
	params, err := NewParameters(ks, v)
	verifrt.Assert(err == nil, "NewParameters")
	kb := verifrt.Bytes("key", ks)
	k, err := NewKey(secretdata.NewBytesFromData(kb, insecuresecretdataaccess.Token{}), id, params)
	verifrt.Assert(err == nil, "NewKey")
	d, err := NewDeterministicAEAD(k, internalapi.Token{})
	verifrt.Assert((err == nil) == (ks == 64), "an AES-SIV primitive needs a 64-byte key")
	if err != nil {
		verifrt.Reach("refused")
		return
	}
	prefix := verifspec.Prefix(kind, id)
	pt := verifrt.Bytes("pt", verifrt.Choice("n", 3))
	ad := verifrt.Bytes("ad", verifrt.Choice("m", 2))
	ct, err := d.EncryptDeterministically(pt, ad)
	verifrt.Assert(err == nil, "EncryptDeterministically")
	raw := verifspec.SIVEncrypt(kb, ad, pt)
	verifrt.AssertEq(ct, append(append([]byte{}, prefix...), raw...), "ciphertext == output prefix || AES-SIV(key, ad, pt)")
	got, err := d.DecryptDeterministically(ct, ad)
	verifrt.Assert(err == nil, "decrypts its own output")
	verifrt.AssertEq(got, pt, "round trip")
	if len(prefix) > 0 {
		if verifrt.Choice("case", 2) == 0 {
			delta := verifrt.Bytes("pdelta", len(prefix))
			verifrt.Assume(!verifrt.EqBytes(delta, make([]byte, len(prefix))))
			_, err := d.DecryptDeterministically(append(verifspec.XorDelta(prefix, delta), raw...), ad)
			verifrt.Assert(err != nil, "an altered prefix is rejected")
		} else {
			_, err := d.DecryptDeterministically(ct[:verifrt.Choice("cut", len(prefix)+1)], ad)
			verifrt.Assert(err != nil, "inputs cut inside the prefix (or right after it) are rejected without a panic")
		}
	}
	verifrt.Reach("end")
}
