package aessiv

import (
	"github.com/tink-crypto/tink-go/v2/insecuresecretdataaccess"
	"github.com/tink-crypto/tink-go/v2/internal/internalapi"
	"github.com/tink-crypto/tink-go/v2/internal/verifh"
	"github.com/tink-crypto/tink-go/v2/internal/verifrt"
	"github.com/tink-crypto/tink-go/v2/secretdata"
)

func nwKey(name string) (*Key, []byte) {
	kind := verifrt.Choice("variant", 3)
	v := [...]Variant{VariantTink, VariantCrunchy, VariantNoPrefix}[kind]
	id := verifrt.Uint32("id")
	if kind == 2 {
		id = 0
	}
	params, err := NewParameters(64, v)
	verifrt.Assert(err == nil, "NewParameters")
	kb := verifrt.Bytes(name, 64)
	k, err := NewKey(secretdata.NewBytesFromData(kb, insecuresecretdataaccess.Token{}), id, params)
	verifrt.Assert(err == nil, "NewKey")
	return k, kb
}

// C19, key-level primitive (prefix layer + AES-SIV): neither direction writes into the
// caller's plaintext / associated data / ciphertext buffers or their spare capacity; the
// results are fresh memory (in particular not the primitive's stored output prefix).
func VerifH_c19_aessiv() {
	k, _ := nwKey("key")
	d, err := NewDeterministicAEAD(k, internalapi.Token{})
	verifrt.Assert(err == nil, "NewDeterministicAEAD")
	f := d.(*fullDAEAD)
	maxPT := 2
	if verifrt.Thorough() {
		maxPT = 17
	}
	verifh.CheckDAEADNoWrite(d, maxPT, f.outputPrefix, k.outputPrefix)
}

// C19, key object: NewKey keeps no caller memory, KeyBytes()/OutputPrefix() hand out
// copies, and none of the caller's later writes changes a primitive built before or
// after them.
func VerifH_c19_aessivkey() {
	tok := insecuresecretdataaccess.Token{}
	kind := verifrt.Choice("variant", 3)
	v := [...]Variant{VariantTink, VariantCrunchy, VariantNoPrefix}[kind]
	id := verifrt.Uint32("id")
	if kind == 2 {
		id = 0
	}
	ks := [...]int{32, 48, 64}[verifrt.Choice("ks", 3)]
	params, err := NewParameters(ks, v)
	verifrt.Assert(err == nil, "NewParameters")
	kb := verifh.BufWith("key", ks, verifh.SpareProfile("spare"), "caller key buffer")
	kb0 := append([]byte{}, kb...)
	k, err := NewKey(secretdata.NewBytesFromData(kb, tok), id, params)
	verifrt.Assert(err == nil, "NewKey")
	var before verifh.DAEAD
	if ks == 64 {
		before, err = NewDeterministicAEAD(k, internalapi.Token{})
		verifrt.Assert(err == nil, "NewDeterministicAEAD (before the mutations)")
	}
	verifh.CheckCtorClones("NewKey(keyBytes)", kb, func() []byte { return k.KeyBytes().Data(tok) }, nil)
	verifh.CheckAccessorsClone(
		verifh.Accessor{Name: "KeyBytes().Data", Get: func() []byte { return k.KeyBytes().Data(tok) }},
		verifh.Accessor{Name: "OutputPrefix", Get: k.OutputPrefix},
	)
	verifrt.Assert(len(k.OutputPrefix()) == [...]int{5, 5, 0}[kind], "prefix length")
	verifrt.Assert(!verifrt.SameArray(k.OutputPrefix(), k.outputPrefix), "OutputPrefix does not return the internal slice")
	ref, err := NewKey(secretdata.NewBytesFromData(kb0, tok), id, params)
	verifrt.Assert(err == nil && k.Equal(ref), "the key still equals a key made from the original bytes")
	if ks == 64 {
		// primitives built before / after the caller's writes agree with one built from an
		// untouched key
		after, err := NewDeterministicAEAD(k, internalapi.Token{})
		verifrt.Assert(err == nil, "NewDeterministicAEAD (after the mutations)")
		want, err := NewDeterministicAEAD(ref, internalapi.Token{})
		verifrt.Assert(err == nil, "NewDeterministicAEAD (reference)")
		pt, ad := verifrt.Bytes("pt", 1), verifrt.Bytes("ad", 1)
		c0, _ := want.EncryptDeterministically(pt, ad)
		c1, e1 := before.EncryptDeterministically(pt, ad)
		c2, e2 := after.EncryptDeterministically(pt, ad)
		verifrt.Assert(e1 == nil && e2 == nil, "encryption succeeds")
		verifrt.AssertEq(c1, c0, "primitive built before the mutations is unaffected")
		verifrt.AssertEq(c2, c0, "primitive built after the mutations is unaffected")
	}
	verifrt.Reach("end")
}
