package aessiv

import (
	"google.golang.org/protobuf/proto"

	"github.com/tink-crypto/tink-go/v2/insecuresecretdataaccess"
	"github.com/tink-crypto/tink-go/v2/internal/verifh"
	"github.com/tink-crypto/tink-go/v2/internal/verifrt"
	pb "github.com/tink-crypto/tink-go/v2/proto/aes_siv_go_proto"
	tinkpb "github.com/tink-crypto/tink-go/v2/proto/tink_go_proto"
)

// VerifH_parse_aessiv: keyParser.ParseKey on hostile field values.
//
// Documented validity of a AES-SIV key coming from a keyset (AesSivKey: version, key_value):
// version 0, key of 32, 48 or 64 bytes, SYMMETRIC material, own type URL,
// prefix type TINK/CRUNCHY/LEGACY/RAW, RAW => id requirement 0.
func VerifH_parse_aessiv() {
	h := verifh.NewHostile()
	version := verifrt.Uint32("version")
	n := h.Len("keylen", 64, 0, 1, 16, 31, 32, 33, 47, 48, 49, 63, 65, 128)
	kv := verifrt.Bytes("key", n)
	var value []byte
	if h.Shape("emptyvalue", 2) == 1 {
		// KeyData.value empty: the all-defaults message
		version, kv, n = 0, nil, 0
	} else {
		var err error
		value, err = proto.Marshal(&pb.AesSivKey{Version: version, KeyValue: kv})
		verifrt.Assert(err == nil, "marshal")
	}
	if !h.Wrap(typeURL, value) {
		return
	}
	k, err := (&keyParser{}).ParseKey(h.KS)
	valid := verifrt.And(h.EnvelopeValidKinds(tinkpb.KeyData_SYMMETRIC, 0b1111), verifrt.And(version == 0, n == 32 || n == 48 || n == 64))
	verifrt.Assert(verifrt.Implies(err == nil, valid), "accepted => version 0, key 32, 48 or 64 bytes, SYMMETRIC, own type URL, supported prefix type, RAW => id 0")
	verifrt.Assert(verifrt.Implies(valid, err == nil), "every valid AES-SIV key is accepted")
	if err != nil {
		verifrt.Reach("rejected")
		return
	}
	h.CheckParsedEnvelope(k)
	ak, ok := k.(*Key)
	verifrt.Assert(ok && ak != nil, "parsed key is *aessiv.Key")
	p := ak.Parameters().(*Parameters)
	verifrt.Assert(p.KeySizeInBytes() == n, "parameters: key size = len(key_value)")
	verifrt.Assert(p.Variant() == [...]Variant{VariantTink, VariantCrunchy, VariantCrunchy, VariantNoPrefix}[h.Kind()], "variant mirrors the prefix type")
	verifrt.AssertEq(ak.KeyBytes().Data(insecuresecretdataaccess.Token{}), kv, "key bytes are key_value")
	verifrt.AssertEq(ak.OutputPrefix(), h.WantPrefix(), "output prefix of (prefix type, id)")
	verifrt.Reach("accepted")
}

// VerifH_parse_aessiv_params: parametersParser.Parse on a hostile key template (AesSivKeyFormat: key_size, version).
func VerifH_parse_aessiv_params() {
	version := verifrt.Uint32("version")
	ks := verifrt.Uint32("keysize")
	value, err := proto.Marshal(&pb.AesSivKeyFormat{Version: version, KeySize: ks})
	verifrt.Assert(err == nil, "marshal")
	t, urlOK, prefix := verifh.HostileTemplate(typeURL, value)
	p, err := (&parametersParser{}).Parse(t)
	kind := verifh.KindOf(prefix)
	valid := verifrt.And(urlOK && kind >= 0, verifrt.And(version == 0, ks == 32 || ks == 48 || ks == 64))
	verifrt.Assert((err == nil) == valid, "template accepted <=> own type URL, version 0, key size 32/48/64, supported prefix type")
	if err != nil {
		verifrt.Reach("rejected")
		return
	}
	ap := p.(*Parameters)
	verifrt.Assert(ap.KeySizeInBytes() == int(ks), "parameters mirror the format")
	verifrt.Assert(ap.Variant() == [...]Variant{VariantTink, VariantCrunchy, VariantCrunchy, VariantNoPrefix}[kind], "variant mirrors the prefix type")
	verifrt.Assert(ap.HasIDRequirement() == (kind != 3), "id requirement iff not RAW")
	_, nerr := (&parametersParser{}).Parse(nil)
	verifrt.Assert(nerr != nil, "nil template rejected, no panic")
	verifrt.Reach("accepted")
}
