package keyderivation

import (
	"errors"

	"github.com/tink-crypto/tink-go/v2/internal/verifrt"
	"github.com/tink-crypto/tink-go/v2/keyset"
	prfderpb "github.com/tink-crypto/tink-go/v2/proto/prf_based_deriver_go_proto"
	tinkpb "github.com/tink-crypto/tink-go/v2/proto/tink_go_proto"
	"google.golang.org/protobuf/proto"
)

// C12, keyderivation/keyderivation_key_templates.go. The only template function is
// CreatePRFBasedKeyTemplate(prfKeyTemplate, derivedKeyTemplate): "creates a PRF-Based Deriver
// key template with the specified PRF and derived key templates. If either ... are not
// supported by the registry, an error is returned."
//
// Expected (written from the doc comment and the PrfBasedDeriverKeyFormat proto):
//   - type URL PrfBasedDeriverKey
//   - output prefix type = the one of the derived key template (the derived keys carry the
//     prefix; the PRF-based deriver parameter parser rejects a template where the two differ)
//   - key format: prf_key_template = the PRF template given, params.derived_key_template = the
//     derived key template given, field for field
//   - the template whose derivability is checked with keyset.NewHandle is the template
//     returned; when that check fails, an error and no template are returned
//
// keyset.NewHandle goes through the global registries, which are filled by init() functions
// the engine does not run; it is replaced by a recording stub (one choice makes it fail).
const ktPfx = "type.googleapis.com/google.crypto.tink."

func ktPRFTemplate(i int) *tinkpb.KeyTemplate {
	switch i {
	case 0: // HKDF-SHA256 PRF, 32-byte key, empty salt
		return &tinkpb.KeyTemplate{TypeUrl: ktPfx + "HkdfPrfKey", Value: []byte{0x0a, 0x02, 0x08, 0x03, 0x10, 0x20}, OutputPrefixType: tinkpb.OutputPrefixType_RAW}
	case 1: // HMAC-SHA512 PRF, 64-byte key
		return &tinkpb.KeyTemplate{TypeUrl: ktPfx + "HmacPrfKey", Value: []byte{0x0a, 0x02, 0x08, 0x04, 0x10, 0x40}, OutputPrefixType: tinkpb.OutputPrefixType_RAW}
	}
	// AES-CMAC PRF, 32-byte key
	return &tinkpb.KeyTemplate{TypeUrl: ktPfx + "AesCmacPrfKey", Value: []byte{0x10, 0x20}, OutputPrefixType: tinkpb.OutputPrefixType_RAW}
}

func ktDerivedTemplate(i int) *tinkpb.KeyTemplate {
	switch i {
	case 0:
		return &tinkpb.KeyTemplate{TypeUrl: ktPfx + "AesGcmKey", Value: []byte{0x10, 0x10}, OutputPrefixType: tinkpb.OutputPrefixType_TINK}
	case 1:
		return &tinkpb.KeyTemplate{TypeUrl: ktPfx + "AesGcmKey", Value: []byte{0x10, 0x20}, OutputPrefixType: tinkpb.OutputPrefixType_RAW}
	case 2:
		return &tinkpb.KeyTemplate{TypeUrl: ktPfx + "HmacKey", Value: []byte{0x0a, 0x04, 0x08, 0x03, 0x10, 0x10, 0x10, 0x20}, OutputPrefixType: tinkpb.OutputPrefixType_CRUNCHY}
	case 3:
		return &tinkpb.KeyTemplate{TypeUrl: ktPfx + "AesSivKey", Value: []byte{0x08, 0x40}, OutputPrefixType: tinkpb.OutputPrefixType_LEGACY}
	}
	return &tinkpb.KeyTemplate{TypeUrl: ktPfx + "XChaCha20Poly1305Key", OutputPrefixType: tinkpb.OutputPrefixType_TINK}
}

func ktSameTemplate(a, b *tinkpb.KeyTemplate) bool {
	return a != nil && b != nil && a.GetTypeUrl() == b.GetTypeUrl() && a.GetOutputPrefixType() == b.GetOutputPrefixType() && verifrt.EqBytes(a.GetValue(), b.GetValue())
}

func VerifH_templates_keyderivation() {
	verifrt.EngineOnly()
	prfT := ktPRFTemplate(verifrt.Choice("prf", 3))
	derT := ktDerivedTemplate(verifrt.Choice("derived", 5))
	fail := verifrt.Choice("registry", 2) == 1
	var checked []*tinkpb.KeyTemplate
	verifrt.Summarize("keyset.NewHandle", func(kt *tinkpb.KeyTemplate) (*keyset.Handle, error) {
		checked = append(checked, kt)
		if fail {
			return nil, errors.New("stub registry: template not supported")
		}
		return &keyset.Handle{}, nil
	})
	t, err := CreatePRFBasedKeyTemplate(prfT, derT)
	verifrt.Assert(len(checked) == 1, "derivability is checked exactly once")
	if fail {
		verifrt.Assert(err != nil && t == nil, "unsupported templates: error, no template")
		verifrt.Reach("end-rejected")
		return
	}
	verifrt.Assert(err == nil && t != nil, "supported templates: a template is returned")
	verifrt.Assert(checked[0] == t, "the template checked for derivability is the one returned")
	verifrt.Assert(t.GetTypeUrl() == ktPfx+"PrfBasedDeriverKey", "type URL PrfBasedDeriverKey")
	verifrt.Assert(t.GetOutputPrefixType() == derT.GetOutputPrefixType(), "output prefix type is the one of the derived key template")
	f := &prfderpb.PrfBasedDeriverKeyFormat{}
	verifrt.Assert(proto.Unmarshal(t.GetValue(), f) == nil, "key format parses")
	verifrt.Assert(f.GetParams() != nil, "params present")
	verifrt.Assert(ktSameTemplate(f.GetPrfKeyTemplate(), prfT), "PRF key template is the one given")
	verifrt.Assert(ktSameTemplate(f.GetParams().GetDerivedKeyTemplate(), derT), "derived key template is the one given")
	verifrt.Reach("end")
}
