package prfbasedkeyderivation

import (
	"crypto/sha256"
	"crypto/sha512"
	"hash"

	"github.com/tink-crypto/tink-go/v2/aead/aesgcm"
	"github.com/tink-crypto/tink-go/v2/insecuresecretdataaccess"
	"github.com/tink-crypto/tink-go/v2/internal/internalapi"
	"github.com/tink-crypto/tink-go/v2/internal/verifrt"
	"github.com/tink-crypto/tink-go/v2/internal/verifspec"
	"github.com/tink-crypto/tink-go/v2/keyderivation/internal/keyderivers"
	"github.com/tink-crypto/tink-go/v2/prf/hkdfprf"
	"github.com/tink-crypto/tink-go/v2/secretdata"
)

// The PRF-based key deriver built from a real key object derives
//   key material = leading bytes of HKDF-<hash of the PRF key>(PRF key, salt = the PRF key's
//                  salt, info = the caller's salt)   (RFC 5869)
// for both hash functions the deriver supports (SHA-256, SHA-512); PRF keys with another hash
// are refused. The derived key has the deriver key's derived-key parameters and id requirement.
func VerifH_prfbased_keyderiver() {
	keyderivers.VerifInit()
	hi := verifrt.Choice("hash", 5)
	ht := [...]hkdfprf.HashType{hkdfprf.SHA1, hkdfprf.SHA224, hkdfprf.SHA256, hkdfprf.SHA384, hkdfprf.SHA512}[hi]
	var h func() hash.Hash
	switch ht {
	case hkdfprf.SHA256:
		h = sha256.New
	case hkdfprf.SHA512:
		h = sha512.New
	}
	prfSalt := verifrt.Bytes("prfsalt", verifrt.Choice("psl", 3))
	prfParams, err := hkdfprf.NewParameters(32, ht, prfSalt)
	verifrt.Assert(err == nil, "hkdfprf.NewParameters")
	kb := verifrt.Bytes("key", 32)
	prfKey, err := hkdfprf.NewKey(secretdata.NewBytesFromData(kb, insecuresecretdataaccess.Token{}), prfParams)
	verifrt.Assert(err == nil, "hkdfprf.NewKey")
	size := [...]int{16, 32}[verifrt.Choice("ks", 2)]
	tinkVariant := verifrt.Choice("variant", 2) == 0
	variant := aesgcm.VariantNoPrefix
	id := uint32(0)
	if tinkVariant {
		variant = aesgcm.VariantTink
		id = verifrt.Uint32("id")
	}
	derived, err := aesgcm.NewParameters(aesgcm.ParametersOpts{KeySizeInBytes: size, IVSizeInBytes: 12, TagSizeInBytes: 16, Variant: variant})
	verifrt.Assert(err == nil, "aesgcm.NewParameters")
	params, err := NewParameters(prfParams, derived)
	verifrt.Assert(err == nil, "prfbasedkeyderivation.NewParameters")
	dk, err := NewKey(params, prfKey, id)
	verifrt.Assert(err == nil && dk != nil, "prfbasedkeyderivation.NewKey")
	if err != nil {
		return
	}
	kd, err := NewKeyDeriver(dk, internalapi.Token{})
	if h == nil {
		verifrt.Assert(err != nil, "PRF keys with a hash other than SHA-256 / SHA-512 are refused")
		verifrt.Reach("refused")
		return
	}
	verifrt.Assert(err == nil && kd != nil, "NewKeyDeriver accepts HKDF-SHA256 / HKDF-SHA512 PRF keys")
	if err != nil {
		return
	}
	salt := verifrt.Bytes("salt", verifrt.Choice("sl", 3))
	out, err := kd.DeriveKey(salt)
	verifrt.Assert(err == nil && out != nil, "DeriveKey succeeds")
	if err != nil {
		return
	}
	ak, ok := out.(*aesgcm.Key)
	verifrt.Assert(ok, "the derived key is an AES-GCM key")
	verifrt.AssertEq(ak.KeyBytes().Data(insecuresecretdataaccess.Token{}), verifspec.HKDF(h, kb, prfSalt, salt, size), "derived key material == HKDF-<PRF key's hash>(PRF key, PRF key's salt, info = caller's salt)[:key size]")
	verifrt.Assert(ak.Parameters().Equal(derived), "derived key has the derived-key parameters")
	gotID, req := ak.IDRequirement()
	verifrt.Assert(req == tinkVariant && gotID == id, "derived key carries the deriver key's id requirement")
	// deterministic
	out2, err := kd.DeriveKey(salt)
	verifrt.Assert(err == nil && out2.Equal(out), "a second derivation with the same salt gives an equal key")
	verifrt.Reach("end")
}
