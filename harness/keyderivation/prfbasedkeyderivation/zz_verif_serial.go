package prfbasedkeyderivation

import (
	"github.com/tink-crypto/tink-go/v2/aead/aesgcm"
	"github.com/tink-crypto/tink-go/v2/daead/aessiv"
	"github.com/tink-crypto/tink-go/v2/insecuresecretdataaccess"
	"github.com/tink-crypto/tink-go/v2/internal/protoserialization"
	"github.com/tink-crypto/tink-go/v2/internal/verifh"
	"github.com/tink-crypto/tink-go/v2/internal/verifrt"
	"github.com/tink-crypto/tink-go/v2/key"
	"github.com/tink-crypto/tink-go/v2/mac/hmac"
	"github.com/tink-crypto/tink-go/v2/prf/aescmacprf"
	"github.com/tink-crypto/tink-go/v2/prf/hkdfprf"
	"github.com/tink-crypto/tink-go/v2/prf/hmacprf"
	tinkpb "github.com/tink-crypto/tink-go/v2/proto/tink_go_proto"
	"github.com/tink-crypto/tink-go/v2/secretdata"
)

// The global serialization registry is a sync.Map filled by the packages' init() functions;
// the engine executes neither. It is replaced (verifrt.Summarize) by the dispatch below, which
// is the registry's content after the init() of the six packages involved: key type /
// parameters type -> that package's serializer, type URL -> that package's parser. Natively
// (replays) the real registry runs.
type regEntry struct {
	url string
	ks  verifh.KeySer
	kp  verifh.KeyPar
	ps  verifh.ParSer
	pp  verifh.ParPar
}

func mkEntry(url string, f func() (verifh.KeySer, verifh.KeyPar, verifh.ParSer, verifh.ParPar)) regEntry {
	ks, kp, ps, pp := f()
	return regEntry{url, ks, kp, ps, pp}
}

func regTable() []regEntry {
	return []regEntry{
		mkEntry(hkdfprf.VerifTypeURL, hkdfprf.VerifSerializers),
		mkEntry(hmacprf.VerifTypeURL, hmacprf.VerifSerializers),
		mkEntry(aescmacprf.VerifTypeURL, aescmacprf.VerifSerializers),
		mkEntry(aesgcm.VerifTypeURL, aesgcm.VerifSerializers),
		mkEntry(aessiv.VerifTypeURL, aessiv.VerifSerializers),
		mkEntry(hmac.VerifTypeURL, hmac.VerifSerializers),
	}
}

func regByURL(url string) (regEntry, bool) {
	for _, e := range regTable() {
		if e.url == url {
			return e, true
		}
	}
	return regEntry{}, false
}

func regSerializeKey(k key.Key) (*protoserialization.KeySerialization, error) {
	t := regTable()
	switch k.(type) {
	case *hkdfprf.Key:
		return t[0].ks.SerializeKey(k)
	case *hmacprf.Key:
		return t[1].ks.SerializeKey(k)
	case *aescmacprf.Key:
		return t[2].ks.SerializeKey(k)
	case *aesgcm.Key:
		return t[3].ks.SerializeKey(k)
	case *aessiv.Key:
		return t[4].ks.SerializeKey(k)
	case *hmac.Key:
		return t[5].ks.SerializeKey(k)
	}
	panic("harness registry: unexpected key type")
}

func regSerializeParameters(p key.Parameters) (*tinkpb.KeyTemplate, error) {
	t := regTable()
	switch p.(type) {
	case *hkdfprf.Parameters:
		return t[0].ps.Serialize(p)
	case *hmacprf.Parameters:
		return t[1].ps.Serialize(p)
	case *aescmacprf.Parameters:
		return t[2].ps.Serialize(p)
	case *aesgcm.Parameters:
		return t[3].ps.Serialize(p)
	case *aessiv.Parameters:
		return t[4].ps.Serialize(p)
	case *hmac.Parameters:
		return t[5].ps.Serialize(p)
	}
	panic("harness registry: unexpected parameters type")
}

func regParseKey(s *protoserialization.KeySerialization) (key.Key, error) {
	e, ok := regByURL(s.KeyData().GetTypeUrl())
	if !ok {
		panic("harness registry: unexpected key type URL")
	}
	return e.kp.ParseKey(s)
}

func regParseParameters(t *tinkpb.KeyTemplate) (key.Parameters, error) {
	e, ok := regByURL(t.GetTypeUrl())
	if !ok {
		panic("harness registry: unexpected template type URL")
	}
	return e.pp.Parse(t)
}

func stubRegistry() {
	verifrt.Summarize("internal/protoserialization.SerializeKey", regSerializeKey)
	verifrt.Summarize("internal/protoserialization.ParseKey", regParseKey)
	verifrt.Summarize("internal/protoserialization.SerializeParameters", regSerializeParameters)
	verifrt.Summarize("internal/protoserialization.ParseParameters", regParseParameters)
}

func sd(name string, n int) secretdata.Bytes {
	return secretdata.NewBytesFromData(verifrt.Bytes(name, n), insecuresecretdataaccess.Token{})
}

// serialPRF: HKDF-PRF (5 hashes x key size {16,32} x salt {nil, 8 symbolic bytes}),
// HMAC-PRF (5 hashes x key size {16,32}), AES-CMAC-PRF (key size {16,32}); symbolic key bytes.
func serialPRF() (key.Parameters, key.Key) {
	ks := [...]int{16, 32}[verifrt.Choice("prfks", 2)]
	switch verifrt.Choice("prf", 3) {
	case 0:
		ht := [...]hkdfprf.HashType{hkdfprf.SHA1, hkdfprf.SHA224, hkdfprf.SHA256, hkdfprf.SHA384, hkdfprf.SHA512}[verifrt.Choice("hkdfhash", 5)]
		var salt []byte
		if verifrt.Choice("salt", 2) == 1 {
			salt = verifrt.Bytes("saltbytes", 8)
		}
		p, err := hkdfprf.NewParameters(ks, ht, salt)
		verifrt.Assert(err == nil, "hkdfprf.NewParameters")
		k, err := hkdfprf.NewKey(sd("prfkey", ks), p)
		verifrt.Assert(err == nil, "hkdfprf.NewKey")
		return p, k
	case 1:
		ht := [...]hmacprf.HashType{hmacprf.SHA1, hmacprf.SHA224, hmacprf.SHA256, hmacprf.SHA384, hmacprf.SHA512}[verifrt.Choice("hmachash", 5)]
		p, err := hmacprf.NewParameters(ks, ht)
		verifrt.Assert(err == nil, "hmacprf.NewParameters")
		k, err := hmacprf.NewKey(sd("prfkey", ks), p)
		verifrt.Assert(err == nil, "hmacprf.NewKey")
		return p, k
	}
	p, err := aescmacprf.NewParameters(ks)
	verifrt.Assert(err == nil, "aescmacprf.NewParameters")
	k, err := aescmacprf.NewKey(sd("prfkey", ks))
	verifrt.Assert(err == nil, "aescmacprf.NewKey")
	return &p, k
}

// serialDerived: derived-key parameters AES-GCM (key size {16,32} x TINK/CRUNCHY/NO_PREFIX),
// AES-SIV (key size {32,48,64} x TINK/CRUNCHY/NO_PREFIX), HMAC-SHA256/32/16 (TINK/CRUNCHY/
// LEGACY/NO_PREFIX). Returns the parameters and the prefix kind (0 TINK,1 CRUNCHY,2 LEGACY,3 RAW).
func serialDerived() (key.Parameters, int) {
	switch verifrt.Choice("derived", 3) {
	case 0:
		kind := verifrt.Choice("gcmvariant", 3)
		v := [...]aesgcm.Variant{aesgcm.VariantTink, aesgcm.VariantCrunchy, aesgcm.VariantNoPrefix}[kind]
		p, err := aesgcm.NewParameters(aesgcm.ParametersOpts{KeySizeInBytes: [...]int{16, 32}[verifrt.Choice("gcmks", 2)], IVSizeInBytes: 12, TagSizeInBytes: 16, Variant: v})
		verifrt.Assert(err == nil, "aesgcm.NewParameters")
		return p, [...]int{0, 1, 3}[kind]
	case 1:
		kind := verifrt.Choice("sivvariant", 3)
		v := [...]aessiv.Variant{aessiv.VariantTink, aessiv.VariantCrunchy, aessiv.VariantNoPrefix}[kind]
		p, err := aessiv.NewParameters([...]int{32, 48, 64}[verifrt.Choice("sivks", 3)], v)
		verifrt.Assert(err == nil, "aessiv.NewParameters")
		return p, [...]int{0, 1, 3}[kind]
	}
	kind := verifrt.Choice("hmacvariant", 4)
	v := [...]hmac.Variant{hmac.VariantTink, hmac.VariantCrunchy, hmac.VariantLegacy, hmac.VariantNoPrefix}[kind]
	p, err := hmac.NewParameters(hmac.ParametersOpts{KeySizeInBytes: 32, TagSizeInBytes: 16, HashType: hmac.SHA256, Variant: v})
	verifrt.Assert(err == nil, "hmac.NewParameters")
	return p, kind
}

func VerifH_serial_prfbasedkeyderivation() {
	stubRegistry()
	prfParams, prfKey := serialPRF()
	derived, kind := serialDerived()
	params, err := NewParameters(prfParams, derived)
	verifrt.Assert(err == nil, "NewParameters")
	verifrt.Assert(params.HasIDRequirement() == (kind != 3), "id requirement follows the derived key's parameters")
	id := verifrt.Uint32("id")
	if kind == 3 {
		id = 0
	}
	k, err := NewKey(params, prfKey, id)
	verifrt.Assert(err == nil, "NewKey")
	verifh.CheckKeyRoundTrip(k, &keySerializer{}, &keyParser{}, &parametersSerializer{}, &parametersParser{}, kind, id, typeURL, tinkpb.KeyData_SYMMETRIC)
}
