package keyderivation

import (
	"crypto/sha256"

	"github.com/tink-crypto/tink-go/v2/aead/aesgcm"
	"github.com/tink-crypto/tink-go/v2/insecuresecretdataaccess"
	"github.com/tink-crypto/tink-go/v2/internal/internalapi"
	"github.com/tink-crypto/tink-go/v2/internal/verifh"
	"github.com/tink-crypto/tink-go/v2/internal/verifrt"
	"github.com/tink-crypto/tink-go/v2/internal/verifspec"
	"github.com/tink-crypto/tink-go/v2/key"
	"github.com/tink-crypto/tink-go/v2/keyderivation/internal/keyderivers"
	"github.com/tink-crypto/tink-go/v2/keyderivation/prfbasedkeyderivation"
	"github.com/tink-crypto/tink-go/v2/keyset"
	"github.com/tink-crypto/tink-go/v2/mac/hmac"
	"github.com/tink-crypto/tink-go/v2/prf/hkdfprf"
	"github.com/tink-crypto/tink-go/v2/secretdata"
)

// realDeriverConfig hands out the real PRF-based key deriver (what the registry does for a
// prfbasedkeyderivation.Key).
type realDeriverConfig struct{}

func (realDeriverConfig) PrimitiveFromKey(k key.Key, _ internalapi.Token) (any, error) {
	return prfbasedkeyderivation.NewKeyDeriver(k.(*prfbasedkeyderivation.Key), internalapi.Token{})
}

func derivedKeyBytes(h *keyset.Handle, i int) []byte {
	e, err := h.Entry(i)
	verifrt.Assert(err == nil, "derived entry")
	tok := insecuresecretdataaccess.Token{}
	switch k := e.Key().(type) {
	case *aesgcm.Key:
		return k.KeyBytes().Data(tok)
	case *hmac.Key:
		return k.KeyBytes().Data(tok)
	}
	verifrt.Assert(false, "unexpected derived key type")
	return nil
}

// C19 for keyset derivation through the real wrapper, the real PRF-based deriver (HKDF
// streaming PRF) and the real per-type key derivers, on a keyset of two deriver keys (AES-GCM
// and HMAC derived keys, TINK / RAW): DeriveKeyset(salt) does not write into the caller's
// salt buffer or its spare capacity; a caller that overwrites the salt afterwards changes
// neither the handle already derived (its key material stays HKDF(prfKey, prfSalt, info =
// original salt)) nor later derivations; the derived key material shares no memory with the
// salt.
func VerifH_c19_keysetderiver() {
	tok := insecuresecretdataaccess.Token{}
	keyderivers.VerifRegisterDerivers()
	prfSalt := verifrt.Bytes("prfsalt", verifrt.Choice("psl", 2))
	prfParams, err := hkdfprf.NewParameters(32, hkdfprf.SHA256, prfSalt)
	verifrt.Assert(err == nil, "hkdfprf.NewParameters")
	m := keyset.NewManager()
	var prfKeys [2][]byte
	var sizes [2]int
	for i := 0; i < 2; i++ {
		prfKeys[i] = verifrt.Bytes([...]string{"prfkey0", "prfkey1"}[i], 32)
		prfKey, err := hkdfprf.NewKey(secretdata.NewBytesFromData(prfKeys[i], tok), prfParams)
		verifrt.Assert(err == nil, "hkdfprf.NewKey")
		var derived key.Parameters
		raw := verifrt.Choice([...]string{"raw0", "raw1"}[i], 2) == 1
		if i == 0 {
			v := aesgcm.VariantTink
			if raw {
				v = aesgcm.VariantNoPrefix
			}
			derived, err = aesgcm.NewParameters(aesgcm.ParametersOpts{KeySizeInBytes: 16, IVSizeInBytes: 12, TagSizeInBytes: 16, Variant: v})
			sizes[i] = 16
		} else {
			v := hmac.VariantTink
			if raw {
				v = hmac.VariantNoPrefix
			}
			derived, err = hmac.NewParameters(hmac.ParametersOpts{KeySizeInBytes: 33, TagSizeInBytes: 16, HashType: hmac.SHA256, Variant: v})
			sizes[i] = 33
		}
		verifrt.Assert(err == nil, "derived key parameters")
		params, err := prfbasedkeyderivation.NewParameters(prfParams, derived)
		verifrt.Assert(err == nil, "prfbasedkeyderivation.NewParameters")
		id := uint32(0x01020304 + i)
		req := id
		if raw {
			req = 0
		}
		dk, err := prfbasedkeyderivation.NewKey(params, prfKey, req)
		verifrt.Assert(err == nil, "prfbasedkeyderivation.NewKey")
		_, err = m.AddKeyWithOpts(dk, internalapi.Token{}, keyset.WithFixedID(id))
		verifrt.Assert(err == nil, "manager accepts the deriver key")
	}
	verifrt.Assert(m.SetPrimary(0x01020304) == nil, "SetPrimary")
	h, err := m.Handle()
	verifrt.Assert(err == nil, "Handle")
	d, err := NewWithConfig(h, realDeriverConfig{})
	verifrt.Assert(err == nil, "NewWithConfig")

	salt := verifh.Buf("salt", verifrt.Choice("sn", 3), "caller salt buffer")
	salt0 := append([]byte{}, salt...)
	h1, err := d.DeriveKeyset(salt)
	verifrt.Assert(err == nil && h1.Len() == 2, "DeriveKeyset succeeds")
	verifrt.CheckProtected()
	var first [2][]byte
	for i := 0; i < 2; i++ {
		first[i] = derivedKeyBytes(h1, i)
		verifrt.AssertEq(first[i], verifspec.HKDF(sha256.New, prfKeys[i], prfSalt, salt0, sizes[i]), "derived key material == HKDF(prf key, prf salt, info = salt)")
	}
	// the caller reuses its salt buffer
	verifh.Unprotect(salt)
	verifh.Scribble(salt)
	for i := 0; i < 2; i++ {
		verifrt.AssertEq(derivedKeyBytes(h1, i), first[i], "overwriting the salt afterwards does not change the derived handle")
	}
	h2, err := d.DeriveKeyset(salt0)
	verifrt.Assert(err == nil && h2.Len() == 2, "second DeriveKeyset succeeds")
	for i := 0; i < 2; i++ {
		verifrt.AssertEq(derivedKeyBytes(h2, i), first[i], "a later derivation with the original salt gives the same keys")
		e1, _ := h1.Entry(i)
		e2, _ := h2.Entry(i)
		verifrt.Assert(e1.Key().Equal(e2.Key()) && e1.KeyID() == e2.KeyID() && e1.IsPrimary() == e2.IsPrimary(), "equal handles")
	}
	verifrt.Reach("end")
}
