package streamingprf

import (
	"crypto/sha256"
	"crypto/sha512"
	"hash"
	"io"

	"github.com/tink-crypto/tink-go/v2/internal/verifrt"
	"github.com/tink-crypto/tink-go/v2/internal/verifspec"
)

// The streaming PRF is HKDF (RFC 5869) keyed with the PRF key and the key's salt, with the
// caller's input as the info string; sequential reads concatenate to that stream.
func VerifH_sprf_hkdf() {
	name, hf, size := "SHA256", sha256.New, 32
	var h func() hash.Hash = hf
	if verifrt.Choice("hash", 2) == 1 {
		name, h, size = "SHA512", sha512.New, 64
	}
	key := verifrt.Bytes("key", 32)
	keySalt := verifrt.Bytes("keysalt", verifrt.Choice("ksl", 3))
	data := verifrt.Bytes("data", verifrt.Choice("dl", 3))
	p, err := NewHKDFStreamingPRF(name, key, keySalt)
	verifrt.Assert(err == nil, "NewHKDFStreamingPRF accepts SHA-256/512 with 32-byte keys")
	r, err := p.Compute(data)
	verifrt.Assert(err == nil, "Compute succeeds")
	n1 := [...]int{0, 1, 16, size}[verifrt.Choice("n1", 4)]
	n2 := [...]int{1, 16, size + 1}[verifrt.Choice("n2", 3)]
	a := make([]byte, n1)
	b := make([]byte, n2)
	_, e1 := io.ReadFull(r, a)
	_, e2 := io.ReadFull(r, b)
	verifrt.Assert(e1 == nil && e2 == nil, "reads succeed")
	verifrt.AssertEq(append(a, b...), verifspec.HKDF(h, key, keySalt, data, n1+n2), "stream == HKDF(hash, key, salt = key's salt, info = input), independent of the read partition")
	_, err = NewHKDFStreamingPRF("SHA1", key, keySalt)
	_, err2 := NewHKDFStreamingPRF(name, verifrt.Bytes("short", 31), keySalt)
	verifrt.Assert(err != nil && err2 != nil, "other hashes and keys shorter than 32 bytes are refused")
	verifrt.Reach("end")
}
