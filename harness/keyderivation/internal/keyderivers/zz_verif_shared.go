package keyderivers

import (
	"github.com/tink-crypto/tink-go/v2/aead/aesgcm"
	"github.com/tink-crypto/tink-go/v2/aead/xchacha20poly1305"
	"github.com/tink-crypto/tink-go/v2/daead/aessiv"
	"github.com/tink-crypto/tink-go/v2/insecuresecretdataaccess"
	"github.com/tink-crypto/tink-go/v2/internal/verifrt"
	"github.com/tink-crypto/tink-go/v2/key"
	"github.com/tink-crypto/tink-go/v2/mac/hmac"
)

// The key-deriver table is process-wide state shared by every KeysetDeriver: a derivation
// only READS it (and everything else that existed before the call) - in particular no
// deriver keeps a scratch buffer across calls. Everything allocated before FreezeAll is
// read-only for the two derivations that follow.
func VerifH_c18_keyderivers() {
	verifrt.EngineOnly()
	VerifRegisterDerivers()
	var params key.Parameters
	size := 0
	switch verifrt.Choice("type", 4) {
	case 0:
		size = 16
		p, _ := aesgcm.NewParameters(aesgcm.ParametersOpts{KeySizeInBytes: size, IVSizeInBytes: 12, TagSizeInBytes: 16, Variant: aesgcm.VariantNoPrefix})
		params = p
	case 1:
		size = 32
		p, _ := xchacha20poly1305.NewParameters(xchacha20poly1305.VariantNoPrefix)
		params = p
	case 2:
		size = 64
		p, _ := aessiv.NewParameters(size, aessiv.VariantNoPrefix)
		params = p
	default:
		size = 20
		p, _ := hmac.NewParameters(hmac.ParametersOpts{KeySizeInBytes: size, TagSizeInBytes: 16, HashType: hmac.SHA256, Variant: hmac.VariantNoPrefix})
		params = p
	}
	d1, d2 := verifrt.Bytes("stream1", size), verifrt.Bytes("stream2", size)
	verifrt.FreezeAll("state shared between derivations (must only be read)")
	k1, err1 := DeriveKey(params, 0, &stream{data: d1, step: 1000}, insecuresecretdataaccess.Token{})
	k2, err2 := DeriveKey(params, 0, &stream{data: d2, step: 1000}, insecuresecretdataaccess.Token{})
	verifrt.Assert(err1 == nil && err2 == nil && k1 != nil && k2 != nil, "both derivations succeed")
	verifrt.Reach("end")
}
