package keyderivers

import (
	"io"

	"github.com/tink-crypto/tink-go/v2/aead/aesgcm"
	"github.com/tink-crypto/tink-go/v2/aead/xchacha20poly1305"
	"github.com/tink-crypto/tink-go/v2/insecuresecretdataaccess"
	"github.com/tink-crypto/tink-go/v2/internal/verifrt"
	"github.com/tink-crypto/tink-go/v2/key"
	"github.com/tink-crypto/tink-go/v2/mac/hmac"
)

// stream is a pseudorandom stream of n symbolic bytes served with short reads.
type stream struct {
	data []byte
	pos  int
	step int
}

func (s *stream) Read(p []byte) (int, error) {
	if s.pos >= len(s.data) {
		return 0, io.EOF
	}
	n := min(len(p), s.step, len(s.data)-s.pos)
	copy(p, s.data[s.pos:s.pos+n])
	s.pos += n
	return n, nil
}

// Derived key material == the leading KeySize bytes of the stream, read sequentially; a
// stream that is too short is an error; the ID requirement is passed through.
func VerifH_keyderivers() {
	addAESGCMKeyDeriver()
	addXChaCha20Poly1305KeyDeriver()
	addHMACKeyDeriver()
	id := verifrt.Uint32("id")
	var params key.Parameters
	size := 0
	which := verifrt.Choice("type", 3)
	switch which {
	case 0:
		size = [...]int{16, 32}[verifrt.Choice("ks", 2)]
		p, err := aesgcm.NewParameters(aesgcm.ParametersOpts{KeySizeInBytes: size, IVSizeInBytes: 12, TagSizeInBytes: 16, Variant: aesgcm.VariantTink})
		verifrt.Assert(err == nil, "aesgcm parameters")
		params = p
	case 1:
		size = 32
		p, err := xchacha20poly1305.NewParameters(xchacha20poly1305.VariantTink)
		verifrt.Assert(err == nil, "xchacha parameters")
		params = p
	default:
		size = 16 + verifrt.Choice("ks", 3)
		p, err := hmac.NewParameters(hmac.ParametersOpts{KeySizeInBytes: size, TagSizeInBytes: 16, HashType: hmac.SHA256, Variant: hmac.VariantTink})
		verifrt.Assert(err == nil, "hmac parameters")
		params = p
	}
	avail := size - 1 + verifrt.Choice("avail", 3) // one byte short, exact, one extra
	s := &stream{data: verifrt.Bytes("stream", avail), step: [...]int{1, 7, 1000}[verifrt.Choice("step", 3)]}
	k, err := DeriveKey(params, id, s, insecuresecretdataaccess.Token{})
	verifrt.Assert((err == nil) == (avail >= size), "derivation fails iff the stream is shorter than the key")
	if err != nil {
		verifrt.Reach("short")
		return
	}
	gotID, req := k.IDRequirement()
	verifrt.Assert(req && gotID == id, "derived key carries the requested ID requirement")
	var kb []byte
	switch kk := k.(type) {
	case *aesgcm.Key:
		kb = kk.KeyBytes().Data(insecuresecretdataaccess.Token{})
	case *xchacha20poly1305.Key:
		kb = kk.KeyBytes().Data(insecuresecretdataaccess.Token{})
	case *hmac.Key:
		kb = kk.KeyBytes().Data(insecuresecretdataaccess.Token{})
	}
	verifrt.AssertEq(kb, s.data[:size], "key material == leading bytes of the stream")
	verifrt.Assert(k.Parameters().Equal(params), "derived key has the requested parameters")
	verifrt.Reach("end")
}
