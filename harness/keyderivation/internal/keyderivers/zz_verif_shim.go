package keyderivers

import "github.com/tink-crypto/tink-go/v2/internal/verifrt"

// VerifInit registers the key derivers the harnesses of other packages need: the engine
// does not execute init() functions. Natively init() has already done it.
func VerifInit() {
	if verifrt.Symbolic() {
		addAESGCMKeyDeriver()
		addXChaCha20Poly1305KeyDeriver()
		addHMACKeyDeriver()
	}
}
