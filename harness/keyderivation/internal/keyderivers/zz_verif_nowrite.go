package keyderivers

// VerifRegisterDerivers fills the key-deriver table the way this package's init() does (the
// engine does not run init functions); used by the keyderivation C19 harness.
func VerifRegisterDerivers() {
	addAESGCMKeyDeriver()
	addXChaCha20Poly1305KeyDeriver()
	addAESSIVKeyDeriver()
	addHMACKeyDeriver()
}
