package keyderivation

import (
	"github.com/tink-crypto/tink-go/v2/internal/internalapi"
	"github.com/tink-crypto/tink-go/v2/internal/protoserialization"
	"github.com/tink-crypto/tink-go/v2/internal/registryconfig/legacyprimitive"
	"github.com/tink-crypto/tink-go/v2/internal/verifh"
	"github.com/tink-crypto/tink-go/v2/internal/verifrt"
	"github.com/tink-crypto/tink-go/v2/key"
	"github.com/tink-crypto/tink-go/v2/keyset"
	tinkpb "github.com/tink-crypto/tink-go/v2/proto/tink_go_proto"
)

// dKey is a derived key: it remembers which deriver key and which salt produced it.
type dKey struct {
	from int
	salt []byte
	kind int // prefix kind 0..3
	id   uint32
}

type dParams struct{ req bool }

func (p *dParams) HasIDRequirement() bool      { return p.req }
func (p *dParams) Equal(o key.Parameters) bool { q, ok := o.(*dParams); return ok && q.req == p.req }

func (k *dKey) Parameters() key.Parameters    { return &dParams{req: k.kind != 3} }
func (k *dKey) IDRequirement() (uint32, bool) { return k.id, k.kind != 3 }
func (k *dKey) Equal(o key.Key) bool {
	q, ok := o.(*dKey)
	return ok && q.from == k.from && q.kind == k.kind && q.id == k.id && verifrt.EqBytes(q.salt, k.salt)
}

// idealDeriver: a full deriver hands out keys with its key's prefix kind and id requirement;
// a legacy (raw) one hands out RAW keys and relies on the factory's wrapper.
type idealDeriver struct {
	k    *verifh.FKey
	full bool
}

func (d *idealDeriver) DeriveKey(salt []byte) (key.Key, error) {
	out := &dKey{from: d.k.Idx, salt: append([]byte{}, salt...), kind: 3}
	if d.full {
		out.kind = d.k.Kind
		if d.k.Kind != 3 {
			out.id = d.k.ID
		}
	}
	return out, nil
}

type stubConfig struct{}

func (stubConfig) PrimitiveFromKey(k key.Key, _ internalapi.Token) (any, error) {
	fk := k.(*verifh.FKey)
	if fk.Legacy {
		return legacyprimitive.New(&idealDeriver{k: fk, full: false}), nil
	}
	return &idealDeriver{k: fk, full: true}, nil
}

type dkeySerializer struct{}

func (dkeySerializer) SerializeKey(k key.Key) (*protoserialization.KeySerialization, error) {
	return serializeStubKey(k)
}

type dkeyParser struct{}

func (dkeyParser) ParseKey(s *protoserialization.KeySerialization) (key.Key, error) {
	return parseStubKey(s)
}

var dkeyRegistered bool

func stubDerivedKeySerialization() {
	// the registry-backed (de)serialization, for FKey (deriver keys) and dKey (derived keys)
	verifrt.Summarize("internal/protoserialization.SerializeKey", serializeStubKey)
	verifrt.Summarize("internal/protoserialization.ParseKey", parseStubKey)
	if !verifrt.Symbolic() && !dkeyRegistered {
		// natively the same stubs are registered with the real registry
		dkeyRegistered = true
		protoserialization.RegisterKeySerializer[*dKey](dkeySerializer{})
		protoserialization.RegisterKeyParser("type.googleapis.com/stub.Derived", dkeyParser{})
	}
}

func serializeStubKey(k key.Key) (*protoserialization.KeySerialization, error) {
	{
		switch kk := k.(type) {
		case *verifh.FKey:
			req, _ := kk.IDRequirement()
			return protoserialization.NewKeySerialization(&tinkpb.KeyData{TypeUrl: "type.googleapis.com/stub.Deriver", KeyMaterialType: tinkpb.KeyData_SYMMETRIC}, verifh.PrefixTypeOf(kk.Kind), req)
		case *dKey:
			val := append([]byte{byte(kk.from)}, kk.salt...)
			return protoserialization.NewKeySerialization(&tinkpb.KeyData{TypeUrl: "type.googleapis.com/stub.Derived", Value: val, KeyMaterialType: tinkpb.KeyData_SYMMETRIC}, verifh.PrefixTypeOf(kk.kind), kk.id)
		}
		panic("unexpected key type")
	}
}

func parseStubKey(s *protoserialization.KeySerialization) (key.Key, error) {
	{
		id, _ := s.IDRequirement()
		kind := 3
		switch s.OutputPrefixType() {
		case tinkpb.OutputPrefixType_TINK:
			kind = 0
		case tinkpb.OutputPrefixType_CRUNCHY:
			kind = 1
		case tinkpb.OutputPrefixType_LEGACY:
			kind = 2
		}
		v := s.KeyData().GetValue()
		return &dKey{from: int(v[0]), salt: append([]byte{}, v[1:]...), kind: kind, id: id}, nil
	}
}

func VerifH_deriver_keyset() {
	max := 2
	if verifrt.Thorough() {
		max = 3
	}
	ks := verifh.SymbolicKeyset(max, []int{0, 1, 2, 3}, true)
	stubDerivedKeySerialization()
	d, err := NewWithConfig(ks.Handle, stubConfig{})
	verifrt.Assert(err == nil, "NewWithConfig succeeds")
	salt := verifrt.Bytes("salt", verifrt.Choice("sn", 3))
	h, err := d.DeriveKeyset(salt)
	verifrt.Assert(err == nil, "DeriveKeyset succeeds")
	// one ENABLED derived key per ENABLED deriver key, same id, same order, primary mirrored
	var enabled []int
	for i := range ks.Keys {
		if ks.Enabled(i) {
			enabled = append(enabled, i)
		}
	}
	verifrt.Assert(h.Len() == len(enabled), "one derived key per ENABLED deriver key")
	for j, i := range enabled {
		if j >= h.Len() {
			break
		}
		e, _ := h.Entry(j)
		fk := ks.Keys[i]
		verifrt.Assert(e.KeyID() == fk.ID, "derived key keeps the deriver key's id, in keyset order")
		verifrt.Assert(e.KeyStatus() == keyset.Enabled, "derived keys are ENABLED")
		verifrt.Assert(e.IsPrimary() == (i == ks.Primary), "primary designation mirrored")
		dk := e.Key().(*dKey)
		wantID, wantReq := fk.IDRequirement()
		gotID, gotReq := dk.IDRequirement()
		verifrt.Assert(gotReq == wantReq && gotID == wantID, "derived key has the deriver key's ID requirement (none for RAW)")
		verifrt.Assert(dk.kind == fk.Kind, "derived key has the deriver key's prefix type")
		verifrt.Assert(dk.from == fk.Idx && verifrt.EqBytes(dk.salt, salt), "derived from this key with the caller's salt")
	}
	// determinism
	h2, err := d.DeriveKeyset(append([]byte{}, salt...))
	verifrt.Assert(err == nil && h2.Len() == h.Len(), "second derivation succeeds")
	for j := 0; j < h.Len() && j < h2.Len(); j++ {
		a, _ := h.Entry(j)
		b, _ := h2.Entry(j)
		verifrt.Assert(a.KeyID() == b.KeyID() && a.IsPrimary() == b.IsPrimary() && a.Key().Equal(b.Key()), "equal salts give Equal keysets")
	}
	verifrt.Reach("end")
}
