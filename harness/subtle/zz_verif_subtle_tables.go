package subtle

import (
	"crypto/sha1"
	"crypto/sha256"
	"crypto/sha512"
	"hash"

	"github.com/tink-crypto/tink-go/v2/internal/verifrt"
)

// The name tables of subtle/subtle.go that the */subtle constructors rely on, against an
// independently written table (FIPS 180-4 digest sizes; the names Tink documents).
//   name      hash          digest bytes   dashed form
//   SHA1      SHA-1         20             SHA-1
//   SHA224    SHA-224       28             SHA-224
//   SHA256    SHA-256       32             SHA-256
//   SHA384    SHA-384       48             SHA-384
//   SHA512    SHA-512       64             SHA-512
// Every other string (dashed or lower-case forms where the plain one is expected, other
// algorithms, the empty string) is unknown to every function.

type vHashRow struct {
	name, dashed string
	hf           func() hash.Hash
	size         uint32
}

var vHashTable = [5]vHashRow{
	{"SHA1", "SHA-1", sha1.New, 20},
	{"SHA224", "SHA-224", sha256.New224, 28},
	{"SHA256", "SHA-256", sha256.New, 32},
	{"SHA384", "SHA-384", sha512.New384, 48},
	{"SHA512", "SHA-512", sha512.New, 64},
}

var vUnknownNames = [...]string{"", "sha256", "SHA3-256", "SHA-512/256", "MD5", "SHA 256", "SHA2560", "SHA25"}

func VerifH_subtle_hash_tables() {
	i := verifrt.Choice("row", 5+len(vUnknownNames))
	x := verifrt.Bytes("x", verifrt.Choice("n", 3))
	if i >= 5 {
		name := vUnknownNames[i-5]
		sz, err := GetHashDigestSize(name)
		verifrt.Assert(err != nil && sz == 0, "unknown names have no digest size")
		verifrt.Assert(GetHashFunc(name) == nil, "unknown names have no hash function")
		verifrt.Assert(ConvertHashName(name) == "", "unknown names are not converted")
		for _, r := range vHashTable {
			// the dashed forms are not valid where the plain names are expected, and vice versa
			_, e1 := GetHashDigestSize(r.dashed)
			verifrt.Assert(e1 != nil && GetHashFunc(r.dashed) == nil, "dashed names are not accepted as Tink hash names")
			verifrt.Assert(ConvertHashName(r.name) == "", "plain names are not accepted as dashed names")
		}
		verifrt.Reach("unknown")
		return
	}
	r := vHashTable[i]
	sz, err := GetHashDigestSize(r.name)
	verifrt.Assert(err == nil && sz == r.size, "digest size of the named hash")
	hf := GetHashFunc(r.name)
	verifrt.Assert(hf != nil, "the named hash exists")
	if hf == nil {
		return
	}
	h1, h2 := hf(), r.hf()
	verifrt.Assert(uint32(h1.Size()) == r.size, "the hash function's output size is the table's digest size")
	h1.Write(x)
	h2.Write(x)
	verifrt.AssertEq(h1.Sum(nil), h2.Sum(nil), "GetHashFunc(name) is the named hash")
	verifrt.Assert(ConvertHashName(r.dashed) == r.name, "dashed name -> Tink name")
	got, err := ComputeHash(hf, x)
	verifrt.Assert(err == nil, "ComputeHash succeeds")
	verifrt.AssertEq(got, h2.Sum(nil), "ComputeHash == hash(data)")
	verifrt.Assert(uint32(len(got)) == r.size, "full digest")
	got2, err := ComputeHash(nil, x)
	verifrt.Assert(err != nil && got2 == nil, "ComputeHash refuses a nil hash function")
	verifrt.Observe("digest", got)
	verifrt.Reach("known")
}

// Curve names: NIST_P256 <-> {secp256r1, P-256}, NIST_P384 <-> {secp384r1, P-384},
// NIST_P521 <-> {secp521r1, P-521}; GetCurve returns the curve whose crypto/elliptic name is
// the P-xxx form of the same row, nil otherwise.
func VerifH_subtle_curve_tables() {
	rows := [3][3]string{{"NIST_P256", "secp256r1", "P-256"}, {"NIST_P384", "secp384r1", "P-384"}, {"NIST_P521", "secp521r1", "P-521"}}
	bits := [3]int{256, 384, 521}
	unknown := [...]string{"", "NIST_P224", "P-224", "secp256k1", "nist_p256", "NIST_P256 ", "CURVE25519", "X25519"}
	i := verifrt.Choice("row", 3+len(unknown))
	if i >= 3 {
		verifrt.Assert(GetCurve(unknown[i-3]) == nil, "unknown curve names give no curve")
		verifrt.Assert(ConvertCurveName(unknown[i-3]) == "", "unknown curve names are not converted")
		for _, r := range rows {
			verifrt.Assert(ConvertCurveName(r[0]) == "" && GetCurve(r[1]) == nil && GetCurve(r[2]) == nil, "the two name spaces are not mixed")
		}
		verifrt.Reach("unknown")
		return
	}
	r := rows[i]
	verifrt.Assert(ConvertCurveName(r[1]) == r[0] && ConvertCurveName(r[2]) == r[0], "SEC / crypto/elliptic name -> Tink name")
	c := GetCurve(r[0])
	verifrt.Assert(c != nil, "the named curve exists")
	if c == nil {
		return
	}
	verifrt.Assert(c.Params().Name == r[2] && c.Params().BitSize == bits[i], "GetCurve(name) is the curve of the same row")
	verifrt.Assert(ConvertCurveName(c.Params().Name) == r[0], "round trip through the curve object's name")
	verifrt.Reach("known")
}
