package subtle

import (
	"crypto/sha1"
	"crypto/sha256"
	"crypto/sha512"
	"hash"

	"github.com/tink-crypto/tink-go/v2/internal/verifrt"
	"github.com/tink-crypto/tink-go/v2/internal/verifspec"
)

// ComputeHKDF: whenever it returns output it is RFC 5869 for (hash, salt [empty = zeros of
// the digest size], info, length); lengths outside 10..255*digest are refused.
func VerifH_hkdf_compute() {
	var name string
	var hf func() hash.Hash
	size := 0
	switch verifrt.Choice("hash", 5) {
	case 0:
		name, hf, size = "SHA1", sha1.New, 20
	case 1:
		name, hf, size = "SHA224", sha256.New224, 28
	case 2:
		name, hf, size = "SHA256", sha256.New, 32
	case 3:
		name, hf, size = "SHA384", sha512.New384, 48
	default:
		name, hf, size = "SHA512", sha512.New, 64
	}
	key := verifrt.Bytes("key", verifrt.Choice("kl", 3))
	salt := verifrt.Bytes("salt", verifrt.Choice("sl", 3))
	info := verifrt.Bytes("info", verifrt.Choice("il", 3))
	n := [...]int{0, 9, 10, size, size + 1, 2 * size, 255 * size, 255*size + 1}[verifrt.Choice("n", 8)]
	out, err := ComputeHKDF(name, key, salt, info, uint32(n))
	verifrt.Assert((err == nil) == (n >= 10 && n <= 255*size), "tag size must be in 10 .. 255*digest")
	if err != nil {
		verifrt.Assert(out == nil, "no output on error")
		verifrt.Reach("refused")
		return
	}
	verifrt.Assert(len(out) == n, "exactly tagSize bytes")
	if n <= 2*size {
		verifrt.AssertEq(out, verifspec.HKDF(hf, key, salt, info, n), "ComputeHKDF == RFC 5869 (empty salt = digest-size zeros)")
	}
	verifrt.Reach("end")
}
