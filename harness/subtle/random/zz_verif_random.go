package random

import "github.com/tink-crypto/tink-go/v2/internal/verifrt"

// GetRandomBytes(n): exactly one draw of n bytes, returned verbatim, in fresh memory of
// exactly that length (two calls share nothing; a caller may overwrite the result).
func VerifH_subtle_random_bytes() {
	// every length 0..40; thorough tier: also 64, 255, 256, 1000
	var n int
	if verifrt.Thorough() {
		if k := verifrt.Choice("n", 45); k <= 40 {
			n = k
		} else {
			n = [...]int{64, 255, 256, 1000}[k-41]
		}
	} else {
		n = verifrt.Choice("n", 41)
	}
	d0 := verifrt.Draws()
	b := GetRandomBytes(uint32(n))
	verifrt.Assert(len(b) == n, "exactly n bytes")
	if n == 0 {
		verifrt.Assert(verifrt.Draws() == d0, "nothing requested: no draw")
		verifrt.Reach("empty")
		return
	}
	verifrt.Assert(verifrt.Draws() == d0+1, "exactly one draw")
	rnd := verifrt.DrawBytes(d0)
	verifrt.Assert(len(rnd) == n, "the draw has the full requested length")
	verifrt.AssertEq(b, rnd, "the draw is returned verbatim")
	b2 := GetRandomBytes(uint32(n))
	verifrt.Assert(verifrt.Draws() == d0+2, "a second call draws again")
	verifrt.AssertEq(b2, verifrt.DrawBytes(d0+1), "second result == second draw")
	verifrt.Assert(!verifrt.SameArray(b, b2), "every call returns fresh memory")
	verifrt.AssertEq(b, rnd, "the first result is not touched by the second call")
	verifrt.Observe("n", len(b))
	verifrt.Reach("end")
}

// GetRandomUint32: one draw of exactly 4 bytes, all 32 bits of it used (big endian): the
// value ranges over all of uint32 and determines the draw.
func VerifH_subtle_random_uint32() {
	d0 := verifrt.Draws()
	x := GetRandomUint32()
	verifrt.Assert(verifrt.Draws() == d0+1, "exactly one draw")
	rnd := verifrt.DrawBytes(d0)
	verifrt.Assert(len(rnd) == 4, "a 4-byte draw")
	if len(rnd) != 4 {
		return
	}
	verifrt.Assert(x == uint32(rnd[0])<<24|uint32(rnd[1])<<16|uint32(rnd[2])<<8|uint32(rnd[3]), "the value is the whole draw, big endian (all 32 bits used)")
	verifrt.AssertEq([]byte{byte(x >> 24), byte(x >> 16), byte(x >> 8), byte(x)}, rnd, "the draw is recoverable from the value (no bit dropped or fixed)")
	y := GetRandomUint32()
	verifrt.Assert(verifrt.Draws() == d0+2, "a second call draws again")
	r2 := verifrt.DrawBytes(d0 + 1)
	verifrt.Assert(len(r2) == 4 && y == uint32(r2[0])<<24|uint32(r2[1])<<16|uint32(r2[2])<<8|uint32(r2[3]), "second value == second draw")
	verifrt.Observe("x", x)
	verifrt.Reach("end")
}
