package verifspec

// Prefix is Tink's documented output prefix: empty for RAW, 0x01 || be32(id) for TINK,
// 0x00 || be32(id) for CRUNCHY and LEGACY. kind: 0 TINK, 1 CRUNCHY, 2 LEGACY, 3 RAW.
func Prefix(kind int, id uint32) []byte {
	switch kind {
	case 0:
		return []byte{1, byte(id >> 24), byte(id >> 16), byte(id >> 8), byte(id)}
	case 1, 2:
		return []byte{0, byte(id >> 24), byte(id >> 16), byte(id >> 8), byte(id)}
	}
	return []byte{}
}

// XorDelta returns base xor delta (same length).
func XorDelta(base, delta []byte) []byte {
	out := make([]byte, len(base))
	for i := range base {
		out[i] = base[i] ^ delta[i]
	}
	return out
}
