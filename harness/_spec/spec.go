// Package verifspec holds reference functions transcribed from the standards. They are
// written over the same standard-library primitives as the implementation, so under the
// engine both sides share the uninterpreted primitives, and natively both use the real ones.
package verifspec

import (
	"crypto/hmac"
	"hash"
	"crypto/aes"
	"crypto/cipher"
)

func mustAES(key []byte) cipher.Block {
	bc, err := aes.NewCipher(key)
	if err != nil {
		panic(err)
	}
	return bc
}

// Dbl is the doubling operation of RFC 4493 §2.3 / RFC 5297 §2.3.
func Dbl(in [16]byte) [16]byte {
	var out [16]byte
	for i := 0; i < 16; i++ {
		out[i] = in[i] << 1
		if i < 15 {
			out[i] |= in[i+1] >> 7
		}
	}
	rb := byte(0)
	if in[0]&0x80 != 0 {
		rb = 0x87
	}
	out[15] ^= rb
	return out
}

// CMAC is AES-CMAC per RFC 4493 §2.4.
func CMAC(key, msg []byte) []byte {
	bc := mustAES(key)
	var zero, l [16]byte
	bc.Encrypt(l[:], zero[:])
	k1 := Dbl(l)
	k2 := Dbl(k1)
	n := (len(msg) + 15) / 16
	complete := false
	if n == 0 {
		n = 1
	} else {
		complete = len(msg)%16 == 0
	}
	var last [16]byte
	tail := msg[16*(n-1):]
	if complete {
		for i := 0; i < 16; i++ {
			last[i] = tail[i] ^ k1[i]
		}
	} else {
		copy(last[:], tail)
		last[len(tail)] = 0x80
		for i := 0; i < 16; i++ {
			last[i] ^= k2[i]
		}
	}
	var x, y [16]byte
	for i := 0; i < n-1; i++ {
		for j := 0; j < 16; j++ {
			y[j] = x[j] ^ msg[16*i+j]
		}
		bc.Encrypt(x[:], y[:])
	}
	for j := 0; j < 16; j++ {
		y[j] = x[j] ^ last[j]
	}
	out := make([]byte, 16)
	bc.Encrypt(out, y[:])
	return out
}

// CTRXor returns in XOR the AES-CTR keystream starting at the 16-byte counter block iv
// (big-endian increment over the whole block, SP 800-38A).
func CTRXor(key, iv, in []byte) []byte {
	bc := mustAES(key)
	ctr := append([]byte{}, iv...)
	out := make([]byte, len(in))
	var ks [16]byte
	for i := 0; i < len(in); i++ {
		if i%16 == 0 {
			bc.Encrypt(ks[:], ctr)
			c := uint16(1) // ctr = ctr + 1 mod 2^128, big-endian
			for j := 15; j >= 0; j-- {
				v := uint16(ctr[j]) + c
				ctr[j] = byte(v)
				c = v >> 8
			}
		}
		out[i] = in[i] ^ ks[i%16]
	}
	return out
}

// S2V is RFC 5297 §2.4 for a single associated-data component followed by the plaintext.
func S2V(k1, ad, msg []byte) []byte {
	var zero [16]byte
	var d [16]byte
	copy(d[:], CMAC(k1, zero[:]))
	d = Dbl(d)
	adm := CMAC(k1, ad)
	for i := range d {
		d[i] ^= adm[i]
	}
	var t []byte
	if len(msg) >= 16 {
		t = append([]byte{}, msg...)
		for i := 0; i < 16; i++ {
			t[len(msg)-16+i] ^= d[i]
		}
	} else {
		d = Dbl(d)
		t = make([]byte, 16)
		copy(t, msg)
		t[len(msg)] = 0x80
		for i := 0; i < 16; i++ {
			t[i] ^= d[i]
		}
	}
	return CMAC(k1, t)
}

// SIVEncrypt is RFC 5297 §2.6: V || CTR_{K2}(Q, P) with Q = V with bits 31 and 63 cleared.
func SIVEncrypt(key64, ad, pt []byte) []byte {
	v := S2V(key64[:32], ad, pt)
	q := append([]byte{}, v...)
	q[8] &= 0x7f
	q[12] &= 0x7f
	return append(append([]byte{}, v...), CTRXor(key64[32:], q, pt)...)
}

// KWPW is the wrapping function W of SP 800-38F §6.1 applied to the plaintext string
// s = A || R1..Rn (len(s) a multiple of 8, n >= 2). W is a permutation of such strings.
func KWPW(kek, s []byte) []byte {
	bc := mustAES(kek)
	n := len(s)/8 - 1
	a := append([]byte{}, s[:8]...)
	r := append([]byte{}, s[8:]...)
	var b [16]byte
	for j := 0; j <= 5; j++ {
		for i := 1; i <= n; i++ {
			copy(b[:8], a)
			copy(b[8:], r[8*(i-1):8*i])
			bc.Encrypt(b[:], b[:])
			t := uint64(n*j + i)
			for k := 0; k < 8; k++ {
				a[k] = b[k] ^ byte(t>>(8*uint(7-k)))
			}
			copy(r[8*(i-1):8*i], b[8:])
		}
	}
	return append(a, r...)
}

// KWPWrap is RFC 5649 §4.1 (KWP-AE of SP 800-38F) for len(p) > 8.
func KWPWrap(kek, p []byte) []byte {
	bc := mustAES(kek)
	mli := len(p)
	padded := append([]byte{}, p...)
	for len(padded)%8 != 0 {
		padded = append(padded, 0)
	}
	n := len(padded) / 8
	a := []byte{0xA6, 0x59, 0x59, 0xA6, byte(mli >> 24), byte(mli >> 16), byte(mli >> 8), byte(mli)}
	r := padded
	var b [16]byte
	for j := 0; j <= 5; j++ {
		for i := 1; i <= n; i++ {
			copy(b[:8], a)
			copy(b[8:], r[8*(i-1):8*i])
			bc.Encrypt(b[:], b[:])
			t := uint64(n*j + i)
			for k := 0; k < 8; k++ {
				a[k] = b[k] ^ byte(t>>(8*uint(7-k)))
			}
			copy(r[8*(i-1):8*i], b[8:])
		}
	}
	return append(append([]byte{}, a...), r...)
}

// HKDF is RFC 5869 (extract-then-expand) over crypto/hmac:
// PRK = HMAC(salt, ikm); T(i) = HMAC(PRK, T(i-1) || info || i); OKM = first l bytes of T(1) || T(2) || ...
func HKDF(h func() hash.Hash, ikm, salt, info []byte, l int) []byte {
	size := h().Size()
	if len(salt) == 0 {
		salt = make([]byte, size)
	}
	ext := hmac.New(h, salt)
	ext.Write(ikm)
	prk := ext.Sum(nil)
	var okm, t []byte
	for i := 1; len(okm) < l; i++ {
		m := hmac.New(h, prk)
		m.Write(t)
		m.Write(info)
		m.Write([]byte{byte(i)})
		t = m.Sum(nil)
		okm = append(okm, t...)
	}
	return okm[:l]
}
