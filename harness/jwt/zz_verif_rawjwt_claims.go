package jwt

import (
	"time"

	"github.com/tink-crypto/tink-go/v2/internal/verifrt"
	spb "google.golang.org/protobuf/types/known/structpb"
)

// ---------------------------------------------------------------------------------------
// Custom claims of every JSON kind through NewRawJWT (rules at the top of zz_verif_rawjwt.go),
// and the receiving side's claim validation (validatePayload, what NewRawJWTFromJSON applies to
// a parsed payload) on payload structures built by hand - including structures NewRawJWT can
// never produce (an issuer that is a number, a fractional or string "exp", an audience list
// holding a non-string ...). JSON text itself (protojson) is outside the engine's reach.
// ---------------------------------------------------------------------------------------

type unsupportedGoType struct{ X int }

// claimSample: a Go value handed in as a custom claim, whether the JSON data model has a place
// for it (structpb.NewValue's documented table), and what it is there.
type claimSample struct {
	in   any
	ok   bool
	kind int
	want any
}

func claimSamples() []claimSample {
	return []claimSample{
		{nil, true, kNull, nil},
		{true, true, kBool, true},
		{false, true, kBool, false},
		{2.5, true, kNumber, 2.5},
		{-0.0, true, kNumber, 0.0},
		{1e300, true, kNumber, 1e300},
		{int(-7), true, kNumber, -7.0},
		{int64(1 << 40), true, kNumber, 1099511627776.0},
		{uint8(200), true, kNumber, 200.0},
		{uint32(4000000000), true, kNumber, 4000000000.0},
		{float32(0.5), true, kNumber, 0.5},
		{"text", true, kString, "text"},
		{"", true, kString, ""},
		{"é€\U0001F600", true, kString, "é€\U0001F600"},
		{"\xff", false, 0, nil},
		{"a\xc3", false, 0, nil},
		{[]any{}, true, kArray, []any{}},
		{[]any{nil, true, 1.0, int16(3), "s", []any{"in", []any{}}, map[string]any{"k": nil}},
			true, kArray, []any{nil, true, 1.0, 3.0, "s", []any{"in", []any{}}, map[string]any{"k": nil}}},
		{[]any{"ok", "\xff"}, false, 0, nil},                           // invalid UTF-8 one level down
		{[]any{[]any{map[string]any{"k": "\xc0\x80"}}}, false, 0, nil}, // three levels down
		{[]any{[]string{"x"}}, false, 0, nil},                          // a Go type without a JSON counterpart, nested
		{map[string]any{}, true, kObject, map[string]any{}},
		{map[string]any{"a": 1.0, "b": []any{false}, "c": map[string]any{"d": "e"}, "iss": "a registered name is an ordinary member name inside an object", "": nil},
			true, kObject, map[string]any{"a": 1.0, "b": []any{false}, "c": map[string]any{"d": "e"}, "iss": "a registered name is an ordinary member name inside an object", "": nil}},
		{map[string]any{"\xff": 1.0}, false, 0, nil}, // member name not UTF-8
		{map[string]any{"k": "\xed\xa0\x80"}, false, 0, nil},
		{unsupportedGoType{1}, false, 0, nil},
		{[]string{"a"}, false, 0, nil},
		{map[string]string{"a": "b"}, false, 0, nil},
		{&unsupportedGoType{1}, false, 0, nil},
		{[]byte{1, 2, 3}, true, kString, "AQID"}, // RFC 4648 section 4 of 01 02 03
	}
}

// One custom claim "c" of every kind next to a string claim "other", a null claim "n" and all
// registered claims: acceptance, and every accessor of RawJWT and VerifiedJWT.
func VerifH_rawjwt_custom_kinds() {
	ss := claimSamples()
	c := ss[verifrt.Choice("sample", len(ss))]
	iss, sub, jti, typ := "I", "S", "J", "T"
	exp := verifrt.Int64("exp")
	verifrt.Assume(exp >= 0 && exp <= specTSMax)
	nbfS, iatS := int64(5), int64(specTSMax)
	expT, nbf, iat := time.Unix(exp, 0), time.Unix(nbfS, 0), time.Unix(iatS, 999999999)
	w := &wantJWT{iss: &iss, sub: &sub, jti: &jti, typ: &typ, aud: []string{"A1", "A2"}, exp: &exp, nbf: &nbfS, iat: &iatS}
	opts := &RawJWTOptions{Issuer: &iss, Subject: &sub, JWTID: &jti, TypeHeader: &typ, Audiences: []string{"A1", "A2"},
		ExpiresAt: &expT, NotBefore: &nbf, IssuedAt: &iat,
		CustomClaims: map[string]any{"other": "I", "c": c.in, "n": nil}}
	if verifrt.Choice("bare", 2) == 1 { // the same without any registered claim
		w = &wantJWT{}
		opts = &RawJWTOptions{WithoutExpiration: true, CustomClaims: map[string]any{"other": "I", "c": c.in, "n": nil}}
	}
	raw, err := NewRawJWT(opts)
	verifrt.Assert((err == nil) == c.ok, "NewRawJWT accepts a custom claim iff its value is a JSON value (null, boolean, number, string, array, object; Go integers as numbers) whose strings and member names are valid UTF-8 at every depth")
	verifrt.Assert((err == nil) == (raw != nil), "a token or an error, never both")
	if err != nil || raw == nil {
		verifrt.Reach("refused")
		return
	}
	w.custom = []wantClaim{{"other", kString, "I"}, {"c", c.kind, c.want}, {"n", kNull, nil}}
	checkBoth(raw, w)
	verifrt.Reach("accepted")
}

// Symbolic leaves: a boolean at the top level and inside an array / an object, and a number (any
// integer the float64 holds exactly) at the top level come back unchanged. (Symbolic numbers
// inside arrays / objects would pass through Value.AsInterface's NaN test, which the engine's
// exact-rational floats do not support; nested numbers are concrete in the harness above.)
func VerifH_rawjwt_custom_symbolic() {
	b := verifrt.Choice("b", 2) == 1
	i := verifrt.Int64("i")
	verifrt.Assume(i >= -(1<<53) && i <= 1<<53)
	raw, err := NewRawJWT(&RawJWTOptions{WithoutExpiration: true, CustomClaims: map[string]any{
		"b": b, "i": i, "l": []any{b, "x"}, "o": map[string]any{"b": b, "x": nil},
	}})
	verifrt.Assert(err == nil, "accepted")
	if err != nil {
		return
	}
	gb, e1 := raw.BooleanClaim("b")
	gi, e2 := raw.NumberClaim("i")
	verifrt.Assert(e1 == nil && gb == b && raw.HasBooleanClaim("b") && !raw.HasNullClaim("b"), "the boolean claim is the given boolean (false is not 'absent')")
	verifrt.Assert(e2 == nil && int64(gi) == i && raw.HasNumberClaim("i"), "the number claim is the given integer")
	l, e3 := raw.ArrayClaim("l")
	verifrt.Assert(e3 == nil && len(l) == 2, "array of two")
	if e3 == nil && len(l) == 2 {
		lb, ok1 := l[0].(bool)
		verifrt.Assert(ok1 && lb == b && l[1] == "x", "array elements are the given boolean and string")
	}
	o, e4 := raw.ObjectClaim("o")
	verifrt.Assert(e4 == nil && len(o) == 2, "object of two")
	if e4 == nil && len(o) == 2 {
		ob, ok1 := o["b"].(bool)
		ox, in := o["x"]
		verifrt.Assert(ok1 && ob == b && in && ox == nil, "object members are the given boolean and null")
	}
	verifrt.Reach("end")
}

// Claim names: the seven registered names are refused as custom claims whatever else is in the
// map and whether or not the registered claim itself is set; every other name - near misses in
// case and length, the empty name, header parameter names - is accepted.
func VerifH_rawjwt_custom_names() {
	names := [...]struct {
		n   string
		reg bool
	}{
		{"iss", true}, {"sub", true}, {"aud", true}, {"exp", true}, {"nbf", true}, {"iat", true}, {"jti", true},
		{"", false}, {"x", false}, {"ISS", false}, {"Iss", false}, {"issx", false}, {"is", false}, {" iss", false}, {"iss ", false},
		{"iss\x00", false}, {"typ", false}, {"alg", false}, {"kid", false}, {"crit", false}, {"expp", false}, {"ex", false},
		{"jt", false}, {"au", false}, {"nb", false}, {"ia", false}, {"su", false}, {"é", false}, {"claims", false},
	}
	c := names[verifrt.Choice("name", len(names))]
	cc := map[string]any{}
	w := &wantJWT{}
	// position in the map: alone, after, or before an unobjectionable claim
	pos := verifrt.Choice("pos", 3)
	if pos == 1 {
		cc["z"] = 1.0
		w.custom = append(w.custom, wantClaim{"z", kNumber, 1.0})
	}
	vi := verifrt.Choice("val", 4)
	val := [...]any{"v", nil, 7.0, []any{"v"}}[vi]
	kind := [...]int{kString, kNull, kNumber, kArray}[vi]
	cc[c.n] = val
	w.custom = append(w.custom, wantClaim{c.n, kind, val})
	if pos == 2 {
		cc["z"] = 1.0
		w.custom = append(w.custom, wantClaim{"z", kNumber, 1.0})
	}
	opts := &RawJWTOptions{WithoutExpiration: true, CustomClaims: cc}
	if verifrt.Choice("withRegistered", 2) == 1 {
		iss, sub, jti, aud := "I", "S", "J", "A"
		t := time.Unix(1700000000, 0)
		s := int64(1700000000)
		opts = &RawJWTOptions{Issuer: &iss, Subject: &sub, JWTID: &jti, Audience: &aud, ExpiresAt: &t, NotBefore: &t, IssuedAt: &t, CustomClaims: cc}
		w.iss, w.sub, w.jti, w.aud, w.exp, w.nbf, w.iat = &iss, &sub, &jti, []string{"A"}, &s, &s, &s
	}
	raw, err := NewRawJWT(opts)
	verifrt.Assert((err == nil) == !c.reg, "NewRawJWT refuses exactly the custom claims named iss, sub, aud, exp, nbf, iat, jti")
	verifrt.Assert((err == nil) == (raw != nil), "a token or an error, never both")
	if err != nil || raw == nil {
		verifrt.Reach("refused")
		return
	}
	checkBoth(raw, w)
	verifrt.Reach("accepted")
}

// ---- the receiving side: validatePayload over hand-built payload structures

// jsonSamples: one value of every JSON kind plus the edge values of each; the flags say what
// the value is acceptable as.
type jsonSample struct {
	v       func() *spb.Value
	isStr   bool  // a string of valid UTF-8
	isTime  bool  // a number whose integer part lies in [0, 253402300799]
	sec     int64 // ... and that integer part
	isAud   bool  // a valid-UTF-8 string or a non-empty array of such strings
	aud     []string
	comment string
}

func lst(vs ...*spb.Value) *spb.Value { return spb.NewListValue(&spb.ListValue{Values: vs}) }

func jsonSamples() []jsonSample {
	num := func(f float64) func() *spb.Value { return func() *spb.Value { return spb.NewNumberValue(f) } }
	str := func(s string) func() *spb.Value { return func() *spb.Value { return spb.NewStringValue(s) } }
	return []jsonSample{
		{v: func() *spb.Value { return spb.NewNullValue() }, comment: "null"},
		{v: func() *spb.Value { return spb.NewBoolValue(true) }, comment: "true"},
		{v: num(0), isTime: true, sec: 0},
		{v: num(1700000000), isTime: true, sec: 1700000000},
		{v: num(1700000000.75), isTime: true, sec: 1700000000, comment: "NumericDate may be fractional (RFC 7519 section 2); the accessor reports whole seconds"},
		{v: num(specTSMax), isTime: true, sec: specTSMax},
		{v: num(specTSMax + 0.5), isTime: true, sec: specTSMax, comment: "still within the last allowed second"},
		{v: num(specTSMax + 1)},
		{v: num(-1)},
		{v: num(0.999), isTime: true, sec: 0},
		{v: num(-0.5), isTime: true, sec: 0, comment: "integer part -0: the conversion truncates toward zero (NewRawJWT itself never stores fractions)"},
		{v: num(-1.5)},
		{v: num(1e30), comment: "far beyond int64"},
		{v: num(-1e30)},
		{v: num(9007199254740993), comment: "2^53+1 (rounds to 2^53)"},
		{v: str("s"), isStr: true, isAud: true, aud: []string{"s"}},
		{v: str(""), isStr: true, isAud: true, aud: []string{""}},
		{v: str("é€"), isStr: true, isAud: true, aud: []string{"é€"}},
		{v: str("\xff")},
		{v: str("1700000000"), isStr: true, isAud: true, aud: []string{"1700000000"}, comment: "a numeric string is not a NumericDate"},
		{v: func() *spb.Value { return lst() }, comment: "empty array"},
		{v: func() *spb.Value { return lst(spb.NewStringValue("a")) }, isAud: true, aud: []string{"a"}},
		{v: func() *spb.Value {
			return lst(spb.NewStringValue("a"), spb.NewStringValue(""), spb.NewStringValue("a"))
		}, isAud: true, aud: []string{"a", "", "a"}},
		{v: func() *spb.Value { return lst(spb.NewStringValue("a"), spb.NewNumberValue(1)) }, comment: "array with a non-string"},
		{v: func() *spb.Value { return lst(spb.NewStringValue("a"), spb.NewNullValue()) }},
		{v: func() *spb.Value { return lst(spb.NewStringValue("a"), spb.NewStringValue("\xc0\x80")) }},
		{v: func() *spb.Value { return lst(lst(spb.NewStringValue("a"))) }, comment: "nested array"},
		{v: func() *spb.Value {
			return spb.NewStructValue(&spb.Struct{Fields: map[string]*spb.Value{"a": spb.NewStringValue("b")}})
		}, comment: "object"},
	}
}

// rawjwtValidate: the claim `claim` takes every sample value, next to an unobjectionable
// custom claim and (variant) an unobjectionable other registered claim. validatePayload accepts
// iff the value has the claim's type; the accessors of an accepted payload report the value.
func rawjwtValidate(claim string) {
	ss := jsonSamples()
	s := ss[verifrt.Choice("sample", len(ss))]
	p := &spb.Struct{Fields: map[string]*spb.Value{}}
	w := &wantJWT{}
	pos := verifrt.Choice("pos", 3)
	other := func() {
		p.Fields["custom"] = spb.NewBoolValue(false)
		w.custom = append(w.custom, wantClaim{"custom", kBool, false})
		// a registered claim of the other family
		if claim == "iss" || claim == "sub" || claim == "jti" || claim == "aud" {
			p.Fields["nbf"] = spb.NewNumberValue(12)
			x := int64(12)
			w.nbf = &x
		} else {
			p.Fields["sub"] = spb.NewStringValue("S")
			x := "S"
			w.sub = &x
		}
	}
	if pos == 1 {
		other()
	}
	p.Fields[claim] = s.v()
	if pos == 2 {
		other()
	}
	want := false
	switch claim {
	case "iss", "sub", "jti":
		want = s.isStr
		if want {
			str := s.aud[0]
			switch claim {
			case "iss":
				w.iss = &str
			case "sub":
				w.sub = &str
			default:
				w.jti = &str
			}
		}
	case "exp", "nbf", "iat":
		want = s.isTime
		if want {
			sec := s.sec
			switch claim {
			case "exp":
				w.exp = &sec
			case "nbf":
				w.nbf = &sec
			default:
				w.iat = &sec
			}
		}
	case "aud":
		want = s.isAud
		w.aud = s.aud
	default: // not a registered claim: any JSON value
		want = true
	}
	err := validatePayload(p)
	verifrt.Assert((err == nil) == want, "validatePayload accepts iff iss/sub/jti are UTF-8 strings, exp/nbf/iat are numbers whose integer part is in [0, 253402300799], aud is a UTF-8 string or a non-empty array of UTF-8 strings")
	if err != nil {
		verifrt.Reach("refused")
		return
	}
	if claim == "Exp" {
		verifrt.Reach("accepted-custom")
		return
	}
	typ := "T"
	checkBoth(&RawJWT{jsonpb: p, typeHeader: &typ}, &wantJWT{typ: &typ, iss: w.iss, sub: w.sub, jti: w.jti, aud: w.aud, exp: w.exp, nbf: w.nbf, iat: w.iat, custom: w.custom})
	verifrt.Reach("accepted")
}

func VerifH_rawjwt_validate_iss() { rawjwtValidate("iss") }
func VerifH_rawjwt_validate_sub() { rawjwtValidate("sub") }
func VerifH_rawjwt_validate_jti() { rawjwtValidate("jti") }
func VerifH_rawjwt_validate_exp() { rawjwtValidate("exp") }
func VerifH_rawjwt_validate_nbf() { rawjwtValidate("nbf") }
func VerifH_rawjwt_validate_iat() { rawjwtValidate("iat") }
func VerifH_rawjwt_validate_aud() { rawjwtValidate("aud") }

// a name that only looks registered: every JSON value is acceptable
func VerifH_rawjwt_validate_other() { rawjwtValidate("Exp") }

// Empty payloads: nil map and empty map are accepted and report nothing.
func VerifH_rawjwt_validate_empty() {
	for _, p := range []*spb.Struct{{}, {Fields: map[string]*spb.Value{}}} {
		verifrt.Assert(validatePayload(p) == nil, "the empty payload is valid")
		checkBoth(&RawJWT{jsonpb: p}, &wantJWT{})
	}
	verifrt.Reach("end")
}

// Isolation: the token keeps its own copy of what it was given, and hands out copies. Changing
// the option values after NewRawJWT (audience list, custom-claim containers, the pointed-to
// strings and instants) or the containers returned by the accessors does not change what the
// token reports. (Not asserted: RawJWT keeps the caller's *string for the typ header - see the
// report; assigning through that pointer later changes TypeHeader().)
func VerifH_rawjwt_isolation() {
	iss, sub, jti, aud0 := "I", "S", "J", "A0"
	exp := verifrt.Int64("exp")
	verifrt.Assume(exp >= 0 && exp <= specTSMax)
	expT := time.Unix(exp, 0)
	auds := []string{aud0, "A1"}
	inner := []any{"in"}
	list := []any{1.0, inner}
	obj := map[string]any{"k": "v", "l": inner}
	cc := map[string]any{"l": list, "o": obj, "s": "str"}
	opts := &RawJWTOptions{Issuer: &iss, Subject: &sub, JWTID: &jti, Audiences: auds, ExpiresAt: &expT, CustomClaims: cc}
	raw, err := NewRawJWT(opts)
	verifrt.Assert(err == nil, "accepted")
	if err != nil {
		return
	}
	wIss, wSub, wJti := "I", "S", "J"
	w := &wantJWT{iss: &wIss, sub: &wSub, jti: &wJti, aud: []string{"A0", "A1"}, exp: &exp, custom: []wantClaim{
		{"l", kArray, []any{1.0, []any{"in"}}},
		{"o", kObject, map[string]any{"k": "v", "l": []any{"in"}}},
		{"s", kString, "str"},
	}}
	checkBoth(raw, w)

	// the caller changes everything it still holds
	iss, sub, jti = "X", "X", "X"
	auds[0], auds[1] = "X", "X"
	expT = time.Unix(1, 1)
	inner[0] = "X"
	list[0] = "X"
	obj["k"] = "X"
	obj["new"] = true
	cc["s"] = "X"
	cc["new"] = true
	delete(cc, "l")
	opts.Audiences, opts.CustomClaims, opts.Issuer = nil, nil, nil
	checkBoth(raw, w)

	// the caller changes what the accessors returned
	a, _ := raw.Audiences()
	a[0] = "X"
	l, _ := raw.ArrayClaim("l")
	l[0] = "X"
	l[1].([]any)[0] = "X"
	o, _ := raw.ObjectClaim("o")
	o["k"] = "X"
	o["l"].([]any)[0] = "X"
	delete(o, "k")
	names := raw.CustomClaimNames()
	names[0] = "X"
	checkBoth(raw, w)
	verifrt.Reach("end")
}
