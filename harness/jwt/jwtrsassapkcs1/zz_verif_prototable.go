package jwtrsassapkcs1

import (
	"github.com/tink-crypto/tink-go/v2/internal/verifrt"
	tinkpb "github.com/tink-crypto/tink-go/v2/proto/tink_go_proto"
)

// Wire numbers of the algorithm enum in the key format's .proto file (UNKNOWN = 0, then the
// three algorithms in ascending strength = 1, 2, 3), and the kid strategy <-> output prefix
// correspondence (Base64EncodedKeyIDAsKID <-> TINK = 1; IgnoredKID, CustomKID <-> RAW = 3),
// written out. A round trip alone cannot see a swap made consistently in both directions.
func VerifH_dispatch_jwtrsassapkcs1_proto() {
	i := verifrt.Choice("alg", 3)
	alg := [...]Algorithm{RS256, RS384, RS512}[i]
	verifrt.Assert(int32(algorithmToProto(alg)) == int32(i+1), "algorithmToProto: wire number of the algorithm")
	verifrt.Assert(int32(algorithmToProto(UnknownAlgorithm)) == 0 && int32(algorithmToProto(RS512+1)) == 0, "algorithmToProto: unknown algorithms map to UNKNOWN")
	verifrt.Assert(algorithmFromProto(algorithmToProto(alg)) == alg, "algorithmFromProto: the algorithm of the wire number")
	verifrt.Assert(algorithmFromProto(algorithmToProto(UnknownAlgorithm)) == UnknownAlgorithm && algorithmFromProto(algorithmToProto(UnknownAlgorithm)+4) == UnknownAlgorithm, "algorithmFromProto: unknown wire numbers give UnknownAlgorithm")
	for si, st := range [...]KIDStrategy{Base64EncodedKeyIDAsKID, IgnoredKID, CustomKID} {
		verifrt.Assert(int32(outputPrefixTypeFromKIDStrategy(st)) == [...]int32{1, 3, 3}[si], "kid strategy -> output prefix type: TINK for Base64EncodedKeyIDAsKID, RAW otherwise")
	}
	verifrt.Assert(outputPrefixTypeFromKIDStrategy(UnknownKIDStrategy) == tinkpb.OutputPrefixType_UNKNOWN_PREFIX, "unknown kid strategy -> UNKNOWN_PREFIX")
	verifrt.Assert(kidStrategyFromOutputPrefixType(tinkpb.OutputPrefixType_TINK, false) == Base64EncodedKeyIDAsKID &&
		kidStrategyFromOutputPrefixType(tinkpb.OutputPrefixType_RAW, false) == IgnoredKID &&
		kidStrategyFromOutputPrefixType(tinkpb.OutputPrefixType_RAW, true) == CustomKID, "output prefix type -> kid strategy")
	for _, t := range [...]tinkpb.OutputPrefixType{tinkpb.OutputPrefixType_UNKNOWN_PREFIX, tinkpb.OutputPrefixType_LEGACY, tinkpb.OutputPrefixType_CRUNCHY} {
		verifrt.Assert(kidStrategyFromOutputPrefixType(t, false) == UnknownKIDStrategy, "LEGACY / CRUNCHY / UNKNOWN output prefixes give UnknownKIDStrategy")
	}
	verifrt.Reach("end")
}
