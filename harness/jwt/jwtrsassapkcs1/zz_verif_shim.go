package jwtrsassapkcs1

import (
	"crypto/rsa"
	"math/big"
)

// VerifUncheckedPrivateKey builds a PrivateKey without crypto/rsa's Validate / Precompute
// (primality and CRT arithmetic on 2048-bit numbers). d, p, q are arbitrary big-endian
// values that the accessors D(), P(), Q() hand back; N and E are taken from the public key
// as NewPrivateKey does.
func VerifUncheckedPrivateKey(publicKey *PublicKey, d, p, q []byte) *PrivateKey {
	return &PrivateKey{
		publicKey: publicKey,
		privateKey: &rsa.PrivateKey{
			PublicKey: rsa.PublicKey{N: new(big.Int).SetBytes(publicKey.Modulus()), E: publicKey.parameters.PublicExponent()},
			D:         new(big.Int).SetBytes(d),
			Primes:    []*big.Int{new(big.Int).SetBytes(p), new(big.Int).SetBytes(q)},
		},
	}
}
