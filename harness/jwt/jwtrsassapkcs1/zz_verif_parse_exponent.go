package jwtrsassapkcs1

import (
	"google.golang.org/protobuf/proto"

	"github.com/tink-crypto/tink-go/v2/internal/protoserialization"
	"github.com/tink-crypto/tink-go/v2/internal/verifrt"
	jwtrsapb "github.com/tink-crypto/tink-go/v2/proto/jwt_rsa_ssa_pkcs1_go_proto"
	tinkpb "github.com/tink-crypto/tink-go/v2/proto/tink_go_proto"
)

// The public-key parser never accepts a public exponent that does not fit the parameters'
// range (odd, 65537 <= e < 2^31) - in particular not one of nine or more bytes whose low
// bytes happen to be a valid exponent.
func VerifH_parse_jwtrsassapkcs1_public_exponent() {
	n := make([]byte, 256)
	copy(n, verifrt.Bytes("nhead", 2))
	verifrt.Assume(n[0] >= 0x80)
	el := 1 + verifrt.Choice("elen", 10) // 1..10 bytes
	e := verifrt.Bytes("e", el)
	verifrt.Assume(e[0] != 0) // no leading zero: the value has exactly el bytes
	msg := &jwtrsapb.JwtRsaSsaPkcs1PublicKey{Version: 0, Algorithm: jwtrsapb.JwtRsaSsaPkcs1Algorithm_RS256, N: n, E: e}
	value, err := proto.Marshal(msg)
	verifrt.Assert(err == nil, "marshal")
	ks, err := protoserialization.NewKeySerialization(&tinkpb.KeyData{TypeUrl: publicKeyTypeURL, Value: value, KeyMaterialType: tinkpb.KeyData_ASYMMETRIC_PUBLIC}, tinkpb.OutputPrefixType_RAW, 0)
	verifrt.Assert(err == nil, "key serialization")
	k, err := (&publicKeyParser{}).ParseKey(ks)
	if el > 4 {
		verifrt.Assert(err != nil, "an exponent of five or more significant bytes (>= 2^32) is never accepted")
		verifrt.Reach("toolarge")
		return
	}
	if err == nil {
		var v uint64
		for _, b := range e {
			v = v<<8 | uint64(b)
		}
		verifrt.Assert(v >= 65537 && v < 1<<31 && v%2 == 1, "accepted => odd exponent in [65537, 2^31)")
		verifrt.Assert(uint64(k.(*PublicKey).parameters.PublicExponent()) == v, "the parsed key carries exactly the encoded exponent")
		verifrt.Reach("accepted")
	} else {
		verifrt.Reach("rejected")
	}
}
