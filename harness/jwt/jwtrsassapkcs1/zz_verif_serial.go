package jwtrsassapkcs1

import (
	"github.com/tink-crypto/tink-go/v2/internal/verifh"
	"github.com/tink-crypto/tink-go/v2/internal/verifrt"
)

func serialCheck(e int) {
	alg := [...]Algorithm{RS256,RS384,RS512}[verifrt.Choice("alg", 3)]
	bits := [...]int{2048, 2049, 3072, 4096, 1<<31 - 1}[verifrt.Choice("bits", 5)]
	si := verifrt.Choice("kid", 3)
	strategy := [...]KIDStrategy{Base64EncodedKeyIDAsKID, IgnoredKID, CustomKID}[si]
	kind := [...]int{0, 3, 3}[si]
	params, err := NewParameters(ParametersOpts{ModulusSizeInBits: bits, PublicExponent: e, Algorithm: alg, KidStrategy: strategy})
	verifrt.Assert(err == nil, "NewParameters")
	verifrt.Assert(params.HasIDRequirement() == (kind != 3), "HasIDRequirement")
	if si != 2 {
		verifh.CheckParamsRoundTrip(params, &parametersSerializer{}, &parametersParser{}, kind, privateKeyTypeURL)
		return
	}
	ign, err := NewParameters(ParametersOpts{ModulusSizeInBits: bits, PublicExponent: e, Algorithm: alg, KidStrategy: IgnoredKID})
	verifrt.Assert(err == nil, "NewParameters(IgnoredKID)")
	verifh.CheckParamsLossyRoundTrip(params, ign, &parametersSerializer{}, &parametersParser{}, kind, privateKeyTypeURL)
}

// Parameters only. Algorithm {RS256, RS384, RS512} x modulus size {2048, 2049, 3072, 4096, 2^31-1} x KID
// strategy {Base64EncodedKeyIDAsKID (TINK), IgnoredKID (RAW), CustomKID (RAW; must parse back
// as IgnoredKID)} x every public exponent NewParameters accepts (odd, F4 <= e <= 2^31-1:
// symbolic).
func VerifH_serialparams_jwtrsassapkcs1() {
	e := verifrt.IntRange("e", f4, maxExponent)
	verifrt.Assume(e%2 == 1)
	serialCheck(e)
}
