package jwt

import (
	"github.com/tink-crypto/tink-go/v2/internal/internalapi"
	"github.com/tink-crypto/tink-go/v2/internal/verifrt"
	"github.com/tink-crypto/tink-go/v2/jwt/jwtecdsa"
	"github.com/tink-crypto/tink-go/v2/jwt/jwtrsassapss"
	"github.com/tink-crypto/tink-go/v2/key"
	"github.com/tink-crypto/tink-go/v2/keyset"
	"github.com/tink-crypto/tink-go/v2/signature/ed25519"
	spb "google.golang.org/protobuf/types/known/structpb"
)

// The public wrappers JWKSetFromPublicKeysetHandle / JWKSetToPublicKeysetHandle
// (jwk_converter.go) call internal/jwk with Ed25519 support OFF: a JWT public key goes
// through in both directions (alg and kid as in the internal/jwk harnesses, which state the
// complete member lists), an Ed25519 key / OKP JWK is refused. The JSON text layer
// (structpb Marshal/UnmarshalJSON) is replaced by the identity on structs; EC point
// validation is stubbed (every point of the right length is accepted).
func VerifH_jwk_converter() {
	verifrt.EngineOnly()
	verifrt.UnwindAssume(2)
	for i, name := range [...]string{"P256Point", "P384Point", "P521Point"} {
		n := 1 + 2*[...]int{32, 48, 66}[i]
		verifrt.Summarize("crypto/internal/fips140/nistec."+name+").SetBytes", func(p any, b []byte) (any, error) {
			if len(b) != n {
				return nil, errJWKConverterStub
			}
			return nil, nil
		})
	}
	var recorded *spb.Struct
	verifrt.Summarize("structpb.Struct).MarshalJSON", func(x *spb.Struct) ([]byte, error) {
		recorded = x
		return []byte("<json>"), nil
	})
	verifrt.Summarize("structpb.Struct).UnmarshalJSON", func(x *spb.Struct, b []byte) error {
		if recorded == nil {
			return errJWKConverterStub
		}
		x.Fields = recorded.Fields
		return nil
	})

	id := verifrt.Uint32("id")
	var k key.Key
	var err error
	wantAlg, wantKID, exportable := "", "", true
	switch verifrt.Choice("key", 3) {
	case 0:
		var p *jwtecdsa.Parameters
		p, err = jwtecdsa.NewParameters(jwtecdsa.Base64EncodedKeyIDAsKID, jwtecdsa.ES384)
		if err == nil {
			point := make([]byte, 97)
			point[0], point[96] = 4, 1
			var pk *jwtecdsa.PublicKey
			pk, err = jwtecdsa.NewPublicKey(jwtecdsa.PublicKeyOpts{PublicPoint: point, IDRequirement: id, Parameters: p})
			if err == nil {
				wantKID, _ = pk.KID()
				k = pk
			}
		}
		wantAlg = "ES384"
	case 1:
		var p *jwtrsassapss.Parameters
		p, err = jwtrsassapss.NewParameters(jwtrsassapss.ParametersOpts{ModulusSizeInBits: 2048, PublicExponent: 65537, Algorithm: jwtrsassapss.PS512, KidStrategy: jwtrsassapss.CustomKID})
		if err == nil {
			modulus := make([]byte, 256)
			modulus[0], modulus[255] = 0x80, 1
			k, err = jwtrsassapss.NewPublicKey(jwtrsassapss.PublicKeyOpts{Modulus: modulus, Parameters: p, HasCustomKID: true, CustomKID: "c-kid"})
		}
		wantAlg, wantKID = "PS512", "c-kid"
	default:
		var p ed25519.Parameters
		p, err = ed25519.NewParameters(ed25519.VariantTink)
		if err == nil {
			k, err = ed25519.NewPublicKey(make([]byte, 32), id, p)
		}
		exportable = false
	}
	verifrt.Assert(err == nil && k != nil, "harness key built")
	if err != nil || k == nil {
		return
	}
	m := keyset.NewManager()
	_, err = m.AddKeyWithOpts(k, internalapi.Token{}, keyset.WithFixedID(id), keyset.AsPrimary())
	verifrt.Assert(err == nil, "manager accepts the key")
	h, err := m.Handle()
	verifrt.Assert(err == nil && h != nil, "Handle()")
	if err != nil || h == nil {
		return
	}
	out, err := JWKSetFromPublicKeysetHandle(h)
	verifrt.Assert((err == nil) == exportable, "JWT public keys are exported; Ed25519 keys are refused by the jwt wrapper")
	if !exportable {
		verifrt.Assert(out == nil && recorded == nil, "nothing is output for a refused keyset")
		// and an OKP JWK is refused on the way in
		x := spb.NewStringValue("AAAAAAAAAAAAAAAAAAAAAAAAAAAAAAAAAAAAAAAAAAA")
		recorded = &spb.Struct{Fields: map[string]*spb.Value{"keys": spb.NewListValue(&spb.ListValue{Values: []*spb.Value{spb.NewStructValue(&spb.Struct{Fields: map[string]*spb.Value{
			"kty": spb.NewStringValue("OKP"), "crv": spb.NewStringValue("Ed25519"), "alg": spb.NewStringValue("EdDSA"), "x": x,
		}})}})}}
		h2, err := JWKSetToPublicKeysetHandle([]byte("<json>"))
		verifrt.Assert(err != nil && h2 == nil, "an OKP JWK is refused by the jwt wrapper")
		verifrt.Reach("refused")
		return
	}
	if err != nil || recorded == nil {
		return
	}
	keys := recorded.Fields["keys"].GetListValue().GetValues()
	verifrt.Assert(len(keys) == 1, "one JWK")
	if len(keys) != 1 {
		return
	}
	jwk := keys[0].GetStructValue().GetFields()
	verifrt.Assert(jwk["alg"].GetStringValue() == wantAlg, "alg of the exported JWK")
	verifrt.AssertEq([]byte(jwk["kid"].GetStringValue()), []byte(wantKID), "kid of the exported JWK == the key's kid")
	h2, err := JWKSetToPublicKeysetHandle(out)
	verifrt.Assert(err == nil && h2 != nil && h2.Len() == 1, "the exported JWK set is imported by the jwt wrapper")
	if err != nil || h2 == nil || h2.Len() != 1 {
		return
	}
	e, err := h2.Entry(0)
	verifrt.Assert(err == nil && e != nil && e.IsPrimary() && e.KeyStatus() == keyset.Enabled, "one enabled primary entry")
	if err != nil || e == nil {
		return
	}
	switch k2 := e.Key().(type) {
	case *jwtecdsa.PublicKey:
		kid, has := k2.KID()
		verifrt.Assert(wantAlg == "ES384" && k2.Parameters().(*jwtecdsa.Parameters).Algorithm() == jwtecdsa.ES384, "ES384 key")
		verifrt.Assert(has, "imported key has the kid")
		verifrt.AssertEq([]byte(kid), []byte(wantKID), "imported key's kid == the original key's kid")
	case *jwtrsassapss.PublicKey:
		kid, has := k2.KID()
		verifrt.Assert(wantAlg == "PS512" && k2.Parameters().(*jwtrsassapss.Parameters).Algorithm() == jwtrsassapss.PS512, "PS512 key")
		verifrt.Assert(has && kid == wantKID, "imported key's kid == the original key's kid")
	default:
		verifrt.Assert(false, "imported key is a JWT public key of the exported type")
	}
	verifrt.Reach("round trip")
}

var errJWKConverterStub = jwkConverterStubError{}

type jwkConverterStubError struct{}

func (jwkConverterStubError) Error() string { return "stub" }
