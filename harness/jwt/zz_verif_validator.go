package jwt

import (
	"time"

	"github.com/tink-crypto/tink-go/v2/internal/verifrt"
)

const maxTS = 253402300799

// ---- reference arithmetic on (seconds, nanoseconds) instants

type inst struct{ s, n int64 }

// addDur adds a duration given as whole seconds ds and nanoseconds dn (|dn| < 1e9, same sign as ds or zero).
func addDur(t inst, ds, dn int64) inst {
	s, n := t.s+ds, t.n+dn
	if n >= 1000000000 {
		s, n = s+1, n-1000000000
	} else if n < 0 {
		s, n = s-1, n+1000000000
	}
	return inst{s, n}
}

func after(a, b inst) bool { return a.s > b.s || (a.s == b.s && a.n > b.n) }

// skews are concrete boundary values; the instants they are compared with are symbolic.
var skews = [...]time.Duration{0, time.Second + 1, 10 * time.Minute, -1, -90 * time.Second, 1, time.Second, 10*time.Minute - 1, -time.Second}

func strOpt(name string) *string {
	switch verifrt.Choice(name, 3) {
	case 0:
		return nil
	case 1:
		s := "a"
		return &s
	}
	s := "b"
	return &s
}

func tsOpt(name string, has bool) (*time.Time, bool, int64) {
	if !has {
		return nil, false, 0
	}
	s := verifrt.Int64(name)
	verifrt.Assume(s >= 0 && s <= maxTS)
	t := time.Unix(s, 0)
	return &t, true, s
}

// Timestamp rules: exp > now - skew, nbf <= now + skew, iat <= now + skew (only when
// ExpectIssuedInThePast, and then iat must be present), missing exp only with
// AllowMissingExpiration. All instants symbolic, skew at its boundaries.
func VerifH_jwt_timestamps_0() { jwtTimestamps(0) }
func VerifH_jwt_timestamps_1() { jwtTimestamps(1) }
func VerifH_jwt_timestamps_2() { jwtTimestamps(2) }
func VerifH_jwt_timestamps_3() { jwtTimestamps(3) }
func VerifH_jwt_timestamps_4() { jwtTimestamps(4) }
func VerifH_jwt_timestamps_5() { jwtTimestamps(5) }
func VerifH_jwt_timestamps_6() { jwtTimestamps(6) }
func VerifH_jwt_timestamps_7() { jwtTimestamps(7) }

// which: bit 0 = exp present, bit 1 = nbf present, bit 2 = iat present
func jwtTimestamps(which int) {
	exp, hasExp, expS := tsOpt("exp", which&1 != 0)
	nbf, hasNbf, nbfS := tsOpt("nbf", which&2 != 0)
	iat, hasIat, iatS := tsOpt("iat", which&4 != 0)
	raw, err := NewRawJWT(&RawJWTOptions{ExpiresAt: exp, NotBefore: nbf, IssuedAt: iat, WithoutExpiration: !hasExp})
	verifrt.Assert(err == nil, "NewRawJWT accepts timestamps in range")
	nsk := 5
	if verifrt.Thorough() {
		nsk = len(skews)
	}
	skew := skews[verifrt.Choice("skew", nsk)]
	opts := &ValidatorOpts{
		AllowMissingExpiration: verifrt.Choice("allowMissingExp", 2) == 1,
		ExpectIssuedInThePast:  verifrt.Choice("expectIat", 2) == 1,
		ClockSkew:              skew,
	}
	var now inst
	if verifrt.Choice("fixedNow", 2) == 1 {
		now = inst{verifrt.Int64("now.sec"), verifrt.Int64("now.nsec")}
		verifrt.Assume(now.s >= 1 && now.s <= maxTS && now.n >= 0 && now.n < 1000000000)
		opts.FixedNow = time.Unix(now.s, now.n)
	} else {
		// the validator reads the clock: the model's clock variables
		verifrt.NativeSkip("the system clock cannot be set natively")
		now = inst{verifrt.Int64("clock.sec"), verifrt.Int64("clock.nsec")}
	}
	v, err := NewValidator(opts)
	verifrt.Assert(err == nil, "NewValidator accepts skews up to 10 minutes")
	got := v.Validate(raw)

	ds, dn := int64(skew/time.Second), int64(skew%time.Second)
	lo := addDur(now, -ds, -dn) // now - skew
	hi := addDur(now, ds, dn)   // now + skew
	ok := true
	if !hasExp {
		ok = opts.AllowMissingExpiration
	} else {
		ok = after(inst{expS, 0}, lo)
	}
	if hasNbf {
		ok = verifrt.And(ok, !after(inst{nbfS, 0}, hi))
	}
	if opts.ExpectIssuedInThePast {
		if !hasIat {
			ok = false
		} else {
			ok = verifrt.And(ok, !after(inst{iatS, 0}, hi))
		}
	}
	verifrt.Assert((got == nil) == ok, "Validate accepts iff exp > now-skew, nbf <= now+skew, iat <= now+skew (when required), exp present unless allowed missing")
	verifrt.Reach("end")
}

// Presence / expectation matrix for typ, iss, aud with timestamps that always pass.
func VerifH_jwt_fields() {
	typ, iss := strOpt("typ"), strOpt("iss")
	var aud *string
	var auds []string
	audKind := verifrt.Choice("audKind", 4)
	switch audKind {
	case 1:
		aud = strOpt("aud")
		if aud == nil {
			audKind = 0
		}
	case 2:
		auds = []string{"a"}
	case 3:
		auds = []string{"b", "a"}
	}
	raw, err := NewRawJWT(&RawJWTOptions{TypeHeader: typ, Issuer: iss, Audience: aud, Audiences: auds, WithoutExpiration: true})
	verifrt.Assert(err == nil, "NewRawJWT")
	opts := &ValidatorOpts{
		ExpectedTypeHeader: strOpt("wantTyp"), ExpectedIssuer: strOpt("wantIss"),
		IgnoreTypeHeader: verifrt.Choice("ignTyp", 2) == 1, IgnoreIssuer: verifrt.Choice("ignIss", 2) == 1, IgnoreAudiences: verifrt.Choice("ignAud", 2) == 1,
		AllowMissingExpiration: true,
	}
	wantAud := strOpt("wantAud")
	if verifrt.Choice("audsField", 2) == 1 {
		opts.ExpectedAudiences = wantAud // deprecated spelling of the same option
	} else {
		opts.ExpectedAudience = wantAud
	}
	v, err := NewValidator(opts)
	conflict := (opts.IgnoreTypeHeader && opts.ExpectedTypeHeader != nil) || (opts.IgnoreIssuer && opts.ExpectedIssuer != nil) || (opts.IgnoreAudiences && wantAud != nil)
	verifrt.Assert((err != nil) == conflict, "NewValidator rejects exactly Expected* together with Ignore*")
	if err != nil {
		verifrt.Reach("conflict")
		return
	}
	got := v.Validate(raw)
	field := func(ignore bool, present *string, want *string) bool {
		if ignore {
			return true
		}
		if want == nil {
			return present == nil
		}
		return present != nil && *present == *want
	}
	ok := field(opts.IgnoreTypeHeader, typ, opts.ExpectedTypeHeader) && field(opts.IgnoreIssuer, iss, opts.ExpectedIssuer)
	// audience: expected value must be one of the listed audiences
	var have []string
	if aud != nil {
		have = []string{*aud}
	} else {
		have = auds
	}
	audOK := false
	switch {
	case opts.IgnoreAudiences:
		audOK = true
	case wantAud == nil:
		audOK = len(have) == 0
	default:
		for _, h := range have {
			if h == *wantAud {
				audOK = true
			}
		}
	}
	verifrt.Assert((got == nil) == (ok && audOK), "Validate accepts iff typ / iss / aud satisfy the expected-vs-present rules")
	verifrt.Reach("end")
}

// Clock-skew limit for every int64 duration.
func VerifH_jwt_skewlimit() {
	d := time.Duration(verifrt.Int64("skew"))
	_, err := NewValidator(&ValidatorOpts{ClockSkew: d})
	verifrt.Assert((err == nil) == (d <= 10*time.Minute), "NewValidator accepts exactly skews <= 10 minutes")
	_, err = NewValidator(nil)
	verifrt.Assert(err != nil, "nil options rejected")
	verifrt.Reach("end")
}
