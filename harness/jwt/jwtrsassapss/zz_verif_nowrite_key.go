package jwtrsassapss

import (
	"github.com/tink-crypto/tink-go/v2/internal/verifh"
	"github.com/tink-crypto/tink-go/v2/internal/verifrt"
)

// JWT RSA public keys own their modulus bytes: neither the slice given to NewPublicKey nor a
// slice returned by Modulus() is the key's own memory.
func VerifH_c19_jwtrsassapss_publickey() {
	mod := make([]byte, 256)
	copy(mod, verifrt.Bytes("head", 3))
	copy(mod[253:], verifrt.Bytes("tail", 3))
	verifrt.Assume(mod[0] >= 0x80) // a 2048-bit modulus
	want := append([]byte{}, mod...)
	params, err := NewParameters(ParametersOpts{ModulusSizeInBits: 2048, PublicExponent: 65537, Algorithm: PS256, KidStrategy: IgnoredKID})
	verifrt.Assert(err == nil, "NewParameters")
	k, err := NewPublicKey(PublicKeyOpts{Modulus: mod, Parameters: params})
	verifrt.Assert(err == nil, "NewPublicKey")
	if verifrt.Choice("site", 2) == 0 {
		verifh.CheckBytesAccessor(k.Modulus, "Modulus()")
		verifrt.AssertEq(k.modulus, want, "key unchanged after writing into Modulus()'s result")
	} else {
		for i := range mod {
			mod[i] ^= 0xff
		}
		verifrt.AssertEq(k.modulus, want, "NewPublicKey(Modulus): the key does not alias the caller's slice")
	}
	verifrt.Reach("end")
}
