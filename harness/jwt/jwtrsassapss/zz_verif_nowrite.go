package jwtrsassapss

import (
	"github.com/tink-crypto/tink-go/v2/internal/verifh"
	"github.com/tink-crypto/tink-go/v2/internal/verifrt"
)

// C19, public key object: NewPublicKey only checks the bit length of the modulus (math/big),
// so it runs on 256 symbolic bytes with the top bit set. The constructor must not keep the
// caller's Modulus slice, Modulus() must return a copy.
func VerifH_c19_jwtrsassapsspublickey() {
	si := verifrt.Choice("kid", 2)
	strategy := [...]KIDStrategy{Base64EncodedKeyIDAsKID, IgnoredKID}[si]
	params, err := NewParameters(ParametersOpts{ModulusSizeInBits: 2048, PublicExponent: 65537, Algorithm: PS256, KidStrategy: strategy})
	verifrt.Assert(err == nil, "NewParameters")
	id := verifrt.Uint32("id")
	if si == 1 {
		id = 0
	}
	mod := verifh.BufWith("modulus", 256, verifh.SpareProfile("spare"), "caller modulus buffer")
	verifrt.Assume(mod[0] >= 0x80)
	mod0 := append([]byte{}, mod...)
	k, err := NewPublicKey(PublicKeyOpts{Modulus: mod, IDRequirement: id, Parameters: params})
	verifrt.Assert(err == nil, "NewPublicKey")
	ref, err := NewPublicKey(PublicKeyOpts{Modulus: append([]byte{}, mod0...), IDRequirement: id, Parameters: params})
	verifrt.Assert(err == nil && k.Equal(ref), "equal to a key made from a copy of the modulus")
	verifh.CheckCtorClones("NewPublicKey(Modulus)", mod, k.Modulus, k.modulus)
	verifh.CheckAccessorsClone(verifh.Accessor{Name: "Modulus", Get: k.Modulus})
	verifrt.Assert(k.Equal(ref) && ref.Equal(k), "public key unchanged by the caller's writes")
	verifrt.Reach("end")
}
