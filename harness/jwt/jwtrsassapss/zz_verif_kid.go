package jwtrsassapss

import (
	"github.com/tink-crypto/tink-go/v2/internal/verifh"
	"github.com/tink-crypto/tink-go/v2/internal/verifrt"
)

// RFC 7518 section 3.1 / 3.5: "alg" values.
var kidAlgTable = [3]struct {
	alg  Algorithm
	name string
}{
	{PS256, "PS256"},
	{PS384, "PS384"},
	{PS512, "PS512"},
}

// "The kid header plays the role of the key's output prefix": for every 32-bit key id, the
// kid of a Base64EncodedKeyIDAsKID key is the unpadded base64url encoding of the four
// big-endian id bytes; CustomKID keys carry exactly the custom value; IgnoredKID keys none.
// Through computeKID and through NewPublicKey (concrete 2048-bit modulus).
func VerifH_kid_jwtrsassapss() {
	row := kidAlgTable[verifrt.Choice("alg", 3)]
	verifrt.Assert(row.alg.String() == row.name, "Algorithm.String() is the RFC 7518 \"alg\" value")
	si := verifrt.Choice("kid", 3)
	strategy := [...]KIDStrategy{Base64EncodedKeyIDAsKID, IgnoredKID, CustomKID}[si]
	params, err := NewParameters(ParametersOpts{ModulusSizeInBits: 2048, PublicExponent: 65537, Algorithm: row.alg, KidStrategy: strategy})
	verifrt.Assert(err == nil && params != nil, "NewParameters")
	if err != nil {
		return
	}
	verifrt.Assert(params.Algorithm() == row.alg && params.KIDStrategy() == strategy && params.HasIDRequirement() == (si == 0), "parameters carry algorithm and strategy")
	id := verifrt.Uint32("id")
	modulus := make([]byte, 256)
	modulus[0], modulus[255] = 0x80, 1
	kidLen := 1
	if si == 2 {
		kidLen = [...]int{0, 1, 7}[verifrt.Choice("kidlen", 3)]
	}
	custom := string(verifrt.Bytes("customkid", kidLen))
	switch si {
	case 0:
		kid, has, err := computeKID(nil, id, params)
		verifrt.Assert(err == nil && has, "computeKID(Base64EncodedKeyIDAsKID)")
		verifrt.AssertEq([]byte(kid), verifh.SpecKID(id), "kid == unpadded base64url of the big-endian key id")
		_, _, e := computeKID(&custom, id, params)
		verifrt.Assert(e != nil, "custom kid refused for Base64EncodedKeyIDAsKID")
		k, err := NewPublicKey(PublicKeyOpts{Modulus: modulus, IDRequirement: id, Parameters: params})
		verifrt.Assert(err == nil && k != nil, "NewPublicKey")
		if err != nil {
			return
		}
		kid2, has2 := k.KID()
		verifrt.Assert(has2, "key has a kid")
		verifrt.AssertEq([]byte(kid2), verifh.SpecKID(id), "NewPublicKey: kid == unpadded base64url of the big-endian key id")
		gotID, req := k.IDRequirement()
		verifrt.Assert(req && gotID == id, "id requirement")
		_, e = NewPublicKey(PublicKeyOpts{Modulus: modulus, IDRequirement: id, Parameters: params, HasCustomKID: true, CustomKID: custom})
		verifrt.Assert(e != nil, "NewPublicKey: custom kid refused for Base64EncodedKeyIDAsKID")
	case 1:
		kid, has, err := computeKID(nil, id, params)
		verifrt.Assert(err == nil && !has && kid == "", "IgnoredKID: no kid")
		_, _, e := computeKID(&custom, id, params)
		verifrt.Assert(e != nil, "custom kid refused for IgnoredKID")
		k, err := NewPublicKey(PublicKeyOpts{Modulus: modulus, IDRequirement: 0, Parameters: params})
		verifrt.Assert(err == nil && k != nil, "NewPublicKey")
		if err != nil {
			return
		}
		kid2, has2 := k.KID()
		verifrt.Assert(!has2 && kid2 == "", "NewPublicKey(IgnoredKID): no kid")
		_, e = NewPublicKey(PublicKeyOpts{Modulus: modulus, IDRequirement: id, Parameters: params})
		verifrt.Assert((e == nil) == (id == 0), "a key without id requirement must have id 0")
	case 2:
		kid, has, err := computeKID(&custom, id, params)
		verifrt.Assert(err == nil && has, "computeKID(CustomKID)")
		verifrt.AssertEq([]byte(kid), []byte(custom), "CustomKID: kid == custom value")
		_, _, e := computeKID(nil, id, params)
		verifrt.Assert(e != nil, "CustomKID requires a custom kid")
		k, err := NewPublicKey(PublicKeyOpts{Modulus: modulus, IDRequirement: 0, Parameters: params, HasCustomKID: true, CustomKID: custom})
		verifrt.Assert(err == nil && k != nil, "NewPublicKey")
		if err != nil {
			return
		}
		kid2, has2 := k.KID()
		verifrt.Assert(has2, "NewPublicKey(CustomKID): has kid")
		verifrt.AssertEq([]byte(kid2), []byte(custom), "NewPublicKey(CustomKID): kid == custom value")
		_, e = NewPublicKey(PublicKeyOpts{Modulus: modulus, IDRequirement: 0, Parameters: params})
		verifrt.Assert(e != nil, "NewPublicKey(CustomKID) without a custom kid is refused")
		_, e = createPrivateKey(params, 0)
		verifrt.Assert(e != nil, "no key generation for CustomKID")
	}
	verifrt.Reach("end")
}
