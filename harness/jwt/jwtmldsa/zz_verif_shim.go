package jwtmldsa

import "github.com/tink-crypto/tink-go/v2/secretdata"

// VerifUncheckedPrivateKey builds a PrivateKey without re-deriving the public key from the
// seed (a full ML-DSA key generation). The fields are exactly those
// NewPrivateKeyFromPublicKey sets.
func VerifUncheckedPrivateKey(seed secretdata.Bytes, publicKey *PublicKey) *PrivateKey {
	return &PrivateKey{publicKey: publicKey, privateKeyBytes: seed}
}
