package jwtmldsa

import (
	"github.com/tink-crypto/tink-go/v2/internal/verifh"
	"github.com/tink-crypto/tink-go/v2/internal/verifrt"
)

// "alg" values of RFC 9964 (ML-DSA for JOSE and COSE) and the public key sizes of FIPS 204
// Table 2, written out.
var kidAlgTable = [3]struct {
	alg   Algorithm
	name  string
	pkLen int
}{
	{MLDSA44, "ML-DSA-44", 1312},
	{MLDSA65, "ML-DSA-65", 1952},
	{MLDSA87, "ML-DSA-87", 2592},
}

// "The kid header plays the role of the key's output prefix" for JWT ML-DSA keys, through
// computeKID and through NewPublicKey; the "alg" names; NewPublicKey accepts exactly the
// FIPS 204 public key length of the algorithm.
func VerifH_kid_jwtmldsa() {
	row := kidAlgTable[verifrt.Choice("alg", 3)]
	verifrt.Assert(row.alg.String() == row.name, "Algorithm.String() is the RFC 9964 \"alg\" value")
	si := verifrt.Choice("kid", 3)
	strategy := [...]KIDStrategy{Base64EncodedKeyIDAsKID, IgnoredKID, CustomKID}[si]
	params, err := NewParameters(strategy, row.alg)
	verifrt.Assert(err == nil && params != nil, "NewParameters")
	if err != nil {
		return
	}
	verifrt.Assert(params.Algorithm() == row.alg && params.KIDStrategy() == strategy && params.HasIDRequirement() == (si == 0), "parameters carry algorithm and strategy")
	id := verifrt.Uint32("id")
	pk := make([]byte, row.pkLen)
	pk[0], pk[row.pkLen-1] = verifrt.Byte("pk0"), verifrt.Byte("pkN")
	kidLen := 1
	if si == 2 {
		kidLen = [...]int{0, 1, 7}[verifrt.Choice("kidlen", 3)]
	}
	custom := string(verifrt.Bytes("customkid", kidLen))
	switch si {
	case 0:
		kid, has, err := computeKID("", false, id, params)
		verifrt.Assert(err == nil && has, "computeKID(Base64EncodedKeyIDAsKID)")
		verifrt.AssertEq([]byte(kid), verifh.SpecKID(id), "kid == unpadded base64url of the big-endian key id")
		_, _, e := computeKID(custom, true, id, params)
		verifrt.Assert(e != nil, "custom kid refused for Base64EncodedKeyIDAsKID")
		k, err := NewPublicKey(PublicKeyOpts{KeyBytes: pk, IDRequirement: id, Parameters: params})
		verifrt.Assert(err == nil && k != nil, "NewPublicKey accepts the FIPS 204 public key length")
		if err != nil {
			return
		}
		kid2, has2 := k.KID()
		verifrt.Assert(has2, "key has a kid")
		verifrt.AssertEq([]byte(kid2), verifh.SpecKID(id), "NewPublicKey: kid == unpadded base64url of the big-endian key id")
		gotID, req := k.IDRequirement()
		verifrt.Assert(req && gotID == id, "id requirement")
		kb := k.KeyBytes()
		verifrt.Assert(len(kb) == row.pkLen && kb[0] == pk[0] && kb[row.pkLen-1] == pk[row.pkLen-1], "key bytes carried over")
		_, e = NewPublicKey(PublicKeyOpts{KeyBytes: pk, IDRequirement: id, Parameters: params, HasCustomKID: true, CustomKID: custom})
		verifrt.Assert(e != nil, "NewPublicKey: custom kid refused for Base64EncodedKeyIDAsKID")
		// every other length is refused, in particular the other two instances' lengths
		for _, l := range [...]int{0, 1311, 1312, 1313, 1951, 1952, 1953, 2591, 2592, 2593} {
			_, e := NewPublicKey(PublicKeyOpts{KeyBytes: make([]byte, l), IDRequirement: id, Parameters: params})
			verifrt.Assert((e == nil) == (l == row.pkLen), "NewPublicKey accepts exactly the FIPS 204 public key length of its algorithm")
		}
	case 1:
		kid, has, err := computeKID("", false, id, params)
		verifrt.Assert(err == nil && !has && kid == "", "IgnoredKID: no kid")
		_, _, e := computeKID(custom, true, id, params)
		verifrt.Assert(e != nil, "custom kid refused for IgnoredKID")
		k, err := NewPublicKey(PublicKeyOpts{KeyBytes: pk, IDRequirement: 0, Parameters: params})
		verifrt.Assert(err == nil && k != nil, "NewPublicKey")
		if err != nil {
			return
		}
		kid2, has2 := k.KID()
		verifrt.Assert(!has2 && kid2 == "", "NewPublicKey(IgnoredKID): no kid")
		_, e = NewPublicKey(PublicKeyOpts{KeyBytes: pk, IDRequirement: id, Parameters: params})
		verifrt.Assert((e == nil) == (id == 0), "a key without id requirement must have id 0")
	case 2:
		kid, has, err := computeKID(custom, true, id, params)
		verifrt.Assert(err == nil && has, "computeKID(CustomKID)")
		verifrt.AssertEq([]byte(kid), []byte(custom), "CustomKID: kid == custom value")
		_, _, e := computeKID("", false, id, params)
		verifrt.Assert(e != nil, "CustomKID requires a custom kid")
		k, err := NewPublicKey(PublicKeyOpts{KeyBytes: pk, IDRequirement: 0, Parameters: params, HasCustomKID: true, CustomKID: custom})
		verifrt.Assert(err == nil && k != nil, "NewPublicKey")
		if err != nil {
			return
		}
		kid2, has2 := k.KID()
		verifrt.Assert(has2, "NewPublicKey(CustomKID): has kid")
		verifrt.AssertEq([]byte(kid2), []byte(custom), "NewPublicKey(CustomKID): kid == custom value")
		_, e = NewPublicKey(PublicKeyOpts{KeyBytes: pk, IDRequirement: 0, Parameters: params})
		verifrt.Assert(e != nil, "NewPublicKey(CustomKID) without a custom kid is refused")
		_, e = createPrivateKey(params, 0)
		verifrt.Assert(e != nil, "no key generation for CustomKID")
	}
	verifrt.Reach("end")
}
