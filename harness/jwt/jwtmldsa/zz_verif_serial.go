package jwtmldsa

import (
	"github.com/tink-crypto/tink-go/v2/internal/verifh"
	"github.com/tink-crypto/tink-go/v2/internal/verifrt"
)

// Parameters only. Algorithm {MLDSA44,MLDSA65,MLDSA87} x KID strategy {Base64EncodedKeyIDAsKID (TINK),
// IgnoredKID (RAW), CustomKID (RAW)}. CustomKID parameters are by design not representable as
// a key template: they must serialize to the RAW template that parses as IgnoredKID.
func VerifH_serialparams_jwtmldsa() {
	alg := [...]Algorithm{MLDSA44,MLDSA65,MLDSA87}[verifrt.Choice("alg", 3)]
	si := verifrt.Choice("kid", 3)
	strategy := [...]KIDStrategy{Base64EncodedKeyIDAsKID, IgnoredKID, CustomKID}[si]
	kind := [...]int{0, 3, 3}[si]
	params, err := NewParameters(strategy, alg)
	verifrt.Assert(err == nil, "NewParameters")
	verifrt.Assert(params.HasIDRequirement() == (kind != 3), "HasIDRequirement")
	if si != 2 {
		verifh.CheckParamsRoundTrip(params, &parametersSerializer{}, &parametersParser{}, kind, privateKeyTypeURL)
		return
	}
	ign, err := NewParameters(IgnoredKID, alg)
	verifrt.Assert(err == nil, "NewParameters(IgnoredKID)")
	verifh.CheckParamsLossyRoundTrip(params, ign, &parametersSerializer{}, &parametersParser{}, kind, privateKeyTypeURL)
}
