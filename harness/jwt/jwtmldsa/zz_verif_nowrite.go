package jwtmldsa

import (
	"github.com/tink-crypto/tink-go/v2/internal/verifh"
	"github.com/tink-crypto/tink-go/v2/internal/verifrt"
)

// C19, public key object (the constructor only checks the length): NewPublicKey clones the
// caller's key bytes, KeyBytes() returns a copy.
func VerifH_c19_jwtmldsapublickey() {
	si := verifrt.Choice("kid", 2)
	strategy := [...]KIDStrategy{Base64EncodedKeyIDAsKID, IgnoredKID}[si]
	ai := verifrt.Choice("alg", 3)
	alg := [...]Algorithm{MLDSA44, MLDSA65, MLDSA87}[ai]
	n := [...]int{1312, 1952, 2592}[ai]
	params, err := NewParameters(strategy, alg)
	verifrt.Assert(err == nil, "NewParameters")
	id := verifrt.Uint32("id")
	if si == 1 {
		id = 0
	}
	pub := verifh.BufWith("pub", n, verifh.SpareProfile("spare"), "caller public-key buffer")
	pub0 := append([]byte{}, pub...)
	k, err := NewPublicKey(PublicKeyOpts{KeyBytes: pub, IDRequirement: id, Parameters: params})
	verifrt.Assert(err == nil, "NewPublicKey")
	ref, err := NewPublicKey(PublicKeyOpts{KeyBytes: append([]byte{}, pub0...), IDRequirement: id, Parameters: params})
	verifrt.Assert(err == nil && k.Equal(ref), "equal to a key made from a copy of the bytes")
	verifh.CheckCtorClones("NewPublicKey(KeyBytes)", pub, k.KeyBytes, k.keyBytes)
	verifh.CheckAccessorsClone(verifh.Accessor{Name: "KeyBytes", Get: k.KeyBytes})
	verifrt.Assert(k.Equal(ref) && ref.Equal(k), "public key unchanged by the caller's writes")
	verifrt.Reach("end")
}
