package jwtmldsa

import (
	"github.com/tink-crypto/tink-go/v2/insecuresecretdataaccess"
	imldsa "github.com/tink-crypto/tink-go/v2/internal/signature/mldsa"
	"github.com/tink-crypto/tink-go/v2/internal/verifh"
	"github.com/tink-crypto/tink-go/v2/internal/verifrt"
	"github.com/tink-crypto/tink-go/v2/secretdata"
)

// keyGenForAlgorithm: the public key of a JWT ML-DSA private key is derived from the 32-byte
// seed with ML-DSA.KeyGen_internal of the parameter set the "alg" names (FIPS 204); a private
// key whose seed does not generate the public key is refused; createPrivateKey draws one
// 32-byte seed.
func VerifH_dispatch_jwtmldsa_keygen() {
	verifrt.EngineOnly()
	i := verifrt.Choice("alg", 3)
	alg := [...]Algorithm{MLDSA44, MLDSA65, MLDSA87}[i]
	name := [...]string{"MLDSA44", "MLDSA65", "MLDSA87"}[i] // exported variable of internal/signature/mldsa
	pkLen := [...]int{1312, 1952, 2592}[i]                  // FIPS 204 Table 2
	si := verifrt.Choice("kid", 2)
	strategy := [...]KIDStrategy{Base64EncodedKeyIDAsKID, IgnoredKID}[si]
	id := uint32(0)
	if si == 0 {
		id = verifrt.Uint32("id")
	}
	params, err := NewParameters(strategy, alg)
	verifrt.Assert(err == nil, "NewParameters")
	var log []imldsa.VerifDispatchRecord
	imldsa.VerifInstallDispatchLog(&log)
	genPK := verifrt.Bytes("kg_pk", pkLen) // what the stubbed key generation's public key encodes to
	seed := verifrt.Bytes("seed", 32)

	pub, err := NewPublicKey(PublicKeyOpts{KeyBytes: genPK, IDRequirement: id, Parameters: params})
	verifrt.Assert(err == nil && pub != nil, "NewPublicKey")
	if err != nil {
		return
	}
	priv, err := NewPrivateKeyFromPublicKey(secretdata.NewBytesFromData(seed, insecuresecretdataaccess.Token{}), pub)
	verifrt.Assert(err == nil && priv != nil, "NewPrivateKeyFromPublicKey accepts the seed that generates the public key")
	verifrt.Assert(len(log) == 1 && log[0].Call == "KeyGenFromSeed:"+name, "the public key is re-derived with the parameter set the algorithm names")
	if len(log) == 1 {
		verifrt.AssertEq(log[0].Arg, seed, "the key's seed is expanded")
	}
	// a different public key is refused
	other := append([]byte{}, genPK...)
	other[pkLen-1] ^= 1 | verifrt.Byte("delta")
	pub2, err := NewPublicKey(PublicKeyOpts{KeyBytes: other, IDRequirement: id, Parameters: params})
	verifrt.Assert(err == nil, "NewPublicKey")
	if err == nil {
		_, e := NewPrivateKeyFromPublicKey(secretdata.NewBytesFromData(seed, insecuresecretdataaccess.Token{}), pub2)
		verifrt.Assert(e != nil, "a seed that does not generate the public key is refused")
	}
	for _, l := range [...]int{0, 31, 33} {
		_, e := NewPrivateKeyFromPublicKey(secretdata.NewBytesFromData(make([]byte, l), insecuresecretdataaccess.Token{}), pub)
		verifrt.Assert(e != nil, "a seed that is not 32 bytes is refused")
	}

	log = nil
	d0 := verifrt.Draws()
	k, err := createPrivateKey(params, id)
	verifrt.Assert(err == nil && k != nil, "createPrivateKey")
	if err == nil {
		verifrt.Assert(verifrt.Draws() == d0+1 && len(verifrt.DrawBytes(d0)) == 32, "createPrivateKey draws one 32-byte seed")
		verifrt.Assert(len(log) >= 1 && log[0].Call == "KeyGenFromSeed:"+name, "createPrivateKey generates with the parameter set the algorithm names")
		for _, r := range log {
			verifrt.Assert(r.Call == "KeyGenFromSeed:"+name, "every key generation uses the parameter set the algorithm names")
			verifrt.AssertEq(r.Arg, verifrt.DrawBytes(d0), "the drawn seed is expanded")
		}
		gk := k.(*PrivateKey)
		verifrt.AssertEq(gk.PrivateKeyValue().Data(insecuresecretdataaccess.Token{}), verifrt.DrawBytes(d0), "the private key value is the drawn seed")
		verifrt.AssertEq(gk.publicKey.KeyBytes(), genPK, "the public key is the generated one")
		kid, has := gk.publicKey.KID()
		verifrt.Assert(has == (si == 0), "kid present iff Base64EncodedKeyIDAsKID")
		if si == 0 {
			verifrt.AssertEq([]byte(kid), verifh.SpecKID(id), "generated key: kid == unpadded base64url of the big-endian key id")
		}
	}
	verifrt.Reach("end")
}
