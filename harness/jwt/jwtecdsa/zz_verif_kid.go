package jwtecdsa

import (
	"github.com/tink-crypto/tink-go/v2/internal/verifh"
	"github.com/tink-crypto/tink-go/v2/internal/verifrt"
)

// RFC 7518 section 3.1 / 3.4: "alg" value, curve, size of one coordinate in bytes.
var kidAlgTable = [3]struct {
	alg   Algorithm
	name  string
	curve string
	coord int
}{
	{ES256, "ES256", "P-256", 32},
	{ES384, "ES384", "P-384", 48},
	{ES512, "ES512", "P-521", 66},
}

// stubPointValidation replaces the on-curve check of crypto/ecdh (nistec field arithmetic,
// partly assembly, which the engine does not execute) by "every point is accepted" and
// records on which curve the check was requested. Everything above it (crypto/ecdh's
// NewPublicKey: leading byte 4, curve selection) runs as real code. The receiver is an
// internal type that cannot be named here; it is not touched.
func stubPointValidation(curveLog *[]string) {
	verifrt.Summarize("crypto/internal/fips140/nistec.P256Point).SetBytes", func(p any, b []byte) (any, error) {
		*curveLog = append(*curveLog, "P-256")
		return nil, nil
	})
	verifrt.Summarize("crypto/internal/fips140/nistec.P384Point).SetBytes", func(p any, b []byte) (any, error) {
		*curveLog = append(*curveLog, "P-384")
		return nil, nil
	})
	verifrt.Summarize("crypto/internal/fips140/nistec.P521Point).SetBytes", func(p any, b []byte) (any, error) {
		*curveLog = append(*curveLog, "P-521")
		return nil, nil
	})
}

// "The kid header plays the role of the key's output prefix" for JWT ECDSA keys, through
// computeKID and through NewPublicKey (point validation stubbed), plus the "alg" names and
// the curve NewPublicKey validates the point on (RFC 7518 section 3.4).
func VerifH_kid_jwtecdsa() {
	verifrt.EngineOnly()
	row := kidAlgTable[verifrt.Choice("alg", 3)]
	verifrt.Assert(row.alg.String() == row.name, "Algorithm.String() is the RFC 7518 \"alg\" value")
	si := verifrt.Choice("kid", 3)
	strategy := [...]KIDStrategy{Base64EncodedKeyIDAsKID, IgnoredKID, CustomKID}[si]
	params, err := NewParameters(strategy, row.alg)
	verifrt.Assert(err == nil && params != nil, "NewParameters")
	if err != nil {
		return
	}
	verifrt.Assert(params.Algorithm() == row.alg && params.KIDStrategy() == strategy && params.HasIDRequirement() == (si == 0), "parameters carry algorithm and strategy")
	var curveLog []string
	stubPointValidation(&curveLog)
	id := verifrt.Uint32("id")
	point := append([]byte{4}, verifrt.Bytes("xy", 2*row.coord)...)
	kidLen := 1
	if si == 2 {
		kidLen = [...]int{0, 1, 7}[verifrt.Choice("kidlen", 3)]
	}
	custom := string(verifrt.Bytes("customkid", kidLen))
	switch si {
	case 0:
		kid, has, err := computeKID("", false, id, params)
		verifrt.Assert(err == nil && has, "computeKID(Base64EncodedKeyIDAsKID)")
		verifrt.AssertEq([]byte(kid), verifh.SpecKID(id), "kid == unpadded base64url of the big-endian key id")
		_, _, e := computeKID(custom, true, id, params)
		verifrt.Assert(e != nil, "custom kid refused for Base64EncodedKeyIDAsKID")
		k, err := NewPublicKey(PublicKeyOpts{PublicPoint: point, IDRequirement: id, Parameters: params})
		verifrt.Assert(err == nil && k != nil, "NewPublicKey")
		if err != nil {
			return
		}
		verifrt.Assert(len(curveLog) == 1 && curveLog[0] == row.curve, "the point is validated on the curve RFC 7518 assigns to the algorithm")
		kid2, has2 := k.KID()
		verifrt.Assert(has2, "key has a kid")
		verifrt.AssertEq([]byte(kid2), verifh.SpecKID(id), "NewPublicKey: kid == unpadded base64url of the big-endian key id")
		gotID, req := k.IDRequirement()
		verifrt.Assert(req && gotID == id, "id requirement")
		verifrt.AssertEq(k.PublicPoint(), point, "public point carried over")
		_, e = NewPublicKey(PublicKeyOpts{PublicPoint: point, IDRequirement: id, Parameters: params, HasCustomKID: true, CustomKID: custom})
		verifrt.Assert(e != nil, "NewPublicKey: custom kid refused for Base64EncodedKeyIDAsKID")
	case 1:
		kid, has, err := computeKID("", false, id, params)
		verifrt.Assert(err == nil && !has && kid == "", "IgnoredKID: no kid")
		_, _, e := computeKID(custom, true, id, params)
		verifrt.Assert(e != nil, "custom kid refused for IgnoredKID")
		k, err := NewPublicKey(PublicKeyOpts{PublicPoint: point, IDRequirement: 0, Parameters: params})
		verifrt.Assert(err == nil && k != nil, "NewPublicKey")
		if err != nil {
			return
		}
		verifrt.Assert(len(curveLog) == 1 && curveLog[0] == row.curve, "the point is validated on the curve RFC 7518 assigns to the algorithm")
		kid2, has2 := k.KID()
		verifrt.Assert(!has2 && kid2 == "", "NewPublicKey(IgnoredKID): no kid")
		_, e = NewPublicKey(PublicKeyOpts{PublicPoint: point, IDRequirement: id, Parameters: params})
		verifrt.Assert((e == nil) == (id == 0), "a key without id requirement must have id 0")
	case 2:
		kid, has, err := computeKID(custom, true, id, params)
		verifrt.Assert(err == nil && has, "computeKID(CustomKID)")
		verifrt.AssertEq([]byte(kid), []byte(custom), "CustomKID: kid == custom value")
		_, _, e := computeKID("", false, id, params)
		verifrt.Assert(e != nil, "CustomKID requires a custom kid")
		k, err := NewPublicKey(PublicKeyOpts{PublicPoint: point, IDRequirement: 0, Parameters: params, HasCustomKID: true, CustomKID: custom})
		verifrt.Assert(err == nil && k != nil, "NewPublicKey")
		if err != nil {
			return
		}
		verifrt.Assert(len(curveLog) == 1 && curveLog[0] == row.curve, "the point is validated on the curve RFC 7518 assigns to the algorithm")
		kid2, has2 := k.KID()
		verifrt.Assert(has2, "NewPublicKey(CustomKID): has kid")
		verifrt.AssertEq([]byte(kid2), []byte(custom), "NewPublicKey(CustomKID): kid == custom value")
		_, e = NewPublicKey(PublicKeyOpts{PublicPoint: point, IDRequirement: 0, Parameters: params})
		verifrt.Assert(e != nil, "NewPublicKey(CustomKID) without a custom kid is refused")
		_, e = createPrivateKey(params, 0)
		verifrt.Assert(e != nil, "no key generation for CustomKID")
	}
	verifrt.Reach("end")
}
