package jwtecdsa

import (
	"crypto/ecdh"

	"github.com/tink-crypto/tink-go/v2/internal/verifh"
	"github.com/tink-crypto/tink-go/v2/internal/verifrt"
)

// JWT ECDSA public keys own their point bytes: neither the slice given to NewPublicKey nor a
// slice returned by PublicPoint() is the key's own memory. Under the engine the point
// validation (crypto/ecdh) is replaced by "valid"; natively the point is the P-256 generator.
func VerifH_c19_jwtecdsa_publickey() {
	var pt []byte
	if verifrt.Symbolic() {
		verifrt.Summarize("crypto/ecdh.nistCurve).NewPublicKey", func(_ *struct{}, _ []byte) (*ecdh.PublicKey, error) {
			return &ecdh.PublicKey{}, nil
		})
		pt = verifrt.Bytes("point", 65)
	} else {
		pt = append([]byte{}, p256Generator...)
	}
	want := append([]byte{}, pt...)
	params, err := NewParameters(IgnoredKID, ES256)
	verifrt.Assert(err == nil, "NewParameters")
	k, err := NewPublicKey(PublicKeyOpts{PublicPoint: pt, Parameters: params})
	verifrt.Assert(err == nil, "NewPublicKey")
	if verifrt.Choice("site", 2) == 0 {
		verifh.CheckBytesAccessor(k.PublicPoint, "PublicPoint()")
		verifrt.AssertEq(k.publicPoint, want, "key unchanged after writing into PublicPoint()'s result")
	} else {
		for i := range pt {
			pt[i] ^= 0xff
		}
		verifrt.AssertEq(k.publicPoint, want, "NewPublicKey(PublicPoint): the key does not alias the caller's slice")
	}
	verifrt.Reach("end")
}

var p256Generator = []byte{0x04,
	0x6b, 0x17, 0xd1, 0xf2, 0xe1, 0x2c, 0x42, 0x47, 0xf8, 0xbc, 0xe6, 0xe5, 0x63, 0xa4, 0x40, 0xf2,
	0x77, 0x03, 0x7d, 0x81, 0x2d, 0xeb, 0x33, 0xa0, 0xf4, 0xa1, 0x39, 0x45, 0xd8, 0x98, 0xc2, 0x96,
	0x4f, 0xe3, 0x42, 0xe2, 0xfe, 0x1a, 0x7f, 0x9b, 0x8e, 0xe7, 0xeb, 0x4a, 0x7c, 0x0f, 0x9e, 0x16,
	0x2b, 0xce, 0x33, 0x57, 0x6b, 0x31, 0x5e, 0xce, 0xcb, 0xb6, 0x40, 0x68, 0x37, 0xbf, 0x51, 0xf5}
