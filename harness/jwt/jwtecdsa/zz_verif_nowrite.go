package jwtecdsa

import (
	"crypto/ecdh"
	"errors"

	"github.com/tink-crypto/tink-go/v2/internal/verifh"
	"github.com/tink-crypto/tink-go/v2/internal/verifrt"
)

// C19, public key object (ES256). Point validation is curve arithmetic inside crypto/ecdh
// (assembly); under the engine (*ecdh.nistCurve).NewPublicKey is replaced by the format
// check "65 bytes, leading 0x04" (the on-curve condition does not matter for what is decided
// here); natively arbitrary bytes are not a valid point, so the native run is skipped and
// the verdict is engine-level. What is decided is Tink's own handling of the slice: the
// constructor must not keep the caller's PublicPoint slice and PublicPoint() must return a
// copy.
func VerifH_c19_jwtecdsapublickey() {
	verifrt.NativeSkip("arbitrary bytes are not a P-256 point")
	verifrt.Summarize("crypto/ecdh.nistCurve).NewPublicKey", func(c any, key []byte) (*ecdh.PublicKey, error) {
		if len(key) != 65 || key[0] != 4 {
			return nil, errors.New("crypto/ecdh: invalid public key")
		}
		return nil, nil
	})
	si := verifrt.Choice("kid", 2)
	strategy := [...]KIDStrategy{Base64EncodedKeyIDAsKID, IgnoredKID}[si]
	params, err := NewParameters(strategy, ES256)
	verifrt.Assert(err == nil, "NewParameters")
	id := verifrt.Uint32("id")
	if si == 1 {
		id = 0
	}
	pt := verifh.BufWith("point", 65, verifh.SpareProfile("spare"), "caller public-point buffer")
	verifrt.Assume(pt[0] == 4)
	pt0 := append([]byte{}, pt...)
	k, err := NewPublicKey(PublicKeyOpts{PublicPoint: pt, IDRequirement: id, Parameters: params})
	verifrt.Assert(err == nil, "NewPublicKey")
	ref, err := NewPublicKey(PublicKeyOpts{PublicPoint: append([]byte{}, pt0...), IDRequirement: id, Parameters: params})
	verifrt.Assert(err == nil && k.Equal(ref), "equal to a key made from a copy of the point")
	switch verifrt.Choice("what", 2) {
	case 0:
		verifh.CheckCtorClones("NewPublicKey(PublicPoint)", pt, func() []byte { return append([]byte{}, k.publicPoint...) }, k.publicPoint)
	default:
		verifh.Unprotect(pt)
		verifh.CheckAccessorsClone(verifh.Accessor{Name: "PublicPoint", Get: k.PublicPoint})
	}
	verifrt.Assert(k.Equal(ref) && ref.Equal(k), "public key unchanged by the caller's writes")
	verifrt.Reach("end")
}
