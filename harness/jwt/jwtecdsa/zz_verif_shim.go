package jwtecdsa

import "github.com/tink-crypto/tink-go/v2/secretdata"

// VerifUncheckedPrivateKey builds a PrivateKey without the scalar-multiplication consistency
// check of NewPrivateKeyFromPublicKey (crypto/ecdh arithmetic the engine does not execute).
// For harnesses of other packages that need a key object to hand to the JWT primitive
// constructors; the fields are exactly those NewPrivateKeyFromPublicKey sets.
func VerifUncheckedPrivateKey(keyBytes secretdata.Bytes, publicKey *PublicKey) *PrivateKey {
	return &PrivateKey{publicKey: publicKey, privateKeyBytes: keyBytes}
}
