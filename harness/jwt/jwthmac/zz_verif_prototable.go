package jwthmac

import (
	"github.com/tink-crypto/tink-go/v2/internal/verifrt"
	tinkpb "github.com/tink-crypto/tink-go/v2/proto/tink_go_proto"
)

// Wire numbers of the algorithm enum in the key format's .proto file (UNKNOWN = 0, then the
// three algorithms in ascending strength = 1, 2, 3), and the kid strategy <-> output prefix
// correspondence (Base64EncodedKeyIDAsKID <-> TINK = 1; IgnoredKID, CustomKID <-> RAW = 3),
// written out. A round trip alone cannot see a swap made consistently in both directions.
func VerifH_dispatch_jwthmac_proto() {
	i := verifrt.Choice("alg", 3)
	alg := [...]Algorithm{HS256, HS384, HS512}[i]
	verifrt.Assert(int32(algorithmToProto(alg)) == int32(i+1), "algorithmToProto: wire number of the algorithm")
	verifrt.Assert(int32(algorithmToProto(UnknownAlgorithm)) == 0 && int32(algorithmToProto(HS512+1)) == 0, "algorithmToProto: unknown algorithms map to UNKNOWN")
	back, err := algorithmFromProto(algorithmToProto(alg))
	verifrt.Assert(err == nil && back == alg, "algorithmFromProto: the algorithm of the wire number")
	_, e0 := algorithmFromProto(algorithmToProto(UnknownAlgorithm))
	_, e4 := algorithmFromProto(algorithmToProto(UnknownAlgorithm) + 4)
	verifrt.Assert(e0 != nil && e4 != nil, "algorithmFromProto: unknown wire numbers are refused")
	for si, st := range [...]KIDStrategy{Base64EncodedKeyIDAsKID, IgnoredKID, CustomKID} {
		opt, err := outputPrefixTypeFromKIDStrategy(st)
		verifrt.Assert(err == nil && int32(opt) == [...]int32{1, 3, 3}[si], "kid strategy -> output prefix type: TINK for Base64EncodedKeyIDAsKID, RAW otherwise")
	}
	_, eu := outputPrefixTypeFromKIDStrategy(UnknownKIDStrategy)
	verifrt.Assert(eu != nil, "unknown kid strategy refused")
	s1, e1 := kidStrategyFromOutputPrefixType(tinkpb.OutputPrefixType_TINK, false)
	s2, e2 := kidStrategyFromOutputPrefixType(tinkpb.OutputPrefixType_RAW, false)
	s3, e3 := kidStrategyFromOutputPrefixType(tinkpb.OutputPrefixType_RAW, true)
	verifrt.Assert(e1 == nil && e2 == nil && e3 == nil && s1 == Base64EncodedKeyIDAsKID && s2 == IgnoredKID && s3 == CustomKID, "output prefix type -> kid strategy")
	for _, t := range [...]tinkpb.OutputPrefixType{tinkpb.OutputPrefixType_UNKNOWN_PREFIX, tinkpb.OutputPrefixType_LEGACY, tinkpb.OutputPrefixType_CRUNCHY} {
		_, e := kidStrategyFromOutputPrefixType(t, false)
		verifrt.Assert(e != nil, "LEGACY / CRUNCHY / UNKNOWN output prefixes are refused")
	}
	verifrt.Reach("end")
}
