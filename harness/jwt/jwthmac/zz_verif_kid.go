package jwthmac

import (
	"github.com/tink-crypto/tink-go/v2/insecuresecretdataaccess"
	"github.com/tink-crypto/tink-go/v2/internal/verifh"
	"github.com/tink-crypto/tink-go/v2/internal/verifrt"
	"github.com/tink-crypto/tink-go/v2/secretdata"
)

// RFC 7518 section 3.1 / 3.2, written out: "alg" value, hash output size = minimum key size.
var kidHSTable = [3]struct {
	alg  Algorithm
	name string
	min  int
}{
	{HS256, "HS256", 32},
	{HS384, "HS384", 48},
	{HS512, "HS512", 64},
}

// "The kid header plays the role of the key's output prefix": for every 32-bit key id, the
// kid of a Base64EncodedKeyIDAsKID key is the unpadded base64url encoding of the four
// big-endian id bytes; CustomKID keys carry exactly the custom value; IgnoredKID keys none.
// Also: the RFC 7518 "alg" names and minimum key sizes of the three algorithms.
func VerifH_kid_jwthmac() {
	row := kidHSTable[verifrt.Choice("alg", 3)]
	verifrt.Assert(row.alg.String() == row.name, "Algorithm.String() is the RFC 7518 \"alg\" value")
	// minimum key size
	_, eShort := NewParameters(row.min-1, IgnoredKID, row.alg)
	verifrt.Assert(eShort != nil, "a key shorter than the hash output is refused (RFC 7518 section 3.2)")
	si := verifrt.Choice("kid", 3)
	ks := row.min
	if si != 0 {
		ks += verifrt.Choice("extra", 2)
	}
	strategy := [...]KIDStrategy{Base64EncodedKeyIDAsKID, IgnoredKID, CustomKID}[si]
	params, err := NewParameters(ks, strategy, row.alg)
	verifrt.Assert(err == nil && params != nil, "NewParameters accepts key sizes >= hash output size")
	if err != nil {
		return
	}
	id := verifrt.Uint32("id")
	keyBytes := secretdata.NewBytesFromData(verifrt.Bytes("key", ks), insecuresecretdataaccess.Token{})
	kidLen := 1
	if si == 2 {
		kidLen = [...]int{0, 1, 7}[verifrt.Choice("kidlen", 3)]
	}
	custom := string(verifrt.Bytes("customkid", kidLen))
	switch si {
	case 0:
		kid, has, err := computeKID(nil, id, params)
		verifrt.Assert(err == nil && has, "computeKID(Base64EncodedKeyIDAsKID)")
		verifrt.AssertEq([]byte(kid), verifh.SpecKID(id), "kid == unpadded base64url of the big-endian key id")
		_, _, e := computeKID(&custom, id, params)
		verifrt.Assert(e != nil, "custom kid refused for Base64EncodedKeyIDAsKID")
		k, err := NewKey(KeyOpts{KeyBytes: keyBytes, IDRequirement: id, Parameters: params})
		verifrt.Assert(err == nil && k != nil, "NewKey")
		if err != nil {
			return
		}
		kid2, has2 := k.KID()
		verifrt.Assert(has2, "key has a kid")
		verifrt.AssertEq([]byte(kid2), verifh.SpecKID(id), "NewKey: kid == unpadded base64url of the big-endian key id")
		gotID, req := k.IDRequirement()
		verifrt.Assert(req && gotID == id, "id requirement")
		_, e = NewKey(KeyOpts{KeyBytes: keyBytes, IDRequirement: id, Parameters: params, HasCustomKID: true, CustomKID: custom})
		verifrt.Assert(e != nil, "NewKey: custom kid refused for Base64EncodedKeyIDAsKID")
		gk, err := createKey(params, id)
		verifrt.Assert(err == nil && gk != nil, "createKey")
		if err == nil {
			kid3, has3 := gk.(*Key).KID()
			verifrt.Assert(has3, "generated key has a kid")
			verifrt.AssertEq([]byte(kid3), verifh.SpecKID(id), "createKey: kid == unpadded base64url of the big-endian key id")
		}
	case 1:
		kid, has, err := computeKID(nil, id, params)
		verifrt.Assert(err == nil && !has && kid == "", "IgnoredKID: no kid")
		_, _, e := computeKID(&custom, id, params)
		verifrt.Assert(e != nil, "custom kid refused for IgnoredKID")
		k, err := NewKey(KeyOpts{KeyBytes: keyBytes, IDRequirement: 0, Parameters: params})
		verifrt.Assert(err == nil && k != nil, "NewKey")
		if err != nil {
			return
		}
		kid2, has2 := k.KID()
		verifrt.Assert(!has2 && kid2 == "", "NewKey(IgnoredKID): no kid")
		_, e = NewKey(KeyOpts{KeyBytes: keyBytes, IDRequirement: id, Parameters: params})
		verifrt.Assert((e == nil) == (id == 0), "a key without id requirement must have id 0")
	case 2:
		kid, has, err := computeKID(&custom, id, params)
		verifrt.Assert(err == nil && has, "computeKID(CustomKID)")
		verifrt.AssertEq([]byte(kid), []byte(custom), "CustomKID: kid == custom value")
		_, _, e := computeKID(nil, id, params)
		verifrt.Assert(e != nil, "CustomKID requires a custom kid")
		k, err := NewKey(KeyOpts{KeyBytes: keyBytes, IDRequirement: 0, Parameters: params, HasCustomKID: true, CustomKID: custom})
		verifrt.Assert(err == nil && k != nil, "NewKey")
		if err != nil {
			return
		}
		kid2, has2 := k.KID()
		verifrt.Assert(has2, "NewKey(CustomKID): has kid")
		verifrt.AssertEq([]byte(kid2), []byte(custom), "NewKey(CustomKID): kid == custom value")
		_, e = createKey(params, 0)
		verifrt.Assert(e != nil, "no key generation for CustomKID")
	}
	verifrt.Reach("end")
}
