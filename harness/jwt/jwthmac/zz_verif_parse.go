package jwthmac

import (
	"encoding/base64"

	"google.golang.org/protobuf/proto"

	"github.com/tink-crypto/tink-go/v2/insecuresecretdataaccess"
	"github.com/tink-crypto/tink-go/v2/internal/verifh"
	"github.com/tink-crypto/tink-go/v2/internal/verifrt"
	pb "github.com/tink-crypto/tink-go/v2/proto/jwt_hmac_go_proto"
	tinkpb "github.com/tink-crypto/tink-go/v2/proto/tink_go_proto"
)

// parseMinKey: RFC 7518 section 3.2 - the key is at least as long as the hash output:
// HS256 (1) 32, HS384 (2) 48, HS512 (3) 64; 0 for HS_UNKNOWN and values outside the enum.
func parseMinKey(alg int32) int {
	switch alg {
	case 1:
		return 32
	case 2:
		return 48
	case 3:
		return 64
	}
	return 0
}

func parseAlgOf(alg int32) Algorithm {
	switch alg {
	case 1:
		return HS256
	case 2:
		return HS384
	case 3:
		return HS512
	}
	return UnknownAlgorithm
}

// VerifH_parse_jwthmac: keyParser.ParseKey on hostile field values.
//
// Documented validity of a JWT-HMAC key (JwtHmacKey{version, algorithm, key_value,
// custom_kid{value}}): version 0; algorithm HS256/HS384/HS512; key at least 32/48/64 bytes;
// SYMMETRIC; own type URL; prefix type RAW (kid ignored, or custom_kid) or TINK (kid =
// base64url(id); a custom_kid is then not allowed); RAW => id 0.
func VerifH_parse_jwthmac() {
	h := verifh.NewHostile()
	version, alg := verifrt.Uint32("version"), verifrt.Int32("alg")
	n := h.Len("keylen", 64, 0, 1, 31, 32, 33, 47, 48, 49, 63, 65)
	kv := verifrt.Bytes("key", n)
	msg := &pb.JwtHmacKey{Version: version, Algorithm: pb.JwtHmacAlgorithm(alg), KeyValue: kv}
	shape := h.Shape("shape", 4)
	custom, hasCustom := "", false
	var value []byte
	switch shape {
	case 1:
		version, alg, n, kv = 0, 0, 0, nil
	case 2:
		custom, hasCustom = string(verifrt.Bytes("customkid", 3)), true
	case 3:
		hasCustom = true // present but empty
	}
	if hasCustom {
		msg.CustomKid = &pb.JwtHmacKey_CustomKid{Value: custom}
	}
	if shape != 1 {
		var err error
		value, err = proto.Marshal(msg)
		verifrt.Assert(err == nil, "marshal")
	}
	if !h.Wrap(keyTypeURL, value) {
		return
	}
	k, err := (&keyParser{}).ParseKey(h.KS)
	min := parseMinKey(alg)
	body := verifrt.And(version == 0, min != 0 && n >= min)
	env := verifrt.And(h.EnvelopeValidKinds(tinkpb.KeyData_SYMMETRIC, 0b1001), !(h.Kind() == 0 && hasCustom))
	valid := verifrt.And(env, body)
	verifrt.Assert(verifrt.Implies(err == nil, valid), "accepted => version 0, HS256/384/512, key >= 32/48/64 bytes, SYMMETRIC, own type URL, prefix RAW or TINK (no custom_kid), RAW => id 0")
	verifrt.Assert(verifrt.Implies(valid, err == nil), "every valid JWT-HMAC key is accepted")
	if err != nil {
		verifrt.Reach("rejected")
		return
	}
	h.CheckParsedEnvelope(k)
	ak, ok := k.(*Key)
	verifrt.Assert(ok && ak != nil, "parsed key is *jwthmac.Key")
	p := ak.Parameters().(*Parameters)
	verifrt.Assert(p.KeySizeInBytes() == n && p.Algorithm() == parseAlgOf(alg), "parameters: key size = len(key_value), algorithm = the message's")
	kid, hasKID := ak.KID()
	switch {
	case h.Kind() == 0:
		id := h.ID
		want := base64.RawURLEncoding.EncodeToString([]byte{byte(id >> 24), byte(id >> 16), byte(id >> 8), byte(id)})
		verifrt.Assert(p.KIDStrategy() == Base64EncodedKeyIDAsKID && hasKID && kid == want, "TINK: kid = base64url(id requirement)")
	case hasCustom:
		verifrt.Assert(p.KIDStrategy() == CustomKID && hasKID && kid == custom, "RAW with custom_kid: kid = custom_kid.value")
	default:
		verifrt.Assert(p.KIDStrategy() == IgnoredKID && !hasKID, "RAW without custom_kid: no kid")
	}
	verifrt.AssertEq(ak.KeyBytes().Data(insecuresecretdataaccess.Token{}), kv, "key bytes are key_value")
	verifrt.Reach("accepted")
}

// VerifH_parse_jwthmac_params: parametersParser.Parse on a hostile key template
// (JwtHmacKeyFormat{version, algorithm, key_size}).
func VerifH_parse_jwthmac_params() {
	version, alg, ks := verifrt.Uint32("version"), verifrt.Int32("alg"), verifrt.Uint32("keysize")
	value, err := proto.Marshal(&pb.JwtHmacKeyFormat{Version: version, Algorithm: pb.JwtHmacAlgorithm(alg), KeySize: ks})
	verifrt.Assert(err == nil, "marshal")
	t, urlOK, prefix := verifh.HostileTemplate(keyTypeURL, value)
	p, err := (&parametersParser{}).Parse(t)
	kind := verifh.KindOf(prefix)
	min := parseMinKey(alg)
	valid := verifrt.And(urlOK && (kind == 0 || kind == 3), verifrt.And(version == 0, min != 0 && uint64(ks) >= uint64(min)))
	verifrt.Assert((err == nil) == valid, "template accepted <=> own type URL, prefix RAW or TINK, version 0, HS256/384/512, key size >= 32/48/64")
	if err != nil {
		verifrt.Reach("rejected")
		return
	}
	ap := p.(*Parameters)
	verifrt.Assert(ap.KeySizeInBytes() == int(ks) && ap.Algorithm() == parseAlgOf(alg), "parameters mirror the format")
	verifrt.Assert(ap.HasIDRequirement() == (kind == 0) && ((kind == 0 && ap.KIDStrategy() == Base64EncodedKeyIDAsKID) || (kind == 3 && ap.KIDStrategy() == IgnoredKID)), "kid strategy mirrors the prefix type")
	_, nerr := (&parametersParser{}).Parse(nil)
	verifrt.Assert(nerr != nil, "nil template rejected, no panic")
	verifrt.Reach("accepted")
}
