package jwthmac

import (
	"github.com/tink-crypto/tink-go/v2/internal/verifh"
	"github.com/tink-crypto/tink-go/v2/internal/verifrt"
	"github.com/tink-crypto/tink-go/v2/key"
	"github.com/tink-crypto/tink-go/v2/secretdata"
)

// C19, key object: see verifh.CheckSymKeyObject (this key type has no output prefix).
func VerifH_c19_jwthmackey() {
	ai := verifrt.Choice("alg", 3)
	alg := [...]Algorithm{HS256, HS384, HS512}[ai]
	ks := [...]int{32, 48, 64}[ai] + verifrt.Choice("extra", 2)
	si := verifrt.Choice("kid", 3)
	strategy := [...]KIDStrategy{Base64EncodedKeyIDAsKID, IgnoredKID, CustomKID}[si]
	params, err := NewParameters(ks, strategy, alg)
	verifrt.Assert(err == nil, "NewParameters")
	opts := KeyOpts{Parameters: params}
	if si == 0 {
		opts.IDRequirement = verifrt.Uint32("id")
	}
	if si == 2 {
		opts.HasCustomKID = true
		opts.CustomKID = string(verifrt.Bytes("customkid", 3))
	}
	verifh.CheckSymKeyObject(ks, func(b secretdata.Bytes) (key.Key, error) {
		o := opts
		o.KeyBytes = b
		return NewKey(o)
	}, nwKeyBytes, nil, 0)
}

func nwKeyBytes(k key.Key) secretdata.Bytes { return k.(*Key).KeyBytes() }
