package jwthmac

import (
	"github.com/tink-crypto/tink-go/v2/insecuresecretdataaccess"
	"github.com/tink-crypto/tink-go/v2/internal/verifh"
	"github.com/tink-crypto/tink-go/v2/internal/verifrt"
	tinkpb "github.com/tink-crypto/tink-go/v2/proto/tink_go_proto"
	"github.com/tink-crypto/tink-go/v2/secretdata"
)

// Every algorithm {HS256,HS384,HS512} x key sizes {min, min+1, 80} (min = 32/48/64) x KID
// strategy {Base64EncodedKeyIDAsKID (TINK, symbolic id), IgnoredKID (RAW), CustomKID (RAW,
// symbolic custom kid of length 0, 1, 7)}; symbolic key bytes.
// CustomKID parameters are by design not representable as a key template (a RAW template
// parses as IgnoredKID), so for CustomKID only the key round trips and the parameters are
// checked to come back as the IgnoredKID parameters of the same size and algorithm.
func VerifH_serial_jwthmac() {
	ai := verifrt.Choice("alg", 3)
	alg := [...]Algorithm{HS256, HS384, HS512}[ai]
	min := [...]int{32, 48, 64}[ai]
	ks := [...]int{min, min + 1, 80}[verifrt.Choice("ks", 3)]
	si := verifrt.Choice("kid", 3)
	strategy := [...]KIDStrategy{Base64EncodedKeyIDAsKID, IgnoredKID, CustomKID}[si]
	params, err := NewParameters(ks, strategy, alg)
	verifrt.Assert(err == nil, "NewParameters")
	opts := KeyOpts{KeyBytes: secretdata.NewBytesFromData(verifrt.Bytes("key", ks), insecuresecretdataaccess.Token{}), Parameters: params}
	kind := 3
	if si == 0 {
		kind = 0
		opts.IDRequirement = verifrt.Uint32("id")
	}
	if si == 2 {
		opts.HasCustomKID = true
		opts.CustomKID = string(verifrt.Bytes("customkid", [...]int{0, 1, 7}[verifrt.Choice("kidlen", 3)]))
	}
	k, err := NewKey(opts)
	verifrt.Assert(err == nil, "NewKey")
	if si != 2 {
		verifh.CheckKeyRoundTrip(k, &keySerializer{}, &keyParser{}, &parametersSerializer{}, &parametersParser{}, kind, opts.IDRequirement, keyTypeURL, tinkpb.KeyData_SYMMETRIC)
		return
	}
	verifh.CheckKeyRoundTripOnly(k, &keySerializer{}, &keyParser{}, kind, 0, keyTypeURL, tinkpb.KeyData_SYMMETRIC)
	ign, err := NewParameters(ks, IgnoredKID, alg)
	verifrt.Assert(err == nil, "NewParameters(IgnoredKID)")
	verifh.CheckParamsLossyRoundTrip(params, ign, &parametersSerializer{}, &parametersParser{}, 3, keyTypeURL)
}
