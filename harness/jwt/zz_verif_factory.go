package jwt

import (
	"errors"

	"github.com/tink-crypto/tink-go/v2/internal/internalapi"
	"github.com/tink-crypto/tink-go/v2/internal/registryconfig/legacyprimitive"
	"github.com/tink-crypto/tink-go/v2/internal/verifh"
	"github.com/tink-crypto/tink-go/v2/internal/verifrt"
	"github.com/tink-crypto/tink-go/v2/key"
	"github.com/tink-crypto/tink-go/v2/keyset"
)

// idealJWT is the per-key full primitive of the stub config, at the layer the JWT factories
// talk to (jwt.MAC / jwt.Signer / jwt.Verifier: RawJWT in, compact string out; compact string
// and validator in, VerifiedJWT out). No JSON or base64 is involved: a compact token is the
// string
//
//	[kid] || 0xB0+idx || typ || flag
//
// where kid stands for the "kid" header of TINK keys (the key's 5-byte output prefix, empty
// for RAW keys), typ is the first byte of the RawJWT's type header (the only claim these
// stubs carry) and flag != 0 stands for a token that is authentic under the key but refused
// by the validator (e.g. expired): the key then answers with its own, non-generic error.
// A key accepts exactly its own tokens with flag 0 and answers everything that is not its
// own token with the generic errJwtVerification, as the real full primitives do.
type idealJWT struct {
	k    *verifh.FKey
	seen **Validator // where the validator handed to the primitive is recorded
}

type stubValidationErr struct{ idx int }

func (e *stubValidationErr) Error() string { return "stub: token refused by the validator" }

var stubErrs = [...]*stubValidationErr{{0}, {1}, {2}, {3}}

func (j *idealJWT) encode(raw *RawJWT, flag byte) (string, error) {
	if raw == nil || raw.typeHeader == nil || len(*raw.typeHeader) != 1 {
		return "", errors.New("stub: unsupported token")
	}
	out := append(j.k.OutputPrefix(), 0xB0+byte(j.k.Idx), (*raw.typeHeader)[0], flag)
	return string(out), nil
}

func (j *idealJWT) decode(compact string, v *Validator) (*VerifiedJWT, error) {
	if j.seen != nil {
		*j.seen = v
	}
	b := []byte(compact)
	p := j.k.OutputPrefix()
	if len(b) != len(p)+3 {
		return nil, errJwtVerification
	}
	for i := range p {
		if b[i] != p[i] {
			return nil, errJwtVerification
		}
	}
	if b[len(p)] != 0xB0+byte(j.k.Idx) {
		return nil, errJwtVerification
	}
	if b[len(p)+2] != 0 {
		return nil, stubErrs[j.k.Idx]
	}
	typ := string([]byte{b[len(p)+1]})
	return &VerifiedJWT{token: &RawJWT{typeHeader: &typ}}, nil
}

func (j *idealJWT) ComputeMACAndEncode(raw *RawJWT) (string, error) { return j.encode(raw, 0) }
func (j *idealJWT) SignAndEncode(raw *RawJWT) (string, error)       { return j.encode(raw, 0) }
func (j *idealJWT) VerifyMACAndDecode(c string, v *Validator) (*VerifiedJWT, error) {
	return j.decode(c, v)
}
func (j *idealJWT) VerifyAndDecode(c string, v *Validator) (*VerifiedJWT, error) {
	return j.decode(c, v)
}

type notJWT struct{}

// stubJWTConfig: an idealJWT per key; keys flagged Legacy get it behind the legacy wrapper
// (which the JWT factories must refuse: JWT has no raw primitives); the key with index bad
// (if any) gets a constructor error (badKind 0) or a primitive of another class (1).
type stubJWTConfig struct {
	bad, badKind int
	seen         **Validator
}

func (c stubJWTConfig) PrimitiveFromKey(k key.Key, _ internalapi.Token) (any, error) {
	fk := k.(*verifh.FKey)
	if fk.Idx == c.bad {
		if c.badKind == 0 {
			return nil, errors.New("stub: no primitive for this key")
		}
		return &notJWT{}, nil
	}
	p := &idealJWT{k: fk, seen: c.seen}
	if fk.Legacy {
		return legacyprimitive.New(p), nil
	}
	return p, nil
}

func jwtFactoryMax() int {
	if verifrt.Thorough() {
		return 3
	}
	return 2
}

// jwtKinds: JWT keys are TINK (kid = key id) or RAW (no / custom kid).
var jwtKinds = []int{0, 3}

func stubRawJWT(name string) *RawJWT {
	typ := string(verifrt.Bytes(name, 1))
	return &RawJWT{typeHeader: &typ}
}

// jwtReference is the selection rule of the property: the ENABLED keys of the keyset in
// keyset order; the first one that accepts the token wins; if none accepts, the error is the
// non-generic error of an ENABLED key if there is one (the last one), else errJwtVerification.
func jwtReference(ks *verifh.KS, compact string) (accepted int, typ string, wantErr error) {
	accepted = -1
	wantErr = errJwtVerification
	for i, k := range ks.Keys {
		if !ks.Enabled(i) || accepted >= 0 {
			continue
		}
		v, e := (&idealJWT{k: k}).decode(compact, nil)
		if e == nil {
			accepted = i
			typ, _ = v.TypeHeader()
		} else if e != errJwtVerification {
			wantErr = e
		}
	}
	return
}

// arbitraryCompact: any string of a length that can be some key's token (3 RAW, 8 TINK) or
// not (0, 2, 4, 9).
func arbitraryCompact() string {
	return string(verifrt.Bytes("x", [...]int{0, 2, 3, 4, 8, 9}[verifrt.Choice("xn", 6)]))
}

// JWT MAC factory: the factory is refused iff some ENABLED key has a legacy primitive;
// otherwise ComputeMACAndEncode is the primary key's token, VerifyMACAndDecode accepts an
// arbitrary compact string iff some ENABLED key accepts it and returns that key's verified
// token; the caller's validator reaches the primitives; errors are the generic verification
// error unless an ENABLED key answered with a specific one; each call is logged once
// ("jwtmac", compute / verify, 1 unit), a success naming the key that did the work.
func VerifH_factory_jwt_mac() {
	rec := verifh.InstallMonitoring()
	ks := verifh.SymbolicKeyset(jwtFactoryMax(), jwtKinds, true)
	var seen *Validator
	m, err := NewMACWithConfig(ks.Handle, stubJWTConfig{bad: -1, seen: &seen})
	anyLegacy := false
	for i, k := range ks.Keys {
		if ks.Enabled(i) && k.Legacy {
			anyLegacy = true
		}
	}
	verifrt.Assert((err != nil) == anyLegacy, "NewMACWithConfig rejected iff some ENABLED key has a legacy primitive")
	verifrt.Assert((err != nil) == (m == nil), "primitive xor error")
	if err != nil || m == nil {
		verifrt.Reach("legacy-refused")
		return
	}
	raw := stubRawJWT("typ")
	mark := len(rec.Events)
	tok, err := m.ComputeMACAndEncode(raw)
	verifrt.Assert(err == nil, "ComputeMACAndEncode succeeds")
	prim := ks.Keys[ks.Primary]
	want, _ := (&idealJWT{k: prim}).encode(raw, 0)
	verifrt.Assert(tok == want, "ComputeMACAndEncode == primary key's token (with the primary's kid)")
	all := rec.Events[mark:]
	ev := rec.Since(mark, "compute")
	verifrt.Assert(len(all) == 1 && len(ev) == 1 && ev[0].Primitive == "jwtmac" && !ev[0].Failure && ev[0].KeyID == prim.ID && ev[0].N == 1, "compute logged once, naming the primary key")

	// failing primary primitive
	mark = len(rec.Events)
	tok, err = m.ComputeMACAndEncode(&RawJWT{})
	verifrt.Assert(err != nil && tok == "", "primitive's failure is reported, no token")
	all = rec.Events[mark:]
	verifrt.Assert(len(all) == 1 && all[0].API == "compute" && all[0].Failure, "compute failure logged")

	// arbitrary compact string
	x := arbitraryCompact()
	val := &Validator{}
	seen = nil
	mark = len(rec.Events)
	got, err := m.VerifyMACAndDecode(x, val)
	verifrt.Assert(seen == val, "the caller's validator is handed to the key's primitive")
	accepted, typ, wantErr := jwtReference(ks, x)
	verifrt.Assert((err == nil) == (accepted >= 0), "VerifyMACAndDecode accepts iff some ENABLED key accepts the token")
	all = rec.Events[mark:]
	ev = rec.Since(mark, "verify")
	verifrt.Assert(len(all) == 1 && len(ev) == 1 && ev[0].Primitive == "jwtmac", "exactly one log entry per verification, for (jwtmac, verify)")
	if err == nil && accepted >= 0 {
		gt, terr := got.TypeHeader()
		verifrt.Assert(terr == nil && gt == typ, "verified token of the accepting key")
		verifrt.Assert(len(ev) == 1 && !ev[0].Failure && ev[0].KeyID == ks.Keys[accepted].ID && ev[0].N == 1, "verify success logged once, naming the key that verified")
		verifrt.Reach("accepted")
	} else {
		verifrt.Assert(got == nil, "no token on error")
		verifrt.Assert(err == wantErr, "generic verification error unless an ENABLED key gave a specific one")
		verifrt.Assert(len(ev) == 1 && ev[0].Failure, "verify failure logged")
		if err == errJwtVerification {
			verifrt.Reach("rejected-generic")
		} else {
			verifrt.Reach("rejected-specific")
		}
	}
}

// JWT signer / verifier factories. Signer: only the primary's primitive is built (refused iff
// it is a legacy one), SignAndEncode is the primary key's token, logged ("jwtsign", "sign").
// Verifier: refused iff some ENABLED key has a legacy primitive; accepts iff some ENABLED key
// accepts; logged ("jwtverify", "verify") naming the key that verified.
func VerifH_factory_jwt_signature() {
	rec := verifh.InstallMonitoring()
	ks := verifh.SymbolicKeyset(jwtFactoryMax(), jwtKinds, true)
	prim := ks.Keys[ks.Primary]
	var seen *Validator
	s, serr := NewSignerWithConfig(ks.Handle, stubJWTConfig{bad: -1})
	verifrt.Assert((serr != nil) == prim.Legacy, "NewSignerWithConfig rejected iff the primary has a legacy primitive")
	verifrt.Assert((serr != nil) == (s == nil), "signer xor error")
	v, verr := NewVerifierWithConfig(ks.Handle, stubJWTConfig{bad: -1, seen: &seen})
	anyLegacy := false
	for i, k := range ks.Keys {
		if ks.Enabled(i) && k.Legacy {
			anyLegacy = true
		}
	}
	verifrt.Assert((verr != nil) == anyLegacy, "NewVerifierWithConfig rejected iff some ENABLED key has a legacy primitive")
	verifrt.Assert((verr != nil) == (v == nil), "verifier xor error")

	raw := stubRawJWT("typ")
	if serr == nil && s != nil {
		mark := len(rec.Events)
		tok, err := s.SignAndEncode(raw)
		verifrt.Assert(err == nil, "SignAndEncode succeeds")
		want, _ := (&idealJWT{k: prim}).encode(raw, 0)
		verifrt.Assert(tok == want, "SignAndEncode == primary key's token (with the primary's kid)")
		all := rec.Events[mark:]
		verifrt.Assert(len(all) == 1 && all[0].Primitive == "jwtsign" && all[0].API == "sign" && !all[0].Failure && all[0].KeyID == prim.ID && all[0].N == 1, "sign logged once, naming the primary key")
		mark = len(rec.Events)
		tok, err = s.SignAndEncode(&RawJWT{})
		verifrt.Assert(err != nil && tok == "", "primitive's failure is reported, no token")
		all = rec.Events[mark:]
		verifrt.Assert(len(all) == 1 && all[0].API == "sign" && all[0].Failure, "sign failure logged")
		verifrt.Reach("signed")
	}
	if verr != nil || v == nil {
		verifrt.Reach("verifier-refused")
		return
	}
	x := arbitraryCompact()
	val := &Validator{}
	mark := len(rec.Events)
	got, err := v.VerifyAndDecode(x, val)
	verifrt.Assert(seen == val, "the caller's validator is handed to the key's primitive")
	accepted, typ, wantErr := jwtReference(ks, x)
	verifrt.Assert((err == nil) == (accepted >= 0), "VerifyAndDecode accepts iff some ENABLED key accepts the token")
	all := rec.Events[mark:]
	ev := rec.Since(mark, "verify")
	verifrt.Assert(len(all) == 1 && len(ev) == 1 && ev[0].Primitive == "jwtverify", "exactly one log entry per verification, for (jwtverify, verify)")
	if err == nil && accepted >= 0 {
		gt, terr := got.TypeHeader()
		verifrt.Assert(terr == nil && gt == typ, "verified token of the accepting key")
		verifrt.Assert(len(ev) == 1 && !ev[0].Failure && ev[0].KeyID == ks.Keys[accepted].ID && ev[0].N == 1, "verify success logged once, naming the key that verified")
		verifrt.Reach("accepted")
	} else {
		verifrt.Assert(got == nil, "no token on error")
		verifrt.Assert(err == wantErr, "generic verification error unless an ENABLED key gave a specific one")
		verifrt.Assert(len(ev) == 1 && ev[0].Failure, "verify failure logged")
		verifrt.Reach("rejected")
	}
}

// Tokens of the keys of the keyset and of foreign keys, through the three factories (keysets
// whose keys all have full primitives): the token of key j - as a keyset with j as primary
// would produce it - is accepted iff key j is ENABLED; the token of a key that is not in the
// keyset (any kid, also the kid of a key of the keyset) is rejected with the generic error; a
// token that is authentic under key j but refused by the validator yields key j's specific
// error iff key j is ENABLED, and the generic one otherwise (disabled keys leak nothing).
func VerifH_factory_jwt_roundtrip() {
	rec := verifh.InstallMonitoring()
	ks := verifh.SymbolicKeyset(jwtFactoryMax(), jwtKinds, false)
	cfg := stubJWTConfig{bad: -1}
	m, err1 := NewMACWithConfig(ks.Handle, cfg)
	s, err2 := NewSignerWithConfig(ks.Handle, cfg)
	v, err3 := NewVerifierWithConfig(ks.Handle, cfg)
	verifrt.Assert(err1 == nil && err2 == nil && err3 == nil, "factories succeed")
	if err1 != nil || err2 != nil || err3 != nil {
		return
	}
	raw := stubRawJWT("typ")
	val := &Validator{}
	prim := ks.Keys[ks.Primary]

	tok, err := m.ComputeMACAndEncode(raw)
	verifrt.Assert(err == nil, "compute succeeds")
	mark := len(rec.Events)
	got, err := m.VerifyMACAndDecode(tok, val)
	verifrt.Assert(err == nil && got != nil, "MAC round trip")
	if got != nil {
		gt, _ := got.TypeHeader()
		verifrt.Assert(gt == *raw.typeHeader, "MAC round trip: same token")
	}
	ev := rec.Since(mark, "verify")
	verifrt.Assert(len(ev) == 1 && !ev[0].Failure && ev[0].KeyID == prim.ID, "MAC round trip logged under the primary")

	tok, err = s.SignAndEncode(raw)
	verifrt.Assert(err == nil, "sign succeeds")
	mark = len(rec.Events)
	got, err = v.VerifyAndDecode(tok, val)
	verifrt.Assert(err == nil && got != nil, "signature round trip")
	if got != nil {
		gt, _ := got.TypeHeader()
		verifrt.Assert(gt == *raw.typeHeader, "signature round trip: same token")
	}
	ev = rec.Since(mark, "verify")
	verifrt.Assert(len(ev) == 1 && !ev[0].Failure && ev[0].KeyID == prim.ID, "signature round trip logged under the primary")

	// token of key j, genuine (flag 0) or refused by the validator (flag 1)
	j := verifrt.Choice("j", len(ks.Keys))
	kj := ks.Keys[j]
	flag := byte(verifrt.Choice("flag", 2))
	tj, _ := (&idealJWT{k: kj}).encode(raw, flag)
	mark = len(rec.Events)
	_, e1 := m.VerifyMACAndDecode(tj, val)
	_, e2 := v.VerifyAndDecode(tj, val)
	evs := rec.Since(mark, "verify")
	verifrt.Assert(len(evs) == 2, "two verifications logged")
	if flag == 0 {
		verifrt.Assert((e1 == nil) == ks.Enabled(j) && (e2 == nil) == ks.Enabled(j), "token of key j accepted iff key j is ENABLED")
		if len(evs) == 2 && ks.Enabled(j) {
			verifrt.Assert(!evs[0].Failure && evs[0].KeyID == kj.ID && !evs[1].Failure && evs[1].KeyID == kj.ID, "logged naming key j")
		}
	} else {
		var wantErr error = errJwtVerification
		if ks.Enabled(j) {
			wantErr = stubErrs[j]
		}
		verifrt.Assert(e1 == wantErr && e2 == wantErr, "validator refusal surfaces key j's error iff key j is ENABLED")
	}
	if len(evs) == 2 && !(flag == 0 && ks.Enabled(j)) {
		verifrt.Assert(evs[0].Failure && evs[1].Failure, "failures logged")
	}

	// foreign key
	f := &verifh.FKey{Idx: 3, Kind: jwtKinds[verifrt.Choice("f.kind", 2)], ID: verifrt.Uint32("f.id")}
	tf, _ := (&idealJWT{k: f}).encode(raw, flag)
	_, e1 = m.VerifyMACAndDecode(tf, val)
	_, e2 = v.VerifyAndDecode(tf, val)
	verifrt.Assert(e1 == errJwtVerification && e2 == errJwtVerification, "token of a foreign key rejected with the generic error")
	verifrt.Reach("end")
}

// Nil / empty handles, and keys without a JWT primitive: MAC and verifier factories are
// refused iff the key is ENABLED, the signer factory iff the key is the primary (it builds no
// other primitive).
func VerifH_factory_jwt_rejects() {
	verifh.InstallMonitoring()
	var empty keyset.Handle
	cfg := stubJWTConfig{bad: -1}
	m0, err := NewMACWithConfig(nil, cfg)
	verifrt.Assert(err != nil && m0 == nil, "mac: nil handle rejected")
	m0, err = NewMACWithConfig(&empty, cfg)
	verifrt.Assert(err != nil && m0 == nil, "mac: empty handle rejected")
	s0, err := NewSignerWithConfig(nil, cfg)
	verifrt.Assert(err != nil && s0 == nil, "signer: nil handle rejected")
	s0, err = NewSignerWithConfig(&empty, cfg)
	verifrt.Assert(err != nil && s0 == nil, "signer: empty handle rejected")
	v0, err := NewVerifierWithConfig(nil, cfg)
	verifrt.Assert(err != nil && v0 == nil, "verifier: nil handle rejected")
	v0, err = NewVerifierWithConfig(&empty, cfg)
	verifrt.Assert(err != nil && v0 == nil, "verifier: empty handle rejected")

	ks := verifh.SymbolicKeyset(jwtFactoryMax(), jwtKinds, false)
	bad := verifrt.Choice("bad", len(ks.Keys))
	cfg = stubJWTConfig{bad: bad, badKind: verifrt.Choice("badkind", 2)}
	m, err := NewMACWithConfig(ks.Handle, cfg)
	verifrt.Assert((err != nil) == ks.Enabled(bad) && (err != nil) == (m == nil), "mac factory rejected iff some ENABLED key has no jwt.MAC primitive")
	s, err := NewSignerWithConfig(ks.Handle, cfg)
	verifrt.Assert((err != nil) == (bad == ks.Primary) && (err != nil) == (s == nil), "signer factory rejected iff the primary has no jwt.Signer primitive")
	v, err := NewVerifierWithConfig(ks.Handle, cfg)
	verifrt.Assert((err != nil) == ks.Enabled(bad) && (err != nil) == (v == nil), "verifier factory rejected iff some ENABLED key has no jwt.Verifier primitive")
	verifrt.Reach("end")
}
