package jwt

import (
	"encoding/base64"
	"errors"

	"github.com/tink-crypto/tink-go/v2/internal/internalapi"
	"github.com/tink-crypto/tink-go/v2/internal/verifh"
	"github.com/tink-crypto/tink-go/v2/internal/verifrt"
	"github.com/tink-crypto/tink-go/v2/key"
	spb "google.golang.org/protobuf/types/known/structpb"
)

// ---------------------------------------------------------------------------------------
// The JWT factories over the REAL full primitives (fullMac / fullSigner / fullVerifier, the
// kid layer macWithKID / signerWithKID / verifierWithKID, createUnsigned, splitSignedCompact,
// decodeUnsignedTokenAndValidateHeader, validateHeader, extractTypeHeader, Validator) with
// stub tink.MAC / tink.Signer / tink.Verifier at the bottom. For JWT the "output prefix" of a
// key is the kid header: TINK keys write base64url(be32(key id)) and insist on it, RAW keys
// write their custom kid (if any) and accept a token without kid or with that kid.
//
// The engine cannot execute the JSON layer (structpb Marshal/UnmarshalJSON: protobuf
// reflection via unsafe) nor jwt.base64Decode (range over a symbolic string); fmt.Sprintf
// (dotConcat) is opaque; strings.Count / SplitN end in assembly kernels. These functions are
// replaced (verifrt.Summarize) by a codec model; everything else is the real code:
//   dotConcat(a, b)                        a + "." + b (exact)
//   bytealg.CountString / IndexByteString  their Go definitions (exact)
//   base64Encode / base64Decode            a two-characters-per-byte transport encoding (below)
//   createHeader / jsonToStruct            an injective byte layout of (alg, typ?, kid?) and
//                                          its parser (instead of JSON)
//   RawJWT.JSONPayload / NewRawJWTFromJSON an injective byte layout of the "jti" claim and
//                                          its parser (tokens carry only jti here)
// The harness never looks inside a header or payload encoding: expected tokens and the
// adversary's tokens are assembled with createHeader / JSONPayload / base64Encode themselves.
// ---------------------------------------------------------------------------------------

func pad3(b []byte) []byte {
	for len(b)%3 != 0 {
		b = append(b, 0)
	}
	return b
}

// header layout:
//
//	[flags, len(alg), len(kid)] [alg padded to 6] [typ padded to 3] [kid padded to 3k]
//
// flags: 1 = typ present, 2 = kid present. typ is at most 3 bytes, alg at most 6.
func modelCreateHeader(alg string, typ, kid *string) (string, error) {
	if len(alg) > 6 || (typ != nil && len(*typ) > 3) || (kid != nil && len(*kid) > 255) {
		return "", errors.New("codec model: header field too long")
	}
	flags, kl, tl := byte(0), 0, 0
	var t, k []byte
	if typ != nil {
		flags |= 1
		t, tl = []byte(*typ), len(*typ)
	}
	if kid != nil {
		flags |= 2
		k, kl = []byte(*kid), len(*kid)
	}
	out := []byte{flags | byte(tl<<4), byte(len(alg)), byte(kl)}
	a := append([]byte(alg), 0, 0, 0, 0, 0, 0)[:6]
	out = append(out, a...)
	out = append(out, append(append([]byte{}, t...), 0, 0, 0)[:3]...)
	out = append(out, pad3(append([]byte{}, k...))...)
	return modelBase64Encode(out), nil // (summaries are not applied inside a summary)
}

func modelJSONToStruct(b []byte) (*spb.Struct, error) {
	if len(b) < 12 {
		return nil, errors.New("codec model: not a header")
	}
	flags, al, kl := b[0]&3, int(b[1]), int(b[2])
	tl := int(b[0] >> 4)
	if b[0]&0x0c != 0 || al > 6 || tl > 3 || len(b) != 12+(kl+2)/3*3 {
		return nil, errors.New("codec model: not a header")
	}
	s := &spb.Struct{Fields: map[string]*spb.Value{"alg": spb.NewStringValue(string(b[3 : 3+al]))}}
	if flags&1 != 0 {
		s.Fields["typ"] = spb.NewStringValue(string(b[9 : 9+tl]))
	}
	if flags&2 != 0 {
		s.Fields["kid"] = spb.NewStringValue(string(b[12 : 12+kl]))
	}
	return s, nil
}

// payload layout: [jti byte, 0, 0]
func modelJSONPayload(r *RawJWT) ([]byte, error) {
	v, ok := r.jsonpb.GetFields()["jti"]
	if !ok {
		return nil, errors.New("codec model: token without jti")
	}
	sv, ok := v.Kind.(*spb.Value_StringValue)
	if !ok || len(sv.StringValue) != 1 {
		return nil, errors.New("codec model: unsupported jti")
	}
	return []byte{sv.StringValue[0], 0, 0}, nil
}

func modelNewRawJWTFromJSON(typ *string, payload []byte) (*RawJWT, error) {
	if len(payload) != 3 {
		return nil, errors.New("codec model: not a payload")
	}
	return &RawJWT{
		jsonpb:     &spb.Struct{Fields: map[string]*spb.Value{"jti": spb.NewStringValue(string(payload[:1]))}},
		typeHeader: typ,
	}, nil
}

// The transport encoding (base64url without padding in the real code) is modelled by the
// simplest encoding with the properties the token layer relies on: injective, decodable,
// its alphabet ('a'..'p') does not contain '.', and the decoder rejects every string that is
// not an encoding. (The real encoder is executable but its table look-ups, nested through
// the tag computation and undone by a decoder, cost 0.2-1.6 s of solver time per query:
// 67 paths in 2 minutes.) Two characters per byte.
func modelBase64Encode(b []byte) string {
	out := make([]byte, 2*len(b))
	for i, x := range b {
		out[2*i] = 'a' + x>>4
		out[2*i+1] = 'a' + x&15
	}
	return string(out)
}

func modelBase64Decode(s string) ([]byte, error) {
	n := len(s)
	if n%2 != 0 {
		return nil, errors.New("invalid encoding")
	}
	bad := false
	out := make([]byte, n/2)
	for i := 0; i < n; i++ {
		c := s[i]
		bad = verifrt.Or(bad, verifrt.Or(c < 'a', c > 'p'))
		if i%2 == 0 {
			out[i/2] = (c - 'a') << 4
		} else {
			out[i/2] |= (c - 'a') & 15
		}
	}
	if bad {
		return nil, errors.New("invalid encoding")
	}
	return out, nil
}

func installJWTCodecModel() {
	verifrt.Summarize("jwt.dotConcat", func(a, b string) string { return a + "." + b })
	// assembly kernels behind strings.Count / strings.SplitN: their Go definitions
	verifrt.Summarize("internal/bytealg.CountString", func(s string, c byte) int {
		n := 0
		for i := 0; i < len(s); i++ {
			if s[i] == c {
				n++
			}
		}
		return n
	})
	verifrt.Summarize("internal/bytealg.IndexByteString", func(s string, c byte) int {
		for i := 0; i < len(s); i++ {
			if s[i] == c {
				return i
			}
		}
		return -1
	})
	verifrt.Summarize("jwt.base64Encode", modelBase64Encode)
	verifrt.Summarize("jwt.base64Decode", modelBase64Decode)
	verifrt.Summarize("jwt.createHeader", modelCreateHeader)
	verifrt.Summarize("jwt.jsonToStruct", modelJSONToStruct)
	verifrt.Summarize("jwt.RawJWT).JSONPayload", modelJSONPayload)
	verifrt.Summarize("jwt.NewRawJWTFromJSON", modelNewRawJWTFromJSON)
	verifrt.NativeSkip("JSON / base64 layer summarised by a codec model")
}

// ---- stub primitives below the kid layer

// kidKey describes what a key object of the keyset hands to the full primitives.
type kidKey struct {
	k      *verifh.FKey
	custom *string // RAW keys only: custom kid, or nil (kid ignored)
}

// tag of key k over data: 3 bytes, tied to the key, the length and the content
func (kk *kidKey) tag(data []byte) []byte {
	x := byte(0)
	for _, b := range data {
		x = x<<1 ^ x>>7 ^ b
	}
	return []byte{0x50 + byte(kk.k.Idx), byte(len(data)), x}
}

func (kk *kidKey) check(tag, data []byte) error {
	if !verifrt.EqBytes(tag, kk.tag(data)) {
		return errors.New("stub: bad tag")
	}
	return nil
}

func (kk *kidKey) ComputeMAC(data []byte) ([]byte, error) { return kk.tag(data), nil }
func (kk *kidKey) VerifyMAC(mac, data []byte) error       { return kk.check(mac, data) }
func (kk *kidKey) Sign(data []byte) ([]byte, error)       { return kk.tag(data), nil }
func (kk *kidKey) Verify(sig, data []byte) error          { return kk.check(sig, data) }

const kidAlg = "HS256"

// tinkKID is the kid of a TINK key as the key objects compute it (jwthmac.computeKID etc.).
func tinkKID(id uint32) string {
	return base64.URLEncoding.WithPadding(base64.NoPadding).EncodeToString([]byte{byte(id >> 24), byte(id >> 16), byte(id >> 8), byte(id)})
}

// headerKID: the kid a key writes into its tokens (nil: none).
func (kk *kidKey) headerKID() *string {
	if kk.k.Kind == 0 {
		s := tinkKID(kk.k.ID)
		return &s
	}
	return kk.custom
}

// kidConfig builds the REAL full primitives the way createJWTHMAC / newFullSigner /
// newFullVerifier do for (hasIDRequirement, kid strategy, kid) of the key.
type kidConfig struct {
	keys []*kidKey
	mode int // 0 MAC, 1 signer, 2 verifier
}

func (c kidConfig) PrimitiveFromKey(k key.Key, _ internalapi.Token) (any, error) {
	kk := c.keys[k.(*verifh.FKey).Idx]
	isTink := kk.k.Kind == 0
	kid := ""
	if isTink {
		kid = tinkKID(kk.k.ID)
	} else if kk.custom != nil {
		kid = *kk.custom
	}
	switch c.mode {
	case 0:
		m, err := newMACWithKID(kk, kidAlg, kk.custom)
		if err != nil {
			return nil, err
		}
		if isTink {
			return &fullMac{m: m, kid: &kid}, nil
		}
		return &fullMac{m: m, kid: nil}, nil
	case 1:
		return newFullSigner(isTink, kk.custom != nil, kid, kidAlg, kk)
	default:
		return newFullVerifier(isTink, kk.custom != nil, kid, kidAlg, kk)
	}
}

// kidAccepts is the reference decision for one key: the tag is the key's tag over the
// unsigned part, alg is the key's algorithm, and the kid rule of the key's kind holds.
func (kk *kidKey) kidAccepts(unsigned string, tag []byte, alg string, kid *string) bool {
	if kk.check(tag, []byte(unsigned)) != nil || alg != kidAlg {
		return false
	}
	if kk.k.Kind == 0 {
		return kid != nil && *kid == tinkKID(kk.k.ID)
	}
	if kk.custom != nil && kid != nil {
		return *kid == *kk.custom
	}
	return true
}

func jwtKidBody(signature bool) {
	installJWTCodecModel()
	rec := verifh.InstallMonitoring()
	// 1..2 keys in both tiers (3 keys: ~40000 paths of ~40 ms); the thorough tier adds tokens
	// without a typ header
	ks := verifh.SymbolicKeyset(2, jwtKinds, false)
	var keys []*kidKey
	for i, k := range ks.Keys {
		kk := &kidKey{k: k}
		if k.Kind == 3 {
			// no custom kid, a 2-character custom kid, or the EMPTY custom kid (legal: "kid":"")
			switch verifrt.Choice(string([]byte{'c', byte('0' + i)}), 3) {
			case 1:
				c := string(verifrt.Bytes(string([]byte{'c', byte('0' + i), 'v'}), 2))
				kk.custom = &c
			case 2:
				c := ""
				kk.custom = &c
			}
		}
		keys = append(keys, kk)
	}
	var compute func(*RawJWT) (string, error)
	var verify func(string, *Validator) (*VerifiedJWT, error)
	computeAPI, primitive := "compute", "jwtmac"
	if signature {
		s, err := NewSignerWithConfig(ks.Handle, kidConfig{keys: keys, mode: 1})
		v, err2 := NewVerifierWithConfig(ks.Handle, kidConfig{keys: keys, mode: 2})
		verifrt.Assert(err == nil && err2 == nil, "signer and verifier factories succeed")
		if err != nil || err2 != nil {
			return
		}
		compute, verify, computeAPI, primitive = s.SignAndEncode, v.VerifyAndDecode, "sign", "jwtverify"
	} else {
		m, err := NewMACWithConfig(ks.Handle, kidConfig{keys: keys, mode: 0})
		verifrt.Assert(err == nil, "MAC factory succeeds")
		if err != nil {
			return
		}
		compute, verify = m.ComputeMACAndEncode, m.VerifyMACAndDecode
	}

	// the token to issue: jti, optional typ header
	jtib := verifrt.Bytes("jti", 1)
	verifrt.Assume(jtib[0] < 0x80) // claims must be valid UTF-8
	jti := string(jtib)
	raw := &RawJWT{jsonpb: &spb.Struct{Fields: map[string]*spb.Value{"jti": spb.NewStringValue(jti)}}}
	if !verifrt.Thorough() || verifrt.Choice("hastyp", 2) == 1 { // quick tier: always a typ header
		t := string(verifrt.Bytes("typ", 1))
		raw.typeHeader = &t
	}
	payload, _ := raw.JSONPayload()
	prim := keys[ks.Primary]

	mark := len(rec.Events)
	tok, err := compute(raw)
	verifrt.Assert(err == nil, "issuing succeeds")
	hdr, _ := createHeader(kidAlg, raw.typeHeader, prim.headerKID())
	unsigned := hdr + "." + base64Encode(payload)
	want := unsigned + "." + base64Encode(prim.tag([]byte(unsigned)))
	verifrt.Assert(tok == want, "token == header(alg, typ, the PRIMARY's kid) . payload . primary's tag over both")
	all := rec.Events[mark:]
	verifrt.Assert(len(all) == 1 && all[0].API == computeAPI && !all[0].Failure && all[0].KeyID == prim.k.ID && all[0].N == 1, "issuing logged once, naming the primary key")

	// two validators: a permissive one, and one that refuses every token here (they have no
	// issuer claim)
	val, verr := NewValidator(&ValidatorOpts{AllowMissingExpiration: true, IgnoreTypeHeader: true, IgnoreAudiences: true, IgnoreIssuer: true})
	iss := "me"
	strictVal, verr2 := NewValidator(&ValidatorOpts{AllowMissingExpiration: true, IgnoreTypeHeader: true, IgnoreAudiences: true, ExpectedIssuer: &iss})
	verifrt.Assert(verr == nil && verr2 == nil, "validator options accepted")

	// the adversary's token: any well-formed header (this or another alg; no kid, a 6-char
	// kid - the size of a TINK kid - or a 2-char kid - the size of the custom kids), the
	// payload, and the tag of ANY key of the keyset over it, possibly altered
	alg := string(verifrt.Bytes("alg", 5)) // any 5-character algorithm name, "HS256" among them
	var kid *string
	switch verifrt.Choice("kidn", 3) {
	case 1:
		s := string(verifrt.Bytes("kid6", 6))
		kid = &s
	case 2:
		s := string(verifrt.Bytes("kid2", 2))
		kid = &s
	}
	ahdr, _ := createHeader(alg, raw.typeHeader, kid)
	aunsigned := ahdr + "." + base64Encode(payload)
	j := verifrt.Choice("j", len(keys))
	tag := keys[j].tag([]byte(aunsigned))
	delta := verifrt.Bytes("delta", 3)
	for i := range tag {
		tag[i] ^= delta[i]
	}
	atok := aunsigned + "." + base64Encode(tag)

	authentic := -1
	for i, kk := range keys {
		if ks.Enabled(i) && authentic < 0 && kk.kidAccepts(aunsigned, tag, alg, kid) {
			authentic = i
		}
	}

	// with the validator that refuses: never accepted; the validator's error surfaces iff
	// some ENABLED key authenticated the token
	mark = len(rec.Events)
	got, err := verify(atok, strictVal)
	verifrt.Assert(err != nil && got == nil, "no token when the validator refuses")
	verifrt.Assert((err == errJwtVerification) == (authentic < 0), "generic error iff no ENABLED key authenticates the token; the validator's error otherwise")
	all = rec.Events[mark:]
	verifrt.Assert(len(all) == 1 && all[0].API == "verify" && all[0].Primitive == primitive && all[0].Failure, "failure logged once")

	// with the permissive validator
	mark = len(rec.Events)
	got, err = verify(atok, val)
	verifrt.Assert((err == nil) == (authentic >= 0), "accepted iff some ENABLED key made the tag, uses the algorithm and finds its kid (TINK: base64 key id, required; RAW: custom kid or none)")
	all = rec.Events[mark:]
	verifrt.Assert(len(all) == 1 && all[0].API == "verify" && all[0].Primitive == primitive, "exactly one log entry per verification")
	if err == nil && authentic >= 0 {
		gj, e1 := got.JWTID()
		verifrt.Assert(e1 == nil && gj == jti && got.HasTypeHeader() == raw.HasTypeHeader(), "verified token carries the claims")
		verifrt.Assert(len(all) == 1 && !all[0].Failure && all[0].KeyID == keys[authentic].k.ID && all[0].N == 1, "success logged naming the key that verified")
		verifrt.Reach("accepted")
	} else {
		verifrt.Assert(got == nil && err == errJwtVerification, "no token, generic error")
		verifrt.Assert(len(all) == 1 && all[0].Failure, "failure logged")
		verifrt.Reach("rejected")
	}
}

// JWT MAC factory over the real full MAC primitives (kid layer) with stub tink.MACs.
func VerifH_factory_jwt_kid_mac() { jwtKidBody(false) }

// JWT signer + verifier factories over the real full signer / verifier primitives.
func VerifH_factory_jwt_kid_signature() { jwtKidBody(true) }
