package jwt

import (
	"crypto"
	chmac "crypto/hmac"

	"github.com/tink-crypto/tink-go/v2/insecuresecretdataaccess"
	"github.com/tink-crypto/tink-go/v2/internal/internalapi"
	"github.com/tink-crypto/tink-go/v2/internal/verifh"
	"github.com/tink-crypto/tink-go/v2/internal/verifrt"
	"github.com/tink-crypto/tink-go/v2/jwt/jwtecdsa"
	"github.com/tink-crypto/tink-go/v2/jwt/jwthmac"
	"github.com/tink-crypto/tink-go/v2/jwt/jwtmldsa"
	"github.com/tink-crypto/tink-go/v2/jwt/jwtrsassapkcs1"
	"github.com/tink-crypto/tink-go/v2/jwt/jwtrsassapss"
	"github.com/tink-crypto/tink-go/v2/key"
	"github.com/tink-crypto/tink-go/v2/mac/hmac"
	tpb "github.com/tink-crypto/tink-go/v2/proto/tink_go_proto"
	"github.com/tink-crypto/tink-go/v2/secretdata"
	"github.com/tink-crypto/tink-go/v2/signature/ecdsa"
	"github.com/tink-crypto/tink-go/v2/signature/mldsa"
	"github.com/tink-crypto/tink-go/v2/signature/rsassapkcs1"
	"github.com/tink-crypto/tink-go/v2/signature/rsassapss"
	"github.com/tink-crypto/tink-go/v2/tink"
	spb "google.golang.org/protobuf/types/known/structpb"
)

// ---------------------------------------------------------------------------------------
// The JOSE algorithm registry (RFC 7518 section 3.1 with 3.2-3.5, RFC 9964 for ML-DSA),
// written out row by row. Nothing below is computed by the code under test.
//
//	HS256/384/512: HMAC with SHA-256/384/512; key at least as long as the hash output
//	               (32/48/64 bytes); the full hash output is the JWS signature.
//	RS256/384/512: RSASSA-PKCS1-v1_5 with SHA-256/384/512.
//	ES256/384/512: ECDSA with P-256+SHA-256 / P-384+SHA-384 / P-521+SHA-512; the signature
//	               is R || S, each of fixed length (IEEE P1363 encoding, not DER).
//	PS256/384/512: RSASSA-PSS with SHA-256/384/512, MGF1 with the same hash, salt length =
//	               hash output length (32/48/64).
//	ML-DSA-44/65/87: FIPS 204 parameter set of the same name.
// ---------------------------------------------------------------------------------------

const (
	famHS = iota
	famRS
	famES
	famPS
	famML
)

type joseRow struct {
	fam  int
	idx  int    // 0, 1, 2 within the family
	name string // the "alg" header value
	bits int    // 256 / 384 / 512 (hash) for HS, RS, ES, PS; 44 / 65 / 87 for ML-DSA
}

var joseTable = [15]joseRow{
	{famHS, 0, "HS256", 256}, {famHS, 1, "HS384", 384}, {famHS, 2, "HS512", 512},
	{famRS, 0, "RS256", 256}, {famRS, 1, "RS384", 384}, {famRS, 2, "RS512", 512},
	{famES, 0, "ES256", 256}, {famES, 1, "ES384", 384}, {famES, 2, "ES512", 512},
	{famPS, 0, "PS256", 256}, {famPS, 1, "PS384", 384}, {famPS, 2, "PS512", 512},
	{famML, 0, "ML-DSA-44", 44}, {famML, 1, "ML-DSA-65", 65}, {famML, 2, "ML-DSA-87", 87},
}

// what the underlying (non-JWT) Tink key is expected to look like for a row
func wantECDSA(bits int) (ecdsa.CurveType, ecdsa.HashType) {
	switch bits {
	case 256:
		return ecdsa.NistP256, ecdsa.SHA256
	case 384:
		return ecdsa.NistP384, ecdsa.SHA384
	}
	return ecdsa.NistP521, ecdsa.SHA512 // ES512 is P-521, not "P-512"
}

func wantPKCS1Hash(bits int) rsassapkcs1.HashType {
	switch bits {
	case 256:
		return rsassapkcs1.SHA256
	case 384:
		return rsassapkcs1.SHA384
	}
	return rsassapkcs1.SHA512
}

func wantPSS(bits int) (rsassapss.HashType, int) {
	switch bits {
	case 256:
		return rsassapss.SHA256, 32
	case 384:
		return rsassapss.SHA384, 48
	}
	return rsassapss.SHA512, 64
}

func wantHMAC(bits int) (hmac.HashType, int, crypto.Hash) {
	switch bits {
	case 256:
		return hmac.SHA256, 32, crypto.SHA256
	case 384:
		return hmac.SHA384, 48, crypto.SHA384
	}
	return hmac.SHA512, 64, crypto.SHA512
}

func wantMLDSA(bits int) mldsa.Instance {
	switch bits {
	case 44:
		return mldsa.MLDSA44
	case 65:
		return mldsa.MLDSA65
	}
	return mldsa.MLDSA87
}

// ---------------------------------------------------------------------------------------
// 1. The four switch tables of jwt_full_signer_verifier.go, every enum value incl. invalid.
// ---------------------------------------------------------------------------------------

func VerifH_dispatch_jwt_tables() {
	i := verifrt.Choice("idx", 3)
	bits := [...]int{256, 384, 512}[i]

	c, h, err := ecdsaCurveAndHashFromJWTAlgorithm([...]jwtecdsa.Algorithm{jwtecdsa.ES256, jwtecdsa.ES384, jwtecdsa.ES512}[i])
	wc, wh := wantECDSA(bits)
	verifrt.Assert(err == nil && c == wc && h == wh, "ES256/384/512 -> (P-256, SHA-256) / (P-384, SHA-384) / (P-521, SHA-512)")

	ph, err := hashTypeFromJWTRSAlgorithm([...]jwtrsassapkcs1.Algorithm{jwtrsassapkcs1.RS256, jwtrsassapkcs1.RS384, jwtrsassapkcs1.RS512}[i])
	verifrt.Assert(err == nil && ph == wantPKCS1Hash(bits), "RS256/384/512 -> SHA-256/384/512")

	sh, salt, err := hashTypeAndSaltLengthFromJWTPSAlgorithm([...]jwtrsassapss.Algorithm{jwtrsassapss.PS256, jwtrsassapss.PS384, jwtrsassapss.PS512}[i])
	wsh, wsalt := wantPSS(bits)
	verifrt.Assert(err == nil && sh == wsh && salt == wsalt, "PS256/384/512 -> (SHA-256, 32) / (SHA-384, 48) / (SHA-512, 64)")

	inst, err := mldsaInstanceFromJWTAlgorithm([...]jwtmldsa.Algorithm{jwtmldsa.MLDSA44, jwtmldsa.MLDSA65, jwtmldsa.MLDSA87}[i])
	verifrt.Assert(err == nil && inst == wantMLDSA([...]int{44, 65, 87}[i]), "ML-DSA-44/65/87 -> instance of the same name")

	// values outside the enum: an error, never a default algorithm
	_, _, e1 := ecdsaCurveAndHashFromJWTAlgorithm(jwtecdsa.UnknownAlgorithm)
	_, e2 := hashTypeFromJWTRSAlgorithm(jwtrsassapkcs1.UnknownAlgorithm)
	_, _, e3 := hashTypeAndSaltLengthFromJWTPSAlgorithm(jwtrsassapss.UnknownAlgorithm)
	_, e4 := mldsaInstanceFromJWTAlgorithm(jwtmldsa.UnknownAlgorithm)
	verifrt.Assert(e1 != nil && e2 != nil && e3 != nil && e4 != nil, "UnknownAlgorithm is refused by all four tables")
	_, _, e1 = ecdsaCurveAndHashFromJWTAlgorithm(jwtecdsa.ES512 + 1)
	_, e2 = hashTypeFromJWTRSAlgorithm(jwtrsassapkcs1.RS512 + 1)
	_, _, e3 = hashTypeAndSaltLengthFromJWTPSAlgorithm(jwtrsassapss.PS512 + 1)
	_, e4 = mldsaInstanceFromJWTAlgorithm(jwtmldsa.MLDSA87 + 1)
	verifrt.Assert(e1 != nil && e2 != nil && e3 != nil && e4 != nil, "out-of-range algorithms are refused by all four tables")

	// the "alg" names, for every JWT key type
	names := [5]string{
		[...]jwthmac.Algorithm{jwthmac.HS256, jwthmac.HS384, jwthmac.HS512}[i].String(),
		[...]jwtrsassapkcs1.Algorithm{jwtrsassapkcs1.RS256, jwtrsassapkcs1.RS384, jwtrsassapkcs1.RS512}[i].String(),
		[...]jwtecdsa.Algorithm{jwtecdsa.ES256, jwtecdsa.ES384, jwtecdsa.ES512}[i].String(),
		[...]jwtrsassapss.Algorithm{jwtrsassapss.PS256, jwtrsassapss.PS384, jwtrsassapss.PS512}[i].String(),
		[...]jwtmldsa.Algorithm{jwtmldsa.MLDSA44, jwtmldsa.MLDSA65, jwtmldsa.MLDSA87}[i].String(),
	}
	for f := 0; f < 5; f++ {
		verifrt.Assert(names[f] == joseTable[3*f+i].name, "Algorithm.String() is the registered \"alg\" value")
	}

	// keyID: base64url kid only for TINK keys
	id := verifrt.Uint32("id")
	k := keyID(id, tpb.OutputPrefixType_TINK)
	verifrt.Assert(k != nil, "keyID(TINK) is set")
	if k != nil {
		verifrt.AssertEq([]byte(*k), verifh.SpecKID(id), "keyID(TINK) == unpadded base64url of the big-endian key id")
	}
	for _, t := range [...]tpb.OutputPrefixType{tpb.OutputPrefixType_RAW, tpb.OutputPrefixType_LEGACY, tpb.OutputPrefixType_CRUNCHY, tpb.OutputPrefixType_UNKNOWN_PREFIX} {
		verifrt.Assert(keyID(id, t) == nil, "keyID is nil for non-TINK keys")
	}
	verifrt.Reach("end")
}

// ---------------------------------------------------------------------------------------
// 2. Full primitives: which underlying key the create* functions build, what they put into /
//    expect from the header.
// ---------------------------------------------------------------------------------------

// dispLog is everything the recording summaries observe.
type dispLog struct {
	calls []string // constructor calls in order

	// parameters of the underlying keys handed to NewSigner / NewVerifier / NewMAC (via the
	// preceding NewPrivateKey / NewPublicKey / NewKey)
	ecdsaParams []*ecdsa.Parameters
	pkcs1Params []*rsassapkcs1.Parameters
	pssParams   []*rsassapss.Parameters
	mldsaParams []*mldsa.Parameters
	hmacParams  []*hmac.Parameters
	material    [][]byte // key material handed over (private scalar / seed / modulus / point / MAC key)
	ids         []uint32 // id requirement of the underlying key

	// header construction
	hdrAlg []string
	hdrTyp []*string
	hdrKID []*string

	signed   [][]byte
	verified [][]byte
}

var dispSig = []byte("sig")

type dispSigner struct{ l *dispLog }

func (s *dispSigner) Sign(data []byte) ([]byte, error) {
	s.l.signed = append(s.l.signed, data)
	return dispSig, nil
}

type dispVerifier struct{ l *dispLog }

type dispErr struct{}

func (dispErr) Error() string { return "stub: invalid signature" }

func (v *dispVerifier) Verify(sig, data []byte) error {
	v.l.verified = append(v.l.verified, data)
	if string(sig) == string(dispSig) {
		return nil
	}
	return dispErr{}
}

type dispMAC struct{ l *dispLog }

func (m *dispMAC) ComputeMAC(data []byte) ([]byte, error) {
	m.l.signed = append(m.l.signed, data)
	return dispSig, nil
}

func (m *dispMAC) VerifyMAC(mac, data []byte) error {
	m.l.verified = append(m.l.verified, data)
	if string(mac) == string(dispSig) {
		return nil
	}
	return dispErr{}
}

var (
	_ tink.Signer   = (*dispSigner)(nil)
	_ tink.Verifier = (*dispVerifier)(nil)
	_ tink.MAC      = (*dispMAC)(nil)
)

// installDispatchStubs replaces the constructors of the underlying (non-JWT) key objects and
// primitives by recording stubs: the JWT layer's job ends at handing the right parameters and
// material to them. NewParameters of the underlying packages runs as real code.
func installDispatchStubs(l *dispLog) {
	// ECDSA
	verifrt.Summarize("v2/signature/ecdsa.NewPrivateKey", func(v secretdata.Bytes, id uint32, p *ecdsa.Parameters) (*ecdsa.PrivateKey, error) {
		l.calls = append(l.calls, "ecdsa.NewPrivateKey")
		l.ecdsaParams, l.material, l.ids = append(l.ecdsaParams, p), append(l.material, v.Data(insecuresecretdataaccess.Token{})), append(l.ids, id)
		return &ecdsa.PrivateKey{}, nil
	})
	verifrt.Summarize("v2/signature/ecdsa.NewPublicKey", func(pt []byte, id uint32, p *ecdsa.Parameters) (*ecdsa.PublicKey, error) {
		l.calls = append(l.calls, "ecdsa.NewPublicKey")
		l.ecdsaParams, l.material, l.ids = append(l.ecdsaParams, p), append(l.material, pt), append(l.ids, id)
		return &ecdsa.PublicKey{}, nil
	})
	verifrt.Summarize("v2/signature/ecdsa.NewSigner", func(k *ecdsa.PrivateKey, _ internalapi.Token) (tink.Signer, error) {
		l.calls = append(l.calls, "ecdsa.NewSigner")
		return &dispSigner{l}, nil
	})
	verifrt.Summarize("v2/signature/ecdsa.NewVerifier", func(k *ecdsa.PublicKey, _ internalapi.Token) (tink.Verifier, error) {
		l.calls = append(l.calls, "ecdsa.NewVerifier")
		return &dispVerifier{l}, nil
	})
	// RSA-SSA-PKCS1
	verifrt.Summarize("v2/signature/rsassapkcs1.NewPublicKey", func(mod []byte, id uint32, p *rsassapkcs1.Parameters) (*rsassapkcs1.PublicKey, error) {
		l.calls = append(l.calls, "rsassapkcs1.NewPublicKey")
		l.pkcs1Params, l.material, l.ids = append(l.pkcs1Params, p), append(l.material, mod), append(l.ids, id)
		return &rsassapkcs1.PublicKey{}, nil
	})
	verifrt.Summarize("v2/signature/rsassapkcs1.NewPrivateKey", func(pk *rsassapkcs1.PublicKey, v rsassapkcs1.PrivateKeyValues) (*rsassapkcs1.PrivateKey, error) {
		l.calls = append(l.calls, "rsassapkcs1.NewPrivateKey")
		l.material = append(l.material, v.P.Data(insecuresecretdataaccess.Token{}), v.Q.Data(insecuresecretdataaccess.Token{}), v.D.Data(insecuresecretdataaccess.Token{}))
		return &rsassapkcs1.PrivateKey{}, nil
	})
	verifrt.Summarize("v2/signature/rsassapkcs1.NewSigner", func(k *rsassapkcs1.PrivateKey, _ internalapi.Token) (tink.Signer, error) {
		l.calls = append(l.calls, "rsassapkcs1.NewSigner")
		return &dispSigner{l}, nil
	})
	verifrt.Summarize("v2/signature/rsassapkcs1.NewVerifier", func(k *rsassapkcs1.PublicKey, _ internalapi.Token) (tink.Verifier, error) {
		l.calls = append(l.calls, "rsassapkcs1.NewVerifier")
		return &dispVerifier{l}, nil
	})
	// RSA-SSA-PSS
	verifrt.Summarize("v2/signature/rsassapss.NewPublicKey", func(mod []byte, id uint32, p *rsassapss.Parameters) (*rsassapss.PublicKey, error) {
		l.calls = append(l.calls, "rsassapss.NewPublicKey")
		l.pssParams, l.material, l.ids = append(l.pssParams, p), append(l.material, mod), append(l.ids, id)
		return &rsassapss.PublicKey{}, nil
	})
	verifrt.Summarize("v2/signature/rsassapss.NewPrivateKey", func(pk *rsassapss.PublicKey, v rsassapss.PrivateKeyValues) (*rsassapss.PrivateKey, error) {
		l.calls = append(l.calls, "rsassapss.NewPrivateKey")
		l.material = append(l.material, v.P.Data(insecuresecretdataaccess.Token{}), v.Q.Data(insecuresecretdataaccess.Token{}), v.D.Data(insecuresecretdataaccess.Token{}))
		return &rsassapss.PrivateKey{}, nil
	})
	verifrt.Summarize("v2/signature/rsassapss.NewSigner", func(k *rsassapss.PrivateKey, _ internalapi.Token) (tink.Signer, error) {
		l.calls = append(l.calls, "rsassapss.NewSigner")
		return &dispSigner{l}, nil
	})
	verifrt.Summarize("v2/signature/rsassapss.NewVerifier", func(k *rsassapss.PublicKey, _ internalapi.Token) (tink.Verifier, error) {
		l.calls = append(l.calls, "rsassapss.NewVerifier")
		return &dispVerifier{l}, nil
	})
	// ML-DSA
	verifrt.Summarize("v2/signature/mldsa.NewPrivateKey", func(v secretdata.Bytes, id uint32, p *mldsa.Parameters) (*mldsa.PrivateKey, error) {
		l.calls = append(l.calls, "mldsa.NewPrivateKey")
		l.mldsaParams, l.material, l.ids = append(l.mldsaParams, p), append(l.material, v.Data(insecuresecretdataaccess.Token{})), append(l.ids, id)
		return &mldsa.PrivateKey{}, nil
	})
	verifrt.Summarize("v2/signature/mldsa.NewPublicKey", func(kb []byte, id uint32, p *mldsa.Parameters) (*mldsa.PublicKey, error) {
		l.calls = append(l.calls, "mldsa.NewPublicKey")
		l.mldsaParams, l.material, l.ids = append(l.mldsaParams, p), append(l.material, kb), append(l.ids, id)
		return &mldsa.PublicKey{}, nil
	})
	verifrt.Summarize("v2/signature/mldsa.NewSigner", func(k *mldsa.PrivateKey, _ internalapi.Token) (tink.Signer, error) {
		l.calls = append(l.calls, "mldsa.NewSigner")
		return &dispSigner{l}, nil
	})
	verifrt.Summarize("v2/signature/mldsa.NewVerifier", func(k *mldsa.PublicKey, _ internalapi.Token) (tink.Verifier, error) {
		l.calls = append(l.calls, "mldsa.NewVerifier")
		return &dispVerifier{l}, nil
	})
	// HMAC
	verifrt.Summarize("v2/mac/hmac.NewKey", func(kb secretdata.Bytes, p *hmac.Parameters, id uint32) (*hmac.Key, error) {
		l.calls = append(l.calls, "hmac.NewKey")
		l.hmacParams, l.material, l.ids = append(l.hmacParams, p), append(l.material, kb.Data(insecuresecretdataaccess.Token{})), append(l.ids, id)
		return &hmac.Key{}, nil
	})
	verifrt.Summarize("v2/mac/hmac.NewMAC", func(k *hmac.Key, _ internalapi.Token) (tink.MAC, error) {
		l.calls = append(l.calls, "hmac.NewMAC")
		return &dispMAC{l}, nil
	})
	// header / payload JSON (protojson: reflection)
	verifrt.Summarize("v2/jwt.createHeader", func(algorithm string, typeHeader, kid *string) (string, error) {
		l.hdrAlg, l.hdrTyp, l.hdrKID = append(l.hdrAlg, algorithm), append(l.hdrTyp, typeHeader), append(l.hdrKID, kid)
		return "aGRy", nil
	})
	verifrt.Summarize("jwt.RawJWT).JSONPayload", func(r *RawJWT) ([]byte, error) { return []byte("{}"), nil })
	// assembly kernels under strings.Count / strings.SplitN (used by splitSignedCompact and
	// decodeUnsignedTokenAndValidateHeader): their definitions
	verifrt.Summarize("internal/bytealg.CountString", func(s string, c byte) int {
		n := 0
		for i := 0; i < len(s); i++ {
			if s[i] == c {
				n++
			}
		}
		return n
	})
	verifrt.Summarize("internal/bytealg.IndexByteString", func(s string, c byte) int {
		for i := 0; i < len(s); i++ {
			if s[i] == c {
				return i
			}
		}
		return -1
	})
	// crypto/ecdh point validation inside jwtecdsa.NewPublicKey
	verifrt.Summarize("crypto/internal/fips140/nistec.P256Point).SetBytes", func(p any, b []byte) (any, error) { return nil, nil })
	verifrt.Summarize("crypto/internal/fips140/nistec.P384Point).SetBytes", func(p any, b []byte) (any, error) { return nil, nil })
	verifrt.Summarize("crypto/internal/fips140/nistec.P521Point).SetBytes", func(p any, b []byte) (any, error) { return nil, nil })
}

// dispKey is a JWT key of the row's type with the chosen kid strategy, built through the real
// public constructors where they are executable and the unchecked shims for private keys.
type dispKey struct {
	row      joseRow
	strategy int // 0 Base64EncodedKeyIDAsKID, 1 IgnoredKID, 2 CustomKID
	id       uint32
	custom   string
	pub      key.Key // public key (nil for HMAC)
	priv     key.Key // private key, or the HMAC key
	material []byte  // public material: point / modulus / ML-DSA public key / MAC key
	secret   [][]byte
	rsaBits  int
	rsaExp   int
}

func dispRSAModulus() []byte {
	m := make([]byte, 256)
	m[0], m[255] = 0x80|verifrt.Byte("n0"), 1|verifrt.Byte("nN")
	return m
}

func dispMakeKey(row joseRow, bothExponents bool) *dispKey {
	k := &dispKey{row: row, strategy: verifrt.Choice("kid", 3)}
	if k.strategy == 0 {
		k.id = verifrt.Uint32("id")
	}
	hasCustom := k.strategy == 2
	if hasCustom {
		k.custom = string(verifrt.Bytes("customkid", 3))
	}
	sd := func(b []byte) secretdata.Bytes {
		return secretdata.NewBytesFromData(b, insecuresecretdataaccess.Token{})
	}
	switch row.fam {
	case famHS:
		alg := [...]jwthmac.Algorithm{jwthmac.HS256, jwthmac.HS384, jwthmac.HS512}[row.idx]
		st := [...]jwthmac.KIDStrategy{jwthmac.Base64EncodedKeyIDAsKID, jwthmac.IgnoredKID, jwthmac.CustomKID}[k.strategy]
		ks := row.bits/8 + 3
		p, err := jwthmac.NewParameters(ks, st, alg)
		verifrt.Assert(err == nil, "jwthmac.NewParameters")
		k.material = verifrt.Bytes("mackey", ks)
		hk, err := jwthmac.NewKey(jwthmac.KeyOpts{KeyBytes: sd(k.material), IDRequirement: k.id, CustomKID: k.custom, HasCustomKID: hasCustom, Parameters: p})
		verifrt.Assert(err == nil && hk != nil, "jwthmac.NewKey")
		k.priv = hk
	case famES:
		alg := [...]jwtecdsa.Algorithm{jwtecdsa.ES256, jwtecdsa.ES384, jwtecdsa.ES512}[row.idx]
		st := [...]jwtecdsa.KIDStrategy{jwtecdsa.Base64EncodedKeyIDAsKID, jwtecdsa.IgnoredKID, jwtecdsa.CustomKID}[k.strategy]
		coord := [...]int{32, 48, 66}[row.idx]
		p, err := jwtecdsa.NewParameters(st, alg)
		verifrt.Assert(err == nil, "jwtecdsa.NewParameters")
		k.material = append([]byte{4}, verifrt.Bytes("xy", 2*coord)...)
		pub, err := jwtecdsa.NewPublicKey(jwtecdsa.PublicKeyOpts{PublicPoint: k.material, IDRequirement: k.id, CustomKID: k.custom, HasCustomKID: hasCustom, Parameters: p})
		verifrt.Assert(err == nil && pub != nil, "jwtecdsa.NewPublicKey")
		k.secret = [][]byte{verifrt.Bytes("scalar", coord)}
		k.pub, k.priv = pub, jwtecdsa.VerifUncheckedPrivateKey(sd(k.secret[0]), pub)
	case famRS:
		alg := [...]jwtrsassapkcs1.Algorithm{jwtrsassapkcs1.RS256, jwtrsassapkcs1.RS384, jwtrsassapkcs1.RS512}[row.idx]
		st := [...]jwtrsassapkcs1.KIDStrategy{jwtrsassapkcs1.Base64EncodedKeyIDAsKID, jwtrsassapkcs1.IgnoredKID, jwtrsassapkcs1.CustomKID}[k.strategy]
		k.rsaBits, k.rsaExp = 2048, 65539
		if bothExponents {
			k.rsaExp = [...]int{65537, 65539}[verifrt.Choice("exp", 2)]
		}
		p, err := jwtrsassapkcs1.NewParameters(jwtrsassapkcs1.ParametersOpts{ModulusSizeInBits: k.rsaBits, PublicExponent: k.rsaExp, Algorithm: alg, KidStrategy: st})
		verifrt.Assert(err == nil, "jwtrsassapkcs1.NewParameters")
		k.material = dispRSAModulus()
		pub, err := jwtrsassapkcs1.NewPublicKey(jwtrsassapkcs1.PublicKeyOpts{Modulus: k.material, IDRequirement: k.id, CustomKID: k.custom, HasCustomKID: hasCustom, Parameters: p})
		verifrt.Assert(err == nil && pub != nil, "jwtrsassapkcs1.NewPublicKey")
		k.secret = [][]byte{{0x0b}, {0x0d}, {0x07}} // P, Q, D as handed over (minimal big-endian)
		k.pub, k.priv = pub, jwtrsassapkcs1.VerifUncheckedPrivateKey(pub, k.secret[2], k.secret[0], k.secret[1])
	case famPS:
		alg := [...]jwtrsassapss.Algorithm{jwtrsassapss.PS256, jwtrsassapss.PS384, jwtrsassapss.PS512}[row.idx]
		st := [...]jwtrsassapss.KIDStrategy{jwtrsassapss.Base64EncodedKeyIDAsKID, jwtrsassapss.IgnoredKID, jwtrsassapss.CustomKID}[k.strategy]
		k.rsaBits, k.rsaExp = 2048, 65539
		if bothExponents {
			k.rsaExp = [...]int{65537, 65539}[verifrt.Choice("exp", 2)]
		}
		p, err := jwtrsassapss.NewParameters(jwtrsassapss.ParametersOpts{ModulusSizeInBits: k.rsaBits, PublicExponent: k.rsaExp, Algorithm: alg, KidStrategy: st})
		verifrt.Assert(err == nil, "jwtrsassapss.NewParameters")
		k.material = dispRSAModulus()
		pub, err := jwtrsassapss.NewPublicKey(jwtrsassapss.PublicKeyOpts{Modulus: k.material, IDRequirement: k.id, CustomKID: k.custom, HasCustomKID: hasCustom, Parameters: p})
		verifrt.Assert(err == nil && pub != nil, "jwtrsassapss.NewPublicKey")
		k.secret = [][]byte{{0x0b}, {0x0d}, {0x07}}
		k.pub, k.priv = pub, jwtrsassapss.VerifUncheckedPrivateKey(pub, k.secret[2], k.secret[0], k.secret[1])
	case famML:
		alg := [...]jwtmldsa.Algorithm{jwtmldsa.MLDSA44, jwtmldsa.MLDSA65, jwtmldsa.MLDSA87}[row.idx]
		st := [...]jwtmldsa.KIDStrategy{jwtmldsa.Base64EncodedKeyIDAsKID, jwtmldsa.IgnoredKID, jwtmldsa.CustomKID}[k.strategy]
		p, err := jwtmldsa.NewParameters(st, alg)
		verifrt.Assert(err == nil, "jwtmldsa.NewParameters")
		pkLen := [...]int{1312, 1952, 2592}[row.idx]
		k.material = make([]byte, pkLen)
		k.material[0], k.material[pkLen-1] = verifrt.Byte("pk0"), verifrt.Byte("pkN")
		pub, err := jwtmldsa.NewPublicKey(jwtmldsa.PublicKeyOpts{KeyBytes: k.material, IDRequirement: k.id, CustomKID: k.custom, HasCustomKID: hasCustom, Parameters: p})
		verifrt.Assert(err == nil && pub != nil, "jwtmldsa.NewPublicKey")
		k.secret = [][]byte{verifrt.Bytes("seed", 32)}
		k.pub, k.priv = pub, jwtmldsa.VerifUncheckedPrivateKey(sd(k.secret[0]), pub)
	}
	return k
}

// dispCheckUnderlying: the underlying key the JWT layer built is the one the registry
// prescribes for the algorithm, RAW (no Tink prefix, id 0), with the JWT key's material.
func dispCheckUnderlying(l *dispLog, k *dispKey, private bool) {
	row := k.row
	verifrt.Assert(len(l.ids) == 1 && l.ids[0] == 0, "the underlying key has no id requirement (id 0)")
	switch row.fam {
	case famHS:
		verifrt.Assert(len(l.hmacParams) == 1 && l.hmacParams[0] != nil, "one HMAC key")
		p := l.hmacParams[0]
		wh, wtag, _ := wantHMAC(row.bits)
		verifrt.Assert(p.HashType() == wh && p.CryptographicTagSizeInBytes() == wtag && p.KeySizeInBytes() == len(k.material) && p.Variant() == hmac.VariantNoPrefix,
			"HS256/384/512: HMAC-SHA-256/384/512, untruncated tag (32/48/64 bytes), no output prefix, key size carried over")
		verifrt.AssertEq(l.material[0], k.material, "MAC key bytes handed over")
	case famES:
		verifrt.Assert(len(l.ecdsaParams) == 1 && l.ecdsaParams[0] != nil, "one ECDSA key")
		p := l.ecdsaParams[0]
		wc, wh := wantECDSA(row.bits)
		verifrt.Assert(p.CurveType() == wc && p.HashType() == wh, "ES256/384/512: (P-256, SHA-256) / (P-384, SHA-384) / (P-521, SHA-512)")
		verifrt.Assert(p.SignatureEncoding() == ecdsa.IEEEP1363, "JWS ECDSA signatures are R || S (IEEE P1363), not DER")
		verifrt.Assert(p.Variant() == ecdsa.VariantNoPrefix, "no output prefix")
		if private {
			verifrt.AssertEq(l.material[0], k.secret[0], "private scalar handed over")
		} else {
			verifrt.AssertEq(l.material[0], k.material, "public point handed over")
		}
	case famRS:
		verifrt.Assert(len(l.pkcs1Params) == 1 && l.pkcs1Params[0] != nil, "one RSA-SSA-PKCS1 key")
		p := l.pkcs1Params[0]
		verifrt.Assert(p.HashType() == wantPKCS1Hash(row.bits), "RS256/384/512: SHA-256/384/512")
		verifrt.Assert(p.ModulusSizeBits() == k.rsaBits && p.PublicExponent() == k.rsaExp && p.Variant() == rsassapkcs1.VariantNoPrefix, "modulus size and public exponent carried over, no output prefix")
		verifrt.AssertEq(l.material[0], k.material, "modulus handed over")
		if private {
			verifrt.Assert(len(l.material) == 4, "P, Q, D handed over")
			for i := 0; i < 3 && len(l.material) == 4; i++ {
				verifrt.AssertEq(l.material[1+i], k.secret[i], "P, Q, D handed over in their own fields")
			}
		}
	case famPS:
		verifrt.Assert(len(l.pssParams) == 1 && l.pssParams[0] != nil, "one RSA-SSA-PSS key")
		p := l.pssParams[0]
		wh, wsalt := wantPSS(row.bits)
		verifrt.Assert(p.SigHashType() == wh, "PS256/384/512: SHA-256/384/512")
		verifrt.Assert(p.MGF1HashType() == wh, "PS256/384/512: MGF1 with the same hash")
		verifrt.Assert(p.SaltLengthBytes() == wsalt, "PS256/384/512: salt length = hash output length (32/48/64)")
		verifrt.Assert(p.ModulusSizeBits() == k.rsaBits && p.PublicExponent() == k.rsaExp && p.Variant() == rsassapss.VariantNoPrefix, "modulus size and public exponent carried over, no output prefix")
		verifrt.AssertEq(l.material[0], k.material, "modulus handed over")
		if private {
			verifrt.Assert(len(l.material) == 4, "P, Q, D handed over")
			for i := 0; i < 3 && len(l.material) == 4; i++ {
				verifrt.AssertEq(l.material[1+i], k.secret[i], "P, Q, D handed over in their own fields")
			}
		}
	case famML:
		verifrt.Assert(len(l.mldsaParams) == 1 && l.mldsaParams[0] != nil, "one ML-DSA key")
		p := l.mldsaParams[0]
		verifrt.Assert(p.Instance() == wantMLDSA(row.bits) && p.Variant() == mldsa.VariantNoPrefix, "ML-DSA-44/65/87: the instance of the same name, no output prefix")
		if private {
			verifrt.AssertEq(l.material[0], k.secret[0], "seed handed over")
		} else {
			verifrt.AssertEq(l.material[0], k.material, "public key bytes handed over")
		}
	}
}

// dispWantKID: what the header must carry for the key (nil: no kid).
func dispWantKID(k *dispKey) *string {
	switch k.strategy {
	case 0:
		s := string(verifh.SpecKID(k.id))
		return &s
	case 2:
		return &k.custom
	}
	return nil
}

func dispSameOpt(a, b *string) bool {
	if a == nil || b == nil {
		return a == nil && b == nil
	}
	return len(*a) == len(*b) && verifrt.EqBytes([]byte(*a), []byte(*b))
}

func dispRawJWT() *RawJWT {
	r, err := NewRawJWT(&RawJWTOptions{WithoutExpiration: true})
	verifrt.Assert(err == nil && r != nil, "NewRawJWT")
	return r
}

// Signing side (and MAC computation): for every algorithm of every JWT key type and every kid
// strategy, the primitive is built over the registry's algorithm and writes the registry's
// "alg" value and the key's kid into the header.
func VerifH_dispatch_jwt_sign() {
	verifrt.EngineOnly()
	row := joseTable[verifrt.Choice("alg", 15)]
	l := &dispLog{}
	installDispatchStubs(l)
	k := dispMakeKey(row, true)
	if k.priv == nil {
		return
	}
	var p any
	var err error
	switch row.fam {
	case famHS:
		p, err = createJWTHMAC(k.priv)
	case famES:
		p, err = createJWTECDSASigner(k.priv)
	case famRS:
		p, err = createJWTRSASSAPKCS1Signer(k.priv)
	case famPS:
		p, err = createJWTRSASSAPSSSigner(k.priv)
	case famML:
		p, err = createJWTMLDSASigner(k.priv)
	}
	verifrt.Assert(err == nil && p != nil, "the primitive constructor succeeds")
	if err != nil || p == nil {
		return
	}
	dispCheckUnderlying(l, k, true)
	var token string
	if row.fam == famHS {
		token, err = p.(*fullMac).ComputeMACAndEncode(dispRawJWT())
	} else {
		token, err = p.(*fullSigner).SignAndEncode(dispRawJWT())
	}
	verifrt.Assert(err == nil && token != "", "signing succeeds")
	verifrt.Assert(len(l.hdrAlg) == 1 && len(l.signed) == 1, "one header, one signature")
	if len(l.hdrAlg) != 1 {
		return
	}
	verifrt.Assert(l.hdrAlg[0] == row.name, "the \"alg\" header is the registered name of the key's algorithm")
	verifrt.Assert(l.hdrTyp[0] == nil, "no typ header unless the token has one")
	verifrt.Assert(dispSameOpt(l.hdrKID[0], dispWantKID(k)), "the kid header is base64url(key id) for Base64EncodedKeyIDAsKID, the custom value for CustomKID, absent for IgnoredKID")
	verifrt.Reach("end")
}

// Verification side: a token is accepted iff the underlying verifier accepts, the header's
// "alg" is the registered name of the key's algorithm (any of the other 14 names is refused),
// and the kid rule of the key's strategy holds.
func VerifH_dispatch_jwt_verify() {
	verifrt.EngineOnly()
	row := joseTable[verifrt.Choice("alg", 15)]
	l := &dispLog{}
	installDispatchStubs(l)
	k := dispMakeKey(row, verifrt.Thorough())
	if k.priv == nil {
		return
	}
	var p any
	var err error
	switch row.fam {
	case famHS:
		p, err = createJWTHMAC(k.priv)
	case famES:
		p, err = createJWTECDSAVerifier(k.pub)
	case famRS:
		p, err = createJWTRSASSAPKCS1Verifier(k.pub)
	case famPS:
		p, err = createJWTRSASSAPSSVerifier(k.pub)
	case famML:
		p, err = createJWTMLDSAVerifier(k.pub)
	}
	verifrt.Assert(err == nil && p != nil, "the primitive constructor succeeds")
	if err != nil || p == nil {
		return
	}
	dispCheckUnderlying(l, k, false)

	// the token's header: any of the 15 registered names (or one that is none of them), kid
	// absent or an arbitrary string of the length the key's kid has. Quick tier: the full
	// 16 x 2 header matrix for tokens with a valid signature; for an invalid signature only the
	// header that would otherwise be accepted (thorough: the full matrix there too).
	sigOK := verifrt.Choice("sig", 2) == 0
	ownIdx := 3*row.fam + row.idx
	hAlgIdx, hasKID := ownIdx, true
	if sigOK || verifrt.Thorough() {
		hAlgIdx = verifrt.Choice("halg", 16)
		hasKID = verifrt.Choice("hkid", 2) == 1
	}
	hAlg := "none"
	if hAlgIdx < 15 {
		hAlg = joseTable[hAlgIdx].name
	}
	fields := map[string]*spb.Value{"alg": spb.NewStringValue(hAlg)}
	var hKID string
	if hasKID {
		n := 6
		if k.strategy == 2 {
			n = len(k.custom)
		}
		hKID = string(verifrt.Bytes("headerkid", n))
		fields["kid"] = spb.NewStringValue(hKID)
	}
	verifrt.Summarize("v2/jwt.jsonToStruct", func(b []byte) (*spb.Struct, error) { return &spb.Struct{Fields: fields}, nil })
	raw := dispRawJWT()
	verifrt.Summarize("v2/jwt.NewRawJWTFromJSON", func(typeHeader *string, payload []byte) (*RawJWT, error) { return raw, nil })
	validator, err := NewValidator(&ValidatorOpts{AllowMissingExpiration: true})
	verifrt.Assert(err == nil, "NewValidator")

	compact := "aGRy.e30.c2ln" // base64url("hdr") . base64url("{}") . base64url("sig")
	if !sigOK {
		compact = "aGRy.e30.YmFk" // ... base64url("bad")
	}
	var got *VerifiedJWT
	if row.fam == famHS {
		got, err = p.(*fullMac).VerifyMACAndDecode(compact, validator)
	} else {
		got, err = p.(*fullVerifier).VerifyAndDecode(compact, validator)
	}
	algOK := hAlgIdx < 15 && joseTable[hAlgIdx].fam == row.fam && joseTable[hAlgIdx].idx == row.idx
	kidOK := true
	switch k.strategy {
	case 0: // the kid plays the role of the output prefix: it must be there and be the key's
		kidOK = hasKID && verifrt.EqBytes([]byte(hKID), verifh.SpecKID(k.id))
	case 2: // a custom kid is checked when the token has one
		kidOK = !hasKID || verifrt.EqBytes([]byte(hKID), []byte(k.custom))
	}
	verifrt.Assert((err == nil && got != nil) == (sigOK && algOK && kidOK), "accepted iff signature valid, \"alg\" is the registered name of the key's algorithm, and the kid rule of the key's strategy holds")
	verifrt.Assert(len(l.verified) == 1, "the underlying verifier is consulted exactly once")
	if len(l.verified) == 1 {
		verifrt.AssertEq(l.verified[0], []byte("aGRy.e30"), "the signature is verified over header.payload")
	}
	if err == nil {
		verifrt.Reach("accepted")
	}
	verifrt.Reach("end")
}

// The real MAC behind JWT HMAC keys (no stub): tag == HMAC-SHA-x(key, data) untruncated, and
// exactly that tag verifies.
func VerifH_dispatch_jwt_hmac_real() {
	i := verifrt.Choice("idx", 3)
	row := joseTable[i]
	alg := [...]jwthmac.Algorithm{jwthmac.HS256, jwthmac.HS384, jwthmac.HS512}[i]
	ks := row.bits/8 + verifrt.Choice("extra", 2)
	p, err := jwthmac.NewParameters(ks, jwthmac.IgnoredKID, alg)
	verifrt.Assert(err == nil, "jwthmac.NewParameters")
	keyBytes := verifrt.Bytes("mackey", ks)
	hk, err := jwthmac.NewKey(jwthmac.KeyOpts{KeyBytes: secretdata.NewBytesFromData(keyBytes, insecuresecretdataaccess.Token{}), Parameters: p})
	verifrt.Assert(err == nil, "jwthmac.NewKey")
	prim, err := createJWTHMAC(hk)
	verifrt.Assert(err == nil && prim != nil, "createJWTHMAC")
	if err != nil {
		return
	}
	fm := prim.(*fullMac)
	verifrt.Assert(fm.m.algorithm == row.name && fm.kid == nil && fm.m.customKID == nil, "algorithm name; no kid for IgnoredKID")
	data := verifrt.Bytes("data", verifrt.Choice("dl", 3))
	tag, err := fm.m.tm.ComputeMAC(data)
	verifrt.Assert(err == nil, "ComputeMAC")
	_, wtag, ch := wantHMAC(row.bits)
	ref := chmac.New(ch.New, keyBytes)
	ref.Write(data)
	want := ref.Sum(nil)
	verifrt.Assert(len(want) == wtag, "reference tag length")
	verifrt.AssertEq(tag, want, "HS256/384/512 tag == HMAC-SHA-256/384/512(key, data), untruncated, no prefix")
	verifrt.Assert(fm.m.tm.VerifyMAC(tag, data) == nil, "the tag verifies")
	verifrt.Reach("end")
}
