package jwt

import (
	"encoding/base64"
	"errors"

	"github.com/tink-crypto/tink-go/v2/internal/verifrt"
	spb "google.golang.org/protobuf/types/known/structpb"
)

// ---------------------------------------------------------------------------------------
// The compact serialization helpers without JSON: base64Encode / base64Decode against RFC 4648
// section 5 written arithmetically here, splitSignedCompact, combineUnsignedAndSignature, the
// header / payload split of decodeUnsignedTokenAndValidateHeader, and the header rules that
// need no kid (alg type, crit, typ type).
//
// What the code is expected to do (RFC 7515 section 3.1 / 7.1, RFC 4648 section 5 / 3.2 / 3.3):
//   * a compact JWS is  BASE64URL(header) "." BASE64URL(payload) "." BASE64URL(signature):
//     exactly two dots; the signed text is everything before the second dot, verbatim
//   * BASE64URL is the URL-safe alphabet without padding: no '=', no character outside
//     A-Z a-z 0-9 - _ (no white space, no line breaks), and a length that base64 can produce
//     (never 1 mod 4)
//   * Tink additionally refuses an empty signature
//   * NOT enforced by the code (encoding/base64 is used in its non-strict mode): the unused
//     low bits of the last character need not be zero, so 2 resp. 4 spellings of the last
//     signature character decode to the same signature. The reference below ignores those
//     bits too; VerifH_rawjwt_b64_noncanonical states the fact as an assertion.
//
// Engine limits and the replacements used (verifrt.Summarize):
//   * jwt.base64Decode ranges over its string argument ("range over symbolic string" is
//     unsupported): replaced by indexedBase64Decode, which tests every BYTE with the alphabet
//     predicate and then calls the same encoding/base64 decoder (real code). Ranging over a
//     string yields, for a byte < 0x80, that byte as a rune, and for any sequence starting with
//     a byte >= 0x80 a rune >= 0x80 (or U+FFFD) - never a member of the alphabet - so "some rune
//     is outside the alphabet" and "some byte is outside the alphabet" are the same condition.
//     The alphabet predicate used by the replacement is the range-test specification
//     specB64Val, proven equal to the real isValidURLsafeBase64Char for every rune by
//     VerifH_rawjwt_b64_alphabet (the real predicate's short-circuit chain forks ~11 ways per
//     character: 1500 paths for 4 characters). Natively the real base64Decode runs (Summarize
//     is a no-op there) and the same assertions are checked by the translator validation.
//   * internal/bytealg.CountString / IndexByteString (assembly): their Go definitions.
//   * jwt.dotConcat (fmt.Sprintf): a + "." + b.
//   * jwt.jsonToStruct / jwt.NewRawJWTFromJSON (protojson): recording stubs, only in
//     VerifH_rawjwt_decode_unsigned (engine-only).
// ---------------------------------------------------------------------------------------

// specB64Val: RFC 4648 Table 2, the value of a character, by range tests ("c - lo < n" in
// unsigned arithmetic is "lo <= c < lo+n"). Straight-line: single conditions guarding
// assignments, which the engine merges into one term instead of forking.
func specB64Val(c byte) (byte, bool) {
	v, ok := byte(0), false
	if c-'A' < 26 { // 'A'..'Z' -> 0..25
		v, ok = c-'A', true
	}
	if c-'a' < 26 { // 'a'..'z' -> 26..51
		v, ok = c-'a'+26, true
	}
	if c-'0' < 10 { // '0'..'9' -> 52..61
		v, ok = c-'0'+52, true
	}
	if c == '-' {
		v, ok = 62, true
	}
	if c == '_' {
		v, ok = 63, true
	}
	return v, ok
}

// specB64Char: the character of a 6-bit value.
func specB64Char(v byte) byte {
	c := v + 'A'
	if v >= 26 {
		c = v - 26 + 'a'
	}
	if v >= 52 {
		c = v - 52 + '0'
	}
	if v == 62 {
		c = '-'
	}
	if v == 63 {
		c = '_'
	}
	return c
}

// specB64Decode: the characters' 6-bit values concatenated, cut into bytes from the front;
// left-over bits (2 or 4) are dropped. Valid iff every character is in the alphabet and the
// length is not 1 mod 4 (6 left-over bits cannot be the tail of an encoding).
func specB64Decode(s string) ([]byte, bool) {
	ok := len(s)%4 != 1
	out := make([]byte, len(s)*6/8)
	acc, nbits, j := uint32(0), 0, 0
	for i := 0; i < len(s); i++ {
		v, good := specB64Val(s[i])
		ok = verifrt.And(ok, good)
		acc = acc<<6 | uint32(v)
		nbits += 6
		if nbits >= 8 {
			nbits -= 8
			if j < len(out) {
				out[j] = byte(acc >> uint(nbits))
			}
			j++
		}
	}
	return out, ok
}

// specB64Encode: bytes concatenated, cut into 6-bit groups from the front, the last group
// padded with zero bits; no '='.
func specB64Encode(b []byte) string {
	out := make([]byte, (len(b)*8+5)/6)
	acc, nbits, j := uint32(0), 0, 0
	for i := 0; i < len(b); i++ {
		acc = acc<<8 | uint32(b[i])
		nbits += 8
		for nbits >= 6 {
			nbits -= 6
			out[j] = specB64Char(byte(acc>>uint(nbits)) & 63)
			j++
		}
	}
	if nbits > 0 {
		out[j] = specB64Char(byte(acc<<uint(6-nbits)) & 63)
	}
	return string(out)
}

// indexedBase64Decode: jwt.base64Decode with the range loop replaced by an index loop (see
// the comment at the top).
func indexedBase64Decode(content string) ([]byte, error) {
	bad := false
	for i := 0; i < len(content); i++ {
		_, in := specB64Val(content[i])
		bad = verifrt.Or(bad, !in)
	}
	if bad {
		return nil, errors.New("invalid encoding")
	}
	return base64.URLEncoding.WithPadding(base64.NoPadding).DecodeString(content)
}

func installCompactModel() {
	verifrt.Summarize("jwt.base64Decode", indexedBase64Decode)
	installStringKernels()
}

// installStringKernels: only fmt.Sprintf and the assembly kernels; base64Decode stays real.
func installStringKernels() {
	verifrt.Summarize("jwt.dotConcat", func(a, b string) string { return a + "." + b })
	verifrt.Summarize("internal/bytealg.CountString", func(s string, c byte) int {
		n := 0
		for i := 0; i < len(s); i++ {
			if s[i] == c {
				n++
			}
		}
		return n
	})
	verifrt.Summarize("internal/bytealg.IndexByteString", func(s string, c byte) int {
		for i := 0; i < len(s); i++ {
			if s[i] == c {
				return i
			}
		}
		return -1
	})
}

// The alphabet predicate for EVERY rune equals the RFC 4648 table.
func VerifH_rawjwt_b64_alphabet() {
	c := rune(verifrt.Int32("c"))
	_, in := specB64Val(byte(c))
	want := c >= 0 && c < 256 && in
	verifrt.Assert(isValidURLsafeBase64Char(c) == want, "isValidURLsafeBase64Char(c) iff c is one of A-Z a-z 0-9 - _")
	verifrt.Reach("end")
}

// compactChars: a string of n characters. Class 0: any byte. Class 1: every character is one
// of the listed ones (a dot, alphabet characters from each range incl. both ends, '=' and
// other near misses) - chosen by the solver, not enumerated.
var compactSet = [...]byte{'.', 'A', 'Q', 'Z', 'a', 'z', '0', '9', '-', '_', '=', '+', '/', ' ', '\n', '\r', '@', '[', '`', '{', 0, 0xff, 0xc3}

func compactString(name string, n int, anyByte bool) string {
	b := verifrt.Bytes(name, n)
	if !anyByte {
		for i := range b {
			in := false
			for _, t := range compactSet {
				in = verifrt.Or(in, b[i] == t) // no fork: the solver picks the character
			}
			verifrt.Assume(in)
		}
	}
	return string(b)
}

// base64Decode accepts exactly the unpadded URL-safe strings and returns their bits.
func VerifH_rawjwt_b64_decode() {
	installCompactModel()
	maxAny, maxSet := 4, 6
	if verifrt.Thorough() {
		maxAny, maxSet = 5, 8
	}
	var s string
	if verifrt.Choice("class", 2) == 0 {
		s = compactString("s", verifrt.Choice("n", maxAny+1), true)
	} else {
		s = compactString("s", verifrt.Choice("m", maxSet+1), false)
	}
	got, err := base64Decode(s)
	want, ok := specB64Decode(s)
	verifrt.Assert((err == nil) == ok, "base64Decode accepts iff every character is in the URL-safe alphabet and the length is not 1 mod 4 (no padding, no white space)")
	if err == nil {
		verifrt.AssertEq(got, want, "decoded bytes are the concatenated 6-bit values")
		verifrt.Reach("accepted")
	} else {
		verifrt.Reach("refused")
	}
}

// base64Encode is RFC 4648 section 5 without padding, and base64Decode undoes it.
func VerifH_rawjwt_b64_encode() {
	installCompactModel()
	maxLen := 3
	if verifrt.Thorough() {
		maxLen = 5
	}
	b := verifrt.Bytes("b", verifrt.Choice("n", maxLen+1))
	s := base64Encode(b)
	verifrt.Assert(s == specB64Encode(b), "base64Encode == base64url without padding")
	back, err := base64Decode(s)
	verifrt.Assert(err == nil, "an encoding decodes")
	if err == nil {
		verifrt.AssertEq(back, b, "decode(encode(b)) == b")
	}
	verifrt.Reach("end")
}

// The REAL base64Decode (not summarised: ranging over a concrete string is executable) on
// concrete strings: padding, white space and line breaks (which encoding/base64 itself would
// skip), the standard alphabet's '+' and '/', multi-byte and invalid UTF-8, dots, impossible
// lengths. This is the only harness that executes base64Decode's own loop under the engine.
func VerifH_rawjwt_b64_concrete() {
	samples := [...]struct {
		s  string
		ok bool
	}{
		{"", true}, {"Q", false}, {"QQ", true}, {"QUE", true}, {"QUFB", true}, {"QUFBQ", false}, {"QUFBQQ", true},
		{"-_-_", true}, {"+/+/", false}, {"-_+_", false}, {"QQ==", false}, {"QQ=", false}, {"QUE=", false}, {"=", false},
		{"QQ\n", false}, {"Q\nQ", false}, {"\nQQ", false}, {"QQ\r\n", false}, {"QUFB\r\nQUFB", false}, {"Q Q", false}, {"QQ ", false}, {"QQ\t", false},
		{"\u00e9", false}, {"QQ\u00e9", false}, {"Q\xffQ", false}, {"QQ\x00", false}, {"\x80", false}, {"QQ\xc3", false}, {"\U0001F600", false},
		{"a.b", false}, {".", false}, {"QUFB.QUFB", false}, {"QQ.", false},
		{"dBjftJeZ4CVP-mB92K27uhbUJU1p1r_wW1gFWFOEjXk", true}, // RFC 7515 A.1 signature, 43 characters
		{"dBjftJeZ4CVP-mB92K27uhbUJU1p1r_wW1gFWFOEjXk=", false},
		{"dBjftJeZ4CVP-mB92K27uhbUJU1p1r_wW1gFWFOEjX", true}, // 42 = 2 mod 4
		{"dBjftJeZ4CVP-mB92K27uhbUJU1p1r_wW1gFWFOEj", false}, // 41 = 1 mod 4
	}
	sm := samples[verifrt.Choice("i", len(samples))]
	got, err := base64Decode(sm.s)
	want, ok := specB64Decode(sm.s)
	verifrt.Assert(ok == sm.ok, "the reference agrees with the hand-made verdict")
	verifrt.Assert((err == nil) == sm.ok, "the real base64Decode accepts exactly unpadded base64url: no '=', no white space or line breaks, no '+' '/', no bytes >= 0x80, length not 1 mod 4")
	if err == nil {
		verifrt.AssertEq(got, want, "decoded bytes")
		verifrt.Assert(base64Encode(got) == specB64Encode(want), "re-encoding is base64url")
		verifrt.Reach("accepted")
	} else {
		verifrt.Reach("refused")
	}
}

// A statement of what is NOT enforced: the last character's unused bits are ignored.
func VerifH_rawjwt_b64_noncanonical() {
	installCompactModel()
	a, e1 := base64Decode("QQ")
	b, e2 := base64Decode("QR") // same first 8 bits, unused bits 0001
	c, e3 := base64Decode("QUE")
	d, e4 := base64Decode("QUF") // unused bits 01
	verifrt.Assert(e1 == nil && e2 == nil && verifrt.EqBytes(a, []byte("A")) && verifrt.EqBytes(b, []byte("A")), "non-canonical 2-character tail accepted (not strict)")
	verifrt.Assert(e3 == nil && e4 == nil && verifrt.EqBytes(c, []byte("AA")) && verifrt.EqBytes(d, []byte("AA")), "non-canonical 3-character tail accepted (not strict)")
	verifrt.Reach("end")
}

// countDots: the number of dots (0, 1, 2, or 3 for "three or more") and the position of the
// last of the first two. Written with early exits so that the positions are concrete per path.
func countDots(s string) (n, last int) {
	next := func(from int) int {
		for i := from; i < len(s); i++ {
			if s[i] == '.' {
				return i
			}
		}
		return -1
	}
	last = -1
	for n < 3 {
		d := next(last + 1)
		if d < 0 {
			return n, last
		}
		n++
		if n < 3 {
			last = d
		}
	}
	return n, last
}

// splitSignedCompact on every string of 0..N characters.
func VerifH_rawjwt_split() {
	installCompactModel()
	maxAny, maxSet := 4, 6
	if verifrt.Thorough() {
		maxAny, maxSet = 5, 8
	}
	var s string
	if verifrt.Choice("class", 2) == 0 {
		s = compactString("s", verifrt.Choice("n", maxAny+1), true)
	} else {
		s = compactString("s", verifrt.Choice("m", maxSet+1), false)
	}
	sig, unsigned, err := splitSignedCompact(s)

	dots, last := countDots(s)
	want := false
	var wantSig []byte
	if dots == 2 {
		var ok bool
		wantSig, ok = specB64Decode(s[last+1:])
		want = verifrt.And(ok, len(wantSig) > 0)
	}
	verifrt.Assert((err == nil) == want, "splitSignedCompact accepts iff the string has exactly two dots and the part after the second is non-empty unpadded base64url")
	if err == nil {
		verifrt.Assert(unsigned == s[:last], "the unsigned token is everything before the second dot, verbatim")
		verifrt.AssertEq(sig, wantSig, "the signature is the decoded third part")
		verifrt.Reach("accepted")
	} else {
		verifrt.Assert(sig == nil && unsigned == "", "nothing is returned with an error")
		verifrt.Reach("refused")
	}
}

// splitSignedCompact with the REAL base64Decode on concrete tokens (RFC 7515 A.1's token among
// them), decided by hand.
func VerifH_rawjwt_split_concrete() {
	installStringKernels()
	const a1h = "eyJ0eXAiOiJKV1QiLA0KICJhbGciOiJIUzI1NiJ9"
	const a1p = "eyJpc3MiOiJqb2UiLA0KICJleHAiOjEzMDA4MTkzODAsDQogImh0dHA6Ly9leGFtcGxlLmNvbS9pc19yb290Ijp0cnVlfQ"
	const a1s = "dBjftJeZ4CVP-mB92K27uhbUJU1p1r_wW1gFWFOEjXk"
	samples := [...]struct {
		s        string
		ok       bool
		unsigned string
		sig      string // as text; decoded by the reference
	}{
		{a1h + "." + a1p + "." + a1s, true, a1h + "." + a1p, a1s},
		{a1h + "." + a1p + ".", false, "", ""},             // empty signature
		{a1h + "." + a1p, false, "", ""},                   // two parts: the payload is taken for a signature, one part remains
		{a1h + "." + a1p + "." + a1s + "=", false, "", ""}, // padded
		{a1h + "." + a1p + "." + a1s + "\n", false, "", ""},
		{a1h + "." + a1p + "." + a1s + "." + a1s, false, "", ""}, // four parts
		{a1h + "." + a1p + "." + a1s[:41], false, "", ""},        // impossible length
		{"h.p.QQ", true, "h.p", "QQ"},
		{"..QQ", true, ".", "QQ"}, // header and payload are not looked at here
		{"h..QQ", true, "h.", "QQ"},
		{".p.QQ", true, ".p", "QQ"},
		{"!.\n.QQ", true, "!.\n", "QQ"},
		{"h.p.Q", false, "", ""}, {"h.p.+/+/", false, "", ""}, {"h.p.QQ==", false, "", ""}, {"h.p. QQ", false, "", ""},
		{".QQ", false, "", ""}, {"QQ", false, "", ""}, {"", false, "", ""}, {".", false, "", ""}, {"..", false, "", ""}, {"...", false, "", ""},
		{"a.b.c.QQ", false, "", ""}, {"h.p.QQ.", false, "", ""}, {"h.p.\u00e9", false, "", ""},
	}
	sm := samples[verifrt.Choice("i", len(samples))]
	sig, unsigned, err := splitSignedCompact(sm.s)
	verifrt.Assert((err == nil) == sm.ok, "splitSignedCompact (real base64Decode) accepts exactly the three-part tokens with a non-empty unpadded base64url signature")
	if err == nil {
		want, _ := specB64Decode(sm.sig)
		verifrt.Assert(unsigned == sm.unsigned, "unsigned part verbatim")
		verifrt.AssertEq(sig, want, "signature decoded")
		verifrt.Assert(combineUnsignedAndSignature(unsigned, sig) == sm.s, "combining the parts again gives the token (canonical signature text)")
		verifrt.Reach("accepted")
	} else {
		verifrt.Assert(sig == nil && unsigned == "", "nothing is returned with an error")
		verifrt.Reach("refused")
	}
}

// combineUnsignedAndSignature, and splitSignedCompact undoing it.
func VerifH_rawjwt_combine_split() {
	installCompactModel()
	maxU, maxSig := 4, 2
	if verifrt.Thorough() {
		maxU, maxSig = 5, 4
	}
	u := compactString("u", verifrt.Choice("n", maxU+1), false)
	sig := verifrt.Bytes("sig", verifrt.Choice("k", maxSig+1))
	tok := combineUnsignedAndSignature(u, sig)
	verifrt.Assert(tok == u+"."+specB64Encode(sig), "signed token == unsigned . base64url(signature)")
	gotSig, gotU, err := splitSignedCompact(tok)
	dots, _ := countDots(u)
	verifrt.Assert((err == nil) == (dots == 1 && len(sig) > 0), "a combined token splits iff the unsigned part is header.payload (one dot) and the signature is not empty")
	if err == nil {
		verifrt.Assert(gotU == u, "the unsigned part comes back verbatim")
		verifrt.AssertEq(gotSig, sig, "the signature comes back")
		verifrt.Reach("accepted")
	} else {
		verifrt.Reach("refused")
	}
}

// decodeUnsignedTokenAndValidateHeader: the split into header and payload, what reaches the
// JSON parsers, and what is done with their results. The two JSON entry points are recording
// stubs: jsonToStruct returns a fixed header (alg HS256, typ per choice, or a parse error),
// NewRawJWTFromJSON a fixed token (or a parse error).
func VerifH_rawjwt_decode_unsigned_any() { rawjwtDecodeUnsigned(true) }
func VerifH_rawjwt_decode_unsigned_set() { rawjwtDecodeUnsigned(false) }

// anyByte: strings of arbitrary bytes (short); otherwise strings over compactSet (longer).
func rawjwtDecodeUnsigned(anyByte bool) {
	verifrt.NativeSkip("jsonToStruct / NewRawJWTFromJSON replaced by recording stubs")
	installCompactModel()
	var hdrCalls, payCalls int
	var hdrBytes, payBytes []byte
	var payTyp *string
	// scenarios: header without typ / with typ "T" / with a typ that is not a string / that does
	// not parse; payload that does not parse
	sc := verifrt.Choice("scenario", 5)
	hdrMode := [...]int{0, 1, 2, 3, 0}[sc]
	payFails := sc == 4
	token := &RawJWT{jsonpb: &spb.Struct{}}
	verifrt.Summarize("jwt.jsonToStruct", func(b []byte) (*spb.Struct, error) {
		hdrCalls++
		hdrBytes = b
		if hdrMode == 3 {
			return nil, errors.New("stub: header is not JSON")
		}
		h := &spb.Struct{Fields: map[string]*spb.Value{"alg": spb.NewStringValue("HS256")}}
		if hdrMode == 1 {
			h.Fields["typ"] = spb.NewStringValue("T")
		}
		if hdrMode == 2 {
			h.Fields["typ"] = spb.NewNumberValue(1)
		}
		return h, nil
	})
	verifrt.Summarize("jwt.NewRawJWTFromJSON", func(typ *string, b []byte) (*RawJWT, error) {
		payCalls++
		payBytes, payTyp = b, typ
		if payFails {
			return nil, errors.New("stub: payload is not JSON")
		}
		return token, nil
	})
	maxAny, maxSet := 3, 5
	if verifrt.Thorough() {
		maxAny, maxSet = 4, 6
	}
	var s string
	if anyByte {
		s = compactString("s", verifrt.Choice("n", maxAny+1), true)
	} else {
		s = compactString("s", verifrt.Choice("m", maxSet+1), false)
	}
	got, err := decodeUnsignedTokenAndValidateHeader(s, "HS256", nil, nil)

	dots, dot := countDots(s)
	var wantHdr, wantPay []byte
	hOK, pOK := false, false
	if dots == 1 {
		wantHdr, hOK = specB64Decode(s[:dot])
		wantPay, pOK = specB64Decode(s[dot+1:])
	}
	want := dots == 1 && hOK && hdrMode < 2 && pOK && !payFails
	verifrt.Assert((err == nil) == want, "accepted iff exactly one dot, both parts unpadded base64url, the header parses and has a string (or no) typ, the payload parses")
	verifrt.Assert((err == nil) == (got != nil), "a token or an error, never both")
	// what reached the parsers
	verifrt.Assert(hdrCalls == 0 || (dots == 1 && hOK), "the header parser only sees a decodable first part of a two-part string")
	if hdrCalls > 0 && hOK {
		verifrt.Assert(hdrCalls == 1, "header parsed once")
		verifrt.AssertEq(hdrBytes, wantHdr, "header JSON == base64url-decoded first part")
	}
	verifrt.Assert(payCalls == 0 || (dots == 1 && hOK && pOK && hdrMode < 2), "the payload parser only runs after the header was accepted, on a decodable second part")
	if payCalls > 0 && pOK {
		verifrt.Assert(payCalls == 1, "payload parsed once")
		verifrt.AssertEq(payBytes, wantPay, "payload JSON == base64url-decoded second part")
		verifrt.Assert((payTyp != nil) == (hdrMode == 1) && (payTyp == nil || *payTyp == "T"), "the typ header value travels with the payload")
	}
	if err == nil {
		verifrt.Assert(got == token, "the result is the parsed payload's token")
		verifrt.Reach("accepted")
	} else {
		verifrt.Reach("refused")
	}
}

// Header rules that do not involve JSON text: alg must be a string equal to the key's
// algorithm (RFC 7515 section 4.1.1), any "crit" header is refused (Tink understands no
// extension, RFC 7515 section 4.1.11), kid - when it is compared - must be a string, typ must be
// a string when present.
func VerifH_rawjwt_header_rules() {
	val := func(name string) (*spb.Value, bool, string) { // value, is string, the string
		switch verifrt.Choice(name, 8) {
		case 0:
			return nil, false, ""
		case 1:
			return spb.NewStringValue("HS256"), true, "HS256"
		case 2:
			return spb.NewStringValue("hs256"), true, "hs256"
		case 3:
			return spb.NewStringValue(""), true, ""
		case 4:
			return spb.NewNumberValue(256), false, ""
		case 5:
			return spb.NewNullValue(), false, ""
		case 6:
			return spb.NewBoolValue(true), false, ""
		}
		return lst(spb.NewStringValue("HS256")), false, ""
	}
	fields := map[string]*spb.Value{}
	alg, algStr, algS := val("alg")
	if alg != nil {
		fields["alg"] = alg
	}
	var kid *spb.Value
	kidStr, kidS := false, ""
	switch verifrt.Choice("kid", 5) {
	case 1:
		kid, kidStr, kidS = spb.NewStringValue("HS256"), true, "HS256"
	case 2:
		kid, kidStr, kidS = spb.NewStringValue("other"), true, "other"
	case 3:
		kid = spb.NewNumberValue(7)
	case 4:
		kid = spb.NewNullValue()
	}
	if kid != nil {
		fields["kid"] = kid
	}
	crit := verifrt.Choice("crit", 4)
	switch crit {
	case 1:
		fields["crit"] = lst(spb.NewStringValue("exp"))
	case 2:
		fields["crit"] = lst()
	case 3:
		fields["crit"] = spb.NewNullValue()
	}
	var tinkKID, customKID *string
	k := "HS256"
	switch verifrt.Choice("keykid", 4) {
	case 1:
		tinkKID = &k
	case 2:
		customKID = &k
	case 3:
		tinkKID, customKID = &k, &k
	}
	hdr := &spb.Struct{Fields: fields}
	if len(fields) == 0 && verifrt.Choice("nilmap", 2) == 1 {
		hdr = &spb.Struct{}
	}
	err := validateHeader(hdr, "HS256", tinkKID, customKID)
	want := algStr && algS == "HS256" && crit == 0 && !(tinkKID != nil && customKID != nil)
	if tinkKID != nil {
		want = want && kid != nil && kidStr && kidS == k
	} else if customKID != nil && kid != nil {
		want = want && kidStr && kidS == k
	}
	verifrt.Assert((err == nil) == want, "validateHeader accepts iff alg is the string naming the key's algorithm, there is no crit header, and the kid rule of the key holds with a STRING kid (TINK: required and equal; custom kid: equal when present; otherwise ignored)")

	// typ
	typ, typIsStr, typS := val("typ")
	tf := map[string]*spb.Value{"alg": spb.NewStringValue("HS256")}
	if typ != nil {
		tf["typ"] = typ
	}
	got, err := extractTypeHeader(&spb.Struct{Fields: tf})
	verifrt.Assert((err == nil) == (typ == nil || typIsStr), "typ must be a string when present")
	if err == nil {
		verifrt.Assert((got != nil) == (typ != nil) && (got == nil || *got == typS), "typ is reported iff present, verbatim (the empty string is a value)")
	}
	_, err = extractTypeHeader(&spb.Struct{})
	verifrt.Assert(err != nil, "a header without any field is refused")
	verifrt.Reach("end")
}
