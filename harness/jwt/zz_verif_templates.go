package jwt

import (
	"github.com/tink-crypto/tink-go/v2/internal/verifrt"
	jepb "github.com/tink-crypto/tink-go/v2/proto/jwt_ecdsa_go_proto"
	jwtmacpb "github.com/tink-crypto/tink-go/v2/proto/jwt_hmac_go_proto"
	jrsppb "github.com/tink-crypto/tink-go/v2/proto/jwt_rsa_ssa_pkcs1_go_proto"
	jrpsspb "github.com/tink-crypto/tink-go/v2/proto/jwt_rsa_ssa_pss_go_proto"
	tinkpb "github.com/tink-crypto/tink-go/v2/proto/tink_go_proto"
	"google.golang.org/protobuf/proto"
)

// The 28 named JWT key templates: what the NAME of each template promises (algorithm,
// modulus size, F4, TINK vs RAW prefix), written out, against the key format it carries.
// Algorithm numbers are the wire numbers of the .proto enums (x256 = 1, x384 = 2, x512 = 3);
// HMAC key sizes are the RFC 7518 section 3.2 minimum = hash output size.
type tmplRow struct {
	name string
	fn   func() *tinkpb.KeyTemplate
	fam  int // famHS, famES, famRS, famPS
	alg  int32
	size uint32 // HMAC key bytes / RSA modulus bits
	raw  bool
}

var tmplTable = [28]tmplRow{
	{"HS256Template", HS256Template, famHS, 1, 32, false},
	{"RawHS256Template", RawHS256Template, famHS, 1, 32, true},
	{"HS384Template", HS384Template, famHS, 2, 48, false},
	{"RawHS384Template", RawHS384Template, famHS, 2, 48, true},
	{"HS512Template", HS512Template, famHS, 3, 64, false},
	{"RawHS512Template", RawHS512Template, famHS, 3, 64, true},
	{"ES256Template", ES256Template, famES, 1, 0, false},
	{"RawES256Template", RawES256Template, famES, 1, 0, true},
	{"ES384Template", ES384Template, famES, 2, 0, false},
	{"RawES384Template", RawES384Template, famES, 2, 0, true},
	{"ES512Template", ES512Template, famES, 3, 0, false},
	{"RawES512Template", RawES512Template, famES, 3, 0, true},
	{"RS256_2048_F4_Key_Template", RS256_2048_F4_Key_Template, famRS, 1, 2048, false},
	{"RawRS256_2048_F4_Key_Template", RawRS256_2048_F4_Key_Template, famRS, 1, 2048, true},
	{"RS256_3072_F4_Key_Template", RS256_3072_F4_Key_Template, famRS, 1, 3072, false},
	{"RawRS256_3072_F4_Key_Template", RawRS256_3072_F4_Key_Template, famRS, 1, 3072, true},
	{"RS384_3072_F4_Key_Template", RS384_3072_F4_Key_Template, famRS, 2, 3072, false},
	{"RawRS384_3072_F4_Key_Template", RawRS384_3072_F4_Key_Template, famRS, 2, 3072, true},
	{"RS512_4096_F4_Key_Template", RS512_4096_F4_Key_Template, famRS, 3, 4096, false},
	{"RawRS512_4096_F4_Key_Template", RawRS512_4096_F4_Key_Template, famRS, 3, 4096, true},
	{"PS256_2048_F4_Key_Template", PS256_2048_F4_Key_Template, famPS, 1, 2048, false},
	{"RawPS256_2048_F4_Key_Template", RawPS256_2048_F4_Key_Template, famPS, 1, 2048, true},
	{"PS256_3072_F4_Key_Template", PS256_3072_F4_Key_Template, famPS, 1, 3072, false},
	{"RawPS256_3072_F4_Key_Template", RawPS256_3072_F4_Key_Template, famPS, 1, 3072, true},
	{"PS384_3072_F4_Key_Template", PS384_3072_F4_Key_Template, famPS, 2, 3072, false},
	{"RawPS384_3072_F4_Key_Template", RawPS384_3072_F4_Key_Template, famPS, 2, 3072, true},
	{"PS512_4096_F4_Key_Template", PS512_4096_F4_Key_Template, famPS, 3, 4096, false},
	{"RawPS512_4096_F4_Key_Template", RawPS512_4096_F4_Key_Template, famPS, 3, 4096, true},
}

func VerifH_dispatch_jwt_templates() {
	row := tmplTable[verifrt.Choice("tmpl", 28)]
	t := row.fn()
	verifrt.Assert(t != nil, "template")
	wantPrefix := tinkpb.OutputPrefixType_TINK
	if row.raw {
		wantPrefix = tinkpb.OutputPrefixType_RAW
	}
	verifrt.Assert(t.GetOutputPrefixType() == wantPrefix, "Raw* templates are RAW, the others TINK")
	f4 := func(b []byte) bool { return len(b) == 3 && b[0] == 1 && b[1] == 0 && b[2] == 1 }
	switch row.fam {
	case famHS:
		verifrt.Assert(t.GetTypeUrl() == "type.googleapis.com/google.crypto.tink.JwtHmacKey", "type URL")
		f := &jwtmacpb.JwtHmacKeyFormat{}
		verifrt.Assert(proto.Unmarshal(t.GetValue(), f) == nil, "key format parses")
		verifrt.Assert(int32(f.GetAlgorithm()) == row.alg && f.GetKeySize() == row.size && f.GetVersion() == 0, "HSxxx template: algorithm of the name, key size = hash output size (32/48/64)")
	case famES:
		verifrt.Assert(t.GetTypeUrl() == "type.googleapis.com/google.crypto.tink.JwtEcdsaPrivateKey", "type URL")
		f := &jepb.JwtEcdsaKeyFormat{}
		verifrt.Assert(proto.Unmarshal(t.GetValue(), f) == nil, "key format parses")
		verifrt.Assert(int32(f.GetAlgorithm()) == row.alg && f.GetVersion() == 0, "ESxxx template: algorithm of the name")
	case famRS:
		verifrt.Assert(t.GetTypeUrl() == "type.googleapis.com/google.crypto.tink.JwtRsaSsaPkcs1PrivateKey", "type URL")
		f := &jrsppb.JwtRsaSsaPkcs1KeyFormat{}
		verifrt.Assert(proto.Unmarshal(t.GetValue(), f) == nil, "key format parses")
		verifrt.Assert(int32(f.GetAlgorithm()) == row.alg && f.GetModulusSizeInBits() == row.size && f4(f.GetPublicExponent()) && f.GetVersion() == 0, "RSxxx_nnnn_F4 template: algorithm and modulus size of the name, e = 65537")
	case famPS:
		verifrt.Assert(t.GetTypeUrl() == "type.googleapis.com/google.crypto.tink.JwtRsaSsaPssPrivateKey", "type URL")
		f := &jrpsspb.JwtRsaSsaPssKeyFormat{}
		verifrt.Assert(proto.Unmarshal(t.GetValue(), f) == nil, "key format parses")
		verifrt.Assert(int32(f.GetAlgorithm()) == row.alg && f.GetModulusSizeInBits() == row.size && f4(f.GetPublicExponent()) && f.GetVersion() == 0, "PSxxx_nnnn_F4 template: algorithm and modulus size of the name, e = 65537")
	}
	verifrt.Reach("end")
}
