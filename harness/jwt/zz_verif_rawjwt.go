package jwt

import (
	"time"

	"github.com/tink-crypto/tink-go/v2/internal/verifrt"
)

// ---------------------------------------------------------------------------------------
// The claim-handling layer of JWT: NewRawJWT's acceptance rules and the accessors of RawJWT /
// VerifiedJWT, decided against rules written here from RFC 7519 (claims), RFC 7159 (JSON data
// model), RFC 3629 (UTF-8) and the documentation of RawJWTOptions / structpb.NewValue - not
// from the code:
//
//   * "exp" is required unless the options say WithoutExpiration; giving both is refused
//   * exp / nbf / iat are NumericDates in whole seconds: the instant is rounded DOWN to a whole
//     second (time.Time.Unix semantics: floor, also for instants before the epoch) and must lie
//     in [0, 253402300799] = [1970-01-01T00:00:00Z, 9999-12-31T23:59:59Z]
//   * "aud" is given either as one string (Audience) or as a list (Audiences), never both; a
//     list must not be empty; a single string is reported as a one-element list
//   * iss, sub, jti, aud values must be valid UTF-8 (the empty string is a string)
//   * custom claims must not use one of the seven registered names; their values may be any
//     JSON value (null, boolean, number, string, array, object; Go integers are numbers,
//     []byte is a standard-base64 string - structpb.NewValue's table); strings and object
//     member names at any depth must be valid UTF-8; other Go types are refused
//   * the "typ" header is optional and never influences acceptance
//   * every Has*/getter pair agrees with what was given; getters of absent claims, of claims of
//     another kind and (for the custom-claim getters) of registered names fail
//
// Everything below NewRawJWT is the real code (structpb constructors and getters included);
// nothing is summarised in this file.
// ---------------------------------------------------------------------------------------

// 1970-01-01 .. 10000-01-01 is 8030 years with 1947 leap days (2424 leap years up to 9999,
// 477 up to 1969).
const specTSMax = (8030*365+1947)*86400 - 1

// ---- the view shared by RawJWT and VerifiedJWT

type jwtView interface {
	HasTypeHeader() bool
	TypeHeader() (string, error)
	HasAudiences() bool
	Audiences() ([]string, error)
	HasSubject() bool
	Subject() (string, error)
	HasIssuer() bool
	Issuer() (string, error)
	HasJWTID() bool
	JWTID() (string, error)
	HasIssuedAt() bool
	IssuedAt() (time.Time, error)
	HasExpiration() bool
	ExpiresAt() (time.Time, error)
	HasNotBefore() bool
	NotBefore() (time.Time, error)
	HasStringClaim(string) bool
	StringClaim(string) (string, error)
	HasNumberClaim(string) bool
	NumberClaim(string) (float64, error)
	HasBooleanClaim(string) bool
	BooleanClaim(string) (bool, error)
	HasNullClaim(string) bool
	HasArrayClaim(string) bool
	ArrayClaim(string) ([]any, error)
	HasObjectClaim(string) bool
	ObjectClaim(string) (map[string]any, error)
	CustomClaimNames() []string
}

const (
	kNull = iota
	kBool
	kNumber
	kString
	kArray
	kObject
)

// wantClaim: a custom claim as the JSON data model sees it. val is nil, bool, float64, string,
// []any or map[string]any (numbers always float64).
type wantClaim struct {
	name string
	kind int
	val  any
}

// wantJWT: what was put into the token.
type wantJWT struct {
	typ, iss, sub, jti *string
	aud                []string // nil: no audience claim
	exp, nbf, iat      *int64   // whole seconds
	custom             []wantClaim
}

var registeredNames = [...]string{"iss", "sub", "aud", "exp", "nbf", "iat", "jti"} // RFC 7519 section 4.1

// jsonEq: equality of two values of the JSON data model as Go values.
func jsonEq(a, b any) bool {
	switch x := a.(type) {
	case nil:
		return b == nil
	case bool:
		y, ok := b.(bool)
		return ok && x == y
	case float64:
		y, ok := b.(float64)
		return ok && x == y
	case string:
		y, ok := b.(string)
		return ok && x == y
	case []any:
		y, ok := b.([]any)
		if !ok || len(x) != len(y) {
			return false
		}
		for i := range x {
			if !jsonEq(x[i], y[i]) {
				return false
			}
		}
		return true
	case map[string]any:
		y, ok := b.(map[string]any)
		if !ok || len(x) != len(y) {
			return false
		}
		for k, xv := range x {
			yv, in := y[k]
			if !in || !jsonEq(xv, yv) {
				return false
			}
		}
		return true
	}
	return false
}

func checkStrClaim(who, what string, has bool, got string, err error, want *string) {
	if want == nil {
		verifrt.Assert(!has && err != nil, who+": absent "+what+": Has is false and the getter fails")
		return
	}
	verifrt.Assert(has && err == nil && got == *want, who+": "+what+" present and exactly the given string")
}

func checkTimeClaim(who, what string, has bool, got time.Time, err error, want *int64) {
	if want == nil {
		verifrt.Assert(!has && err != nil, who+": absent "+what+": Has is false and the getter fails")
		return
	}
	verifrt.Assert(has && err == nil, who+": "+what+" present")
	verifrt.Assert(got.Unix() == *want && got.Nanosecond() == 0 && got.Equal(time.Unix(*want, 0)), who+": "+what+" is the given instant rounded down to a whole second")
}

// checkView asserts that every accessor of v reports exactly w.
func checkView(who string, v jwtView, w *wantJWT) {
	typ, err := v.TypeHeader()
	checkStrClaim(who, "typ", v.HasTypeHeader(), typ, err, w.typ)
	iss, err := v.Issuer()
	checkStrClaim(who, "iss", v.HasIssuer(), iss, err, w.iss)
	sub, err := v.Subject()
	checkStrClaim(who, "sub", v.HasSubject(), sub, err, w.sub)
	jti, err := v.JWTID()
	checkStrClaim(who, "jti", v.HasJWTID(), jti, err, w.jti)

	exp, err := v.ExpiresAt()
	checkTimeClaim(who, "exp", v.HasExpiration(), exp, err, w.exp)
	nbf, err := v.NotBefore()
	checkTimeClaim(who, "nbf", v.HasNotBefore(), nbf, err, w.nbf)
	iat, err := v.IssuedAt()
	checkTimeClaim(who, "iat", v.HasIssuedAt(), iat, err, w.iat)

	aud, err := v.Audiences()
	if w.aud == nil {
		verifrt.Assert(!v.HasAudiences() && err != nil, who+": absent aud: Has is false and the getter fails")
	} else {
		same := err == nil && len(aud) == len(w.aud)
		for i := 0; same && i < len(aud); i++ {
			same = aud[i] == w.aud[i]
		}
		verifrt.Assert(v.HasAudiences() && same, who+": Audiences() is exactly the given list, in order (a single Audience is a one-element list)")
	}

	// custom claims: each typed Has/getter pair answers for exactly the kind that was stored
	for _, c := range w.custom {
		n := c.name
		verifrt.Assert(v.HasNullClaim(n) == (c.kind == kNull), who+": HasNullClaim iff a null was stored")
		verifrt.Assert(v.HasBooleanClaim(n) == (c.kind == kBool), who+": HasBooleanClaim iff a boolean was stored")
		verifrt.Assert(v.HasNumberClaim(n) == (c.kind == kNumber), who+": HasNumberClaim iff a number was stored")
		verifrt.Assert(v.HasStringClaim(n) == (c.kind == kString), who+": HasStringClaim iff a string was stored")
		verifrt.Assert(v.HasArrayClaim(n) == (c.kind == kArray), who+": HasArrayClaim iff an array was stored")
		verifrt.Assert(v.HasObjectClaim(n) == (c.kind == kObject), who+": HasObjectClaim iff an object was stored")
		b, err := v.BooleanClaim(n)
		verifrt.Assert((err == nil) == (c.kind == kBool) && (c.kind != kBool || b == c.val.(bool)), who+": BooleanClaim returns the stored boolean, fails for other kinds")
		f, err := v.NumberClaim(n)
		verifrt.Assert((err == nil) == (c.kind == kNumber) && (c.kind != kNumber || f == c.val.(float64)), who+": NumberClaim returns the stored number, fails for other kinds")
		s, err := v.StringClaim(n)
		verifrt.Assert((err == nil) == (c.kind == kString) && (c.kind != kString || s == c.val.(string)), who+": StringClaim returns the stored string, fails for other kinds")
		l, err := v.ArrayClaim(n)
		verifrt.Assert((err == nil) == (c.kind == kArray) && (c.kind != kArray || (l != nil && jsonEq(l, c.val))), who+": ArrayClaim returns the stored array (element by element, nested), fails for other kinds")
		o, err := v.ObjectClaim(n)
		verifrt.Assert((err == nil) == (c.kind == kObject) && (c.kind != kObject || (o != nil && jsonEq(o, c.val))), who+": ObjectClaim returns the stored object (member by member, nested), fails for other kinds")
	}
	// CustomClaimNames: exactly the custom names, each once (order is unspecified: a Go map)
	names := v.CustomClaimNames()
	okNames := len(names) == len(w.custom)
	for _, c := range w.custom {
		cnt := 0
		for _, n := range names {
			if n == c.name {
				cnt++
			}
		}
		okNames = okNames && cnt == 1
	}
	verifrt.Assert(okNames, who+": CustomClaimNames lists exactly the custom claims (null claims included, registered claims excluded)")

	// a name that was never set, and the registered names through the custom-claim getters
	checkNoCustom(who, v, "never-set", "an absent claim")
	for _, r := range registeredNames {
		checkNoCustom(who, v, r, "a registered name")
	}
}

func checkNoCustom(who string, v jwtView, n, what string) {
	anyHas := v.HasNullClaim(n) || v.HasBooleanClaim(n) || v.HasNumberClaim(n) || v.HasStringClaim(n) || v.HasArrayClaim(n) || v.HasObjectClaim(n)
	verifrt.Assert(!anyHas, who+": no typed Has*Claim answers true for "+what)
	_, e1 := v.BooleanClaim(n)
	_, e2 := v.NumberClaim(n)
	_, e3 := v.StringClaim(n)
	_, e4 := v.ArrayClaim(n)
	_, e5 := v.ObjectClaim(n)
	verifrt.Assert(e1 != nil && e2 != nil && e3 != nil && e4 != nil && e5 != nil, who+": every typed custom-claim getter fails for "+what)
}

// checkBoth: the raw token and the VerifiedJWT wrapped around it report the same.
func checkBoth(raw *RawJWT, w *wantJWT) {
	checkView("RawJWT", raw, w)
	ver, err := newVerifiedJWT(raw)
	verifrt.Assert(err == nil && ver != nil, "newVerifiedJWT accepts a non-nil raw token")
	if err != nil {
		return
	}
	checkView("VerifiedJWT", ver, w)
}

// ---- 1. timestamps

// symInstant returns an arbitrary instant and the whole second it lies in (floor).
//
//	variant 0: time.Unix(sec, 0)
//	variant 1: time.Unix(sec, nsec), 0 <= nsec < 1e9
//	variant 2: time.Unix(sec, nsec), -2e9 <= nsec < 3e9 (time.Unix normalises)
//
// sec is any value whose conversion to float64 is exact (|sec| < 2^53; the engine ends a path
// as INCONCLUSIVE when it is asked for an inexact conversion, so this is a stated bound; values
// beyond it are sampled concretely in VerifH_rawjwt_time_extreme).
func symInstant(name string, variants int) (time.Time, int64) {
	sec := verifrt.Int64(name + ".sec")
	verifrt.Assume(sec >= -(1<<53)+4 && sec <= (1<<53)-4)
	switch verifrt.Choice(name+".v", variants) {
	case 0:
		return time.Unix(sec, 0), sec
	case 1:
		nsec := verifrt.Int64(name + ".nsec")
		verifrt.Assume(nsec >= 0 && nsec < 1000000000)
		return time.Unix(sec, nsec), sec
	}
	nsec := verifrt.Int64(name + ".nsec")
	verifrt.Assume(nsec >= -2000000000 && nsec < 3000000000)
	k := int64(0) // floor(nsec / 1e9) by comparison
	switch {
	case nsec < -1000000000:
		k = -2
	case nsec < 0:
		k = -1
	case nsec < 1000000000:
		k = 0
	case nsec < 2000000000:
		k = 1
	default:
		k = 2
	}
	return time.Unix(sec, nsec), sec + k
}

func optInstant(name string, variants int) (*time.Time, *int64) {
	if verifrt.Choice(name+".has", 2) == 0 {
		return nil, nil
	}
	t, s := symInstant(name, variants)
	return &t, &s
}

func inTSRange(s *int64) bool { return s == nil || (*s >= 0 && *s <= specTSMax) }

// rawjwtTime: focus (0 exp, 1 nbf, 2 iat) gets every instant variant, the other two are absent
// or whole seconds. Thorough: the focus instant also in UTC / a fixed zone (the location must
// not matter).
func rawjwtTime(focus int) {
	nv := [3]int{1, 1, 1}
	nv[focus] = 3
	exp, expS := optInstant("exp", nv[0])
	nbf, nbfS := optInstant("nbf", nv[1])
	iat, iatS := optInstant("iat", nv[2])
	if verifrt.Thorough() {
		p := [3]*time.Time{exp, nbf, iat}[focus]
		if p != nil {
			switch verifrt.Choice("loc", 3) {
			case 1:
				*p = p.UTC()
			case 2:
				*p = p.In(time.FixedZone("x", -5*3600))
			}
		}
	}
	without := verifrt.Choice("withoutExp", 2) == 1
	raw, err := NewRawJWT(&RawJWTOptions{ExpiresAt: exp, NotBefore: nbf, IssuedAt: iat, WithoutExpiration: without})
	want := (exp != nil) != without && inTSRange(expS) && inTSRange(nbfS) && inTSRange(iatS)
	verifrt.Assert((err == nil) == want, "NewRawJWT accepts iff (exp given xor WithoutExpiration) and every given instant, rounded down to seconds, lies in [0, 253402300799]")
	verifrt.Assert((err == nil) == (raw != nil), "a token or an error, never both")
	if err != nil || raw == nil {
		verifrt.Reach("refused")
		return
	}
	checkBoth(raw, &wantJWT{exp: expS, nbf: nbfS, iat: iatS})
	verifrt.Reach("accepted")
}

func VerifH_rawjwt_time_exp() { rawjwtTime(0) }
func VerifH_rawjwt_time_nbf() { rawjwtTime(1) }
func VerifH_rawjwt_time_iat() { rawjwtTime(2) }

// Concrete instants outside the range in which int64 -> float64 is exact, the edges of the
// allowed range, and the zero time.Time: exactness of the float64 storage. Accepted iff in
// range; accepted instants come back exactly.
func VerifH_rawjwt_time_extreme() {
	samples := [...]int64{
		-1 << 63, -1<<63 + 1, -(1 << 62), -(1 << 53) - 1, -(1 << 53), -62135596801, -62135596800 /* year 1 */, -1, 0, 1,
		1 << 31, 1 << 32, specTSMax - 1, specTSMax, specTSMax + 1, 1<<38 - 1, 1 << 38, 1 << 53, 1<<53 + 1, 1<<53 + 2, 1 << 62,
		1<<63 - 62135596801 /* largest second time.Time's internal counter holds */, 1<<63 - 62135596800, 1<<63 - 2, 1<<63 - 1,
	}
	i := verifrt.Choice("i", len(samples)+1)
	var t time.Time // i == len(samples): the zero Time, 0001-01-01T00:00:00Z
	s := int64(-62135596800)
	if i < len(samples) {
		s = samples[i]
		t = time.Unix(s, 0)
	}
	verifrt.Assert(t.Unix() == s, "time.Unix(s, 0).Unix() == s for every int64 (wrap-around arithmetic is undone)")
	which := verifrt.Choice("which", 3)
	opts := &RawJWTOptions{WithoutExpiration: which != 0}
	w := &wantJWT{}
	switch which {
	case 0:
		opts.ExpiresAt, w.exp = &t, &s
	case 1:
		opts.NotBefore, w.nbf = &t, &s
	default:
		opts.IssuedAt, w.iat = &t, &s
	}
	raw, err := NewRawJWT(opts)
	verifrt.Assert((err == nil) == (s >= 0 && s <= specTSMax), "accepted iff 0 <= seconds <= 253402300799, for instants far outside the float64-exact range too")
	if err == nil {
		checkBoth(raw, w)
		verifrt.Reach("accepted")
	} else {
		verifrt.Reach("refused")
	}
}

// nil options
func VerifH_rawjwt_nil() {
	raw, err := NewRawJWT(nil)
	verifrt.Assert(err != nil && raw == nil, "nil options are refused")
	raw, err = NewRawJWT(&RawJWTOptions{})
	verifrt.Assert(err != nil && raw == nil, "empty options are refused: neither an expiration nor WithoutExpiration")
	raw, err = NewRawJWT(&RawJWTOptions{WithoutExpiration: true})
	verifrt.Assert(err == nil && raw != nil, "the empty token without expiration is accepted")
	if err == nil {
		checkBoth(raw, &wantJWT{})
	}
	v, err := newVerifiedJWT(nil)
	verifrt.Assert(err != nil && v == nil, "newVerifiedJWT refuses nil")
	verifrt.Reach("end")
}

// ---- 2. registered string claims, typ, audiences

// strSamples: valid / invalid per RFC 3629 (decided by hand: NUL and DEL are characters;
// 0xFF never occurs; a lead byte needs its continuation bytes; C0 80 is an overlong NUL;
// ED A0 80 is the surrogate U+D800; F4 90 80 80 is beyond U+10FFFF; 80 alone is a continuation
// byte).
var strSamples = [...]struct {
	s     string
	valid bool
}{
	{"a", true},
	{"\xff", false},
	{"é€\U0001F600", true},
	{"", true},
	{"https://issuer.example/x?y=1", true},
	{"\x00\x7f", true},
	{"a\xc3", false},
	{"\xc0\x80", false},
	{"\xed\xa0\x80", false},
	{"\xf4\x90\x80\x80", false},
	{"ok\x80", false},
	{"\xef\xbf\xbd", true}, // U+FFFD itself is a character
}

// pickStr: nil or one of the first n samples.
func pickStr(name string, n int) (*string, bool) {
	i := verifrt.Choice(name, n+1)
	if i == 0 {
		return nil, true
	}
	s := strSamples[i-1].s
	return &s, strSamples[i-1].valid
}

func VerifH_rawjwt_strings() {
	nOther, nTyp := 3, 2
	if verifrt.Thorough() {
		nOther, nTyp = len(strSamples), 4
	}
	// two of the three claims range over the small set, the focus over all samples
	n := [3]int{nOther, nOther, nOther}
	n[verifrt.Choice("focus", 3)] = len(strSamples)
	iss, issOK := pickStr("iss", n[0])
	sub, subOK := pickStr("sub", n[1])
	jti, jtiOK := pickStr("jti", n[2])
	typ, _ := pickStr("typ", nTyp)
	raw, err := NewRawJWT(&RawJWTOptions{Issuer: iss, Subject: sub, JWTID: jti, TypeHeader: typ, WithoutExpiration: true})
	verifrt.Assert((err == nil) == (issOK && subOK && jtiOK), "NewRawJWT accepts iff iss, sub and jti (when given) are valid UTF-8; the empty string is accepted; typ does not matter")
	verifrt.Assert((err == nil) == (raw != nil), "a token or an error, never both")
	if err != nil || raw == nil {
		verifrt.Reach("refused")
		return
	}
	checkBoth(raw, &wantJWT{iss: iss, sub: sub, jti: jti, typ: typ})
	verifrt.Reach("accepted")
}

// specUTF8Valid: RFC 3629 section 4 (the UTF8-octets grammar), for at most 4 bytes.
func specUTF8Valid(b []byte) bool {
	tail := func(c byte) bool { return c >= 0x80 && c <= 0xBF }
	in := func(c, lo, hi byte) bool { return c >= lo && c <= hi }
	ok := func(b []byte) (int, bool) { // length of the first character
		c := b[0]
		switch {
		case c <= 0x7F:
			return 1, true
		case in(c, 0xC2, 0xDF):
			return 2, len(b) >= 2 && tail(b[1])
		case c == 0xE0:
			return 3, len(b) >= 3 && in(b[1], 0xA0, 0xBF) && tail(b[2])
		case in(c, 0xE1, 0xEC), in(c, 0xEE, 0xEF):
			return 3, len(b) >= 3 && tail(b[1]) && tail(b[2])
		case c == 0xED:
			return 3, len(b) >= 3 && in(b[1], 0x80, 0x9F) && tail(b[2])
		case c == 0xF0:
			return 4, len(b) >= 4 && in(b[1], 0x90, 0xBF) && tail(b[2]) && tail(b[3])
		case in(c, 0xF1, 0xF3):
			return 4, len(b) >= 4 && tail(b[1]) && tail(b[2]) && tail(b[3])
		case c == 0xF4:
			return 4, len(b) >= 4 && in(b[1], 0x80, 0x8F) && tail(b[2]) && tail(b[3])
		}
		return 0, false
	}
	for len(b) > 0 {
		n, good := ok(b)
		if !good {
			return false
		}
		b = b[n:]
	}
	return true
}

// Symbolic string contents: every byte string of 0..2 (thorough 0..3) bytes as iss / sub / jti /
// single audience / list audience; accepted iff it is UTF-8 per the RFC 3629 grammar, and then
// returned byte for byte.
func VerifH_rawjwt_utf8() {
	// 0..2 symbolic bytes in both tiers. 3 bytes were decided in 4m38 in isolation when the
	// harness was built, but in the full thorough run on this machine the solver did not survive
	// them (INCONCLUSIVE "solver died" in run 8, wall cap in a re-run under load): outside the
	// registered bound; the 12 classified multi-byte samples of VerifH_rawjwt_strings cover the
	// 3- and 4-byte encodings concretely.
	maxLen := 2
	b := verifrt.Bytes("s", verifrt.Choice("n", maxLen+1))
	s := string(b)
	opts := &RawJWTOptions{WithoutExpiration: true}
	w := &wantJWT{}
	switch verifrt.Choice("where", 5) {
	case 0:
		opts.Issuer, w.iss = &s, &s
	case 1:
		opts.Subject, w.sub = &s, &s
	case 2:
		opts.JWTID, w.jti = &s, &s
	case 3:
		opts.Audience, w.aud = &s, []string{s}
	default:
		opts.Audiences, w.aud = []string{"first", s}, []string{"first", s}
	}
	raw, err := NewRawJWT(opts)
	verifrt.Assert((err == nil) == specUTF8Valid(b), "accepted iff the string is UTF-8 (RFC 3629 grammar)")
	if err == nil {
		checkView("RawJWT", raw, w)
		verifrt.Reach("accepted")
	} else {
		verifrt.Reach("refused")
	}
}

func VerifH_rawjwt_audiences() {
	nS := 4
	if verifrt.Thorough() {
		nS = len(strSamples)
	}
	elem := func(name string) (string, bool) {
		i := verifrt.Choice(name, nS)
		return strSamples[i].s, strSamples[i].valid
	}
	iss, sub := "I", "S" // neighbours the audience must not be confused with
	opts := &RawJWTOptions{Issuer: &iss, Subject: &sub, WithoutExpiration: true}
	w := &wantJWT{iss: &iss, sub: &sub}
	ok := true
	kind := verifrt.Choice("kind", 8)
	switch kind {
	case 0: // no audience
	case 1: // a single audience
		s, v := elem("a")
		opts.Audience, w.aud, ok = &s, []string{s}, v
	case 2: // an empty, non-nil list
		opts.Audiences, ok = []string{}, false
	case 3, 4, 5: // lists of 1..3
		for i := 0; i < kind-2; i++ {
			s, v := elem(string([]byte{'l', byte('0' + i)}))
			opts.Audiences = append(opts.Audiences, s)
			ok = ok && v
		}
		w.aud = opts.Audiences
	case 6: // both spellings, equal content
		s := "a"
		opts.Audience, opts.Audiences, ok = &s, []string{"a"}, false
	default: // both spellings, the list empty
		s := "a"
		opts.Audience, opts.Audiences, ok = &s, []string{}, false
	}
	raw, err := NewRawJWT(opts)
	verifrt.Assert((err == nil) == ok, "NewRawJWT accepts iff not both Audience and Audiences are given, a given list is not empty and every audience is valid UTF-8")
	verifrt.Assert((err == nil) == (raw != nil), "a token or an error, never both")
	if err != nil || raw == nil {
		verifrt.Reach("refused")
		return
	}
	checkBoth(raw, w)
	verifrt.Reach("accepted")
}
