package signature

import (
	"errors"

	"github.com/tink-crypto/tink-go/v2/internal/internalapi"
	"github.com/tink-crypto/tink-go/v2/internal/registryconfig/legacyprimitive"
	"github.com/tink-crypto/tink-go/v2/internal/verifh"
	"github.com/tink-crypto/tink-go/v2/internal/verifrt"
	"github.com/tink-crypto/tink-go/v2/key"
)

// idealKeySig: signature = [prefix] || 0x50+idx || len(msg') || xor(msg'), msg' = msg || 0x00
// for LEGACY keys (done by the primitive itself when full, by the factory adapter otherwise).
type idealKeySig struct {
	k    *verifh.FKey
	full bool
}

func (s *idealKeySig) sig(data []byte) []byte {
	msg := data
	var p []byte
	if s.full {
		p = s.k.OutputPrefix()
		if s.k.Kind == 2 {
			msg = append(append([]byte{}, data...), 0)
		}
	}
	p = s.k.WithHead(p)
	x := byte(0)
	for _, b := range msg {
		x ^= b
	}
	return append(p, 0x50+byte(s.k.Idx), byte(len(msg)), x)
}

func (s *idealKeySig) Sign(data []byte) ([]byte, error) { return s.sig(data), nil }
func (s *idealKeySig) Verify(sig, data []byte) error {
	want := s.sig(data)
	if len(sig) != len(want) {
		return errors.New("ideal: bad signature")
	}
	for i := range want {
		if sig[i] != want[i] {
			return errors.New("ideal: bad signature")
		}
	}
	return nil
}

type stubConfig struct{}

func (stubConfig) PrimitiveFromKey(k key.Key, _ internalapi.Token) (any, error) {
	fk := k.(*verifh.FKey)
	if fk.Legacy {
		return legacyprimitive.New(&idealKeySig{k: fk, full: false}), nil
	}
	return &idealKeySig{k: fk, full: true}, nil
}

func factoryMax() int {
	if verifrt.Thorough() {
		return 3
	}
	return 2
}

// Signer: signs with the primary only (prefix, LEGACY suffix). Verifier: accepts iff valid
// under some ENABLED key whose prefix the signature carries (or which has none).
func VerifH_factory_signature() {
	rec := verifh.InstallMonitoring()
	ks := verifh.SymbolicKeyset(factoryMax(), []int{0, 1, 2, 3}, true)
	s, err := NewSignerWithConfig(ks.Handle, stubConfig{})
	verifrt.Assert(err == nil, "NewSignerWithConfig succeeds")
	v, err := NewVerifierWithConfig(ks.Handle, stubConfig{})
	verifrt.Assert(err == nil, "NewVerifierWithConfig succeeds")
	data := verifrt.Bytes("data", verifrt.Choice("dn", 2))
	mark := len(rec.Events)
	sig, err := s.Sign(data)
	verifrt.Assert(err == nil, "Sign succeeds")
	prim := ks.Keys[ks.Primary]
	verifrt.AssertEq(sig, (&idealKeySig{k: prim, full: true}).sig(data), "Sign == primary key's signature (prefix, LEGACY suffix) whether or not its primitive is a legacy one")
	ev := rec.Since(mark, "sign")
	verifrt.Assert(len(ev) == 1 && !ev[0].Failure && ev[0].KeyID == prim.ID && ev[0].N == len(data), "sign logged once, naming the primary key")
	verifrt.Assert(v.Verify(sig, data) == nil, "the keyset's verifier accepts the keyset's signature")

	x := verifrt.Bytes("x", [...]int{0, 2, 3, 4, 5, 7, 8, 9}[verifrt.Choice("xn", 8)])
	mark = len(rec.Events)
	err = v.Verify(x, data)
	accepted := -1
	for pass := 0; pass < 2 && accepted < 0; pass++ {
		for i, k := range ks.Keys {
			if !ks.Enabled(i) || (k.Kind == 3) != (pass == 1) {
				continue
			}
			if (&idealKeySig{k: k, full: true}).Verify(x, data) == nil && accepted < 0 {
				accepted = i
			}
		}
	}
	verifrt.Assert((err == nil) == (accepted >= 0), "Verify accepts iff the signature is valid under some ENABLED key")
	ev = rec.Since(mark, "verify")
	if err == nil && accepted >= 0 {
		verifrt.Assert(len(ev) == 1 && !ev[0].Failure && ev[0].KeyID == ks.Keys[accepted].ID && ev[0].N == len(data), "verify success logged once, naming the key that verified")
		verifrt.Reach("accepted")
	} else {
		verifrt.Assert(len(ev) == 1 && ev[0].Failure, "verify failure logged")
		verifrt.Reach("rejected")
	}
}

// A RAW key's genuine signature verifies even when its first five bytes happen to equal the
// output prefix of another ENABLED key of the keyset.
func VerifH_factory_signature_rawcollision() {
	rec := verifh.InstallMonitoring()
	ks := verifh.SymbolicKeyset(factoryMax(), []int{0, 1, 2, 3}, true)
	raw, collides := verifh.RawCollisionSetup(ks)
	verifrt.Assume(raw >= 0)
	v, err := NewVerifierWithConfig(ks.Handle, stubConfig{})
	verifrt.Assert(err == nil, "NewVerifierWithConfig succeeds")
	data := verifrt.Bytes("data", verifrt.Choice("dn", 2))
	x := (&idealKeySig{k: ks.Keys[raw], full: true}).sig(data)
	mark := len(rec.Events)
	err = v.Verify(x, data)
	verifrt.Assert(err == nil, "a RAW key's genuine signature verifies whatever its leading bytes are")
	ev := rec.Since(mark, "verify")
	verifrt.Assert(len(ev) == 1 && !ev[0].Failure && ev[0].KeyID == ks.Keys[raw].ID, "verify success logged once, naming the RAW key")
	if collides {
		verifrt.Reach("collision")
	}
	verifrt.Reach("end")
}
