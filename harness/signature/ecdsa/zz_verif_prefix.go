package ecdsa

import (
	"github.com/tink-crypto/tink-go/v2/internal/verifrt"
	"github.com/tink-crypto/tink-go/v2/internal/verifspec"
)

// calculateOutputPrefix: 0x01 || be32(id) for TINK, 0x00 || be32(id) for CRUNCHY / LEGACY, none
// for NO_PREFIX, for every id (0 and 2^32-1 included); unknown variants are refused.
func VerifH_prefix_ecdsa() {
	sel := verifrt.Choice("variant", 4)
	v := [...]Variant{ VariantTink, VariantCrunchy, VariantLegacy, VariantNoPrefix,}[sel]
	kind := [...]int{ 0, 1, 2, 3,}[sel]
	id := verifrt.Uint32("id")
	p, err := calculateOutputPrefix(v, id)
	verifrt.Assert(err == nil, "known variant")
	verifrt.AssertEq(p, verifspec.Prefix(kind, id), "standard output prefix of the variant for every id")
	_, err = calculateOutputPrefix(VariantUnknown, id)
	verifrt.Assert(err != nil, "unknown variant refused")
	verifrt.Reach("end")
}
