package ecdsa

import (
	"github.com/tink-crypto/tink-go/v2/internal/verifh"
	"github.com/tink-crypto/tink-go/v2/internal/verifrt"
)

// Parameters only (key construction needs curve arithmetic). Every valid combination:
// (curve, hash) in {(P256,SHA256),(P384,SHA384),(P384,SHA512),(P521,SHA512)} x encoding
// {DER, IEEE_P1363} x variant {TINK, CRUNCHY, LEGACY, NO_PREFIX}.
func VerifH_serialparams_ecdsa() {
	ch := verifrt.Choice("curvehash", 4)
	curve := [...]CurveType{NistP256, NistP384, NistP384, NistP521}[ch]
	hash := [...]HashType{SHA256, SHA384, SHA512, SHA512}[ch]
	enc := [...]SignatureEncoding{DER, IEEEP1363}[verifrt.Choice("enc", 2)]
	kind := verifrt.Choice("variant", 4)
	v := [...]Variant{VariantTink, VariantCrunchy, VariantLegacy, VariantNoPrefix}[kind]
	params, err := NewParameters(curve, hash, enc, v)
	verifrt.Assert(err == nil, "NewParameters")
	verifrt.Assert(params.HasIDRequirement() == (kind != 3), "HasIDRequirement")
	verifh.CheckParamsRoundTrip(params, &parametersSerializer{}, &parametersParser{}, kind, signerTypeURL)
}
