package ecdsa

import (
	"google.golang.org/protobuf/proto"

	"github.com/tink-crypto/tink-go/v2/insecuresecretdataaccess"
	"github.com/tink-crypto/tink-go/v2/internal/verifh"
	"github.com/tink-crypto/tink-go/v2/internal/verifrt"
	commonpb "github.com/tink-crypto/tink-go/v2/proto/common_go_proto"
	ecdsapb "github.com/tink-crypto/tink-go/v2/proto/ecdsa_go_proto"
	tinkpb "github.com/tink-crypto/tink-go/v2/proto/tink_go_proto"
)

// klFixed is the integer of b on exactly size bytes: left-padded, or with the surplus leading
// bytes removed if they are all zero (ok = false otherwise).
func klFixed(b []byte, size int) (out []byte, ok bool) {
	out = make([]byte, size)
	if len(b) <= size {
		copy(out[size-len(b):], b)
		return out, true
	}
	ok = true
	for i := 0; i < len(b)-size; i++ {
		ok = verifrt.And(ok, b[i] == 0)
	}
	copy(out, b[len(b)-size:])
	return out, ok
}

// VerifH_parse_ecdsa_private: privateKeyParser.ParseKey on hostile field values
// (EcdsaPrivateKey{version, key_value, public_key{version, params{hash, curve, encoding}, x, y}})
// over the uninterpreted curve. The validity rule, from the proto definitions and Tink's
// documented restrictions: both versions 0; curve NIST_P256 (2) / NIST_P384 (3) / NIST_P521 (4);
// hash SHA256 (3) with P-256, SHA384 (2) or SHA512 (4) with P-384, SHA512 (4) with P-521;
// encoding IEEE_P1363 (1) or DER (2); x, y and key_value are big-endian integers that fit the
// curve size (any number of leading zero bytes tolerated, shorter values padded); (x, y) is a
// point of the curve; key_value is a valid scalar whose public point is (x, y);
// ASYMMETRIC_PRIVATE; the private key type URL; prefix TINK / CRUNCHY / LEGACY / RAW; RAW => id 0.
func VerifH_parse_ecdsa_private() {
	verifrt.EngineOnly()
	klInstall()
	h := verifh.NewHostile()
	h.ForeignURL = verifierTypeURL
	version, pubVersion := verifrt.Uint32("version"), verifrt.Uint32("pubversion")
	// the curve fixes the field lengths that are interesting: a valid curve value, or any other
	// int32 (lengths as for P-256)
	cs := verifrt.Choice("curvesel", 4)
	curveV := [...]int32{2, 3, 4, 0}[cs]
	c := klCurves[0]
	if cs < 3 {
		c = klCurves[cs]
	} else {
		curveV = verifrt.Int32("curve")
		verifrt.Assume(curveV != 2 && curveV != 3 && curveV != 4)
	}
	hashV, encV := verifrt.Int32("hash"), verifrt.Int32("enc")
	// field lengths (x, y, key_value): what Tink writes (size+1 with a leading zero), minimal,
	// shorter, longer; quick tier: six profiles, thorough tier: the product
	var xn, yn, kn int
	if verifrt.Thorough() {
		xn = h.Len("xlen", c.size, c.size+1, c.size-1)
		yn = h.Len("ylen", c.size+1, c.size+2)
		kn = h.Len("kvlen", c.size+1, c.size, c.size-1, c.size-2, c.size+2)
	} else {
		pr := [...][3]int{{1, 1, 1}, {0, 0, 0}, {-1, 0, -1}, {2, 1, 2}, {0, -c.size, -2}, {1, 0, 2}}[h.Shape("lens", 6)]
		xn, yn, kn = c.size+pr[0], c.size+pr[1], c.size+pr[2]
	}
	x, y, kv := verifrt.Bytes("x", xn), verifrt.Bytes("y", yn), verifrt.Bytes("kv", kn)
	msg := &ecdsapb.EcdsaPrivateKey{Version: version, KeyValue: kv, PublicKey: &ecdsapb.EcdsaPublicKey{
		Version: pubVersion, X: x, Y: y,
		Params: &ecdsapb.EcdsaParams{HashType: commonpb.HashType(hashV), Curve: commonpb.EllipticCurveType(curveV), Encoding: ecdsapb.EcdsaSignatureEncoding(encV)},
	}}
	shape := h.Shape("shape", 4)
	structOK := shape == 0
	var value []byte
	switch shape {
	case 1: // empty value
	case 2:
		msg.PublicKey = nil
	case 3:
		msg.PublicKey.Params = nil
	}
	if shape != 1 {
		var err error
		value, err = proto.Marshal(msg)
		verifrt.Assert(err == nil, "marshal")
	}
	if !h.Wrap(signerTypeURL, value) {
		return
	}
	k, err := (&privateKeyParser{}).ParseKey(h.KS)

	and, or := verifrt.And, verifrt.Or
	strong := or(and(curveV == 2, hashV == 3), or(and(curveV == 3, or(hashV == 2, hashV == 4)), and(curveV == 4, hashV == 4)))
	paramsOK := and(strong, or(encV == 1, encV == 2))
	xf, xok := klFixed(x, c.size)
	yf, yok := klFixed(y, c.size)
	kf, kok := klFixed(kv, c.size)
	point := append([]byte{4}, append(xf, yf...)...)
	body := and(and(structOK, and(version == 0, pubVersion == 0)), and(paramsOK, and(xok, and(yok, kok))))
	kind := h.Kind()
	env := and(and(h.URLOK, h.Material == tinkpb.KeyData_ASYMMETRIC_PRIVATE), and(kind >= 0, or(kind != 3, h.ID == 0)))
	valid := and(and(env, body), and(klOnCurve(c.name, point), and(klScalarOK(c.name, kf), verifrt.EqBytes(klPub(c, kf), point))))
	verifrt.Assert(verifrt.Implies(err == nil, valid), "accepted => versions 0, curve/hash/encoding allowed, x/y/key_value fit the curve size, (x, y) on the curve, key_value the scalar of (x, y), ASYMMETRIC_PRIVATE, private key type URL, known prefix, RAW => id 0")
	verifrt.Assert(verifrt.Implies(valid, err == nil), "every valid ECDSA private key is accepted")
	if err != nil {
		verifrt.Reach("rejected")
		return
	}
	h.CheckParsedEnvelope(k)
	ak, ok := k.(*PrivateKey)
	verifrt.Assert(ok && ak != nil, "parsed key is *ecdsa.PrivateKey")
	p := ak.Parameters().(*Parameters)
	wantCurve := c.ct
	wantHash := map[int32]HashType{3: SHA256, 2: SHA384, 4: SHA512}[hashV]
	wantEnc := map[int32]SignatureEncoding{1: IEEEP1363, 2: DER}[encV]
	wantVariant := [...]Variant{VariantTink, VariantCrunchy, VariantLegacy, VariantNoPrefix}[h.Kind()]
	verifrt.Assert(p.CurveType() == wantCurve && p.HashType() == wantHash && p.SignatureEncoding() == wantEnc && p.Variant() == wantVariant, "parameters mirror the message and the prefix type")
	pub, _ := ak.PublicKey()
	verifrt.AssertEq(pub.(*PublicKey).PublicPoint(), point, "public point = 0x04 || x || y on the curve size")
	verifrt.AssertEq(ak.PrivateKeyValue().Data(insecuresecretdataaccess.Token{}), kf, "private key value = key_value on exactly the curve size")
	verifrt.AssertEq(ak.OutputPrefix(), h.WantPrefix(), "output prefix")
	verifrt.Reach("accepted")
}
