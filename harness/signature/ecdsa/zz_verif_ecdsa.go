package ecdsa

import (
	stdecdsa "crypto/ecdsa"
	"crypto/sha256"
	"crypto/sha512"
	"hash"

	"github.com/tink-crypto/tink-go/v2/internal/verifrt"
	"github.com/tink-crypto/tink-go/v2/internal/verifspec"
)

// DER-encoded ECDSA: Sign == prefix || ECDSA(hash(msg [|| 0x00 for LEGACY])); Verify
// hashes the same way, strips exactly the prefix, and accepts exactly that.
func VerifH_sig_ecdsa_der() {
	verifrt.EngineOnly() // opaque key objects and an ideal (deterministic) ECDSA: not executable natively
	kind := verifrt.Choice("variant", 4)
	variant := [...]Variant{VariantTink, VariantCrunchy, VariantLegacy, VariantNoPrefix}[kind]
	var hf func() hash.Hash
	var ht HashType
	switch verifrt.Choice("hash", 3) {
	case 0:
		ht, hf = SHA256, sha256.New
	case 1:
		ht, hf = SHA384, sha512.New384
	default:
		ht, hf = SHA512, sha512.New
	}
	id := verifrt.Uint32("id")
	if kind == 3 {
		id = 0
	}
	prefix := verifspec.Prefix(kind, id)
	params := &Parameters{curveType: NistP256, hashType: ht, signatureEncoding: DER, variant: variant}
	realHash, err := hashFunctionFromEnum(ht)
	verifrt.Assert(err == nil, "hashFunctionFromEnum")
	s := &signer{key: &stdecdsa.PrivateKey{}, prefix: prefix, parameters: params, hashFunc: realHash}
	v := &verifier{key: &stdecdsa.PublicKey{}, prefix: prefix, parameters: params, hashFunc: realHash}
	msg := verifrt.Bytes("msg", verifrt.Choice("n", 3))
	sig, err := s.Sign(msg)
	verifrt.Assert(err == nil, "Sign succeeds")
	h := hf()
	h.Write(msg)
	if kind == 2 {
		h.Write([]byte{0})
	}
	raw, _ := stdecdsa.SignASN1(nil, nil, h.Sum(nil))
	want := append(append([]byte{}, prefix...), raw...)
	verifrt.AssertEq(sig, want, "signature == prefix || ECDSA-DER over hash(msg [|| 0x00 for LEGACY]) with the parameters' hash")
	verifrt.Assert(v.Verify(sig, msg) == nil, "the matching verifier accepts")
	if verifrt.Choice("samelen", 2) == 0 {
		delta := verifrt.Bytes("delta", len(want))
		err := v.Verify(verifspec.XorDelta(want, delta), msg)
		verifrt.Assert((err == nil) == verifrt.EqBytes(delta, make([]byte, len(want))), "Verify accepts exactly the genuine signature bytes (same length)")
	} else {
		l := [...]int{0, 4, 5, len(want) - 1, len(want) + 1}[verifrt.Choice("len", 5)]
		verifrt.Assume(l != len(want))
		cand := verifrt.Bytes("cand", l)
		for i := 0; i < l && i < len(want); i++ {
			cand[i] = want[i]
		}
		verifrt.Assert(v.Verify(cand, msg) != nil, "truncated / extended signature rejected, no panic")
	}
	verifrt.Reach("end")
}
