package ecdsa

import (
	stdecdsa "crypto/ecdsa"
	"crypto/elliptic"
	"crypto/sha256"
	"crypto/sha512"
	"errors"
	"hash"
	"io"
	"math/big"
	"slices"

	internalecdsa "github.com/tink-crypto/tink-go/v2/internal/signature/ecdsa"

	"github.com/tink-crypto/tink-go/v2/internal/verifrt"
	"github.com/tink-crypto/tink-go/v2/internal/verifspec"
)

// DER-encoded ECDSA: Sign == prefix || ECDSA(hash(msg [|| 0x00 for LEGACY])); Verify
// hashes the same way, strips exactly the prefix, and accepts exactly that.
func VerifH_sig_ecdsa_der() {
	verifrt.EngineOnly() // opaque key objects and an ideal (deterministic) ECDSA: not executable natively
	kind := verifrt.Choice("variant", 4)
	variant := [...]Variant{VariantTink, VariantCrunchy, VariantLegacy, VariantNoPrefix}[kind]
	var hf func() hash.Hash
	var ht HashType
	switch verifrt.Choice("hash", 3) {
	case 0:
		ht, hf = SHA256, sha256.New
	case 1:
		ht, hf = SHA384, sha512.New384
	default:
		ht, hf = SHA512, sha512.New
	}
	id := verifrt.Uint32("id")
	if kind == 3 {
		id = 0
	}
	prefix := verifspec.Prefix(kind, id)
	params := &Parameters{curveType: NistP256, hashType: ht, signatureEncoding: DER, variant: variant}
	realHash, err := hashFunctionFromEnum(ht)
	verifrt.Assert(err == nil, "hashFunctionFromEnum")
	s := &signer{key: &stdecdsa.PrivateKey{}, prefix: prefix, parameters: params, hashFunc: realHash}
	v := &verifier{key: &stdecdsa.PublicKey{}, prefix: prefix, parameters: params, hashFunc: realHash}
	msg := verifrt.Bytes("msg", verifrt.Choice("n", 3))
	sig, err := s.Sign(msg)
	verifrt.Assert(err == nil, "Sign succeeds")
	h := hf()
	h.Write(msg)
	if kind == 2 {
		h.Write([]byte{0})
	}
	raw, _ := stdecdsa.SignASN1(nil, nil, h.Sum(nil))
	want := append(append([]byte{}, prefix...), raw...)
	verifrt.AssertEq(sig, want, "signature == prefix || ECDSA-DER over hash(msg [|| 0x00 for LEGACY]) with the parameters' hash")
	verifrt.Assert(v.Verify(sig, msg) == nil, "the matching verifier accepts")
	if verifrt.Choice("samelen", 2) == 0 {
		delta := verifrt.Bytes("delta", len(want))
		err := v.Verify(verifspec.XorDelta(want, delta), msg)
		verifrt.Assert((err == nil) == verifrt.EqBytes(delta, make([]byte, len(want))), "Verify accepts exactly the genuine signature bytes (same length)")
	} else {
		l := [...]int{0, 4, 5, len(want) - 1, len(want) + 1}[verifrt.Choice("len", 5)]
		verifrt.Assume(l != len(want))
		cand := verifrt.Bytes("cand", l)
		for i := 0; i < l && i < len(want); i++ {
			cand[i] = want[i]
		}
		verifrt.Assert(v.Verify(cand, msg) != nil, "truncated / extended signature rejected, no panic")
	}
	verifrt.Reach("end")
}

// ---- IEEE P1363 encoding

type stubCurve struct {
	elliptic.Curve
	p *elliptic.CurveParams
}

func (c stubCurve) Params() *elliptic.CurveParams { return c.p }

// ideal ECDSA in (r, s) form: one deterministic pair per hash, top bytes non-zero (leading
// zeros of r and s are covered at the encoding level by VerifH_p1363_*); the DER layer
// (encoding/asn1, reflection) is replaced by an injective fixed-width framing.
func idealRS(half int, hash []byte) ([]byte, []byte) {
	r, s := verifrt.UF("ECDSAR", half, hash), verifrt.UF("ECDSAS", half, hash)
	verifrt.Assume(r[0] != 0 && s[0] != 0)
	return r, s
}

func stubDER(r, s *big.Int) []byte {
	out := make([]byte, 1+2*72)
	out[0] = 0x30
	r.FillBytes(out[1:73])
	s.FillBytes(out[73:])
	return out
}

func stubP1363ECDSA(half int) {
	verifrt.Summarize("crypto/ecdsa.Sign", func(_ io.Reader, _ *stdecdsa.PrivateKey, hash []byte) (*big.Int, *big.Int, error) {
		r, s := idealRS(half, hash)
		return new(big.Int).SetBytes(r), new(big.Int).SetBytes(s), nil
	})
	verifrt.Summarize("internal/signature/ecdsa.ASN1Encode", func(sig *internalecdsa.Signature) ([]byte, error) {
		if len(sig.R.Bits()) > 9 || len(sig.S.Bits()) > 9 {
			return nil, errStub
		}
		return stubDER(sig.R, sig.S), nil
	})
	verifrt.Summarize("crypto/ecdsa.VerifyASN1", func(_ *stdecdsa.PublicKey, hash, sig []byte) bool {
		r, s := idealRS(half, hash)
		return verifrt.EqBytes(sig, stubDER(new(big.Int).SetBytes(r), new(big.Int).SetBytes(s)))
	})
}

var errStub = errors.New("stub")

func p1363Setup(ci int) (s *signer, v *verifier, prefix []byte, kind, size int, hf func() hash.Hash) {
	curve := [...]struct {
		name string
		ct   CurveType
		size int
		ht   HashType
		hf   func() hash.Hash
	}{{"P-256", NistP256, 64, SHA256, sha256.New}, {"P-384", NistP384, 96, SHA384, sha512.New384}, {"P-521", NistP521, 132, SHA512, sha512.New}}[ci]
	kind = verifrt.Choice("variant", 4)
	variant := [...]Variant{VariantTink, VariantCrunchy, VariantLegacy, VariantNoPrefix}[kind]
	id := verifrt.Uint32("id")
	if kind == 3 {
		id = 0
	}
	prefix = verifspec.Prefix(kind, id)
	params := &Parameters{curveType: curve.ct, hashType: curve.ht, signatureEncoding: IEEEP1363, variant: variant}
	realHash, err := hashFunctionFromEnum(curve.ht)
	verifrt.Assert(err == nil, "hashFunctionFromEnum")
	c := stubCurve{p: &elliptic.CurveParams{Name: curve.name}}
	s = &signer{key: &stdecdsa.PrivateKey{PublicKey: stdecdsa.PublicKey{Curve: c}}, prefix: prefix, parameters: params, hashFunc: realHash}
	v = &verifier{key: &stdecdsa.PublicKey{Curve: c}, prefix: prefix, parameters: params, hashFunc: realHash}
	stubP1363ECDSA(curve.size / 2)
	return s, v, prefix, kind, curve.size, curve.hf
}

// P1363-encoded ECDSA: Sign == prefix || r || s (fixed width) over hash(msg [|| 0x00]);
// Verify accepts exactly that among all strings of the same length, and rejects every other
// length -- in particular the zero-padded re-encodings of the genuine (r, s) at the other
// curves' sizes.
func VerifH_sig_ecdsa_p1363_p256() { sigP1363(0) }
func VerifH_sig_ecdsa_p1363_p384() { sigP1363(1) }
func VerifH_sig_ecdsa_p1363_p521() { sigP1363(2) }

func sigP1363(ci int) {
	verifrt.EngineOnly() // opaque key objects and an ideal ECDSA: not executable natively
	s, v, prefix, kind, size, hf := p1363Setup(ci)
	msg := verifrt.Bytes("msg", verifrt.Choice("n", 2))
	sig, err := s.Sign(msg)
	verifrt.Assert(err == nil, "Sign succeeds")
	h := hf()
	h.Write(msg)
	if kind == 2 {
		h.Write([]byte{0})
	}
	r, sc := idealRS(size/2, h.Sum(nil))
	want := slices.Concat(prefix, r, sc)
	verifrt.AssertEq(sig, want, "signature == prefix || r || s (fixed width) over hash(msg [|| 0x00 for LEGACY])")
	verifrt.Assert(v.Verify(sig, msg) == nil, "the matching verifier accepts")
	switch verifrt.Choice("cand", 3) {
	case 0:
		if ci != 0 {
			return // same-length alterations: P-256 only (big.Int normalisation forks per word)
		}
		delta := verifrt.Bytes("delta", len(want))
		// candidates whose r and s keep a non-zero top byte (big.Int normalisation would
		// otherwise fork per word; leading zeros are covered by VerifH_p1363_decode_*)
		verifrt.Assume(delta[len(prefix)] != want[len(prefix)] && delta[len(prefix)+size/2] != want[len(prefix)+size/2])
		err := v.Verify(verifspec.XorDelta(want, delta), msg)
		verifrt.Assert((err == nil) == verifrt.EqBytes(delta, make([]byte, len(want))), "Verify accepts exactly the genuine signature bytes (same length)")
	case 1:
		l := [...]int{0, 4, 5, len(want) - 1, len(want) + 1, len(want) + 2}[verifrt.Choice("len", 6)]
		verifrt.Assume(l != len(want))
		cand := verifrt.Bytes("cand", l)
		for i := 0; i < l && i < len(want); i++ {
			cand[i] = want[i]
		}
		verifrt.Assert(v.Verify(cand, msg) != nil, "truncated / extended signature rejected, no panic")
	default:
		other := [...]int{64, 96, 132, 134}[verifrt.Choice("other", 4)]
		verifrt.Assume(other > size)
		pad := make([]byte, (other-size)/2)
		cand := slices.Concat(prefix, pad, r, pad, sc)
		verifrt.Assert(v.Verify(cand, msg) != nil, "zero-padded re-encoding of the genuine (r, s) at another size rejected")
	}
	verifrt.Reach("end")
}
