package ecdsa

import (
	"crypto/ecdh"
	stdecdsa "crypto/ecdsa"
	"crypto/elliptic"
	"crypto/sha256"
	"crypto/sha512"
	"errors"
	"hash"
	"io"
	"math/big"
	"slices"

	"github.com/tink-crypto/tink-go/v2/insecuresecretdataaccess"
	"github.com/tink-crypto/tink-go/v2/internal/internalapi"
	internalecdsa "github.com/tink-crypto/tink-go/v2/internal/signature/ecdsa"
	"github.com/tink-crypto/tink-go/v2/internal/verifh"
	"github.com/tink-crypto/tink-go/v2/internal/verifrt"
	"github.com/tink-crypto/tink-go/v2/internal/verifspec"
	tinkpb "github.com/tink-crypto/tink-go/v2/proto/tink_go_proto"
	"github.com/tink-crypto/tink-go/v2/secretdata"
)

// ---------------------------------------------------------------------------------------
// The KEY-OBJECT level of ECDSA: Parameters, PublicKey, PrivateKey, and what NewSigner /
// NewVerifier make of them.
//
// Curve arithmetic is replaced by three uninterpreted symbols per curve C:
//	ONCURVE_C(encoding)   "the uncompressed encoding is a point of C"  (nistec.PxxxPoint.SetBytes)
//	SCALAROK_C(scalar)    "1 <= scalar < order(C)"                     (crypto/ecdh NewPrivateKey)
//	PUB_C(scalar)         the public point scalar*G                    ((*ecdh.PrivateKey).PublicKey)
// with the one axiom ONCURVE_C(0x04 || PUB_C(s)). crypto/ecdh's key objects are replaced by a
// model that follows crypto/ecdh/nist.go line by line (NewPublicKey: refuse the empty string
// and a first byte other than 4, then nistec's SetBytes with its four encodings;
// NewPrivateKey: length of the curve's order, then the range check) and that acts according
// to the curve OBJECT the code under test called it on. The Tink key constructors,
// serializers, parsers, NewSigner / NewVerifier run as real code. Engine-level (the models
// are verifrt.Summarize replacements); natively the harnesses that need them are skipped.
// ---------------------------------------------------------------------------------------

type klCurve struct {
	ct   CurveType
	name string // crypto/elliptic's name of the curve
	size int    // bytes per coordinate / scalar
	ecdh func() ecdh.Curve
}

// SEC 2 / FIPS 186-4: field sizes 256, 384 and 521 bits, i.e. 32, 48 and 66 bytes.
var klCurves = [3]klCurve{
	{NistP256, "P-256", 32, ecdh.P256},
	{NistP384, "P-384", 48, ecdh.P384},
	{NistP521, "P-521", 66, ecdh.P521},
}

var errKL = errors.New("stub: invalid")

func klOnCurve(c string, enc []byte) bool  { return verifrt.UF("ONCURVE_"+c, 1, enc)[0]&1 == 1 }
func klScalarOK(c string, sk []byte) bool  { return verifrt.UF("SCALAROK_"+c, 1, sk)[0]&1 == 1 }
func klDecompOK(c string, enc []byte) bool { return verifrt.UF("DECOMPRESSOK_"+c, 1, enc)[0]&1 == 1 }
func klPub(c klCurve, sk []byte) []byte {
	return append([]byte{4}, verifrt.UF("PUB_"+c.name, 2*c.size, sk)...)
}

// model of nistec.PxxxPoint.SetBytes (crypto/internal/fips140/nistec): the four encodings it
// distinguishes, with the curve equation an uninterpreted predicate.
func klSetBytes(c klCurve) func(p any, b []byte) (any, error) {
	return func(_ any, b []byte) (any, error) {
		switch {
		case len(b) == 1 && b[0] == 0: // point at infinity
			return nil, nil
		case len(b) == 1+2*c.size && b[0] == 4:
			if !klOnCurve(c.name, b) {
				return nil, errKL
			}
			return nil, nil
		case len(b) == 1+c.size && (b[0] == 2 || b[0] == 3):
			if !klDecompOK(c.name, b) {
				return nil, errKL
			}
			return nil, nil
		}
		return nil, errKL
	}
}

// klNistCurve mirrors the head of crypto/ecdh's unexported nistCurve struct (first field: the
// curve's name "P-256" / "P-384" / "P-521"), which the stubs receive as receiver: the stubs
// act according to the curve OBJECT the code under test called, not the one it should have.
type klNistCurve struct {
	name string
}

func (c *klNistCurve) index() int {
	for i := range klCurves {
		if c.name == klCurves[i].name {
			return i
		}
	}
	panic("crypto/ecdh called on an unknown curve object")
}

// crypto/ecdh key objects are opaque: zero-value objects, their content kept in a table.
type klTab struct {
	ptrs   []any
	curves []int
	vals   [][]byte
}

func (t *klTab) put(p any, ci int, v []byte) {
	t.ptrs, t.curves, t.vals = append(t.ptrs, p), append(t.curves, ci), append(t.vals, append([]byte{}, v...))
}

func (t *klTab) get(p any) (int, []byte) {
	for i := range t.ptrs {
		if t.ptrs[i] == p {
			return t.curves[i], t.vals[i]
		}
	}
	panic("unknown crypto/ecdh key object")
}

// klInstall replaces crypto/ecdh's NIST-curve key objects by their documented behaviour over
// the uninterpreted curve.
func klInstall() *klTab {
	t := &klTab{}
	// for crypto/ecdh users that reach nistec directly (none in this package today)
	verifrt.Summarize("crypto/internal/fips140/nistec.P256Point).SetBytes", klSetBytes(klCurves[0]))
	verifrt.Summarize("crypto/internal/fips140/nistec.P384Point).SetBytes", klSetBytes(klCurves[1]))
	verifrt.Summarize("crypto/internal/fips140/nistec.P521Point).SetBytes", klSetBytes(klCurves[2]))
	// nistCurve.NewPublicKey (crypto/ecdh/nist.go): "Reject the point at infinity and compressed
	// encodings" (empty or first byte != 4), then nistec SetBytes.
	verifrt.Summarize("crypto/ecdh.nistCurve).NewPublicKey", func(c *klNistCurve, key []byte) (*ecdh.PublicKey, error) {
		ci := c.index()
		if len(key) == 0 || key[0] != 4 {
			return nil, errKL
		}
		if _, err := klSetBytes(klCurves[ci])(nil, key); err != nil {
			return nil, err
		}
		k := &ecdh.PublicKey{}
		t.put(k, ci, key)
		return k, nil
	})
	// nistCurve.NewPrivateKey: "invalid private key size" unless len == size of the curve's
	// order; "invalid private key" unless 0 < scalar < order.
	verifrt.Summarize("crypto/ecdh.nistCurve).NewPrivateKey", func(c *klNistCurve, sk []byte) (*ecdh.PrivateKey, error) {
		ci := c.index()
		if len(sk) != klCurves[ci].size || !klScalarOK(klCurves[ci].name, sk) {
			return nil, errKL
		}
		k := &ecdh.PrivateKey{}
		t.put(k, ci, sk)
		return k, nil
	})
	// (*ecdh.PrivateKey).PublicKey: the key object for 0x04 || PUB_C(scalar); axiom: that point
	// is on the curve.
	verifrt.Summarize("crypto/ecdh.PrivateKey).PublicKey", func(k *ecdh.PrivateKey) *ecdh.PublicKey {
		ci, sk := t.get(k)
		pt := klPub(klCurves[ci], sk)
		verifrt.Assume(klOnCurve(klCurves[ci].name, pt))
		pub := &ecdh.PublicKey{}
		t.put(pub, ci, pt)
		return pub
	})
	verifrt.Summarize("crypto/ecdh.PublicKey).Bytes", func(k *ecdh.PublicKey) []byte {
		_, b := t.get(k)
		return append([]byte{}, b...)
	})
	verifrt.Summarize("crypto/ecdh.PublicKey).Equal", func(k *ecdh.PublicKey, o any) bool {
		c1, b1 := t.get(k)
		c2, b2 := t.get(o.(*ecdh.PublicKey))
		return c1 == c2 && verifrt.EqBytes(b1, b2)
	})
	return t
}

func klSD(b []byte) secretdata.Bytes {
	return secretdata.NewBytesFromData(b, insecuresecretdataaccess.Token{})
}

// the hash functions Tink allows for a curve: never weaker than the curve (the security level
// of ECDSA is min(curve/2, hash/2) bits: P-256 -> SHA-256; P-384 -> SHA-384 or SHA-512;
// P-521 -> SHA-512). Index into klCurves x {SHA256, SHA384, SHA512}.
func klHashAllowed(ci int, h HashType) bool {
	switch ci {
	case 0:
		return h == SHA256
	case 1:
		return h == SHA384 || h == SHA512
	case 2:
		return h == SHA512
	}
	return false
}

// ---------------------------------------------------------------------------------------
// (a) NewParameters accepts exactly the valid (curve, hash, encoding, variant) tuples, over
//     ALL int values of the four enums.
// ---------------------------------------------------------------------------------------

func VerifH_keylevel_ecdsa_params() {
	curve, hashT := CurveType(verifrt.Int("curve")), HashType(verifrt.Int("hash"))
	enc, variant := SignatureEncoding(verifrt.Int("enc")), Variant(verifrt.Int("variant"))
	p, err := NewParameters(curve, hashT, enc, variant)
	// the rule, stated independently (numeric enum values: curves 1..3 = P-256/384/521, hashes
	// 1..3 = SHA-256/384/512, encodings 1..2 = DER/IEEE-P1363, variants 1..4)
	strong := (curve == 1 && hashT == 1) || (curve == 2 && (hashT == 2 || hashT == 3)) || (curve == 3 && hashT == 3)
	valid := strong && (enc == 1 || enc == 2) && (variant >= 1 && variant <= 4)
	verifrt.Assert((err == nil) == valid, "NewParameters accepts exactly: (P-256,SHA-256) / (P-384,SHA-384|SHA-512) / (P-521,SHA-512) x {DER, IEEE_P1363} x {TINK, CRUNCHY, LEGACY, NO_PREFIX}")
	if err != nil {
		verifrt.Assert(p == nil, "error => nil parameters")
		verifrt.Reach("rejected")
		return
	}
	verifrt.Assert(p.CurveType() == curve && p.HashType() == hashT && p.SignatureEncoding() == enc && p.Variant() == variant, "accessors return the constructor's arguments")
	verifrt.Assert(p.HasIDRequirement() == (variant != VariantNoPrefix), "id requirement <=> variant is not NO_PREFIX")
	verifrt.Assert(validateParameters(p) == nil, "validateParameters agrees")
	verifrt.Reach("accepted")
}

// parameters that did not come out of NewParameters (struct literals, nil) never yield a key
func VerifH_keylevel_ecdsa_badparams() {
	klInstall()
	curve, hashT := CurveType(verifrt.IntRange("curve", 0, 4)), HashType(verifrt.IntRange("hash", 0, 4))
	enc, variant := SignatureEncoding(verifrt.IntRange("enc", 0, 3)), Variant(verifrt.IntRange("variant", 0, 5))
	_, perr := NewParameters(curve, hashT, enc, variant)
	verifrt.Assume(perr != nil)
	bad := &Parameters{curveType: curve, hashType: hashT, signatureEncoding: enc, variant: variant}
	if verifrt.Choice("nil", 2) == 1 {
		bad = nil
	}
	pt := verifrt.Bytes("pt", 65)
	_, e1 := NewPublicKey(pt, 0, bad)
	_, e2 := NewPrivateKey(klSD(verifrt.Bytes("sk", 32)), 0, bad)
	verifrt.Assert(e1 != nil && e2 != nil, "invalid / nil parameters are refused by NewPublicKey and NewPrivateKey, no panic")
	_, e3 := NewPrivateKeyFromPublicKey(nil, klSD(nil))
	_, e4 := NewPrivateKeyFromPublicKey(&PublicKey{}, klSD(nil))
	verifrt.Assert(e3 != nil && e4 != nil, "nil / zero public key refused by NewPrivateKeyFromPublicKey, no panic")
	verifrt.Reach("end")
}

// klParams draws valid parameters: curve x allowed hash x encoding x variant (kind 0..3).
func klParams() (ci int, c klCurve, params *Parameters, kind int) {
	ci = verifrt.Choice("curve", 3)
	c = klCurves[ci]
	hashT := [...]HashType{SHA256, SHA384, SHA512}[verifrt.Choice("hash", 3)]
	verifrt.Assume(klHashAllowed(ci, hashT))
	enc := [...]SignatureEncoding{DER, IEEEP1363}[verifrt.Choice("enc", 2)]
	kind = verifrt.Choice("variant", 4)
	variant := [...]Variant{VariantTink, VariantCrunchy, VariantLegacy, VariantNoPrefix}[kind]
	params, err := NewParameters(c.ct, hashT, enc, variant)
	verifrt.Assert(err == nil && params != nil, "NewParameters")
	return
}

// ---------------------------------------------------------------------------------------
// (b) NewPublicKey
// ---------------------------------------------------------------------------------------

func VerifH_keylevel_ecdsa_publickey() {
	verifrt.EngineOnly()
	klInstall()
	ci, c, params, kind := klParams()
	id := verifrt.Uint32("id") // arbitrary also for NO_PREFIX
	full := 1 + 2*c.size
	// lengths: empty, a lone byte (point at infinity is 0x00), compressed size, around the
	// uncompressed size, and the uncompressed sizes of the other curves
	cands := []int{0, 1, 1 + c.size, full - 1, full, full + 1}
	for j := range klCurves {
		if j != ci {
			cands = append(cands, 1+2*klCurves[j].size)
		}
	}
	n := cands[verifrt.Choice("len", len(cands))]
	pt := verifrt.Bytes("pt", n)
	pt0 := append([]byte{}, pt...)
	k, err := NewPublicKey(pt, id, params)
	want := n == full && pt0[0] == 4 && klOnCurve(c.name, pt0) && (kind != 3 || id == 0)
	verifrt.Assert((err == nil) == want, "NewPublicKey accepts exactly: uncompressed point (0x04 || X || Y, 65/97/133 bytes) on the parameters' curve, and id 0 if NO_PREFIX")
	if err != nil {
		verifrt.Assert(k == nil, "error => nil key")
		verifrt.Reach("rejected")
		return
	}
	verifrt.AssertEq(k.PublicPoint(), pt0, "PublicPoint() is the constructor's point")
	gotID, req := k.IDRequirement()
	verifrt.Assert(gotID == id && req == (kind != 3), "IDRequirement")
	verifrt.AssertEq(k.OutputPrefix(), verifspec.Prefix(kind, id), "output prefix: 0x01||id TINK, 0x00||id CRUNCHY/LEGACY, empty NO_PREFIX")
	verifrt.Assert(k.Parameters() == params, "Parameters() are the constructor's")
	// Equal: same point, id, parameters <=> Equal
	k2, err := NewPublicKey(pt0, id, params)
	verifrt.Assert(err == nil && k.Equal(k2) && k2.Equal(k), "a key made from the same values is Equal")
	other := append([]byte{}, pt0...)
	other[n-1] ^= 1 | verifrt.Byte("flip")
	if klOnCurve(c.name, other) {
		k3, err := NewPublicKey(other, id, params)
		verifrt.Assert(err == nil && !k.Equal(k3) && !k3.Equal(k), "a key with another point is not Equal")
	}
	if kind != 3 {
		k4, err := NewPublicKey(pt0, id^(1|verifrt.Uint32("idflip")), params)
		verifrt.Assert(err == nil && !k.Equal(k4), "a key with another id is not Equal")
	}
	verifrt.Reach("accepted")
}

// C19 for the public key object: the constructor copies the caller's slice, the accessors
// return copies.
func VerifH_c19_ecdsa_publickey() {
	verifrt.EngineOnly()
	klInstall()
	_, c, params, kind := klParams()
	id := verifrt.Uint32("id")
	if kind == 3 {
		id = 0
	}
	pt := verifh.BufWith("pt", 1+2*c.size, verifh.SpareProfile("spare"), "caller public point buffer")
	verifrt.Assume(pt[0] == 4 && klOnCurve(c.name, pt))
	k, err := NewPublicKey(pt, id, params)
	verifrt.Assert(err == nil, "NewPublicKey")
	verifh.CheckCtorClones("NewPublicKey(publicPoint)", pt, k.PublicPoint, k.publicPoint)
	verifh.CheckAccessorsClone(
		verifh.Accessor{Name: "PublicPoint", Get: k.PublicPoint},
		verifh.Accessor{Name: "OutputPrefix", Get: k.OutputPrefix},
	)
	verifrt.Assert(!verifrt.SameArray(k.PublicPoint(), k.publicPoint), "PublicPoint() does not return the internal slice")
	verifrt.Reach("end")
}

// ---------------------------------------------------------------------------------------
// (c) NewPrivateKey / NewPrivateKeyFromPublicKey
// ---------------------------------------------------------------------------------------

func VerifH_keylevel_ecdsa_privatekey() {
	verifrt.EngineOnly()
	klInstall()
	_, c, params, kind := klParams()
	id := verifrt.Uint32("id")
	n := c.size - 2 + verifrt.Choice("sklen", 5)
	sk := verifrt.Bytes("sk", n)
	k, err := NewPrivateKey(klSD(sk), id, params)
	skOK := n == c.size && klScalarOK(c.name, sk)
	verifrt.Assert((err == nil) == (skOK && (kind != 3 || id == 0)), "NewPrivateKey accepts exactly a scalar of the curve's size in [1, order) (and id 0 if NO_PREFIX)")
	if err == nil {
		pub, perr := k.PublicKey()
		verifrt.Assert(perr == nil, "PublicKey()")
		verifrt.AssertEq(pub.(*PublicKey).PublicPoint(), klPub(c, sk), "NewPrivateKey: the public key is the point derived from the private scalar")
		verifrt.AssertEq(k.PrivateKeyValue().Data(insecuresecretdataaccess.Token{}), sk, "PrivateKeyValue() is the constructor's scalar")
		verifrt.AssertEq(k.OutputPrefix(), verifspec.Prefix(kind, id), "output prefix")
		gotID, req := k.IDRequirement()
		verifrt.Assert(gotID == id && req == (kind != 3) && k.Parameters() == params, "id requirement and parameters")
	} else {
		verifrt.Assert(k == nil, "error => nil key")
	}
	if kind == 3 {
		id = 0
	}
	// NewPrivateKeyFromPublicKey with an arbitrary public key of the curve
	offered := verifrt.Bytes("offered", 1+2*c.size)
	verifrt.Assume(offered[0] == 4 && klOnCurve(c.name, offered))
	pub, err := NewPublicKey(offered, id, params)
	verifrt.Assert(err == nil, "NewPublicKey(valid point)")
	k2, err := NewPrivateKeyFromPublicKey(pub, klSD(sk))
	match := skOK && verifrt.EqBytes(offered, klPub(c, sk))
	verifrt.Assert((err == nil) == match, "NewPrivateKeyFromPublicKey accepts exactly the scalar whose public point is the given public key")
	if err != nil {
		verifrt.Assert(k2 == nil, "error => nil key")
		verifrt.Reach("mismatch-rejected")
		return
	}
	if k == nil { // NO_PREFIX with a non-zero id above
		k, err = NewPrivateKey(klSD(sk), id, params)
		verifrt.Assert(err == nil, "NewPrivateKey")
	}
	verifrt.Assert(k != nil && k2.Equal(k) && k.Equal(k2), "both constructors give Equal keys")
	pub2, _ := k2.PublicKey()
	verifrt.Assert(pub2 == pub, "PublicKey() is the given public key")
	verifrt.AssertEq(k2.PrivateKeyValue().Data(insecuresecretdataaccess.Token{}), sk, "PrivateKeyValue() is the given scalar")
	verifrt.Reach("match-accepted")
}

// leading-zero handling of the serialized private scalar (b/264525021: Tink writes size+1
// bytes, other implementations may strip leading zeros): privateKeyValue pads shorter values
// on the left and strips surplus leading bytes iff they are all zero; every length from
// size-2 to size+2, all contents.
func VerifH_keylevel_ecdsa_privvalue() {
	c := klCurves[verifrt.Choice("curve", 3)]
	n := c.size - 2 + verifrt.Choice("len", 5)
	if verifrt.Choice("tiny", 2) == 1 {
		n = verifrt.Choice("tinylen", 2) // 0, 1
	}
	kb := verifrt.Bytes("kb", n)
	kb0 := append([]byte{}, kb...)
	v, err := privateKeyValue(c.ct, kb)
	surplusZero := true
	for i := 0; i < n-c.size; i++ {
		surplusZero = surplusZero && kb0[i] == 0
	}
	verifrt.Assert((err == nil) == surplusZero, "accepted <=> the bytes beyond the curve size (from the left) are all zero")
	if err != nil {
		verifrt.Reach("rejected")
		return
	}
	want := make([]byte, c.size)
	if n <= c.size {
		copy(want[c.size-n:], kb0)
	} else {
		copy(want, kb0[n-c.size:])
	}
	verifrt.AssertEq(v.Data(insecuresecretdataaccess.Token{}), want, "value = the same integer on exactly size bytes")
	verifrt.AssertEq(kb, kb0, "input not modified")
	_, err = privateKeyValue(UnknownCurveType, kb)
	verifrt.Assert(err != nil, "unknown curve refused")
	verifrt.Reach("accepted")
}

// ---------------------------------------------------------------------------------------
// (d) NewSigner / NewVerifier: what crypto/ecdsa is handed
// ---------------------------------------------------------------------------------------

type klStubCurve struct {
	elliptic.Curve
	p *elliptic.CurveParams
}

func (c klStubCurve) Params() *elliptic.CurveParams { return c.p }

var klElliptic = [3]klStubCurve{
	{p: &elliptic.CurveParams{Name: "P-256", BitSize: 256}},
	{p: &elliptic.CurveParams{Name: "P-384", BitSize: 384}},
	{p: &elliptic.CurveParams{Name: "P-521", BitSize: 521}},
}

// ideal ECDSA, key-aware: the signature is a function of (curve name, Q = (X, Y), digest);
// signing additionally requires the private scalar to be the one the harness made Q from.
func klIdealSig(pub *stdecdsa.PublicKey, size int, digest []byte) []byte {
	q := append(pub.X.FillBytes(make([]byte, size)), pub.Y.FillBytes(make([]byte, size))...)
	return verifrt.UF("ECDSA_"+pub.Curve.Params().Name, 2*size, q, digest)
}

func klDER(r, s []byte) []byte { return slices.Concat([]byte{0x30}, r, s) }

func klInstallECDSA(c klCurve, wantD []byte) {
	verifrt.Summarize("crypto/elliptic.P256", func() elliptic.Curve { return klElliptic[0] })
	verifrt.Summarize("crypto/elliptic.P384", func() elliptic.Curve { return klElliptic[1] })
	verifrt.Summarize("crypto/elliptic.P521", func() elliptic.Curve { return klElliptic[2] })
	checkD := func(priv *stdecdsa.PrivateKey) {
		verifrt.AssertEq(priv.D.FillBytes(make([]byte, c.size)), wantD, "crypto/ecdsa is handed the key's private scalar as D")
	}
	verifrt.Summarize("crypto/ecdsa.SignASN1", func(_ io.Reader, priv *stdecdsa.PrivateKey, digest []byte) ([]byte, error) {
		checkD(priv)
		rs := klIdealSig(&priv.PublicKey, c.size, digest)
		return klDER(rs[:c.size], rs[c.size:]), nil
	})
	verifrt.Summarize("crypto/ecdsa.Sign", func(_ io.Reader, priv *stdecdsa.PrivateKey, digest []byte) (*big.Int, *big.Int, error) {
		checkD(priv)
		rs := klIdealSig(&priv.PublicKey, c.size, digest)
		verifrt.Assume(rs[0] != 0 && rs[c.size] != 0) // leading zeros of r, s: VerifH_p1363_*
		return new(big.Int).SetBytes(rs[:c.size]), new(big.Int).SetBytes(rs[c.size:]), nil
	})
	verifrt.Summarize("internal/signature/ecdsa.ASN1Encode", func(sig *internalecdsa.Signature) ([]byte, error) {
		if sig.R.BitLen() > 8*c.size || sig.S.BitLen() > 8*c.size {
			return nil, errKL
		}
		return klDER(sig.R.FillBytes(make([]byte, c.size)), sig.S.FillBytes(make([]byte, c.size))), nil
	})
	verifrt.Summarize("crypto/ecdsa.VerifyASN1", func(pub *stdecdsa.PublicKey, digest, sig []byte) bool {
		rs := klIdealSig(pub, c.size, digest)
		return verifrt.EqBytes(sig, klDER(rs[:c.size], rs[c.size:]))
	})
}

func VerifH_keylevel_ecdsa_primitives() {
	verifrt.EngineOnly()
	klInstall()
	ci, c, params, kind := klParams()
	id := verifrt.Uint32("id")
	if kind == 3 {
		id = 0
	}
	// key material with few symbolic bytes per big integer and a non-zero top byte (math/big
	// normalisation forks per leading zero word; leading zeros of a coordinate or scalar are
	// absorbed by big.Int.SetBytes, which is not Tink code): second, middle and last byte
	// symbolic, the rest fixed non-zero
	mk := func(name string, fill byte) []byte {
		b := make([]byte, c.size)
		for i := range b {
			b[i] = fill
		}
		h := verifrt.Bytes(name, 3)
		b[1], b[c.size/2], b[c.size-1] = h[0], h[1], h[2]
		return b
	}
	sk := mk("d", 0x5a)
	point := append([]byte{4}, append(mk("x", 0x21), mk("y", 0x43)...)...)
	// a genuine key pair: the scalar is valid and the point is its public key
	verifrt.Assume(verifrt.And(klOnCurve(c.name, point), verifrt.And(klScalarOK(c.name, sk), verifrt.EqBytes(klPub(c, sk), point))))
	pub, err := NewPublicKey(point, id, params)
	verifrt.Assert(err == nil, "NewPublicKey")
	priv, err := NewPrivateKeyFromPublicKey(pub, klSD(sk))
	verifrt.Assert(err == nil, "NewPrivateKeyFromPublicKey")
	x, y := point[1:1+c.size], point[1+c.size:]
	klInstallECDSA(c, sk)

	s0, err := NewSigner(priv, internalapi.Token{})
	verifrt.Assert(err == nil, "NewSigner")
	v0, err := NewVerifier(pub, internalapi.Token{})
	verifrt.Assert(err == nil, "NewVerifier")
	s, v := s0.(*signer), v0.(*verifier)

	// field by field
	wantName := [...]string{"P-256", "P-384", "P-521"}[ci]
	verifrt.Assert(s.key.Curve.Params().Name == wantName && v.key.Curve.Params().Name == wantName, "crypto/ecdsa gets the curve of the parameters (P-256 / P-384 / P-521)")
	verifrt.AssertEq(s.key.X.FillBytes(make([]byte, c.size)), x, "signer: X = first half of the public point")
	verifrt.AssertEq(s.key.Y.FillBytes(make([]byte, c.size)), y, "signer: Y = second half of the public point")
	verifrt.AssertEq(s.key.D.FillBytes(make([]byte, c.size)), sk, "signer: D = the private key value")
	verifrt.AssertEq(v.key.X.FillBytes(make([]byte, c.size)), x, "verifier: X = first half of the public point")
	verifrt.AssertEq(v.key.Y.FillBytes(make([]byte, c.size)), y, "verifier: Y = second half of the public point")
	verifrt.AssertEq(s.prefix, verifspec.Prefix(kind, id), "signer prefix")
	verifrt.AssertEq(v.prefix, verifspec.Prefix(kind, id), "verifier prefix")
	verifrt.Assert(s.parameters == params && v.parameters == params, "the primitives carry the key's parameters (encoding, variant)")

	// the hash is the parameters' hash
	var hf func() hash.Hash
	switch params.HashType() {
	case SHA256:
		hf = sha256.New
	case SHA384:
		hf = sha512.New384
	default:
		hf = sha512.New
	}
	msg := verifrt.Bytes("msg", 2)
	h := hf()
	h.Write(msg)
	if kind == 2 {
		h.Write([]byte{0})
	}
	digest := h.Sum(nil)

	// end to end over the ideal scheme
	sig, err := s0.Sign(msg)
	verifrt.Assert(err == nil, "Sign")
	idealPub := &stdecdsa.PublicKey{Curve: klElliptic[ci], X: new(big.Int).SetBytes(x), Y: new(big.Int).SetBytes(y)}
	rs := klIdealSig(idealPub, c.size, digest)
	var body []byte
	if params.SignatureEncoding() == DER {
		body = klDER(rs[:c.size], rs[c.size:])
	} else {
		body = rs
	}
	verifrt.AssertEq(sig, slices.Concat(verifspec.Prefix(kind, id), body), "signature == prefix || ECDSA_{curve, Q}(Hash(msg [|| 0x00 for LEGACY])) in the parameters' encoding with the parameters' hash")
	verifrt.Assert(v0.Verify(sig, msg) == nil, "Sign's output verifies under the matching public key")

	// a verifier for another public key of the same parameters rejects it (ideal scheme:
	// signatures under different keys differ)
	otherPt := append([]byte{4}, append(mk("ox", 0x33), mk("oy", 0x77)...)...)
	verifrt.Assume(klOnCurve(c.name, otherPt) && !verifrt.EqBytes(otherPt, point))
	otherKey, err := NewPublicKey(otherPt, id, params)
	verifrt.Assert(err == nil, "NewPublicKey(other)")
	ov, err := NewVerifier(otherKey, internalapi.Token{})
	verifrt.Assert(err == nil, "NewVerifier(other)")
	otherPub := &stdecdsa.PublicKey{Curve: klElliptic[ci], X: new(big.Int).SetBytes(otherPt[1 : 1+c.size]), Y: new(big.Int).SetBytes(otherPt[1+c.size:])}
	verifrt.Assume(!verifrt.EqBytes(klIdealSig(otherPub, c.size, digest), rs))
	verifrt.Assert(ov.Verify(sig, msg) != nil, "a verifier for another public key rejects")
	verifrt.Reach("end")
}

// ---------------------------------------------------------------------------------------
// C12: private and public keys survive serialization (key objects made by the real
// constructors over the stubbed curve).
// ---------------------------------------------------------------------------------------

func VerifH_serial_ecdsa_keys() {
	verifrt.EngineOnly()
	klInstall()
	_, c, params, kind := klParams()
	id := verifrt.Uint32("id")
	if kind == 3 {
		id = 0
	}
	sk := verifrt.Bytes("sk", c.size)
	verifrt.Assume(klScalarOK(c.name, sk))
	priv, err := NewPrivateKey(klSD(sk), id, params)
	verifrt.Assert(err == nil, "NewPrivateKey")
	if verifrt.Choice("which", 2) == 0 {
		verifh.CheckKeyRoundTrip(priv, &privateKeySerializer{}, &privateKeyParser{}, &parametersSerializer{}, &parametersParser{}, kind, id, signerTypeURL, tinkpb.KeyData_ASYMMETRIC_PRIVATE)
	} else {
		pub, _ := priv.PublicKey()
		verifh.CheckKeyRoundTripOnly(pub, &publicKeySerializer{}, &publicKeyParser{}, kind, id, verifierTypeURL, tinkpb.KeyData_ASYMMETRIC_PUBLIC)
	}
}
