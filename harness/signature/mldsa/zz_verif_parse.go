package mldsa

import (
	"google.golang.org/protobuf/proto"

	"github.com/tink-crypto/tink-go/v2/internal/verifh"
	"github.com/tink-crypto/tink-go/v2/internal/verifrt"
	pb "github.com/tink-crypto/tink-go/v2/proto/ml_dsa_go_proto"
	tinkpb "github.com/tink-crypto/tink-go/v2/proto/tink_go_proto"
)

// parsePubLen: FIPS 204 table 2 public key sizes by proto instance value
// (ML_DSA_65 = 1: 1952, ML_DSA_87 = 2: 2592, ML_DSA_44 = 3: 1312); 0 for
// ML_DSA_UNKNOWN_INSTANCE and values outside the enum.
func parsePubLen(inst int32) int {
	switch inst {
	case 1:
		return 1952
	case 2:
		return 2592
	case 3:
		return 1312
	}
	return 0
}

func parseInstanceOf(inst int32) Instance {
	switch inst {
	case 1:
		return MLDSA65
	case 2:
		return MLDSA87
	case 3:
		return MLDSA44
	}
	return UnknownInstance
}

func parseVariantOK(prefix tinkpb.OutputPrefixType, v Variant) bool {
	switch prefix {
	case tinkpb.OutputPrefixType_TINK:
		return v == VariantTink
	case tinkpb.OutputPrefixType_RAW:
		return v == VariantNoPrefix
	case tinkpb.OutputPrefixType_WITH_ID_REQUIREMENT:
		return v == VariantNoPrefixWithPrehashID
	}
	return false
}

// VerifH_parse_mldsa_public: publicKeyParser.ParseKey on hostile field values
// (MlDsaPublicKey{version, key_value, params{ml_dsa_instance}}): version 0; instance
// ML-DSA-44/65/87; key_value exactly 1312/1952/2592 bytes; ASYMMETRIC_PUBLIC; the public
// key type URL (not the private one); prefix TINK, RAW or WITH_ID_REQUIREMENT (no prefix,
// but an id requirement); RAW => id 0.
func VerifH_parse_mldsa_public() {
	h := verifh.NewHostile()
	h.ForeignURL = signerTypeURL
	version, inst := verifrt.Uint32("version"), verifrt.Int32("instance")
	n := h.Len("keylen", 1952, 0, 1, 32, 1311, 1312, 1313, 1951, 1953, 2592, 2593)
	kv := verifrt.Bytes("key", n)
	msg := &pb.MlDsaPublicKey{Version: version, KeyValue: kv, Params: &pb.MlDsaParams{MlDsaInstance: pb.MlDsaInstance(inst)}}
	shape := h.Shape("shape", 3)
	var value []byte
	switch shape {
	case 1:
		version, inst, n, kv = 0, 0, 0, nil
	case 2:
		msg.Params, inst = nil, 0
	}
	if shape != 1 {
		var err error
		value, err = proto.Marshal(msg)
		verifrt.Assert(err == nil, "marshal")
	}
	if !h.Wrap(verifierTypeURL, value) {
		return
	}
	k, err := (&publicKeyParser{}).ParseKey(h.KS)
	pl := parsePubLen(inst)
	body := verifrt.And(version == 0, pl != 0 && n == pl)
	prefixOK := h.Prefix == tinkpb.OutputPrefixType_TINK || h.Prefix == tinkpb.OutputPrefixType_WITH_ID_REQUIREMENT || (h.Prefix == tinkpb.OutputPrefixType_RAW && h.ID == 0)
	valid := verifrt.And(verifrt.And(h.URLOK && h.Material == tinkpb.KeyData_ASYMMETRIC_PUBLIC, prefixOK), body)
	verifrt.Assert(verifrt.Implies(err == nil, valid), "accepted => version 0, ML-DSA-44/65/87, public key of 1312/1952/2592 bytes, ASYMMETRIC_PUBLIC, public key type URL, prefix TINK/RAW/WITH_ID_REQUIREMENT, RAW => id 0")
	verifrt.Assert(verifrt.Implies(valid, err == nil), "every valid ML-DSA public key is accepted")
	if err != nil {
		verifrt.Reach("rejected")
		return
	}
	h.CheckParsedEnvelope(k)
	ak, ok := k.(*PublicKey)
	verifrt.Assert(ok && ak != nil, "parsed key is *mldsa.PublicKey")
	p := ak.Parameters().(*Parameters)
	verifrt.Assert(p.Instance() == parseInstanceOf(inst) && parseVariantOK(h.Prefix, p.Variant()), "parameters: instance = the message's, variant mirrors the prefix type")
	verifrt.AssertEq(ak.KeyBytes(), kv, "key bytes are key_value")
	if h.Prefix == tinkpb.OutputPrefixType_TINK {
		verifrt.AssertEq(ak.OutputPrefix(), h.WantPrefix(), "TINK: output prefix 0x01 || id")
	} else {
		verifrt.Assert(len(ak.OutputPrefix()) == 0, "RAW / WITH_ID_REQUIREMENT: empty output prefix")
	}
	verifrt.Reach("accepted")
}

// VerifH_parse_mldsa_params: parametersParser.Parse on a hostile key template
// (MlDsaKeyFormat{version, params{ml_dsa_instance}}; templates carry the private key type URL).
func VerifH_parse_mldsa_params() {
	version, inst := verifrt.Uint32("version"), verifrt.Int32("instance")
	msg := &pb.MlDsaKeyFormat{Version: version, Params: &pb.MlDsaParams{MlDsaInstance: pb.MlDsaInstance(inst)}}
	if verifrt.Choice("nilparams", 2) == 1 {
		msg.Params, inst = nil, 0
	}
	value, err := proto.Marshal(msg)
	verifrt.Assert(err == nil, "marshal")
	t, urlOK, prefix := verifh.HostileTemplate(signerTypeURL, value)
	p, err := (&parametersParser{}).Parse(t)
	prefixOK := prefix == tinkpb.OutputPrefixType_TINK || prefix == tinkpb.OutputPrefixType_RAW || prefix == tinkpb.OutputPrefixType_WITH_ID_REQUIREMENT
	valid := verifrt.And(urlOK && prefixOK, verifrt.And(version == 0, parsePubLen(inst) != 0))
	verifrt.Assert((err == nil) == valid, "template accepted <=> private key type URL, version 0, ML-DSA-44/65/87, prefix TINK/RAW/WITH_ID_REQUIREMENT")
	if err != nil {
		verifrt.Reach("rejected")
		return
	}
	ap := p.(*Parameters)
	verifrt.Assert(ap.Instance() == parseInstanceOf(inst) && parseVariantOK(prefix, ap.Variant()) && ap.HasIDRequirement() == (prefix != tinkpb.OutputPrefixType_RAW), "parameters mirror the format")
	_, nerr := (&parametersParser{}).Parse(nil)
	verifrt.Assert(nerr != nil, "nil template rejected, no panic")
	verifrt.Reach("accepted")
}
