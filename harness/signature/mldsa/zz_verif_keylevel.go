package mldsa

import (
	"google.golang.org/protobuf/proto"

	"github.com/tink-crypto/tink-go/v2/insecuresecretdataaccess"
	imldsa "github.com/tink-crypto/tink-go/v2/internal/signature/mldsa"
	"github.com/tink-crypto/tink-go/v2/internal/verifh"
	"github.com/tink-crypto/tink-go/v2/internal/verifrt"
	"github.com/tink-crypto/tink-go/v2/internal/verifspec"
	pb "github.com/tink-crypto/tink-go/v2/proto/ml_dsa_go_proto"
	tinkpb "github.com/tink-crypto/tink-go/v2/proto/tink_go_proto"
	"github.com/tink-crypto/tink-go/v2/secretdata"
)

// ---------------------------------------------------------------------------------------
// ML-DSA PRIVATE key objects. ML-DSA.KeyGen_internal is an uninterpreted function of
// (parameter set, seed): pk = MLDSA_PK_set(seed), sk = MLDSA_SK_set(seed)
// (internal/signature/mldsa/zz_verif_shim_uf.go); the Tink key layer runs as real code.
// ---------------------------------------------------------------------------------------

var klTok = insecuresecretdataaccess.Token{}

func klSD(b []byte) secretdata.Bytes { return secretdata.NewBytesFromData(b, klTok) }

// klDelta: a public key of the right length as `genuine xor delta`, delta non-zero at most in
// its first two and last two bytes.
func klOffered(genuine []byte) (offered []byte, same bool) {
	n := len(genuine)
	delta := make([]byte, n)
	copy(delta, verifrt.Bytes("delta", 2))
	copy(delta[n-2:], verifrt.Bytes("deltatail", 2))
	return verifspec.XorDelta(genuine, delta), verifrt.EqBytes(delta, make([]byte, n))
}

// NewPrivateKey derives the public key (and the cached expanded key) of the seed with the
// parameter set named by the instance; NewPrivateKeyWithPublicKey accepts exactly the public
// key that belongs to the seed; seeds that are not 32 bytes are refused.
func VerifH_keylevel_mldsa_privatekey() {
	verifrt.EngineOnly()
	row, params, v, id := dispatchPick()
	var log []imldsa.VerifDispatchRecord
	imldsa.VerifInstallKeyGenUF(&log)
	n := [...]int{32, 0, 31, 33, 64}[verifrt.Choice("seedlen", 5)]
	seed := verifrt.Bytes("seed", n)
	k0, err := NewPrivateKey(klSD(seed), id, params)
	verifrt.Assert((err == nil) == (n == 32), "NewPrivateKey accepts exactly 32-byte seeds")
	if n != 32 {
		pubAny, perr := NewPublicKey(verifrt.Bytes("anypub", row.pkLen), id, params)
		verifrt.Assert(perr == nil, "NewPublicKey")
		_, err = NewPrivateKeyWithPublicKey(klSD(seed), pubAny)
		verifrt.Assert(err != nil, "NewPrivateKeyWithPublicKey refuses seeds that are not 32 bytes")
		verifrt.Reach("bad-seed-length")
		return
	}
	genuine := imldsa.VerifPublicKeyOfSeed(row.name, seed)
	expanded := imldsa.VerifExpandedKeyOfSeed(row.name, seed)
	verifrt.Assert(len(log) == 1 && log[0].Call == "KeyGenFromSeed:"+row.name, "KeyGen of the parameter set named by the instance")
	verifrt.AssertEq(log[0].Arg, seed, "KeyGen gets the key's seed")
	pk0, _ := k0.PublicKey()
	verifrt.AssertEq(pk0.(*PublicKey).KeyBytes(), genuine, "NewPrivateKey: the public key is the one derived from the seed")
	verifrt.AssertEq(k0.expandedKeyBytes.Data(klTok), expanded, "NewPrivateKey: the cached expanded key is the one derived from the seed")
	verifrt.AssertEq(k0.PrivateKeyBytes().Data(klTok), seed, "PrivateKeyBytes() is the seed")
	verifrt.AssertEq(k0.OutputPrefix(), dispatchWantPrefix(v, id), "output prefix")
	gotID, req := k0.IDRequirement()
	verifrt.Assert(gotID == id && req == (v != VariantNoPrefix) && k0.Parameters().Equal(params), "id requirement and parameters")

	offered, same := klOffered(genuine)
	pub, err := NewPublicKey(offered, id, params)
	verifrt.Assert(err == nil, "NewPublicKey (every well-sized public key)")
	k, err := NewPrivateKeyWithPublicKey(klSD(seed), pub)
	verifrt.Assert((err == nil) == same, "NewPrivateKeyWithPublicKey accepts exactly the public key that belongs to the seed")
	if err != nil {
		verifrt.Assert(k == nil, "error => nil key")
		verifrt.Reach("mismatch-rejected")
		return
	}
	verifrt.Assert(k.Equal(k0) && k0.Equal(k), "both constructors give Equal keys")
	pk, _ := k.PublicKey()
	verifrt.Assert(pk == pub, "PublicKey() is the given public key")
	verifrt.AssertEq(k.expandedKeyBytes.Data(klTok), expanded, "NewPrivateKeyWithPublicKey: cached expanded key derived from the seed")
	// the public key of ANOTHER instance with the same bytes prefix is a different key type
	_, e1 := NewPrivateKeyWithPublicKey(klSD(seed), nil)
	_, e2 := NewPrivateKeyWithPublicKey(klSD(seed), &PublicKey{})
	_, e3 := NewPrivateKey(klSD(seed), id, nil)
	verifrt.Assert(e1 != nil && e2 != nil && e3 != nil, "nil / zero-value public key and nil parameters are refused, no panic")
	verifrt.Reach("match-accepted")
}

// C19: the private key owns its bytes (the seed travels through secretdata; the derived
// public key and prefix are handed out as copies).
func VerifH_c19_mldsa_privatekey() {
	verifrt.EngineOnly()
	_, params, _, id := dispatchPick()
	var log []imldsa.VerifDispatchRecord
	imldsa.VerifInstallKeyGenUF(&log)
	seed := verifh.BufWith("seed", 32, verifh.SpareProfile("spare"), "caller seed buffer")
	seed0 := append([]byte{}, seed...)
	k, err := NewPrivateKey(klSD(seed), id, params)
	verifrt.Assert(err == nil, "NewPrivateKey")
	verifh.CheckCtorClones("NewPrivateKey(seed)", seed, func() []byte { return k.PrivateKeyBytes().Data(klTok) }, nil)
	pubKey, _ := k.PublicKey()
	pk := pubKey.(*PublicKey)
	verifh.CheckAccessorsClone(
		verifh.Accessor{Name: "PrivateKeyBytes().Data", Get: func() []byte { return k.PrivateKeyBytes().Data(klTok) }},
		verifh.Accessor{Name: "PrivateKey.OutputPrefix", Get: k.OutputPrefix},
		verifh.Accessor{Name: "PublicKey.KeyBytes", Get: pk.KeyBytes},
		verifh.Accessor{Name: "PublicKey.OutputPrefix", Get: pk.OutputPrefix},
	)
	ref, err := NewPrivateKey(klSD(seed0), id, params)
	verifrt.Assert(err == nil && k.Equal(ref) && ref.Equal(k), "private key still equals one made from the original seed")
	verifrt.Reach("end")
}

// C12: private keys survive serialization.
func VerifH_serial_mldsa_private() {
	verifrt.EngineOnly()
	_, params, v, id := dispatchPick()
	var log []imldsa.VerifDispatchRecord
	imldsa.VerifInstallKeyGenUF(&log)
	kind := map[Variant]int{VariantTink: 0, VariantNoPrefix: 3, VariantNoPrefixWithPrehashID: 4}[v]
	k, err := NewPrivateKey(klSD(verifrt.Bytes("seed", 32)), id, params)
	verifrt.Assert(err == nil, "NewPrivateKey")
	verifh.CheckKeyRoundTrip(k, &privateKeySerializer{}, &privateKeyParser{}, &parametersSerializer{}, &parametersParser{}, kind, id, signerTypeURL, tinkpb.KeyData_ASYMMETRIC_PRIVATE)
}

// VerifH_parse_mldsa_private: privateKeyParser.ParseKey on hostile field values
// (MlDsaPrivateKey{version, key_value, public_key{version, key_value, params{ml_dsa_instance}}}):
// both versions 0; instance ML-DSA-44/65/87; public key_value exactly 1312/1952/2592 bytes;
// private key_value a 32-byte seed WHOSE PUBLIC KEY IS public_key.key_value;
// ASYMMETRIC_PRIVATE; the private key type URL (not the public one); prefix TINK, RAW or
// WITH_ID_REQUIREMENT; RAW => id 0.
func VerifH_parse_mldsa_private() {
	verifrt.EngineOnly()
	var log []imldsa.VerifDispatchRecord
	imldsa.VerifInstallKeyGenUF(&log)
	h := verifh.NewHostile()
	h.ForeignURL = verifierTypeURL
	version, pubVersion, inst := verifrt.Uint32("version"), verifrt.Uint32("pubversion"), verifrt.Int32("instance")
	sn := h.Len("seedlen", 32, 0, 31, 33, 64)
	seed := verifrt.Bytes("seed", sn)
	// the public key: of the instance's size and derived from the seed up to a symbolic delta,
	// or of another length (arbitrary bytes)
	setName := map[int32]string{1: "MLDSA65", 2: "MLDSA87", 3: "MLDSA44"}[inst]
	pl := parsePubLen(inst)
	var pubBytes []byte
	match := false
	lenSel := h.Shape("publen", 4)
	switch {
	case lenSel == 0 && pl != 0 && sn == 32:
		pubBytes, match = klOffered(imldsa.VerifPublicKeyOfSeed(setName, seed))
	case lenSel == 0 && pl != 0:
		pubBytes = verifrt.Bytes("pub", pl)
	default:
		pubBytes = verifrt.Bytes("pub", [...]int{1312, 1311, 1953, 0}[lenSel])
	}
	n := len(pubBytes)
	msg := &pb.MlDsaPrivateKey{Version: version, KeyValue: seed, PublicKey: &pb.MlDsaPublicKey{Version: pubVersion, KeyValue: pubBytes, Params: &pb.MlDsaParams{MlDsaInstance: pb.MlDsaInstance(inst)}}}
	shape := h.Shape("shape", 4)
	structOK := shape == 0
	var value []byte
	switch shape {
	case 2:
		msg.PublicKey = nil
	case 3:
		msg.PublicKey.Params = nil
	}
	if shape != 1 {
		var err error
		value, err = proto.Marshal(msg)
		verifrt.Assert(err == nil, "marshal")
	}
	if !h.Wrap(signerTypeURL, value) {
		return
	}
	k, err := (&privateKeyParser{}).ParseKey(h.KS)
	and := verifrt.And
	body := and(and(structOK, and(version == 0, pubVersion == 0)), and(and(pl != 0, n == pl), and(sn == 32, match)))
	prefixOK := verifrt.Or(verifrt.Or(h.Prefix == tinkpb.OutputPrefixType_TINK, h.Prefix == tinkpb.OutputPrefixType_WITH_ID_REQUIREMENT), and(h.Prefix == tinkpb.OutputPrefixType_RAW, h.ID == 0))
	valid := and(and(and(h.URLOK, h.Material == tinkpb.KeyData_ASYMMETRIC_PRIVATE), prefixOK), body)
	verifrt.Assert(verifrt.Implies(err == nil, valid), "accepted => versions 0, ML-DSA-44/65/87, public key of the instance's size, 32-byte seed whose public key is the given one, ASYMMETRIC_PRIVATE, private key type URL, prefix TINK/RAW/WITH_ID_REQUIREMENT, RAW => id 0")
	verifrt.Assert(verifrt.Implies(valid, err == nil), "every valid ML-DSA private key is accepted")
	if err != nil {
		verifrt.Reach("rejected")
		return
	}
	h.CheckParsedEnvelope(k)
	ak, ok := k.(*PrivateKey)
	verifrt.Assert(ok && ak != nil, "parsed key is *mldsa.PrivateKey")
	p := ak.Parameters().(*Parameters)
	verifrt.Assert(p.Instance() == parseInstanceOf(inst) && parseVariantOK(h.Prefix, p.Variant()), "parameters: instance = the message's, variant mirrors the prefix type")
	verifrt.AssertEq(ak.PrivateKeyBytes().Data(klTok), seed, "private key bytes are key_value (the seed)")
	pub, _ := ak.PublicKey()
	verifrt.AssertEq(pub.(*PublicKey).KeyBytes(), pubBytes, "public key bytes are public_key.key_value")
	verifrt.AssertEq(ak.expandedKeyBytes.Data(klTok), imldsa.VerifExpandedKeyOfSeed(setName, seed), "cached expanded key derived from the seed with the instance's parameter set")
	if h.Prefix == tinkpb.OutputPrefixType_TINK {
		verifrt.AssertEq(ak.OutputPrefix(), h.WantPrefix(), "TINK: output prefix 0x01 || id")
	} else {
		verifrt.Assert(len(ak.OutputPrefix()) == 0, "RAW / WITH_ID_REQUIREMENT: empty output prefix")
	}
	verifrt.Reach("accepted")
}
