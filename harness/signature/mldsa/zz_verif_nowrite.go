package mldsa

import (
	"github.com/tink-crypto/tink-go/v2/internal/verifh"
	"github.com/tink-crypto/tink-go/v2/internal/verifrt"
)

// C19, public key object (3 instances x 3 variants; the constructor only checks the
// length): NewPublicKey clones the caller's 1312 / 1952 / 2592 bytes, KeyBytes() and
// OutputPrefix() return copies. (Private keys are skipped: NewPrivateKey runs ML-DSA key
// generation, which the engine does not execute.)
func VerifH_c19_mldsakey() {
	params, kind, n := serialParams()
	id := verifrt.Uint32("id")
	if kind == 3 {
		id = 0
	}
	pub := verifh.BufWith("pub", n, verifh.SpareProfile("spare"), "caller public-key buffer")
	pub0 := append([]byte{}, pub...)
	k, err := NewPublicKey(pub, id, params)
	verifrt.Assert(err == nil, "NewPublicKey")
	verifh.CheckCtorClones("NewPublicKey(keyBytes)", pub, k.KeyBytes, k.keyBytes)
	verifh.CheckAccessorsClone(
		verifh.Accessor{Name: "PublicKey.KeyBytes", Get: k.KeyBytes},
		verifh.Accessor{Name: "PublicKey.OutputPrefix", Get: k.OutputPrefix},
	)
	verifrt.Assert(len(k.OutputPrefix()) == [...]int{5, 0, 0, 0, 0}[kind], "output prefix length")
	ref, err := NewPublicKey(pub0, id, params)
	verifrt.Assert(err == nil && k.Equal(ref) && ref.Equal(k), "public key still equals one made from the original bytes")
	verifrt.Reach("public-ok")
}
