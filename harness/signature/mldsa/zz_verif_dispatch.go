package mldsa

import (
	"github.com/tink-crypto/tink-go/v2/insecuresecretdataaccess"
	"github.com/tink-crypto/tink-go/v2/internal/internalapi"
	imldsa "github.com/tink-crypto/tink-go/v2/internal/signature/mldsa"
	"github.com/tink-crypto/tink-go/v2/internal/verifrt"
	"github.com/tink-crypto/tink-go/v2/secretdata"
)

// Dispatch tables of the ML-DSA key layer against FIPS 204 Tables 1 and 2, written here:
// instance -> parameter set name, public key / expanded private key sizes.
type dispatchRow struct {
	inst  Instance
	name  string // exported variable of internal/signature/mldsa
	pkLen int
	skLen int
}

var dispatchTable = [3]dispatchRow{
	{MLDSA44, "MLDSA44", 1312, 2560},
	{MLDSA65, "MLDSA65", 1952, 4032},
	{MLDSA87, "MLDSA87", 2592, 4896},
}

func dispatchPick() (dispatchRow, *Parameters, Variant, uint32) {
	row := dispatchTable[verifrt.Choice("set", 3)]
	v := [...]Variant{VariantTink, VariantNoPrefix, VariantNoPrefixWithPrehashID}[verifrt.Choice("variant", 3)]
	params, err := NewParameters(row.inst, v)
	verifrt.Assert(err == nil && params != nil, "NewParameters accepts the three FIPS 204 instances")
	id := verifrt.Uint32("id")
	if v == VariantNoPrefix {
		id = 0
	}
	return row, params, v, id
}

func dispatchWantPrefix(v Variant, id uint32) []byte {
	if v == VariantTink {
		return []byte{1, byte(id >> 24), byte(id >> 16), byte(id >> 8), byte(id)}
	}
	return []byte{}
}

// (a) key creation: NewPrivateKey / createPrivateKey expand the 32-byte seed with
// ML-DSA.KeyGen_internal of the matching parameter set; public key bytes and the cached
// expanded key are that key pair's encodings (FIPS 204 sizes).
func VerifH_dispatch_mldsa_keygen() {
	verifrt.EngineOnly()
	row, params, v, id := dispatchPick()
	var log []imldsa.VerifDispatchRecord
	imldsa.VerifInstallDispatchLog(&log)
	seed := verifrt.Bytes("seed", 32)
	wantPK, wantSK := verifrt.Bytes("kg_pk", row.pkLen), verifrt.Bytes("kg_sk", row.skLen)
	check := func(priv *PrivateKey, how string) {
		verifrt.Assert(len(log) == 1 && log[0].Call == "KeyGenFromSeed:"+row.name, how+": KeyGen of the FIPS 204 parameter set named by the instance")
		verifrt.AssertEq(priv.publicKey.KeyBytes(), wantPK, how+": public key bytes = pkEncode of the generated key")
		verifrt.AssertEq(priv.expandedKeyBytes.Data(insecuresecretdataaccess.Token{}), wantSK, how+": cached expanded key = skEncode of the generated key")
		verifrt.Assert(len(priv.publicKey.KeyBytes()) == row.pkLen && priv.expandedKeyBytes.Len() == row.skLen, how+": FIPS 204 Table 2 sizes")
		verifrt.Assert(priv.publicKey.params.Equal(params) && priv.publicKey.idRequirement == id, how+": parameters and id requirement carried over")
		verifrt.AssertEq(priv.OutputPrefix(), dispatchWantPrefix(v, id), how+": output prefix")
	}
	priv, err := NewPrivateKey(secretdata.NewBytesFromData(seed, insecuresecretdataaccess.Token{}), id, params)
	verifrt.Assert(err == nil && priv != nil, "NewPrivateKey")
	if err != nil {
		return
	}
	check(priv, "NewPrivateKey")
	verifrt.AssertEq(log[0].Arg, seed, "NewPrivateKey: the key's seed is expanded")
	verifrt.AssertEq(priv.PrivateKeyBytes().Data(insecuresecretdataaccess.Token{}), seed, "private key bytes are the seed")

	// NewPrivateKeyWithPublicKey
	log = nil
	pub, err := NewPublicKey(wantPK, id, params)
	verifrt.Assert(err == nil, "NewPublicKey accepts the FIPS 204 public key size")
	if err != nil {
		return
	}
	priv2, err := NewPrivateKeyWithPublicKey(secretdata.NewBytesFromData(seed, insecuresecretdataaccess.Token{}), pub)
	verifrt.Assert(err == nil && priv2 != nil, "NewPrivateKeyWithPublicKey")
	if err == nil {
		check(priv2, "NewPrivateKeyWithPublicKey")
	}
	// every other public key length is refused, in particular the other instances' sizes
	for _, l := range [...]int{0, 32, 1311, 1312, 1313, 1951, 1952, 1953, 2591, 2592, 2593} {
		_, e := NewPublicKey(make([]byte, l), id, params)
		verifrt.Assert((e == nil) == (l == row.pkLen), "NewPublicKey accepts exactly the FIPS 204 public key size of its instance")
	}
	for _, l := range [...]int{0, 31, 33, 64} {
		_, e := NewPrivateKey(secretdata.NewBytesFromData(make([]byte, l), insecuresecretdataaccess.Token{}), id, params)
		verifrt.Assert(e != nil, "a private key seed that is not 32 bytes is refused")
	}

	// createPrivateKey: one 32-byte draw is the seed
	log = nil
	d0 := verifrt.Draws()
	k, err := createPrivateKey(params, id)
	verifrt.Assert(err == nil && k != nil, "createPrivateKey")
	if err == nil {
		check(k.(*PrivateKey), "createPrivateKey")
		verifrt.Assert(verifrt.Draws() == d0+1 && len(verifrt.DrawBytes(d0)) == 32, "createPrivateKey draws one 32-byte seed")
		verifrt.AssertEq(log[0].Arg, verifrt.DrawBytes(d0), "createPrivateKey expands the drawn seed")
	}
	verifrt.Reach("end")
}

// (b) signer: NewSigner decodes the cached expanded key with the matching set; the signature
// is prefix || ML-DSA.Sign(M, ctx = empty) under a key bound to that set.
func VerifH_dispatch_mldsa_signer() {
	verifrt.EngineOnly()
	row, params, v, id := dispatchPick()
	var log []imldsa.VerifDispatchRecord
	imldsa.VerifInstallDispatchLog(&log)
	seed := verifrt.Bytes("seed", 32)
	priv, err := NewPrivateKey(secretdata.NewBytesFromData(seed, insecuresecretdataaccess.Token{}), id, params)
	verifrt.Assert(err == nil && priv != nil, "NewPrivateKey")
	if err != nil {
		return
	}
	log = nil
	s, err := NewSigner(priv, internalapi.Token{})
	verifrt.Assert(err == nil && s != nil, "NewSigner")
	if err != nil {
		return
	}
	verifrt.Assert(len(log) == 1 && log[0].Call == "DecodeSecretKey:"+row.name, "NewSigner decodes the secret key with the matching parameter set")
	verifrt.AssertEq(log[0].Arg, verifrt.Bytes("kg_sk", row.skLen), "NewSigner decodes the key's expanded secret key")
	sg := s.(*signer)
	verifrt.Assert(imldsa.VerifSecretKeyParamsName(sg.secretKey) == row.name, "the signer's secret key is bound to the matching parameter set")
	log = nil
	msg := verifrt.Bytes("msg", verifrt.Choice("ml", 3))
	sig, err := s.Sign(msg)
	verifrt.Assert(err == nil, "Sign")
	verifrt.Assert(len(log) == 1 && log[0].Call == "Sign:"+row.name, "Sign runs ML-DSA.Sign of the matching parameter set")
	if len(log) == 1 {
		verifrt.AssertEq(log[0].Arg, msg, "the message is signed as is")
		verifrt.Assert(len(log[0].Arg3) == 0, "empty context")
	}
	verifrt.AssertEq(sig, append(dispatchWantPrefix(v, id), imldsa.VerifStubSignature...), "signature = output prefix || ML-DSA signature")
	verifrt.Reach("end")
}

// (c) verifier: NewVerifier decodes the public key with the matching set; Verify strips the
// prefix and runs ML-DSA.Verify of that set with the empty context.
func VerifH_dispatch_mldsa_verifier() {
	verifrt.EngineOnly()
	row, params, v, id := dispatchPick()
	var log []imldsa.VerifDispatchRecord
	imldsa.VerifInstallDispatchLog(&log)
	imldsa.VerifVerifyResult = nil
	pkb := make([]byte, row.pkLen)
	pkb[0], pkb[31], pkb[32], pkb[row.pkLen-1] = verifrt.Byte("pk0"), verifrt.Byte("pk31"), verifrt.Byte("pk32"), verifrt.Byte("pkN")
	pub, err := NewPublicKey(pkb, id, params)
	verifrt.Assert(err == nil && pub != nil, "NewPublicKey")
	if err != nil {
		return
	}
	vf, err := NewVerifier(pub, internalapi.Token{})
	verifrt.Assert(err == nil && vf != nil, "NewVerifier")
	if err != nil {
		return
	}
	verifrt.Assert(len(log) == 1 && log[0].Call == "DecodePublicKey:"+row.name, "NewVerifier decodes the public key with the matching parameter set")
	verifrt.AssertEq(log[0].Arg, pkb, "NewVerifier decodes the key's own bytes")
	vv := vf.(*verifier)
	verifrt.Assert(imldsa.VerifPublicKeyParamsName(vv.publicKey) == row.name, "the verifier's public key is bound to the matching parameter set")
	log = nil
	msg := verifrt.Bytes("msg", verifrt.Choice("ml", 3))
	prefix := dispatchWantPrefix(v, id)
	cand := append(verifrt.Bytes("candprefix", len(prefix)), verifrt.Bytes("candbody", len(imldsa.VerifStubSignature))...)
	e := vf.Verify(cand, msg)
	prefixOK := verifrt.EqBytes(cand[:len(prefix)], prefix)
	bodyOK := verifrt.EqBytes(cand[len(prefix):], imldsa.VerifStubSignature)
	verifrt.Assert((e == nil) == (prefixOK && bodyOK), "Verify accepts iff the output prefix matches and ML-DSA.Verify accepts the rest")
	if e == nil {
		verifrt.Assert(len(log) == 1 && log[0].Call == "Verify:"+row.name, "Verify runs ML-DSA.Verify of the matching parameter set")
		verifrt.AssertEq(log[0].Arg, msg, "the message is verified as is")
		verifrt.Assert(len(log[0].Arg3) == 0, "empty context")
		verifrt.Reach("accepted")
	}
	if len(prefix) > 0 {
		short := verifrt.Bytes("short", verifrt.Choice("sl", len(prefix)))
		verifrt.Assert(vf.Verify(short, msg) != nil, "a signature shorter than the prefix is refused")
	}
	verifrt.Reach("end")
}
