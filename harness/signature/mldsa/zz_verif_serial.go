package mldsa

import (
	"github.com/tink-crypto/tink-go/v2/internal/verifh"
	"github.com/tink-crypto/tink-go/v2/internal/verifrt"
	tinkpb "github.com/tink-crypto/tink-go/v2/proto/tink_go_proto"
)

// Instance {ML-DSA-44, ML-DSA-65, ML-DSA-87} x variant {TINK, NO_PREFIX,
// NO_PREFIX_WITH_PREHASH_ID (proto prefix type WITH_ID_REQUIREMENT, harness kind 4)}.
func serialParams() (*Parameters, int, int) {
	ii := verifrt.Choice("instance", 3)
	inst := [...]Instance{MLDSA44, MLDSA65, MLDSA87}[ii]
	vi := verifrt.Choice("variant", 3)
	v := [...]Variant{VariantTink, VariantNoPrefix, VariantNoPrefixWithPrehashID}[vi]
	kind := [...]int{0, 3, 4}[vi]
	params, err := NewParameters(inst, v)
	verifrt.Assert(err == nil, "NewParameters")
	verifrt.Assert(params.HasIDRequirement() == (kind != 3), "HasIDRequirement")
	return params, kind, [...]int{1312, 1952, 2592}[ii]
}

func VerifH_serialparams_mldsa() {
	params, kind, _ := serialParams()
	verifh.CheckParamsRoundTrip(params, &parametersSerializer{}, &parametersParser{}, kind, signerTypeURL)
}

// Public keys (the constructor only checks the length: 1312 / 1952 / 2592 symbolic bytes),
// symbolic id. Private keys are skipped: NewPrivateKey runs ML-DSA key generation.
func VerifH_serial_mldsa_public() {
	params, kind, n := serialParams()
	id := verifrt.Uint32("id")
	if kind == 3 {
		id = 0
	}
	k, err := NewPublicKey(verifrt.Bytes("pub", n), id, params)
	verifrt.Assert(err == nil, "NewPublicKey")
	verifh.CheckKeyRoundTripOnly(k, &publicKeySerializer{}, &publicKeyParser{}, kind, id, verifierTypeURL, tinkpb.KeyData_ASYMMETRIC_PUBLIC)
	verifh.CheckParamsRoundTrip(k.Parameters(), &parametersSerializer{}, &parametersParser{}, kind, signerTypeURL)
}
