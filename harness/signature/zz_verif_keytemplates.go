package signature

import (
	"github.com/tink-crypto/tink-go/v2/internal/verifrt"
	commonpb "github.com/tink-crypto/tink-go/v2/proto/common_go_proto"
	ecdsapb "github.com/tink-crypto/tink-go/v2/proto/ecdsa_go_proto"
	ed25519pb "github.com/tink-crypto/tink-go/v2/proto/ed25519_go_proto"
	rsppb "github.com/tink-crypto/tink-go/v2/proto/rsa_ssa_pkcs1_go_proto"
	rspsspb "github.com/tink-crypto/tink-go/v2/proto/rsa_ssa_pss_go_proto"
	tinkpb "github.com/tink-crypto/tink-go/v2/proto/tink_go_proto"
	"google.golang.org/protobuf/proto"
)

// C12, signature/signature_key_templates.go: what the name and doc comment of each signature
// key template promise, written out by hand:
//   - ECDSAPnnn[SHAhhh]: curve NIST P-nnn; hash SHAhhh when named, otherwise the one of the doc
//     comment (P256 -> SHA256, P384 without hash in the name -> SHA512, P521 -> SHA512)
//   - ...KeyWithoutPrefixTemplate: RAW prefix, DER encoding; ECDSAP256RawKeyTemplate: RAW prefix
//     and IEEE_P1363 encoding (doc comment); all others TINK and DER
//   - ED25519: no parameters (empty key format / version 0)
//   - RSA_SSA_PKCS1_<bits>_<hash>_F4[_RAW]: modulus bits, hash, e = 65537 = bytes 01 00 01
//   - RSA_SSA_PSS_<bits>_<hash>_<salt>_F4[_Raw]: modulus bits, signature hash = MGF1 hash,
//     salt length, e = 65537
const (
	ktFamECDSA = iota
	ktFamEd25519
	ktFamPKCS1
	ktFamPSS
)

type ktRow struct {
	name  string
	fn    func() *tinkpb.KeyTemplate
	fam   int
	raw   bool
	hash  commonpb.HashType
	curve commonpb.EllipticCurveType
	enc   ecdsapb.EcdsaSignatureEncoding
	bits  uint32
	salt  int32
}

const (
	ktSHA256 = commonpb.HashType_SHA256
	ktSHA384 = commonpb.HashType_SHA384
	ktSHA512 = commonpb.HashType_SHA512
	ktP256   = commonpb.EllipticCurveType_NIST_P256
	ktP384   = commonpb.EllipticCurveType_NIST_P384
	ktP521   = commonpb.EllipticCurveType_NIST_P521
	ktDER    = ecdsapb.EcdsaSignatureEncoding_DER
	ktP1363  = ecdsapb.EcdsaSignatureEncoding_IEEE_P1363
)

var ktTable = [19]ktRow{
	{name: "ECDSAP256KeyTemplate", fn: ECDSAP256KeyTemplate, fam: ktFamECDSA, hash: ktSHA256, curve: ktP256, enc: ktDER},
	{name: "ECDSAP256KeyWithoutPrefixTemplate", fn: ECDSAP256KeyWithoutPrefixTemplate, fam: ktFamECDSA, raw: true, hash: ktSHA256, curve: ktP256, enc: ktDER},
	{name: "ECDSAP256RawKeyTemplate", fn: ECDSAP256RawKeyTemplate, fam: ktFamECDSA, raw: true, hash: ktSHA256, curve: ktP256, enc: ktP1363},
	{name: "ECDSAP384SHA384KeyTemplate", fn: ECDSAP384SHA384KeyTemplate, fam: ktFamECDSA, hash: ktSHA384, curve: ktP384, enc: ktDER},
	{name: "ECDSAP384SHA384KeyWithoutPrefixTemplate", fn: ECDSAP384SHA384KeyWithoutPrefixTemplate, fam: ktFamECDSA, raw: true, hash: ktSHA384, curve: ktP384, enc: ktDER},
	{name: "ECDSAP384SHA512KeyTemplate", fn: ECDSAP384SHA512KeyTemplate, fam: ktFamECDSA, hash: ktSHA512, curve: ktP384, enc: ktDER},
	{name: "ECDSAP384KeyWithoutPrefixTemplate", fn: ECDSAP384KeyWithoutPrefixTemplate, fam: ktFamECDSA, raw: true, hash: ktSHA512, curve: ktP384, enc: ktDER},
	{name: "ECDSAP521KeyTemplate", fn: ECDSAP521KeyTemplate, fam: ktFamECDSA, hash: ktSHA512, curve: ktP521, enc: ktDER},
	{name: "ECDSAP521KeyWithoutPrefixTemplate", fn: ECDSAP521KeyWithoutPrefixTemplate, fam: ktFamECDSA, raw: true, hash: ktSHA512, curve: ktP521, enc: ktDER},
	{name: "ED25519KeyTemplate", fn: ED25519KeyTemplate, fam: ktFamEd25519},
	{name: "ED25519KeyWithoutPrefixTemplate", fn: ED25519KeyWithoutPrefixTemplate, fam: ktFamEd25519, raw: true},
	{name: "RSA_SSA_PKCS1_3072_SHA256_F4_Key_Template", fn: RSA_SSA_PKCS1_3072_SHA256_F4_Key_Template, fam: ktFamPKCS1, hash: ktSHA256, bits: 3072},
	{name: "RSA_SSA_PKCS1_3072_SHA256_F4_RAW_Key_Template", fn: RSA_SSA_PKCS1_3072_SHA256_F4_RAW_Key_Template, fam: ktFamPKCS1, raw: true, hash: ktSHA256, bits: 3072},
	{name: "RSA_SSA_PKCS1_4096_SHA512_F4_Key_Template", fn: RSA_SSA_PKCS1_4096_SHA512_F4_Key_Template, fam: ktFamPKCS1, hash: ktSHA512, bits: 4096},
	{name: "RSA_SSA_PKCS1_4096_SHA512_F4_RAW_Key_Template", fn: RSA_SSA_PKCS1_4096_SHA512_F4_RAW_Key_Template, fam: ktFamPKCS1, raw: true, hash: ktSHA512, bits: 4096},
	{name: "RSA_SSA_PSS_3072_SHA256_32_F4_Key_Template", fn: RSA_SSA_PSS_3072_SHA256_32_F4_Key_Template, fam: ktFamPSS, hash: ktSHA256, bits: 3072, salt: 32},
	{name: "RSA_SSA_PSS_3072_SHA256_32_F4_Raw_Key_Template", fn: RSA_SSA_PSS_3072_SHA256_32_F4_Raw_Key_Template, fam: ktFamPSS, raw: true, hash: ktSHA256, bits: 3072, salt: 32},
	{name: "RSA_SSA_PSS_4096_SHA512_64_F4_Key_Template", fn: RSA_SSA_PSS_4096_SHA512_64_F4_Key_Template, fam: ktFamPSS, hash: ktSHA512, bits: 4096, salt: 64},
	{name: "RSA_SSA_PSS_4096_SHA512_64_F4_Raw_Key_Template", fn: RSA_SSA_PSS_4096_SHA512_64_F4_Raw_Key_Template, fam: ktFamPSS, raw: true, hash: ktSHA512, bits: 4096, salt: 64},
}

func VerifH_templates_signature() {
	row := ktTable[verifrt.Choice("tmpl", 19)]
	t := row.fn()
	verifrt.Assert(t != nil, "template")
	wantPrefix := tinkpb.OutputPrefixType_TINK
	if row.raw {
		wantPrefix = tinkpb.OutputPrefixType_RAW
	}
	verifrt.Assert(t.GetOutputPrefixType() == wantPrefix, "WithoutPrefix / Raw / RAW templates are RAW, the others TINK")
	f4 := func(b []byte) bool { return len(b) == 3 && b[0] == 1 && b[1] == 0 && b[2] == 1 }
	const pfx = "type.googleapis.com/google.crypto.tink."
	switch row.fam {
	case ktFamECDSA:
		verifrt.Assert(t.GetTypeUrl() == pfx+"EcdsaPrivateKey", "type URL EcdsaPrivateKey")
		f := &ecdsapb.EcdsaKeyFormat{}
		verifrt.Assert(proto.Unmarshal(t.GetValue(), f) == nil, "key format parses")
		p := f.GetParams()
		verifrt.Assert(p != nil, "params present")
		verifrt.Assert(p.GetCurve() == row.curve, "ECDSAPnnn: curve of the name")
		verifrt.Assert(p.GetHashType() == row.hash, "ECDSA: hash of the name / doc comment")
		verifrt.Assert(p.GetEncoding() == row.enc, "ECDSA: DER, except ECDSAP256RawKeyTemplate IEEE_P1363")
		verifrt.Assert(f.GetVersion() == 0, "version 0")
	case ktFamEd25519:
		verifrt.Assert(t.GetTypeUrl() == pfx+"Ed25519PrivateKey", "type URL Ed25519PrivateKey")
		f := &ed25519pb.Ed25519KeyFormat{}
		verifrt.Assert(proto.Unmarshal(t.GetValue(), f) == nil, "key format parses")
		verifrt.Assert(f.GetVersion() == 0, "version 0")
	case ktFamPKCS1:
		verifrt.Assert(t.GetTypeUrl() == pfx+"RsaSsaPkcs1PrivateKey", "type URL RsaSsaPkcs1PrivateKey")
		f := &rsppb.RsaSsaPkcs1KeyFormat{}
		verifrt.Assert(proto.Unmarshal(t.GetValue(), f) == nil, "key format parses")
		verifrt.Assert(f.GetParams() != nil, "params present")
		verifrt.Assert(f.GetParams().GetHashType() == row.hash, "RSA_SSA_PKCS1: hash of the name")
		verifrt.Assert(f.GetModulusSizeInBits() == row.bits, "RSA_SSA_PKCS1: modulus size of the name")
		verifrt.Assert(f4(f.GetPublicExponent()), "F4: e = 65537 (01 00 01)")
	case ktFamPSS:
		verifrt.Assert(t.GetTypeUrl() == pfx+"RsaSsaPssPrivateKey", "type URL RsaSsaPssPrivateKey")
		f := &rspsspb.RsaSsaPssKeyFormat{}
		verifrt.Assert(proto.Unmarshal(t.GetValue(), f) == nil, "key format parses")
		p := f.GetParams()
		verifrt.Assert(p != nil, "params present")
		verifrt.Assert(p.GetSigHash() == row.hash, "RSA_SSA_PSS: signature hash of the name")
		verifrt.Assert(p.GetMgf1Hash() == row.hash, "RSA_SSA_PSS: MGF1 hash = signature hash")
		verifrt.Assert(p.GetSaltLength() == row.salt, "RSA_SSA_PSS: salt length of the name")
		verifrt.Assert(f.GetModulusSizeInBits() == row.bits, "RSA_SSA_PSS: modulus size of the name")
		verifrt.Assert(f4(f.GetPublicExponent()), "F4: e = 65537 (01 00 01)")
	}
	verifrt.Reach("end")
}
