package slhdsa

import (
	"github.com/tink-crypto/tink-go/v2/insecuresecretdataaccess"
	"github.com/tink-crypto/tink-go/v2/internal/verifh"
	"github.com/tink-crypto/tink-go/v2/internal/verifrt"
	tinkpb "github.com/tink-crypto/tink-go/v2/proto/tink_go_proto"
	"github.com/tink-crypto/tink-go/v2/secretdata"
)

// All 12 parameter sets: hash {SHA2, SHAKE} x private key size {64, 96, 128} x signature type
// {FastSigning, SmallSignature}, x variant {TINK, NO_PREFIX}.
func serialParams() (*Parameters, int, int, uint32) {
	hash := [...]HashType{SHA2, SHAKE}[verifrt.Choice("hash", 2)]
	ks := [...]int{64, 96, 128}[verifrt.Choice("ks", 3)]
	st := [...]SignatureType{FastSigning, SmallSignature}[verifrt.Choice("sigtype", 2)]
	vi := verifrt.Choice("variant", 2)
	v := [...]Variant{VariantTink, VariantNoPrefix}[vi]
	kind := [...]int{0, 3}[vi]
	params, err := NewParameters(hash, ks, st, v)
	verifrt.Assert(err == nil, "NewParameters")
	id := verifrt.Uint32("id")
	if kind == 3 {
		id = 0
	}
	return params, kind, ks, id
}

func VerifH_serialparams_slhdsa() {
	params, kind, _, _ := serialParams()
	verifh.CheckParamsRoundTrip(params, &parametersSerializer{}, &parametersParser{}, kind, signerTypeURL)
}

// Public keys: keySize/2 symbolic bytes (PK.seed || PK.root), symbolic id.
func VerifH_serial_slhdsa_public() {
	params, kind, ks, id := serialParams()
	k, err := NewPublicKey(verifrt.Bytes("pub", ks/2), id, params)
	verifrt.Assert(err == nil, "NewPublicKey")
	verifh.CheckKeyRoundTripOnly(k, &publicKeySerializer{}, &publicKeyParser{}, kind, id, verifierTypeURL, tinkpb.KeyData_ASYMMETRIC_PUBLIC)
	verifh.CheckParamsRoundTrip(k.Parameters(), &parametersSerializer{}, &parametersParser{}, kind, signerTypeURL)
}

// Private keys: keySize symbolic bytes (SK.seed || SK.prf || PK.seed || PK.root; the public
// key is the second half, no hashing involved), symbolic id.
func VerifH_serial_slhdsa_private() {
	params, kind, ks, id := serialParams()
	k, err := NewPrivateKey(secretdata.NewBytesFromData(verifrt.Bytes("priv", ks), insecuresecretdataaccess.Token{}), id, params)
	verifrt.Assert(err == nil, "NewPrivateKey")
	verifh.CheckKeyRoundTrip(k, &privateKeySerializer{}, &privateKeyParser{}, &parametersSerializer{}, &parametersParser{}, kind, id, signerTypeURL, tinkpb.KeyData_ASYMMETRIC_PRIVATE)
}
