package slhdsa

import (
	"google.golang.org/protobuf/proto"

	"github.com/tink-crypto/tink-go/v2/insecuresecretdataaccess"
	"github.com/tink-crypto/tink-go/v2/internal/verifh"
	"github.com/tink-crypto/tink-go/v2/internal/verifrt"
	"github.com/tink-crypto/tink-go/v2/internal/verifspec"
	pb "github.com/tink-crypto/tink-go/v2/proto/slh_dsa_go_proto"
	tinkpb "github.com/tink-crypto/tink-go/v2/proto/tink_go_proto"
	"github.com/tink-crypto/tink-go/v2/secretdata"
)

// ---------------------------------------------------------------------------------------
// SLH-DSA PRIVATE key objects. FIPS 205 section 9.1: the private key is
// SK.seed || SK.prf || PK.seed || PK.root (4n bytes), the public key PK.seed || PK.root
// (2n bytes): "the public key of a private key" is its second half, no hashing. All real
// code; natively replayable.
// (Tink does not recompute PK.root from SK.seed - one XMSS tree; a private key whose
// PK.root is not the root of its SK.seed is accepted. See the report.)
// ---------------------------------------------------------------------------------------

var klTok = insecuresecretdataaccess.Token{}

func klSD(b []byte) secretdata.Bytes { return secretdata.NewBytesFromData(b, klTok) }

func VerifH_keylevel_slhdsa_privatekey() {
	params, kind, ks, id := serialParams()
	n := [...]int{ks, 0, ks / 2, ks - 1, ks + 1, 64, 96, 128}[verifrt.Choice("sklen", 8)]
	sk := verifrt.Bytes("sk", n)
	k0, err := NewPrivateKey(klSD(sk), id, params)
	verifrt.Assert((err == nil) == (n == ks), "NewPrivateKey accepts exactly private keys of 4n bytes (64 / 96 / 128 for the parameter set)")
	// a public key of the right length as (second half of sk) xor delta, or arbitrary
	var offered []byte
	same := false
	if n == ks {
		delta := verifrt.Bytes("delta", ks/2)
		offered = verifspec.XorDelta(sk[ks/2:], delta)
		same = verifrt.EqBytes(delta, make([]byte, ks/2))
	} else {
		offered = verifrt.Bytes("anypub", ks/2)
	}
	pub, err := NewPublicKey(offered, id, params)
	verifrt.Assert(err == nil, "NewPublicKey (every well-sized public key)")
	k, err := NewPrivateKeyWithPublicKey(klSD(sk), pub)
	verifrt.Assert((err == nil) == (n == ks && same), "NewPrivateKeyWithPublicKey accepts exactly 4n-byte private keys whose PK.seed || PK.root is the given public key")
	if n == ks {
		pk0, _ := k0.PublicKey()
		verifrt.AssertEq(pk0.(*PublicKey).KeyBytes(), sk[ks/2:], "NewPrivateKey: the public key is PK.seed || PK.root of the private key")
		verifrt.AssertEq(k0.PrivateKeyBytes().Data(klTok), sk, "PrivateKeyBytes() is the constructor's value")
		verifrt.AssertEq(k0.OutputPrefix(), verifspec.Prefix(kind, id), "output prefix")
		gotID, req := k0.IDRequirement()
		verifrt.Assert(gotID == id && req == (kind != 3) && k0.Parameters().Equal(params), "id requirement and parameters")
	}
	if err != nil {
		verifrt.Assert(k == nil, "error => nil key")
		verifrt.Reach("rejected")
		return
	}
	verifrt.Assert(k.Equal(k0) && k0.Equal(k), "both constructors give Equal keys")
	pk, _ := k.PublicKey()
	verifrt.Assert(pk == pub, "PublicKey() is the given public key")
	_, e1 := NewPrivateKeyWithPublicKey(klSD(sk), nil)
	_, e2 := NewPrivateKeyWithPublicKey(klSD(sk), &PublicKey{})
	_, e3 := NewPrivateKey(klSD(sk), id, nil)
	verifrt.Assert(e1 != nil && e2 != nil && e3 != nil, "nil / zero-value public key and nil parameters are refused, no panic")
	verifrt.Reach("match-accepted")
}

// VerifH_parse_slhdsa_private: privateKeyParser.ParseKey on hostile field values
// (SlhDsaPrivateKey{version, key_value, public_key{version, key_value, params{key_size,
// hash_type, sig_type}}}): both versions 0; parseParamsValid; private key_value exactly
// key_size bytes, public key_value exactly key_size/2 bytes and EQUAL TO THE SECOND HALF of
// the private one; ASYMMETRIC_PRIVATE; the private key type URL; prefix TINK or RAW; RAW => id 0.
func VerifH_parse_slhdsa_private() {
	h := verifh.NewHostile()
	h.ForeignURL = verifierTypeURL
	version, pubVersion := verifrt.Uint32("version"), verifrt.Uint32("pubversion")
	keySize, hash, sig := verifrt.Int32("keysize"), verifrt.Int32("hash"), verifrt.Int32("sig")
	// lengths: a consistent pair for n = 16 / 24 / 32, or inconsistent ones
	pr := [...][2]int{{64, 32}, {96, 48}, {128, 64}, {64, 31}, {63, 32}, {65, 32}, {128, 32}, {0, 0}, {32, 32}}[h.Shape("lens", 9)]
	sn, pn := pr[0], pr[1]
	sk := verifrt.Bytes("sk", sn)
	var pubBytes []byte
	match := false
	if sn == 2*pn && pn > 0 {
		delta := make([]byte, pn)
		copy(delta, verifrt.Bytes("delta", 2))
		copy(delta[pn-2:], verifrt.Bytes("deltatail", 2))
		pubBytes = verifspec.XorDelta(sk[pn:], delta)
		match = verifrt.EqBytes(delta, make([]byte, pn))
	} else {
		pubBytes = verifrt.Bytes("pub", pn)
	}
	msg := &pb.SlhDsaPrivateKey{Version: version, KeyValue: sk, PublicKey: &pb.SlhDsaPublicKey{Version: pubVersion, KeyValue: pubBytes,
		Params: &pb.SlhDsaParams{KeySize: keySize, HashType: pb.SlhDsaHashType(hash), SigType: pb.SlhDsaSignatureType(sig)}}}
	shape := h.Shape("shape", 4)
	structOK := shape == 0
	var value []byte
	switch shape {
	case 2:
		msg.PublicKey = nil
	case 3:
		msg.PublicKey.Params = nil
	}
	if shape != 1 {
		var err error
		value, err = proto.Marshal(msg)
		verifrt.Assert(err == nil, "marshal")
	}
	if !h.Wrap(signerTypeURL, value) {
		return
	}
	k, err := (&privateKeyParser{}).ParseKey(h.KS)
	and := verifrt.And
	body := and(and(structOK, and(version == 0, pubVersion == 0)), and(parseParamsValid(keySize, hash, sig), and(and(int64(sn) == int64(keySize), 2*pn == sn), match)))
	valid := and(h.EnvelopeValidKinds(tinkpb.KeyData_ASYMMETRIC_PRIVATE, 0b1001), body)
	verifrt.Assert(verifrt.Implies(err == nil, valid), "accepted => versions 0, FIPS 205 parameter set, private key of key_size bytes whose second half is the public key, ASYMMETRIC_PRIVATE, private key type URL, prefix TINK/RAW, RAW => id 0")
	verifrt.Assert(verifrt.Implies(valid, err == nil), "every valid SLH-DSA private key is accepted")
	if err != nil {
		verifrt.Reach("rejected")
		return
	}
	h.CheckParsedEnvelope(k)
	ak, ok := k.(*PrivateKey)
	verifrt.Assert(ok && ak != nil, "parsed key is *slhdsa.PrivateKey")
	p := ak.Parameters().(*Parameters)
	verifrt.Assert(p.KeySize() == int(keySize) && p.HashType() == parseHashOf(hash) && p.SignatureType() == parseSigOf(sig), "parameters = the message's")
	verifrt.Assert((h.Kind() == 0 && p.Variant() == VariantTink) || (h.Kind() == 3 && p.Variant() == VariantNoPrefix), "variant mirrors the prefix type")
	verifrt.AssertEq(ak.PrivateKeyBytes().Data(klTok), sk, "private key bytes are key_value")
	pub, _ := ak.PublicKey()
	verifrt.AssertEq(pub.(*PublicKey).KeyBytes(), pubBytes, "public key bytes are public_key.key_value")
	verifrt.AssertEq(ak.OutputPrefix(), h.WantPrefix(), "output prefix of (prefix type, id)")
	verifrt.Reach("accepted")
}
