package slhdsa

import (
	"github.com/tink-crypto/tink-go/v2/insecuresecretdataaccess"
	"github.com/tink-crypto/tink-go/v2/internal/internalapi"
	islhdsa "github.com/tink-crypto/tink-go/v2/internal/signature/slhdsa"
	"github.com/tink-crypto/tink-go/v2/internal/verifrt"
	"github.com/tink-crypto/tink-go/v2/secretdata"
)

// Dispatch tables of the SLH-DSA key layer against FIPS 205 Table 2, written here
// independently: (hash family, Tink "key size" = private key bytes = 4n, s/f) -> parameter
// set name and n. The twelve rows are spelled out; nothing is computed from the code under test.
type dispatchRow struct {
	hash HashType
	ks   int
	st   SignatureType
	name string // name of the exported variable of internal/signature/slhdsa
	n    int    // FIPS 205 Table 2, column n
}

var dispatchTable = [12]dispatchRow{
	{SHA2, 64, SmallSignature, "SLH_DSA_SHA2_128s", 16},
	{SHAKE, 64, SmallSignature, "SLH_DSA_SHAKE_128s", 16},
	{SHA2, 64, FastSigning, "SLH_DSA_SHA2_128f", 16},
	{SHAKE, 64, FastSigning, "SLH_DSA_SHAKE_128f", 16},
	{SHA2, 96, SmallSignature, "SLH_DSA_SHA2_192s", 24},
	{SHAKE, 96, SmallSignature, "SLH_DSA_SHAKE_192s", 24},
	{SHA2, 96, FastSigning, "SLH_DSA_SHA2_192f", 24},
	{SHAKE, 96, FastSigning, "SLH_DSA_SHAKE_192f", 24},
	{SHA2, 128, SmallSignature, "SLH_DSA_SHA2_256s", 32},
	{SHAKE, 128, SmallSignature, "SLH_DSA_SHAKE_256s", 32},
	{SHA2, 128, FastSigning, "SLH_DSA_SHA2_256f", 32},
	{SHAKE, 128, FastSigning, "SLH_DSA_SHAKE_256f", 32},
}

// dispatchPick enumerates 12 parameter sets x {TINK, NO_PREFIX}.
func dispatchPick() (dispatchRow, *Parameters, Variant, uint32) {
	row := dispatchTable[verifrt.Choice("set", 12)]
	v := [...]Variant{VariantTink, VariantNoPrefix}[verifrt.Choice("variant", 2)]
	params, err := NewParameters(row.hash, row.ks, row.st, v)
	verifrt.Assert(err == nil && params != nil, "NewParameters accepts each of the twelve FIPS 205 parameter sets")
	id := verifrt.Uint32("id")
	if v == VariantNoPrefix {
		id = 0
	}
	return row, params, v, id
}

func dispatchWantPrefix(v Variant, id uint32) []byte {
	if v == VariantTink {
		return []byte{1, byte(id >> 24), byte(id >> 16), byte(id >> 8), byte(id)}
	}
	return []byte{}
}

// (a) createPrivateKey: KeyGen of the matching set, then the private key is decoded (to derive
// the public key) with the matching set; lengths 4n / 2n; key bytes are the generated key.
func VerifH_dispatch_slhdsa_keygen() {
	verifrt.EngineOnly()
	row, params, v, id := dispatchPick()
	var log []islhdsa.VerifDispatchRecord
	islhdsa.VerifInstallDispatchLog(&log)
	k, err := createPrivateKey(params, id)
	verifrt.Assert(err == nil && k != nil, "createPrivateKey succeeds for every parameter set")
	if err != nil {
		return
	}
	verifrt.Assert(len(log) == 2, "createPrivateKey: exactly one KeyGen and one DecodeSecretKey")
	if len(log) != 2 {
		return
	}
	verifrt.Assert(log[0].Call == "KeyGen:"+row.name, "createPrivateKey calls KeyGen of the FIPS 205 parameter set named by (hash, size, s/f)")
	verifrt.Assert(log[1].Call == "DecodeSecretKey:"+row.name, "NewPrivateKey derives the public key with the matching parameter set")
	priv := k.(*PrivateKey)
	skb := priv.PrivateKeyBytes().Data(insecuresecretdataaccess.Token{})
	verifrt.Assert(len(skb) == 4*row.n, "private key is 4n bytes")
	want := append(append(append(append([]byte{}, verifrt.Bytes("kg_skseed", row.n)...), verifrt.Bytes("kg_skprf", row.n)...), verifrt.Bytes("kg_pkseed", row.n)...), verifrt.Bytes("kg_pkroot", row.n)...)
	verifrt.AssertEq(skb, want, "private key bytes = SK.seed || SK.prf || PK.seed || PK.root of the generated key")
	verifrt.AssertEq(log[1].Arg, want, "the generated key is what gets decoded")
	pub := priv.publicKey
	verifrt.Assert(len(pub.KeyBytes()) == 2*row.n, "public key is 2n bytes")
	verifrt.AssertEq(pub.KeyBytes(), want[2*row.n:], "public key bytes = PK.seed || PK.root")
	verifrt.Assert(pub.params.Equal(params) && pub.idRequirement == id, "parameters and id requirement carried over")
	verifrt.AssertEq(priv.OutputPrefix(), dispatchWantPrefix(v, id), "output prefix")
	verifrt.Reach("end")
}

// (b) signer: NewSigner decodes the secret key with the matching set; the signature is
// prefix || slh_sign(M, ctx = empty) under a key bound to that set.
func VerifH_dispatch_slhdsa_signer() {
	verifrt.EngineOnly()
	row, params, v, id := dispatchPick()
	var log []islhdsa.VerifDispatchRecord
	islhdsa.VerifInstallDispatchLog(&log)
	skb := verifrt.Bytes("sk", 4*row.n)
	priv, err := NewPrivateKey(secretdata.NewBytesFromData(skb, insecuresecretdataaccess.Token{}), id, params)
	verifrt.Assert(err == nil && priv != nil, "NewPrivateKey accepts 4n bytes")
	if err != nil {
		return
	}
	verifrt.Assert(len(log) == 1 && log[0].Call == "DecodeSecretKey:"+row.name, "NewPrivateKey decodes with the matching parameter set")
	verifrt.AssertEq(priv.publicKey.KeyBytes(), skb[2*row.n:], "public key = second half of the private key")
	// wrong lengths are refused
	for _, d := range [...]int{-1, 1} {
		_, e := NewPrivateKey(secretdata.NewBytesFromData(make([]byte, 4*row.n+d), insecuresecretdataaccess.Token{}), id, params)
		verifrt.Assert(e != nil, "NewPrivateKey refuses a key that is not 4n bytes")
	}
	log = nil
	s, err := NewSigner(priv, internalapi.Token{})
	verifrt.Assert(err == nil && s != nil, "NewSigner")
	if err != nil {
		return
	}
	verifrt.Assert(len(log) == 1 && log[0].Call == "DecodeSecretKey:"+row.name, "NewSigner decodes the secret key with the matching parameter set")
	verifrt.AssertEq(log[0].Arg, skb, "NewSigner decodes the key's own bytes")
	sg := s.(*signer)
	verifrt.Assert(islhdsa.VerifSecretKeyParamsName(sg.secretKey) == row.name && islhdsa.VerifSecretKeyN(sg.secretKey) == row.n, "the signer's secret key is bound to the matching parameter set")
	log = nil
	msg := verifrt.Bytes("msg", verifrt.Choice("ml", 3))
	sig, err := s.Sign(msg)
	verifrt.Assert(err == nil, "Sign")
	verifrt.Assert(len(log) == 1 && log[0].Call == "signInternal:"+row.name, "Sign runs slh_sign_internal of the matching parameter set")
	verifrt.AssertEq(log[0].Arg, append([]byte{0, 0}, msg...), "M' = 0 || 0 || M (empty context)")
	verifrt.Assert(len(log[0].Arg2) == row.n, "n bytes of additional randomness")
	verifrt.AssertEq(sig, append(dispatchWantPrefix(v, id), islhdsa.VerifStubSignature...), "signature = output prefix || SLH-DSA signature")
	verifrt.Reach("end")
}

// (c) verifier: NewVerifier decodes the public key with the matching set; Verify strips the
// prefix and runs slh_verify of that set on M' with an empty context.
func VerifH_dispatch_slhdsa_verifier() {
	verifrt.EngineOnly()
	row, params, v, id := dispatchPick()
	var log []islhdsa.VerifDispatchRecord
	islhdsa.VerifInstallDispatchLog(&log)
	pkb := verifrt.Bytes("pk", 2*row.n)
	pub, err := NewPublicKey(pkb, id, params)
	verifrt.Assert(err == nil && pub != nil, "NewPublicKey accepts 2n bytes")
	if err != nil {
		return
	}
	for _, d := range [...]int{-1, 1} {
		_, e := NewPublicKey(make([]byte, 2*row.n+d), id, params)
		verifrt.Assert(e != nil, "NewPublicKey refuses a key that is not 2n bytes")
	}
	vf, err := NewVerifier(pub, internalapi.Token{})
	verifrt.Assert(err == nil && vf != nil, "NewVerifier")
	if err != nil {
		return
	}
	verifrt.Assert(len(log) == 1 && log[0].Call == "DecodePublicKey:"+row.name, "NewVerifier decodes the public key with the matching parameter set")
	verifrt.AssertEq(log[0].Arg, pkb, "NewVerifier decodes the key's own bytes")
	vv := vf.(*verifier)
	verifrt.Assert(islhdsa.VerifPublicKeyParamsName(vv.publicKey) == row.name && islhdsa.VerifPublicKeyN(vv.publicKey) == row.n, "the verifier's public key is bound to the matching parameter set")
	log = nil
	msg := verifrt.Bytes("msg", verifrt.Choice("ml", 3))
	prefix := dispatchWantPrefix(v, id)
	// candidate: symbolic prefix bytes, then a symbolic 3-byte body
	cand := append(verifrt.Bytes("candprefix", len(prefix)), verifrt.Bytes("candbody", 3)...)
	e := vf.Verify(cand, msg)
	prefixOK := verifrt.EqBytes(cand[:len(prefix)], prefix)
	bodyOK := verifrt.EqBytes(cand[len(prefix):], islhdsa.VerifStubSignature)
	verifrt.Assert((e == nil) == (prefixOK && bodyOK), "Verify accepts iff the output prefix matches and the internal verifier accepts the rest")
	if e == nil {
		verifrt.Assert(len(log) == 1 && log[0].Call == "verifyInternal:"+row.name, "Verify runs slh_verify_internal of the matching parameter set")
		verifrt.AssertEq(log[0].Arg, append([]byte{0, 0}, msg...), "M' = 0 || 0 || M (empty context)")
		verifrt.Reach("accepted")
	}
	// signatures shorter than the prefix: refused, no panic
	if len(prefix) > 0 {
		short := verifrt.Bytes("short", verifrt.Choice("sl", len(prefix)))
		verifrt.Assert(vf.Verify(short, msg) != nil, "a signature shorter than the prefix is refused")
	}
	verifrt.Reach("end")
}
