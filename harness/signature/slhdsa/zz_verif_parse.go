package slhdsa

import (
	"google.golang.org/protobuf/proto"

	"github.com/tink-crypto/tink-go/v2/internal/verifh"
	"github.com/tink-crypto/tink-go/v2/internal/verifrt"
	pb "github.com/tink-crypto/tink-go/v2/proto/slh_dsa_go_proto"
	tinkpb "github.com/tink-crypto/tink-go/v2/proto/tink_go_proto"
)

// parseParamsValid: FIPS 205 parameter sets: hash family SHA2 (1) or SHAKE (2), signature
// type FAST_SIGNING (1) or SMALL_SIGNATURE (2), and params.key_size = the PRIVATE key size
// 4n in {64, 96, 128} (security parameter n = 16, 24, 32); the public key is 2n bytes.
func parseParamsValid(keySize, hash, sig int32) bool {
	return verifrt.And(keySize == 64 || keySize == 96 || keySize == 128, verifrt.And(hash == 1 || hash == 2, sig == 1 || sig == 2))
}

func parseHashOf(hash int32) HashType {
	switch hash {
	case 1:
		return SHA2
	case 2:
		return SHAKE
	}
	return UnknownHashType
}

func parseSigOf(sig int32) SignatureType {
	switch sig {
	case 1:
		return FastSigning
	case 2:
		return SmallSignature
	}
	return UnknownSignatureType
}

// VerifH_parse_slhdsa_public: publicKeyParser.ParseKey on hostile field values
// (SlhDsaPublicKey{version, key_value, params{key_size, hash_type, sig_type}}): version 0;
// parseParamsValid; key_value exactly key_size/2 bytes; ASYMMETRIC_PUBLIC; the public key
// type URL (not the private one); prefix TINK or RAW only; RAW => id 0.
func VerifH_parse_slhdsa_public() {
	h := verifh.NewHostile()
	h.ForeignURL = signerTypeURL
	version, keySize, hash, sig := verifrt.Uint32("version"), verifrt.Int32("keysize"), verifrt.Int32("hash"), verifrt.Int32("sig")
	n := h.Len("keylen", 32, 0, 1, 31, 33, 48, 64, 65, 96, 128)
	kv := verifrt.Bytes("key", n)
	msg := &pb.SlhDsaPublicKey{Version: version, KeyValue: kv, Params: &pb.SlhDsaParams{KeySize: keySize, HashType: pb.SlhDsaHashType(hash), SigType: pb.SlhDsaSignatureType(sig)}}
	shape := h.Shape("shape", 3)
	var value []byte
	switch shape {
	case 1:
		version, keySize, hash, sig, n, kv = 0, 0, 0, 0, 0, nil
	case 2:
		msg.Params, keySize, hash, sig = nil, 0, 0, 0
	}
	if shape != 1 {
		var err error
		value, err = proto.Marshal(msg)
		verifrt.Assert(err == nil, "marshal")
	}
	if !h.Wrap(verifierTypeURL, value) {
		return
	}
	k, err := (&publicKeyParser{}).ParseKey(h.KS)
	body := verifrt.And(version == 0, verifrt.And(parseParamsValid(keySize, hash, sig), int64(n)*2 == int64(keySize)))
	valid := verifrt.And(h.EnvelopeValidKinds(tinkpb.KeyData_ASYMMETRIC_PUBLIC, 0b1001), body)
	verifrt.Assert(verifrt.Implies(err == nil, valid), "accepted => version 0, FIPS 205 parameter set, public key of key_size/2 bytes, ASYMMETRIC_PUBLIC, public key type URL, prefix TINK/RAW, RAW => id 0")
	verifrt.Assert(verifrt.Implies(valid, err == nil), "every valid SLH-DSA public key is accepted")
	if err != nil {
		verifrt.Reach("rejected")
		return
	}
	h.CheckParsedEnvelope(k)
	ak, ok := k.(*PublicKey)
	verifrt.Assert(ok && ak != nil, "parsed key is *slhdsa.PublicKey")
	p := ak.Parameters().(*Parameters)
	verifrt.Assert(p.KeySize() == int(keySize) && p.HashType() == parseHashOf(hash) && p.SignatureType() == parseSigOf(sig), "parameters = the message's")
	verifrt.Assert((h.Kind() == 0 && p.Variant() == VariantTink) || (h.Kind() == 3 && p.Variant() == VariantNoPrefix), "variant mirrors the prefix type")
	verifrt.AssertEq(ak.KeyBytes(), kv, "key bytes are key_value")
	verifrt.AssertEq(ak.OutputPrefix(), h.WantPrefix(), "output prefix of (prefix type, id)")
	verifrt.Reach("accepted")
}

// VerifH_parse_slhdsa_params: parametersParser.Parse on a hostile key template
// (SlhDsaKeyFormat{version, params}; templates carry the private key type URL).
func VerifH_parse_slhdsa_params() {
	version, keySize, hash, sig := verifrt.Uint32("version"), verifrt.Int32("keysize"), verifrt.Int32("hash"), verifrt.Int32("sig")
	msg := &pb.SlhDsaKeyFormat{Version: version, Params: &pb.SlhDsaParams{KeySize: keySize, HashType: pb.SlhDsaHashType(hash), SigType: pb.SlhDsaSignatureType(sig)}}
	if verifrt.Choice("nilparams", 2) == 1 {
		msg.Params, keySize, hash, sig = nil, 0, 0, 0
	}
	value, err := proto.Marshal(msg)
	verifrt.Assert(err == nil, "marshal")
	t, urlOK, prefix := verifh.HostileTemplate(signerTypeURL, value)
	p, err := (&parametersParser{}).Parse(t)
	kind := verifh.KindOf(prefix)
	valid := verifrt.And(urlOK && (kind == 0 || kind == 3), verifrt.And(version == 0, parseParamsValid(keySize, hash, sig)))
	verifrt.Assert((err == nil) == valid, "template accepted <=> private key type URL, version 0, FIPS 205 parameter set, prefix TINK/RAW")
	if err != nil {
		verifrt.Reach("rejected")
		return
	}
	ap := p.(*Parameters)
	verifrt.Assert(ap.KeySize() == int(keySize) && ap.HashType() == parseHashOf(hash) && ap.SignatureType() == parseSigOf(sig), "parameters mirror the format")
	verifrt.Assert(ap.HasIDRequirement() == (kind == 0) && ((kind == 0 && ap.Variant() == VariantTink) || (kind == 3 && ap.Variant() == VariantNoPrefix)), "variant mirrors the prefix type")
	_, nerr := (&parametersParser{}).Parse(nil)
	verifrt.Assert(nerr != nil, "nil template rejected, no panic")
	verifrt.Reach("accepted")
}
