package slhdsa

import (
	"github.com/tink-crypto/tink-go/v2/insecuresecretdataaccess"
	"github.com/tink-crypto/tink-go/v2/internal/verifh"
	"github.com/tink-crypto/tink-go/v2/internal/verifrt"
	"github.com/tink-crypto/tink-go/v2/secretdata"
)

// C19, key objects (all 12 parameter sets x {TINK, NO_PREFIX}). Public key: NewPublicKey
// clones the caller's bytes, KeyBytes()/OutputPrefix() return copies. Private key (the
// constructor splits the caller's bytes, no hashing): the bytes travel through secretdata;
// PrivateKeyBytes().Data(), OutputPrefix() and the embedded public key's accessors return
// copies.
func VerifH_c19_slhdsakey() {
	tok := insecuresecretdataaccess.Token{}
	params, kind, ks, id := serialParams()
	spare := verifh.SpareProfile("spare")
	if verifrt.Choice("which", 2) == 0 {
		pub := verifh.BufWith("pub", ks/2, spare, "caller public-key buffer")
		pub0 := append([]byte{}, pub...)
		k, err := NewPublicKey(pub, id, params)
		verifrt.Assert(err == nil, "NewPublicKey")
		verifh.CheckCtorClones("NewPublicKey(keyBytes)", pub, k.KeyBytes, k.keyBytes)
		verifh.CheckAccessorsClone(
			verifh.Accessor{Name: "PublicKey.KeyBytes", Get: k.KeyBytes},
			verifh.Accessor{Name: "PublicKey.OutputPrefix", Get: k.OutputPrefix},
		)
		verifrt.Assert(len(k.OutputPrefix()) == verifh.PrefixLen(kind), "output prefix length")
		ref, err := NewPublicKey(pub0, id, params)
		verifrt.Assert(err == nil && k.Equal(ref) && ref.Equal(k), "public key still equals one made from the original bytes")
		verifrt.Reach("public-ok")
		return
	}
	sk := verifh.BufWith("priv", ks, spare, "caller private-key buffer")
	sk0 := append([]byte{}, sk...)
	priv, err := NewPrivateKey(secretdata.NewBytesFromData(sk, tok), id, params)
	verifrt.Assert(err == nil, "NewPrivateKey")
	pubKey, _ := priv.PublicKey()
	pk := pubKey.(*PublicKey)
	verifh.CheckCtorClones("NewPrivateKey(privateKeyBytes)", sk, func() []byte { return priv.PrivateKeyBytes().Data(tok) }, nil)
	verifrt.AssertEq(pk.KeyBytes(), sk0[ks/2:], "embedded public key unaffected by the caller's write")
	verifh.CheckAccessorsClone(
		verifh.Accessor{Name: "PrivateKeyBytes().Data", Get: func() []byte { return priv.PrivateKeyBytes().Data(tok) }},
		verifh.Accessor{Name: "PrivateKey.OutputPrefix", Get: priv.OutputPrefix},
		verifh.Accessor{Name: "PublicKey.KeyBytes", Get: pk.KeyBytes},
		verifh.Accessor{Name: "PublicKey.OutputPrefix", Get: pk.OutputPrefix},
	)
	ref, err := NewPrivateKey(secretdata.NewBytesFromData(sk0, tok), id, params)
	verifrt.Assert(err == nil && priv.Equal(ref) && ref.Equal(priv), "private key still equals one made from the original bytes")
	verifrt.Reach("private-ok")
}
