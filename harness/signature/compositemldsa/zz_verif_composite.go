package compositemldsa

import (
	"crypto/sha512"

	"github.com/tink-crypto/tink-go/v2/insecuresecretdataaccess"
	"github.com/tink-crypto/tink-go/v2/internal/internalapi"
	internalcompmldsa "github.com/tink-crypto/tink-go/v2/internal/signature/compositemldsa"
	imldsa "github.com/tink-crypto/tink-go/v2/internal/signature/mldsa"
	"github.com/tink-crypto/tink-go/v2/internal/verifrt"
	"github.com/tink-crypto/tink-go/v2/key"
	"github.com/tink-crypto/tink-go/v2/secretdata"
	"github.com/tink-crypto/tink-go/v2/signature/ecdsa"
	"github.com/tink-crypto/tink-go/v2/signature/ed25519"
	"github.com/tink-crypto/tink-go/v2/signature/mldsa"
	"github.com/tink-crypto/tink-go/v2/signature/rsassapkcs1"
	"github.com/tink-crypto/tink-go/v2/signature/rsassapss"
	"github.com/tink-crypto/tink-go/v2/tink"
)

// ---------------------------------------------------------------------------------------
// draft-ietf-lamps-pq-composite-sigs, written out independently of the code under test.
//
// Signature:  s = mldsaSig || tradSig, mldsaSig of the FIXED length of the ML-DSA parameter
//             set (FIPS 204 Table 2: 3309 bytes for ML-DSA-65, 4627 for ML-DSA-87).
// Message:    M' = Prefix || Label || len(ctx) || ctx || PH(M); Tink uses the empty ctx, so
//             M' = Prefix || Label || 0x00 || SHA-512(M), with
//             Prefix = 436F6D706F73697465416C676F726974686D5369676E61747572657332303235
//             ("CompositeAlgorithmSignatures2025").
// ML-DSA:     ML-DSA.Sign/Verify(M', ctx = Label).   Traditional: Sign/Verify(M').
// Verify:     valid iff BOTH component verifications succeed.
// Algorithm table (the rows Tink supports): label, ML-DSA set, traditional algorithm.
// ---------------------------------------------------------------------------------------

var cmpPrefix = []byte{
	0x43, 0x6F, 0x6D, 0x70, 0x6F, 0x73, 0x69, 0x74, 0x65, 0x41, 0x6C, 0x67, 0x6F, 0x72, 0x69, 0x74,
	0x68, 0x6D, 0x53, 0x69, 0x67, 0x6E, 0x61, 0x74, 0x75, 0x72, 0x65, 0x73, 0x32, 0x30, 0x32, 0x35,
}

const (
	cmpEd = iota
	cmpECDSA
	cmpPSS
	cmpPKCS1
)

type cmpRow struct {
	alg     ClassicalAlgorithm
	inst    MLDSAInstance
	label   string
	mlSet   string // exported variable of internal/signature/mldsa
	mlSig   int    // FIPS 204 Table 2 signature size
	mlPK    int    // FIPS 204 Table 2 public key size
	kind    int
	bits    int // curve size / modulus bits
	hash    int // hash of the traditional algorithm (256 / 384 / 512); Ed25519: 0
	saltLen int // PSS
}

var cmpTable = [11]cmpRow{
	{Ed25519, MLDSA65, "COMPSIG-MLDSA65-Ed25519-SHA512", "MLDSA65", 3309, 1952, cmpEd, 255, 0, 0},
	{ECDSAP256, MLDSA65, "COMPSIG-MLDSA65-ECDSA-P256-SHA512", "MLDSA65", 3309, 1952, cmpECDSA, 256, 256, 0},
	{ECDSAP384, MLDSA65, "COMPSIG-MLDSA65-ECDSA-P384-SHA512", "MLDSA65", 3309, 1952, cmpECDSA, 384, 384, 0},
	{RSA3072PSS, MLDSA65, "COMPSIG-MLDSA65-RSA3072-PSS-SHA512", "MLDSA65", 3309, 1952, cmpPSS, 3072, 256, 32},
	{RSA4096PSS, MLDSA65, "COMPSIG-MLDSA65-RSA4096-PSS-SHA512", "MLDSA65", 3309, 1952, cmpPSS, 4096, 384, 48},
	{RSA3072PKCS1, MLDSA65, "COMPSIG-MLDSA65-RSA3072-PKCS15-SHA512", "MLDSA65", 3309, 1952, cmpPKCS1, 3072, 256, 0},
	{RSA4096PKCS1, MLDSA65, "COMPSIG-MLDSA65-RSA4096-PKCS15-SHA512", "MLDSA65", 3309, 1952, cmpPKCS1, 4096, 384, 0},
	{ECDSAP384, MLDSA87, "COMPSIG-MLDSA87-ECDSA-P384-SHA512", "MLDSA87", 4627, 2592, cmpECDSA, 384, 384, 0},
	{ECDSAP521, MLDSA87, "COMPSIG-MLDSA87-ECDSA-P521-SHA512", "MLDSA87", 4627, 2592, cmpECDSA, 521, 512, 0},
	{RSA3072PSS, MLDSA87, "COMPSIG-MLDSA87-RSA3072-PSS-SHA512", "MLDSA87", 4627, 2592, cmpPSS, 3072, 256, 32},
	{RSA4096PSS, MLDSA87, "COMPSIG-MLDSA87-RSA4096-PSS-SHA512", "MLDSA87", 4627, 2592, cmpPSS, 4096, 384, 48},
}

func cmpSupported(alg ClassicalAlgorithm, inst MLDSAInstance) (cmpRow, bool) {
	for _, r := range cmpTable {
		if r.alg == alg && r.inst == inst {
			return r, true
		}
	}
	return cmpRow{}, false
}

func cmpWantPrefix(v Variant, id uint32) []byte {
	if v == VariantTink {
		return []byte{1, byte(id >> 24), byte(id >> 16), byte(id >> 8), byte(id)}
	}
	return []byte{}
}

// sha512.Sum512 has no environment model: the same uninterpreted function for the code under
// test and for the reference M'.
func cmpStubSHA512() {
	verifrt.Summarize("crypto/sha512.Sum512", func(data []byte) [64]byte {
		var o [64]byte
		copy(o[:], verifrt.UF("sha512.Sum512", 64, data))
		return o
	})
}

func cmpWantMPrime(label string, data []byte) []byte {
	h := sha512.Sum512(data)
	out := append([]byte{}, cmpPrefix...)
	out = append(out, []byte(label)...)
	out = append(out, 0)
	return append(out, h[:]...)
}

// ---------------------------------------------------------------------------------------
// 1. Parameter tables
// ---------------------------------------------------------------------------------------

func VerifH_composite_params() {
	alg := ClassicalAlgorithm(verifrt.Choice("alg", 10)) // 0 = unknown .. 8, 9 = out of range
	inst := MLDSAInstance(verifrt.Choice("inst", 4))     // 0 = unknown, 1, 2, 3 = out of range
	v := Variant(verifrt.Choice("variant", 3))
	row, ok := cmpSupported(alg, inst)
	p, err := NewParameters(alg, inst, v)
	verifrt.Assert((err == nil) == (ok && v != VariantUnknown), "NewParameters accepts exactly the draft's combinations (with a known variant)")
	if err != nil {
		verifrt.Reach("refused")
		return
	}
	verifrt.Assert(p.ClassicalAlgorithm() == alg && p.MLDSAInstance() == inst && p.Variant() == v && p.HasIDRequirement() == (v == VariantTink), "parameters carry their fields")
	// label
	ii, e1 := toInternalMLDSAInstance(inst)
	ia, e2 := toInternalClassicalAlgorithm(alg)
	verifrt.Assert(e1 == nil && e2 == nil, "internal enums")
	label, e3 := internalcompmldsa.ComputeLabel(ii, ia)
	verifrt.Assert(e3 == nil && label == row.label, "label == the draft's label of the combination")
	// ML-DSA component
	mp, err := parametersForMLDSA(inst)
	wantInst := mldsa.MLDSA65
	if inst == MLDSA87 {
		wantInst = mldsa.MLDSA87
	}
	verifrt.Assert(err == nil && mp.Instance() == wantInst && mp.Variant() == mldsa.VariantNoPrefix, "ML-DSA component: the instance of the label, no prefix")
	// traditional component
	cp, err := parametersForClassicalAlgorithm(alg)
	verifrt.Assert(err == nil && cp != nil, "traditional component parameters")
	if err != nil {
		return
	}
	switch row.kind {
	case cmpEd:
		ep, ok := cp.(*ed25519.Parameters)
		verifrt.Assert(ok && ep.Variant() == ed25519.VariantNoPrefix, "Ed25519, no prefix")
	case cmpECDSA:
		ep, ok := cp.(*ecdsa.Parameters)
		verifrt.Assert(ok, "ECDSA parameters")
		if ok {
			wc, wh := ecdsa.NistP256, ecdsa.SHA256
			switch row.bits {
			case 384:
				wc, wh = ecdsa.NistP384, ecdsa.SHA384
			case 521:
				wc, wh = ecdsa.NistP521, ecdsa.SHA512
			}
			verifrt.Assert(ep.CurveType() == wc && ep.HashType() == wh, "ECDSA: P-256 with SHA-256 / P-384 with SHA-384 / P-521 with SHA-512")
			verifrt.Assert(ep.SignatureEncoding() == ecdsa.DER && ep.Variant() == ecdsa.VariantNoPrefix, "ECDSA: DER (Ecdsa-Sig-Value), no prefix")
		}
	case cmpPSS:
		ep, ok := cp.(*rsassapss.Parameters)
		verifrt.Assert(ok, "RSA-PSS parameters")
		if ok {
			wh := rsassapss.SHA256
			if row.hash == 384 {
				wh = rsassapss.SHA384
			}
			verifrt.Assert(ep.ModulusSizeBits() == row.bits && ep.PublicExponent() == 65537, "RSA-PSS: modulus size of the label, e = 65537")
			verifrt.Assert(ep.SigHashType() == wh && ep.MGF1HashType() == wh && ep.SaltLengthBytes() == row.saltLen, "RSA-PSS: 3072 with SHA-256/MGF1-SHA-256/salt 32; 4096 with SHA-384/MGF1-SHA-384/salt 48")
			verifrt.Assert(ep.Variant() == rsassapss.VariantNoPrefix, "no prefix")
		}
	case cmpPKCS1:
		ep, ok := cp.(*rsassapkcs1.Parameters)
		verifrt.Assert(ok, "RSA-PKCS1 parameters")
		if ok {
			wh := rsassapkcs1.SHA256
			if row.hash == 384 {
				wh = rsassapkcs1.SHA384
			}
			verifrt.Assert(ep.ModulusSizeBits() == row.bits && ep.PublicExponent() == 65537 && ep.HashType() == wh && ep.Variant() == rsassapkcs1.VariantNoPrefix, "RSA-PKCS1: 3072 with SHA-256; 4096 with SHA-384; e = 65537; no prefix")
		}
	}
	verifrt.Reach("end")
}

// ---------------------------------------------------------------------------------------
// 2. Verify: both components, split point, prefix, short signatures, M'
// ---------------------------------------------------------------------------------------

type cmpCall struct {
	tag       string
	sig, data []byte
}

type cmpStubVerifier struct {
	tag string
	log *[]cmpCall
	ok  func() bool
}

// cmpQuiet: the stub primitives stop recording (see the C18 part of VerifH_composite_construct).
var cmpQuiet = false

type cmpErr struct{}

func (cmpErr) Error() string { return "stub: invalid" }

func (v *cmpStubVerifier) Verify(sig, data []byte) error {
	if !cmpQuiet {
		*v.log = append(*v.log, cmpCall{v.tag, sig, data})
	}
	if v.ok() {
		return nil
	}
	return cmpErr{}
}

var _ tink.Verifier = (*cmpStubVerifier)(nil)

func VerifH_composite_verify() {
	verifrt.EngineOnly()
	row := cmpTable[verifrt.Choice("combo", 11)]
	variant := [...]Variant{VariantTink, VariantNoPrefix}[verifrt.Choice("variant", 2)]
	id := uint32(0)
	if variant == VariantTink {
		id = verifrt.Uint32("id")
	}
	prefix := cmpWantPrefix(variant, id)
	cmpStubSHA512()
	var mlLog []imldsa.VerifDispatchRecord
	imldsa.VerifInstallDispatchLog(&mlLog)
	mlOK, clOK := verifrt.Bool("mlOK"), verifrt.Bool("clOK")
	imldsa.VerifVerifyResult = func(imldsa.VerifDispatchRecord) bool { return mlOK }
	var clLog []cmpCall
	v := &verifier{
		mlDsaPublicKey:    &imldsa.PublicKey{},
		prefix:            prefix,
		classicalVerifier: &cmpStubVerifier{"classical", &clLog, func() bool { return clOK }},
		label:             []byte(row.label),
		mlDSAInstance:     row.inst,
	}
	data := verifrt.Bytes("data", verifrt.Choice("dl", 3))

	// candidate signature: symbolic prefix bytes; body of a length around the split point with
	// symbolic bytes at both ends of each part
	bodyLen := [...]int{0, 1, row.mlSig - 1, row.mlSig, row.mlSig + 1, row.mlSig + 71}[verifrt.Choice("bodylen", 6)]
	sig := make([]byte, len(prefix)+bodyLen)
	copy(sig, verifrt.Bytes("sigprefix", len(prefix)))
	mark := func(i int, name string) {
		if i >= 0 && i < bodyLen {
			sig[len(prefix)+i] = verifrt.Byte(name)
		}
	}
	mark(0, "b0")
	mark(row.mlSig-1, "bMLlast")
	mark(row.mlSig, "bCL0")
	mark(bodyLen-1, "bLast")
	sigCopy := append([]byte{}, sig...)

	err := v.Verify(sig, data)

	prefixOK := verifrt.EqBytes(sig[:len(prefix)], prefix)
	longEnough := bodyLen >= row.mlSig
	verifrt.Assert((err == nil) == (prefixOK && longEnough && mlOK && clOK), "Verify accepts iff the prefix matches, the signature holds a full ML-DSA signature, and BOTH component verifiers accept")
	verifrt.AssertEq(sig, sigCopy, "the caller's signature buffer is not modified")
	wantM := cmpWantMPrime(row.label, data)
	if len(mlLog) > 0 {
		verifrt.Assert(len(mlLog) == 1, "ML-DSA verified once")
		verifrt.AssertEq(mlLog[0].Arg, wantM, "ML-DSA component verifies M' = Prefix || Label || 0x00 || SHA-512(M)")
		verifrt.AssertEq(mlLog[0].Arg3, []byte(row.label), "ML-DSA context = Label")
		verifrt.Assert(len(mlLog[0].Arg2) == row.mlSig, "ML-DSA part has the FIPS 204 signature length of the instance (3309 / 4627)")
		verifrt.AssertEq(mlLog[0].Arg2, sigCopy[len(prefix):len(prefix)+row.mlSig], "ML-DSA part = the first 3309 / 4627 bytes after the prefix")
		verifrt.Reach("mlverified")
	}
	if len(clLog) > 0 {
		verifrt.Assert(len(clLog) == 1, "traditional component verified once")
		verifrt.AssertEq(clLog[0].data, wantM, "traditional component verifies M'")
		verifrt.AssertEq(clLog[0].sig, sigCopy[len(prefix)+row.mlSig:], "traditional part = everything after the ML-DSA part")
		verifrt.Reach("clverified")
	}
	if err == nil {
		verifrt.Assert(len(mlLog) == 1 && len(clLog) == 1, "an accepted signature was checked by both components")
		verifrt.Reach("accepted")
	}
	// shorter than the prefix: refused, no panic
	if len(prefix) > 0 {
		short := verifrt.Bytes("short", verifrt.Choice("sl", len(prefix)))
		verifrt.Assert(v.Verify(short, data) != nil, "a signature shorter than the prefix is refused")
	}
	verifrt.Reach("end")
}

// ---------------------------------------------------------------------------------------
// 3. NewVerifier / NewSigner: which component objects are built for which combination
// ---------------------------------------------------------------------------------------

type cmpStubSigner struct {
	tag string
	log *[]cmpCall
}

func (s *cmpStubSigner) Sign(data []byte) ([]byte, error) {
	if !cmpQuiet {
		*s.log = append(*s.log, cmpCall{s.tag, nil, data})
	}
	return []byte("CLSIG:" + s.tag), nil
}

// cmpStubClassical replaces the constructors of the traditional primitives by tagged stubs and
// the point validation of crypto/ecdh (used by ecdsa.NewPublicKey) by "accept".
func cmpStubClassical(calls *[]string, log *[]cmpCall) {
	yes := func() bool { return true }
	verifrt.Summarize("v2/signature/ed25519.NewVerifier", func(k *ed25519.PublicKey, _ internalapi.Token) (tink.Verifier, error) {
		*calls = append(*calls, "ed25519.NewVerifier")
		return &cmpStubVerifier{"ed25519", log, yes}, nil
	})
	verifrt.Summarize("v2/signature/ecdsa.NewVerifier", func(k *ecdsa.PublicKey, _ internalapi.Token) (tink.Verifier, error) {
		*calls = append(*calls, "ecdsa.NewVerifier")
		return &cmpStubVerifier{"ecdsa", log, yes}, nil
	})
	verifrt.Summarize("v2/signature/rsassapss.NewVerifier", func(k *rsassapss.PublicKey, _ internalapi.Token) (tink.Verifier, error) {
		*calls = append(*calls, "rsassapss.NewVerifier")
		return &cmpStubVerifier{"rsassapss", log, yes}, nil
	})
	verifrt.Summarize("v2/signature/rsassapkcs1.NewVerifier", func(k *rsassapkcs1.PublicKey, _ internalapi.Token) (tink.Verifier, error) {
		*calls = append(*calls, "rsassapkcs1.NewVerifier")
		return &cmpStubVerifier{"rsassapkcs1", log, yes}, nil
	})
	verifrt.Summarize("v2/signature/ed25519.NewSigner", func(k *ed25519.PrivateKey, _ internalapi.Token) (tink.Signer, error) {
		*calls = append(*calls, "ed25519.NewSigner")
		return &cmpStubSigner{"ed25519", log}, nil
	})
	verifrt.Summarize("v2/signature/ecdsa.NewSigner", func(k *ecdsa.PrivateKey, _ internalapi.Token) (tink.Signer, error) {
		*calls = append(*calls, "ecdsa.NewSigner")
		return &cmpStubSigner{"ecdsa", log}, nil
	})
	verifrt.Summarize("v2/signature/rsassapss.NewSigner", func(k *rsassapss.PrivateKey, _ internalapi.Token) (tink.Signer, error) {
		*calls = append(*calls, "rsassapss.NewSigner")
		return &cmpStubSigner{"rsassapss", log}, nil
	})
	verifrt.Summarize("v2/signature/rsassapkcs1.NewSigner", func(k *rsassapkcs1.PrivateKey, _ internalapi.Token) (tink.Signer, error) {
		*calls = append(*calls, "rsassapkcs1.NewSigner")
		return &cmpStubSigner{"rsassapkcs1", log}, nil
	})
	verifrt.Summarize("crypto/internal/fips140/nistec.P256Point).SetBytes", func(p any, b []byte) (any, error) { return nil, nil })
	verifrt.Summarize("crypto/internal/fips140/nistec.P384Point).SetBytes", func(p any, b []byte) (any, error) { return nil, nil })
	verifrt.Summarize("crypto/internal/fips140/nistec.P521Point).SetBytes", func(p any, b []byte) (any, error) { return nil, nil })
}

// cmpClassicalKeys builds a traditional public key with the parameters the draft prescribes
// for the row (through the real constructors) and a zero private key object of the matching
// type (NewSigner only dispatches on its type).
func cmpClassicalKeys(row cmpRow) (pub key.Key, priv key.Key, kind string) {
	cp, err := parametersForClassicalAlgorithm(row.alg)
	verifrt.Assert(err == nil, "traditional parameters")
	switch row.kind {
	case cmpEd:
		k, err := ed25519.NewPublicKey(verifrt.Bytes("edpk", 32), 0, *cp.(*ed25519.Parameters))
		verifrt.Assert(err == nil, "ed25519.NewPublicKey")
		return k, &ed25519.PrivateKey{}, "ed25519"
	case cmpECDSA:
		coord := (row.bits + 7) / 8
		pt := append([]byte{4}, make([]byte, 2*coord)...)
		pt[1], pt[2*coord] = verifrt.Byte("x0"), verifrt.Byte("yN")
		k, err := ecdsa.NewPublicKey(pt, 0, cp.(*ecdsa.Parameters))
		verifrt.Assert(err == nil, "ecdsa.NewPublicKey")
		return k, &ecdsa.PrivateKey{}, "ecdsa"
	case cmpPSS:
		mod := make([]byte, row.bits/8)
		mod[0], mod[len(mod)-1] = 0x80, 1
		k, err := rsassapss.NewPublicKey(mod, 0, cp.(*rsassapss.Parameters))
		verifrt.Assert(err == nil, "rsassapss.NewPublicKey")
		return k, &rsassapss.PrivateKey{}, "rsassapss"
	}
	mod := make([]byte, row.bits/8)
	mod[0], mod[len(mod)-1] = 0x80, 1
	k, err := rsassapkcs1.NewPublicKey(mod, 0, cp.(*rsassapkcs1.Parameters))
	verifrt.Assert(err == nil, "rsassapkcs1.NewPublicKey")
	return k, &rsassapkcs1.PrivateKey{}, "rsassapkcs1"
}

func VerifH_composite_construct() {
	verifrt.EngineOnly()
	row := cmpTable[verifrt.Choice("combo", 11)]
	variant := [...]Variant{VariantTink, VariantNoPrefix}[verifrt.Choice("variant", 2)]
	id := uint32(0)
	if variant == VariantTink {
		id = verifrt.Uint32("id")
	}
	params, err := NewParameters(row.alg, row.inst, variant)
	verifrt.Assert(err == nil, "NewParameters")
	if err != nil {
		return
	}
	cmpStubSHA512()
	var mlLog []imldsa.VerifDispatchRecord
	imldsa.VerifInstallDispatchLog(&mlLog)
	imldsa.VerifVerifyResult = nil
	var calls []string
	var clLog []cmpCall
	cmpStubClassical(&calls, &clLog)

	mlParams, err := parametersForMLDSA(row.inst)
	verifrt.Assert(err == nil, "ML-DSA parameters")
	seed := verifrt.Bytes("seed", 32)
	mlPriv, err := mldsa.NewPrivateKey(secretdata.NewBytesFromData(seed, insecuresecretdataaccess.Token{}), 0, mlParams)
	verifrt.Assert(err == nil && mlPriv != nil, "mldsa.NewPrivateKey")
	if err != nil {
		return
	}
	verifrt.Assert(len(mlLog) == 1 && mlLog[0].Call == "KeyGenFromSeed:"+row.mlSet, "the ML-DSA key is generated with the parameter set of the label")
	mlPubK, _ := mlPriv.PublicKey()
	mlPub := mlPubK.(*mldsa.PublicKey)
	verifrt.Assert(len(mlPub.KeyBytes()) == row.mlPK, "ML-DSA public key has the FIPS 204 size (1952 / 2592)")
	clPub, clPriv, kind := cmpClassicalKeys(row)
	pub, err := NewPublicKey(mlPub, clPub, id, params)
	verifrt.Assert(err == nil && pub != nil, "NewPublicKey accepts the draft's component parameters")
	if err != nil {
		return
	}
	verifrt.AssertEq(pub.OutputPrefix(), cmpWantPrefix(variant, id), "output prefix")

	// ---- verifier
	mlLog, calls = nil, nil
	vf, err := NewVerifier(pub, internalapi.Token{})
	verifrt.Assert(err == nil && vf != nil, "NewVerifier")
	if err != nil {
		return
	}
	verifrt.Assert(len(mlLog) == 1 && mlLog[0].Call == "DecodePublicKey:"+row.mlSet, "NewVerifier decodes the ML-DSA public key with the parameter set of the label")
	verifrt.AssertEq(mlLog[0].Arg, mlPub.KeyBytes(), "the ML-DSA public key bytes are decoded")
	verifrt.Assert(len(calls) == 1 && calls[0] == kind+".NewVerifier", "the traditional verifier is the one for the traditional key's type")
	vv := vf.(*verifier)
	verifrt.Assert(string(vv.label) == row.label, "verifier label == the draft's label")
	verifrt.Assert(vv.mlDSAInstance == row.inst && imldsa.VerifPublicKeyParamsName(vv.mlDsaPublicKey) == row.mlSet, "verifier is bound to the ML-DSA instance of the label")
	verifrt.AssertEq(vv.prefix, cmpWantPrefix(variant, id), "verifier prefix")
	verifrt.Assert(vv.classicalVerifier.(*cmpStubVerifier).tag == kind, "verifier holds the traditional verifier built from the key")

	// ---- signer
	priv := &PrivateKey{publicKey: pub, mlDSAPrivateKey: mlPriv, classicalPrivateKey: clPriv}
	mlLog, calls = nil, nil
	sg, err := NewSigner(priv, internalapi.Token{})
	verifrt.Assert(err == nil && sg != nil, "NewSigner")
	if err != nil {
		return
	}
	verifrt.Assert(len(mlLog) == 1 && mlLog[0].Call == "KeyGenFromSeed:"+row.mlSet, "NewSigner expands the ML-DSA seed with the parameter set of the label")
	verifrt.AssertEq(mlLog[0].Arg, seed, "the key's seed is expanded")
	verifrt.Assert(len(calls) == 1 && calls[0] == kind+".NewSigner", "the traditional signer is the one for the traditional key's type")
	ss := sg.(*signer)
	verifrt.Assert(string(ss.label) == row.label && imldsa.VerifSecretKeyParamsName(ss.mldsaSecretKey) == row.mlSet, "signer label and ML-DSA instance")
	verifrt.AssertEq(ss.prefix, cmpWantPrefix(variant, id), "signer prefix")

	// ---- Sign: prefix || ML-DSA.Sign(M', ctx = Label) || Trad.Sign(M')
	mlLog, clLog = nil, nil
	data := verifrt.Bytes("data", verifrt.Choice("dl", 3))
	sig, err := sg.Sign(data)
	verifrt.Assert(err == nil, "Sign")
	wantM := cmpWantMPrime(row.label, data)
	verifrt.Assert(len(mlLog) == 1 && mlLog[0].Call == "Sign:"+row.mlSet && len(clLog) == 1, "one hedged ML-DSA signature (Sign, which draws fresh randomness - not SignDeterministic) and one traditional signature")
	if len(mlLog) == 1 && len(clLog) == 1 {
		verifrt.AssertEq(mlLog[0].Arg, wantM, "ML-DSA signs M' = Prefix || Label || 0x00 || SHA-512(M)")
		verifrt.AssertEq(mlLog[0].Arg3, []byte(row.label), "ML-DSA context = Label")
		verifrt.AssertEq(clLog[0].data, wantM, "traditional component signs M'")
	}
	want := append(append(cmpWantPrefix(variant, id), imldsa.VerifStubSignature...), []byte("CLSIG:"+kind)...)
	verifrt.AssertEq(sig, want, "signature = output prefix || ML-DSA signature || traditional signature")

	// ---- C18 (sufficient condition): with everything allocated so far read-only, further
	// Sign / Verify calls on the same signer / verifier (other data in between) write to nothing
	// that existed before and give the same results
	cmpQuiet, imldsa.VerifDispatchQuiet = true, true
	data2 := verifrt.Bytes("data2", 1+verifrt.Choice("dl2", 2))
	verifrt.FreezeAll("state shared between concurrent calls (everything allocated before the calls: composite signer / verifier)")
	sig2, err := sg.Sign(data2)
	verifrt.Assert(err == nil, "second Sign")
	sigAgain, err := sg.Sign(data)
	verifrt.Assert(err == nil, "third Sign")
	verifrt.AssertEq(sigAgain, sig, "a call in between does not change the result")
	verifrt.Assert(!verifrt.SameArray(sig2, sigAgain), "signatures do not share memory")
	v1 := vf.Verify(sig, data) == nil
	_ = vf.Verify(sig2, data2)
	v1b := vf.Verify(sig, data) == nil
	verifrt.Assert(v1 == v1b, "the shared verifier's verdict does not depend on a call in between")
	verifrt.Reach("end")
}

// ---------------------------------------------------------------------------------------
// Component / parameter consistency of composite keys (C14): a composite public key (and so a
// private key, and every parsed key - the parsers go through NewPublicKey) is accepted iff the
// embedded ML-DSA key is an unprefixed key of exactly the instance the composite parameters
// announce and the traditional key has exactly the parameters the draft prescribes for the
// announced traditional algorithm.
// ---------------------------------------------------------------------------------------

func VerifH_composite_key_components() {
	verifrt.EngineOnly()
	row := cmpTable[verifrt.Choice("combo", 11)]
	variant := [...]Variant{VariantTink, VariantNoPrefix}[verifrt.Choice("variant", 2)]
	id := uint32(0)
	if variant == VariantTink {
		id = verifrt.Uint32("id")
	}
	params, err := NewParameters(row.alg, row.inst, variant)
	verifrt.Assert(err == nil, "NewParameters")
	if err != nil {
		return
	}
	var calls []string
	var clLog []cmpCall
	cmpStubClassical(&calls, &clLog)

	// embedded ML-DSA public key: any instance, any variant
	mi := verifrt.Choice("mlinst", 3)
	mlInst := [...]mldsa.Instance{mldsa.MLDSA44, mldsa.MLDSA65, mldsa.MLDSA87}[mi]
	mlVar := [...]mldsa.Variant{mldsa.VariantNoPrefix, mldsa.VariantTink}[verifrt.Choice("mlvar", 2)]
	mlParams, err := mldsa.NewParameters(mlInst, mlVar)
	verifrt.Assert(err == nil, "mldsa.NewParameters")
	mlID := uint32(0)
	if mlVar == mldsa.VariantTink {
		mlID = verifrt.Uint32("mlid")
	}
	mlPub, err := mldsa.NewPublicKey(make([]byte, [...]int{1312, 1952, 2592}[mi]), mlID, mlParams)
	verifrt.Assert(err == nil && mlPub != nil, "mldsa.NewPublicKey")
	if err != nil {
		return
	}
	// traditional public key: the one prescribed for any of the 11 rows
	row2 := cmpTable[verifrt.Choice("clcombo", 11)]
	clPub, _, _ := cmpClassicalKeys(row2)
	// ... or, for Ed25519, the PRIVATE key with the same parameters offered as "public key"
	// (what the public-key parser builds from a CompositeMlDsaPublicKey message whose
	// classical_public_key field carries an Ed25519PrivateKey): must be refused - a composite
	// public key holding private key material would pass the no-secrets APIs (C13).
	clIsPrivate := false
	if row2.kind == cmpEd && verifrt.Choice("clprivate", 2) == 1 {
		edp, err := parametersForClassicalAlgorithm(Ed25519)
		verifrt.Assert(err == nil, "ed25519 parameters")
		priv, err := ed25519.NewPrivateKey(secretdata.NewBytesFromData(verifrt.Bytes("edseed", 32), insecuresecretdataaccess.Token{}), 0, *edp.(*ed25519.Parameters))
		verifrt.Assert(err == nil && priv != nil, "ed25519.NewPrivateKey")
		clPub, clIsPrivate = priv, true
	}

	pub, err := NewPublicKey(mlPub, clPub, id, params)
	mlOK := mlVar == mldsa.VariantNoPrefix && ((row.inst == MLDSA65 && mlInst == mldsa.MLDSA65) || (row.inst == MLDSA87 && mlInst == mldsa.MLDSA87))
	clOK := row2.alg == row.alg && !clIsPrivate
	verifrt.Assert((err == nil) == (mlOK && clOK), "NewPublicKey accepts iff the embedded ML-DSA key is an unprefixed key of the announced instance and the traditional key is a PUBLIC key of the announced algorithm")
	if err != nil {
		verifrt.Assert(pub == nil, "no key on error")
		verifrt.Reach("refused")
		return
	}
	verifrt.Assert(pub.MLDSAPublicKey() == mlPub && pub.ClassicalPublicKey() == clPub && pub.Parameters().Equal(params), "the key reports its components and parameters")
	gotID, req := pub.IDRequirement()
	verifrt.Assert(gotID == id && req == (variant == VariantTink), "id requirement")
	verifrt.AssertEq(pub.OutputPrefix(), cmpWantPrefix(variant, id), "output prefix")
	verifrt.Reach("accepted")
}
