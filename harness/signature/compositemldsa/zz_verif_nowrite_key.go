package compositemldsa

import (
	"github.com/tink-crypto/tink-go/v2/internal/verifh"
	"github.com/tink-crypto/tink-go/v2/internal/verifrt"
)

// Composite ML-DSA public keys own their output prefix. (The key object is built directly:
// its constructor needs real component keys.)
func VerifH_c19_compositemldsa_prefix() {
	pfx := verifrt.Bytes("prefix", 5)
	k := &PublicKey{outputPrefix: append([]byte{}, pfx...)}
	verifh.CheckBytesAccessor(k.OutputPrefix, "OutputPrefix()")
	verifrt.AssertEq(k.outputPrefix, pfx, "key unchanged after writing into OutputPrefix()'s result")
	verifrt.Reach("end")
}
