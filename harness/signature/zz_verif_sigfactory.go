package signature

import (
	"errors"

	"github.com/tink-crypto/tink-go/v2/internal/verifh"
	"github.com/tink-crypto/tink-go/v2/internal/verifrt"
)

type idealSigner struct{}

func (idealSigner) Sign(data []byte) ([]byte, error) {
	x := byte(0)
	for _, b := range data {
		x ^= b
	}
	return []byte{0x5A, byte(len(data)), x}, nil
}

type idealVerifier struct{}

func (idealVerifier) Verify(sig, data []byte) error {
	want, _ := idealSigner{}.Sign(data)
	if len(sig) != len(want) {
		return errors.New("bad signature")
	}
	for i := range want {
		if sig[i] != want[i] {
			return errors.New("bad signature")
		}
	}
	return nil
}

func VerifH_c19_sigadapters() {
	prefix := verifrt.Bytes("prefix", 5*verifrt.Choice("hasprefix", 2))
	legacy := verifrt.Choice("legacy", 2) == 1
	s := &fullSignerAdapter{primitive: idealSigner{}, prefix: prefix, hasLegacyPrefix: legacy}
	v := &fullVerifierAdapter{primitive: idealVerifier{}, prefix: prefix, hasLegacyPrefix: legacy}
	data := verifh.Buf("data", verifrt.Choice("n", 3), "caller data buffer")
	sig, err := s.Sign(data)
	verifrt.Assert(err == nil, "Sign succeeds")
	verifrt.CheckProtected()
	verifrt.Assert(!verifrt.SameArray(sig, data), "signature shares no memory with the input")
	sbuf := make([]byte, len(sig), len(sig)+verifrt.Choice("sig.spare", 3))
	copy(sbuf, sig)
	verifrt.Protect(sbuf, "caller signature buffer")
	verifrt.Assert(v.Verify(sbuf, data) == nil, "Verify accepts (same LEGACY suffix on both sides)")
	verifrt.CheckProtected()
	verifrt.Reach("end")
}
