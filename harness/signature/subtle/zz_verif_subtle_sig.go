package subtle

// Harnesses for the public signature/subtle wrappers (own code of this package: parameter
// validation, key assembly, hashing, the DER / IEEE-P1363 framing switch, Ed25519 length checks).
// The signature schemes themselves are the ideal models: a signature is an uninterpreted
// function of (curve, public point, digest) resp. (public key, message) and verification
// accepts exactly that value. Curve arithmetic (ScalarBaseMult, IsOnCurve) is uninterpreted:
// crypto/elliptic.P256/P384/P521 are replaced by stub curves carrying crypto/elliptic's curve names.
// ECDSA harnesses are therefore engine-level (Summarize); the table harness and the Ed25519
// harnesses replay natively.

import (
	stdecdsa "crypto/ecdsa"
	stded "crypto/ed25519"
	"crypto/elliptic"
	"crypto/sha1"
	"crypto/sha256"
	"crypto/sha512"
	"errors"
	"hash"
	"io"
	"math/big"
	"slices"

	internalecdsa "github.com/tink-crypto/tink-go/v2/internal/signature/ecdsa"
	"github.com/tink-crypto/tink-go/v2/internal/verifh"
	"github.com/tink-crypto/tink-go/v2/internal/verifrt"
	"github.com/tink-crypto/tink-go/v2/internal/verifspec"
)

// ---------------------------------------------------------------------------------------
// The parameter table, stated independently.
//
// Tink's rule: the hash must not be weaker than the curve and only the pairs below are
// offered:  P-256 <- SHA-256 ; P-384 <- SHA-384, SHA-512 ; P-521 <- SHA-512.
// Encodings: DER and IEEE_P1363. Everything else is refused.

var (
	vHashNames  = [...]string{"SHA256", "SHA384", "SHA512", "SHA1", "SHA224", "", "SHA-256", "sha256", "SHA3-256"}
	vCurveNames = [...]string{"NIST_P256", "NIST_P384", "NIST_P521", "", "P-256", "NIST_P224", "secp256r1", "CURVE25519", "nist_p256"}
	vEncNames   = [...]string{"DER", "IEEE_P1363", "", "der", "ASN1", "IEEE_P1363 ", "UNKNOWN_ENCODING"}
)

// usable(h, c, e): indices into the three name lists.
func usable(h, c, e int) bool {
	if e > 1 {
		return false
	}
	switch c {
	case 0: // P-256: 128-bit curve
		return h == 0
	case 1: // P-384: 192-bit curve
		return h == 1 || h == 2
	case 2: // P-521: 256-bit curve
		return h == 2
	}
	return false
}

func VerifH_subtle_ecdsa_validate() {
	h := verifrt.Choice("hash", len(vHashNames))
	c := verifrt.Choice("curve", len(vCurveNames))
	e := verifrt.Choice("enc", len(vEncNames))
	err := ValidateECDSAParams(vHashNames[h], vCurveNames[c], vEncNames[e])
	verifrt.Assert((err == nil) == usable(h, c, e), "ValidateECDSAParams accepts exactly (P256,SHA256) (P384,SHA384) (P384,SHA512) (P521,SHA512) x {DER, IEEE_P1363}")
	verifrt.Observe("ok", err == nil)
	verifrt.Reach("end")
}

// ---------------------------------------------------------------------------------------
// Uninterpreted curves and ideal ECDSA

type vCurve struct {
	p    *elliptic.CurveParams
	size int // bytes per coordinate / scalar
}

var vCurves = [3]vCurve{
	{&elliptic.CurveParams{Name: "P-256", BitSize: 256}, 32},
	{&elliptic.CurveParams{Name: "P-384", BitSize: 384}, 48},
	{&elliptic.CurveParams{Name: "P-521", BitSize: 521}, 66},
}

func (c vCurve) Params() *elliptic.CurveParams { return c.p }

func (c vCurve) IsOnCurve(x, y *big.Int) bool {
	w := (c.size + 7) / 8 // 64-bit words per coordinate (no BitLen: its table lookup costs solver queries)
	if x.Sign() < 0 || y.Sign() < 0 || len(x.Bits()) > w || len(y.Bits()) > w {
		return false
	}
	return vOnCurve(c, x.FillBytes(make([]byte, c.size)), y.FillBytes(make([]byte, c.size)))
}

func vOnCurve(c vCurve, x, y []byte) bool { return verifrt.UF("ONCURVE_"+c.p.Name, 1, x, y)[0]&1 == 1 }

// vPub: the public point of a scalar: an uninterpreted function of the scalar. Only three bytes
// per coordinate vary (second, middle, last; the rest is fixed and the top byte non-zero, so
// math/big normalisation does not fork and the terms stay small).
func vPub(c vCurve, k []byte) (x, y []byte) {
	u := verifrt.UF("PUB_"+c.p.Name, 6, k)
	x, y = make([]byte, c.size), make([]byte, c.size)
	for i := range x {
		x[i], y[i] = 0x21, 0x43
	}
	x[1], x[c.size/2], x[c.size-1] = u[0], u[1], u[2]
	y[1], y[c.size/2], y[c.size-1] = u[3], u[4], u[5]
	verifrt.Assume(vOnCurve(c, x, y))
	return x, y
}

func (c vCurve) ScalarBaseMult(k []byte) (*big.Int, *big.Int) {
	x, y := vPub(c, k)
	return new(big.Int).SetBytes(x), new(big.Int).SetBytes(y)
}

func (c vCurve) Add(x1, y1, x2, y2 *big.Int) (*big.Int, *big.Int)      { panic("vCurve.Add") }
func (c vCurve) Double(x1, y1 *big.Int) (*big.Int, *big.Int)           { panic("vCurve.Double") }
func (c vCurve) ScalarMult(x, y *big.Int, k []byte) (*big.Int, *big.Int) { panic("vCurve.ScalarMult") }

var errV = errors.New("stub")

// ideal ECDSA: (r, s) is a function of (curve of the key object, Q of the key object, digest).
func vIdealRS(pub *stdecdsa.PublicKey, digest []byte) (r, s []byte) {
	c := pub.Curve.(vCurve)
	q := append(pub.X.FillBytes(make([]byte, c.size)), pub.Y.FillBytes(make([]byte, c.size))...)
	rs := verifrt.UF("ECDSA_"+c.p.Name, 2*c.size, q, digest)
	verifrt.Assume(verifrt.And(rs[0] != 0, rs[c.size] != 0)) // leading zeros of r, s: VerifH_p1363_*
	return rs[:c.size], rs[c.size:]
}

// the DER layer (encoding/asn1, reflection) is replaced by an injective fixed-width framing of
// the two integers (72 bytes each: room for every curve's scalars)
func vDERBig(r, s *big.Int) []byte {
	out := make([]byte, 1+2*72)
	out[0] = 0x30
	r.FillBytes(out[1:73])
	s.FillBytes(out[73:])
	return out
}

func vDER(r, s []byte) []byte { return vDERBig(new(big.Int).SetBytes(r), new(big.Int).SetBytes(s)) }

func vInstall() {
	// crypto/elliptic's curve objects -> the uninterpreted curves (subtle.GetCurve, ConvertCurveName and
	// the P1363 size table then run as real code on them)
	verifrt.Summarize("crypto/elliptic.P256", func() elliptic.Curve { return vCurves[0] })
	verifrt.Summarize("crypto/elliptic.P384", func() elliptic.Curve { return vCurves[1] })
	verifrt.Summarize("crypto/elliptic.P521", func() elliptic.Curve { return vCurves[2] })
	verifrt.Summarize("crypto/ecdsa.SignASN1", func(_ io.Reader, priv *stdecdsa.PrivateKey, digest []byte) ([]byte, error) {
		r, s := vIdealRS(&priv.PublicKey, digest)
		return vDER(r, s), nil
	})
	verifrt.Summarize("crypto/ecdsa.Sign", func(_ io.Reader, priv *stdecdsa.PrivateKey, digest []byte) (*big.Int, *big.Int, error) {
		r, s := vIdealRS(&priv.PublicKey, digest)
		return new(big.Int).SetBytes(r), new(big.Int).SetBytes(s), nil
	})
	verifrt.Summarize("internal/signature/ecdsa.ASN1Encode", func(sig *internalecdsa.Signature) ([]byte, error) {
		if sig.R.Sign() < 0 || sig.S.Sign() < 0 || len(sig.R.Bits()) > 9 || len(sig.S.Bits()) > 9 {
			return nil, errV
		}
		return vDERBig(sig.R, sig.S), nil
	})
	verifrt.Summarize("crypto/ecdsa.VerifyASN1", func(pub *stdecdsa.PublicKey, digest, sig []byte) bool {
		r, s := vIdealRS(pub, digest)
		return verifrt.EqBytes(sig, vDER(r, s))
	})
}

func vHash(i int) func() hash.Hash {
	switch i {
	case 0:
		return sha256.New
	case 1:
		return sha512.New384
	case 2:
		return sha512.New
	case 3:
		return sha1.New
	}
	return sha256.New224
}

// vScalar: a private scalar with a non-zero top byte and three symbolic bytes (math/big
// normalisation forks per leading zero word; leading zeros are absorbed by big.Int.SetBytes,
// which is not Tink code).
func vScalar(name string, size int, fill byte) []byte {
	b := make([]byte, size)
	for i := range b {
		b[i] = fill
	}
	h := verifrt.Bytes(name, 3)
	b[1], b[size/2], b[size-1] = h[0], h[1], h[2]
	return b
}

// ---------------------------------------------------------------------------------------
// Constructors

// NewECDSASigner on every (hash, curve, encoding) name triple: usable exactly per the table;
// the key object it assembles: curve = the named one, D = keyValue, Q = keyValue*G on that
// curve; hash = the named one.
func VerifH_subtle_ecdsa_signer_ctor() {
	verifrt.EngineOnly()
	vInstall()
	h := verifrt.Choice("hash", len(vHashNames))
	c := verifrt.Choice("curve", len(vCurveNames))
	e := verifrt.Choice("enc", len(vEncNames))
	size := 32
	if c < 3 {
		size = vCurves[c].size
	}
	d := vScalar("d", size, 0x5a)
	s, err := NewECDSASigner(vHashNames[h], vCurveNames[c], vEncNames[e], d)
	verifrt.Assert((err == nil) == usable(h, c, e), "NewECDSASigner yields a primitive exactly for the table's (hash, curve, encoding) triples")
	verifrt.Assert((s == nil) == (err != nil), "no primitive together with an error")
	if err != nil {
		verifrt.Reach("refused")
		return
	}
	cv := vCurves[c]
	verifrt.Assert(s.privateKey.Curve == elliptic.Curve(cv), "the key is on the named curve")
	verifrt.AssertEq(s.privateKey.D.FillBytes(make([]byte, size)), d, "D == keyValue (big endian)")
	x, y := vPub(cv, d)
	verifrt.AssertEq(s.privateKey.X.FillBytes(make([]byte, size)), x, "Q.x == (keyValue*G).x")
	verifrt.AssertEq(s.privateKey.Y.FillBytes(make([]byte, size)), y, "Q.y == (keyValue*G).y")
	verifrt.Assert(s.encoding == vEncNames[e], "encoding kept")
	m := verifrt.Bytes("m", 2)
	h1, h2 := s.hashFunc(), vHash(h)()
	h1.Write(m)
	h2.Write(m)
	verifrt.AssertEq(h1.Sum(nil), h2.Sum(nil), "hashFunc is the hash named by hashAlg")
	verifrt.Reach("accepted")
}

// NewECDSASignerFromPrivateKey: nil curve refused; the curve name of the key object decides.
func VerifH_subtle_ecdsa_signer_from_key() {
	verifrt.EngineOnly()
	vInstall()
	h := verifrt.Choice("hash", len(vHashNames))
	e := verifrt.Choice("enc", len(vEncNames))
	c := verifrt.Choice("curve", 5)
	priv := &stdecdsa.PrivateKey{D: big.NewInt(1)}
	switch c {
	case 0, 1, 2:
		priv.Curve = vCurves[c]
	case 3:
		priv.Curve = vCurve{&elliptic.CurveParams{Name: "P-224", BitSize: 224}, 28}
	}
	s, err := NewECDSASignerFromPrivateKey(vHashNames[h], vEncNames[e], priv)
	verifrt.Assert((err == nil) == usable(h, c, e), "usable exactly for a key on P-256/384/521 with a table (hash, encoding)")
	verifrt.Assert((s == nil) == (err != nil), "no primitive together with an error")
	if err == nil {
		verifrt.Assert(s.privateKey == priv && s.encoding == vEncNames[e], "key and encoding kept")
	}
	verifrt.Reach("end")
}

// NewECDSAVerifier: usable exactly when the triple is in the table AND the point is on the
// named curve (uninterpreted predicate: both outcomes are explored).
func VerifH_subtle_ecdsa_verifier_ctor() {
	verifrt.EngineOnly()
	vInstall()
	h := verifrt.Choice("hash", len(vHashNames))
	c := verifrt.Choice("curve", len(vCurveNames))
	e := verifrt.Choice("enc", len(vEncNames))
	size := 32
	if c < 3 {
		size = vCurves[c].size
	}
	x, y := vScalar("x", size, 0x21), vScalar("y", size, 0x43)
	v, err := NewECDSAVerifier(vHashNames[h], vCurveNames[c], vEncNames[e], x, y)
	on := c < 3 && vOnCurve(vCurves[min(c, 2)], x, y)
	verifrt.Assert((err == nil) == (usable(h, c, e) && on), "NewECDSAVerifier yields a primitive exactly for table triples with a point on the named curve")
	verifrt.Assert((v == nil) == (err != nil), "no primitive together with an error")
	if err != nil {
		verifrt.Reach("refused")
		return
	}
	verifrt.Assert(v.publicKey.Curve == elliptic.Curve(vCurves[c]), "the key is on the named curve")
	verifrt.AssertEq(v.publicKey.X.FillBytes(make([]byte, size)), x, "Q.x == x (big endian)")
	verifrt.AssertEq(v.publicKey.Y.FillBytes(make([]byte, size)), y, "Q.y == y (big endian)")
	verifrt.Assert(v.encoding == vEncNames[e], "encoding kept")
	m := verifrt.Bytes("m", 2)
	h1, h2 := v.hashFunc(), vHash(h)()
	h1.Write(m)
	h2.Write(m)
	verifrt.AssertEq(h1.Sum(nil), h2.Sum(nil), "hashFunc is the hash named by hashAlg")
	verifrt.Reach("accepted")
}

// Leading zero bytes in x / y / keyValue (big-endian integers) denote the same key.
func VerifH_subtle_ecdsa_leading_zeros() {
	verifrt.EngineOnly()
	vInstall()
	cv := vCurves[0]
	x, y := vScalar("x", 32, 0x21), vScalar("y", 32, 0x43)
	verifrt.Assume(vOnCurve(cv, x, y))
	pad := make([]byte, 1+verifrt.Choice("pad", 9))
	v, err := NewECDSAVerifier("SHA256", "NIST_P256", "DER", append(append([]byte{}, pad...), x...), append(append([]byte{}, pad...), y...))
	verifrt.Assert(err == nil, "zero-padded coordinates accepted")
	verifrt.AssertEq(v.publicKey.X.FillBytes(make([]byte, 32)), x, "same x")
	verifrt.AssertEq(v.publicKey.Y.FillBytes(make([]byte, 32)), y, "same y")
	verifrt.Reach("end")
}

// ---------------------------------------------------------------------------------------
// Sign / Verify framing

type vCombo struct {
	hash, curve int
}

var vCombos = [4]vCombo{{0, 0}, {1, 1}, {2, 1}, {2, 2}}

func vPair(enc, combo int) (s *ECDSASigner, v *ECDSAVerifier, cv vCurve, hf func() hash.Hash, x, y []byte) {
	k := vCombos[combo]
	cv = vCurves[k.curve]
	hf = vHash(k.hash)
	d := vScalar("d", cv.size, 0x5a)
	s, err := NewECDSASigner(vHashNames[k.hash], vCurveNames[k.curve], vEncNames[enc], d)
	verifrt.Assert(err == nil, "NewECDSASigner")
	x, y = vPub(cv, d)
	v, err = NewECDSAVerifier(vHashNames[k.hash], vCurveNames[k.curve], vEncNames[enc], x, y)
	verifrt.Assert(err == nil, "NewECDSAVerifier for the signer's public point")
	return
}

func vDigest(hf func() hash.Hash, msg []byte) []byte {
	h := hf()
	h.Write(msg)
	return h.Sum(nil)
}

// DER: Sign == ECDSA-DER(key, H(msg)) with H the named hash; the verifier for the same point
// accepts exactly that string (same-length alterations, truncations, extensions).
func VerifH_subtle_ecdsa_der() {
	verifrt.EngineOnly()
	vInstall()
	s, v, cv, hf, x, y := vPair(0, verifrt.Choice("combo", 4))
	msg := verifrt.Bytes("msg", verifrt.Choice("n", 3))
	sig, err := s.Sign(msg)
	verifrt.Assert(err == nil, "Sign succeeds")
	pub := &stdecdsa.PublicKey{Curve: cv, X: new(big.Int).SetBytes(x), Y: new(big.Int).SetBytes(y)}
	r, sc := vIdealRS(pub, vDigest(hf, msg))
	want := vDER(r, sc)
	verifrt.AssertEq(sig, want, "signature == ECDSA-DER under (curve, keyValue*G) over hashAlg(msg)")
	verifrt.Assert(v.Verify(sig, msg) == nil, "the matching verifier accepts")
	if verifrt.Choice("samelen", 2) == 0 {
		delta := verifrt.Bytes("delta", len(want))
		err := v.Verify(verifspec.XorDelta(want, delta), msg)
		verifrt.Assert((err == nil) == verifrt.EqBytes(delta, make([]byte, len(want))), "Verify accepts exactly the genuine signature bytes (same length)")
	} else {
		l := [...]int{0, 1, len(want) - 1, len(want) + 1}[verifrt.Choice("len", 4)]
		cand := verifrt.Bytes("cand", l)
		for i := 0; i < l && i < len(want); i++ {
			cand[i] = want[i]
		}
		verifrt.Assert(v.Verify(cand, msg) != nil, "truncated / extended signature rejected, no panic")
	}
	verifrt.Reach("end")
}

// IEEE P1363: Sign == r || s, each left-padded to the curve's scalar size; Verify accepts
// exactly that among all strings of the same length (P-256; top bytes of r, s kept non-zero),
// rejects every other length incl. the zero-padded re-encodings at the other curves' sizes.
func VerifH_subtle_ecdsa_p1363_p256() { vP1363(0) }
func VerifH_subtle_ecdsa_p1363_p384_sha384() { vP1363(1) }
func VerifH_subtle_ecdsa_p1363_p384_sha512() { vP1363(2) }
func VerifH_subtle_ecdsa_p1363_p521() { vP1363(3) }

func vP1363(combo int) {
	verifrt.EngineOnly()
	vInstall()
	s, v, cv, hf, x, y := vPair(1, combo)
	msg := verifrt.Bytes("msg", verifrt.Choice("n", 2))
	sig, err := s.Sign(msg)
	verifrt.Assert(err == nil, "Sign succeeds")
	pub := &stdecdsa.PublicKey{Curve: cv, X: new(big.Int).SetBytes(x), Y: new(big.Int).SetBytes(y)}
	r, sc := vIdealRS(pub, vDigest(hf, msg))
	want := slices.Concat(r, sc)
	verifrt.Assert(len(sig) == 2*cv.size, "fixed signature size 2 * scalar size")
	verifrt.AssertEq(sig, want, "signature == r || s (fixed width) under (curve, keyValue*G) over hashAlg(msg)")
	verifrt.Assert(v.Verify(sig, msg) == nil, "the matching verifier accepts")
	switch verifrt.Choice("cand", 3) {
	case 0:
		if cv.size != 32 {
			return // same-length alterations: P-256 only (big.Int normalisation forks per word)
		}
		delta := verifrt.Bytes("delta", len(want))
		verifrt.Assume(verifrt.And(delta[0] != want[0], delta[cv.size] != want[cv.size]))
		err := v.Verify(verifspec.XorDelta(want, delta), msg)
		verifrt.Assert((err == nil) == verifrt.EqBytes(delta, make([]byte, len(want))), "Verify accepts exactly the genuine signature bytes (same length)")
	case 1:
		l := [...]int{0, 1, len(want) - 1, len(want) + 1, len(want) + 2}[verifrt.Choice("len", 5)]
		cand := verifrt.Bytes("cand", l)
		for i := 0; i < l && i < len(want); i++ {
			cand[i] = want[i]
		}
		verifrt.Assert(v.Verify(cand, msg) != nil, "truncated / extended signature rejected, no panic")
	default:
		other := [...]int{64, 96, 132, 134}[verifrt.Choice("other", 4)]
		verifrt.Assume(other > 2*cv.size)
		pad := make([]byte, (other-2*cv.size)/2)
		verifrt.Assert(v.Verify(slices.Concat(pad, r, pad, sc), msg) != nil, "zero-padded re-encoding of the genuine (r, s) at another size rejected")
	}
	verifrt.Reach("end")
}

// ---------------------------------------------------------------------------------------
// ECDSASignature encode / decode

// DecodeECDSASignature(IEEE_P1363) accepts exactly the three fixed sizes; r, s are the halves;
// EncodeECDSASignature(IEEE_P1363, that curve) is its inverse; a curve with a smaller size
// refuses the scalars; unknown encoding names are refused by both.
func VerifH_subtle_ecdsa_sig_codec() {
	l := verifrt.Choice("len", 141)
	b := verifrt.Bytes("sig", l)
	if l == 64 || l == 96 || l == 132 {
		verifrt.Assume(b[0] != 0 && b[l/2] != 0) // leading-zero scalars: VerifH_p1363_decode_*
	}
	bad := [...]string{"", "der", "ieee_p1363", "RAW"}[verifrt.Choice("bad", 4)]
	sg, err := DecodeECDSASignature(b, bad)
	verifrt.Assert(err != nil && sg == nil, "unknown encoding refused by DecodeECDSASignature")
	sg, err = DecodeECDSASignature(b, "IEEE_P1363")
	verifrt.Assert((err == nil) == (l == 64 || l == 96 || l == 132), "IEEE_P1363 decoding accepts exactly the lengths 64, 96, 132")
	if err != nil {
		verifrt.Assert(sg == nil, "no signature on error")
		verifrt.Reach("rejected")
		return
	}
	verifrt.AssertEq(sg.R.FillBytes(make([]byte, l/2)), b[:l/2], "r == first half")
	verifrt.AssertEq(sg.S.FillBytes(make([]byte, l/2)), b[l/2:], "s == second half")
	name := map[int]string{64: "P-256", 96: "P-384", 132: "P-521"}[l]
	enc, err := sg.EncodeECDSASignature("IEEE_P1363", name)
	verifrt.Assert(err == nil, "re-encoding succeeds")
	verifrt.AssertEq(enc, b, "Encode(Decode(b)) == b")
	_, err = sg.EncodeECDSASignature(bad, name)
	verifrt.Assert(err != nil, "unknown encoding refused by EncodeECDSASignature")
	_, err = sg.EncodeECDSASignature("IEEE_P1363", "P-224")
	verifrt.Assert(err != nil, "unknown curve refused")
	if l > 64 {
		_, err = sg.EncodeECDSASignature("IEEE_P1363", "P-256")
		verifrt.Assert(err != nil, "scalars that do not fit the curve's size are refused")
	}
	n := NewECDSASignature(sg.R, sg.S)
	verifrt.Assert(n.R == sg.R && n.S == sg.S, "NewECDSASignature keeps r, s")
	verifrt.Reach("accepted")
}

// ---------------------------------------------------------------------------------------
// Ed25519

// NewED25519Signer: exactly 32-byte seeds; signatures are Ed25519(seed-derived key, data), 64 bytes.
func VerifH_subtle_ed25519_signer() {
	n := verifrt.Choice("kl", 70)
	seed := verifrt.Bytes("seed", n)
	s, err := NewED25519Signer(seed)
	verifrt.Assert((err == nil) == (n == 32), "NewED25519Signer accepts exactly 32-byte seeds")
	verifrt.Assert((s == nil) == (err != nil), "no primitive together with an error")
	if err != nil {
		verifrt.Reach("refused")
		return
	}
	msg := verifrt.Bytes("msg", verifrt.Choice("n", 3))
	sig, err := s.Sign(msg)
	verifrt.Assert(err == nil && len(sig) == 64, "Sign succeeds with a 64-byte signature")
	priv := stded.NewKeyFromSeed(seed)
	verifrt.AssertEq(sig, stded.Sign(priv, msg), "signature == Ed25519(NewKeyFromSeed(seed), msg)")
	// the FromPrivateKey constructor is the same primitive
	s2, err := NewED25519SignerFromPrivateKey(&priv)
	verifrt.Assert(err == nil && s2 != nil, "NewED25519SignerFromPrivateKey")
	sig2, err := s2.Sign(msg)
	verifrt.Assert(err == nil, "Sign (from private key)")
	verifrt.AssertEq(sig2, sig, "both constructors give the same signer")
	// verifier made from the public half
	pub := []byte(priv[32:])
	v, err := NewED25519Verifier(append([]byte{}, pub...))
	verifrt.Assert(err == nil && v != nil, "NewED25519Verifier")
	verifrt.Assert(v.Verify(sig, msg) == nil, "the matching verifier accepts")
	pk := stded.PublicKey(append([]byte{}, pub...))
	v2, err := NewED25519VerifierFromPublicKey(&pk)
	verifrt.Assert(err == nil && v2 != nil && v2.Verify(sig, msg) == nil, "NewED25519VerifierFromPublicKey gives the same verifier")
	verifrt.Observe("sig", sig)
	verifrt.Reach("end")
}

// Verify accepts exactly the genuine 64 bytes; every other length is refused without a panic.
func VerifH_subtle_ed25519_verify() {
	seed := verifrt.Bytes("seed", 32)
	s, err := NewED25519Signer(seed)
	verifrt.Assert(err == nil, "NewED25519Signer")
	priv := stded.NewKeyFromSeed(seed)
	v, err := NewED25519Verifier(append([]byte{}, priv[32:]...))
	verifrt.Assert(err == nil, "NewED25519Verifier")
	msg := verifrt.Bytes("msg", verifrt.Choice("n", 3))
	want, err := s.Sign(msg)
	verifrt.Assert(err == nil, "Sign")
	if verifrt.Choice("samelen", 2) == 0 {
		delta := verifrt.Bytes("delta", 64)
		err := v.Verify(verifspec.XorDelta(want, delta), msg)
		verifrt.Assert((err == nil) == verifrt.EqBytes(delta, make([]byte, 64)), "Verify accepts exactly the genuine signature bytes")
	} else {
		l := [...]int{0, 1, 32, 63, 65, 66, 128}[verifrt.Choice("len", 7)]
		cand := verifrt.Bytes("cand", l)
		for i := 0; i < l && i < 64; i++ {
			cand[i] = want[i]
		}
		verifrt.Assert(v.Verify(cand, msg) != nil, "wrong-length signature rejected, no panic")
	}
	verifrt.Reach("end")
}

func edPair() (*ED25519Signer, *ED25519Verifier, stded.PrivateKey) {
	seed := verifrt.Bytes("seed", 32)
	s, err := NewED25519Signer(seed)
	verifrt.Assert(err == nil, "NewED25519Signer")
	priv := stded.NewKeyFromSeed(seed)
	v, err := NewED25519Verifier(append([]byte{}, priv[32:]...))
	verifrt.Assert(err == nil, "NewED25519Verifier")
	return s, v, priv
}

func VerifH_c19_subtle_ed25519() {
	s, v, _ := edPair()
	verifh.CheckSignNoWrite(s, v, 2, true, []byte(*s.privateKey), []byte(*v.publicKey))
}

// The seed handed to NewED25519Signer is neither written nor kept.
func VerifH_c19_subtle_ed25519_seed() {
	seed := verifh.Buf("seed", 32, "caller seed buffer")
	seed0 := append([]byte{}, seed...)
	s, err := NewED25519Signer(seed)
	verifrt.Assert(err == nil, "NewED25519Signer")
	verifrt.CheckProtected()
	verifrt.Assert(!verifrt.SameArray([]byte(*s.privateKey), seed), "the signer does not keep the caller's seed slice")
	verifh.Unprotect(seed)
	verifh.Scribble(seed)
	msg := verifrt.Bytes("msg", 1)
	sig, err := s.Sign(msg)
	verifrt.Assert(err == nil, "Sign")
	verifrt.AssertEq(sig, stded.Sign(stded.NewKeyFromSeed(seed0), msg), "overwriting the caller's seed after construction does not change signatures")
	verifrt.Reach("end")
}

func VerifH_c18_subtle_ed25519() {
	verifrt.EngineOnly()
	s, v, _ := edPair()
	verifh.CheckSignShared(s, v)
}

func VerifH_c19_subtle_ecdsa() {
	verifrt.EngineOnly()
	vInstall()
	s, v, _, _, _, _ := vPair(verifrt.Choice("enc", 2), 0)
	verifh.CheckSignNoWrite(s, v, 1, true)
}

func VerifH_c18_subtle_ecdsa() {
	verifrt.EngineOnly()
	vInstall()
	s, v, _, _, _, _ := vPair(verifrt.Choice("enc", 2), 0)
	verifh.CheckSignShared(s, v)
}
