package rsassapss

import (
	"google.golang.org/protobuf/proto"

	"github.com/tink-crypto/tink-go/v2/internal/verifh"
	"github.com/tink-crypto/tink-go/v2/internal/verifrt"
	commonpb "github.com/tink-crypto/tink-go/v2/proto/common_go_proto"
	pb "github.com/tink-crypto/tink-go/v2/proto/rsa_ssa_pss_go_proto"
	tinkpb "github.com/tink-crypto/tink-go/v2/proto/tink_go_proto"
)

// klExpValue is the big-endian integer e as (value, fits): fits = it has at most 4
// significant bytes (everything the rule below allows is below 2^31).
func klExpValue(e []byte) (v uint64, fits bool) {
	fits = true
	for i, b := range e {
		if i < len(e)-4 {
			fits = verifrt.And(fits, b == 0)
		} else {
			v = v<<8 | uint64(b)
		}
	}
	return
}

// the public exponent rule of the key type, on the INTEGER the field encodes
func klExpOK(e []byte) bool {
	v, fits := klExpValue(e)
	return verifrt.And(fits, verifrt.And(v >= 65537, verifrt.And(v <= 1<<31-1, v&1 == 1)))
}

// klFocus: one group of fields is hostile at a time (numbering is the caller's), the others
// take fixed valid values; the envelope, versions and structure are hostile throughout.
// allAtOnce (thorough tier of the public-key parser): every group is hostile at once (-1).
func klFocus(h *verifh.Hostile, groups int, allAtOnce bool) int {
	if verifrt.Thorough() && allAtOnce {
		return -1
	}
	return h.Shape("focus", groups)
}

func klHostileHashes(on bool) (sigHash, mgfHash, salt int32) {
	if !on {
		return 3, 3, 32
	}
	return verifrt.Int32("sighash"), verifrt.Int32("mgfhash"), verifrt.Int32("salt")
}

// klHostileExp: 0, 3, 4 or 8 symbolic bytes (wide: 9 bytes - bits beyond 2^64)
func klHostileExp(h *verifh.Hostile, on, wide bool) []byte {
	if wide {
		// x * 2^64 + y * 2^24 + (3 low bytes)
		b := verifrt.Bytes("ewide", 5)
		return []byte{b[0], 0, 0, 0, 0, b[1], b[2], b[3], b[4]}
	}
	if !on {
		return []byte{1, 0, 1}
	}
	return verifrt.Bytes("e", h.Len("elen", 3, 0, 4, 8))
}

// klHostileModulus: n as 256 bytes with a symbolic top byte (2048 bits iff top >= 0x80),
// the same with a leading zero byte, or 255 bytes (at most 2040 bits).
func klHostileModulus(h *verifh.Hostile, on bool) []byte {
	sel := 0
	if on {
		sel = h.Shape("nshape", 3)
	}
	n := make([]byte, [...]int{256, 257, 255}[sel])
	for i := range n {
		n[i] = 0x11
	}
	top := 0
	if sel == 1 {
		n[0], top = 0, 1
	}
	n[top], n[len(n)-1] = 0x91, verifrt.Byte("nlast")
	if on {
		n[top] = verifrt.Byte("ntop")
	}
	return n
}

// VerifH_parse_rsassapss_public: publicKeyParser.ParseKey on hostile field values
// (RsaSsaPssPublicKey{version, params{sig_hash, mgf1_hash, salt_length}, n, e}). The rule:
// version 0; n at least 2048 bits; e (as an integer) odd, 65537 <= e < 2^31; sig_hash SHA256
// (3) / SHA384 (2) / SHA512 (4) and mgf1_hash the same; salt_length > 0 (0 is not
// representable, see the known finding); ASYMMETRIC_PUBLIC; the public key type URL; prefix
// TINK / CRUNCHY / LEGACY / RAW; RAW => id 0. No stubs: natively replayable.
func VerifH_parse_rsassapss_public() { parsePublic(false) }

// The same with a public exponent field of 9 bytes, i.e. an integer beyond 2^64 in general.
// KNOWN TO FAIL on the tree this harness was written for: the parser converts the field with
// big.Int.Int64() without checking IsInt64() (the JWT RSA parsers do check), so
// e = 2^64 + 65537 is accepted as 65537. See the report.
func VerifH_parse_rsassapss_public_wideexp() { parsePublic(true) }

func parsePublic(wide bool) {
	h := verifh.NewHostile()
	h.ForeignURL = signerTypeURL
	version := verifrt.Uint32("version")
	f := klFocus(h, 3, true)
	if wide {
		f = 0
	}
	e := klHostileExp(h, f == 0 || f < 0, wide)
	n := klHostileModulus(h, f == 1 || f < 0)
	sigHash, mgfHash, salt := klHostileHashes(f == 2 || f < 0)
	msg := &pb.RsaSsaPssPublicKey{Version: version, N: n, E: e, Params: &pb.RsaSsaPssParams{SigHash: commonpb.HashType(sigHash), Mgf1Hash: commonpb.HashType(mgfHash), SaltLength: salt}}
	shape := h.Shape("shape", 3)
	structOK := shape == 0
	var value []byte
	if shape == 2 {
		msg.Params = nil
	}
	if shape != 1 {
		var err error
		value, err = proto.Marshal(msg)
		verifrt.Assert(err == nil, "marshal")
	}
	if !h.Wrap(verifierTypeURL, value) {
		return
	}
	k, err := (&publicKeyParser{}).ParseKey(h.KS)
	and, or := verifrt.And, verifrt.Or
	hashOK := and(or(sigHash == 3, or(sigHash == 2, sigHash == 4)), mgfHash == sigHash)
	body := and(and(structOK, version == 0), and(and(klBitLen(n) >= 2048, klExpOK(e)), and(hashOK, salt > 0)))
	valid := and(h.EnvelopeValid(tinkpb.KeyData_ASYMMETRIC_PUBLIC, true), body)
	verifrt.Assert(verifrt.Implies(err == nil, valid), "accepted => version 0, modulus >= 2048 bits, 65537 <= e < 2^31 odd, SHA-256/384/512 with the same MGF1 hash, salt length > 0, ASYMMETRIC_PUBLIC, public key type URL, known prefix, RAW => id 0")
	verifrt.Assert(verifrt.Implies(valid, err == nil), "every valid RSA-SSA-PSS public key is accepted")
	if err != nil {
		verifrt.Reach("rejected")
		return
	}
	h.CheckParsedEnvelope(k)
	ak, ok := k.(*PublicKey)
	verifrt.Assert(ok && ak != nil, "parsed key is *rsassapss.PublicKey")
	p := ak.Parameters().(*Parameters)
	ev, _ := klExpValue(e)
	wantHash := map[int32]HashType{3: SHA256, 2: SHA384, 4: SHA512}[sigHash]
	verifrt.Assert(p.ModulusSizeBits() == klBitLen(n) && uint64(p.PublicExponent()) == ev && p.SigHashType() == wantHash && p.MGF1HashType() == wantHash && p.SaltLengthBytes() == int(salt), "parameters mirror the message")
	verifrt.Assert(p.Variant() == [...]Variant{VariantTink, VariantCrunchy, VariantLegacy, VariantNoPrefix}[h.Kind()], "variant mirrors the prefix type")
	verifrt.AssertEq(ak.Modulus(), klStrip(n), "modulus = n in minimal form")
	verifrt.AssertEq(ak.OutputPrefix(), h.WantPrefix(), "output prefix")
	verifrt.Reach("accepted")
}

// VerifH_parse_rsassapss_private: privateKeyParser.ParseKey on hostile field values
// (RsaSsaPssPrivateKey{version, public_key, d, p, q, dp, dq, crt}) over the uninterpreted RSA
// of zz_verif_keylevel.go. In addition to the public key's rule: both versions 0; crypto/rsa
// validates (n, e, d, p, q); e == 65537 (a signer exists for no other exponent); dp, dq, crt
// equal crypto/rsa's precomputed values (leading zeros tolerated); ASYMMETRIC_PRIVATE; the
// private key type URL.
func VerifH_parse_rsassapss_private() { parsePrivate(false) }

// 9-byte public exponent field: KNOWN TO FAIL like VerifH_parse_rsassapss_public_wideexp
// (e = 2^64 + 65537 is accepted as 65537).
func VerifH_parse_rsassapss_private_wideexp() { parsePrivate(true) }

func parsePrivate(wide bool) {
	verifrt.EngineOnly()
	l := &pssLog{}
	klInstallRSA(l)
	h := verifh.NewHostile()
	h.ForeignURL = verifierTypeURL
	version, pubVersion := verifrt.Uint32("version"), verifrt.Uint32("pubversion")
	// focus groups of the quick tier: 0 the envelope (material type, prefix type, id, type URL;
	// body valid up to versions / structure), 1 the public exponent, 2 hashes and salt, 3 leading
	// zeros of d / p / q, 4 the dp / dq / crt fields; groups 1..4 under a TINK envelope
	// (thorough tier: any envelope in every group, and group 5: the modulus). The modulus is
	// also hostile in VerifH_parse_rsassapss_public and VerifH_keylevel_rsassapss_publickey.
	groups := 5
	if verifrt.Thorough() {
		groups = 6 // plus 5: the modulus; no envelope restriction
	}
	f := klFocus(h, groups, false)
	if wide {
		f = 1
	}
	if f > 0 && !verifrt.Thorough() {
		verifrt.Assume(h.Prefix == tinkpb.OutputPrefixType_TINK && h.Material == tinkpb.KeyData_ASYMMETRIC_PRIVATE)
	}
	e := klHostileExp(h, f == 1, wide)
	n := klHostileModulus(h, f == 5)
	sigHash, mgfHash, salt := klHostileHashes(f == 2)
	lead := 0
	if f == 3 {
		lead = h.Shape("lead", 2)
	}
	p, q, d := klInt("p", 128, lead, 0xa3), klInt("q", 128, lead, 0xb5), klInt("d", 256, lead, 0x47)
	// dp, dq, crt: 8-byte values (the model's precomputed values are 8 bytes), optionally with a
	// leading zero byte
	crtLead := 0
	if f == 4 {
		crtLead = h.Shape("crtlead", 2)
	}
	crtField := func(name string) []byte {
		return append(make([]byte, crtLead), verifrt.Bytes(name, 8)...)
	}
	dp, dq, crt := crtField("dp"), crtField("dq"), crtField("crt")
	msg := &pb.RsaSsaPssPrivateKey{Version: version, D: d, P: p, Q: q, Dp: dp, Dq: dq, Crt: crt,
		PublicKey: &pb.RsaSsaPssPublicKey{Version: pubVersion, N: n, E: e, Params: &pb.RsaSsaPssParams{SigHash: commonpb.HashType(sigHash), Mgf1Hash: commonpb.HashType(mgfHash), SaltLength: salt}}}
	shape := h.Shape("shape", 4)
	structOK := shape == 0
	var value []byte
	switch shape {
	case 2:
		msg.PublicKey = nil
	case 3:
		msg.PublicKey.Params = nil
	}
	if shape != 1 {
		var err error
		value, err = proto.Marshal(msg)
		verifrt.Assert(err == nil, "marshal")
	}
	if !h.Wrap(signerTypeURL, value) {
		return
	}
	k, err := (&privateKeyParser{}).ParseKey(h.KS)
	and, or := verifrt.And, verifrt.Or
	ev, fits := klExpValue(e)
	hashOK := and(or(sigHash == 3, or(sigHash == 2, sigHash == 4)), mgfHash == sigHash)
	ref := klRef(klStrip(n), 65537, d, p, q)
	crtOK := and(verifrt.EqBytes(dp[crtLead:], klCRT("RSADP", ref)), and(verifrt.EqBytes(dq[crtLead:], klCRT("RSADQ", ref)), verifrt.EqBytes(crt[crtLead:], klCRT("RSAQINV", ref))))
	body := and(and(structOK, and(version == 0, pubVersion == 0)), and(and(klBitLen(n) >= 2048, and(fits, ev == 65537)), and(hashOK, salt > 0)))
	valid := and(and(h.EnvelopeValid(tinkpb.KeyData_ASYMMETRIC_PRIVATE, true), body), and(klRSAValid(ref), crtOK))
	verifrt.Assert(verifrt.Implies(err == nil, valid), "accepted => versions 0, modulus >= 2048 bits, e == 65537, allowed hashes, salt > 0, crypto/rsa validates (n, e, d, p, q), dp/dq/crt are the precomputed values, ASYMMETRIC_PRIVATE, private key type URL, known prefix, RAW => id 0")
	verifrt.Assert(verifrt.Implies(valid, err == nil), "every valid RSA-SSA-PSS private key is accepted")
	if err != nil {
		verifrt.Reach("rejected")
		return
	}
	h.CheckParsedEnvelope(k)
	ak, ok := k.(*PrivateKey)
	verifrt.Assert(ok && ak != nil, "parsed key is *rsassapss.PrivateKey")
	verifrt.AssertEq(ak.privateKey.N.Bytes(), klStrip(n), "rsa.PrivateKey.N = n")
	verifrt.AssertEq(ak.privateKey.D.Bytes(), d[lead:], "rsa.PrivateKey.D = d")
	verifrt.AssertEq(ak.privateKey.Primes[0].Bytes(), p[lead:], "rsa.PrivateKey.Primes[0] = p")
	verifrt.AssertEq(ak.privateKey.Primes[1].Bytes(), q[lead:], "rsa.PrivateKey.Primes[1] = q")
	verifrt.Assert(ak.privateKey.E == 65537, "rsa.PrivateKey.E = 65537")
	verifrt.AssertEq(ak.OutputPrefix(), h.WantPrefix(), "output prefix")
	verifrt.Reach("accepted")
}
