package rsassapss

import (
	"github.com/tink-crypto/tink-go/v2/internal/verifh"
	"github.com/tink-crypto/tink-go/v2/internal/verifrt"
)

// Parameters only (keys need RSA arithmetic). Modulus size {2048, 2049, 3072, 4096, 2^31-1}
// x hash {SHA256,SHA384,SHA512} (MGF1 hash == signature hash is the only valid choice) x
// public exponent {65537 (min), 65539, 2^31-1 (max)} x salt length {0, 1, 32, 64, 2^31-1} x
// variant {TINK, CRUNCHY, LEGACY, NO_PREFIX}.
func VerifH_serialparams_rsassapss() {
	bits := [...]int{2048, 2049, 3072, 4096, 1<<31 - 1}[verifrt.Choice("bits", 5)]
	hash := [...]HashType{SHA256, SHA384, SHA512}[verifrt.Choice("hash", 3)]
	e := [...]int{f4, f4 + 2, maxExponent}[verifrt.Choice("e", 3)]
	salt := [...]int{0, 1, 32, 64, 1<<31 - 1}[verifrt.Choice("salt", 5)]
	kind := verifrt.Choice("variant", 4)
	v := [...]Variant{VariantTink, VariantCrunchy, VariantLegacy, VariantNoPrefix}[kind]
	params, err := NewParameters(ParametersValues{ModulusSizeBits: bits, SigHashType: hash, MGF1HashType: hash, PublicExponent: e, SaltLengthBytes: salt}, v)
	verifrt.Assert(err == nil, "NewParameters")
	verifh.CheckParamsRoundTrip(params, &parametersSerializer{}, &parametersParser{}, kind, signerTypeURL)
}
