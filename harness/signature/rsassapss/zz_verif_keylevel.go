package rsassapss

import (
	"crypto"
	"crypto/rsa"
	"crypto/sha256"
	"crypto/sha512"
	"encoding/binary"
	"errors"
	"hash"
	"io"
	"math/big"
	"slices"

	"github.com/tink-crypto/tink-go/v2/insecuresecretdataaccess"
	"github.com/tink-crypto/tink-go/v2/internal/internalapi"
	"github.com/tink-crypto/tink-go/v2/internal/verifh"
	"github.com/tink-crypto/tink-go/v2/internal/verifrt"
	"github.com/tink-crypto/tink-go/v2/internal/verifspec"
	tinkpb "github.com/tink-crypto/tink-go/v2/proto/tink_go_proto"
	"github.com/tink-crypto/tink-go/v2/secretdata"
)

// ---------------------------------------------------------------------------------------
// The KEY-OBJECT level of RSA-SSA-PSS: Parameters, PublicKey, PrivateKey and what NewSigner /
// NewVerifier hand to crypto/rsa. RSA arithmetic is replaced by
//	RSAVALID(n, e, d, p, q)      crypto/rsa (*PrivateKey).Validate       (uninterpreted predicate)
//	DP/DQ/QINV(d, p, q)          crypto/rsa (*PrivateKey).Precompute     (uninterpreted functions)
//	PSSSIG(n, e, hash, salt, digest)  crypto/rsa SignPSS / VerifyPSS     (ideal signature scheme)
// natively (replays) the real crypto/rsa runs on a fixed real 2048-bit key.
// ---------------------------------------------------------------------------------------

var tok = insecuresecretdataaccess.Token{}

func klSD(b []byte) secretdata.Bytes { return secretdata.NewBytesFromData(b, tok) }

var errKL = errors.New("crypto/rsa model: error")

// ---- (1) NewParameters over all ints

func VerifH_keylevel_rsassapss_params() {
	bits, e, salt := verifrt.Int("bits"), verifrt.Int("e"), verifrt.Int("salt")
	sigHash, mgfHash := HashType(verifrt.Int("sighash")), HashType(verifrt.Int("mgfhash"))
	variant := Variant(verifrt.IntRange("variant", 0, 4)) // the enum's range, see _variantrange below
	p, err := NewParameters(ParametersValues{ModulusSizeBits: bits, SigHashType: sigHash, MGF1HashType: mgfHash, PublicExponent: e, SaltLengthBytes: salt}, variant)
	// the rule (Tink's RSA-SSA-PSS key restrictions): modulus at least 2048 bits; public
	// exponent odd, at least F4 = 65537 and below 2^31 (what crypto/rsa can hold); the
	// signature hash is SHA-256 (1), SHA-384 (2) or SHA-512 (3) and MGF1 uses the same hash;
	// salt length not negative; variant TINK / CRUNCHY / LEGACY / NO_PREFIX (1..4)
	and := verifrt.And
	valid := and(and(bits >= 2048, and(e >= 65537, and(e <= 1<<31-1, e&1 == 1))),
		and(and(sigHash >= 1, sigHash <= 3), and(mgfHash == sigHash, and(salt >= 0, variant >= 1))))
	verifrt.Assert((err == nil) == valid, "NewParameters accepts exactly: modulus >= 2048 bits, 65537 <= e < 2^31 odd, SHA-256/384/512 with MGF1 hash == signature hash, salt >= 0, a known variant")
	if err != nil {
		verifrt.Assert(p == nil, "error => nil parameters")
		verifrt.Reach("rejected")
		return
	}
	verifrt.Assert(p.ModulusSizeBits() == bits && p.PublicExponent() == e && p.SaltLengthBytes() == salt && p.SigHashType() == sigHash && p.MGF1HashType() == mgfHash && p.Variant() == variant, "accessors return the constructor's arguments")
	verifrt.Assert(p.HasIDRequirement() == (variant != VariantNoPrefix), "id requirement <=> variant is not NO_PREFIX")
	verifrt.Reach("accepted")
}

// variants outside the enum: NewParameters only refuses VariantUnknown (observation, recorded
// in DESIGN.md section 6), but no key can be made from such parameters.
func VerifH_keylevel_rsassapss_variantrange() {
	variant := Variant(verifrt.Int("variant"))
	verifrt.Assume(variant < 0 || variant > 4)
	p, err := NewParameters(ParametersValues{ModulusSizeBits: 2048, SigHashType: SHA256, MGF1HashType: SHA256, PublicExponent: f4, SaltLengthBytes: 32}, variant)
	if err == nil {
		_, kerr := NewPublicKey(klRealN(), 0, p)
		verifrt.Assert(kerr != nil, "parameters with a variant outside the enum never yield a key")
		verifrt.Reach("params-accepted-key-refused")
		return
	}
	verifrt.Reach("params-refused")
}

// ---- (2) NewPublicKey

// klBitLen is the bit length of the big-endian integer b.
func klBitLen(b []byte) int {
	for i, v := range b {
		if v != 0 {
			n := 8 * (len(b) - 1 - i)
			for k := 7; k >= 0; k-- {
				if v >= 1<<uint(k) {
					return n + k + 1
				}
			}
		}
	}
	return 0
}

func klStrip(b []byte) []byte {
	for len(b) > 0 && b[0] == 0 {
		b = b[1:]
	}
	return b
}

func klHashPick() (HashType, crypto.Hash, func() hash.Hash, int) {
	switch verifrt.Choice("hash", 3) {
	case 0:
		return SHA256, crypto.SHA256, sha256.New, 32
	case 1:
		return SHA384, crypto.SHA384, sha512.New384, 48
	}
	return SHA512, crypto.SHA512, sha512.New, 64
}

func klVariantPick() (Variant, int) {
	kind := verifrt.Choice("variant", 4)
	return [...]Variant{VariantTink, VariantCrunchy, VariantLegacy, VariantNoPrefix}[kind], kind
}

func VerifH_keylevel_rsassapss_publickey() {
	var bits int
	if verifrt.Thorough() {
		bits = [...]int{2048, 2049, 2050, 2055, 2056, 3072, 4096}[verifrt.Choice("bitsT", 7)]
	} else {
		bits = [...]int{2048, 2049, 2056, 3072}[verifrt.Choice("bits", 4)]
	}
	// TINK and NO_PREFIX here (the id rule); all four variants: VerifH_keylevel_rsassapss_privatekey
	kind := [...]int{0, 3}[verifrt.Choice("variant", 2)]
	variant := [...]Variant{VariantTink, VariantCrunchy, VariantLegacy, VariantNoPrefix}[kind]
	id := verifrt.Uint32("id") // arbitrary also for NO_PREFIX
	params, err := NewParameters(ParametersValues{ModulusSizeBits: bits, SigHashType: SHA256, MGF1HashType: SHA256, PublicExponent: f4, SaltLengthBytes: 32}, variant)
	verifrt.Assert(err == nil, "NewParameters")
	// modulus: 0 or 2 leading zero bytes, then a symbolic top byte (any value, also zero), fixed
	// filler, symbolic last byte; one byte shorter / exact / one byte longer than the
	// parameters' size
	body := (bits+7)/8 + verifrt.Choice("bodylen", 3) - 1
	lead := [...]int{0, 2}[verifrt.Choice("lead", 2)]
	mod := make([]byte, lead+body)
	for i := lead; i < len(mod); i++ {
		mod[i] = 0x11
	}
	mod[lead], mod[len(mod)-1] = verifrt.Byte("top"), verifrt.Byte("last")
	mod0 := append([]byte{}, mod...)
	k, err := NewPublicKey(mod, id, params)
	want := klBitLen(mod0) == bits && (kind != 3 || id == 0)
	verifrt.Assert((err == nil) == want, "NewPublicKey accepts exactly a modulus whose bit length is the parameters' modulus size (and id 0 if NO_PREFIX)")
	if err != nil {
		verifrt.Assert(k == nil, "error => nil key")
		verifrt.Reach("rejected")
		return
	}
	verifrt.AssertEq(k.Modulus(), klStrip(mod0), "Modulus() is the modulus in minimal big-endian form")
	gotID, req := k.IDRequirement()
	verifrt.Assert(gotID == id && req == (kind != 3), "IDRequirement")
	verifrt.AssertEq(k.OutputPrefix(), verifspec.Prefix(kind, id), "output prefix: 0x01||id TINK, 0x00||id CRUNCHY/LEGACY, empty NO_PREFIX")
	verifrt.Assert(k.Parameters() == params, "Parameters() are the constructor's")
	k2, err := NewPublicKey(klStrip(mod0), id, params)
	verifrt.Assert(err == nil && k.Equal(k2) && k2.Equal(k), "leading zeros do not matter for Equal")
	other := append([]byte{}, mod0...)
	other[len(other)-1] ^= 1 | verifrt.Byte("flip")
	k3, err := NewPublicKey(other, id, params)
	verifrt.Assert(err == nil && !k.Equal(k3) && !k3.Equal(k), "a key with another modulus is not Equal")
	// struct-literal parameters are refused
	_, err = NewPublicKey(mod0, id, &Parameters{})
	verifrt.Assert(err != nil, "zero-value parameters refused")
	verifrt.Reach("accepted")
}

// C19: the public key owns its modulus bytes.
func VerifH_c19_rsassapss_publickey() {
	variant, kind := klVariantPick()
	id := verifrt.Uint32("id")
	if kind == 3 {
		id = 0
	}
	params, err := NewParameters(ParametersValues{ModulusSizeBits: 2048, SigHashType: SHA256, MGF1HashType: SHA256, PublicExponent: f4, SaltLengthBytes: 32}, variant)
	verifrt.Assert(err == nil, "NewParameters")
	mod := verifh.BufWith("mod", 256, verifh.SpareProfile("spare"), "caller modulus buffer")
	verifrt.Assume(mod[0] >= 0x80)
	k, err := NewPublicKey(mod, id, params)
	verifrt.Assert(err == nil, "NewPublicKey")
	verifh.CheckCtorClones("NewPublicKey(modulus)", mod, k.Modulus, k.modulus)
	verifh.CheckAccessorsClone(
		verifh.Accessor{Name: "Modulus", Get: k.Modulus},
		verifh.Accessor{Name: "OutputPrefix", Get: k.OutputPrefix},
	)
	verifrt.Assert(!verifrt.SameArray(k.Modulus(), k.modulus), "Modulus() does not return the internal slice")
	verifrt.Reach("end")
}

// ---- (3) NewPrivateKey over the uninterpreted RSA

func klBE32(v int) []byte {
	var b [4]byte
	binary.BigEndian.PutUint32(b[:], uint32(v))
	return b[:]
}

func klRSAValid(k *rsa.PrivateKey) bool {
	if len(k.Primes) != 2 {
		return false
	}
	return verifrt.UF("RSAVALID", 1, k.N.Bytes(), klBE32(k.E), k.D.Bytes(), k.Primes[0].Bytes(), k.Primes[1].Bytes())[0]&1 == 1
}

// klRef is the rsa.PrivateKey the key layer is expected to build from (n, e, d, p, q).
func klRef(n []byte, e int, d, p, q []byte) *rsa.PrivateKey {
	return &rsa.PrivateKey{PublicKey: rsa.PublicKey{N: new(big.Int).SetBytes(n), E: e}, D: new(big.Int).SetBytes(d), Primes: []*big.Int{new(big.Int).SetBytes(p), new(big.Int).SetBytes(q)}}
}

// klCRTFull: the CRT values have the full length of their prime (dP, qInv: P; dQ: Q) instead of
// 8 bytes - needed where the serializer's length adjustment is the subject.
var klCRTFull = false

func klCRT(which string, k *rsa.PrivateKey) []byte {
	n := 8
	if klCRTFull {
		n = len(k.Primes[0].Bytes())
		if which == "RSADQ" {
			n = len(k.Primes[1].Bytes())
		}
	}
	v := verifrt.UF(which+map[bool]string{false: "", true: "FULL"}[klCRTFull], n, k.D.Bytes(), k.Primes[0].Bytes(), k.Primes[1].Bytes())
	verifrt.Assume(v[0] != 0)
	return v
}

func klIdealPSS(pub *rsa.PublicKey, h crypto.Hash, salt int, digest []byte) []byte {
	return verifrt.UF("PSSSIG", 16, pub.N.Bytes(), klBE32(pub.E), klBE32(int(h)), klBE32(salt), digest)
}

// pssLog records what reaches crypto/rsa.
type pssLog struct {
	signKeys   []*rsa.PrivateKey
	signHash   []crypto.Hash
	signSalt   []int
	verifyKeys []*rsa.PublicKey
	verifyHash []crypto.Hash
	verifySalt []int
	validated  int
}

func klInstallRSA(l *pssLog) {
	verifrt.Summarize("crypto/rsa.PrivateKey).Validate", func(k *rsa.PrivateKey) error {
		l.validated++
		if !klRSAValid(k) {
			return errKL
		}
		return nil
	})
	verifrt.Summarize("crypto/rsa.PrivateKey).Precompute", func(k *rsa.PrivateKey) {
		k.Precomputed.Dp = new(big.Int).SetBytes(klCRT("RSADP", k))
		k.Precomputed.Dq = new(big.Int).SetBytes(klCRT("RSADQ", k))
		k.Precomputed.Qinv = new(big.Int).SetBytes(klCRT("RSAQINV", k))
	})
	verifrt.Summarize("crypto/rsa.SignPSS", func(_ io.Reader, priv *rsa.PrivateKey, h crypto.Hash, digest []byte, opts *rsa.PSSOptions) ([]byte, error) {
		l.signKeys, l.signHash, l.signSalt = append(l.signKeys, priv), append(l.signHash, h), append(l.signSalt, opts.SaltLength)
		return klIdealPSS(&priv.PublicKey, h, opts.SaltLength, digest), nil
	})
	verifrt.Summarize("crypto/rsa.VerifyPSS", func(pub *rsa.PublicKey, h crypto.Hash, digest, sig []byte, opts *rsa.PSSOptions) error {
		l.verifyKeys, l.verifyHash, l.verifySalt = append(l.verifyKeys, pub), append(l.verifyHash, h), append(l.verifySalt, opts.SaltLength)
		if !verifrt.EqBytes(sig, klIdealPSS(pub, h, opts.SaltLength, digest)) {
			return errKL
		}
		return nil
	})
}

// klInt is a big-endian integer of n bytes with `lead` extra leading zero bytes: non-zero
// fixed top byte, three symbolic bytes, fixed filler (math/big normalisation would fork per
// leading zero word on a symbolic top byte).
func klInt(name string, n, lead int, fill byte) []byte {
	b := make([]byte, lead+n)
	for i := lead; i < len(b); i++ {
		b[i] = fill
	}
	s := verifrt.Bytes(name, 3)
	b[lead+1], b[lead+n/2], b[len(b)-1] = s[0], s[1], s[2]
	return b
}

func VerifH_keylevel_rsassapss_privatekey() {
	verifrt.EngineOnly()
	l := &pssLog{}
	klInstallRSA(l)
	variant, kind := klVariantPick()
	id := verifrt.Uint32("id")
	if kind == 3 {
		id = 0
	}
	e := [...]int{f4, f4 + 2, 1<<31 - 1}[verifrt.Choice("e", 3)]
	ht, hid, _, _ := klHashPick()
	salt := verifrt.IntRange("salt", 0, 1<<31-1)
	params, err := NewParameters(ParametersValues{ModulusSizeBits: 2048, SigHashType: ht, MGF1HashType: ht, PublicExponent: e, SaltLengthBytes: salt}, variant)
	verifrt.Assert(err == nil, "NewParameters")
	n := klInt("n", 256, 0, 0x91)
	pub, err := NewPublicKey(n, id, params)
	verifrt.Assert(err == nil, "NewPublicKey")
	lead := verifrt.Choice("lead", 2) // P, Q, D with / without a leading zero byte
	p, q, d := klInt("p", 128, lead, 0xa3), klInt("q", 128, lead, 0xb5), klInt("d", 256, lead, 0x47)
	k, err := NewPrivateKey(pub, PrivateKeyValues{P: klSD(p), Q: klSD(q), D: klSD(d)})
	// what crypto/rsa is asked to validate: n, e of the public key, d, p, q each in its own field
	ref := &rsa.PrivateKey{PublicKey: rsa.PublicKey{N: new(big.Int).SetBytes(n), E: e}, D: new(big.Int).SetBytes(d), Primes: []*big.Int{new(big.Int).SetBytes(p), new(big.Int).SetBytes(q)}}
	verifrt.Assert(l.validated == 1, "crypto/rsa's Validate is consulted once")
	// primitives exist only for e = 65537: the constructor's self check refuses other exponents
	verifrt.Assert((err == nil) == (klRSAValid(ref) && e == 65537), "NewPrivateKey accepts exactly: crypto/rsa validates (n, e, d, p, q) and e == 65537")
	if err != nil {
		verifrt.Assert(k == nil, "error => nil key")
		verifrt.Reach("rejected")
		return
	}
	rk := k.privateKey
	verifrt.AssertEq(rk.N.Bytes(), n, "rsa.PrivateKey.N = the public key's modulus")
	verifrt.Assert(rk.E == e, "rsa.PrivateKey.E = the parameters' public exponent")
	verifrt.AssertEq(rk.D.Bytes(), d[lead:], "rsa.PrivateKey.D = D")
	verifrt.Assert(len(rk.Primes) == 2, "two primes")
	verifrt.AssertEq(rk.Primes[0].Bytes(), p[lead:], "rsa.PrivateKey.Primes[0] = P")
	verifrt.AssertEq(rk.Primes[1].Bytes(), q[lead:], "rsa.PrivateKey.Primes[1] = Q")
	verifrt.AssertEq(k.P().Data(tok), p[lead:], "P() = P in minimal form")
	verifrt.AssertEq(k.Q().Data(tok), q[lead:], "Q() = Q in minimal form")
	verifrt.AssertEq(k.D().Data(tok), d[lead:], "D() = D in minimal form")
	verifrt.AssertEq(k.DP().Data(tok), klCRT("RSADP", ref), "DP() = crypto/rsa's precomputed D mod (P-1)")
	verifrt.AssertEq(k.DQ().Data(tok), klCRT("RSADQ", ref), "DQ() = crypto/rsa's precomputed D mod (Q-1)")
	verifrt.AssertEq(k.QInv().Data(tok), klCRT("RSAQINV", ref), "QInv() = crypto/rsa's precomputed Q^-1 mod P")
	gotPub, _ := k.PublicKey()
	verifrt.Assert(gotPub == pub && k.Parameters() == params, "PublicKey() / Parameters() are the given ones")
	verifrt.AssertEq(k.OutputPrefix(), verifspec.Prefix(kind, id), "output prefix")
	// the constructor's self check went through crypto/rsa with this key, the parameters' hash
	// and salt length
	verifrt.Assert(len(l.signKeys) == 1 && l.signKeys[0] == rk && l.signHash[0] == hid && l.signSalt[0] == salt, "self check: SignPSS with the key, the parameters' hash and salt length")
	verifrt.Assert(len(l.verifyKeys) == 1 && l.verifyHash[0] == hid && l.verifySalt[0] == salt, "self check: VerifyPSS with the parameters' hash and salt length")
	verifrt.AssertEq(l.verifyKeys[0].N.Bytes(), n, "self check: VerifyPSS with the modulus")
	verifrt.Assert(l.verifyKeys[0].E == e, "self check: VerifyPSS with the exponent")
	// accessors hand out copies
	verifh.CheckAccessorsClone(
		verifh.Accessor{Name: "P", Get: func() []byte { return k.P().Data(tok) }},
		verifh.Accessor{Name: "Q", Get: func() []byte { return k.Q().Data(tok) }},
		verifh.Accessor{Name: "D", Get: func() []byte { return k.D().Data(tok) }},
		verifh.Accessor{Name: "DP", Get: func() []byte { return k.DP().Data(tok) }},
		verifh.Accessor{Name: "DQ", Get: func() []byte { return k.DQ().Data(tok) }},
		verifh.Accessor{Name: "QInv", Get: func() []byte { return k.QInv().Data(tok) }},
	)
	// Equal
	k2, err := NewPrivateKey(pub, PrivateKeyValues{P: klSD(p[lead:]), Q: klSD(q[lead:]), D: klSD(d[lead:])})
	verifrt.Assert(err == nil && k.Equal(k2) && k2.Equal(k), "a key from the same integers is Equal")
	verifrt.Reach("accepted")
}

// a public key that did not come out of NewPublicKey is refused
func VerifH_keylevel_rsassapss_badpublickey() {
	l := &pssLog{}
	klInstallRSA(l)
	_, err := NewPrivateKey(&PublicKey{}, PrivateKeyValues{P: klSD([]byte{3}), Q: klSD([]byte{5}), D: klSD([]byte{7})})
	verifrt.Assert(err != nil, "zero-value public key refused, no panic")
	verifrt.Reach("end")
}

// ---- (4) primitives: what crypto/rsa is handed; natively replayable on a fixed real key

const (
	klN = "ce1c476a2749ec7e128f19797abbbea03e15af0445195167680d920fdae1bcaec380a5dc877254433330346ae6806848" +
		"ca8d7ceab1759e5ce56e98e5ad1c2048517fee6368ea49c7e994ab8ecbb28a050ab3e904e205dcdda380dbbf731399f0" +
		"f6a6970bb5d1b27c4f06b7dcaeb576d685ecf1ae11cea4e64a39d2e1a8992cb8a30890de65e71c147361a753ade7264f" +
		"ef5eff3af0013612baee134af2bcd482eec5c9d248dae0b13a54c5a8e86511064f26157da122f3c7a00e9cc77cbfbf83" +
		"db02c4b8c23d0b338437b4b0ba0d5a049a8b132e054f7b61622d28d146f03e3c6d4f7ca23ccd3d5c9958d09db0cdb8f4" +
		"e45d284910c45d19b6b8aeb25d54160b"
	klD = "2bf35dcb261b9e6177e5a9e1fca9024a3b52f6622bb5ed64e68c564429418fb198a0db3d7e6883cd5ca1ffdb77d193eb" +
		"49be081027cd53faad35fb46a6b663afe82926956e2edf92d09d5243fdedd17ea7bc9b88de05b00657324829b8094aff" +
		"562949f6464c340a4bf3bbcb443a0fe048e8b0d494998312546ba62b567f6b4885cd5d7bc9e5c7a2bbc2985995f15d23" +
		"79ea955914056e876d11e21882f5c57544ab0cb5e777a61e37c7e5c5a7310268a1ee7ef079e5be70e40a4ed3c850775f" +
		"0558e24f45b3a80d19ebfd1196e71f24505972dddbcd8f2a1b01ab6bf75c673cef68c6146cf3cf6638451f3fb6bbd022" +
		"bd0574aec4cf7387a3c42d0f85213869"
	klP = "d5fdc11bf034489d35e5c531ef1c2b128ffca0d2eef95281daa3e286815bfac8d3102e0b83a6ccefe6b0715e233e0d1f" +
		"69d0950982bacede978c6801942d9652ac0fa3de797136c254b6b68cdaa69f08fa80de2f7e54b46e0a8a5e814c02208a" +
		"a1e166bd08d3435b238086edc287817aaf6785cc492956869168ac3ed0e63a5f"
	klQ = "f69278fb7f11315b4c1d4442a3cadeb88b7060a5b64844a34b22b164614a20c3dea144a2f45cfd640d18753ca1042e50" +
		"ce867372b163cbe8621e643755656a2d4e17c0ce69ef80171895fc5ef7eaa8acc15d8d488eddffdf3e6f11cc2edfda70" +
		"fd92a8913b1467545b75c7b893cee94412b353d2f0c8071f678e2acb4a529bd5"
)

func klHex(h string) []byte {
	v, ok := new(big.Int).SetString(h, 16)
	if !ok {
		panic("bad constant")
	}
	return v.Bytes()
}

func klRealN() []byte { return klHex(klN) }

// klRealKey builds the fixed 2048-bit key through the real constructors.
func klRealKey(params *Parameters, id uint32) (*PublicKey, *PrivateKey) {
	pub, err := NewPublicKey(klHex(klN), id, params)
	verifrt.Assert(err == nil, "NewPublicKey")
	ref := &rsa.PrivateKey{PublicKey: rsa.PublicKey{N: new(big.Int).SetBytes(klHex(klN)), E: f4}, D: new(big.Int).SetBytes(klHex(klD)), Primes: []*big.Int{new(big.Int).SetBytes(klHex(klP)), new(big.Int).SetBytes(klHex(klQ))}}
	if verifrt.Symbolic() {
		verifrt.Assume(klRSAValid(ref)) // a genuine key
	}
	priv, err := NewPrivateKey(pub, PrivateKeyValues{P: klSD(klHex(klP)), Q: klSD(klHex(klQ)), D: klSD(klHex(klD))})
	verifrt.Assert(err == nil, "NewPrivateKey")
	return pub, priv
}

func VerifH_keylevel_rsassapss_primitives() {
	l := &pssLog{}
	klInstallRSA(l)
	variant, kind := klVariantPick()
	id := verifrt.Uint32("id")
	if kind == 3 {
		id = 0
	}
	ht, hid, hf, hlen := klHashPick()
	// salt lengths 1 .. the largest an EMSA-PSS encoding for a 2048-bit modulus carries
	// (emLen - hLen - 2); salt length 0 is the known finding of DESIGN.md section 6
	salt := verifrt.IntRange("salt", 1, 256-hlen-2)
	params, err := NewParameters(ParametersValues{ModulusSizeBits: 2048, SigHashType: ht, MGF1HashType: ht, PublicExponent: f4, SaltLengthBytes: salt}, variant)
	verifrt.Assert(err == nil, "NewParameters")
	pub, priv := klRealKey(params, id)
	if priv == nil {
		return
	}
	s, err := NewSigner(priv, internalapi.Token{})
	verifrt.Assert(err == nil, "NewSigner")
	v, err := NewVerifier(pub, internalapi.Token{})
	verifrt.Assert(err == nil, "NewVerifier")
	msg := verifrt.Bytes("msg", 2)
	sig, err := s.Sign(msg)
	verifrt.Assert(err == nil, "Sign")
	prefix := verifspec.Prefix(kind, id)
	verifrt.Assert(len(sig) >= len(prefix), "signature carries the prefix")
	verifrt.AssertEq(sig[:len(prefix)], prefix, "signature starts with the output prefix")
	// independent verification with crypto/rsa used directly: the parameters' hash, MGF1 with
	// the same hash, exactly the parameters' salt length, over msg [|| 0x00 for LEGACY]
	h := hf()
	h.Write(msg)
	if kind == 2 {
		h.Write([]byte{0})
	}
	digest := h.Sum(nil)
	stdPub := &rsa.PublicKey{N: new(big.Int).SetBytes(klHex(klN)), E: 65537}
	l2 := len(l.verifyKeys)
	verifrt.Assert(rsa.VerifyPSS(stdPub, hid, digest, sig[len(prefix):], &rsa.PSSOptions{SaltLength: salt, Hash: hid}) == nil, "Sign's output is an RSA-SSA-PSS signature under (n, 65537) with the parameters' hash and salt length over msg [|| 0x00 for LEGACY]")
	verifrt.Assert(v.Verify(sig, msg) == nil, "Sign's output verifies under the matching public key")
	if verifrt.Symbolic() {
		// what reached crypto/rsa from Tink's signer / verifier (the last SignPSS; the VerifyPSS
		// after the harness's own)
		i := len(l.signKeys) - 1
		verifrt.Assert(l.signKeys[i] == priv.privateKey && l.signHash[i] == hid && l.signSalt[i] == salt, "SignPSS gets the key object, the parameters' hash and salt length")
		j := l2 + 1
		verifrt.Assert(len(l.verifyKeys) == j+1 && l.verifyHash[j] == hid && l.verifySalt[j] == salt && l.verifyKeys[j].E == 65537, "VerifyPSS gets the parameters' hash, salt length and exponent")
		verifrt.AssertEq(l.verifyKeys[j].N.Bytes(), klHex(klN), "VerifyPSS gets the key's modulus")
	}
	// wrong / missing prefix, other message
	if len(prefix) > 0 {
		bad := append([]byte{}, sig...)
		bad[[...]int{0, 4}[verifrt.Choice("pi", 2)]] ^= 1 | verifrt.Byte("pflip")
		verifrt.Assert(v.Verify(bad, msg) != nil, "altered prefix rejected")
		verifrt.Assert(v.Verify(sig[len(prefix):], msg) != nil, "missing prefix rejected")
	} else {
		verifrt.Assert(v.Verify(slices.Concat([]byte{0, 0, 0, 0, 0}, sig), msg) != nil, "NO_PREFIX key rejects a prefixed signature")
	}
	verifrt.Reach("end")
}

// exponents other than 65537 and parameters below 2048 bits never yield a primitive
func VerifH_keylevel_rsassapss_minimum() {
	l := &pssLog{}
	klInstallRSA(l)
	e := verifrt.IntRange("e", 65537, 1<<31-1)
	verifrt.Assume(e&1 == 1)
	params, err := NewParameters(ParametersValues{ModulusSizeBits: 2048, SigHashType: SHA256, MGF1HashType: SHA256, PublicExponent: e, SaltLengthBytes: 32}, VariantNoPrefix)
	verifrt.Assert(err == nil, "NewParameters")
	pub, err := NewPublicKey(klRealN(), 0, params)
	verifrt.Assert(err == nil, "NewPublicKey")
	_, err = NewVerifier(pub, internalapi.Token{})
	verifrt.Assert((err == nil) == (e == 65537), "a verifier exists only for public exponent 65537")
	// a short modulus: parameters below 2048 bits cannot be made, a struct literal is refused
	// by the primitive constructor
	short := &PublicKey{modulus: klRealN()[1:], parameters: &Parameters{modulusSizeBits: 2040, sigHashType: SHA256, mgf1HashType: SHA256, publicExponent: f4, saltLengthBytes: 32, variant: VariantNoPrefix}}
	_, err = NewVerifier(short, internalapi.Token{})
	verifrt.Assert(err != nil, "no verifier for a modulus below 2048 bits")
	verifrt.Reach("end")
}

// ---- C12: key round trip on the fixed real key

func VerifH_serial_rsassapss_keys() {
	verifrt.EngineOnly() // crypto/rsa's Validate / Precompute are stubbed; DP, DQ, QInv are uninterpreted
	l := &pssLog{}
	klInstallRSA(l)
	variant, kind := klVariantPick()
	id := verifrt.Uint32("id")
	if kind == 3 {
		id = 0
	}
	ht, _, _, _ := klHashPick()
	salt := [...]int{1, 32, 64}[verifrt.Choice("salt", 3)]
	params, err := NewParameters(ParametersValues{ModulusSizeBits: 2048, SigHashType: ht, MGF1HashType: ht, PublicExponent: f4, SaltLengthBytes: salt}, variant)
	verifrt.Assert(err == nil, "NewParameters")
	pub, priv := klRealKey(params, id)
	if verifrt.Choice("which", 2) == 0 {
		verifh.CheckKeyRoundTrip(priv, &privateKeySerializer{}, &privateKeyParser{}, &parametersSerializer{}, &parametersParser{}, kind, id, signerTypeURL, tinkpb.KeyData_ASYMMETRIC_PRIVATE)
	} else {
		verifh.CheckKeyRoundTripOnly(pub, &publicKeySerializer{}, &publicKeyParser{}, kind, id, verifierTypeURL, tinkpb.KeyData_ASYMMETRIC_PUBLIC)
	}
}

// The same round trip for a key whose primes differ in byte length (129 / 127 bytes, either
// order) and whose CRT values have the full length of their prime.
func VerifH_serial_rsassapss_unbalanced() {
	verifrt.EngineOnly() // crypto/rsa's Validate / Precompute are stubbed; DP, DQ, QInv are uninterpreted
	l := &pssLog{}
	klInstallRSA(l)
	klCRTFull = true
	variant, kind := klVariantPick()
	id := verifrt.Uint32("id")
	if kind == 3 {
		id = 0
	}
	params, err := NewParameters(ParametersValues{ModulusSizeBits: 2048, SigHashType: SHA256, MGF1HashType: SHA256, PublicExponent: f4, SaltLengthBytes: 32}, variant)
	verifrt.Assert(err == nil, "NewParameters")
	pub, err := NewPublicKey(klHex(klN), id, params)
	verifrt.Assert(err == nil, "NewPublicKey")
	pl, ql := 129, 127
	if verifrt.Choice("longer", 2) == 1 {
		pl, ql = 127, 129
	}
	p, q, d := klInt("p", pl, 0, 0x55), klInt("q", ql, 0, 0x33), klInt("d", 256, 0, 0x11)
	verifrt.Assume(p[0] != 0 && q[0] != 0 && d[0] != 0)
	verifrt.Assume(klRSAValid(klRef(klHex(klN), f4, d, p, q))) // a genuine key (crypto/rsa's verdict is uninterpreted)
	priv, err := NewPrivateKey(pub, PrivateKeyValues{P: klSD(p), Q: klSD(q), D: klSD(d)})
	verifrt.Assert(err == nil && priv != nil, "NewPrivateKey accepts a valid key with primes of different lengths")
	if err != nil {
		return
	}
	verifh.CheckKeyRoundTrip(priv, &privateKeySerializer{}, &privateKeyParser{}, &parametersSerializer{}, &parametersParser{}, kind, id, signerTypeURL, tinkpb.KeyData_ASYMMETRIC_PRIVATE)
}
