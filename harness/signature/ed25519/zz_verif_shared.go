package ed25519

import (
	"github.com/tink-crypto/tink-go/v2/internal/internalapi"
	"github.com/tink-crypto/tink-go/v2/internal/verifh"
	"github.com/tink-crypto/tink-go/v2/internal/verifrt"
)

var internalapiToken = internalapi.Token{}

// C18 (sufficient condition): signer and verifier (all variants) are frozen after
// construction; two Sign and two Verify calls with different inputs only read them.
func VerifH_c18_ed25519() {
	verifrt.EngineOnly()
	s, v, _, _, _ := build()
	verifh.CheckSignShared(s, v)
}
