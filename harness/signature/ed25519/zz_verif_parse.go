package ed25519

import (
	stded25519 "crypto/ed25519"

	"google.golang.org/protobuf/proto"

	"github.com/tink-crypto/tink-go/v2/insecuresecretdataaccess"
	"github.com/tink-crypto/tink-go/v2/internal/verifh"
	"github.com/tink-crypto/tink-go/v2/internal/verifrt"
	pb "github.com/tink-crypto/tink-go/v2/proto/ed25519_go_proto"
	tinkpb "github.com/tink-crypto/tink-go/v2/proto/tink_go_proto"
)

var parseVariants = [...]Variant{VariantTink, VariantCrunchy, VariantLegacy, VariantNoPrefix}

// VerifH_parse_ed25519_public: publicKeyParser.ParseKey on hostile field values.
//
// Documented validity of an Ed25519 public key (Ed25519PublicKey{version, key_value}):
// version 0; key_value exactly 32 bytes (RFC 8032 5.1.2 encoding; the point is not
// decoded at parse time); ASYMMETRIC_PUBLIC; the public key type URL (not the private
// one); prefix TINK/CRUNCHY/LEGACY/RAW; RAW => id 0.
func VerifH_parse_ed25519_public() {
	h := verifh.NewHostile()
	h.ForeignURL = signerTypeURL
	version := verifrt.Uint32("version")
	n := h.Len("keylen", 32, 0, 1, 16, 31, 33, 57, 64)
	kv := verifrt.Bytes("key", n)
	var value []byte
	if h.Shape("emptyvalue", 2) == 1 {
		version, kv, n = 0, nil, 0
	} else {
		var err error
		value, err = proto.Marshal(&pb.Ed25519PublicKey{Version: version, KeyValue: kv})
		verifrt.Assert(err == nil, "marshal")
	}
	if !h.Wrap(verifierTypeURL, value) {
		return
	}
	k, err := (&publicKeyParser{}).ParseKey(h.KS)
	valid := verifrt.And(h.EnvelopeValid(tinkpb.KeyData_ASYMMETRIC_PUBLIC, true), verifrt.And(version == 0, n == 32))
	verifrt.Assert(verifrt.Implies(err == nil, valid), "accepted => version 0, 32-byte key, ASYMMETRIC_PUBLIC, public key type URL, known prefix type, RAW => id 0")
	verifrt.Assert(verifrt.Implies(valid, err == nil), "every valid Ed25519 public key is accepted")
	if err != nil {
		verifrt.Reach("rejected")
		return
	}
	h.CheckParsedEnvelope(k)
	ak, ok := k.(*PublicKey)
	verifrt.Assert(ok && ak != nil, "parsed key is *ed25519.PublicKey")
	verifrt.Assert(ak.Parameters().(*Parameters).Variant() == parseVariants[h.Kind()], "variant mirrors the prefix type")
	verifrt.AssertEq(ak.KeyBytes(), kv, "key bytes are key_value")
	verifrt.AssertEq(ak.OutputPrefix(), h.WantPrefix(), "output prefix of (prefix type, id)")
	verifrt.Reach("accepted")
}

// VerifH_parse_ed25519_private: privateKeyParser.ParseKey on hostile field values.
//
// Ed25519PrivateKey{version, key_value (seed), public_key{version, key_value}}: both
// versions 0; seed exactly 32 bytes; public key present, exactly 32 bytes and equal to the
// public key derived from the seed; ASYMMETRIC_PRIVATE; the private key type URL; prefix
// TINK/CRUNCHY/LEGACY/RAW; RAW => id 0.
func VerifH_parse_ed25519_private() {
	h := verifh.NewHostile()
	h.ForeignURL = verifierTypeURL
	version, pubVersion := verifrt.Uint32("version"), verifrt.Uint32("pubversion")
	sn := h.Len("seedlen", 32, 0, 1, 31, 33, 64)
	pn := h.Len("publen", 32, 0, 1, 31, 33, 64)
	seed, pub := verifrt.Bytes("seed", sn), verifrt.Bytes("pub", pn)
	msg := &pb.Ed25519PrivateKey{Version: version, KeyValue: seed, PublicKey: &pb.Ed25519PublicKey{Version: pubVersion, KeyValue: pub}}
	shape := h.Shape("shape", 3)
	var value []byte
	switch shape {
	case 1:
		version, pubVersion, sn, pn, seed, pub = 0, 0, 0, 0, nil, nil
	case 2:
		msg.PublicKey, pubVersion, pn, pub = nil, 0, 0, nil
	}
	if shape != 1 {
		var err error
		value, err = proto.Marshal(msg)
		verifrt.Assert(err == nil, "marshal")
	}
	if !h.Wrap(signerTypeURL, value) {
		return
	}
	k, err := (&privateKeyParser{}).ParseKey(h.KS)
	match := false
	if sn == 32 && pn == 32 {
		match = verifrt.EqBytes(stded25519.NewKeyFromSeed(seed).Public().(stded25519.PublicKey), pub)
	}
	valid := verifrt.And(h.EnvelopeValid(tinkpb.KeyData_ASYMMETRIC_PRIVATE, true), verifrt.And(version == 0 && pubVersion == 0, match))
	verifrt.Assert(verifrt.Implies(err == nil, valid), "accepted => versions 0, 32-byte seed, 32-byte public key derived from the seed, ASYMMETRIC_PRIVATE, private key type URL, known prefix type, RAW => id 0")
	verifrt.Assert(verifrt.Implies(valid, err == nil), "every valid Ed25519 private key is accepted")
	if err != nil {
		verifrt.Reach("rejected")
		return
	}
	h.CheckParsedEnvelope(k)
	ak, ok := k.(*PrivateKey)
	verifrt.Assert(ok && ak != nil, "parsed key is *ed25519.PrivateKey")
	verifrt.Assert(ak.Parameters().(*Parameters).Variant() == parseVariants[h.Kind()], "variant mirrors the prefix type")
	verifrt.AssertEq(ak.PrivateKeyBytes().Data(insecuresecretdataaccess.Token{}), seed, "private key bytes are key_value")
	pk, _ := ak.PublicKey()
	verifrt.AssertEq(pk.(*PublicKey).KeyBytes(), pub, "public key bytes are public_key.key_value")
	verifrt.AssertEq(ak.OutputPrefix(), h.WantPrefix(), "output prefix of (prefix type, id)")
	verifrt.Reach("accepted")
}

// VerifH_parse_ed25519_params: parametersParser.Parse on a hostile key template
// (Ed25519KeyFormat{version}; templates carry the private key type URL).
func VerifH_parse_ed25519_params() {
	version := verifrt.Uint32("version")
	value, err := proto.Marshal(&pb.Ed25519KeyFormat{Version: version})
	verifrt.Assert(err == nil, "marshal")
	t, urlOK, prefix := verifh.HostileTemplate(signerTypeURL, value)
	p, err := (&parametersParser{}).Parse(t)
	kind := verifh.KindOf(prefix)
	valid := verifrt.And(urlOK && kind >= 0, version == 0)
	verifrt.Assert((err == nil) == valid, "template accepted <=> private key type URL, version 0, known prefix type")
	if err != nil {
		verifrt.Reach("rejected")
		return
	}
	ap := p.(*Parameters)
	verifrt.Assert(ap.Variant() == parseVariants[kind] && ap.HasIDRequirement() == (kind != 3), "variant mirrors the prefix type")
	_, nerr := (&parametersParser{}).Parse(nil)
	verifrt.Assert(nerr != nil, "nil template rejected, no panic")
	verifrt.Reach("accepted")
}
