package ed25519

import (
	"github.com/tink-crypto/tink-go/v2/insecuresecretdataaccess"
	"github.com/tink-crypto/tink-go/v2/internal/verifh"
	"github.com/tink-crypto/tink-go/v2/internal/verifrt"
	"github.com/tink-crypto/tink-go/v2/secretdata"
)

// C19, signer and verifier through the real constructors (Ed25519 itself is the ideal
// signature model): data and signature buffers with spare capacity are write-protected;
// the signature is fresh memory (not the data, not the primitive's stored prefix or key);
// overwriting data / signature afterwards changes neither later signatures (Ed25519 is
// deterministic) nor what the verifier accepts.
func VerifH_c19_ed25519() {
	s, v, _, _, _ := build()
	verifh.CheckSignNoWrite(s, v, 2, true, s.prefix, []byte(s.privateKey), v.prefix, []byte(v.publicKey))
}

// C19, key objects. Public key: NewPublicKey clones the caller's 32 bytes; KeyBytes() and
// OutputPrefix() return copies. Private key: the seed travels through secretdata;
// PrivateKeyBytes().Data() and OutputPrefix() return copies. Signatures of a signer built
// before all these writes and of one built after them are those of an untouched key.
func VerifH_c19_ed25519key() {
	tok := insecuresecretdataaccess.Token{}
	params, kind, id := serialVariant()
	spare := verifh.SpareProfile("spare")
	if verifrt.Choice("which", 2) == 0 {
		pub := verifh.BufWith("pub", 32, spare, "caller public-key buffer")
		pub0 := append([]byte{}, pub...)
		k, err := NewPublicKey(pub, id, params)
		verifrt.Assert(err == nil, "NewPublicKey")
		verifh.CheckCtorClones("NewPublicKey(keyBytes)", pub, k.KeyBytes, k.keyBytes)
		verifh.CheckAccessorsClone(
			verifh.Accessor{Name: "PublicKey.KeyBytes", Get: k.KeyBytes},
			verifh.Accessor{Name: "PublicKey.OutputPrefix", Get: k.OutputPrefix},
		)
		verifrt.Assert(len(k.OutputPrefix()) == verifh.PrefixLen(kind), "output prefix length")
		ref, err := NewPublicKey(pub0, id, params)
		verifrt.Assert(err == nil && k.Equal(ref) && ref.Equal(k), "public key still equals one made from the original bytes")
		verifrt.Reach("public-ok")
		return
	}
	seed := verifh.BufWith("seed", 32, spare, "caller seed buffer")
	seed0 := append([]byte{}, seed...)
	priv, err := NewPrivateKey(secretdata.NewBytesFromData(seed, tok), id, params)
	verifrt.Assert(err == nil, "NewPrivateKey")
	before, err := NewSigner(priv, internalapiToken)
	verifrt.Assert(err == nil, "NewSigner (before the caller's writes)")
	pubKey, _ := priv.PublicKey()
	pk := pubKey.(*PublicKey)
	verifh.CheckCtorClones("NewPrivateKey(seed)", seed, func() []byte { return priv.PrivateKeyBytes().Data(tok) }, nil)
	verifh.CheckAccessorsClone(
		verifh.Accessor{Name: "PrivateKeyBytes().Data", Get: func() []byte { return priv.PrivateKeyBytes().Data(tok) }},
		verifh.Accessor{Name: "PrivateKey.OutputPrefix", Get: priv.OutputPrefix},
		verifh.Accessor{Name: "PublicKey.KeyBytes", Get: pk.KeyBytes},
		verifh.Accessor{Name: "PublicKey.OutputPrefix", Get: pk.OutputPrefix},
	)
	ref, err := NewPrivateKey(secretdata.NewBytesFromData(seed0, tok), id, params)
	verifrt.Assert(err == nil && priv.Equal(ref) && ref.Equal(priv), "private key still equals one made from the original seed")
	after, err := NewSigner(priv, internalapiToken)
	verifrt.Assert(err == nil, "NewSigner (after the caller's writes)")
	want, err := NewSigner(ref, internalapiToken)
	verifrt.Assert(err == nil, "NewSigner (reference)")
	msg := verifrt.Bytes("msg", 1)
	s0, _ := want.Sign(msg)
	s1, e1 := before.Sign(msg)
	s2, e2 := after.Sign(msg)
	verifrt.Assert(e1 == nil && e2 == nil, "Sign succeeds")
	verifrt.AssertEq(s1, s0, "signer built before the writes is unaffected")
	verifrt.AssertEq(s2, s0, "signer built after the writes is unaffected")
	verifrt.Reach("private-ok")
}
