package ed25519

import (
	"github.com/tink-crypto/tink-go/v2/insecuresecretdataaccess"
	"github.com/tink-crypto/tink-go/v2/internal/verifh"
	"github.com/tink-crypto/tink-go/v2/internal/verifrt"
	tinkpb "github.com/tink-crypto/tink-go/v2/proto/tink_go_proto"
	"github.com/tink-crypto/tink-go/v2/secretdata"
)

func serialVariant() (Parameters, int, uint32) {
	kind := verifrt.Choice("variant", 4)
	v := [...]Variant{VariantTink, VariantCrunchy, VariantLegacy, VariantNoPrefix}[kind]
	params, err := NewParameters(v)
	verifrt.Assert(err == nil, "NewParameters")
	id := verifrt.Uint32("id")
	if kind == 3 {
		id = 0
	}
	return params, kind, id
}

// Parameters: every variant {TINK, CRUNCHY, LEGACY, NO_PREFIX}.
func VerifH_serialparams_ed25519() {
	params, kind, _ := serialVariant()
	verifh.CheckParamsRoundTrip(&params, &parametersSerializer{}, &parametersParser{}, kind, signerTypeURL)
}

// Public keys: every variant, 32 symbolic key bytes, symbolic id (no curve arithmetic involved).
func VerifH_serial_ed25519_public() {
	params, kind, id := serialVariant()
	k, err := NewPublicKey(verifrt.Bytes("pub", 32), id, params)
	verifrt.Assert(err == nil, "NewPublicKey")
	// (key templates always carry the private key's type URL, so the parameters part is checked separately)
	verifh.CheckKeyRoundTripOnly(k, &publicKeySerializer{}, &publicKeyParser{}, kind, id, verifierTypeURL, tinkpb.KeyData_ASYMMETRIC_PUBLIC)
	verifh.CheckParamsRoundTrip(k.Parameters(), &parametersSerializer{}, &parametersParser{}, kind, signerTypeURL)
}

// Private keys: every variant, symbolic 32-byte seed, symbolic id. The public key is
// crypto/ed25519.NewKeyFromSeed(seed).Public(), which the environment model renders as an
// uninterpreted function of the seed (the parser recomputes and compares it).
func VerifH_serial_ed25519_private() {
	params, kind, id := serialVariant()
	k, err := NewPrivateKey(secretdata.NewBytesFromData(verifrt.Bytes("seed", 32), insecuresecretdataaccess.Token{}), id, params)
	verifrt.Assert(err == nil, "NewPrivateKey")
	verifh.CheckKeyRoundTrip(k, &privateKeySerializer{}, &privateKeyParser{}, &parametersSerializer{}, &parametersParser{}, kind, id, signerTypeURL, tinkpb.KeyData_ASYMMETRIC_PRIVATE)
}
