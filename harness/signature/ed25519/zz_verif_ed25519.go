package ed25519

import (
	stded "crypto/ed25519"

	"github.com/tink-crypto/tink-go/v2/insecuresecretdataaccess"
	"github.com/tink-crypto/tink-go/v2/internal/internalapi"
	"github.com/tink-crypto/tink-go/v2/internal/verifrt"
	"github.com/tink-crypto/tink-go/v2/internal/verifspec"
	"github.com/tink-crypto/tink-go/v2/secretdata"
)

func build() (s *signer, v *verifier, seed []byte, kind int, id uint32) {
	kind = verifrt.Choice("variant", 4)
	variant := [...]Variant{VariantTink, VariantCrunchy, VariantLegacy, VariantNoPrefix}[kind]
	seed = verifrt.Bytes("seed", 32)
	id = verifrt.Uint32("id")
	if kind == 3 {
		id = 0
	}
	params, err := NewParameters(variant)
	verifrt.Assert(err == nil, "NewParameters")
	priv, err := NewPrivateKey(secretdata.NewBytesFromData(seed, insecuresecretdataaccess.Token{}), id, params)
	verifrt.Assert(err == nil, "NewPrivateKey")
	sg, err := NewSigner(priv, internalapi.Token{})
	verifrt.Assert(err == nil, "NewSigner")
	pub, err := priv.PublicKey()
	verifrt.Assert(err == nil, "PublicKey")
	vf, err := NewVerifier(pub.(*PublicKey), internalapi.Token{})
	verifrt.Assert(err == nil, "NewVerifier")
	return sg.(*signer), vf.(*verifier), seed, kind, id
}

// Sign == prefix || Ed25519(seed, msg [|| 0x00 for LEGACY]); Verify accepts exactly that.
func VerifH_sig_ed25519() {
	s, v, seed, kind, id := build()
	msg := verifrt.Bytes("msg", verifrt.Choice("n", 3))
	sig, err := s.Sign(msg)
	verifrt.Assert(err == nil, "Sign succeeds")
	m := append([]byte{}, msg...)
	if kind == 2 {
		m = append(m, 0)
	}
	want := append(verifspec.Prefix(kind, id), stded.Sign(stded.NewKeyFromSeed(seed), m)...)
	verifrt.AssertEq(sig, want, "signature == prefix || Ed25519 signature over msg [|| 0x00 for LEGACY]")
	verifrt.Assert(v.Verify(sig, msg) == nil, "the matching verifier accepts")
	if verifrt.Choice("samelen", 2) == 0 {
		delta := verifrt.Bytes("delta", len(want))
		err := v.Verify(verifspec.XorDelta(want, delta), msg)
		verifrt.Assert((err == nil) == verifrt.EqBytes(delta, make([]byte, len(want))), "Verify accepts exactly the genuine signature bytes (same length)")
	} else {
		l := [...]int{0, 4, 5, 63, 64, len(want) - 1, len(want) + 1}[verifrt.Choice("len", 7)]
		verifrt.Assume(l != len(want))
		cand := verifrt.Bytes("cand", l)
		for i := 0; i < l && i < len(want); i++ {
			cand[i] = want[i]
		}
		verifrt.Assert(v.Verify(cand, msg) != nil, "wrong-length signature rejected, no panic")
	}
	verifrt.Reach("end")
}
