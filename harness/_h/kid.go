package verifh

// SpecKID is RFC 4648 section 5 ("base64url", alphabet A-Z a-z 0-9 - _) without padding of
// the four big-endian bytes of a key id: the 32 bits are cut into 6-bit groups from the most
// significant end (the last group holds 2 bits, padded with four zero bits), each group is
// mapped through the alphabet by range comparison. Written arithmetically; encoding/base64 is
// not used.
func SpecKID(id uint32) []byte {
	g := [6]uint32{
		id >> 26,
		(id >> 20) & 63,
		(id >> 14) & 63,
		(id >> 8) & 63,
		(id >> 2) & 63,
		(id & 3) << 4,
	}
	out := make([]byte, 6)
	for i, v := range g {
		out[i] = specB64URLChar(v)
	}
	return out
}

// specB64URLChar: the RFC 4648 Table 2 alphabet as range tests. Written as a chain of
// assignments under side-effect-free conditions so that the engine merges them into one
// if-then-else term instead of forking per character.
func specB64URLChar(v uint32) byte {
	c := v + 'A' // 0..25 -> 'A'..'Z'
	if v >= 26 {
		c = v - 26 + 'a' // 26..51 -> 'a'..'z'
	}
	if v >= 52 {
		c = v - 52 + '0' // 52..61 -> '0'..'9'
	}
	if v == 62 {
		c = '-'
	}
	if v == 63 {
		c = '_'
	}
	return byte(c)
}
