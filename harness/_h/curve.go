package verifh

import (
	"crypto/elliptic"
	"math/big"

	"github.com/tink-crypto/tink-go/v2/internal/verifrt"
)

// VCurve is the engine-side model of a 256-bit NIST curve: the group is uninterpreted.
//   - ScalarBaseMult(k) = (PUBX(k), PUBY(k)), remembered so that
//   - ScalarMult(PUB(b), a) = DH(a xor b) = ScalarMult(PUB(a), b)  (Diffie-Hellman commutes);
//     for a point that no ScalarBaseMult produced the result is an unrelated DHX(point, k);
//   - IsOnCurve is an uninterpreted predicate that holds for every point the model produced.
//
//   - every x-coordinate the model produced decompresses to its y (or to "the other root");
//
// All coordinates the model produces have a top byte in 1..254 (so they are below the field
// prime and big.Int normalisation does not fork) (leading-zero coordinates are
// examined separately, with concrete zero bytes, by the point-encoding harness).
type VCurve struct {
	P *elliptic.CurveParams
}

func bigHex(s string) *big.Int {
	v, _ := new(big.Int).SetString(s, 16)
	return v
}

// NewVCurve returns the model curve with P-256's public parameters.
func NewVCurve() VCurve {
	return VCurve{P: &elliptic.CurveParams{
		Name:    "P-256",
		BitSize: 256,
		P:       bigHex("ffffffff00000001000000000000000000000000ffffffffffffffffffffffff"),
		N:       bigHex("ffffffff00000000ffffffffffffffffbce6faada7179e84f3b9cac2fc632551"),
		B:       bigHex("5ac635d8aa3a93e7b3ebbd55769886bc651d06b0cc53b0f63bce3c3e27d2604b"),
	}}
}

func pad32(x *big.Int) []byte {
	if x.BitLen() > 256 {
		return nil
	}
	return x.FillBytes(make([]byte, 32))
}

func (c VCurve) Params() *elliptic.CurveParams { return c.P }

// OnCurveBytes is the uninterpreted membership predicate on affine coordinates.
func OnCurveBytes(x, y []byte) bool {
	return verifrt.UF("ONCURVE", 1, x, y)[0]&1 == 1
}

func (c VCurve) IsOnCurve(x, y *big.Int) bool {
	xb, yb := pad32(x), pad32(y)
	if xb == nil || yb == nil {
		return false
	}
	return OnCurveBytes(xb, yb)
}

func (c VCurve) point(xb, yb []byte) (*big.Int, *big.Int) {
	verifrt.Assume(xb[0] != 0 && xb[0] != 0xff) // non-zero top byte, and below the field prime
	verifrt.Assume(yb[0] != 0 && yb[0] != 0xff)
	verifrt.Assume(OnCurveBytes(xb, yb))
	verifrt.MemoPut("vcurve.y", yb, xb)
	return new(big.Int).SetBytes(xb), new(big.Int).SetBytes(yb)
}

func (c VCurve) ScalarBaseMult(k []byte) (*big.Int, *big.Int) {
	xb, yb := verifrt.UF("PUBX", 32, k), verifrt.UF("PUBY", 32, k)
	verifrt.MemoPut("vcurve.scalar", k, append(append([]byte{}, xb...), yb...))
	return c.point(xb, yb)
}

func (c VCurve) ScalarMult(x, y *big.Int, k []byte) (*big.Int, *big.Int) {
	key := append(pad32(x), pad32(y)...)
	if b, ok := verifrt.MemoGet("vcurve.scalar", key); ok && len(b) == len(k) {
		m := make([]byte, len(k))
		for i := range m {
			m[i] = k[i] ^ b[i]
		}
		return c.point(verifrt.UF("DHX", 32, m), verifrt.UF("DHY", 32, m))
	}
	return c.point(verifrt.UF("DHFX", 32, key, k), verifrt.UF("DHFY", 32, key, k))
}

func (c VCurve) Add(x1, y1, x2, y2 *big.Int) (*big.Int, *big.Int) { panic("VCurve.Add") }
func (c VCurve) Double(x1, y1 *big.Int) (*big.Int, *big.Int)      { panic("VCurve.Double") }
