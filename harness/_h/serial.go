package verifh

import (
	"github.com/tink-crypto/tink-go/v2/internal/protoserialization"
	"github.com/tink-crypto/tink-go/v2/internal/verifrt"
	"github.com/tink-crypto/tink-go/v2/internal/verifspec"
	"github.com/tink-crypto/tink-go/v2/key"
	tinkpb "github.com/tink-crypto/tink-go/v2/proto/tink_go_proto"
)

type KeySer interface {
	SerializeKey(key.Key) (*protoserialization.KeySerialization, error)
}
type KeyPar interface {
	ParseKey(*protoserialization.KeySerialization) (key.Key, error)
}
type ParSer interface {
	Serialize(key.Parameters) (*tinkpb.KeyTemplate, error)
}
type ParPar interface {
	Parse(*tinkpb.KeyTemplate) (key.Parameters, error)
}

// PrefixTypeOf maps the harness's prefix kind to the proto enum
// (0 TINK, 1 CRUNCHY, 2 LEGACY, 3 RAW, 4 WITH_ID_REQUIREMENT - ML-DSA's NoPrefixWithPrehashID only).
func PrefixTypeOf(kind int) tinkpb.OutputPrefixType {
	return [...]tinkpb.OutputPrefixType{tinkpb.OutputPrefixType_TINK, tinkpb.OutputPrefixType_CRUNCHY, tinkpb.OutputPrefixType_LEGACY, tinkpb.OutputPrefixType_RAW, tinkpb.OutputPrefixType_WITH_ID_REQUIREMENT}[kind]
}

// CheckKeyRoundTrip: serialize -> parse yields an Equal key whose serialization is identical;
// the proto prefix type and id requirement mirror the variant; parameters round-trip too.
func CheckKeyRoundTrip(k key.Key, ks KeySer, kp KeyPar, ps ParSer, pp ParPar, kind int, id uint32, typeURL string, material tinkpb.KeyData_KeyMaterialType) {
	s1, err := ks.SerializeKey(k)
	verifrt.Assert(err == nil, "SerializeKey succeeds")
	verifrt.Assert(s1.OutputPrefixType() == PrefixTypeOf(kind), "variant <-> output prefix type")
	gotID, req := s1.IDRequirement()
	verifrt.Assert(req == (kind != 3) && gotID == id, "id requirement preserved (0 / none for RAW)")
	verifrt.Assert(s1.KeyData().GetTypeUrl() == typeURL && s1.KeyData().GetKeyMaterialType() == material, "type URL and key material type")
	k2, err := kp.ParseKey(s1)
	verifrt.Assert(err == nil, "ParseKey accepts its own serialization")
	verifrt.Assert(k2.Equal(k) && k.Equal(k2), "parsed key Equal to the original")
	checkOutputPrefix(k, kind, id, "key")
	checkOutputPrefix(k2, kind, id, "parsed key")
	s2, err := ks.SerializeKey(k2)
	verifrt.Assert(err == nil, "second SerializeKey succeeds")
	verifrt.AssertEq(s2.KeyData().GetValue(), s1.KeyData().GetValue(), "second serialization is byte-identical")
	verifrt.Assert(s2.OutputPrefixType() == s1.OutputPrefixType(), "second serialization: same prefix type")
	id2, req2 := s2.IDRequirement()
	verifrt.Assert(id2 == gotID && req2 == req, "second serialization: same id requirement")
	CheckParamsRoundTrip(k.Parameters(), ps, pp, kind, typeURL)
	verifrt.Reach("roundtrip-ok")
}

// CheckParamsRoundTrip: Serialize -> Parse yields Equal parameters whose template is
// byte-identical; the template's type URL and prefix type mirror the parameters.
func CheckParamsRoundTrip(p key.Parameters, ps ParSer, pp ParPar, kind int, typeURL string) {
	t1, err := ps.Serialize(p)
	verifrt.Assert(err == nil, "Serialize(parameters) succeeds")
	verifrt.Assert(t1.GetTypeUrl() == typeURL && t1.GetOutputPrefixType() == PrefixTypeOf(kind), "template type URL and prefix type")
	p2, err := pp.Parse(t1)
	verifrt.Assert(err == nil, "Parse accepts its own template")
	verifrt.Assert(p2.Equal(p) && p.Equal(p2), "parsed parameters Equal to the original")
	t2, err := ps.Serialize(p2)
	verifrt.Assert(err == nil, "second Serialize succeeds")
	verifrt.AssertEq(t2.GetValue(), t1.GetValue(), "second template is byte-identical")
	verifrt.Assert(t2.GetTypeUrl() == t1.GetTypeUrl() && t2.GetOutputPrefixType() == t1.GetOutputPrefixType(), "second template: same type URL and prefix type")
	verifrt.Reach("params-roundtrip-ok")
}

// CheckKeyRoundTripOnly is the key part of CheckKeyRoundTrip without the parameters round
// trip: for key types whose parameters are deliberately not representable as a key template
// (JWT CustomKID strategy: the template has no custom-kid field and parses as IgnoredKID).
func CheckKeyRoundTripOnly(k key.Key, ks KeySer, kp KeyPar, kind int, id uint32, typeURL string, material tinkpb.KeyData_KeyMaterialType) {
	s1, err := ks.SerializeKey(k)
	verifrt.Assert(err == nil, "SerializeKey succeeds")
	verifrt.Assert(s1.OutputPrefixType() == PrefixTypeOf(kind), "variant <-> output prefix type")
	gotID, req := s1.IDRequirement()
	verifrt.Assert(req == (kind != 3) && gotID == id, "id requirement preserved (0 / none for RAW)")
	verifrt.Assert(s1.KeyData().GetTypeUrl() == typeURL && s1.KeyData().GetKeyMaterialType() == material, "type URL and key material type")
	k2, err := kp.ParseKey(s1)
	verifrt.Assert(err == nil, "ParseKey accepts its own serialization")
	verifrt.Assert(k2.Equal(k) && k.Equal(k2), "parsed key Equal to the original")
	checkOutputPrefix(k, kind, id, "key")
	checkOutputPrefix(k2, kind, id, "parsed key")
	s2, err := ks.SerializeKey(k2)
	verifrt.Assert(err == nil, "second SerializeKey succeeds")
	verifrt.AssertEq(s2.KeyData().GetValue(), s1.KeyData().GetValue(), "second serialization is byte-identical")
	verifrt.Assert(s2.OutputPrefixType() == s1.OutputPrefixType(), "second serialization: same prefix type")
	id2, req2 := s2.IDRequirement()
	verifrt.Assert(id2 == gotID && req2 == req, "second serialization: same id requirement")
	verifrt.Reach("roundtrip-ok")
}

// CheckParamsLossyRoundTrip is for parameters that are by design not representable as a key
// template (JWT CustomKID: the key format has no custom-kid field): Serialize succeeds, the
// template parses to `expect` (the documented image, not Equal to p), and serializing `expect`
// gives the byte-identical template.
func CheckParamsLossyRoundTrip(p, expect key.Parameters, ps ParSer, pp ParPar, kind int, typeURL string) {
	t1, err := ps.Serialize(p)
	verifrt.Assert(err == nil, "Serialize(parameters) succeeds")
	verifrt.Assert(t1.GetTypeUrl() == typeURL && t1.GetOutputPrefixType() == PrefixTypeOf(kind), "template type URL and prefix type")
	p2, err := pp.Parse(t1)
	verifrt.Assert(err == nil, "Parse accepts its own template")
	verifrt.Assert(p2.Equal(expect) && expect.Equal(p2) && !p2.Equal(p) && !p.Equal(p2), "template parses to the documented image of the parameters")
	t2, err := ps.Serialize(p2)
	verifrt.Assert(err == nil, "second Serialize succeeds")
	verifrt.AssertEq(t2.GetValue(), t1.GetValue(), "second template is byte-identical")
	verifrt.Assert(t2.GetTypeUrl() == t1.GetTypeUrl() && t2.GetOutputPrefixType() == t1.GetOutputPrefixType(), "second template: same type URL and prefix type")
	verifrt.Reach("params-roundtrip-ok")
}

type prefixed interface{ OutputPrefix() []byte }

// checkOutputPrefix: a key object that reports an output prefix reports the standard one for
// its variant and id: 0x01 || be32(id) for TINK, 0x00 || be32(id) for CRUNCHY and LEGACY, none
// for RAW.
func checkOutputPrefix(k key.Key, kind int, id uint32, what string) {
	if kind > 3 {
		return
	}
	if p, ok := k.(prefixed); ok {
		verifrt.AssertEq(p.OutputPrefix(), verifspec.Prefix(kind, id), what+": output prefix is the standard one for the variant and id")
	}
}
