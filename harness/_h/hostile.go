package verifh

import (
	"github.com/tink-crypto/tink-go/v2/internal/protoserialization"
	"github.com/tink-crypto/tink-go/v2/internal/verifrt"
	"github.com/tink-crypto/tink-go/v2/internal/verifspec"
	"github.com/tink-crypto/tink-go/v2/key"
	tinkpb "github.com/tink-crypto/tink-go/v2/proto/tink_go_proto"
)

// Hostile is the envelope of a key handed to a per-type parser by an untrusted keyset:
// everything around the key message is arbitrary.
type Hostile struct {
	URLOK    bool                          // the key data carries the parser's own type URL
	Material tinkpb.KeyData_KeyMaterialType // any int32
	Prefix   tinkpb.OutputPrefixType       // any int32
	ID       uint32                        // any
	KS       *protoserialization.KeySerialization
	env      int
	// ForeignURL, if set, is used as the wrong type URL (e.g. the sibling private/public key type's).
	ForeignURL string
}

// foreignURL is a well-formed type URL of some other key type.
const foreignURL = "type.googleapis.com/google.crypto.tink.SomeOtherKey"

// NewHostile draws the envelope: which type URL the key data carries (own / foreign / empty /
// nil key data), and an arbitrary key material type, output prefix type and id requirement
// (any int32 / uint32, incl. values outside the enums). Call it BEFORE building the key
// message: when the envelope is already wrong (no own type URL) the body's length case
// splits collapse to their first candidate (see Len), which keeps the path count linear
// (quick tier; the thorough tier takes the full cross product).
func NewHostile() *Hostile {
	h := &Hostile{
		Material: tinkpb.KeyData_KeyMaterialType(verifrt.Int32("material")),
		Prefix:   tinkpb.OutputPrefixType(verifrt.Int32("prefix")),
		ID:       verifrt.Uint32("id"),
	}
	h.env = verifrt.Choice("envelope", 4)
	h.URLOK = h.env == 0
	return h
}

// Len case-splits a length of the key message over cands (own type URL), or returns
// cands[0] - by convention a valid length - when the envelope is wrong anyway.
func (h *Hostile) Len(name string, cands ...int) int {
	if !h.URLOK && !verifrt.Thorough() {
		return cands[0]
	}
	return cands[verifrt.Choice(name, len(cands))]
}

// Shape is Len for structural variants (nil sub-messages ...): 0 is the complete message.
func (h *Hostile) Shape(name string, n int) int {
	if !h.URLOK && !verifrt.Thorough() {
		return 0
	}
	return verifrt.Choice(name, n)
}

// Wrap puts value (the marshalled key message) into a KeySerialization with the drawn
// envelope. It returns false if NewKeySerialization itself refuses the envelope, which it
// must do exactly for RAW with a non-zero id.
func (h *Hostile) Wrap(typeURL string, value []byte) bool {
	var kd *tinkpb.KeyData
	switch h.env {
	case 0:
		kd = &tinkpb.KeyData{TypeUrl: typeURL, Value: value, KeyMaterialType: h.Material}
	case 1:
		u := foreignURL
		if h.ForeignURL != "" {
			u = h.ForeignURL
		}
		kd = &tinkpb.KeyData{TypeUrl: u, Value: value, KeyMaterialType: h.Material}
	case 2:
		kd = &tinkpb.KeyData{TypeUrl: "", Value: value, KeyMaterialType: h.Material}
	case 3:
		kd = nil
	}
	ks, err := protoserialization.NewKeySerialization(kd, h.Prefix, h.ID)
	rawWithID := h.Prefix == tinkpb.OutputPrefixType_RAW && h.ID != 0
	verifrt.Assert((err != nil) == rawWithID, "NewKeySerialization refuses exactly RAW with a non-zero id requirement")
	if err != nil {
		verifrt.Reach("envelope-refused")
		return false
	}
	verifrt.Assert(ks != nil, "NewKeySerialization: no error => non-nil")
	h.KS = ks
	return true
}

// Kind maps the four prefix types every key type knows to the harness's prefix kind
// (0 TINK, 1 CRUNCHY, 2 LEGACY, 3 RAW), -1 for everything else.
func (h *Hostile) Kind() int {
	switch h.Prefix {
	case tinkpb.OutputPrefixType_TINK:
		return 0
	case tinkpb.OutputPrefixType_CRUNCHY:
		return 1
	case tinkpb.OutputPrefixType_LEGACY:
		return 2
	case tinkpb.OutputPrefixType_RAW:
		return 3
	}
	return -1
}

// EnvelopeValid: right type URL, the expected material type, one of the four known prefix
// types (UNKNOWN_PREFIX, WITH_ID_REQUIREMENT and out-of-range values excluded unless the
// caller says otherwise) and no id requirement for RAW.
func (h *Hostile) EnvelopeValid(material tinkpb.KeyData_KeyMaterialType, legacyOK bool) bool {
	mask := uint(0b1011)
	if legacyOK {
		mask = 0b1111
	}
	return h.EnvelopeValidKinds(material, mask)
}

// EnvelopeValidKinds is EnvelopeValid with the supported prefix kinds given as a bit mask
// (bit 0 TINK, 1 CRUNCHY, 2 LEGACY, 3 RAW).
func (h *Hostile) EnvelopeValidKinds(material tinkpb.KeyData_KeyMaterialType, kinds uint) bool {
	k := h.Kind()
	if k < 0 || kinds&(1<<uint(k)) == 0 {
		return false
	}
	if k == 3 && h.ID != 0 {
		return false
	}
	return h.URLOK && h.Material == material
}

// CheckParsedEnvelope asserts that an accepted key reports exactly the envelope's id
// requirement and the output prefix Tink defines for (prefix type, id).
func (h *Hostile) CheckParsedEnvelope(k key.Key) {
	verifrt.Assert(k != nil, "no error => non-nil key")
	if k == nil {
		return
	}
	kind := h.Kind()
	id, req := k.IDRequirement()
	verifrt.Assert(req == (kind != 3), "accepted key: has an id requirement iff prefix type is not RAW")
	verifrt.Assert(k.Parameters() != nil && k.Parameters().HasIDRequirement() == req, "accepted key: parameters agree on the id requirement")
	if kind == 3 {
		verifrt.Assert(id == 0, "accepted RAW key: id requirement 0")
	} else {
		verifrt.Assert(id == h.ID, "accepted key: id requirement is the envelope's")
	}
}

// WantPrefix is Tink's output prefix for the envelope (kind must be 0..3).
func (h *Hostile) WantPrefix() []byte { return verifspec.Prefix(h.Kind(), h.ID) }

// HostileLen case-splits a length over the given candidates.
func HostileLen(name string, cands ...int) int {
	return cands[verifrt.Choice(name, len(cands))]
}

// HostileTemplate builds a key template around value with the right / a foreign / an empty
// type URL and an arbitrary prefix type; nil template is one of the cases.
func HostileTemplate(typeURL string, value []byte) (t *tinkpb.KeyTemplate, urlOK bool, prefix tinkpb.OutputPrefixType) {
	prefix = tinkpb.OutputPrefixType(verifrt.Int32("tprefix"))
	switch verifrt.Choice("tenvelope", 3) {
	case 0:
		return &tinkpb.KeyTemplate{TypeUrl: typeURL, Value: value, OutputPrefixType: prefix}, true, prefix
	case 1:
		return &tinkpb.KeyTemplate{TypeUrl: foreignURL, Value: value, OutputPrefixType: prefix}, false, prefix
	}
	return &tinkpb.KeyTemplate{TypeUrl: "", Value: value, OutputPrefixType: prefix}, false, prefix
}

// KindOf maps a prefix type to the harness's kind (see Hostile.Kind).
func KindOf(p tinkpb.OutputPrefixType) int { return (&Hostile{Prefix: p}).Kind() }

// DigestLen is the digest length in bytes of a proto HashType value
// (common.proto: SHA1 = 1, SHA384 = 2, SHA256 = 3, SHA512 = 4, SHA224 = 5), 0 for
// UNKNOWN_HASH and for every value outside the enum.
func DigestLen(hash int32) int {
	switch hash {
	case 1:
		return 20
	case 2:
		return 48
	case 3:
		return 32
	case 4:
		return 64
	case 5:
		return 28
	}
	return 0
}
