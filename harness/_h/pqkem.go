package verifh

import (
	"crypto/ecdh"
	"crypto/mlkem"
	"crypto/rand"
	"crypto/sha3"
	"errors"
	"io"

	"golang.org/x/crypto/curve25519"

	"github.com/tink-crypto/tink-go/v2/internal/verifrt"
)

// KEMModel is the engine-side model of the standard-library building blocks of the HPKE
// KEMs (crypto/mlkem, crypto/ecdh, x/crypto/curve25519.X25519, crypto/sha3). The
// cryptographic cores are uninterpreted functions; what is modelled is each API's contract:
//
//   - length checks of every constructor / operation (wrong length => error, never a panic);
//   - "is a valid encoding" (ML-KEM encapsulation key canonical, NIST point on the curve,
//     NIST scalar in range) as uninterpreted predicates that hold for everything the model
//     itself produced;
//   - ML-KEM: pk = PK(seed); Encapsulate draws ONE fresh 32-byte message m from the
//     randomness model (logged like a crypto/rand draw) and returns
//     (ENC_SS(pk, m), ENC_CT(pk, m)); Decapsulate(seed, ct) returns the encapsulated secret
//     when ct was produced on this path for PK(seed) (correctness), an unrelated DEC(seed, ct)
//     otherwise (implicit rejection);
//   - Diffie-Hellman: X25519(k, u) / ECDH uninterpreted, with commutativity
//     DH(a, PUB(b)) = DH(b, PUB(a)) through a memo of the public keys the model produced;
//   - SHA3-256 and SHAKE256 uninterpreted functions of the absorbed message, the streaming
//     (New256/NewSHAKE256) and one-shot (Sum256/SumSHAKE256) APIs agreeing.
//
// Nothing here runs natively (Summarize is a no-op there): harnesses using it are EngineOnly.
type KEMModel struct {
	objs []any
	vals [][]byte

	sha3s  []*sha3.SHA3
	sha3b  []*[]byte
	shakes []*sha3.SHAKE
	shakeS []*shakeState

	encs []mlkemEnc
	pubs []pubEntry
	dhs  []dhEntry

	// MLKEMDraws lists, per ML-KEM encapsulation, the index of its message in the draw log.
	MLKEMDraws []int
	// GenDraws lists, per crypto/ecdh GenerateKey, the index of its draw.
	GenDraws []int
}

type shakeState struct {
	msg      []byte
	pos      int
	squeezed bool
}

type mlkemEnc struct {
	v          string
	ek, ct, ss []byte
}

type pubEntry struct {
	grp     string
	sk, pub []byte
}

type dhEntry struct {
	grp       string
	a, b, out []byte
}

func NewKEMModel() *KEMModel { return &KEMModel{} }

func (m *KEMModel) put(p any, v []byte) { m.objs = append(m.objs, p); m.vals = append(m.vals, v) }
func (m *KEMModel) get(p any) []byte {
	for i := range m.objs {
		if m.objs[i] == p {
			return m.vals[i]
		}
	}
	panic("KEMModel: unknown key object")
}

func clone(b []byte) []byte { return append([]byte{}, b...) }

// ---------------------------------------------------------------- SHA-3

func SHA3_256(msg []byte) []byte { return verifrt.UF("SHA3_256", 32, msg) }

// SHAKE256 returns the first n output bytes (32-byte chunks, prefix-consistent).
func SHAKE256(msg []byte, n int) []byte {
	out := make([]byte, 0, n+32)
	for k := 0; len(out) < n; k++ {
		out = append(out, verifrt.UF("SHAKE_256", 32, msg, []byte{byte(k), byte(k >> 8)})...)
	}
	return out[:n]
}

func (m *KEMModel) StubSHA3() {
	verifrt.Summarize("crypto/sha3.New256", func() *sha3.SHA3 {
		h := &sha3.SHA3{}
		m.sha3s = append(m.sha3s, h)
		m.sha3b = append(m.sha3b, new([]byte))
		return h
	})
	buf := func(h *sha3.SHA3) *[]byte {
		for i := range m.sha3s {
			if m.sha3s[i] == h {
				return m.sha3b[i]
			}
		}
		panic("KEMModel: unknown SHA3 object")
	}
	verifrt.Summarize("crypto/sha3.SHA3).Write", func(h *sha3.SHA3, p []byte) (int, error) {
		b := buf(h)
		*b = append(*b, p...)
		return len(p), nil
	})
	verifrt.Summarize("crypto/sha3.SHA3).Sum", func(h *sha3.SHA3, p []byte) []byte {
		return append(p, SHA3_256(clone(*buf(h)))...)
	})
	verifrt.Summarize("crypto/sha3.Sum256", func(data []byte) [32]byte {
		var out [32]byte
		copy(out[:], SHA3_256(clone(data)))
		return out
	})
	verifrt.Summarize("crypto/sha3.NewSHAKE256", func() *sha3.SHAKE {
		s := &sha3.SHAKE{}
		m.shakes = append(m.shakes, s)
		m.shakeS = append(m.shakeS, &shakeState{})
		return s
	})
	st := func(s *sha3.SHAKE) *shakeState {
		for i := range m.shakes {
			if m.shakes[i] == s {
				return m.shakeS[i]
			}
		}
		panic("KEMModel: unknown SHAKE object")
	}
	verifrt.Summarize("crypto/sha3.SHAKE).Write", func(s *sha3.SHAKE, p []byte) (int, error) {
		x := st(s)
		if x.squeezed {
			panic("sha3: Write after Read")
		}
		x.msg = append(x.msg, p...)
		return len(p), nil
	})
	verifrt.Summarize("crypto/sha3.SHAKE).Read", func(s *sha3.SHAKE, p []byte) (int, error) {
		x := st(s)
		x.squeezed = true
		all := SHAKE256(clone(x.msg), x.pos+len(p))
		copy(p, all[x.pos:])
		x.pos += len(p)
		return len(p), nil
	})
	verifrt.Summarize("crypto/sha3.SumSHAKE256", func(data []byte, length int) []byte {
		return SHAKE256(clone(data), length)
	})
}

// ---------------------------------------------------------------- ML-KEM

func mlkemSizes(v string) (npk, nct int) {
	if v == "768" {
		return 1184, 1088
	}
	return 1568, 1568
}

// MLKEMEKValid: "the encapsulation key is a canonical encoding" (FIPS 203 §7.2 modulus check).
func MLKEMEKValid(v string, ek []byte) bool {
	return verifrt.UF("MLKEM"+v+"_EKVALID", 1, ek)[0]&1 == 1
}

// MLKEMPub is the encapsulation key of the 64-byte seed d || z.
func MLKEMPub(v string, seed []byte) []byte {
	npk, _ := mlkemSizes(v)
	pk := verifrt.UF("MLKEM"+v+"_PK", npk, seed)
	verifrt.Assume(MLKEMEKValid(v, pk))
	return pk
}

// MLKEMEncapsDerand is ML-KEM.Encaps_internal(ek, m).
func MLKEMEncapsDerand(v string, ek, msg []byte) (ss, ct []byte) {
	_, nct := mlkemSizes(v)
	return verifrt.UF("MLKEM"+v+"_ENC_SS", 32, ek, msg), verifrt.UF("MLKEM"+v+"_ENC_CT", nct, ek, msg)
}

// MLKEMDecaps is ML-KEM.Decaps for the key of `seed`.
func (m *KEMModel) MLKEMDecaps(v string, seed, ct []byte) []byte {
	pk := MLKEMPub(v, seed)
	for _, e := range m.encs {
		if e.v == v && verifrt.SameBytes(e.ek, pk) && verifrt.SameBytes(e.ct, ct) {
			return clone(e.ss)
		}
	}
	return verifrt.UF("MLKEM"+v+"_DEC", 32, seed, ct)
}

// MLKEMNoteEncaps records an encapsulation (for decapsulation correctness) made by a
// reference computation; the stubs record theirs themselves.
func (m *KEMModel) MLKEMNoteEncaps(v string, ek, ct, ss []byte) {
	m.encs = append(m.encs, mlkemEnc{v, clone(ek), clone(ct), clone(ss)})
}

func (m *KEMModel) newEK(v string, b []byte) (any, error) {
	npk, _ := mlkemSizes(v)
	if len(b) != npk {
		return nil, errors.New("mlkem: invalid encapsulation key length")
	}
	if !MLKEMEKValid(v, b) {
		return nil, errors.New("mlkem: invalid encapsulation key")
	}
	return nil, nil
}

func (m *KEMModel) encapsulate(v string, ek []byte) (ss, ct []byte) {
	m.MLKEMDraws = append(m.MLKEMDraws, verifrt.Draws())
	msg := verifrt.FreshBytes("rand", 32)
	ss, ct = MLKEMEncapsDerand(v, ek, msg)
	m.MLKEMNoteEncaps(v, ek, ct, ss)
	return clone(ss), clone(ct)
}

func (m *KEMModel) decapsulate(v string, seed, ct []byte) ([]byte, error) {
	_, nct := mlkemSizes(v)
	if len(ct) != nct {
		return nil, errors.New("mlkem: invalid ciphertext length")
	}
	return m.MLKEMDecaps(v, seed, ct), nil
}

func (m *KEMModel) StubMLKEM() {
	verifrt.Summarize("crypto/mlkem.NewEncapsulationKey768", func(b []byte) (*mlkem.EncapsulationKey768, error) {
		if _, err := m.newEK("768", b); err != nil {
			return nil, err
		}
		k := &mlkem.EncapsulationKey768{}
		m.put(k, clone(b))
		return k, nil
	})
	verifrt.Summarize("crypto/mlkem.NewEncapsulationKey1024", func(b []byte) (*mlkem.EncapsulationKey1024, error) {
		if _, err := m.newEK("1024", b); err != nil {
			return nil, err
		}
		k := &mlkem.EncapsulationKey1024{}
		m.put(k, clone(b))
		return k, nil
	})
	verifrt.Summarize("crypto/mlkem.EncapsulationKey768).Encapsulate", func(k *mlkem.EncapsulationKey768) ([]byte, []byte) {
		return m.encapsulate("768", m.get(k))
	})
	verifrt.Summarize("crypto/mlkem.EncapsulationKey1024).Encapsulate", func(k *mlkem.EncapsulationKey1024) ([]byte, []byte) {
		return m.encapsulate("1024", m.get(k))
	})
	verifrt.Summarize("crypto/mlkem.EncapsulationKey768).Bytes", func(k *mlkem.EncapsulationKey768) []byte { return clone(m.get(k)) })
	verifrt.Summarize("crypto/mlkem.EncapsulationKey1024).Bytes", func(k *mlkem.EncapsulationKey1024) []byte { return clone(m.get(k)) })
	verifrt.Summarize("crypto/mlkem.NewDecapsulationKey768", func(seed []byte) (*mlkem.DecapsulationKey768, error) {
		if len(seed) != 64 {
			return nil, errors.New("mlkem: invalid seed length")
		}
		k := &mlkem.DecapsulationKey768{}
		m.put(k, clone(seed))
		return k, nil
	})
	verifrt.Summarize("crypto/mlkem.NewDecapsulationKey1024", func(seed []byte) (*mlkem.DecapsulationKey1024, error) {
		if len(seed) != 64 {
			return nil, errors.New("mlkem: invalid seed length")
		}
		k := &mlkem.DecapsulationKey1024{}
		m.put(k, clone(seed))
		return k, nil
	})
	verifrt.Summarize("crypto/mlkem.DecapsulationKey768).Bytes", func(k *mlkem.DecapsulationKey768) []byte { return clone(m.get(k)) })
	verifrt.Summarize("crypto/mlkem.DecapsulationKey1024).Bytes", func(k *mlkem.DecapsulationKey1024) []byte { return clone(m.get(k)) })
	verifrt.Summarize("crypto/mlkem.DecapsulationKey768).EncapsulationKey", func(k *mlkem.DecapsulationKey768) *mlkem.EncapsulationKey768 {
		e := &mlkem.EncapsulationKey768{}
		m.put(e, MLKEMPub("768", m.get(k)))
		return e
	})
	verifrt.Summarize("crypto/mlkem.DecapsulationKey1024).EncapsulationKey", func(k *mlkem.DecapsulationKey1024) *mlkem.EncapsulationKey1024 {
		e := &mlkem.EncapsulationKey1024{}
		m.put(e, MLKEMPub("1024", m.get(k)))
		return e
	})
	verifrt.Summarize("crypto/mlkem.DecapsulationKey768).Decapsulate", func(k *mlkem.DecapsulationKey768, ct []byte) ([]byte, error) {
		return m.decapsulate("768", m.get(k), ct)
	})
	verifrt.Summarize("crypto/mlkem.DecapsulationKey1024).Decapsulate", func(k *mlkem.DecapsulationKey1024, ct []byte) ([]byte, error) {
		return m.decapsulate("1024", m.get(k), ct)
	})
}

// ---------------------------------------------------------------- Diffie-Hellman groups

func (m *KEMModel) notePub(grp string, sk, pub []byte) {
	for _, e := range m.pubs {
		if e.grp == grp && verifrt.SameBytes(e.pub, pub) {
			return
		}
	}
	m.pubs = append(m.pubs, pubEntry{grp, clone(sk), clone(pub)})
}

// dh: DH(k, point) with commutativity over the public keys the model produced.
func (m *KEMModel) dh(grp string, n int, k, point []byte) []byte {
	for _, p := range m.pubs {
		if p.grp == grp && verifrt.SameBytes(p.pub, point) {
			// point = PUB(p.sk): DH(k, PUB(b)) = DH(b, PUB(k))
			for _, d := range m.dhs {
				if d.grp == grp && verifrt.SameBytes(d.a, p.sk) && verifrt.SameBytes(d.b, k) {
					return clone(d.out)
				}
			}
			out := verifrt.UF("DH_"+grp, n, k, point)
			m.dhs = append(m.dhs, dhEntry{grp, clone(k), clone(p.sk), out})
			return clone(out)
		}
	}
	return verifrt.UF("DH_"+grp, n, k, point)
}

// X25519Base is the u-coordinate 9 (RFC 7748 §4.1).
var X25519Base = []byte{9, 0, 0, 0, 0, 0, 0, 0, 0, 0, 0, 0, 0, 0, 0, 0, 0, 0, 0, 0, 0, 0, 0, 0, 0, 0, 0, 0, 0, 0, 0, 0}

// X25519 models x/crypto/curve25519.X25519 (both arguments must be 32 bytes; the
// all-zero-output rejection of low-order points is not modelled).
func (m *KEMModel) X25519(scalar, point []byte) ([]byte, error) {
	if len(point) != 32 {
		return nil, errors.New("crypto/ecdh: invalid public key")
	}
	if len(scalar) != 32 {
		return nil, errors.New("crypto/ecdh: invalid private key size")
	}
	if verifrt.SameBytes(point, X25519Base) {
		pub := verifrt.UF("DH_X25519", 32, scalar, point)
		m.notePub("X25519", scalar, pub)
		return clone(pub), nil
	}
	return m.dh("X25519", 32, scalar, point), nil
}

// StubX25519 replaces curve25519.X25519 and gives curve25519.Basepoint the value its
// init() function (not run by the engine) gives it.
func (m *KEMModel) StubX25519() {
	curve25519.Basepoint = clone(X25519Base)
	verifrt.Summarize("golang.org/x/crypto/curve25519.X25519", func(scalar, point []byte) ([]byte, error) {
		return m.X25519(scalar, point)
	})
}

// NIST curves through crypto/ecdh. One curve per path.
type NISTModel struct {
	M              *KEMModel
	Name           string
	Nsk, Npk, Ndh  int
}

func (c *NISTModel) ScalarOK(sk []byte) bool {
	return verifrt.UF("SCALAROK_"+c.Name, 1, sk)[0]&1 == 1
}
func (c *NISTModel) OnCurve(p []byte) bool {
	return verifrt.UF("ONCURVE_"+c.Name, 1, p)[0]&1 == 1
}

// Pub is the uncompressed SEC 1 encoding of sk*G.
func (c *NISTModel) Pub(sk []byte) []byte {
	pub := append([]byte{4}, verifrt.UF("PUB_"+c.Name, c.Npk-1, sk)...)
	verifrt.Assume(c.OnCurve(pub))
	c.M.notePub(c.Name, sk, pub)
	return pub
}

// DH is the x-coordinate of sk*point.
func (c *NISTModel) DH(sk, point []byte) []byte { return c.M.dh(c.Name, c.Ndh, sk, point) }

func (m *KEMModel) StubNIST(name string, nsk, npk, ndh int) *NISTModel {
	c := &NISTModel{M: m, Name: name, Nsk: nsk, Npk: npk, Ndh: ndh}
	verifrt.Summarize("crypto/ecdh.nistCurve).GenerateKey", func(_ any, r io.Reader) (*ecdh.PrivateKey, error) {
		verifrt.Assert(r == rand.Reader, "GenerateKey is handed crypto/rand.Reader")
		m.GenDraws = append(m.GenDraws, verifrt.Draws())
		sk := verifrt.FreshBytes("rand", nsk)
		verifrt.Assume(c.ScalarOK(sk)) // the real one samples until the scalar is in range
		k := &ecdh.PrivateKey{}
		m.put(k, clone(sk))
		return k, nil
	})
	verifrt.Summarize("crypto/ecdh.nistCurve).NewPrivateKey", func(_ any, sk []byte) (*ecdh.PrivateKey, error) {
		if len(sk) != nsk {
			return nil, errors.New("crypto/ecdh: invalid private key size")
		}
		if !c.ScalarOK(sk) {
			return nil, errors.New("crypto/ecdh: invalid private key")
		}
		k := &ecdh.PrivateKey{}
		m.put(k, clone(sk))
		return k, nil
	})
	verifrt.Summarize("crypto/ecdh.nistCurve).NewPublicKey", func(_ any, b []byte) (*ecdh.PublicKey, error) {
		if len(b) != npk || b[0] != 4 {
			return nil, errors.New("crypto/ecdh: invalid public key")
		}
		if !c.OnCurve(b) {
			return nil, errors.New("crypto/ecdh: invalid public key")
		}
		k := &ecdh.PublicKey{}
		m.put(k, clone(b))
		return k, nil
	})
	verifrt.Summarize("crypto/ecdh.PrivateKey).PublicKey", func(k *ecdh.PrivateKey) *ecdh.PublicKey {
		p := &ecdh.PublicKey{}
		m.put(p, c.Pub(m.get(k)))
		return p
	})
	verifrt.Summarize("crypto/ecdh.PrivateKey).Bytes", func(k *ecdh.PrivateKey) []byte { return clone(m.get(k)) })
	verifrt.Summarize("crypto/ecdh.PublicKey).Bytes", func(k *ecdh.PublicKey) []byte { return clone(m.get(k)) })
	verifrt.Summarize("crypto/ecdh.PrivateKey).ECDH", func(k *ecdh.PrivateKey, remote *ecdh.PublicKey) ([]byte, error) {
		return c.DH(m.get(k), m.get(remote)), nil
	})
	return c
}
