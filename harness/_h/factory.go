package verifh

import (
	"github.com/tink-crypto/tink-go/v2/internal/internalapi"
	"github.com/tink-crypto/tink-go/v2/internal/internalregistry"
	"github.com/tink-crypto/tink-go/v2/internal/protoserialization"
	"github.com/tink-crypto/tink-go/v2/internal/verifrt"
	"github.com/tink-crypto/tink-go/v2/internal/verifspec"
	"github.com/tink-crypto/tink-go/v2/key"
	"github.com/tink-crypto/tink-go/v2/keyset"
	"github.com/tink-crypto/tink-go/v2/monitoring"
	tinkpb "github.com/tink-crypto/tink-go/v2/proto/tink_go_proto"
)

// FKey is an opaque key for factory harnesses: only its prefix kind, id and the flag
// "its primitive is a legacy (non-full) one" matter to the factories.
type FKey struct {
	Idx    int
	Kind   int // 0 TINK, 1 CRUNCHY, 2 LEGACY, 3 RAW
	ID     uint32
	Legacy bool
	// Head: extra leading bytes of this key's ideal outputs (after its output prefix). Set by
	// the raw-collision harnesses on RAW keys so that a RAW key's output may start with
	// another key's 5-byte output prefix; nil otherwise.
	Head []byte
}

// WithHead returns p || k.Head in fresh memory.
func (k *FKey) WithHead(p []byte) []byte {
	return append(append([]byte{}, p...), k.Head...)
}

// RawCollisionSetup gives every RAW key of ks the same 5 symbolic leading output bytes and
// returns the index of the first ENABLED RAW key (-1 if none) and whether those bytes equal the
// output prefix of some other ENABLED key.
func RawCollisionSetup(ks *KS) (raw int, collides bool) {
	head := verifrt.Bytes("head", 5)
	raw = -1
	for i, k := range ks.Keys {
		if k.Kind == 3 {
			k.Head = head
			if raw < 0 && ks.Enabled(i) {
				raw = i
			}
		}
	}
	for i, k := range ks.Keys {
		if k.Kind != 3 && ks.Enabled(i) && verifrt.EqBytes(k.OutputPrefix(), head) {
			collides = true
		}
	}
	return raw, collides
}

type fParams struct{ req bool }

func (p *fParams) HasIDRequirement() bool      { return p.req }
func (p *fParams) Equal(o key.Parameters) bool { q, ok := o.(*fParams); return ok && q.req == p.req }

func (k *FKey) Parameters() key.Parameters    { return &fParams{req: k.Kind != 3} }
func (k *FKey) IDRequirement() (uint32, bool) { return k.req(), k.Kind != 3 }
func (k *FKey) req() uint32 {
	if k.Kind == 3 {
		return 0
	}
	return k.ID
}
func (k *FKey) Equal(o key.Key) bool { q, ok := o.(*FKey); return ok && q.Idx == k.Idx }
func (k *FKey) OutputPrefix() []byte  { return verifspec.Prefix(k.Kind, k.req()) }

// KS describes the symbolic keyset that was built.
type KS struct {
	Keys    []*FKey
	Status  []keyset.KeyStatus
	Primary int
	Handle  *keyset.Handle
}

func (ks *KS) Enabled(i int) bool { return ks.Status[i] == keyset.Enabled }

var knames = [...]string{"k0", "k1", "k2", "k3"}

// SymbolicKeyset builds, through the real keyset.Manager, a handle with 1..maxN keys: every
// key has a symbolic 32-bit id (distinct ids assumed: the handle invariant), a prefix kind
// among the first `kinds` of TINK/CRUNCHY/LEGACY/RAW, a status ENABLED/DISABLED/DESTROYED
// and a legacy-primitive flag; the primary is any ENABLED key. Monitoring annotations are
// set so that the factories create real loggers.
func SymbolicKeyset(maxN int, kindsOf []int, withLegacy bool) *KS {
	StubSerialization()
	n := 1 + verifrt.Choice("n", maxN)
	if n >= 3 && len(kindsOf) > 2 {
		// three keys (thorough tier): the first and the last prefix kind only (TINK / RAW for
		// every caller) and no legacy-primitive flag - the full product runs into millions of
		// paths; every kind and the legacy flag are covered for one and two keys
		kindsOf = []int{kindsOf[0], kindsOf[len(kindsOf)-1]}
		withLegacy = false
	}
	ks := &KS{}
	m := keyset.NewManager()
	m.SetAnnotations(map[string]string{"verif": "on"})
	for i := 0; i < n; i++ {
		k := &FKey{Idx: i, Kind: kindsOf[verifrt.Choice(knames[i]+".kind", len(kindsOf))], ID: verifrt.Uint32(knames[i] + ".id")}
		if withLegacy {
			k.Legacy = verifrt.Choice(knames[i]+".legacy", 2) == 1
		}
		for j := 0; j < i; j++ {
			verifrt.Assume(ks.Keys[j].ID != k.ID)
		}
		st := keyset.KeyStatus(1 + verifrt.Choice(knames[i]+".status", 3))
		_, err := m.AddKeyWithOpts(k, internalapi.Token{}, keyset.WithFixedID(k.ID), keyset.WithStatus(st))
		verifrt.Assert(err == nil, "manager accepts the key")
		ks.Keys = append(ks.Keys, k)
		ks.Status = append(ks.Status, st)
	}
	ks.Primary = verifrt.Choice("primary", n)
	verifrt.Assume(ks.Status[ks.Primary] == keyset.Enabled)
	verifrt.Assert(m.SetPrimary(ks.Keys[ks.Primary].ID) == nil, "SetPrimary succeeds for an ENABLED key")
	h, err := m.Handle()
	verifrt.Assert(err == nil, "Handle()")
	ks.Handle = h
	return ks
}

// StubSerialization replaces the registry-backed key serialization by a stub that reports
// the FKey's prefix type and id requirement.
func StubSerialization() {
	verifrt.Summarize("internal/protoserialization.SerializeKey", serializeFKey)
	if !verifrt.Symbolic() && !registered {
		// natively the same stub is registered with the real registry
		registered = true
		protoserialization.RegisterKeySerializer[*FKey](fkeySerializer{})
	}
}

var registered bool

type fkeySerializer struct{}

func (fkeySerializer) SerializeKey(k key.Key) (*protoserialization.KeySerialization, error) {
	return serializeFKey(k)
}

func serializeFKey(k key.Key) (*protoserialization.KeySerialization, error) {
	fk := k.(*FKey)
	pt := [...]tinkpb.OutputPrefixType{tinkpb.OutputPrefixType_TINK, tinkpb.OutputPrefixType_CRUNCHY, tinkpb.OutputPrefixType_LEGACY, tinkpb.OutputPrefixType_RAW}[fk.Kind]
	return protoserialization.NewKeySerialization(&tinkpb.KeyData{TypeUrl: "type.googleapis.com/google.crypto.tink.Stub", KeyMaterialType: tinkpb.KeyData_SYMMETRIC}, pt, fk.req())
}

// ---- recording monitoring client

type LogEvent struct {
	Primitive, API string
	Failure        bool
	KeyID          uint32
	N              int
}

type Rec struct{ Events []LogEvent }

type recLogger struct {
	r              *Rec
	primitive, api string
}

func (l *recLogger) Log(keyID uint32, n int) {
	l.r.Events = append(l.r.Events, LogEvent{l.primitive, l.api, false, keyID, n})
}
func (l *recLogger) LogKeyExport(keyID uint32) {}
func (l *recLogger) LogFailure() {
	l.r.Events = append(l.r.Events, LogEvent{l.primitive, l.api, true, 0, 0})
}

func (r *Rec) NewLogger(c *monitoring.Context) (monitoring.Logger, error) {
	return &recLogger{r: r, primitive: c.Primitive, api: c.APIFunction}, nil
}

// InstallMonitoring registers a recording client (call before building the keyset).
func InstallMonitoring() *Rec {
	r := &Rec{}
	internalregistry.ClearMonitoringClient()
	internalregistry.RegisterMonitoringClient(r)
	return r
}

// Last returns the last event for an API and whether there is exactly one since mark.
func (r *Rec) Since(mark int, api string) []LogEvent {
	var out []LogEvent
	for _, e := range r.Events[mark:] {
		if e.API == api {
			out = append(out, e)
		}
	}
	return out
}
