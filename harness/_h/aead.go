// Package verifh holds harness building blocks shared by the per-package harnesses.
package verifh

import (
	"github.com/tink-crypto/tink-go/v2/internal/verifmodels"
	"github.com/tink-crypto/tink-go/v2/internal/verifrt"
	"github.com/tink-crypto/tink-go/v2/internal/verifspec"
)

// AEAD is tink.AEAD (re-declared to avoid an import cycle with package tink's users).
type AEAD interface {
	Encrypt(plaintext, associatedData []byte) ([]byte, error)
	Decrypt(ciphertext, associatedData []byte) ([]byte, error)
}

// SealFn is the reference algorithm: everything after the output prefix, given the
// random value the implementation drew (iv / salt).
type SealFn func(rnd, pt, ad []byte) []byte

// Lens picks a length: every value in 0..max in the quick tier; in the thorough tier also the
// listed larger ones (block boundaries).
func Lens(name string, max int, more ...int) int {
	if !verifrt.Thorough() {
		return verifrt.Choice(name, max+1)
	}
	k := verifrt.Choice(name, max+1+len(more))
	if k <= max {
		return k
	}
	return more[k-max-1]
}

// AD returns an associated-data value: sel in [0,max] is that many symbolic bytes,
// sel == max+1 is the nil slice.
func AD(name string, sel, max int) []byte {
	if sel == max+1 {
		return nil
	}
	return verifrt.Bytes(name, sel)
}

// CheckAEAD decides, for one primitive instance: exactly one random draw of rndLen bytes
// per Encrypt (C20), ciphertext == prefix || seal(draw, pt, ad) (C01 format), round trip,
// nil and empty associated data interchangeable.
func CheckAEAD(a AEAD, prefix []byte, rndLen int, seal SealFn, maxPT, maxAD int) {
	n := Lens("n", maxPT, 15, 16, 17, 31, 32, 33)
	var ad []byte
	if verifrt.Thorough() {
		// nil, and every length in 0..maxAD plus one and two cipher blocks (+1)
		if sel := verifrt.Choice("adsel", 2); sel == 0 {
			ad = verifrt.Bytes("ad", Lens("adn", maxAD, 16, 17, 33))
		}
	} else {
		ad = AD("ad", verifrt.Choice("adsel", maxAD+2), maxAD)
	}
	pt := verifrt.Bytes("pt", n)
	d0 := verifrt.Draws()
	ct, err := a.Encrypt(pt, ad)
	verifrt.Assert(err == nil, "Encrypt succeeds")
	verifrt.Assert(verifrt.Draws() == d0+1, "Encrypt makes exactly one random draw")
	rnd := verifrt.DrawBytes(d0)
	verifrt.Assert(len(rnd) == rndLen, "the draw has the full IV/salt length")
	want := append(append([]byte{}, prefix...), seal(rnd, pt, ad)...)
	verifrt.AssertEq(ct, want, "ciphertext == prefix || nonce || standard-algorithm output")
	got, err := a.Decrypt(ct, ad)
	verifrt.Assert(err == nil, "Decrypt of own ciphertext succeeds")
	verifrt.AssertEq(got, pt, "Decrypt(Encrypt(pt)) == pt")
	if len(ad) == 0 {
		var other []byte
		if ad == nil {
			other = []byte{}
		}
		got2, err := a.Decrypt(ct, other)
		verifrt.Assert(err == nil, "nil and empty associated data are interchangeable")
		verifrt.AssertEq(got2, pt, "nil/empty associated data: same plaintext")
	}
	// A received frame "header || ciphertext" with the header as associated data: the two
	// arguments are adjacent parts of one buffer, so the associated-data slice's spare capacity
	// IS the ciphertext. Decryption must not depend on how the caller's buffers are laid out
	// (and must leave the frame alone).
	frame := append(append(make([]byte, 0, len(ad)+len(ct)), ad...), ct...)
	got3, err := a.Decrypt(frame[len(ad):], frame[:len(ad)])
	verifrt.Assert(err == nil, "Decrypt succeeds when associated data and ciphertext are adjacent parts of one buffer")
	verifrt.AssertEq(got3, pt, "adjacent buffers: same plaintext")
	verifrt.AssertEq(frame, append(append([]byte{}, ad...), ct...), "adjacent buffers: the caller's frame is unchanged")
	// the same on the sending side: header || plaintext
	frame2 := append(append(make([]byte, 0, len(ad)+len(pt)), ad...), pt...)
	ct2, err := a.Encrypt(frame2[len(ad):], frame2[:len(ad)])
	verifrt.Assert(err == nil, "Encrypt succeeds when associated data and plaintext are adjacent parts of one buffer")
	verifrt.AssertEq(frame2, append(append([]byte{}, ad...), pt...), "adjacent buffers: the caller's plaintext frame is unchanged")
	got4, err := a.Decrypt(ct2, ad)
	verifrt.Assert(err == nil, "adjacent buffers: the ciphertext decrypts")
	verifrt.AssertEq(got4, pt, "adjacent buffers: to the plaintext")
	verifrt.Observe("ctlen", len(ct))
	verifrt.Observe("ct", ct)
	verifrt.Reach("aead-ok")
}

// CheckAEADReject decides that nothing but the produced (ciphertext, ad) pair decrypts.
// Same-length candidates are the genuine values xor a symbolic delta (all strings of that
// length, replayable with the real primitives); truncations, extensions and associated
// data of another length are arbitrary. tagLen is where the documented format puts the tag.
func CheckAEADReject(a AEAD, tagLen int) {
	pt := verifrt.Bytes("pt", Lens("n", 2, 16, 17))
	ad := verifrt.Bytes("ad", Lens("m", 1, 17))
	ct0, err := a.Encrypt(pt, ad)
	verifrt.Assert(err == nil, "Encrypt succeeds")
	verifmodels.AdversaryPhase()
	var ct, ad2 []byte
	genuine := false
	switch verifrt.Choice("mode", 4) {
	case 0:
		dct := verifrt.Bytes("dct", len(ct0))
		dad := verifrt.Bytes("dad", len(ad))
		ct = verifspec.XorDelta(ct0, dct)
		ad2 = verifspec.XorDelta(ad, dad)
		genuine = verifrt.And(verifrt.EqBytes(dct, make([]byte, len(ct0))), verifrt.EqBytes(dad, make([]byte, len(ad))))
	case 1:
		l := verifrt.Choice("cut", len(ct0))
		ct = append([]byte{}, ct0[:l]...)
		ad2 = ad
	case 2:
		ct = append(append([]byte{}, ct0...), verifrt.Bytes("ext", 1+verifrt.Choice("extn", 2))...)
		ad2 = ad
	default:
		l := Lens("adlen", 2, 16, 17, 18)
		verifrt.Assume(l != len(ad))
		ct = ct0
		ad2 = verifrt.Bytes("ad2", l)
	}
	got, err := a.Decrypt(ct, ad2)
	verifrt.Assert((err == nil) == genuine, "Decrypt accepts exactly the produced (ciphertext, associated data)")
	if err != nil {
		verifrt.Assert(got == nil, "no plaintext on error")
	} else {
		verifrt.AssertEq(got, pt, "accepted => original plaintext")
	}
	verifrt.Reach("reject-ok")
}

// CheckAEADArbitrary: arbitrary bytes of every length up to maxLen never panic and
// never yield plaintext together with an error.
func CheckAEADArbitrary(a AEAD, maxLen, tagLen int) {
	n := verifrt.Choice("n", maxLen+1)
	ct := verifrt.Bytes("ct", n)
	ad := verifrt.Bytes("ad", verifrt.Choice("m", 2))
	verifmodels.AdversaryPhase()
	got, err := a.Decrypt(ct, ad)
	if err != nil {
		verifrt.Assert(got == nil, "no plaintext on error")
		verifrt.Reach("arbitrary-rejected")
	} else {
		verifrt.Reach("arbitrary-accepted")
	}
}

// KeySize picks 16 or 32.
func KeySize(name string) int {
	if verifrt.Choice(name, 2) == 0 {
		return 16
	}
	return 32
}
