package verifh

import "github.com/tink-crypto/tink-go/v2/internal/verifrt"

// The sufficient condition for C18: once constructed, a primitive is only read. Every
// object reachable from it is frozen; two calls of every method then run under the
// write-set monitor. (No interleavings are explored: if calls only read shared state and
// write call-local state, every interleaving returns what the sequential call returns.)

func CheckAEADShared(a AEAD) {
	n := verifrt.Freeze(a, "state shared between concurrent calls (AEAD primitive)")
	verifrt.Assert(n > 0, "the primitive has state to freeze")
	pt := verifrt.Bytes("pt", verifrt.Choice("n", 3))
	ad := verifrt.Bytes("ad", 1)
	c1, e1 := a.Encrypt(pt, ad)
	c2, e2 := a.Encrypt(pt, ad)
	verifrt.Assert(e1 == nil && e2 == nil, "Encrypt succeeds")
	p1, e3 := a.Decrypt(c1, ad)
	p2, e4 := a.Decrypt(c2, ad)
	verifrt.Assert(e3 == nil && e4 == nil, "Decrypt succeeds")
	verifrt.AssertEq(p1, pt, "first result unaffected by the second call")
	verifrt.AssertEq(p2, pt, "second result correct")
	verifrt.Reach("shared-ok")
}

func CheckMACShared(m MAC) {
	n := verifrt.Freeze(m, "state shared between concurrent calls (MAC primitive)")
	verifrt.Assert(n > 0, "the primitive has state to freeze")
	d1 := verifrt.Bytes("d1", verifrt.Choice("n1", 3))
	d2 := verifrt.Bytes("d2", verifrt.Choice("n2", 3))
	t1, e1 := m.ComputeMAC(d1)
	t2, e2 := m.ComputeMAC(d2)
	t1b, e3 := m.ComputeMAC(d1)
	verifrt.Assert(e1 == nil && e2 == nil && e3 == nil, "ComputeMAC succeeds")
	verifrt.AssertEq(t1b, t1, "a call in between does not change the result")
	verifrt.Assert(m.VerifyMAC(t1, d1) == nil && m.VerifyMAC(t2, d2) == nil, "tags verify")
	verifrt.Reach("shared-ok")
}
