package verifh

import (
	"bytes"
	"io"

	"github.com/tink-crypto/tink-go/v2/internal/internalregistry"
	"github.com/tink-crypto/tink-go/v2/internal/verifrt"
	"github.com/tink-crypto/tink-go/v2/monitoring"
)

// The sufficient condition for C18: once constructed, a primitive is only read. Every
// object reachable from it is frozen; two calls of every method then run under the
// write-set monitor. (No interleavings are explored: if calls only read shared state and
// write call-local state, every interleaving returns what the sequential call returns.)

// everythingLabel: beyond the primitive's own reachable state, everything else that existed
// before the calls (package-level variables, closure environments, tables) is read-only too.
const everythingLabel = "state that existed before the calls (globals, closure environments; shared between concurrent calls)"

func CheckAEADShared(a AEAD) {
	n := verifrt.Freeze(a, "state shared between concurrent calls (AEAD primitive)")
	verifrt.Assert(n > 0, "the primitive has state to freeze")
	pt := verifrt.Bytes("pt", verifrt.Choice("n", 3))
	ad := verifrt.Bytes("ad", 1)
	verifrt.FreezeAll(everythingLabel)
	c1, e1 := a.Encrypt(pt, ad)
	c2, e2 := a.Encrypt(pt, ad)
	verifrt.Assert(e1 == nil && e2 == nil, "Encrypt succeeds")
	p1, e3 := a.Decrypt(c1, ad)
	p2, e4 := a.Decrypt(c2, ad)
	verifrt.Assert(e3 == nil && e4 == nil, "Decrypt succeeds")
	verifrt.AssertEq(p1, pt, "first result unaffected by the second call")
	verifrt.AssertEq(p2, pt, "second result correct")
	verifrt.Reach("shared-ok")
}

func CheckMACShared(m MAC) {
	n := verifrt.Freeze(m, "state shared between concurrent calls (MAC primitive)")
	verifrt.Assert(n > 0, "the primitive has state to freeze")
	d1 := verifrt.Bytes("d1", verifrt.Choice("n1", 3))
	d2 := verifrt.Bytes("d2", verifrt.Choice("n2", 3))
	verifrt.FreezeAll(everythingLabel)
	t1, e1 := m.ComputeMAC(d1)
	t2, e2 := m.ComputeMAC(d2)
	t1b, e3 := m.ComputeMAC(d1)
	verifrt.Assert(e1 == nil && e2 == nil && e3 == nil, "ComputeMAC succeeds")
	verifrt.AssertEq(t1b, t1, "a call in between does not change the result")
	verifrt.Assert(m.VerifyMAC(t1, d1) == nil && m.VerifyMAC(t2, d2) == nil, "tags verify")
	verifrt.Reach("shared-ok")
}

// ---------------------------------------------------------------------------------------
// Further primitive classes (C18, same sufficient condition).

func CheckPRFShared(p PRF, outLen int) {
	n := verifrt.Freeze(p, "state shared between concurrent calls (PRF primitive)")
	verifrt.Assert(n > 0, "the primitive has state to freeze")
	x1 := verifrt.Bytes("x1", verifrt.Choice("n1", 3))
	x2 := verifrt.Bytes("x2", verifrt.Choice("n2", 3))
	verifrt.FreezeAll(everythingLabel)
	o1, e1 := p.ComputePRF(x1, uint32(outLen))
	o2, e2 := p.ComputePRF(x2, uint32(outLen))
	o1b, e3 := p.ComputePRF(x1, uint32(outLen))
	verifrt.Assert(e1 == nil && e2 == nil && e3 == nil, "ComputePRF succeeds")
	verifrt.Assert(len(o1) == outLen && len(o2) == outLen, "outputs have the requested length")
	verifrt.AssertEq(o1b, o1, "a call in between does not change the result")
	verifrt.Assert(!verifrt.SameArray(o1, o2) && !verifrt.SameArray(o1, o1b), "calls do not share output memory")
	verifrt.Reach("shared-ok")
}

func CheckDAEADShared(d DAEAD, maxPT int) {
	n := verifrt.Freeze(d, "state shared between concurrent calls (DAEAD primitive)")
	verifrt.Assert(n > 0, "the primitive has state to freeze")
	p1 := verifrt.Bytes("p1", verifrt.Choice("n1", maxPT+1))
	p2 := verifrt.Bytes("p2", verifrt.Choice("n2", 3))
	a1 := verifrt.Bytes("a1", 1)
	a2 := verifrt.Bytes("a2", verifrt.Choice("m2", 2))
	verifrt.FreezeAll(everythingLabel)
	c1, e1 := d.EncryptDeterministically(p1, a1)
	c2, e2 := d.EncryptDeterministically(p2, a2)
	c1b, e3 := d.EncryptDeterministically(p1, a1)
	verifrt.Assert(e1 == nil && e2 == nil && e3 == nil, "encryption succeeds")
	verifrt.AssertEq(c1b, c1, "a call in between does not change the result")
	g1, e4 := d.DecryptDeterministically(c1, a1)
	g2, e5 := d.DecryptDeterministically(c2, a2)
	verifrt.Assert(e4 == nil && e5 == nil, "decryption succeeds")
	verifrt.AssertEq(g1, p1, "first round trip")
	verifrt.AssertEq(g2, p2, "second round trip")
	verifrt.Reach("shared-ok")
}

// CheckSignShared freezes both the signer and the verifier (they may share key objects).
func CheckSignShared(s Signer, v Verifier) {
	n := verifrt.Freeze(s, "state shared between concurrent calls (signer)")
	m := verifrt.Freeze(v, "state shared between concurrent calls (verifier)")
	verifrt.Assert(n > 0 && m > 0, "the primitives have state to freeze")
	d1 := verifrt.Bytes("d1", verifrt.Choice("n1", 3))
	d2 := verifrt.Bytes("d2", verifrt.Choice("n2", 3))
	verifrt.FreezeAll(everythingLabel)
	s1, e1 := s.Sign(d1)
	s2, e2 := s.Sign(d2)
	verifrt.Assert(e1 == nil && e2 == nil, "Sign succeeds")
	verifrt.Assert(!verifrt.SameArray(s1, s2), "calls do not share output memory")
	verifrt.Assert(v.Verify(s1, d1) == nil, "first signature verifies after the second call")
	verifrt.Assert(v.Verify(s2, d2) == nil, "second signature verifies")
	verifrt.Reach("shared-ok")
}

// CheckStreamShared: only the primitive is frozen; the per-session writers and readers are
// created after the freeze and are call-local (mutable) state. Two sessions with different
// associated data and plaintexts are open at the same time, their calls interleaved.
func CheckStreamShared(a StreamingAEAD, lens []int) {
	n := verifrt.Freeze(a, "state shared between concurrent sessions (streaming AEAD primitive)")
	verifrt.Assert(n > 0, "the primitive has state to freeze")
	ad1 := verifrt.Bytes("ad1", 1)
	ad2 := verifrt.Bytes("ad2", verifrt.Choice("m2", 2))
	p1 := verifrt.Bytes("p1", lens[verifrt.Choice("l1", len(lens))])
	p2 := verifrt.Bytes("p2", lens[verifrt.Choice("l2", len(lens))])
	var sink1, sink2 bytes.Buffer
	w1, e1 := a.NewEncryptingWriter(&sink1, ad1)
	w2, e2 := a.NewEncryptingWriter(&sink2, ad2)
	verifrt.Assert(e1 == nil && e2 == nil, "both sessions open")
	h := len(p1) / 2
	_, e3 := w1.Write(p1[:h])
	_, e4 := w2.Write(p2)
	_, e5 := w1.Write(p1[h:])
	verifrt.Assert(e3 == nil && e4 == nil && e5 == nil, "interleaved writes succeed")
	verifrt.Assert(w2.Close() == nil && w1.Close() == nil, "both sessions close")
	r1, e6 := a.NewDecryptingReader(bytes.NewReader(sink1.Bytes()), ad1)
	r2, e7 := a.NewDecryptingReader(bytes.NewReader(sink2.Bytes()), ad2)
	verifrt.Assert(e6 == nil && e7 == nil, "both reading sessions open")
	g2, e8 := io.ReadAll(r2)
	g1, e9 := io.ReadAll(r1)
	verifrt.Assert(e8 == nil && e9 == nil, "both streams decrypt")
	verifrt.AssertEq(g1, p1, "first session's plaintext")
	verifrt.AssertEq(g2, p2, "second session's plaintext")
	verifrt.Reach("shared-ok")
}

// A monitoring client whose loggers keep no state: the factories create real loggers (the
// keysets of SymbolicKeyset carry annotations) and call them, but logging writes nothing.
// (A stateful client is the user's object; its thread safety is not Tink's.)
type roClient struct{}
type roLogger struct{}

func (roLogger) Log(uint32, int)     {}
func (roLogger) LogKeyExport(uint32) {}
func (roLogger) LogFailure()         {}
func (roClient) NewLogger(*monitoring.Context) (monitoring.Logger, error) {
	return roLogger{}, nil
}

func InstallROMonitoring() {
	internalregistry.ClearMonitoringClient()
	internalregistry.RegisterMonitoringClient(roClient{})
}
