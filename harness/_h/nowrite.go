package verifh

import (
	"bytes"
	"io"

	"github.com/tink-crypto/tink-go/v2/insecuresecretdataaccess"
	"github.com/tink-crypto/tink-go/v2/internal/verifrt"
	"github.com/tink-crypto/tink-go/v2/key"
	"github.com/tink-crypto/tink-go/v2/secretdata"
)

// Buf returns a caller-owned buffer of length n embedded in a larger array: `spare`
// further bytes of capacity follow it. All of it (including the spare capacity) is
// symbolic and protected: any store into it is a violation of C19.
func Buf(name string, n int, label string) []byte {
	// spare capacities: none, a byte or two, and more than a cipher block (an append of
	// block padding stays in place only if that much room is available)
	spare := [...]int{0, 1, 2, 17, 40}[verifrt.Choice(name+".spare", 5)]
	b := verifrt.BytesCap(name, n, n+spare)
	verifrt.Protect(b, label)
	return b
}

// MAC is tink.MAC.
type MAC interface {
	ComputeMAC(data []byte) ([]byte, error)
	VerifyMAC(mac, data []byte) error
}

// CheckAEADNoWrite: Encrypt/Decrypt never write into plaintext, associated data or
// ciphertext buffers (nor their spare capacity) and return freshly allocated memory.
func CheckAEADNoWrite(a AEAD) {
	pt := Buf("pt", verifrt.Choice("n", 3), "caller plaintext buffer")
	ad := Buf("ad", verifrt.Choice("m", 2), "caller associated-data buffer")
	ct, err := a.Encrypt(pt, ad)
	verifrt.Assert(err == nil, "Encrypt succeeds")
	verifrt.CheckProtected()
	verifrt.Assert(!verifrt.SameArray(ct, pt) && !verifrt.SameArray(ct, ad), "ciphertext shares no memory with the inputs")
	// decrypt from a caller buffer with spare capacity
	spare := verifrt.Choice("ct.spare", 3)
	cbuf := make([]byte, len(ct), len(ct)+spare)
	copy(cbuf, ct)
	verifrt.Protect(cbuf, "caller ciphertext buffer")
	got, err := a.Decrypt(cbuf, ad)
	verifrt.Assert(err == nil, "Decrypt succeeds")
	verifrt.CheckProtected()
	verifrt.Assert(!verifrt.SameArray(got, cbuf) && !verifrt.SameArray(got, ad), "plaintext shares no memory with the inputs")
	verifrt.Reach("nowrite-ok")
}

func CheckMACNoWrite(m MAC) {
	data := Buf("data", verifrt.Choice("n", 3), "caller data buffer")
	tag, err := m.ComputeMAC(data)
	verifrt.Assert(err == nil, "ComputeMAC succeeds")
	verifrt.CheckProtected()
	verifrt.Assert(!verifrt.SameArray(tag, data), "tag shares no memory with the input")
	spare := verifrt.Choice("tag.spare", 3)
	tbuf := make([]byte, len(tag), len(tag)+spare)
	copy(tbuf, tag)
	verifrt.Protect(tbuf, "caller tag buffer")
	verifrt.Assert(m.VerifyMAC(tbuf, data) == nil, "VerifyMAC accepts")
	verifrt.CheckProtected()
	verifrt.Reach("nowrite-ok")
}

// ---------------------------------------------------------------------------------------
// Further primitive classes (C19).

// Unprotect lifts the write monitor from a caller buffer (after checking it once more), so
// that the harness itself -- playing the caller who reuses its buffer after the call -- may
// overwrite it.
func Unprotect(b []byte) {
	verifrt.CheckProtected()
	verifrt.Unprotect(b)
}

// Scribble overwrites the whole capacity of a caller buffer with other values (the caller
// reuses its buffer after the call). Every byte changes.
func Scribble(b []byte) {
	full := b[:cap(b)]
	for i := range full {
		full[i] ^= 0xA5
	}
}

// PRF is tink's prf.PRF.
type PRF interface {
	ComputePRF(input []byte, outputLength uint32) ([]byte, error)
}

// CheckPRFNoWrite: ComputePRF never writes into the input buffer (nor its spare capacity);
// the output shares no memory with the input nor with any of the given internal slices of
// the primitive (key, salt, ...); overwriting the caller's input or the returned output
// afterwards does not change what the primitive computes later.
func CheckPRFNoWrite(p PRF, maxIn, outLen int, internals ...[]byte) {
	in := Buf("in", verifrt.Choice("n", maxIn+1), "caller PRF input buffer")
	in0 := append([]byte{}, in...)
	out, err := p.ComputePRF(in, uint32(outLen))
	verifrt.Assert(err == nil && len(out) == outLen, "ComputePRF succeeds")
	verifrt.CheckProtected()
	verifrt.Assert(!verifrt.SameArray(out, in), "output shares no memory with the input")
	for _, s := range internals {
		verifrt.Assert(!verifrt.SameArray(out, s), "output shares no memory with the primitive's key material")
	}
	out0 := append([]byte{}, out...)
	// the caller reuses both its input buffer and the returned slice (including whatever
	// spare capacity the returned slice has)
	Unprotect(in)
	Scribble(in)
	Scribble(out)
	out2, err := p.ComputePRF(in0, uint32(outLen))
	verifrt.Assert(err == nil, "second ComputePRF succeeds")
	verifrt.AssertEq(out2, out0, "overwriting the input buffer and the returned output does not change later results")
	verifrt.Assert(!verifrt.SameArray(out2, out), "every call returns fresh memory")
	verifrt.Reach("nowrite-ok")
}

// DAEAD is tink.DeterministicAEAD.
type DAEAD interface {
	EncryptDeterministically(plaintext, associatedData []byte) ([]byte, error)
	DecryptDeterministically(ciphertext, associatedData []byte) ([]byte, error)
}

// CheckDAEADNoWrite: as CheckAEADNoWrite for deterministic AEADs, plus: overwriting the
// caller's buffers and the returned slices afterwards does not change later results.
func CheckDAEADNoWrite(d DAEAD, maxPT int, internals ...[]byte) {
	pt := Buf("pt", verifrt.Choice("n", maxPT+1), "caller plaintext buffer")
	ad := Buf("ad", verifrt.Choice("m", 2), "caller associated-data buffer")
	pt0, ad0 := append([]byte{}, pt...), append([]byte{}, ad...)
	ct, err := d.EncryptDeterministically(pt, ad)
	verifrt.Assert(err == nil, "EncryptDeterministically succeeds")
	verifrt.CheckProtected()
	verifrt.Assert(!verifrt.SameArray(ct, pt) && !verifrt.SameArray(ct, ad), "ciphertext shares no memory with the inputs")
	for _, s := range internals {
		verifrt.Assert(!verifrt.SameArray(ct, s), "ciphertext shares no memory with the primitive's internals")
	}
	ct0 := append([]byte{}, ct...)
	// decrypt from a caller buffer with spare capacity
	spare := verifrt.Choice("ct.spare", 3)
	cbuf := make([]byte, len(ct), len(ct)+spare)
	copy(cbuf, ct)
	verifrt.Protect(cbuf, "caller ciphertext buffer")
	got, err := d.DecryptDeterministically(cbuf, ad)
	verifrt.Assert(err == nil, "DecryptDeterministically succeeds")
	verifrt.CheckProtected()
	verifrt.Assert(!verifrt.SameArray(got, cbuf) && !verifrt.SameArray(got, ad), "plaintext shares no memory with the inputs")
	for _, s := range internals {
		verifrt.Assert(!verifrt.SameArray(got, s), "plaintext shares no memory with the primitive's internals")
	}
	verifrt.AssertEq(got, pt0, "round trip")
	// the caller reuses all its buffers and the returned slices
	Unprotect(pt)
	verifrt.Unprotect(ad)
	verifrt.Unprotect(cbuf)
	Scribble(pt)
	Scribble(ad)
	Scribble(cbuf)
	Scribble(ct)
	Scribble(got)
	ct2, err := d.EncryptDeterministically(pt0, ad0)
	verifrt.Assert(err == nil, "second encryption succeeds")
	verifrt.AssertEq(ct2, ct0, "overwriting inputs and returned slices does not change later ciphertexts")
	verifrt.Reach("nowrite-ok")
}

// Signer / Verifier are tink.Signer / tink.Verifier.
type Signer interface {
	Sign(data []byte) ([]byte, error)
}
type Verifier interface {
	Verify(signature, data []byte) error
}

// CheckSignNoWrite: Sign does not write into the data buffer, the signature is fresh
// memory (not the data, not any internal slice); Verify writes neither into the signature
// nor into the data buffer; overwriting the returned signature does not change what the
// signer produces / the verifier accepts later. The signer must be deterministic
// (Ed25519) if `deterministic` is set: then the second signature is compared.
func CheckSignNoWrite(s Signer, v Verifier, maxData int, deterministic bool, internals ...[]byte) {
	data := Buf("data", verifrt.Choice("n", maxData+1), "caller data buffer")
	data0 := append([]byte{}, data...)
	sig, err := s.Sign(data)
	verifrt.Assert(err == nil, "Sign succeeds")
	verifrt.CheckProtected()
	verifrt.Assert(!verifrt.SameArray(sig, data), "signature shares no memory with the input")
	for _, x := range internals {
		verifrt.Assert(!verifrt.SameArray(sig, x), "signature shares no memory with key or primitive internals")
	}
	sbuf := make([]byte, len(sig), len(sig)+[...]int{0, 1, 17}[verifrt.Choice("sig.spare", 3)])
	copy(sbuf, sig)
	verifrt.Protect(sbuf, "caller signature buffer")
	verifrt.Assert(v.Verify(sbuf, data) == nil, "Verify accepts the genuine signature")
	verifrt.CheckProtected()
	sig0 := append([]byte{}, sig...)
	Unprotect(data)
	verifrt.Unprotect(sbuf)
	Scribble(data)
	Scribble(sbuf)
	Scribble(sig)
	sig2, err := s.Sign(data0)
	verifrt.Assert(err == nil, "second Sign succeeds")
	if deterministic {
		verifrt.AssertEq(sig2, sig0, "overwriting the data buffer and the returned signature does not change later signatures")
	}
	verifrt.Assert(v.Verify(sig0, data0) == nil, "the verifier still accepts the genuine signature after the caller reused its buffers")
	verifrt.Reach("nowrite-ok")
}

// BufWith is Buf with the spare capacity chosen by the caller (harnesses with several
// caller buffers pick one spare-capacity profile for all of them instead of the product).
func BufWith(name string, n, spare int, label string) []byte {
	b := verifrt.BytesCap(name, n, n+spare)
	verifrt.Protect(b, label)
	return b
}

// SpareProfile picks one of: no spare capacity, one byte, more than a cipher block.
func SpareProfile(name string) int {
	return [...]int{0, 1, 17}[verifrt.Choice(name, 3)]
}

// StreamingAEAD is tink.StreamingAEAD.
type StreamingAEAD interface {
	NewEncryptingWriter(w io.Writer, associatedData []byte) (io.WriteCloser, error)
	NewDecryptingReader(r io.Reader, associatedData []byte) (io.Reader, error)
}

func splitPoints(l int) []int {
	var out []int
	for _, c := range []int{0, 1, l - 1, l} {
		if c < 0 || c > l {
			continue
		}
		dup := false
		for _, o := range out {
			dup = dup || o == c
		}
		if !dup {
			out = append(out, c)
		}
	}
	return out
}

// CheckStreamNoWrite decides for one streaming primitive, plaintext lengths `lens`:
//   - NewEncryptingWriter / NewDecryptingReader do not write into the caller's associated
//     data (nor its spare capacity) and do not retain it: the caller overwrites the slice
//     right after the constructor returns, and the stream must still be the stream for the
//     original associated data (round trip here; the caller compares the returned ciphertext
//     with its reference stream);
//   - Write(p) does not write into p (nor its spare capacity) and does not retain p: the
//     caller overwrites p right after Write returns;
//   - Read(p) returning n leaves p[n:len(p)] and the spare capacity of p as they were and
//     does not retain p (the caller overwrites p between calls); the concatenated reads
//     are the plaintext.
// It returns (ciphertext, original associated data, original plaintext).
func CheckStreamNoWrite(a StreamingAEAD, lens []int) (ct, aad0, pt0 []byte) {
	spare := SpareProfile("spare")
	aad := BufWith("aad", verifrt.Choice("aadn", 2), spare, "caller associated-data buffer (writer)")
	aad0 = append([]byte{}, aad...)
	var sink bytes.Buffer
	w, err := a.NewEncryptingWriter(&sink, aad)
	verifrt.Assert(err == nil, "NewEncryptingWriter succeeds")
	Unprotect(aad)
	Scribble(aad)

	l := lens[verifrt.Choice("len", len(lens))]
	sp := splitPoints(l)
	c1 := sp[verifrt.Choice("c1", len(sp))]
	p1 := BufWith("p1", c1, spare, "caller plaintext buffer (first Write)")
	p2 := verifrt.BytesCap("p2", l-c1, l-c1+spare)
	pt0 = append(append([]byte{}, p1...), p2...)
	n1, e1 := w.Write(p1)
	verifrt.Assert(e1 == nil && n1 == c1, "first Write consumes its input")
	verifrt.CheckProtected()
	verifrt.Unprotect(p1)
	Scribble(p1)
	verifrt.Protect(p2, "caller plaintext buffer (second Write)")
	n2, e2 := w.Write(p2)
	verifrt.Assert(e2 == nil && n2 == l-c1, "second Write consumes its input")
	verifrt.CheckProtected()
	verifrt.Unprotect(p2)
	Scribble(p2)
	verifrt.Assert(w.Close() == nil, "Close succeeds")
	ct = append([]byte{}, sink.Bytes()...)

	// decrypt with the ORIGINAL associated data, from a caller buffer that is reused as well
	aadR := make([]byte, len(aad0), len(aad0)+spare)
	copy(aadR, aad0)
	verifrt.Protect(aadR, "caller associated-data buffer (reader)")
	r, err := a.NewDecryptingReader(bytes.NewReader(ct), aadR)
	verifrt.Assert(err == nil, "NewDecryptingReader accepts the header")
	Unprotect(aadR)
	Scribble(aadR)
	bl := [...]int{1, 2, l + 1}[verifrt.Choice("rb", 3)]
	fill := verifrt.Bytes("rbuf", bl+spare) // what the caller's read buffer holds before every call
	full := make([]byte, bl+spare)
	p := full[:bl:bl+spare]
	var got []byte
	for i := 0; ; i++ {
		copy(full, fill)
		n, err := r.Read(p)
		verifrt.Assert(0 <= n && n <= len(p), "Read returns 0 <= n <= len(p)")
		if n < 0 || n > len(p) {
			return
		}
		verifrt.AssertEq(full[n:bl], fill[n:bl], "Read leaves p[n:len(p)] untouched")
		verifrt.AssertEq(full[bl:], fill[bl:], "Read does not write into the spare capacity of p")
		got = append(got, p[:n]...)
		if err == io.EOF {
			break
		}
		verifrt.Assert(err == nil, "reading succeeds up to io.EOF")
		if err != nil || i > 2*l+8 {
			verifrt.Assert(false, "the reader terminates")
			return
		}
	}
	verifrt.AssertEq(got, pt0, "decrypted stream == plaintext although the caller reused every buffer it had passed in")
	verifrt.Reach("stream-nowrite-ok")
	return
}

// ---------------------------------------------------------------------------------------
// Key / parameters objects (C19): constructors clone, accessors return clones.

// Accessor is a byte-returning accessor of a key or parameters object.
type Accessor struct {
	Name string
	Get  func() []byte
}

// CheckAccessorsClone: every accessor returns memory that does not alias the object's
// state: two calls return equal bytes in different arrays, and after the caller has
// overwritten a returned slice (its whole capacity) the accessor still returns the
// original bytes.
func CheckAccessorsClone(acc ...Accessor) {
	for _, a := range acc {
		x, y := a.Get(), a.Get()
		verifrt.AssertEq(x, y, a.Name+": two calls return the same bytes")
		x0 := append([]byte{}, x...)
		Scribble(x)
		verifrt.AssertEq(a.Get(), x0, a.Name+": overwriting the returned slice does not change the object")
		verifrt.Assert(!verifrt.SameArray(x, y), a.Name+": returns a fresh copy each time")
	}
}

// CheckCtorClones: src is the slice the caller handed to a constructor (created with
// Buf/BufWith, i.e. write-protected while the constructor ran); get reads the object's
// copy back; internal, if not nil, is the object's internal slice (in-package harnesses).
// The constructor did not write into src, does not keep src, and a caller that overwrites
// src afterwards does not change the object.
func CheckCtorClones(name string, src []byte, get func() []byte, internal []byte) {
	verifrt.CheckProtected()
	src0 := append([]byte{}, src...)
	verifrt.AssertEq(get(), src0, name+": content preserved by the constructor")
	Unprotect(src)
	Scribble(src)
	verifrt.AssertEq(get(), src0, name+": overwriting the caller's slice after construction does not change the object")
	if internal != nil {
		verifrt.Assert(!verifrt.SameArray(internal, src), name+": the object does not retain the caller's slice")
	}
}

// CheckSymKeyObject is the key-object check for key types made of one secretdata.Bytes:
// mk is the real constructor (with parameters and id fixed by the caller), get / prefix the
// real accessors (prefix may be nil for key types without output prefix).
//   (a) the key bytes travel caller slice -> secretdata.NewBytesFromData -> constructor:
//       nothing writes into the caller's slice (nor its spare capacity) and a caller that
//       overwrites it afterwards does not change the key;
//   (b) KeyBytes().Data() and OutputPrefix() return fresh copies: overwriting them does not
//       change the key;
// and finally the key still Equal()s a key made from a private copy of the original bytes.
func CheckSymKeyObject(size int, mk func(secretdata.Bytes) (key.Key, error), get func(key.Key) secretdata.Bytes, prefix func(key.Key) []byte, prefixLen int) {
	tok := insecuresecretdataaccess.Token{}
	kb := BufWith("key", size, SpareProfile("key.spare"), "caller key buffer")
	kb0 := append([]byte{}, kb...)
	k, err := mk(secretdata.NewBytesFromData(kb, tok))
	verifrt.Assert(err == nil, "NewKey")
	if err != nil {
		return
	}
	CheckCtorClones("NewKey(keyBytes)", kb, func() []byte { return get(k).Data(tok) }, nil)
	acc := []Accessor{{Name: "KeyBytes().Data", Get: func() []byte { return get(k).Data(tok) }}}
	if prefix != nil {
		verifrt.Assert(len(prefix(k)) == prefixLen, "output prefix length")
		acc = append(acc, Accessor{Name: "OutputPrefix", Get: func() []byte { return prefix(k) }})
	}
	CheckAccessorsClone(acc...)
	ref, err := mk(secretdata.NewBytesFromData(kb0, tok))
	verifrt.Assert(err == nil && k.Equal(ref) && ref.Equal(k), "after all the caller's writes the key still equals a key made from the original bytes")
	verifrt.Reach("keyobject-ok")
}

// PrefixLen is the output prefix length of prefix kind 0 TINK, 1 CRUNCHY, 2 LEGACY, 3 RAW.
func PrefixLen(kind int) int {
	if kind == 3 {
		return 0
	}
	return 5
}

// CheckBytesAccessor: what an accessor hands out is a copy - scribbling over it changes
// neither the object (the next call returns the original bytes) nor a slice handed out later.
func CheckBytesAccessor(get func() []byte, what string) {
	a := get()
	if len(a) == 0 {
		return
	}
	orig := append([]byte{}, a...)
	for i := range a {
		a[i] ^= 0xff
	}
	b := get()
	verifrt.AssertEq(b, orig, what+": writing into a returned slice does not change the object")
	verifrt.Assert(!verifrt.SameArray(a, b), what+": each call returns fresh memory")
}

// CheckBytesOwned: the object does not keep a reference to a caller-provided slice -
// scribbling over the caller's slice after construction does not change what the object reports.
func CheckBytesOwned(input []byte, get func() []byte, what string) {
	if len(input) == 0 {
		return
	}
	orig := append([]byte{}, input...)
	for i := range input {
		input[i] ^= 0xff
	}
	verifrt.AssertEq(get(), orig, what+": the object does not alias the caller's input slice")
}
