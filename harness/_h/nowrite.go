package verifh

import "github.com/tink-crypto/tink-go/v2/internal/verifrt"

// Buf returns a caller-owned buffer of length n embedded in a larger array: `spare`
// further bytes of capacity follow it. All of it (including the spare capacity) is
// symbolic and protected: any store into it is a violation of C19.
func Buf(name string, n int, label string) []byte {
	// spare capacities: none, a byte or two, and more than a cipher block (an append of
	// block padding stays in place only if that much room is available)
	spare := [...]int{0, 1, 2, 17, 40}[verifrt.Choice(name+".spare", 5)]
	b := verifrt.BytesCap(name, n, n+spare)
	verifrt.Protect(b, label)
	return b
}

// MAC is tink.MAC.
type MAC interface {
	ComputeMAC(data []byte) ([]byte, error)
	VerifyMAC(mac, data []byte) error
}

// CheckAEADNoWrite: Encrypt/Decrypt never write into plaintext, associated data or
// ciphertext buffers (nor their spare capacity) and return freshly allocated memory.
func CheckAEADNoWrite(a AEAD) {
	pt := Buf("pt", verifrt.Choice("n", 3), "caller plaintext buffer")
	ad := Buf("ad", verifrt.Choice("m", 2), "caller associated-data buffer")
	ct, err := a.Encrypt(pt, ad)
	verifrt.Assert(err == nil, "Encrypt succeeds")
	verifrt.CheckProtected()
	verifrt.Assert(!verifrt.SameArray(ct, pt) && !verifrt.SameArray(ct, ad), "ciphertext shares no memory with the inputs")
	// decrypt from a caller buffer with spare capacity
	spare := verifrt.Choice("ct.spare", 3)
	cbuf := make([]byte, len(ct), len(ct)+spare)
	copy(cbuf, ct)
	verifrt.Protect(cbuf, "caller ciphertext buffer")
	got, err := a.Decrypt(cbuf, ad)
	verifrt.Assert(err == nil, "Decrypt succeeds")
	verifrt.CheckProtected()
	verifrt.Assert(!verifrt.SameArray(got, cbuf) && !verifrt.SameArray(got, ad), "plaintext shares no memory with the inputs")
	verifrt.Reach("nowrite-ok")
}

func CheckMACNoWrite(m MAC) {
	data := Buf("data", verifrt.Choice("n", 3), "caller data buffer")
	tag, err := m.ComputeMAC(data)
	verifrt.Assert(err == nil, "ComputeMAC succeeds")
	verifrt.CheckProtected()
	verifrt.Assert(!verifrt.SameArray(tag, data), "tag shares no memory with the input")
	spare := verifrt.Choice("tag.spare", 3)
	tbuf := make([]byte, len(tag), len(tag)+spare)
	copy(tbuf, tag)
	verifrt.Protect(tbuf, "caller tag buffer")
	verifrt.Assert(m.VerifyMAC(tbuf, data) == nil, "VerifyMAC accepts")
	verifrt.CheckProtected()
	verifrt.Reach("nowrite-ok")
}
