package hkdfprf

import (
	"crypto/sha1"
	"crypto/sha256"
	"crypto/sha512"
	"hash"

	"github.com/tink-crypto/tink-go/v2/insecuresecretdataaccess"
	"github.com/tink-crypto/tink-go/v2/internal/verifrt"
	"github.com/tink-crypto/tink-go/v2/internal/verifspec"
	"github.com/tink-crypto/tink-go/v2/secretdata"
)

type prfIface interface {
	ComputePRF(input []byte, outputLength uint32) ([]byte, error)
}

// The PRF built from an HKDF-PRF KEY OBJECT is RFC 5869 with the hash and the salt of the
// key's parameters and the input as info; hashes the primitive layer does not allow for HKDF
// are refused at construction.
func VerifH_keyprf_hkdfprf() {
	sel := verifrt.Choice("hash", 5)
	ht := [...]HashType{SHA1, SHA224, SHA256, SHA384, SHA512}[sel]
	hf := [...]func() hash.Hash{sha1.New, sha256.New224, sha256.New, sha512.New384, sha512.New}[sel]
	size := [...]int{20, 28, 32, 48, 64}[sel]
	kb := verifrt.Bytes("key", 32)
	salt := verifrt.Bytes("salt", verifrt.Choice("sn", 3))
	params, err := NewParameters(32, ht, salt)
	verifrt.Assert(err == nil, "NewParameters")
	k, err := NewKey(secretdata.NewBytesFromData(kb, insecuresecretdataaccess.Token{}), params)
	verifrt.Assert(err == nil, "NewKey")
	p, err := primitiveConstructor(k)
	verifrt.Assert((err == nil) == (ht == SHA256 || ht == SHA512), "HKDF-PRF primitives exist for SHA-256 and SHA-512 only")
	if err != nil {
		verifrt.Reach("refused")
		return
	}
	prf := p.(prfIface)
	x := verifrt.Bytes("x", verifrt.Choice("n", 2))
	n := size + 1
	out, err := prf.ComputePRF(x, uint32(n))
	verifrt.Assert(err == nil, "ComputePRF")
	verifrt.AssertEq(out, verifspec.HKDF(hf, kb, salt, x, n), "ComputePRF == HKDF(hash, key, salt of the parameters, info = input)")
	verifrt.Reach("end")
}
