package hkdfprf

import (
	"crypto/sha256"

	"github.com/tink-crypto/tink-go/v2/insecuresecretdataaccess"
	"github.com/tink-crypto/tink-go/v2/internal/verifspec"
	"github.com/tink-crypto/tink-go/v2/internal/verifh"
	"github.com/tink-crypto/tink-go/v2/internal/verifrt"
	"github.com/tink-crypto/tink-go/v2/key"
	"github.com/tink-crypto/tink-go/v2/secretdata"
)

func nwKeyBytes(k key.Key) secretdata.Bytes { return k.(*Key).KeyBytes() }

// C19, key object (key bytes): see verifh.CheckSymKeyObject. The parameters carry a salt.
func VerifH_c19_hkdfprfkey() {
	ht := [...]HashType{SHA1, SHA224, SHA256, SHA384, SHA512}[verifrt.Choice("hash", 5)]
	ks := [...]int{16, 32}[verifrt.Choice("ks", 2)]
	params, err := NewParameters(ks, ht, verifrt.Bytes("salt", verifrt.Choice("sl", 2)))
	verifrt.Assert(err == nil, "NewParameters")
	verifh.CheckSymKeyObject(ks, func(b secretdata.Bytes) (key.Key, error) { return NewKey(b, params) }, nwKeyBytes, nil, 0)
}

// C19, parameters object: NewParameters(…, salt) must not keep the caller's salt slice and
// Salt() must not hand out the internal one: a caller that overwrites (a) the slice it
// passed in or (b) the slice Salt() returned changes neither the parameters, nor a key
// that carries them, nor the values computed by a PRF primitive built from that key before
// or after the write (reference: RFC 5869 with a private copy of the original salt).
func VerifH_c19_hkdfprfparams() {
	tok := insecuresecretdataaccess.Token{}
	sl := [...]int{1, 16, 33}[verifrt.Choice("sl", 3)]
	salt := verifh.BufWith("salt", sl, verifh.SpareProfile("salt.spare"), "caller salt buffer")
	salt0 := append([]byte{}, salt...)
	p, err := NewParameters(32, SHA256, salt)
	verifrt.Assert(err == nil, "NewParameters")
	kb := verifrt.Bytes("key", 32)
	k, err := NewKey(secretdata.NewBytesFromData(kb, tok), p)
	verifrt.Assert(err == nil, "NewKey")
	ref, err := NewParameters(32, SHA256, append([]byte{}, salt0...))
	verifrt.Assert(err == nil && p.Equal(ref), "equal to parameters made from a copy of the salt")
	refKey, err := NewKey(secretdata.NewBytesFromData(kb, tok), ref)
	verifrt.Assert(err == nil && k.Equal(refKey), "key equal to the reference key")
	pb, err := primitiveConstructor(k)
	verifrt.Assert(err == nil, "PRF primitive (built before the caller's writes)")
	before := pb.(verifh.PRF)
	verifrt.CheckProtected()
	// the caller's write
	switch verifrt.Choice("what", 2) {
	case 0: // (a) into the slice it passed to NewParameters
		verifh.Unprotect(salt)
		verifh.Scribble(salt)
	default: // (b) into the slice Salt() returned
		verifh.Unprotect(salt)
		verifh.Scribble(p.Salt())
	}
	// ... changes nothing
	switch verifrt.Choice("consequence", 4) {
	case 0:
		verifrt.AssertEq(p.Salt(), salt0, "Salt() still returns the original salt")
		verifrt.Assert(p.Equal(ref) && ref.Equal(p), "parameters unchanged by the caller's write")
	case 1:
		verifrt.Assert(k.Equal(refKey), "key carrying the parameters unchanged by the caller's write")
	case 2:
		x := verifrt.Bytes("x", 1)
		out, err := before.ComputePRF(x, 16)
		verifrt.Assert(err == nil, "ComputePRF")
		verifrt.AssertEq(out, verifspec.HKDF(sha256.New, kb, salt0, x, 16), "PRF primitive built before the write still computes HKDF with the original salt")
	default:
		pa, err := primitiveConstructor(k)
		verifrt.Assert(err == nil, "PRF primitive (built after the caller's write)")
		x := verifrt.Bytes("x", 1)
		out, err := pa.(verifh.PRF).ComputePRF(x, 16)
		verifrt.Assert(err == nil, "ComputePRF")
		verifrt.AssertEq(out, verifspec.HKDF(sha256.New, kb, salt0, x, 16), "PRF primitive built after the write computes HKDF with the original salt")
	}
	verifrt.Assert(!verifrt.SameArray(p.salt, salt), "the parameters do not retain the caller's slice")
	verifrt.Assert(len(p.salt) == 0 || !verifrt.SameArray(p.Salt(), p.salt), "Salt() does not return the internal slice")
	verifrt.Reach("end")
}
