package hkdfprf

import (
	"github.com/tink-crypto/tink-go/v2/internal/verifh"
	"github.com/tink-crypto/tink-go/v2/internal/verifrt"
)

// HKDF-PRF parameters own their salt: neither the caller's slice given to NewParameters nor a
// slice returned by Salt() is the parameters' own memory.
func VerifH_c19_hkdfprf_salt() {
	salt := verifrt.Bytes("salt", 1+verifrt.Choice("n", 3))
	want := append([]byte{}, salt...)
	p, err := NewParameters(32, SHA256, salt)
	verifrt.Assert(err == nil, "NewParameters")
	q, _ := NewParameters(32, SHA256, want)
	if verifrt.Choice("site", 2) == 0 {
		verifh.CheckBytesAccessor(p.Salt, "Salt()")
		verifrt.Assert(p.Equal(q), "parameters unchanged after writing into Salt()'s result")
	} else {
		for i := range salt {
			salt[i] ^= 0xff
		}
		verifrt.AssertEq(p.salt, want, "NewParameters(salt): the parameters do not alias the caller's slice")
		verifrt.Assert(p.Equal(q), "parameters unchanged after writing into the caller's salt slice")
	}
	verifrt.Reach("end")
}
