package subtle

import (
	stdhmac "crypto/hmac"
	"crypto/sha1"
	"crypto/sha256"
	"crypto/sha512"
	"hash"

	"github.com/tink-crypto/tink-go/v2/internal/verifrt"
	"github.com/tink-crypto/tink-go/v2/internal/verifspec"
)

func pickHash(name string, n int) (string, func() hash.Hash, int) {
	switch verifrt.Choice(name, n) {
	case 0:
		return "SHA256", sha256.New, 32
	case 1:
		return "SHA512", sha512.New, 64
	case 2:
		return "SHA1", sha1.New, 20
	case 3:
		return "SHA224", sha256.New224, 28
	}
	return "SHA384", sha512.New384, 48
}

// HMAC-PRF: HMAC(key, x) truncated; prefix law; limit = digest size.
func VerifH_prf_hmac() {
	name, hf, size := pickHash("hash", 5)
	key := verifrt.Bytes("key", 16)
	x := verifrt.Bytes("x", verifrt.Choice("xl", 3))
	p, err := NewHMACPRF(name, key)
	verifrt.Assert(err == nil, "NewHMACPRF")
	n := verifrt.Choice("n", size+3)
	out, err := p.ComputePRF(x, uint32(n))
	verifrt.Assert((err == nil) == (n <= size), "output length limited to the digest size")
	if err != nil {
		verifrt.Assert(out == nil, "no output beyond the limit")
		verifrt.Reach("toolong")
		return
	}
	m := stdhmac.New(hf, key)
	m.Write(x)
	full := m.Sum(nil)
	verifrt.AssertEq(out, full[:n], "ComputePRF(x, n) == HMAC(key, x)[:n]")
	out2, _ := p.ComputePRF(x, uint32(n))
	verifrt.AssertEq(out2, out, "deterministic")
	longer, _ := p.ComputePRF(x, uint32(size))
	verifrt.AssertEq(longer[:n], out, "PRF(x, n) is the n-byte prefix of PRF(x, m)")
	verifrt.Reach("end")
}

// AES-CMAC-PRF: RFC 4493 value truncated; limit 16.
func VerifH_prf_aescmac() {
	key := verifrt.Bytes("key", 32)
	x := verifrt.Bytes("x", verifrt.Choice("xl", 18))
	p, err := NewAESCMACPRF(key)
	verifrt.Assert(err == nil, "NewAESCMACPRF")
	n := verifrt.Choice("n", 19)
	out, err := p.ComputePRF(x, uint32(n))
	verifrt.Assert((err == nil) == (n <= 16), "output length limited to 16")
	if err != nil {
		verifrt.Reach("toolong")
		return
	}
	verifrt.AssertEq(out, verifspec.CMAC(key, x)[:n], "ComputePRF(x, n) == AES-CMAC(key, x)[:n]")
	longer, _ := p.ComputePRF(x, 16)
	verifrt.AssertEq(longer[:n], out, "prefix law")
	verifrt.Reach("end")
}

// HKDF-PRF: RFC 5869 with the key's salt and the input as info; the real x/crypto HKDF
// reader (counter byte, T(i-1) chaining, entropy limit) runs over the HMAC model.
func VerifH_prf_hkdf() {
	name, hf, size := pickHash("hash", 2)
	key := verifrt.Bytes("key", 32)
	salt := verifrt.Bytes("salt", verifrt.Choice("sl", 3))
	x := verifrt.Bytes("x", verifrt.Choice("xl", 3))
	p, err := NewHKDFPRF(name, key, salt)
	verifrt.Assert(err == nil, "NewHKDFPRF")
	// output lengths across block boundaries and at the 255-block limit
	n := [...]int{0, 1, size - 1, size, size + 1, 2*size + 1, 255 * size, 255*size + 1}[verifrt.Choice("n", 8)]
	out, err := p.ComputePRF(x, uint32(n))
	verifrt.Assert((err == nil) == (n <= 255*size), "output length limited to 255 * digest size")
	if err != nil {
		verifrt.Assert(out == nil, "no output beyond the limit")
		verifrt.Reach("toolong")
		return
	}
	verifrt.Assert(len(out) == n, "exactly n bytes")
	if n <= 2*size+1 {
		verifrt.AssertEq(out, verifspec.HKDF(hf, key, salt, x, n), "ComputePRF(x, n) == HKDF-Expand(HKDF-Extract(salt, key), info = x, n)")
		longer, _ := p.ComputePRF(x, uint32(2*size+2))
		verifrt.AssertEq(longer[:n], out, "prefix law")
	}
	verifrt.Reach("end")
}

func VerifH_prf_validate() {
	ks := verifrt.Uint32("ks")
	name, _, _ := pickHash("hash", 5)
	verifrt.Assert((ValidateHMACPRFParams(name, ks) == nil) == (ks >= 16), "HMAC-PRF keys >= 16 bytes")
	verifrt.Assert((ValidateHKDFPRFParams(name, ks, nil) == nil) == (ks >= 32 && (name == "SHA256" || name == "SHA512")), "HKDF-PRF keys >= 32 bytes, SHA-256/512 only")
	verifrt.Assert((ValidateAESCMACPRFParams(ks) == nil) == (ks == 32), "AES-CMAC-PRF keys of 32 bytes")
	verifrt.Reach("end")
}

// The value of a PRF call is a function of (key, input, length) alone: an arbitrary earlier
// call on the same object -- any input, any length including rejected ones -- does not
// change it. (Each object is a shared, reusable primitive.)
func VerifH_prf_history() {
	key := verifrt.Bytes("key", 32)
	y := verifrt.Bytes("y", verifrt.Choice("yl", 3))
	x := verifrt.Bytes("x", verifrt.Choice("xl", 3))
	switch verifrt.Choice("prf", 3) {
	case 0:
		name, hf, size := pickHash("hash", 2)
		p, err := NewHMACPRF(name, key)
		verifrt.Assert(err == nil, "NewHMACPRF")
		n0 := [...]int{0, 1, size, size + 1, 1 << 20}[verifrt.Choice("n0", 5)]
		_, err0 := p.ComputePRF(y, uint32(n0))
		verifrt.Assert((err0 == nil) == (n0 <= size), "earlier call: limit")
		n := [...]int{1, size}[verifrt.Choice("n", 2)]
		out, err := p.ComputePRF(x, uint32(n))
		verifrt.Assert(err == nil, "later call succeeds")
		m := stdhmac.New(hf, key)
		m.Write(x)
		verifrt.AssertEq(out, m.Sum(nil)[:n], "HMAC-PRF value independent of the earlier call")
	case 1:
		p, err := NewAESCMACPRF(key)
		verifrt.Assert(err == nil, "NewAESCMACPRF")
		n0 := [...]int{0, 1, 16, 17, 1 << 20}[verifrt.Choice("n0", 5)]
		_, err0 := p.ComputePRF(y, uint32(n0))
		verifrt.Assert((err0 == nil) == (n0 <= 16), "earlier call: limit")
		out, err := p.ComputePRF(x, 16)
		verifrt.Assert(err == nil, "later call succeeds")
		verifrt.AssertEq(out, verifspec.CMAC(key, x), "AES-CMAC-PRF value independent of the earlier call")
	default:
		name, hf, size := pickHash("hash", 2)
		salt := verifrt.Bytes("salt", verifrt.Choice("sl", 2))
		p, err := NewHKDFPRF(name, key, salt)
		verifrt.Assert(err == nil, "NewHKDFPRF")
		n0 := [...]int{0, 1, size + 1, 255*size + 1}[verifrt.Choice("n0", 4)]
		_, err0 := p.ComputePRF(y, uint32(n0))
		verifrt.Assert((err0 == nil) == (n0 <= 255*size), "earlier call: limit")
		n := size + 1
		out, err := p.ComputePRF(x, uint32(n))
		verifrt.Assert(err == nil, "later call succeeds")
		verifrt.AssertEq(out, verifspec.HKDF(hf, key, salt, x, n), "HKDF-PRF value independent of the earlier call")
	}
	verifrt.Reach("end")
}
