package subtle

import (
	"github.com/tink-crypto/tink-go/v2/internal/verifh"
	"github.com/tink-crypto/tink-go/v2/internal/verifrt"
)

// C18 (sufficient condition) for the three PRFs: after construction everything reachable
// from the PRF object is frozen; three calls with two different inputs only read it.

func VerifH_c18_prf_hmac() {
	verifrt.EngineOnly()
	name, _, size := pickHash("hash", 5)
	p, err := NewHMACPRF(name, verifrt.Bytes("key", 16))
	verifrt.Assert(err == nil, "NewHMACPRF")
	verifh.CheckPRFShared(p, [...]int{1, size}[verifrt.Choice("out", 2)])
}

func VerifH_c18_prf_hkdf() {
	verifrt.EngineOnly()
	name, _, size := pickHash("hash", 2)
	p, err := NewHKDFPRF(name, verifrt.Bytes("key", 32), verifrt.Bytes("salt", verifrt.Choice("sl", 2)))
	verifrt.Assert(err == nil, "NewHKDFPRF")
	verifh.CheckPRFShared(p, [...]int{1, size + 1}[verifrt.Choice("out", 2)])
}

func VerifH_c18_prf_aescmac() {
	verifrt.EngineOnly()
	p, err := NewAESCMACPRF(verifrt.Bytes("key", 32))
	verifrt.Assert(err == nil, "NewAESCMACPRF")
	verifh.CheckPRFShared(p, 16)
}
