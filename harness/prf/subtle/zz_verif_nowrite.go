package subtle

import (
	"github.com/tink-crypto/tink-go/v2/internal/verifh"
	"github.com/tink-crypto/tink-go/v2/internal/verifrt"
)

// C19 for the three PRFs: ComputePRF does not write into the caller's input buffer or its
// spare capacity; the output is fresh memory (not the input, not the key, not the salt);
// a caller that overwrites its input buffer and the returned output afterwards does not
// change later results. Output lengths: a prefix of the first block, the whole block, and
// (HKDF) more than one block.

func VerifH_c19_prf_hmac() {
	name, _, size := pickHash("hash", 5)
	key := verifrt.Bytes("key", 16)
	p, err := NewHMACPRF(name, key)
	verifrt.Assert(err == nil, "NewHMACPRF")
	n := [...]int{0, 1, size}[verifrt.Choice("out", 3)]
	verifh.CheckPRFNoWrite(p, 2, n, p.key, key)
}

func VerifH_c19_prf_hkdf() {
	name, _, size := pickHash("hash", 2)
	key := verifrt.Bytes("key", 32)
	salt := verifrt.Bytes("salt", verifrt.Choice("sl", 3))
	p, err := NewHKDFPRF(name, key, salt)
	verifrt.Assert(err == nil, "NewHKDFPRF")
	n := [...]int{0, 1, size, size + 1}[verifrt.Choice("out", 4)]
	verifh.CheckPRFNoWrite(p, 2, n, p.key, p.salt, key, salt)
}

func VerifH_c19_prf_aescmac() {
	key := verifrt.Bytes("key", 32)
	p, err := NewAESCMACPRF(key)
	verifrt.Assert(err == nil, "NewAESCMACPRF")
	n := [...]int{0, 1, 16}[verifrt.Choice("out", 3)]
	maxIn := 17
	if verifrt.Thorough() {
		maxIn = 33
	}
	verifh.CheckPRFNoWrite(p, maxIn, n, key)
}
