package aescmacprf

import (
	"google.golang.org/protobuf/proto"

	"github.com/tink-crypto/tink-go/v2/insecuresecretdataaccess"
	"github.com/tink-crypto/tink-go/v2/internal/verifh"
	"github.com/tink-crypto/tink-go/v2/internal/verifrt"
	pb "github.com/tink-crypto/tink-go/v2/proto/aes_cmac_prf_go_proto"
	tinkpb "github.com/tink-crypto/tink-go/v2/proto/tink_go_proto"
)

// VerifH_parse_aescmacprf: keyParser.ParseKey on hostile field values.
//
// Documented validity of a AES-CMAC-PRF key (AesCmacPrfKey{version, key_value}): version 0; key 16 or 32 bytes;
// SYMMETRIC key material (a PRF key is a secret: every other material type mislabels it,
// e.g. for keyset.NewHandleWithNoSecrets); own type URL; prefix type RAW only (PRF keys
// never have an id requirement).
func VerifH_parse_aescmacprf() {
	h := verifh.NewHostile()
	version := verifrt.Uint32("version")
	n := h.Len("keylen", 32, 0, 1, 15, 16, 17, 24, 31, 33, 63, 64, 65)
	kv := verifrt.Bytes("key", n)
	msg := &pb.AesCmacPrfKey{Version: version, KeyValue: kv}
	shape := h.Shape("shape", 2)
	var value []byte
	switch shape {
	case 1:
		version, n, kv = 0, 0, nil
	}
	if shape != 1 {
		var err error
		value, err = proto.Marshal(msg)
		verifrt.Assert(err == nil, "marshal")
	}
	if !h.Wrap(typeURL, value) {
		return
	}
	k, err := (&keyParser{}).ParseKey(h.KS)
	body := verifrt.And(version == 0, n == 16 || n == 32)
	envelope := h.URLOK && h.Prefix == tinkpb.OutputPrefixType_RAW && h.ID == 0
	valid := verifrt.And(envelope && h.Material == tinkpb.KeyData_SYMMETRIC, body)
	// stated separately so that a defect in one rule does not hide the others
	// NOT asserted: "accepted => key material type is SYMMETRIC". This parser deliberately does not
	// check the material type ("for compatibility with other Tink implementations", see the
	// comment in mac/hmac/protoserialization.go); recorded as an observation in DESIGN.md.
	verifrt.Observe("material-unchecked", err == nil && h.Material != tinkpb.KeyData_SYMMETRIC)
	verifrt.Assert(verifrt.Implies(err == nil, verifrt.And(envelope, body)), "accepted => version 0, key 16/32 bytes, own type URL, prefix type RAW, id 0")
	verifrt.Assert(verifrt.Implies(valid, err == nil), "every valid AES-CMAC-PRF key is accepted")
	if err != nil {
		verifrt.Reach("rejected")
		return
	}
	h.CheckParsedEnvelope(k)
	ak, ok := k.(*Key)
	verifrt.Assert(ok && ak != nil, "parsed key is *aescmacprf.Key")
	p := ak.Parameters().(*Parameters)
	verifrt.Assert(p.KeySizeInBytes() == n, "parameters: key size = len(key_value)")
	verifrt.AssertEq(ak.KeyBytes().Data(insecuresecretdataaccess.Token{}), kv, "key bytes are key_value")
	verifrt.Reach("accepted")
}

// VerifH_parse_aescmacprf_params: parametersParser.Parse on a hostile key template (AesCmacPrfKeyFormat).
func VerifH_parse_aescmacprf_params() {
	version, ks := verifrt.Uint32("version"), verifrt.Uint32("keysize")
	msg := &pb.AesCmacPrfKeyFormat{Version: version, KeySize: ks}
	value, err := proto.Marshal(msg)
	verifrt.Assert(err == nil, "marshal")
	t, urlOK, prefix := verifh.HostileTemplate(typeURL, value)
	p, err := (&parametersParser{}).Parse(t)
	valid := verifrt.And(urlOK && prefix == tinkpb.OutputPrefixType_RAW, verifrt.And(version == 0, ks == 16 || ks == 32))
	verifrt.Assert((err == nil) == valid, "template accepted <=> own type URL, prefix type RAW, version 0, key 16/32 bytes")
	if err != nil {
		verifrt.Reach("rejected")
		return
	}
	ap := p.(*Parameters)
	verifrt.Assert(ap.KeySizeInBytes() == int(ks) && !ap.HasIDRequirement(), "parameters mirror the format; no id requirement")
	_, nerr := (&parametersParser{}).Parse(nil)
	verifrt.Assert(nerr != nil, "nil template rejected, no panic")
	verifrt.Reach("accepted")
}
