package aescmacprf

import (
	"github.com/tink-crypto/tink-go/v2/insecuresecretdataaccess"
	"github.com/tink-crypto/tink-go/v2/internal/verifrt"
	"github.com/tink-crypto/tink-go/v2/internal/verifspec"
	"github.com/tink-crypto/tink-go/v2/secretdata"
)

type prfIface interface {
	ComputePRF(input []byte, outputLength uint32) ([]byte, error)
}

// The PRF built from an AES-CMAC-PRF KEY OBJECT is RFC 4493 under the key's bytes.
func VerifH_keyprf_aescmacprf() {
	kl := [...]int{16, 32}[verifrt.Choice("klen", 2)]
	kb := verifrt.Bytes("key", kl)
	k, err := NewKey(secretdata.NewBytesFromData(kb, insecuresecretdataaccess.Token{}))
	verifrt.Assert(err == nil, "NewKey")
	p, err := primitiveConstructor(k)
	verifrt.Assert((err == nil) == (kl == 32), "AES-CMAC-PRF primitives need a 32-byte key")
	if err != nil {
		verifrt.Reach("refused")
		return
	}
	x := verifrt.Bytes("x", verifrt.Choice("n", 18))
	out, err := p.(prfIface).ComputePRF(x, 16)
	verifrt.Assert(err == nil, "ComputePRF")
	verifrt.AssertEq(out, verifspec.CMAC(kb, x), "ComputePRF == AES-CMAC(key, input)")
	verifrt.Reach("end")
}
