package aescmacprf

import (
	"github.com/tink-crypto/tink-go/v2/insecuresecretdataaccess"
	"github.com/tink-crypto/tink-go/v2/internal/verifh"
	"github.com/tink-crypto/tink-go/v2/internal/verifrt"
	tinkpb "github.com/tink-crypto/tink-go/v2/proto/tink_go_proto"
	"github.com/tink-crypto/tink-go/v2/secretdata"
)

// Key sizes {16,32} (the only valid ones); symbolic key bytes; RAW only.
func VerifH_serial_aescmacprf() {
	ks := [...]int{16, 32}[verifrt.Choice("ks", 2)]
	k, err := NewKey(secretdata.NewBytesFromData(verifrt.Bytes("key", ks), insecuresecretdataaccess.Token{}))
	verifrt.Assert(err == nil, "NewKey")
	p, err := NewParameters(ks)
	verifrt.Assert(err == nil, "NewParameters")
	verifrt.Assert(k.Parameters().Equal(&p) && p.Equal(k.Parameters()), "key parameters == NewParameters(len(key))")
	verifh.CheckKeyRoundTrip(k, &keySerializer{}, &keyParser{}, &parametersSerializer{}, &parametersParser{}, 3, 0, typeURL, tinkpb.KeyData_SYMMETRIC)
}

// VerifSerializers exposes this package's (unexported) proto serializers/parsers and type URL
// to the harnesses of composite key types (keyderivation/prfbasedkeyderivation), which
// dispatch to them exactly as the registry does after this package's init().
func VerifSerializers() (verifh.KeySer, verifh.KeyPar, verifh.ParSer, verifh.ParPar) {
	return &keySerializer{}, &keyParser{}, &parametersSerializer{}, &parametersParser{}
}

const VerifTypeURL = typeURL
