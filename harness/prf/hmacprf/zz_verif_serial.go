package hmacprf

import (
	"github.com/tink-crypto/tink-go/v2/insecuresecretdataaccess"
	"github.com/tink-crypto/tink-go/v2/internal/verifh"
	"github.com/tink-crypto/tink-go/v2/internal/verifrt"
	tinkpb "github.com/tink-crypto/tink-go/v2/proto/tink_go_proto"
	"github.com/tink-crypto/tink-go/v2/secretdata"
)

// Every hash {SHA1,SHA224,SHA256,SHA384,SHA512} x key sizes {16,17,32,64,65} (the constructor
// accepts every size >= 16); symbolic key bytes. PRF keys never have an id requirement (RAW).
func VerifH_serial_hmacprf() {
	ht := [...]HashType{SHA1, SHA224, SHA256, SHA384, SHA512}[verifrt.Choice("hash", 5)]
	ks := [...]int{16, 17, 32, 64, 65}[verifrt.Choice("ks", 5)]
	params, err := NewParameters(ks, ht)
	verifrt.Assert(err == nil, "NewParameters")
	k, err := NewKey(secretdata.NewBytesFromData(verifrt.Bytes("key", ks), insecuresecretdataaccess.Token{}), params)
	verifrt.Assert(err == nil, "NewKey")
	verifh.CheckKeyRoundTrip(k, &keySerializer{}, &keyParser{}, &parametersSerializer{}, &parametersParser{}, 3, 0, typeURL, tinkpb.KeyData_SYMMETRIC)
}

// Symbolic key size (every int in [16, 2^31-1]), parameters only.
func VerifH_serialparams_hmacprf_symsize() {
	ht := [...]HashType{SHA1, SHA224, SHA256, SHA384, SHA512}[verifrt.Choice("hash", 5)]
	params, err := NewParameters(verifrt.IntRange("ks", 16, 1<<31-1), ht)
	verifrt.Assert(err == nil, "NewParameters")
	verifh.CheckParamsRoundTrip(params, &parametersSerializer{}, &parametersParser{}, 3, typeURL)
}

// VerifSerializers exposes this package's (unexported) proto serializers/parsers and type URL
// to the harnesses of composite key types (keyderivation/prfbasedkeyderivation), which
// dispatch to them exactly as the registry does after this package's init().
func VerifSerializers() (verifh.KeySer, verifh.KeyPar, verifh.ParSer, verifh.ParPar) {
	return &keySerializer{}, &keyParser{}, &parametersSerializer{}, &parametersParser{}
}

const VerifTypeURL = typeURL
