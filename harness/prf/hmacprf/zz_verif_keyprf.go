package hmacprf

import (
	stdhmac "crypto/hmac"
	"crypto/sha1"
	"crypto/sha256"
	"crypto/sha512"
	"hash"

	"github.com/tink-crypto/tink-go/v2/insecuresecretdataaccess"
	"github.com/tink-crypto/tink-go/v2/internal/verifrt"
	"github.com/tink-crypto/tink-go/v2/secretdata"
)

type prfIface interface {
	ComputePRF(input []byte, outputLength uint32) ([]byte, error)
}

// The PRF built from an HMAC-PRF KEY OBJECT computes HMAC with the hash the key's parameters
// name (all five), on the key's bytes; its maximum output length is that hash's digest size.
func VerifH_keyprf_hmacprf() {
	sel := verifrt.Choice("hash", 5)
	ht := [...]HashType{SHA1, SHA224, SHA256, SHA384, SHA512}[sel]
	hf := [...]func() hash.Hash{sha1.New, sha256.New224, sha256.New, sha512.New384, sha512.New}[sel]
	size := [...]int{20, 28, 32, 48, 64}[sel]
	// key sizes below, at and above the hash block sizes (64 bytes for SHA-1/224/256, 128 for
	// SHA-384/512): RFC 2104 pads keys up to the block size and hashes only longer ones
	kl := [...]int{16, 32, 64, 65, 100, 128, 129}[verifrt.Choice("klen", 7)]
	kb := verifrt.Bytes("key", kl)
	params, err := NewParameters(kl, ht)
	verifrt.Assert(err == nil, "NewParameters")
	k, err := NewKey(secretdata.NewBytesFromData(kb, insecuresecretdataaccess.Token{}), params)
	verifrt.Assert(err == nil, "NewKey")
	p, err := primitiveConstructor(k)
	verifrt.Assert(err == nil, "primitive from the key object")
	prf := p.(prfIface)
	x := verifrt.Bytes("x", verifrt.Choice("n", 2))
	m := stdhmac.New(hf, kb)
	m.Write(x)
	out, err := prf.ComputePRF(x, uint32(size))
	verifrt.Assert(err == nil, "full-length output")
	verifrt.AssertEq(out, m.Sum(nil), "ComputePRF == HMAC with the hash named by the key's parameters")
	_, err = prf.ComputePRF(x, uint32(size+1))
	verifrt.Assert(err != nil, "one byte more than the digest size is refused")
	verifrt.Reach("end")
}
