package hmacprf

import (
	"google.golang.org/protobuf/proto"

	"github.com/tink-crypto/tink-go/v2/insecuresecretdataaccess"
	"github.com/tink-crypto/tink-go/v2/internal/verifh"
	"github.com/tink-crypto/tink-go/v2/internal/verifrt"
	commonpb "github.com/tink-crypto/tink-go/v2/proto/common_go_proto"
	pb "github.com/tink-crypto/tink-go/v2/proto/hmac_prf_go_proto"
	tinkpb "github.com/tink-crypto/tink-go/v2/proto/tink_go_proto"
)

func parseHashOf(hash int32) HashType {
	switch hash {
	case 1:
		return SHA1
	case 2:
		return SHA384
	case 3:
		return SHA256
	case 4:
		return SHA512
	case 5:
		return SHA224
	}
	return UnknownHashType
}

// VerifH_parse_hmacprf: keyParser.ParseKey on hostile field values.
//
// Documented validity of a HMAC-PRF key (HmacPrfKey{version, params{hash}, key_value}): version 0; key >= 16 bytes; hash one of SHA1/SHA224/SHA256/SHA384/SHA512 (absent params read as UNKNOWN_HASH: invalid);
// SYMMETRIC key material (a PRF key is a secret: every other material type mislabels it,
// e.g. for keyset.NewHandleWithNoSecrets); own type URL; prefix type RAW only (PRF keys
// never have an id requirement).
func VerifH_parse_hmacprf() {
	h := verifh.NewHostile()
	version := verifrt.Uint32("version")
	hash := verifrt.Int32("hash")
	n := h.Len("keylen", 32, 0, 1, 15, 16, 17, 31, 33, 63, 64, 65)
	kv := verifrt.Bytes("key", n)
	msg := &pb.HmacPrfKey{Version: version, KeyValue: kv, Params: &pb.HmacPrfParams{Hash: commonpb.HashType(hash)}}
	shape := h.Shape("shape", 3)
	var value []byte
	switch shape {
	case 1:
		version, n, kv = 0, 0, nil
		hash = 0
	case 2:
		msg.Params, hash = nil, 0
	}
	if shape != 1 {
		var err error
		value, err = proto.Marshal(msg)
		verifrt.Assert(err == nil, "marshal")
	}
	if !h.Wrap(typeURL, value) {
		return
	}
	k, err := (&keyParser{}).ParseKey(h.KS)
	body := verifrt.And(version == 0, n >= 16 && verifh.DigestLen(hash) != 0)
	envelope := h.URLOK && h.Prefix == tinkpb.OutputPrefixType_RAW && h.ID == 0
	valid := verifrt.And(envelope && h.Material == tinkpb.KeyData_SYMMETRIC, body)
	// stated separately so that a defect in one rule does not hide the others
	// NOT asserted: "accepted => key material type is SYMMETRIC". This parser deliberately does not
	// check the material type ("for compatibility with other Tink implementations", see the
	// comment in mac/hmac/protoserialization.go); recorded as an observation in DESIGN.md.
	verifrt.Observe("material-unchecked", err == nil && h.Material != tinkpb.KeyData_SYMMETRIC)
	verifrt.Assert(verifrt.Implies(err == nil, verifrt.And(envelope, body)), "accepted => version 0, key >= 16 bytes, known hash, own type URL, prefix type RAW, id 0")
	verifrt.Assert(verifrt.Implies(valid, err == nil), "every valid HMAC-PRF key is accepted")
	if err != nil {
		verifrt.Reach("rejected")
		return
	}
	h.CheckParsedEnvelope(k)
	ak, ok := k.(*Key)
	verifrt.Assert(ok && ak != nil, "parsed key is *hmacprf.Key")
	p := ak.Parameters().(*Parameters)
	verifrt.Assert(p.KeySizeInBytes() == n, "parameters: key size = len(key_value)")
	verifrt.Assert(p.HashType() == parseHashOf(hash), "parameters: hash = the message's")
	verifrt.AssertEq(ak.KeyBytes().Data(insecuresecretdataaccess.Token{}), kv, "key bytes are key_value")
	verifrt.Reach("accepted")
}

// VerifH_parse_hmacprf_params: parametersParser.Parse on a hostile key template (HmacPrfKeyFormat).
func VerifH_parse_hmacprf_params() {
	version, ks := verifrt.Uint32("version"), verifrt.Uint32("keysize")
	hash := verifrt.Int32("hash")
	msg := &pb.HmacPrfKeyFormat{Version: version, KeySize: ks, Params: &pb.HmacPrfParams{Hash: commonpb.HashType(hash)}}
	if verifrt.Choice("nilparams", 2) == 1 {
		msg.Params, hash = nil, 0
	}
	value, err := proto.Marshal(msg)
	verifrt.Assert(err == nil, "marshal")
	t, urlOK, prefix := verifh.HostileTemplate(typeURL, value)
	p, err := (&parametersParser{}).Parse(t)
	valid := verifrt.And(urlOK && prefix == tinkpb.OutputPrefixType_RAW, verifrt.And(version == 0, ks >= 16 && verifh.DigestLen(hash) != 0))
	verifrt.Assert((err == nil) == valid, "template accepted <=> own type URL, prefix type RAW, version 0, key >= 16 bytes, known hash")
	if err != nil {
		verifrt.Reach("rejected")
		return
	}
	ap := p.(*Parameters)
	verifrt.Assert(ap.KeySizeInBytes() == int(ks) && !ap.HasIDRequirement(), "parameters mirror the format; no id requirement")
	verifrt.Assert(ap.HashType() == parseHashOf(hash), "parameters: hash = the format's")
	_, nerr := (&parametersParser{}).Parse(nil)
	verifrt.Assert(nerr != nil, "nil template rejected, no panic")
	verifrt.Reach("accepted")
}
