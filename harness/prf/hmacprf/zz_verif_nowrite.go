package hmacprf

import (
	"github.com/tink-crypto/tink-go/v2/internal/verifh"
	"github.com/tink-crypto/tink-go/v2/internal/verifrt"
	"github.com/tink-crypto/tink-go/v2/key"
	"github.com/tink-crypto/tink-go/v2/secretdata"
)

// C19, key object: see verifh.CheckSymKeyObject (this key type has no output prefix).
func VerifH_c19_hmacprfkey() {
	ht := [...]HashType{SHA1, SHA224, SHA256, SHA384, SHA512}[verifrt.Choice("hash", 5)]
	ks := [...]int{16, 32}[verifrt.Choice("ks", 2)]
	params, err := NewParameters(ks, ht)
	verifrt.Assert(err == nil, "NewParameters")
	verifh.CheckSymKeyObject(ks, func(b secretdata.Bytes) (key.Key, error) { return NewKey(b, params) }, nwKeyBytes, nil, 0)
}

func nwKeyBytes(k key.Key) secretdata.Bytes { return k.(*Key).KeyBytes() }
