package prf

import (
	"errors"

	"github.com/tink-crypto/tink-go/v2/internal/internalapi"
	"github.com/tink-crypto/tink-go/v2/internal/registryconfig/legacyprimitive"
	"github.com/tink-crypto/tink-go/v2/internal/verifh"
	"github.com/tink-crypto/tink-go/v2/internal/verifrt"
	"github.com/tink-crypto/tink-go/v2/key"
	"github.com/tink-crypto/tink-go/v2/keyset"
)

// idealKeyPRF is the per-key primitive of the stub config: a stream that depends on the key
// (its position in the keyset) and on the input; outputs longer than idealPRFMax are refused
// (as real PRFs refuse outputs beyond their limit), which exercises the failure log.
type idealKeyPRF struct{ k *verifh.FKey }

const idealPRFMax = 5

func (p *idealKeyPRF) ComputePRF(input []byte, n uint32) ([]byte, error) {
	if n > idealPRFMax {
		return nil, errors.New("ideal: output too long")
	}
	x := byte(len(input))
	for _, b := range input {
		x ^= b
	}
	out := make([]byte, n)
	for j := range out {
		out[j] = (0x30 + 0x40*byte(p.k.Idx) + byte(j)) ^ x
	}
	return out, nil
}

// notAPRF is what a config hands out for a key that is not a PRF key.
type notAPRF struct{}

// stubConfig: ideal PRF per key, wrapped as a legacy primitive when the key says so. The key
// with index `bad` (if any) has no PRF primitive: badKind 0 constructor error, 1 a primitive
// of another class, 2 a legacy primitive of another class.
type stubConfig struct {
	bad, badKind int
}

func (c stubConfig) PrimitiveFromKey(k key.Key, _ internalapi.Token) (any, error) {
	fk := k.(*verifh.FKey)
	if fk.Idx == c.bad {
		switch c.badKind {
		case 0:
			return nil, errors.New("stub: no primitive for this key")
		case 1:
			return &notAPRF{}, nil
		default:
			return legacyprimitive.New(&notAPRF{}), nil
		}
	}
	if fk.Legacy {
		return legacyprimitive.New(&idealKeyPRF{k: fk}), nil
	}
	return &idealKeyPRF{k: fk}, nil
}

// prfKeyset: quick tier 1..2 keys of all four prefix kinds. The thorough tier adds (as a further
// case, so that it is a superset of the quick one) keysets of exactly 3 keys of kinds TINK / RAW:
// the factory never looks at the prefix type, and with all four kinds the 3-key tier exceeds
// the engine's path budget of 200000.
func prfKeyset() *verifh.KS {
	if verifrt.Thorough() && verifrt.Choice("deep", 2) == 1 {
		ks := verifh.SymbolicKeyset(3, []int{0, 3}, true)
		verifrt.Assume(len(ks.Keys) == 3)
		return ks
	}
	return verifh.SymbolicKeyset(2, []int{0, 1, 2, 3}, true)
}

// The PRF set mirrors the ENABLED keys of the keyset: PrimaryID is the primary key's id, the
// map has exactly one entry per ENABLED key under that key's id (disabled / destroyed keys and
// foreign ids are absent), every entry computes with its own key's primitive whatever the
// key's prefix kind (a PRF has no output prefix) and whether or not the primitive is a legacy
// one, ComputePrimaryPRF is the primary's entry, and every call is logged once under
// ("prf", "compute") naming the key that computed (LogFailure when the primitive refuses).
func VerifH_factory_prfset() {
	rec := verifh.InstallMonitoring()
	ks := prfKeyset()
	set, err := NewPRFSetWithConfig(ks.Handle, stubConfig{bad: -1})
	verifrt.Assert(err == nil && set != nil, "NewPRFSetWithConfig succeeds")
	if err != nil || set == nil {
		return
	}
	prim := ks.Keys[ks.Primary]
	verifrt.Assert(set.PrimaryID == prim.ID, "PrimaryID == id of the keyset's primary key")
	nEnabled := 0
	for i := range ks.Keys {
		if ks.Enabled(i) {
			nEnabled++
		}
	}
	verifrt.Assert(len(set.PRFs) == nEnabled, "one map entry per ENABLED key")

	// an arbitrary id is a key of the map iff it is the id of an ENABLED key
	q := verifrt.Uint32("q")
	_, has := set.PRFs[q]
	want := false
	for i, k := range ks.Keys {
		if ks.Enabled(i) && k.ID == q {
			want = true
		}
	}
	verifrt.Assert(has == want, "id in PRFs iff it is the id of an ENABLED key")

	in := verifrt.Bytes("in", verifrt.Choice("inn", 2))
	n := uint32([...]int{0, 5, 6}[verifrt.Choice("outn", 3)])

	// every key: present iff ENABLED, and its entry is that key's PRF
	for i, k := range ks.Keys {
		p, ok := set.PRFs[k.ID]
		verifrt.Assert(ok == ks.Enabled(i), "key's id present iff the key is ENABLED")
		if !ok {
			continue
		}
		mark := len(rec.Events)
		got, err := p.ComputePRF(in, n)
		ref, refErr := (&idealKeyPRF{k: k}).ComputePRF(in, n)
		verifrt.Assert((err == nil) == (refErr == nil), "entry fails iff its key's primitive fails")
		all := rec.Events[mark:]
		ev := rec.Since(mark, "compute")
		verifrt.Assert(len(all) == 1 && len(ev) == 1 && ev[0].Primitive == "prf", "exactly one log entry per call, for (prf, compute)")
		if err == nil && refErr == nil {
			verifrt.AssertEq(got, ref, "PRFs[id] computes with the primitive of the key with that id")
			verifrt.Assert(len(ev) == 1 && !ev[0].Failure && ev[0].KeyID == k.ID && ev[0].N == len(in), "success logged naming the key that computed, with the input length")
		} else {
			verifrt.Assert(got == nil, "no output on error")
			verifrt.Assert(len(ev) == 1 && ev[0].Failure, "failure logged")
		}
	}

	// ComputePrimaryPRF == the primary key's PRF, logged under the primary's id
	mark := len(rec.Events)
	got, err := set.ComputePrimaryPRF(in, n)
	ref, refErr := (&idealKeyPRF{k: prim}).ComputePRF(in, n)
	verifrt.Assert((err == nil) == (refErr == nil), "ComputePrimaryPRF fails iff the primary's primitive fails")
	ev := rec.Since(mark, "compute")
	if err == nil && refErr == nil {
		verifrt.AssertEq(got, ref, "ComputePrimaryPRF == primary key's PRF")
		verifrt.Assert(len(ev) == 1 && !ev[0].Failure && ev[0].KeyID == prim.ID && ev[0].N == len(in), "primary computation logged once, naming the primary key")
		verifrt.Reach("computed")
	} else {
		verifrt.Assert(got == nil, "no output on error")
		verifrt.Assert(len(ev) == 1 && ev[0].Failure, "failure logged")
		verifrt.Reach("refused")
	}
}

// What the factory rejects: a nil / empty handle, and a keyset in which some ENABLED key has
// no PRF primitive (constructor error, a primitive of another class, also behind the legacy
// wrapper). Keys that are not ENABLED are never handed to the config, so they cannot make the
// factory fail. No restriction on the output prefix type is enforced (all four kinds are
// accepted: see VerifH_factory_prfset).
func VerifH_factory_prfset_rejects() {
	verifh.InstallMonitoring()
	s0, err := NewPRFSetWithConfig(nil, stubConfig{bad: -1})
	verifrt.Assert(err != nil && s0 == nil, "nil handle rejected")
	var empty keyset.Handle
	s0, err = NewPRFSetWithConfig(&empty, stubConfig{bad: -1})
	verifrt.Assert(err != nil && s0 == nil, "empty handle rejected")

	ks := prfKeyset()
	bad := verifrt.Choice("bad", len(ks.Keys))
	cfg := stubConfig{bad: bad, badKind: verifrt.Choice("badkind", 3)}
	set, err := NewPRFSetWithConfig(ks.Handle, cfg)
	verifrt.Assert((err != nil) == ks.Enabled(bad), "rejected iff some ENABLED key has no PRF primitive")
	if err != nil {
		verifrt.Assert(set == nil, "no set on error")
		verifrt.Reach("rejected")
		return
	}
	verifrt.Assert(set != nil && set.PrimaryID == ks.Keys[ks.Primary].ID, "PrimaryID mirrors the primary")
	_, ok := set.PRFs[ks.Keys[bad].ID]
	verifrt.Assert(!ok, "the non-ENABLED key has no entry")
	verifrt.Reach("built")
}
