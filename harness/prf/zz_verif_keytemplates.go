package prf

import (
	"github.com/tink-crypto/tink-go/v2/internal/verifrt"
	cmacpb "github.com/tink-crypto/tink-go/v2/proto/aes_cmac_prf_go_proto"
	commonpb "github.com/tink-crypto/tink-go/v2/proto/common_go_proto"
	hkdfpb "github.com/tink-crypto/tink-go/v2/proto/hkdf_prf_go_proto"
	hmacpb "github.com/tink-crypto/tink-go/v2/proto/hmac_prf_go_proto"
	tinkpb "github.com/tink-crypto/tink-go/v2/proto/tink_go_proto"
	"google.golang.org/protobuf/proto"
)

// C12, prf/prf_key_templates.go: what the name and doc comment of each PRF key template
// promise, written out by hand. PRF keys have no output prefix (a PRF produces no
// ciphertext/tag to prefix; PRF key managers and parameters accept RAW only), so every PRF
// template must be RAW.
//   - HMACSHAxxxPRF: hash SHAxxx, key size = hash output size (32 / 64, doc comment)
//   - HKDFSHA256PRF: hash SHA256, key 32 bytes, salt empty (doc comment)
//   - AESCMACPRF: key 32 bytes (doc comment)
const (
	ktFamHMAC = iota
	ktFamHKDF
	ktFamCMAC
)

type ktRow struct {
	name    string
	fn      func() *tinkpb.KeyTemplate
	fam     int
	keySize uint32
	hash    commonpb.HashType
}

var ktTable = [4]ktRow{
	{"HMACSHA256PRFKeyTemplate", HMACSHA256PRFKeyTemplate, ktFamHMAC, 32, commonpb.HashType_SHA256},
	{"HMACSHA512PRFKeyTemplate", HMACSHA512PRFKeyTemplate, ktFamHMAC, 64, commonpb.HashType_SHA512},
	{"HKDFSHA256PRFKeyTemplate", HKDFSHA256PRFKeyTemplate, ktFamHKDF, 32, commonpb.HashType_SHA256},
	{"AESCMACPRFKeyTemplate", AESCMACPRFKeyTemplate, ktFamCMAC, 32, commonpb.HashType_UNKNOWN_HASH},
}

func VerifH_templates_prf() {
	row := ktTable[verifrt.Choice("tmpl", 4)]
	t := row.fn()
	verifrt.Assert(t != nil, "template")
	verifrt.Assert(t.GetOutputPrefixType() == tinkpb.OutputPrefixType_RAW, "PRF templates are RAW")
	switch row.fam {
	case ktFamHMAC:
		verifrt.Assert(t.GetTypeUrl() == "type.googleapis.com/google.crypto.tink.HmacPrfKey", "type URL HmacPrfKey")
		f := &hmacpb.HmacPrfKeyFormat{}
		verifrt.Assert(proto.Unmarshal(t.GetValue(), f) == nil, "key format parses")
		verifrt.Assert(f.GetParams() != nil, "params present")
		verifrt.Assert(f.GetKeySize() == row.keySize, "HMACSHAxxxPRF: key size = hash output size")
		verifrt.Assert(f.GetParams().GetHash() == row.hash, "HMACSHAxxxPRF: hash of the name")
		verifrt.Assert(f.GetVersion() == 0, "version 0")
	case ktFamHKDF:
		verifrt.Assert(t.GetTypeUrl() == "type.googleapis.com/google.crypto.tink.HkdfPrfKey", "type URL HkdfPrfKey")
		f := &hkdfpb.HkdfPrfKeyFormat{}
		verifrt.Assert(proto.Unmarshal(t.GetValue(), f) == nil, "key format parses")
		verifrt.Assert(f.GetParams() != nil, "params present")
		verifrt.Assert(f.GetKeySize() == row.keySize, "HKDFSHA256PRF: key size 32")
		verifrt.Assert(f.GetParams().GetHash() == row.hash, "HKDFSHA256PRF: hash SHA256")
		verifrt.Assert(len(f.GetParams().GetSalt()) == 0, "HKDFSHA256PRF: empty salt")
		verifrt.Assert(f.GetVersion() == 0, "version 0")
	case ktFamCMAC:
		verifrt.Assert(t.GetTypeUrl() == "type.googleapis.com/google.crypto.tink.AesCmacPrfKey", "type URL AesCmacPrfKey")
		f := &cmacpb.AesCmacPrfKeyFormat{}
		verifrt.Assert(proto.Unmarshal(t.GetValue(), f) == nil, "key format parses")
		verifrt.Assert(f.GetKeySize() == row.keySize, "AESCMACPRF: key size 32")
		verifrt.Assert(f.GetVersion() == 0, "version 0")
	}
	verifrt.Reach("end")
}
