package ecies

import (
	"github.com/tink-crypto/tink-go/v2/internal/verifh"
	"github.com/tink-crypto/tink-go/v2/internal/verifrt"
)

// ECIES public keys own their bytes. (The key object is built directly: its constructor
// validates the point with crypto/ecdh, which the engine does not execute.)
func VerifH_c19_ecies_publickey() {
	b := verifrt.Bytes("point", 65)
	k := &PublicKey{publicKeyBytes: append([]byte{}, b...), idRequirement: verifrt.Uint32("id"), outputPrefix: []byte{1, 2, 3, 4, 5}}
	ref := &PublicKey{publicKeyBytes: append([]byte{}, b...), idRequirement: k.idRequirement, outputPrefix: []byte{1, 2, 3, 4, 5}}
	verifh.CheckBytesAccessor(k.PublicKeyBytes, "PublicKeyBytes()")
	verifrt.AssertEq(k.publicKeyBytes, ref.publicKeyBytes, "key unchanged after writing into PublicKeyBytes()'s result")
	verifh.CheckBytesAccessor(k.OutputPrefix, "OutputPrefix()")
	verifrt.Reach("end")
}
