package ecies

import (
	"crypto/ecdh"
	"errors"

	"github.com/tink-crypto/tink-go/v2/aead/aesctrhmac"
	"github.com/tink-crypto/tink-go/v2/aead/aesgcm"
	"github.com/tink-crypto/tink-go/v2/aead/chacha20poly1305"
	"github.com/tink-crypto/tink-go/v2/aead/xchacha20poly1305"
	"github.com/tink-crypto/tink-go/v2/daead/aessiv"
	"github.com/tink-crypto/tink-go/v2/insecuresecretdataaccess"
	"github.com/tink-crypto/tink-go/v2/internal/verifh"
	"github.com/tink-crypto/tink-go/v2/internal/verifrt"
	"github.com/tink-crypto/tink-go/v2/internal/verifspec"
	"github.com/tink-crypto/tink-go/v2/key"
	tinkpb "github.com/tink-crypto/tink-go/v2/proto/tink_go_proto"
	"github.com/tink-crypto/tink-go/v2/secretdata"
)

// ---------------------------------------------------------------------------------------
// The KEY-OBJECT level of ECIES-AEAD-HKDF: Parameters, PublicKey, PrivateKey for the three
// NIST curves and X25519. Curve arithmetic is replaced by uninterpreted symbols per curve C
// (as in signature/ecdsa's key-level harness):
//	ONCURVE_C(encoding)   "the uncompressed encoding is a point of C"
//	SCALAROK_C(scalar)    "1 <= scalar < order(C)"        (every 32-byte string for X25519)
//	PUB_C(scalar)         the public key of the scalar    (with ONCURVE_C(0x04 || PUB_C(s)))
// crypto/ecdh's format checks (length, leading byte) are part of the model; the Tink key
// constructors, serializers and parsers run as real code.
// ---------------------------------------------------------------------------------------

type klCurve struct {
	ct   CurveType
	name string // crypto/ecdh's name of the curve
	size int    // bytes per coordinate / scalar
	pub  int    // public key length crypto/ecdh expects
}

var klCurves = [4]klCurve{
	{NISTP256, "P-256", 32, 65},
	{NISTP384, "P-384", 48, 97},
	{NISTP521, "P-521", 66, 133},
	{X25519, "X25519", 32, 32},
}

var errKL = errors.New("stub: invalid")

func klOnCurve(c string, enc []byte) bool { return verifrt.UF("ONCURVE_"+c, 1, enc)[0]&1 == 1 }
func klScalarOK(c klCurve, sk []byte) bool {
	if c.ct == X25519 {
		return true // clamping: every 32-byte string is a private key
	}
	return verifrt.UF("SCALAROK_"+c.name, 1, sk)[0]&1 == 1
}
func klPub(c klCurve, sk []byte) []byte {
	if c.ct == X25519 {
		return verifrt.UF("PUB_X25519", 32, sk)
	}
	return append([]byte{4}, verifrt.UF("PUB_"+c.name, 2*c.size, sk)...)
}

// klPubOK is crypto/ecdh's NewPublicKey for the curve: X25519 takes any 32 bytes; NIST curves
// take exactly the uncompressed encoding (0x04 || X || Y) of a point of the curve - the
// point at infinity (a lone 0x00) and compressed encodings (0x02 / 0x03 || X) are refused.
func klPubOK(c klCurve, b []byte) bool {
	if c.ct == X25519 {
		return len(b) == 32
	}
	return len(b) == 1+2*c.size && b[0] == 4 && klOnCurve(c.name, b)
}

// klNistCurve mirrors the head of crypto/ecdh's unexported nistCurve struct (first field: the
// curve's name), which the stubs receive as receiver: they act according to the curve OBJECT
// the code under test called, not the one it should have.
type klNistCurve struct {
	name string
}

func (c *klNistCurve) index() int {
	for i := 0; i < 3; i++ {
		if c.name == klCurves[i].name {
			return i
		}
	}
	panic("crypto/ecdh called on an unknown curve object")
}

type klTab struct {
	ptrs   []any
	curves []int
	vals   [][]byte
}

func (t *klTab) put(p any, ci int, v []byte) {
	t.ptrs, t.curves, t.vals = append(t.ptrs, p), append(t.curves, ci), append(t.vals, append([]byte{}, v...))
}

func (t *klTab) get(p any) (int, []byte) {
	for i := range t.ptrs {
		if t.ptrs[i] == p {
			return t.curves[i], t.vals[i]
		}
	}
	panic("unknown crypto/ecdh key object")
}

func klInstall() {
	t := &klTab{}
	newPub := func(ci int, b []byte) (*ecdh.PublicKey, error) {
		if !klPubOK(klCurves[ci], b) {
			return nil, errKL
		}
		k := &ecdh.PublicKey{}
		t.put(k, ci, b)
		return k, nil
	}
	newPriv := func(ci int, sk []byte) (*ecdh.PrivateKey, error) {
		if len(sk) != klCurves[ci].size || !klScalarOK(klCurves[ci], sk) {
			return nil, errKL
		}
		k := &ecdh.PrivateKey{}
		t.put(k, ci, sk)
		return k, nil
	}
	verifrt.Summarize("crypto/ecdh.nistCurve).NewPublicKey", func(c *klNistCurve, b []byte) (*ecdh.PublicKey, error) { return newPub(c.index(), b) })
	verifrt.Summarize("crypto/ecdh.nistCurve).NewPrivateKey", func(c *klNistCurve, sk []byte) (*ecdh.PrivateKey, error) { return newPriv(c.index(), sk) })
	verifrt.Summarize("crypto/ecdh.x25519Curve).NewPublicKey", func(_ any, b []byte) (*ecdh.PublicKey, error) { return newPub(3, b) })
	verifrt.Summarize("crypto/ecdh.x25519Curve).NewPrivateKey", func(_ any, sk []byte) (*ecdh.PrivateKey, error) { return newPriv(3, sk) })
	verifrt.Summarize("crypto/ecdh.PrivateKey).PublicKey", func(k *ecdh.PrivateKey) *ecdh.PublicKey {
		ci, sk := t.get(k)
		pt := klPub(klCurves[ci], sk)
		if ci < 3 {
			verifrt.Assume(klOnCurve(klCurves[ci].name, pt))
		}
		pub := &ecdh.PublicKey{}
		t.put(pub, ci, pt)
		return pub
	})
	verifrt.Summarize("crypto/ecdh.PublicKey).Bytes", func(k *ecdh.PublicKey) []byte {
		_, b := t.get(k)
		return append([]byte{}, b...)
	})
	verifrt.Summarize("crypto/ecdh.PublicKey).Equal", func(k *ecdh.PublicKey, o any) bool {
		c1, b1 := t.get(k)
		c2, b2 := t.get(o.(*ecdh.PublicKey))
		return c1 == c2 && verifrt.EqBytes(b1, b2)
	})
}

func klSD(b []byte) secretdata.Bytes {
	return secretdata.NewBytesFromData(b, insecuresecretdataaccess.Token{})
}

// ---------------------------------------------------------------------------------------
// (1) NewParameters
// ---------------------------------------------------------------------------------------

// klDEMCandidates: the six DEMs Tink allows for ECIES (AES128-GCM, AES256-GCM, AES256-SIV,
// XChaCha20-Poly1305, AES128-CTR-HMAC-SHA256 with 16-byte tag, AES256-CTR-HMAC-SHA256 with
// 32-byte tag; 12-byte GCM IV, 16-byte CTR IV, 32-byte HMAC key; all without output prefix),
// built here through the public constructors, followed by near misses.
func klDEMCandidates() (cands []key.Parameters, allowed int) {
	must := func(p key.Parameters, err error) key.Parameters {
		verifrt.Assert(err == nil && p != nil, "DEM candidate")
		return p
	}
	gcm := func(ks, iv, tag int, v aesgcm.Variant) key.Parameters {
		return must(aesgcm.NewParameters(aesgcm.ParametersOpts{KeySizeInBytes: ks, IVSizeInBytes: iv, TagSizeInBytes: tag, Variant: v}))
	}
	ctr := func(aes, mac, iv, tag int, h aesctrhmac.HashType, v aesctrhmac.Variant) key.Parameters {
		return must(aesctrhmac.NewParameters(aesctrhmac.ParametersOpts{AESKeySizeInBytes: aes, HMACKeySizeInBytes: mac, IVSizeInBytes: iv, TagSizeInBytes: tag, HashType: h, Variant: v}))
	}
	cands = []key.Parameters{
		gcm(16, 12, 16, aesgcm.VariantNoPrefix),
		gcm(32, 12, 16, aesgcm.VariantNoPrefix),
		must(aessiv.NewParameters(64, aessiv.VariantNoPrefix)),
		must(xchacha20poly1305.NewParameters(xchacha20poly1305.VariantNoPrefix)),
		ctr(16, 32, 16, 16, aesctrhmac.SHA256, aesctrhmac.VariantNoPrefix),
		ctr(32, 32, 16, 32, aesctrhmac.SHA256, aesctrhmac.VariantNoPrefix),
	}
	allowed = len(cands)
	cands = append(cands,
		gcm(16, 12, 16, aesgcm.VariantTink),    // with an output prefix
		gcm(32, 12, 16, aesgcm.VariantCrunchy), // with an output prefix
		must(aessiv.NewParameters(64, aessiv.VariantTink)),
		must(aessiv.NewParameters(48, aessiv.VariantNoPrefix)), // AES192-SIV
		must(xchacha20poly1305.NewParameters(xchacha20poly1305.VariantTink)),
		must(chacha20poly1305.NewParameters(chacha20poly1305.VariantNoPrefix)), // not XChaCha
		ctr(16, 32, 16, 32, aesctrhmac.SHA256, aesctrhmac.VariantNoPrefix),     // AES128 with the AES256 tag size
		ctr(32, 32, 16, 16, aesctrhmac.SHA256, aesctrhmac.VariantNoPrefix),     // AES256 with the AES128 tag size
		ctr(16, 32, 16, 16, aesctrhmac.SHA512, aesctrhmac.VariantNoPrefix),     // another hash
		ctr(16, 16, 16, 16, aesctrhmac.SHA256, aesctrhmac.VariantNoPrefix),     // another HMAC key size
		ctr(16, 32, 12, 16, aesctrhmac.SHA256, aesctrhmac.VariantNoPrefix),     // another IV size
		ctr(32, 32, 16, 32, aesctrhmac.SHA256, aesctrhmac.VariantTink),         // with an output prefix
	)
	return
}

func VerifH_keylevel_ecies_params() {
	// enum ranges as declared (values beyond them: VerifH_keylevel_ecies_enumrange)
	curve := CurveType(verifrt.IntRange("curve", 0, 4))
	hashT := HashType(verifrt.IntRange("hash", 0, 5))
	pf := PointFormat(verifrt.IntRange("pointformat", 0, 3))
	variant := Variant(verifrt.IntRange("variant", 0, 3))
	cands, allowed := klDEMCandidates()
	di := verifrt.Choice("dem", len(cands))
	salt := verifrt.Bytes("salt", verifrt.Choice("saltlen", 2))
	p, err := NewParameters(ParametersOpts{CurveType: curve, HashType: hashT, NISTCurvePointFormat: pf, DEMParameters: cands[di], Salt: salt, Variant: variant})
	// the rule: a known curve, hash and variant; NIST curves (1..3) need a point format
	// (compressed 1 / uncompressed 2 / legacy uncompressed 3), X25519 (4) must leave it
	// unspecified (0); the DEM is one of the six allowed ones
	and, or := verifrt.And, verifrt.Or
	nist := and(curve >= 1, curve <= 3)
	valid := and(and(curve != 0, and(hashT != 0, variant != 0)), and(or(and(nist, pf != 0), and(curve == 4, pf == 0)), di < allowed))
	verifrt.Assert((err == nil) == valid, "NewParameters accepts exactly: known curve / hash / variant; NIST curve <=> a point format is given; one of the six allowed DEMs (no output prefix)")
	if err != nil {
		verifrt.Assert(p == nil, "error => nil parameters")
		verifrt.Reach("rejected")
		return
	}
	verifrt.Assert(p.CurveType() == curve && p.HashType() == hashT && p.NISTCurvePointFormat() == pf && p.Variant() == variant && p.DEMParameters() == cands[di], "accessors return the constructor's arguments")
	verifrt.AssertEq(p.Salt(), salt, "Salt()")
	verifrt.Assert(p.HasIDRequirement() == (variant != VariantNoPrefix), "id requirement <=> variant is not NO_PREFIX")
	verifrt.Reach("accepted")
}

// enum values outside the declared ranges: NewParameters refuses only the zero values
// (observation of DESIGN.md section 6), but no key can be made from such parameters.
func VerifH_keylevel_ecies_enumrange() {
	klInstall()
	cands, _ := klDEMCandidates()
	curve, variant := CurveType(verifrt.Int("curve")), Variant(verifrt.Int("variant"))
	verifrt.Assume(verifrt.Or(verifrt.Or(curve < 0, curve > 4), verifrt.Or(variant < 0, variant > 3)))
	p, err := NewParameters(ParametersOpts{CurveType: curve, HashType: SHA256, NISTCurvePointFormat: PointFormat(verifrt.IntRange("pointformat", 0, 3)), DEMParameters: cands[0], Variant: variant})
	if err != nil {
		verifrt.Reach("params-refused")
		return
	}
	n := [...]int{32, 65, 97, 133}[verifrt.Choice("len", 4)]
	_, e1 := NewPublicKey(verifrt.Bytes("pub", n), 0, p)
	_, e2 := NewPrivateKey(klSD(verifrt.Bytes("sk", [...]int{32, 48, 66}[verifrt.Choice("sklen", 3)])), 0, p)
	verifrt.Assert(e1 != nil && e2 != nil, "parameters with a curve or variant outside the enums never yield a key")
	verifrt.Reach("params-accepted-key-refused")
}

// klParams: valid parameters for curve x (a point format for NIST curves) x variant.
func klParams() (ci int, c klCurve, params *Parameters, kind int) {
	ci = verifrt.Choice("curve", 4)
	c = klCurves[ci]
	pf := UnspecifiedPointFormat
	if ci < 3 {
		pf = [...]PointFormat{CompressedPointFormat, UncompressedPointFormat, LegacyUncompressedPointFormat}[verifrt.Choice("pointformat", 3)]
	}
	vi := verifrt.Choice("variant", 3)
	kind = [...]int{0, 1, 3}[vi]
	variant := [...]Variant{VariantTink, VariantCrunchy, VariantNoPrefix}[vi]
	params, err := NewParameters(ParametersOpts{CurveType: c.ct, HashType: SHA256, NISTCurvePointFormat: pf, DEMParameters: allowedDEMParameters[0], Salt: []byte{1, 2}, Variant: variant})
	verifrt.Assert(err == nil && params != nil, "NewParameters")
	return
}

// ---------------------------------------------------------------------------------------
// (2) NewPublicKey: whatever the ciphertext point format of the parameters, the key is the
// uncompressed point (NIST) / the 32-byte u-coordinate (X25519).
// ---------------------------------------------------------------------------------------

func VerifH_keylevel_ecies_publickey() {
	verifrt.EngineOnly()
	klInstall()
	_, c, params, kind := klParams()
	id := verifrt.Uint32("id") // arbitrary also for NO_PREFIX
	cands := []int{0, 1, 31, 32, 33, 49, 64, 65, 66, 96, 97, 98, 132, 133, 134}
	n := cands[verifrt.Choice("len", len(cands))]
	pt := verifrt.Bytes("pt", n)
	pt0 := append([]byte{}, pt...)
	k, err := NewPublicKey(pt, id, params)
	want := klPubOK(c, pt0) && (kind != 3 || id == 0)
	verifrt.Assert((err == nil) == want, "NewPublicKey accepts exactly: 65/97/133-byte uncompressed point of the parameters' NIST curve, or any 32 bytes for X25519 (and id 0 if NO_PREFIX)")
	if err != nil {
		verifrt.Assert(k == nil, "error => nil key")
		verifrt.Reach("rejected")
		return
	}
	verifrt.AssertEq(k.PublicKeyBytes(), pt0, "PublicKeyBytes() is the constructor's value")
	gotID, req := k.IDRequirement()
	verifrt.Assert(gotID == id && req == (kind != 3), "IDRequirement")
	verifrt.AssertEq(k.OutputPrefix(), verifspec.Prefix(kind, id), "output prefix: 0x01||id TINK, 0x00||id CRUNCHY, empty NO_PREFIX")
	verifrt.Assert(k.Parameters() == key.Parameters(params), "Parameters() are the constructor's")
	k2, err := NewPublicKey(pt0, id, params)
	verifrt.Assert(err == nil && k.Equal(k2) && k2.Equal(k), "a key made from the same values is Equal")
	other := append([]byte{}, pt0...)
	other[n-1] ^= 1 | verifrt.Byte("flip")
	if klPubOK(c, other) {
		k3, err := NewPublicKey(other, id, params)
		verifrt.Assert(err == nil && !k.Equal(k3) && !k3.Equal(k), "a key with other bytes is not Equal")
	}
	verifrt.Reach("accepted")
}

// C19, NIST curves (X25519: VerifH_c19_eciespublickey): the constructor copies the caller's
// slice; the accessors return copies.
func VerifH_c19_ecies_publickey_nist() {
	verifrt.EngineOnly()
	klInstall()
	ci, c, params, kind := klParams()
	verifrt.Assume(ci < 3)
	id := verifrt.Uint32("id")
	if kind == 3 {
		id = 0
	}
	pt := verifh.BufWith("pt", c.pub, verifh.SpareProfile("spare"), "caller public key buffer")
	verifrt.Assume(klPubOK(c, pt))
	k, err := NewPublicKey(pt, id, params)
	verifrt.Assert(err == nil, "NewPublicKey")
	verifh.CheckCtorClones("NewPublicKey(publicKeyBytes)", pt, k.PublicKeyBytes, k.publicKeyBytes)
	verifh.CheckAccessorsClone(
		verifh.Accessor{Name: "PublicKeyBytes", Get: k.PublicKeyBytes},
		verifh.Accessor{Name: "OutputPrefix", Get: k.OutputPrefix},
	)
	verifrt.Assert(!verifrt.SameArray(k.PublicKeyBytes(), k.publicKeyBytes), "PublicKeyBytes() does not return the internal slice")
	verifrt.Reach("end")
}

// ---------------------------------------------------------------------------------------
// (3) NewPrivateKey / NewPrivateKeyFromPublicKey
// ---------------------------------------------------------------------------------------

func VerifH_keylevel_ecies_privatekey() {
	verifrt.EngineOnly()
	klInstall()
	_, c, params, kind := klParams()
	id := verifrt.Uint32("id")
	n := c.size - 2 + verifrt.Choice("sklen", 5)
	sk := verifrt.Bytes("sk", n)
	k, err := NewPrivateKey(klSD(sk), id, params)
	skOK := n == c.size && klScalarOK(c, sk)
	verifrt.Assert((err == nil) == (skOK && (kind != 3 || id == 0)), "NewPrivateKey accepts exactly a private key of the curve's size (NIST: in [1, order)) (and id 0 if NO_PREFIX)")
	if err == nil {
		pub, perr := k.PublicKey()
		verifrt.Assert(perr == nil, "PublicKey()")
		verifrt.AssertEq(pub.(*PublicKey).PublicKeyBytes(), klPub(c, sk), "NewPrivateKey: the public key is the one derived from the private key bytes")
		verifrt.AssertEq(k.PrivateKeyBytes().Data(insecuresecretdataaccess.Token{}), sk, "PrivateKeyBytes() is the constructor's value")
		verifrt.AssertEq(k.OutputPrefix(), verifspec.Prefix(kind, id), "output prefix")
		gotID, req := k.IDRequirement()
		verifrt.Assert(gotID == id && req == (kind != 3) && k.Parameters() == key.Parameters(params), "id requirement and parameters")
	} else {
		verifrt.Assert(k == nil, "error => nil key")
	}
	if kind == 3 {
		id = 0
	}
	// NewPrivateKeyFromPublicKey with an arbitrary public key of the curve
	offered := verifrt.Bytes("offered", c.pub)
	verifrt.Assume(klPubOK(c, offered))
	pub, err := NewPublicKey(offered, id, params)
	verifrt.Assert(err == nil, "NewPublicKey(valid public key)")
	k2, err := NewPrivateKeyFromPublicKey(klSD(sk), pub)
	match := skOK && verifrt.EqBytes(offered, klPub(c, sk))
	verifrt.Assert((err == nil) == match, "NewPrivateKeyFromPublicKey accepts exactly the private key whose public key is the given one")
	if err != nil {
		verifrt.Assert(k2 == nil, "error => nil key")
		verifrt.Reach("mismatch-rejected")
		return
	}
	if k == nil { // NO_PREFIX with a non-zero id above
		k, err = NewPrivateKey(klSD(sk), id, params)
		verifrt.Assert(err == nil, "NewPrivateKey")
	}
	verifrt.Assert(k != nil && k2.Equal(k) && k.Equal(k2), "both constructors give Equal keys")
	pub2, _ := k2.PublicKey()
	verifrt.Assert(pub2 == key.Key(pub), "PublicKey() is the given public key")
	verifrt.AssertEq(k2.PrivateKeyBytes().Data(insecuresecretdataaccess.Token{}), sk, "PrivateKeyBytes() is the given value")
	verifrt.Reach("match-accepted")
}

// ---------------------------------------------------------------------------------------
// C12: keys survive serialization (NIST: coordinates and scalar travel with a leading zero
// byte, see b/264525021; X25519: raw 32 bytes).
// ---------------------------------------------------------------------------------------

func VerifH_serial_ecies_keys() {
	verifrt.EngineOnly()
	klInstall()
	stubRegistry()
	_, c, params, kind := klParams()
	id := verifrt.Uint32("id")
	if kind == 3 {
		id = 0
	}
	sk := verifrt.Bytes("sk", c.size)
	verifrt.Assume(klScalarOK(c, sk))
	priv, err := NewPrivateKey(klSD(sk), id, params)
	verifrt.Assert(err == nil, "NewPrivateKey")
	if verifrt.Choice("which", 2) == 0 {
		verifh.CheckKeyRoundTripOnly(priv, &privateKeySerializer{}, &privateKeyParser{}, kind, id, privateKeyTypeURL, tinkpb.KeyData_ASYMMETRIC_PRIVATE)
	} else {
		pub, _ := priv.PublicKey()
		verifh.CheckKeyRoundTripOnly(pub, &publicKeySerializer{}, &publicKeyParser{}, kind, id, publicKeyTypeURL, tinkpb.KeyData_ASYMMETRIC_PUBLIC)
	}
}
