package ecies

import (
	"crypto/ecdh"
	"errors"

	"github.com/tink-crypto/tink-go/v2/internal/verifh"
	"github.com/tink-crypto/tink-go/v2/internal/verifrt"
)

// C19, parameters object: NewParameters clones ParametersOpts.Salt and Salt() returns a
// copy: overwriting either leaves the parameters Equal to parameters made from a private
// copy of the salt. (Keys need curve points and are outside the engine's reach.)
func VerifH_c19_eciesparams() {
	ci := verifrt.Choice("curve", 2)
	curve := [...]CurveType{NISTP256, X25519}[ci]
	pf := [...]PointFormat{CompressedPointFormat, UnspecifiedPointFormat}[ci]
	dem := allowedDEMParameters[verifrt.Choice("dem", 6)]
	sl := [...]int{1, 16}[verifrt.Choice("sl", 2)]
	salt := verifh.BufWith("salt", sl, verifh.SpareProfile("salt.spare"), "caller salt buffer")
	salt0 := append([]byte{}, salt...)
	mk := func(s []byte) *Parameters {
		p, err := NewParameters(ParametersOpts{CurveType: curve, HashType: SHA256, NISTCurvePointFormat: pf, DEMParameters: dem, Salt: s, Variant: VariantTink})
		verifrt.Assert(err == nil, "NewParameters")
		return p
	}
	p := mk(salt)
	ref := mk(append([]byte{}, salt0...))
	verifh.CheckCtorClones("NewParameters(Salt)", salt, p.Salt, p.salt)
	verifh.CheckAccessorsClone(verifh.Accessor{Name: "Salt", Get: p.Salt})
	verifrt.Assert(!verifrt.SameArray(p.Salt(), p.salt), "Salt() does not return the internal slice")
	verifrt.Assert(p.Equal(ref) && ref.Equal(p), "parameters unchanged by the caller's writes")
	verifrt.Reach("end")
}

// C19, public key object on X25519 (where every 32-byte string is a public key, so the
// constructor's validation is a length check): NewPublicKey clones the caller's bytes;
// PublicKeyBytes() and OutputPrefix() must return copies.
func VerifH_c19_eciespublickey() {
	// crypto/ecdh's X25519 NewPublicKey is a length check (plus a FIPS-mode switch the engine
	// cannot read); under the engine it is replaced by that length check, natively it runs.
	verifrt.Summarize("crypto/ecdh.x25519Curve).NewPublicKey", func(c any, key []byte) (*ecdh.PublicKey, error) {
		if len(key) != 32 {
			return nil, errors.New("crypto/ecdh: invalid public key")
		}
		return nil, nil
	})
	vi := verifrt.Choice("variant", 3)
	v := [...]Variant{VariantTink, VariantCrunchy, VariantNoPrefix}[vi]
	id := verifrt.Uint32("id")
	if vi == 2 {
		id = 0
	}
	params, err := NewParameters(ParametersOpts{CurveType: X25519, HashType: SHA256, NISTCurvePointFormat: UnspecifiedPointFormat, DEMParameters: allowedDEMParameters[0], Variant: v})
	verifrt.Assert(err == nil, "NewParameters")
	pub := verifh.BufWith("pub", 32, verifh.SpareProfile("spare"), "caller public-key buffer")
	pub0 := append([]byte{}, pub...)
	k, err := NewPublicKey(pub, id, params)
	verifrt.Assert(err == nil, "NewPublicKey")
	verifh.CheckCtorClones("NewPublicKey(publicKeyBytes)", pub, func() []byte { return append([]byte{}, k.publicKeyBytes...) }, k.publicKeyBytes)
	ref, err := NewPublicKey(pub0, id, params)
	verifrt.Assert(err == nil && k.Equal(ref), "equal to a key made from the original bytes")
	verifh.CheckAccessorsClone(
		verifh.Accessor{Name: "PublicKeyBytes", Get: k.PublicKeyBytes},
		verifh.Accessor{Name: "OutputPrefix", Get: k.OutputPrefix},
	)
	verifrt.Assert(k.Equal(ref) && ref.Equal(k), "public key unchanged by the caller's writes")
	verifrt.Reach("end")
}
