package ecies

import (
	"google.golang.org/protobuf/proto"
	"github.com/tink-crypto/tink-go/v2/aead/aesctrhmac"
	"github.com/tink-crypto/tink-go/v2/aead/aesgcm"
	"github.com/tink-crypto/tink-go/v2/aead/xchacha20poly1305"
	"github.com/tink-crypto/tink-go/v2/daead/aessiv"
	"github.com/tink-crypto/tink-go/v2/internal/verifh"
	"github.com/tink-crypto/tink-go/v2/internal/verifrt"
	"github.com/tink-crypto/tink-go/v2/key"
	tinkpb "github.com/tink-crypto/tink-go/v2/proto/tink_go_proto"
)

// The DEM parameters go through the global serialization registry (a sync.Map filled by the
// packages' init() functions; the engine executes neither). It is replaced (verifrt.Summarize)
// by the dispatch below = the registry's content after the init() of the four DEM packages.
// proto.Clone (reflection) is replaced by a field-wise copy of the only message type cloned
// here (*tinkpb.KeyTemplate). Natively (replays) the real registry and proto.Clone run.
func regSerializeParameters(p key.Parameters) (*tinkpb.KeyTemplate, error) {
	var ps verifh.ParSer
	switch p.(type) {
	case *aesgcm.Parameters:
		_, _, ps, _ = aesgcm.VerifSerializers()
	case *aessiv.Parameters:
		_, _, ps, _ = aessiv.VerifSerializers()
	case *xchacha20poly1305.Parameters:
		_, _, ps, _ = xchacha20poly1305.VerifSerializers()
	case *aesctrhmac.Parameters:
		_, _, ps, _ = aesctrhmac.VerifSerializers()
	default:
		panic("harness registry: unexpected parameters type")
	}
	return ps.Serialize(p)
}

func regParseParameters(t *tinkpb.KeyTemplate) (key.Parameters, error) {
	var pp verifh.ParPar
	switch t.GetTypeUrl() {
	case aesgcm.VerifTypeURL:
		_, _, _, pp = aesgcm.VerifSerializers()
	case aessiv.VerifTypeURL:
		_, _, _, pp = aessiv.VerifSerializers()
	case xchacha20poly1305.VerifTypeURL:
		_, _, _, pp = xchacha20poly1305.VerifSerializers()
	case aesctrhmac.VerifTypeURL:
		_, _, _, pp = aesctrhmac.VerifSerializers()
	default:
		panic("harness registry: unexpected template type URL")
	}
	return pp.Parse(t)
}

func cloneTemplate(m proto.Message) proto.Message {
	t := m.(*tinkpb.KeyTemplate)
	if t == nil {
		return (*tinkpb.KeyTemplate)(nil)
	}
	return &tinkpb.KeyTemplate{TypeUrl: t.TypeUrl, Value: append([]byte(nil), t.Value...), OutputPrefixType: t.OutputPrefixType}
}

func stubRegistry() {
	verifrt.Summarize("internal/protoserialization.SerializeParameters", regSerializeParameters)
	verifrt.Summarize("internal/protoserialization.ParseParameters", regParseParameters)
	verifrt.Summarize("google.golang.org/protobuf/proto.Clone", cloneTemplate)
}

// Parameters only (keys need curve arithmetic). Every combination the constructor accepts:
// (curve, point format) in {P256,P384,P521} x {COMPRESSED, UNCOMPRESSED, LEGACY_UNCOMPRESSED}
// + (X25519, unspecified) x hash {SHA1,SHA224,SHA256,SHA384,SHA512} x all 6 allowed DEMs
// {AES128-GCM, AES256-GCM, AES256-SIV, XChaCha20-Poly1305, AES128-CTR-HMAC-SHA256,
// AES256-CTR-HMAC-SHA256} x salt {nil, 1, 16 symbolic bytes} x variant {TINK, CRUNCHY, NO_PREFIX}.
func VerifH_serialparams_ecies() {
	stubRegistry()
	ci := verifrt.Choice("curve", 4)
	curve := [...]CurveType{NISTP256, NISTP384, NISTP521, X25519}[ci]
	pf := UnspecifiedPointFormat
	if ci != 3 {
		pf = [...]PointFormat{CompressedPointFormat, UncompressedPointFormat, LegacyUncompressedPointFormat}[verifrt.Choice("pointformat", 3)]
	}
	hash := [...]HashType{SHA1, SHA224, SHA256, SHA384, SHA512}[verifrt.Choice("hash", 5)]
	verifrt.Assert(len(allowedDEMParameters) == 6, "six allowed DEMs")
	dem := allowedDEMParameters[verifrt.Choice("dem", 6)]
	var salt []byte
	if n := verifrt.Choice("salt", 3); n > 0 {
		salt = verifrt.Bytes("saltbytes", [...]int{0, 1, 16}[n])
	}
	vi := verifrt.Choice("variant", 3)
	v := [...]Variant{VariantTink, VariantCrunchy, VariantNoPrefix}[vi]
	kind := [...]int{0, 1, 3}[vi]
	params, err := NewParameters(ParametersOpts{CurveType: curve, HashType: hash, NISTCurvePointFormat: pf, DEMParameters: dem, Salt: salt, Variant: v})
	verifrt.Assert(err == nil, "NewParameters")
	verifh.CheckParamsRoundTrip(params, &parametersSerializer{}, &parametersParser{}, kind, privateKeyTypeURL)
}
