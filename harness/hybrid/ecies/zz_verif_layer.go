package ecies

import (
	"crypto/elliptic"
	"errors"
	"math/big"

	"github.com/tink-crypto/tink-go/v2/aead/aesgcm"
	"github.com/tink-crypto/tink-go/v2/hybrid/subtle"
	"github.com/tink-crypto/tink-go/v2/insecuresecretdataaccess"
	"github.com/tink-crypto/tink-go/v2/internal/internalapi"
	"github.com/tink-crypto/tink-go/v2/internal/verifrt"
	"github.com/tink-crypto/tink-go/v2/internal/verifspec"
	"github.com/tink-crypto/tink-go/v2/secretdata"
)

// The Tink layer of ECIES-AEAD-HKDF for NIST curves: NewHybridEncrypt / NewHybridDecrypt hand
// the subtle implementation the curve, hash name, point format name, salt, DEM and key
// material of the key's parameters, and wrap it with the output prefix. The subtle
// implementation is an ideal primitive here (decided on its own in VerifH_ecies_*).

type layerCurve struct {
	elliptic.Curve
	name string
}

var errLayer = errors.New("ideal ecies: decryption failed")

func VerifH_ecies_layer() {
	verifrt.EngineOnly()
	cSel := verifrt.Choice("curve", 3)
	curve := [...]CurveType{NISTP256, NISTP384, NISTP521}[cSel]
	coord := [...]int{32, 48, 66}[cSel]
	curveNames := [...]string{"NIST_P256", "NIST_P384", "NIST_P521"}
	hSel := verifrt.Choice("hash", 5)
	hash := [...]HashType{SHA1, SHA224, SHA256, SHA384, SHA512}[hSel]
	hashName := [...]string{"SHA1", "SHA224", "SHA256", "SHA384", "SHA512"}[hSel]
	fSel := verifrt.Choice("format", 3)
	format := [...]PointFormat{CompressedPointFormat, UncompressedPointFormat, LegacyUncompressedPointFormat}[fSel]
	formatName := [...]string{"COMPRESSED", "UNCOMPRESSED", "DO_NOT_USE_CRUNCHY_UNCOMPRESSED"}[fSel]
	kind := [...]int{0, 1, 3}[verifrt.Choice("variant", 3)]
	variant := map[int]Variant{0: VariantTink, 1: VariantCrunchy, 3: VariantNoPrefix}[kind]
	id := verifrt.Uint32("id")
	if kind == 3 {
		id = 0
	}
	salt := verifrt.Bytes("salt", verifrt.Choice("saltn", 2))
	dem, err := aesgcm.NewParameters(aesgcm.ParametersOpts{KeySizeInBytes: 16, IVSizeInBytes: 12, TagSizeInBytes: 16, Variant: aesgcm.VariantNoPrefix})
	verifrt.Assert(err == nil, "DEM parameters")
	params, err := NewParameters(ParametersOpts{CurveType: curve, HashType: hash, NISTCurvePointFormat: format, DEMParameters: dem, Salt: salt, Variant: variant})
	verifrt.Assert(err == nil, "NewParameters")
	prefix := verifspec.Prefix(kind, id)
	// the key objects are built directly (their constructors validate curve points)
	point := append([]byte{4}, verifrt.Bytes("xy", 2*coord)...)
	verifrt.Assume(point[1] != 0 && point[1+coord] != 0) // big.Int normalisation, see VerifH_ecies_point_encoding
	sk := verifrt.Bytes("sk", 4)
	pub := &PublicKey{publicKeyBytes: point, idRequirement: id, outputPrefix: prefix, parameters: params}
	priv := &PrivateKey{publicKey: pub, privateKeyBytes: secretdata.NewBytesFromData(sk, insecuresecretdataaccess.Token{})}

	var gotCurve []string
	verifrt.Summarize("hybrid/subtle.GetCurve", func(name string) (elliptic.Curve, error) {
		gotCurve = append(gotCurve, name)
		return layerCurve{name: name}, nil
	})
	var gotSK []byte
	verifrt.Summarize("hybrid/subtle.GetECPrivateKey", func(c elliptic.Curve, b []byte) *subtle.ECPrivateKey {
		gotSK = append([]byte{}, b...)
		return &subtle.ECPrivateKey{PublicKey: subtle.ECPublicKey{Curve: c}, D: new(big.Int)}
	})
	type rawArgs struct {
		x, y         []byte
		salt         []byte
		hash, format string
		demSize      uint32
	}
	var encArgs, decArgs rawArgs
	verifrt.Summarize("hybrid/subtle.NewECIESAEADHKDFHybridEncrypt", func(pk *subtle.ECPublicKey, salt []byte, h, f string, d subtle.EciesAEADHKDFDEMHelper) (*subtle.ECIESAEADHKDFHybridEncrypt, error) {
		encArgs = rawArgs{pk.Point.X.FillBytes(make([]byte, coord)), pk.Point.Y.FillBytes(make([]byte, coord)), append([]byte{}, salt...), h, f, d.GetSymmetricKeySize()}
		return &subtle.ECIESAEADHKDFHybridEncrypt{}, nil
	})
	verifrt.Summarize("hybrid/subtle.NewECIESAEADHKDFHybridDecrypt", func(_ *subtle.ECPrivateKey, salt []byte, h, f string, d subtle.EciesAEADHKDFDEMHelper) (*subtle.ECIESAEADHKDFHybridDecrypt, error) {
		decArgs = rawArgs{nil, nil, append([]byte{}, salt...), h, f, d.GetSymmetricKeySize()}
		return &subtle.ECIESAEADHKDFHybridDecrypt{}, nil
	})
	ideal := func(pt, info []byte) []byte {
		return append(append([]byte{0xEC}, verifrt.UF("ECIESINFO", 4, info)...), pt...)
	}
	verifrt.Summarize("subtle.ECIESAEADHKDFHybridEncrypt).Encrypt", func(_ *subtle.ECIESAEADHKDFHybridEncrypt, pt, info []byte) ([]byte, error) {
		return ideal(pt, info), nil
	})
	verifrt.Summarize("subtle.ECIESAEADHKDFHybridDecrypt).Decrypt", func(_ *subtle.ECIESAEADHKDFHybridDecrypt, ct, info []byte) ([]byte, error) {
		want := ideal(nil, info)
		if len(ct) < len(want) || !verifrt.EqBytes(ct[:len(want)], want) {
			return nil, errLayer
		}
		return append([]byte{}, ct[len(want):]...), nil
	})
	e, err := NewHybridEncrypt(pub, internalapi.Token{})
	verifrt.Assert(err == nil, "NewHybridEncrypt")
	d, err := NewHybridDecrypt(priv, internalapi.Token{})
	verifrt.Assert(err == nil, "NewHybridDecrypt")
	verifrt.Assert(len(gotCurve) == 2 && gotCurve[0] == curveNames[cSel] && gotCurve[1] == curveNames[cSel], "both sides look up the key's curve by its name")
	verifrt.Assert(encArgs.hash == hashName && decArgs.hash == hashName, "HKDF hash name of the parameters")
	verifrt.Assert(encArgs.format == formatName && decArgs.format == formatName, "point format name of the parameters")
	verifrt.AssertEq(encArgs.salt, salt, "encrypt: salt of the parameters")
	verifrt.AssertEq(decArgs.salt, salt, "decrypt: salt of the parameters")
	verifrt.Assert(encArgs.demSize == 16 && decArgs.demSize == 16, "DEM helper of the parameters' DEM")
	verifrt.AssertEq(encArgs.x, point[1:1+coord], "X = first coordinate of the uncompressed public point")
	verifrt.AssertEq(encArgs.y, point[1+coord:], "Y = second coordinate")
	verifrt.AssertEq(gotSK, sk, "the private key bytes are handed to the subtle layer")

	pt := verifrt.Bytes("pt", verifrt.Choice("n", 3))
	info := verifrt.Bytes("info", verifrt.Choice("m", 2))
	ct, err := e.Encrypt(pt, info)
	verifrt.Assert(err == nil, "Encrypt")
	raw := ideal(pt, info)
	verifrt.AssertEq(ct, append(append([]byte{}, prefix...), raw...), "ciphertext == output prefix || ECIES ciphertext")
	got, err := d.Decrypt(ct, info)
	verifrt.Assert(err == nil, "Decrypt(Encrypt(pt))")
	verifrt.AssertEq(got, pt, "round trip")
	if verifrt.Choice("case", 2) == 0 {
		if len(prefix) > 0 {
			delta := verifrt.Bytes("pdelta", len(prefix))
			verifrt.Assume(!verifrt.EqBytes(delta, make([]byte, len(prefix))))
			_, err := d.Decrypt(append(verifspec.XorDelta(prefix, delta), raw...), info)
			verifrt.Assert(err != nil, "an altered prefix is rejected")
		}
	} else {
		cut := verifrt.Choice("cut", len(prefix)+5)
		_, err := d.Decrypt(ct[:cut], info)
		verifrt.Assert(err != nil, "ciphertexts cut inside the prefix or the header are rejected without a panic")
	}
	verifrt.Reach("end")
}
