package hybrid

import (
	"errors"

	"github.com/tink-crypto/tink-go/v2/internal/internalapi"
	"github.com/tink-crypto/tink-go/v2/internal/registryconfig/legacyprimitive"
	"github.com/tink-crypto/tink-go/v2/internal/verifh"
	"github.com/tink-crypto/tink-go/v2/internal/verifrt"
	"github.com/tink-crypto/tink-go/v2/key"
	"github.com/tink-crypto/tink-go/v2/keyset"
)

// Ideal per-key hybrid primitives of the stub configs. A ciphertext is
//
//	[prefix] || 0xE0+idx || len(contextInfo) || plaintext
//
// and the decrypter of a key accepts exactly the ciphertexts of that key's encrypter.
// full: the primitive handles its key's output prefix itself (as real full primitives do);
// otherwise it is a raw one and relies on the factory's adapter. Encrypter and decrypter are
// separate types: a type with both methods would implement tink.AEAD, which the factories
// refuse (see VerifH_factory_hybrid_rejects).
type idealHybrid struct {
	k    *verifh.FKey
	full bool
}

func (a *idealHybrid) prefix() []byte {
	if a.full {
		return a.k.WithHead(a.k.OutputPrefix())
	}
	return a.k.WithHead(nil)
}

func (a *idealHybrid) seal(pt, ci []byte) []byte {
	out := append(a.prefix(), 0xE0+byte(a.k.Idx), byte(len(ci)))
	return append(out, pt...)
}

func (a *idealHybrid) open(ct, ci []byte) ([]byte, error) {
	p := a.prefix()
	if len(ct) < len(p)+2 {
		return nil, errors.New("ideal: too short")
	}
	for i := range p {
		if ct[i] != p[i] {
			return nil, errors.New("ideal: wrong prefix")
		}
	}
	if ct[len(p)] != 0xE0+byte(a.k.Idx) || ct[len(p)+1] != byte(len(ci)) {
		return nil, errors.New("ideal: not mine")
	}
	return append([]byte{}, ct[len(p)+2:]...), nil
}

type idealHybridEnc struct{ idealHybrid }

func (e *idealHybridEnc) Encrypt(pt, ci []byte) ([]byte, error) { return e.seal(pt, ci), nil }

type idealHybridDec struct{ idealHybrid }

func (d *idealHybridDec) Decrypt(ct, ci []byte) ([]byte, error) { return d.open(ct, ci) }

// idealBoth has Encrypt and Decrypt, i.e. it also implements tink.AEAD.
type idealBoth struct{ idealHybrid }

func (b *idealBoth) Encrypt(pt, ci []byte) ([]byte, error) { return b.seal(pt, ci), nil }
func (b *idealBoth) Decrypt(ct, ci []byte) ([]byte, error) { return b.open(ct, ci) }

type notHybrid struct{}

// stubConfig hands out encrypters (dec == false) or decrypters (dec == true), behind the
// legacy wrapper as raw primitives when the key says so. The key with index `bad` (if any)
// gets: badKind 0 a constructor error, 1 a primitive of another class, 2 a primitive that
// also implements tink.AEAD, 3 the same behind the legacy wrapper.
type stubConfig struct {
	dec          bool
	bad, badKind int
}

func (c stubConfig) PrimitiveFromKey(k key.Key, _ internalapi.Token) (any, error) {
	fk := k.(*verifh.FKey)
	if fk.Idx == c.bad {
		switch c.badKind {
		case 0:
			return nil, errors.New("stub: no primitive for this key")
		case 1:
			return &notHybrid{}, nil
		case 2:
			return &idealBoth{idealHybrid{k: fk, full: true}}, nil
		default:
			return legacyprimitive.New(&idealBoth{idealHybrid{k: fk, full: false}}), nil
		}
	}
	ih := idealHybrid{k: fk, full: !fk.Legacy}
	var p any
	if c.dec {
		p = &idealHybridDec{ih}
	} else {
		p = &idealHybridEnc{ih}
	}
	if fk.Legacy {
		return legacyprimitive.New(p), nil
	}
	return p, nil
}

// hybridKeyset: quick tier 1..2 keys of kinds TINK / CRUNCHY / RAW. The thorough tier adds
// (as a further case, so that it is a superset of the quick one) keysets of exactly 3 keys of
// kinds TINK / RAW; with three kinds and the full input range the 3-key tier exceeds the
// engine's path budget of 200000, so the callers also shrink their input ranges when deep.
func hybridKeyset() (ks *verifh.KS, deep bool) {
	if verifrt.Thorough() && verifrt.Choice("deep", 2) == 1 {
		ks = verifh.SymbolicKeyset(3, []int{0, 3}, true)
		verifrt.Assume(len(ks.Keys) == 3)
		return ks, true
	}
	return verifh.SymbolicKeyset(2, []int{0, 1, 3}, true), false
}

// Hybrid encryption encrypts with the primary only, under the primary's prefix, whether or not
// its primitive is a legacy (raw) one; hybrid decryption accepts an input iff some ENABLED key
// whose prefix it carries (or which has none) accepts it and returns that key's plaintext;
// each call is logged once and a success names the key that did the work.
func VerifH_factory_hybrid() {
	rec := verifh.InstallMonitoring()
	ks, deep := hybridKeyset()
	enc, err := NewHybridEncryptWithConfig(ks.Handle, stubConfig{dec: false, bad: -1})
	verifrt.Assert(err == nil, "NewHybridEncryptWithConfig succeeds")
	dec, err2 := NewHybridDecryptWithConfig(ks.Handle, stubConfig{dec: true, bad: -1})
	verifrt.Assert(err2 == nil, "NewHybridDecryptWithConfig succeeds")
	if err != nil || err2 != nil {
		return
	}
	ptn, xlens := 1, []int{0, 4, 7, 8}
	if !deep {
		ptn, xlens = verifrt.Choice("ptn", 2), []int{0, 1, 4, 5, 6, 7, 8}
	}
	pt := verifrt.Bytes("pt", ptn)
	ci := verifrt.Bytes("ci", 1)
	mark := len(rec.Events)
	ct, err := enc.Encrypt(pt, ci)
	verifrt.Assert(err == nil, "Encrypt succeeds")
	prim := ks.Keys[ks.Primary]
	want := (&idealHybrid{k: prim, full: true}).seal(pt, ci)
	verifrt.AssertEq(ct, want, "Encrypt == primary key's output with the primary's prefix")
	all := rec.Events[mark:]
	ev := rec.Since(mark, "encrypt")
	verifrt.Assert(len(all) == 1 && len(ev) == 1 && ev[0].Primitive == "hybrid_encrypt" && !ev[0].Failure && ev[0].KeyID == prim.ID && ev[0].N == len(pt), "encrypt logged once, naming the primary key")

	// arbitrary input
	x := verifrt.Bytes("x", xlens[verifrt.Choice("xn", len(xlens))])
	mark = len(rec.Events)
	got, err := dec.Decrypt(x, ci)
	// reference selection: enabled keys in keyset order, 5-byte-prefix matches first, then RAW
	accepted := -1
	var wantPT []byte
	for pass := 0; pass < 2 && accepted < 0; pass++ {
		for i, k := range ks.Keys {
			if !ks.Enabled(i) || (k.Kind == 3) != (pass == 1) {
				continue
			}
			if p, e := (&idealHybrid{k: k, full: true}).open(x, ci); e == nil && accepted < 0 {
				accepted, wantPT = i, p
			}
		}
	}
	verifrt.Assert((err == nil) == (accepted >= 0), "Decrypt accepts iff some ENABLED key accepts the input")
	all = rec.Events[mark:]
	ev = rec.Since(mark, "decrypt")
	verifrt.Assert(len(all) == 1 && len(ev) == 1 && ev[0].Primitive == "hybrid_decrypt", "exactly one log entry per Decrypt, for (hybrid_decrypt, decrypt)")
	if err == nil && accepted >= 0 {
		verifrt.AssertEq(got, wantPT, "plaintext of the accepting key")
		verifrt.Assert(len(ev) == 1 && !ev[0].Failure && ev[0].KeyID == ks.Keys[accepted].ID && ev[0].N == len(x), "decrypt success logged once, naming the key that decrypted")
		verifrt.Reach("accepted")
	} else {
		verifrt.Assert(got == nil, "no plaintext on error")
		verifrt.Assert(len(ev) == 1 && ev[0].Failure, "decrypt failure logged")
		verifrt.Reach("rejected")
	}
}

// Round trip through the two factories, and the outputs of every other key of the keyset:
// the keyset decrypter returns the plaintext for the ciphertext of key j (produced by key j's
// own full primitive, as a keyset with j as primary would) iff key j is ENABLED; ciphertexts
// of disabled / destroyed keys and of a foreign key (same prefix kind, another id or another
// key under the same id) are rejected.
func VerifH_factory_hybrid_roundtrip() {
	rec := verifh.InstallMonitoring()
	ks, deep := hybridKeyset()
	enc, err := NewHybridEncryptWithConfig(ks.Handle, stubConfig{dec: false, bad: -1})
	dec, err2 := NewHybridDecryptWithConfig(ks.Handle, stubConfig{dec: true, bad: -1})
	verifrt.Assert(err == nil && err2 == nil, "factories succeed")
	if err != nil || err2 != nil {
		return
	}
	ptn := 1
	if !deep {
		ptn = verifrt.Choice("ptn", 2)
	}
	pt := verifrt.Bytes("pt", ptn)
	ci := verifrt.Bytes("ci", 1)
	ct, err := enc.Encrypt(pt, ci)
	verifrt.Assert(err == nil, "Encrypt succeeds")
	mark := len(rec.Events)
	got, err := dec.Decrypt(ct, ci)
	verifrt.Assert(err == nil, "own ciphertext decrypts")
	verifrt.AssertEq(got, pt, "round trip")
	ev := rec.Since(mark, "decrypt")
	verifrt.Assert(len(ev) == 1 && !ev[0].Failure && ev[0].KeyID == ks.Keys[ks.Primary].ID && ev[0].N == len(ct), "round trip logged under the primary")

	// another context info of the same length is a different ciphertext only through its
	// length byte in this ideal scheme: use another length
	_, err = dec.Decrypt(ct, append([]byte{7}, ci...))
	verifrt.Assert(err != nil, "other context info rejected")

	// ciphertext of key j
	j := verifrt.Choice("j", len(ks.Keys))
	kj := ks.Keys[j]
	cj := (&idealHybrid{k: kj, full: true}).seal(pt, ci)
	mark = len(rec.Events)
	got, err = dec.Decrypt(cj, ci)
	verifrt.Assert((err == nil) == ks.Enabled(j), "ciphertext of key j accepted iff key j is ENABLED")
	ev = rec.Since(mark, "decrypt")
	if err == nil {
		verifrt.AssertEq(got, pt, "plaintext of key j's ciphertext")
		verifrt.Assert(len(ev) == 1 && !ev[0].Failure && ev[0].KeyID == kj.ID, "logged naming key j")
	} else {
		verifrt.Assert(got == nil && len(ev) == 1 && ev[0].Failure, "no plaintext, failure logged")
	}

	// foreign key: not in the keyset (another position => another key), any prefix kind, any
	// id - also the id of a key of the keyset
	f := &verifh.FKey{Idx: 3, Kind: []int{0, 1, 3}[verifrt.Choice("f.kind", 3)], ID: verifrt.Uint32("f.id")}
	cf := (&idealHybrid{k: f, full: true}).seal(pt, ci)
	mark = len(rec.Events)
	got, err = dec.Decrypt(cf, ci)
	verifrt.Assert(err != nil && got == nil, "ciphertext of a foreign key rejected")
	ev = rec.Since(mark, "decrypt")
	verifrt.Assert(len(ev) == 1 && ev[0].Failure, "failure logged")
	verifrt.Reach("end")
}

// What the factories reject: a nil / empty handle; a keyset in which some ENABLED key has no
// hybrid primitive of the requested class (constructor error, another class) or has one that
// also implements tink.AEAD (also behind the legacy wrapper). Keys that are not ENABLED are
// never handed to the config.
func VerifH_factory_hybrid_rejects() {
	verifh.InstallMonitoring()
	var empty keyset.Handle
	e0, err := NewHybridEncryptWithConfig(nil, stubConfig{bad: -1})
	verifrt.Assert(err != nil && e0 == nil, "encrypt: nil handle rejected")
	e0, err = NewHybridEncryptWithConfig(&empty, stubConfig{bad: -1})
	verifrt.Assert(err != nil && e0 == nil, "encrypt: empty handle rejected")
	d0, err := NewHybridDecryptWithConfig(nil, stubConfig{dec: true, bad: -1})
	verifrt.Assert(err != nil && d0 == nil, "decrypt: nil handle rejected")
	d0, err = NewHybridDecryptWithConfig(&empty, stubConfig{dec: true, bad: -1})
	verifrt.Assert(err != nil && d0 == nil, "decrypt: empty handle rejected")

	ks, _ := hybridKeyset()
	bad := verifrt.Choice("bad", len(ks.Keys))
	badKind := verifrt.Choice("badkind", 4)
	enc, err := NewHybridEncryptWithConfig(ks.Handle, stubConfig{dec: false, bad: bad, badKind: badKind})
	verifrt.Assert((err != nil) == ks.Enabled(bad), "encrypt factory: rejected iff some ENABLED key has no proper HybridEncrypt primitive")
	verifrt.Assert((err != nil) == (enc == nil), "encrypt factory: primitive xor error")
	dec, err := NewHybridDecryptWithConfig(ks.Handle, stubConfig{dec: true, bad: bad, badKind: badKind})
	verifrt.Assert((err != nil) == ks.Enabled(bad), "decrypt factory: rejected iff some ENABLED key has no proper HybridDecrypt primitive")
	verifrt.Assert((err != nil) == (dec == nil), "decrypt factory: primitive xor error")
	// a config of the wrong direction: no key has the requested primitive
	_, err = NewHybridEncryptWithConfig(ks.Handle, stubConfig{dec: true, bad: -1})
	verifrt.Assert(err != nil, "encrypt factory rejects decrypters")
	_, err = NewHybridDecryptWithConfig(ks.Handle, stubConfig{dec: false, bad: -1})
	verifrt.Assert(err != nil, "decrypt factory rejects encrypters")
	if ks.Enabled(bad) {
		verifrt.Reach("rejected")
	} else {
		verifrt.Reach("built")
	}
}

// A RAW key's genuine ciphertext decrypts even when its first five bytes happen to equal the
// output prefix of another ENABLED key of the keyset.
func VerifH_factory_hybrid_rawcollision() {
	rec := verifh.InstallMonitoring()
	ks := verifh.SymbolicKeyset(2, []int{0, 1, 3}, true)
	raw, collides := verifh.RawCollisionSetup(ks)
	verifrt.Assume(raw >= 0)
	dec, err := NewHybridDecryptWithConfig(ks.Handle, stubConfig{dec: true, bad: -1})
	verifrt.Assert(err == nil, "NewHybridDecryptWithConfig succeeds")
	if err != nil {
		return
	}
	pt := verifrt.Bytes("pt", verifrt.Choice("ptn", 2))
	ci := verifrt.Bytes("ci", 1)
	x := (&idealHybrid{k: ks.Keys[raw], full: true}).seal(pt, ci)
	mark := len(rec.Events)
	got, err := dec.Decrypt(x, ci)
	verifrt.Assert(err == nil, "a RAW key's genuine ciphertext decrypts whatever its leading bytes are")
	verifrt.AssertEq(got, pt, "to the plaintext")
	ev := rec.Since(mark, "decrypt")
	verifrt.Assert(len(ev) == 1 && !ev[0].Failure && ev[0].KeyID == ks.Keys[raw].ID, "decrypt success logged once, naming the RAW key")
	if collides {
		verifrt.Reach("collision")
	}
	verifrt.Reach("end")
}
