package hybrid

import (
	"github.com/tink-crypto/tink-go/v2/internal/verifrt"
	ctrhmacpb "github.com/tink-crypto/tink-go/v2/proto/aes_ctr_hmac_aead_go_proto"
	gcmpb "github.com/tink-crypto/tink-go/v2/proto/aes_gcm_go_proto"
	commonpb "github.com/tink-crypto/tink-go/v2/proto/common_go_proto"
	eciespb "github.com/tink-crypto/tink-go/v2/proto/ecies_aead_hkdf_go_proto"
	hpkepb "github.com/tink-crypto/tink-go/v2/proto/hpke_go_proto"
	tinkpb "github.com/tink-crypto/tink-go/v2/proto/tink_go_proto"
	"google.golang.org/protobuf/proto"
)

// C12, hybrid/hybrid_key_templates.go: what the name and doc comment of each hybrid key
// template promise, written out by hand.
//
// HPKE: <KEM>_<KDF>_<AEAD>[_Raw]_Key_Template: the three algorithm identifiers of the name
// (RFC 9180 section 7: KEM P256 = 0x10 -> proto 2, X25519 = 0x20 -> proto 1; KDF HKDF-SHA256 ->
// proto 1; AEAD AES-128-GCM 1, AES-256-GCM 2, ChaCha20Poly1305 3); "_Raw_" = no prefix (RAW),
// otherwise the 5-byte Tink prefix (TINK).
//
// ECIES: KEM ECDH over NIST P-256, KDF HKDF-HMAC-SHA256 with an empty salt, DEM AES128-GCM or
// AES128-CTR-HMAC-SHA256 (16/16/32/16, doc comment); TINK prefix (no Raw in the name). The doc
// comment does not name the point format; the cross-language templates of these names
// (ECIES_P256_HKDF_HMAC_SHA256_AES128_GCM / ..._AES128_CTR_HMAC_SHA256) use UNCOMPRESSED and a
// TINK-prefixed DEM template (which is also what this package's own parameter serializer writes).
type ktRow struct {
	name  string
	fn    func() *tinkpb.KeyTemplate
	ecies bool
	raw   bool
	kem   hpkepb.HpkeKem
	kdf   hpkepb.HpkeKdf
	aead  hpkepb.HpkeAead
	// ECIES
	demCTRHMAC bool
}

const (
	ktP256   = hpkepb.HpkeKem_DHKEM_P256_HKDF_SHA256
	ktX25519 = hpkepb.HpkeKem_DHKEM_X25519_HKDF_SHA256
	ktHKDF   = hpkepb.HpkeKdf_HKDF_SHA256
	ktA128   = hpkepb.HpkeAead_AES_128_GCM
	ktA256   = hpkepb.HpkeAead_AES_256_GCM
	ktCC     = hpkepb.HpkeAead_CHACHA20_POLY1305
)

var ktTable = [12]ktRow{
	{name: "DHKEM_P256_HKDF_SHA256_HKDF_SHA256_AES_128_GCM_Key_Template", fn: DHKEM_P256_HKDF_SHA256_HKDF_SHA256_AES_128_GCM_Key_Template, kem: ktP256, kdf: ktHKDF, aead: ktA128},
	{name: "DHKEM_P256_HKDF_SHA256_HKDF_SHA256_AES_128_GCM_Raw_Key_Template", fn: DHKEM_P256_HKDF_SHA256_HKDF_SHA256_AES_128_GCM_Raw_Key_Template, raw: true, kem: ktP256, kdf: ktHKDF, aead: ktA128},
	{name: "DHKEM_P256_HKDF_SHA256_HKDF_SHA256_AES_256_GCM_Key_Template", fn: DHKEM_P256_HKDF_SHA256_HKDF_SHA256_AES_256_GCM_Key_Template, kem: ktP256, kdf: ktHKDF, aead: ktA256},
	{name: "DHKEM_P256_HKDF_SHA256_HKDF_SHA256_AES_256_GCM_Raw_Key_Template", fn: DHKEM_P256_HKDF_SHA256_HKDF_SHA256_AES_256_GCM_Raw_Key_Template, raw: true, kem: ktP256, kdf: ktHKDF, aead: ktA256},
	{name: "DHKEM_X25519_HKDF_SHA256_HKDF_SHA256_AES_128_GCM_Key_Template", fn: DHKEM_X25519_HKDF_SHA256_HKDF_SHA256_AES_128_GCM_Key_Template, kem: ktX25519, kdf: ktHKDF, aead: ktA128},
	{name: "DHKEM_X25519_HKDF_SHA256_HKDF_SHA256_AES_128_GCM_Raw_Key_Template", fn: DHKEM_X25519_HKDF_SHA256_HKDF_SHA256_AES_128_GCM_Raw_Key_Template, raw: true, kem: ktX25519, kdf: ktHKDF, aead: ktA128},
	{name: "DHKEM_X25519_HKDF_SHA256_HKDF_SHA256_AES_256_GCM_Key_Template", fn: DHKEM_X25519_HKDF_SHA256_HKDF_SHA256_AES_256_GCM_Key_Template, kem: ktX25519, kdf: ktHKDF, aead: ktA256},
	{name: "DHKEM_X25519_HKDF_SHA256_HKDF_SHA256_AES_256_GCM_Raw_Key_Template", fn: DHKEM_X25519_HKDF_SHA256_HKDF_SHA256_AES_256_GCM_Raw_Key_Template, raw: true, kem: ktX25519, kdf: ktHKDF, aead: ktA256},
	{name: "DHKEM_X25519_HKDF_SHA256_HKDF_SHA256_CHACHA20_POLY1305_Key_Template", fn: DHKEM_X25519_HKDF_SHA256_HKDF_SHA256_CHACHA20_POLY1305_Key_Template, kem: ktX25519, kdf: ktHKDF, aead: ktCC},
	{name: "DHKEM_X25519_HKDF_SHA256_HKDF_SHA256_CHACHA20_POLY1305_Raw_Key_Template", fn: DHKEM_X25519_HKDF_SHA256_HKDF_SHA256_CHACHA20_POLY1305_Raw_Key_Template, raw: true, kem: ktX25519, kdf: ktHKDF, aead: ktCC},
	{name: "ECIESHKDFAES128GCMKeyTemplate", fn: ECIESHKDFAES128GCMKeyTemplate, ecies: true},
	{name: "ECIESHKDFAES128CTRHMACSHA256KeyTemplate", fn: ECIESHKDFAES128CTRHMACSHA256KeyTemplate, ecies: true, demCTRHMAC: true},
}

func VerifH_templates_hybrid() {
	row := ktTable[verifrt.Choice("tmpl", 12)]
	t := row.fn()
	verifrt.Assert(t != nil, "template")
	wantPrefix := tinkpb.OutputPrefixType_TINK
	if row.raw {
		wantPrefix = tinkpb.OutputPrefixType_RAW
	}
	verifrt.Assert(t.GetOutputPrefixType() == wantPrefix, "_Raw_ templates are RAW, the others TINK")
	const pfx = "type.googleapis.com/google.crypto.tink."
	if !row.ecies {
		verifrt.Assert(t.GetTypeUrl() == pfx+"HpkePrivateKey", "type URL HpkePrivateKey")
		f := &hpkepb.HpkeKeyFormat{}
		verifrt.Assert(proto.Unmarshal(t.GetValue(), f) == nil, "key format parses")
		p := f.GetParams()
		verifrt.Assert(p != nil, "params present")
		verifrt.Assert(p.GetKem() == row.kem, "HPKE: KEM of the name")
		verifrt.Assert(p.GetKdf() == row.kdf, "HPKE: KDF of the name")
		verifrt.Assert(p.GetAead() == row.aead, "HPKE: AEAD of the name")
		verifrt.Reach("end")
		return
	}
	verifrt.Assert(t.GetTypeUrl() == pfx+"EciesAeadHkdfPrivateKey", "type URL EciesAeadHkdfPrivateKey")
	f := &eciespb.EciesAeadHkdfKeyFormat{}
	verifrt.Assert(proto.Unmarshal(t.GetValue(), f) == nil, "key format parses")
	p := f.GetParams()
	verifrt.Assert(p != nil && p.GetKemParams() != nil && p.GetDemParams() != nil && p.GetDemParams().GetAeadDem() != nil, "params, KEM params, DEM params, DEM template present")
	kem := p.GetKemParams()
	verifrt.Assert(kem.GetCurveType() == commonpb.EllipticCurveType_NIST_P256, "ECIES: KEM ECDH over NIST P-256")
	verifrt.Assert(kem.GetHkdfHashType() == commonpb.HashType_SHA256, "ECIES: KDF HKDF-HMAC-SHA256")
	verifrt.Assert(len(kem.GetHkdfSalt()) == 0, "ECIES: empty salt")
	verifrt.Assert(p.GetEcPointFormat() == commonpb.EcPointFormat_UNCOMPRESSED, "ECIES: uncompressed points")
	dem := p.GetDemParams().GetAeadDem()
	verifrt.Assert(dem.GetOutputPrefixType() == tinkpb.OutputPrefixType_TINK, "ECIES: DEM template prefix TINK")
	if row.demCTRHMAC {
		verifrt.Assert(dem.GetTypeUrl() == pfx+"AesCtrHmacAeadKey", "DEM type URL AesCtrHmacAeadKey")
		d := &ctrhmacpb.AesCtrHmacAeadKeyFormat{}
		verifrt.Assert(proto.Unmarshal(dem.GetValue(), d) == nil, "DEM key format parses")
		c, h := d.GetAesCtrKeyFormat(), d.GetHmacKeyFormat()
		verifrt.Assert(c != nil && c.GetParams() != nil && h != nil && h.GetParams() != nil, "DEM sub-formats present")
		verifrt.Assert(c.GetKeySize() == 16, "DEM AES128-CTR: AES key 16 bytes")
		verifrt.Assert(c.GetParams().GetIvSize() == 16, "DEM: IV 16 bytes")
		verifrt.Assert(h.GetKeySize() == 32, "DEM: HMAC key 32 bytes")
		verifrt.Assert(h.GetParams().GetTagSize() == 16, "DEM: HMAC tag 16 bytes")
		verifrt.Assert(h.GetParams().GetHash() == commonpb.HashType_SHA256, "DEM HMACSHA256: SHA256")
		verifrt.Assert(h.GetVersion() == 0, "DEM HMAC format version 0")
	} else {
		verifrt.Assert(dem.GetTypeUrl() == pfx+"AesGcmKey", "DEM type URL AesGcmKey")
		d := &gcmpb.AesGcmKeyFormat{}
		verifrt.Assert(proto.Unmarshal(dem.GetValue(), d) == nil, "DEM key format parses")
		verifrt.Assert(d.GetKeySize() == 16, "DEM AES128-GCM: key 16 bytes")
		verifrt.Assert(d.GetVersion() == 0, "DEM format version 0")
	}
	verifrt.Reach("end")
}
