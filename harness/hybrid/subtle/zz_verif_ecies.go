package subtle

import (
	"crypto/elliptic"
	"crypto/rand"
	"math/big"

	"github.com/tink-crypto/tink-go/v2/internal/verifh"
	"github.com/tink-crypto/tink-go/v2/internal/verifrt"
)

// VerifCurve returns the curve the ECIES harnesses run on: the uninterpreted group model
// under the engine, the real P-256 natively. Under the engine the three functions that need
// field arithmetic are replaced: key generation, curve lookup by name, and point
// decompression.
func VerifCurve() elliptic.Curve {
	if !verifrt.Symbolic() {
		return elliptic.P256()
	}
	c := verifh.NewVCurve()
	verifrt.Summarize("hybrid/subtle.GetCurve", func(string) (elliptic.Curve, error) { return c, nil })
	verifrt.Summarize("hybrid/subtle.GenerateECDHKeyPair", func(elliptic.Curve) (*ECPrivateKey, error) {
		k := make([]byte, 32)
		rand.Read(k)
		verifrt.Assume(k[0] != 0)
		x, y := c.ScalarBaseMult(k)
		return &ECPrivateKey{PublicKey: ECPublicKey{Curve: c, Point: ECPoint{X: x, Y: y}}, D: new(big.Int).SetBytes(k)}, nil
	})
	verifrt.Summarize("hybrid/subtle.getY", func(x *big.Int, lsb bool, _ elliptic.Curve) *big.Int {
		// decompression: some y with the requested parity, or none
		sel := []byte{0}
		if lsb {
			sel[0] = 1
		}
		xb := x.FillBytes(make([]byte, 32))
		if yb, ok := verifrt.MemoGet("vcurve.y", xb); ok {
			// a point the model produced: its own y, or the other root
			if (yb[31]&1 == 1) == lsb {
				return new(big.Int).SetBytes(yb)
			}
			ob := verifrt.UF("NEGY", 32, yb)
			verifrt.Assume(ob[0] != 0 && ob[31]&1 == sel[0] && verifh.OnCurveBytes(xb, ob))
			return new(big.Int).SetBytes(ob)
		}
		if verifrt.UF("HASROOT", 1, xb)[0]&1 == 0 {
			return nil
		}
		yb := verifrt.UF("ROOT", 32, xb, sel)
		verifrt.Assume(yb[0] != 0 && yb[31]&1 == sel[0])
		return new(big.Int).SetBytes(yb)
	})
	return c
}

var pointFormats = [...]string{"UNCOMPRESSED", "DO_NOT_USE_CRUNCHY_UNCOMPRESSED", "COMPRESSED"}

// PointEncode lays a point out as tag || X || Y (fixed width, left-padded), X || Y, or
// (2 | parity(Y)) || X; PointDecode accepts exactly the strings of that shape whose point is
// on the curve and returns the same coordinates. Coordinates with leading zero bytes
// included (a stated case split on the number of zero bytes).
func VerifH_ecies_point_encoding() {
	curve := VerifCurve()
	format := pointFormats[verifrt.Choice("format", 3)]
	zeros := [...]int{0, 1, 8, 9}
	zx, zy := zeros[verifrt.Choice("zx", 4)], zeros[verifrt.Choice("zy", 4)]
	xb, yb := verifrt.Bytes("x", 32), verifrt.Bytes("y", 32)
	for i := 0; i < zx; i++ {
		xb[i] = 0
	}
	for i := 0; i < zy; i++ {
		yb[i] = 0
	}
	verifrt.Assume(xb[zx] != 0 && yb[zy] != 0)
	if verifrt.Symbolic() {
		verifrt.Assume(verifh.OnCurveBytes(xb, yb))
	} else {
		// natively: a real P-256 point k*G whose coordinates have zx / zy leading zero bytes
		k := int64(0)
		switch {
		case zx == 0 && zy == 0:
			k = 1
		case zx == 0 && zy == 1:
			k = 43
		case zx == 1 && zy == 0:
			k = 379
		case zx == 1 && zy == 1:
			k = 49350
		default:
			verifrt.NativeSkip("no small multiple of G with 8 or 9 leading zero bytes")
		}
		X, Y := curve.ScalarBaseMult(big.NewInt(k).Bytes())
		xb, yb = X.FillBytes(make([]byte, 32)), Y.FillBytes(make([]byte, 32))
	}
	pt := ECPoint{X: new(big.Int).SetBytes(xb), Y: new(big.Int).SetBytes(yb)}
	enc, err := PointEncode(curve, format, pt)
	verifrt.Assert(err == nil, "PointEncode succeeds for a point on the curve")
	var want []byte
	switch format {
	case "UNCOMPRESSED":
		want = append(append([]byte{4}, xb...), yb...)
	case "DO_NOT_USE_CRUNCHY_UNCOMPRESSED":
		want = append(append([]byte{}, xb...), yb...)
	default:
		want = append([]byte{2 | yb[31]&1}, xb...)
	}
	verifrt.AssertEq(enc, want, "encoding == [tag ||] X [|| Y], fixed width, left-padded with zeros")
	size, err := encodingSizeInBytes(curve, format)
	verifrt.Assert(err == nil && size == len(want), "encodingSizeInBytes")
	if format != "COMPRESSED" {
		dec, err := PointDecode(curve, format, enc)
		verifrt.Assert(err == nil, "PointDecode accepts PointEncode's output")
		verifrt.AssertEq(dec.X.FillBytes(make([]byte, 32)), xb, "decoded X")
		verifrt.AssertEq(dec.Y.FillBytes(make([]byte, 32)), yb, "decoded Y")
	}
	verifrt.Reach("end")
}

// PointDecode on arbitrary strings: wrong length or tag => error, never a panic; accepted
// => the point's re-encoding is the input (no two strings decode to the same point).
func VerifH_ecies_point_decode_arbitrary() {
	if !verifrt.Symbolic() {
		verifrt.NativeSkip("arbitrary coordinates are not on the real curve")
	}
	curve := VerifCurve()
	format := pointFormats[verifrt.Choice("format", 3)]
	size, _ := encodingSizeInBytes(curve, format)
	l := [...]int{0, 1, 32, 33, 64, 65, 66}[verifrt.Choice("len", 7)]
	e := verifrt.Bytes("e", l)
	if l == size {
		// coordinates with a non-zero top byte (big.Int normalisation; see above)
		off := size % 2
		verifrt.Assume(e[off] != 0)
		if format != "COMPRESSED" {
			verifrt.Assume(e[off+32] != 0)
		}
	}
	pt, err := PointDecode(curve, format, e)
	if l != size {
		verifrt.Assert(err != nil, "wrong length rejected")
		verifrt.Reach("wronglen")
		return
	}
	switch format {
	case "UNCOMPRESSED":
		verifrt.Assert(err != nil || e[0] == 4, "tag must be 0x04")
	case "COMPRESSED":
		verifrt.Assert(err != nil || e[0] == 2 || e[0] == 3, "tag must be 0x02 / 0x03")
	}
	if err == nil {
		verifrt.Assert(curve.IsOnCurve(pt.X, pt.Y), "accepted points are on the curve")
		re, err := PointEncode(curve, format, *pt)
		verifrt.Assert(err == nil, "re-encoding succeeds")
		verifrt.AssertEq(re, e, "PointEncode(PointDecode(e)) == e")
		verifrt.Reach("accepted")
	} else {
		verifrt.Assert(pt == nil, "no point on error")
		verifrt.Reach("rejected")
	}
}
