package hpke

import (
	"errors"

	internalhpke "github.com/tink-crypto/tink-go/v2/hybrid/internal/hpke"
	"github.com/tink-crypto/tink-go/v2/insecuresecretdataaccess"
	"github.com/tink-crypto/tink-go/v2/internal/internalapi"
	"github.com/tink-crypto/tink-go/v2/internal/verifrt"
	"github.com/tink-crypto/tink-go/v2/internal/verifspec"
	"github.com/tink-crypto/tink-go/v2/secretdata"
)

// The Tink layer of HPKE: NewHybridEncrypt / NewHybridDecrypt hand the key bytes and the RFC
// 9180 (and draft) code points of the key's KEM, KDF and AEAD to the internal HPKE
// implementation, and wrap it with the key's output prefix: ciphertext = prefix || raw;
// Decrypt strips exactly that prefix and refuses everything else without panicking. The
// internal implementation is an ideal primitive here (decided on its own in VerifH_hpke_*).

type rawCall struct {
	key            []byte
	kem, kdf, aead uint16
}

var errRaw = errors.New("ideal hpke: decryption failed")

func idealRaw(c rawCall, pt, info []byte) []byte {
	hdr := []byte{0xA7, byte(c.kem >> 8), byte(c.kem), byte(c.kdf >> 8), byte(c.kdf), byte(c.aead >> 8), byte(c.aead)}
	tag := verifrt.UF("HPKEINFO", 4, c.key, info)
	return append(append(hdr, tag...), pt...)
}

func VerifH_hpke_layer() {
	verifrt.EngineOnly() // the internal HPKE objects are replaced by an ideal primitive
	kemSel := verifrt.Choice("kem", 7)
	kem := [...]KEMID{DHKEM_P256_HKDF_SHA256, DHKEM_P384_HKDF_SHA384, DHKEM_P521_HKDF_SHA512, DHKEM_X25519_HKDF_SHA256, X_WING, ML_KEM768, ML_KEM1024}[kemSel]
	wantKEM := [...]uint16{0x0010, 0x0011, 0x0012, 0x0020, 0x647a, 0x0041, 0x0042}[kemSel]
	kdfSel := verifrt.Choice("kdf", 3)
	kdf := [...]KDFID{HKDFSHA256, HKDFSHA384, HKDFSHA512}[kdfSel]
	wantKDF := [...]uint16{1, 2, 3}[kdfSel]
	aeadSel := verifrt.Choice("aead", 3)
	aead := [...]AEADID{AES128GCM, AES256GCM, ChaCha20Poly1305}[aeadSel]
	wantAEAD := [...]uint16{1, 2, 3}[aeadSel]
	kind := [...]int{0, 1, 3}[verifrt.Choice("variant", 3)]
	variant := map[int]Variant{0: VariantTink, 1: VariantCrunchy, 3: VariantNoPrefix}[kind]
	id := verifrt.Uint32("id")
	if kind == 3 {
		id = 0
	}
	params, err := NewParameters(ParametersOpts{KEMID: kem, KDFID: kdf, AEADID: aead, Variant: variant})
	verifrt.Assert(err == nil, "NewParameters")
	prefix, err := calculateOutputPrefix(variant, id)
	verifrt.Assert(err == nil, "calculateOutputPrefix")
	verifrt.AssertEq(prefix, verifspec.Prefix(kind, id), "output prefix of the variant")
	// key objects built directly: their constructors validate curve points / derive public keys
	pkBytes, skBytes := verifrt.Bytes("pk", 4), verifrt.Bytes("sk", 4)
	pub := &PublicKey{publicKeyBytes: pkBytes, idRequirement: id, outputPrefix: prefix, parameters: params}
	priv := &PrivateKey{publicKey: pub, privateKeyBytes: secretdata.NewBytesFromData(skBytes, insecuresecretdataaccess.Token{})}

	var encCall, decCall rawCall
	verifrt.Summarize("hybrid/internal/hpke.NewEncrypt", func(pk []byte, kemID internalhpke.KEMID, kdfID internalhpke.KDFID, aeadID internalhpke.AEADID) (*internalhpke.Encrypt, error) {
		encCall = rawCall{append([]byte{}, pk...), uint16(kemID), uint16(kdfID), uint16(aeadID)}
		return &internalhpke.Encrypt{}, nil
	})
	verifrt.Summarize("hybrid/internal/hpke.NewDecrypt", func(sk secretdata.Bytes, kemID internalhpke.KEMID, kdfID internalhpke.KDFID, aeadID internalhpke.AEADID) (*internalhpke.Decrypt, error) {
		decCall = rawCall{sk.Data(insecuresecretdataaccess.Token{}), uint16(kemID), uint16(kdfID), uint16(aeadID)}
		return &internalhpke.Decrypt{}, nil
	})
	verifrt.Summarize("hpke.Encrypt).Encrypt", func(_ *internalhpke.Encrypt, pt, info []byte) ([]byte, error) {
		return idealRaw(rawCall{pkBytes, encCall.kem, encCall.kdf, encCall.aead}, pt, info), nil
	})
	verifrt.Summarize("hpke.Decrypt).Decrypt", func(_ *internalhpke.Decrypt, ct, info []byte) ([]byte, error) {
		want := idealRaw(rawCall{pkBytes, decCall.kem, decCall.kdf, decCall.aead}, nil, info)
		if len(ct) < len(want) || !verifrt.EqBytes(ct[:len(want)], want) {
			return nil, errRaw
		}
		return append([]byte{}, ct[len(want):]...), nil
	})
	e, err := NewHybridEncrypt(pub, internalapi.Token{})
	verifrt.Assert(err == nil, "NewHybridEncrypt")
	d, err := NewHybridDecrypt(priv, internalapi.Token{})
	verifrt.Assert(err == nil, "NewHybridDecrypt")
	verifrt.Assert(encCall.kem == wantKEM && encCall.kdf == wantKDF && encCall.aead == wantAEAD, "NewHybridEncrypt: KEM / KDF / AEAD code points of RFC 9180 (0x0010,0x0011,0x0012,0x0020; X-Wing 0x647a, ML-KEM 0x0041/0x0042; KDF 1..3; AEAD 1..3)")
	verifrt.Assert(decCall.kem == wantKEM && decCall.kdf == wantKDF && decCall.aead == wantAEAD, "NewHybridDecrypt: the same code points")
	verifrt.AssertEq(encCall.key, pkBytes, "the public key bytes are handed to the internal encrypter")
	verifrt.AssertEq(decCall.key, skBytes, "the private key bytes are handed to the internal decrypter")

	pt := verifrt.Bytes("pt", verifrt.Choice("n", 3))
	info := verifrt.Bytes("info", verifrt.Choice("m", 2))
	ct, err := e.Encrypt(pt, info)
	verifrt.Assert(err == nil, "Encrypt")
	raw := idealRaw(rawCall{pkBytes, wantKEM, wantKDF, wantAEAD}, pt, info)
	verifrt.AssertEq(ct, append(append([]byte{}, prefix...), raw...), "ciphertext == output prefix || HPKE ciphertext")
	got, err := d.Decrypt(ct, info)
	verifrt.Assert(err == nil, "Decrypt(Encrypt(pt))")
	verifrt.AssertEq(got, pt, "round trip")
	switch verifrt.Choice("case", 3) {
	case 0: // any other prefix bytes
		if len(prefix) > 0 {
			delta := verifrt.Bytes("pdelta", len(prefix))
			verifrt.Assume(!verifrt.EqBytes(delta, make([]byte, len(prefix))))
			bad := append(verifspec.XorDelta(prefix, delta), raw...)
			_, err := d.Decrypt(bad, info)
			verifrt.Assert(err != nil, "an altered prefix is rejected")
		}
	case 1: // every truncation
		cut := verifrt.Choice("cut", len(ct))
		got, err := d.Decrypt(ct[:cut], info)
		if cut < len(prefix)+len(raw)-len(pt) {
			verifrt.Assert(err != nil, "ciphertexts cut inside the prefix or the HPKE header are rejected without a panic")
		} else {
			// what follows the prefix goes to the HPKE decrypter unchanged (whose job the rest is)
			verifrt.Assert(err == nil, "the remainder is handed to the HPKE decrypter")
			verifrt.AssertEq(got, pt[:cut-(len(ct)-len(pt))], "exactly the bytes after the prefix are decrypted")
		}
	default:
		// a RAW ciphertext offered to a prefixed key and vice versa
		if len(prefix) > 0 {
			_, err := d.Decrypt(raw, info)
			verifrt.Assert(err != nil || verifrt.EqBytes(raw[:5], prefix), "a ciphertext without the prefix is rejected")
		}
	}
	verifrt.Reach("end")
}
