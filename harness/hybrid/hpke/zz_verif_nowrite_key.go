package hpke

import (
	"github.com/tink-crypto/tink-go/v2/internal/verifh"
	"github.com/tink-crypto/tink-go/v2/internal/verifrt"
)

// HPKE public keys own their bytes (ML-KEM-768 / X-Wing: the constructor validates the length only,
// so it runs under the engine).
func VerifH_c19_hpke_publickey() {
	kem, n := ML_KEM768, mlKEM768PublicKeySize
	if verifrt.Choice("kem", 2) == 1 {
		kem, n = X_WING, xWingPublicKeySize
	}
	params, err := NewParameters(ParametersOpts{KEMID: kem, KDFID: HKDFSHA256, AEADID: AES128GCM, Variant: VariantTink})
	verifrt.Assert(err == nil, "NewParameters")
	in := make([]byte, n)
	copy(in, verifrt.Bytes("head", 4))
	want := append([]byte{}, in...)
	id := verifrt.Uint32("id")
	k, err := NewPublicKey(in, id, params)
	verifrt.Assert(err == nil, "NewPublicKey")
	ref, _ := NewPublicKey(want, id, params)
	verifh.CheckBytesAccessor(k.PublicKeyBytes, "PublicKeyBytes()")
	verifrt.Assert(k.Equal(ref), "key unchanged after writing into PublicKeyBytes()'s result")
	verifh.CheckBytesOwned(in, k.PublicKeyBytes, "NewPublicKey(bytes)")
	verifh.CheckBytesAccessor(k.OutputPrefix, "OutputPrefix()")
	verifrt.Assert(k.Equal(ref), "key unchanged")
	verifrt.Reach("end")
}
