package hpke

import (
	"crypto/ecdh"
	"errors"

	"github.com/tink-crypto/tink-go/v2/internal/verifh"
	"github.com/tink-crypto/tink-go/v2/internal/verifrt"
)

// C19, public key object for the KEMs whose public-key validation is a length check
// (X25519: 32, X-Wing: 1216, ML-KEM-768: 1184, ML-KEM-1024: 1568 bytes): NewPublicKey clones
// the caller's bytes; PublicKeyBytes() and OutputPrefix() must return copies.
func VerifH_c19_hpkepublickey() {
	// crypto/ecdh's X25519 NewPublicKey is a length check (plus a FIPS-mode switch the engine
	// cannot read); under the engine it is replaced by that length check, natively it runs.
	verifrt.Summarize("crypto/ecdh.x25519Curve).NewPublicKey", func(c any, key []byte) (*ecdh.PublicKey, error) {
		if len(key) != 32 {
			return nil, errors.New("crypto/ecdh: invalid public key")
		}
		return nil, nil
	})
	ki := verifrt.Choice("kem", 4)
	kem := [...]KEMID{DHKEM_X25519_HKDF_SHA256, X_WING, ML_KEM768, ML_KEM1024}[ki]
	n := [...]int{32, xWingPublicKeySize, mlKEM768PublicKeySize, mlKEM1024PublicKeySize}[ki]
	v, kind := serialVariant()
	params, err := NewParameters(ParametersOpts{KEMID: kem, KDFID: HKDFSHA256, AEADID: AES128GCM, Variant: v})
	verifrt.Assert(err == nil, "NewParameters")
	id := verifrt.Uint32("id")
	if kind == 3 {
		id = 0
	}
	pub := verifh.BufWith("pub", n, verifh.SpareProfile("spare"), "caller public-key buffer")
	pub0 := append([]byte{}, pub...)
	k, err := NewPublicKey(pub, id, params)
	verifrt.Assert(err == nil, "NewPublicKey")
	verifh.CheckCtorClones("NewPublicKey(publicKeyBytes)", pub, func() []byte { return append([]byte{}, k.publicKeyBytes...) }, k.publicKeyBytes)
	ref, err := NewPublicKey(pub0, id, params)
	verifrt.Assert(err == nil && k.Equal(ref), "equal to a key made from the original bytes")
	verifh.CheckAccessorsClone(
		verifh.Accessor{Name: "PublicKeyBytes", Get: k.PublicKeyBytes},
		verifh.Accessor{Name: "OutputPrefix", Get: k.OutputPrefix},
	)
	verifrt.Assert(k.Equal(ref) && ref.Equal(k), "public key unchanged by the caller's writes")
	verifrt.Reach("end")
}
