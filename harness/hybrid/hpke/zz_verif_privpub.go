package hpke

import (
	"crypto/ecdh"
	"crypto/mlkem"

	"github.com/tink-crypto/tink-go/v2/insecuresecretdataaccess"
	"github.com/tink-crypto/tink-go/v2/internal/verifrt"
	"github.com/tink-crypto/tink-go/v2/internal/verifspec"
	"github.com/tink-crypto/tink-go/v2/secretdata"
)

// An HPKE private key object is self-consistent: NewPrivateKeyFromPublicKey accepts exactly
// the public key that belongs to the private key bytes (for all seven KEMs), and
// NewPrivateKey derives exactly that public key. The derivation "public key of a secret"
// (crypto/ecdh, crypto/mlkem, X-Wing) is an uninterpreted function PUB_kem(secret) under the
// engine; natively the harness is skipped (real key pairs cannot be made from symbolic bytes).

type keyTab struct {
	ptrs []any
	vals [][]byte
}

func (t *keyTab) put(p any, v []byte) { t.ptrs = append(t.ptrs, p); t.vals = append(t.vals, v) }
func (t *keyTab) get(p any) []byte {
	for i := range t.ptrs {
		if t.ptrs[i] == p {
			return t.vals[i]
		}
	}
	panic("unknown key object")
}

func pubOf(kem string, n int, sk []byte) []byte { return verifrt.UF("PUB_"+kem, n, sk) }

func stubKEMKeyDerivation(ecdhName string, pubLen int) {
	tab := &keyTab{}
	// crypto/ecdh (NIST curves and X25519): the curve objects are not touched
	newPriv := func(_ any, sk []byte) (*ecdh.PrivateKey, error) {
		k := &ecdh.PrivateKey{}
		tab.put(k, append([]byte{}, sk...))
		return k, nil
	}
	newPub := func(_ any, b []byte) (*ecdh.PublicKey, error) {
		k := &ecdh.PublicKey{}
		tab.put(k, append([]byte{}, b...))
		return k, nil
	}
	verifrt.Summarize("crypto/ecdh.nistCurve).NewPrivateKey", newPriv)
	verifrt.Summarize("crypto/ecdh.x25519Curve).NewPrivateKey", newPriv)
	verifrt.Summarize("crypto/ecdh.nistCurve).NewPublicKey", newPub)
	verifrt.Summarize("crypto/ecdh.x25519Curve).NewPublicKey", newPub)
	verifrt.Summarize("crypto/ecdh.PrivateKey).PublicKey", func(k *ecdh.PrivateKey) *ecdh.PublicKey {
		p := &ecdh.PublicKey{}
		tab.put(p, pubOf(ecdhName, pubLen, tab.get(k)))
		return p
	})
	verifrt.Summarize("crypto/ecdh.PublicKey).Bytes", func(k *ecdh.PublicKey) []byte { return append([]byte{}, tab.get(k)...) })
	verifrt.Summarize("crypto/ecdh.PublicKey).Equal", func(k *ecdh.PublicKey, o any) bool {
		return verifrt.EqBytes(tab.get(k), tab.get(o.(*ecdh.PublicKey)))
	})
	// crypto/mlkem
	verifrt.Summarize("crypto/mlkem.NewDecapsulationKey768", func(seed []byte) (*mlkem.DecapsulationKey768, error) {
		k := &mlkem.DecapsulationKey768{}
		tab.put(k, append([]byte{}, seed...))
		return k, nil
	})
	verifrt.Summarize("crypto/mlkem.NewDecapsulationKey1024", func(seed []byte) (*mlkem.DecapsulationKey1024, error) {
		k := &mlkem.DecapsulationKey1024{}
		tab.put(k, append([]byte{}, seed...))
		return k, nil
	})
	verifrt.Summarize("crypto/mlkem.DecapsulationKey768).EncapsulationKey", func(k *mlkem.DecapsulationKey768) *mlkem.EncapsulationKey768 {
		e := &mlkem.EncapsulationKey768{}
		tab.put(e, pubOf("MLKEM768", pubLen, tab.get(k)))
		return e
	})
	verifrt.Summarize("crypto/mlkem.DecapsulationKey1024).EncapsulationKey", func(k *mlkem.DecapsulationKey1024) *mlkem.EncapsulationKey1024 {
		e := &mlkem.EncapsulationKey1024{}
		tab.put(e, pubOf("MLKEM1024", pubLen, tab.get(k)))
		return e
	})
	verifrt.Summarize("crypto/mlkem.EncapsulationKey768).Bytes", func(e *mlkem.EncapsulationKey768) []byte { return append([]byte{}, tab.get(e)...) })
	verifrt.Summarize("crypto/mlkem.EncapsulationKey1024).Bytes", func(e *mlkem.EncapsulationKey1024) []byte { return append([]byte{}, tab.get(e)...) })
	// X-Wing
	verifrt.Summarize("hybrid/internal/xwing.PublicFromSecret", func(sk []byte) ([]byte, error) { return pubOf("XWING", pubLen, sk), nil })
}

func VerifH_hpke_private_public_match() {
	verifrt.EngineOnly()
	sel := verifrt.Choice("kem", 7)
	kem := [...]KEMID{DHKEM_P256_HKDF_SHA256, DHKEM_P384_HKDF_SHA384, DHKEM_P521_HKDF_SHA512, DHKEM_X25519_HKDF_SHA256, X_WING, ML_KEM768, ML_KEM1024}[sel]
	pubName := [...]string{"P256", "P384", "P521", "X25519", "XWING", "MLKEM768", "MLKEM1024"}[sel]
	pubLen := [...]int{65, 97, 133, 32, xWingPublicKeySize, mlKEM768PublicKeySize, mlKEM1024PublicKeySize}[sel]
	skLen := [...]int{32, 48, 66, 32, 32, 64, 64}[sel]
	stubKEMKeyDerivation(pubName, pubLen)
	kind := [...]int{0, 3}[verifrt.Choice("variant", 2)]
	variant := map[int]Variant{0: VariantTink, 3: VariantNoPrefix}[kind]
	id := verifrt.Uint32("id")
	if kind == 3 {
		id = 0
	}
	params, err := NewParameters(ParametersOpts{KEMID: kem, KDFID: HKDFSHA256, AEADID: AES128GCM, Variant: variant})
	verifrt.Assert(err == nil, "NewParameters")
	sk := verifrt.Bytes("sk", skLen)
	genuine := pubOf(pubName, pubLen, sk)
	// NewPrivateKey derives the public key of the secret
	k0, err := NewPrivateKey(secretdata.NewBytesFromData(sk, insecuresecretdataaccess.Token{}), id, params)
	verifrt.Assert(err == nil, "NewPrivateKey")
	pk0, _ := k0.PublicKey()
	verifrt.AssertEq(pk0.(*PublicKey).PublicKeyBytes(), genuine, "NewPrivateKey: the public key is the one derived from the private key bytes")
	// NewPrivateKeyFromPublicKey: any public key of the right length, as genuine xor delta
	delta := make([]byte, pubLen)
	copy(delta, verifrt.Bytes("delta", 2))
	copy(delta[pubLen-2:], verifrt.Bytes("deltatail", 2))
	offered := verifspec.XorDelta(genuine, delta)
	pub, err := NewPublicKey(offered, id, params)
	verifrt.Assert(err == nil, "NewPublicKey (the model accepts every well-sized public key)")
	k, err := NewPrivateKeyFromPublicKey(secretdata.NewBytesFromData(sk, insecuresecretdataaccess.Token{}), pub)
	verifrt.Assert((err == nil) == verifrt.EqBytes(delta, make([]byte, pubLen)), "NewPrivateKeyFromPublicKey accepts exactly the public key that belongs to the private key bytes")
	if err == nil {
		verifrt.Assert(k.Equal(k0) && k0.Equal(k), "both constructors give Equal keys")
	}
	verifrt.Reach("end")
}
