package hpke

import (
	"github.com/tink-crypto/tink-go/v2/internal/verifh"
	"github.com/tink-crypto/tink-go/v2/internal/verifrt"
	tinkpb "github.com/tink-crypto/tink-go/v2/proto/tink_go_proto"
)

func serialVariant() (Variant, int) {
	vi := verifrt.Choice("variant", 3)
	return [...]Variant{VariantTink, VariantCrunchy, VariantNoPrefix}[vi], [...]int{0, 1, 3}[vi]
}

// Parameters: every combination the constructor accepts: KEM {P256, P384, P521, X25519,
// X-Wing, ML-KEM-768, ML-KEM-1024} x KDF {HKDF-SHA256/384/512} x AEAD {AES-128-GCM,
// AES-256-GCM, ChaCha20-Poly1305} x variant {TINK, CRUNCHY, NO_PREFIX}.
func VerifH_serialparams_hpke() {
	kem := [...]KEMID{DHKEM_P256_HKDF_SHA256, DHKEM_P384_HKDF_SHA384, DHKEM_P521_HKDF_SHA512, DHKEM_X25519_HKDF_SHA256, X_WING, ML_KEM768, ML_KEM1024}[verifrt.Choice("kem", 7)]
	kdf := [...]KDFID{HKDFSHA256, HKDFSHA384, HKDFSHA512}[verifrt.Choice("kdf", 3)]
	aead := [...]AEADID{AES128GCM, AES256GCM, ChaCha20Poly1305}[verifrt.Choice("aead", 3)]
	v, kind := serialVariant()
	params, err := NewParameters(ParametersOpts{KEMID: kem, KDFID: kdf, AEADID: aead, Variant: v})
	verifrt.Assert(err == nil, "NewParameters")
	verifrt.Assert(params.HasIDRequirement() == (kind != 3), "HasIDRequirement")
	verifh.CheckParamsRoundTrip(params, &parametersSerializer{}, &parametersParser{}, kind, privateKeyTypeURL)
}

// Public keys of the KEMs whose public-key validation is a length check only (X-Wing 1216,
// ML-KEM-768 1184, ML-KEM-1024 1568 symbolic bytes) x KDF x AEAD x variant, symbolic id. The
// DHKEM public keys need point validation / curve arithmetic and are skipped.
func VerifH_serial_hpke_public_pq() {
	ki := verifrt.Choice("kem", 3)
	kem := [...]KEMID{X_WING, ML_KEM768, ML_KEM1024}[ki]
	n := [...]int{xWingPublicKeySize, mlKEM768PublicKeySize, mlKEM1024PublicKeySize}[ki]
	kdf := [...]KDFID{HKDFSHA256, HKDFSHA384, HKDFSHA512}[verifrt.Choice("kdf", 3)]
	aead := [...]AEADID{AES128GCM, AES256GCM, ChaCha20Poly1305}[verifrt.Choice("aead", 3)]
	v, kind := serialVariant()
	params, err := NewParameters(ParametersOpts{KEMID: kem, KDFID: kdf, AEADID: aead, Variant: v})
	verifrt.Assert(err == nil, "NewParameters")
	id := verifrt.Uint32("id")
	if kind == 3 {
		id = 0
	}
	k, err := NewPublicKey(verifrt.Bytes("pub", n), id, params)
	verifrt.Assert(err == nil, "NewPublicKey")
	verifh.CheckKeyRoundTripOnly(k, &publicKeySerializer{}, &publicKeyParser{}, kind, id, publicKeyTypeURL, tinkpb.KeyData_ASYMMETRIC_PUBLIC)
	verifh.CheckParamsRoundTrip(k.Parameters(), &parametersSerializer{}, &parametersParser{}, kind, privateKeyTypeURL)
}
