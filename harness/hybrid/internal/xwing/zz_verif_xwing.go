package xwing

import (
	"crypto/sha3"

	"github.com/tink-crypto/tink-go/v2/internal/verifh"
	"github.com/tink-crypto/tink-go/v2/internal/verifrt"
)

// X-Wing (draft-connolly-cfrg-xwing-kem) against an independent transcription of the draft's
// pseudo-code. ML-KEM-768 (crypto/mlkem), X25519 (x/crypto/curve25519) and SHA-3
// (crypto/sha3) are the uninterpreted model verifh.KEMModel; the transcription reaches the
// hashes through the one-shot API (sha3.Sum256 / sha3.SumSHAKE256), the implementation
// through the streaming one. Engine-level (real ML-KEM draws its message from an internal
// DRBG that cannot be replayed).

// ---- transcription of the draft, sections 5.2 - 5.4

var xwSpecLabel = []byte{0x5c, 0x2e, 0x2f, 0x2f, 0x5e, 0x5c} // \.//^\

const (
	xwSpecNpkM = 1184 // ML-KEM-768 encapsulation key
	xwSpecNctM = 1088 // ML-KEM-768 ciphertext
	xwSpecNpk  = 1216
	xwSpecNct  = 1120
	xwSpecNsk  = 32
)

func xwCat(parts ...[]byte) []byte {
	var out []byte
	for _, p := range parts {
		out = append(out, p...)
	}
	return out
}

// expandDecapsulationKey(sk): expanded = SHAKE256(sk, 96); (pk_M, sk_M) =
// ML-KEM-768.KeyGen_internal(expanded[0:32], expanded[32:64]); sk_X = expanded[64:96];
// pk_X = X25519(sk_X, X25519_BASE).
func xwSpecExpand(m *verifh.KEMModel, sk []byte) (seedM, skX, pkM, pkX []byte) {
	expanded := sha3.SumSHAKE256(sk, 96)
	seedM = expanded[0:64] // d || z: crypto/mlkem's decapsulation key seed
	pkM = verifh.MLKEMPub("768", seedM)
	skX = expanded[64:96]
	pkX, _ = m.X25519(skX, verifh.X25519Base)
	return
}

// GenerateKeyPairDerand(sk): pk = concat(pk_M, pk_X).
func xwSpecPublic(m *verifh.KEMModel, sk []byte) []byte {
	_, _, pkM, pkX := xwSpecExpand(m, sk)
	return xwCat(pkM, pkX)
}

// Combiner: SHA3-256(concat(ss_M, ss_X, ct_X, pk_X, XWingLabel)).
func xwSpecCombiner(ssM, ssX, ctX, pkX []byte) []byte {
	d := sha3.Sum256(xwCat(ssM, ssX, ctX, pkX, xwSpecLabel))
	return d[:]
}

// EncapsulateDerand(pk, eseed), eseed = 64 bytes: ML-KEM message = eseed[0:32], ek_X = eseed[32:64].
func xwSpecEncapsDerand(m *verifh.KEMModel, pk, eseed []byte) (ss, ct []byte) {
	pkM := pk[0:1184]
	pkX := pk[1184:1216]
	ekX := eseed[32:64]
	ctX, _ := m.X25519(ekX, verifh.X25519Base)
	ssX, _ := m.X25519(ekX, pkX)
	ssM, ctM := verifh.MLKEMEncapsDerand("768", pkM, eseed[0:32])
	return xwSpecCombiner(ssM, ssX, ctX, pkX), xwCat(ctM, ctX)
}

// Decapsulate(ct, sk).
func xwSpecDecaps(m *verifh.KEMModel, ct, sk []byte) []byte {
	seedM, skX, _, pkX := xwSpecExpand(m, sk)
	ctM := ct[0:1088]
	ctX := ct[1088:1120]
	ssM := m.MLKEMDecaps("768", seedM, ctM)
	ssX, _ := m.X25519(skX, ctX)
	return xwSpecCombiner(ssM, ssX, ctX, pkX)
}

func xwModel() *verifh.KEMModel {
	verifrt.EngineOnly()
	m := verifh.NewKEMModel()
	m.StubSHA3()
	m.StubMLKEM()
	m.StubX25519()
	return m
}

func xwPick(name string, quick, thorough []int) int {
	l := quick
	if verifrt.Thorough() {
		l = append(append([]int{}, quick...), thorough...)
	}
	return l[verifrt.Choice(name, len(l))]
}

// xwEseed rebuilds the draft's eseed from the two draws of one encapsulation: the draw the
// ML-KEM model made is the ML-KEM message, the other one the X25519 ephemeral secret.
func xwEseed(m *verifh.KEMModel, call int) []byte {
	mi := m.MLKEMDraws[call]
	xi := 2*call + 1
	if mi == xi {
		xi = 2 * call
	}
	verifrt.Assert(len(verifrt.DrawBytes(mi)) == 32 && len(verifrt.DrawBytes(xi)) == 32, "both draws are 32 bytes")
	return xwCat(verifrt.DrawBytes(mi), verifrt.DrawBytes(xi))
}

// Key generation: the 32-byte seed is expanded with SHAKE256 into the ML-KEM seed (64) and the
// X25519 secret (32); public key = pk_M (1184) || pk_X (32); every other secret length rejected.
func VerifH_xwing_keygen() {
	m := xwModel()
	n := xwPick("skn", []int{32, 0, 31, 33, 64, 96}, []int{1, 16, 63, 65, 128})
	sk := verifrt.Bytes("sk", n)
	seedM, skX, err := expandDecapsulationKey(sk)
	pk, err2 := PublicFromSecret(sk)
	verifrt.Assert(verifrt.Draws() == 0, "key derivation is deterministic")
	if n != xwSpecNsk {
		verifrt.Assert(err != nil && seedM == nil && skX == nil, "expandDecapsulationKey rejects a secret that is not 32 bytes")
		verifrt.Assert(err2 != nil && pk == nil, "PublicFromSecret rejects a secret that is not 32 bytes")
		verifrt.Reach("rejected")
		return
	}
	verifrt.Assert(err == nil && err2 == nil, "32-byte secret accepted")
	wantSeedM, wantSkX, wantPkM, wantPkX := xwSpecExpand(m, sk)
	verifrt.AssertEq(seedM, wantSeedM, "ML-KEM seed d||z == SHAKE256(sk, 96)[0:64]")
	verifrt.AssertEq(skX, wantSkX, "X25519 secret == SHAKE256(sk, 96)[64:96]")
	verifrt.Assert(len(pk) == xwSpecNpk, "public key is 1216 bytes")
	verifrt.AssertEq(pk[:xwSpecNpkM], wantPkM, "pk[0:1184] == ML-KEM-768 encapsulation key of the expanded seed")
	verifrt.AssertEq(pk[xwSpecNpkM:], wantPkX, "pk[1184:1216] == X25519(sk_X, 9)")
	verifrt.AssertEq(pk, xwSpecPublic(m, sk), "PublicFromSecret == GenerateKeyPairDerand(sk).pk")
	verifrt.Reach("end")
}

// Encapsulate for an arbitrary public-key string: lengths, the draft's EncapsulateDerand on
// the two fresh draws (64 bytes of randomness per encapsulation), a second encapsulation on
// two further draws.
func VerifH_xwing_encapsulate() {
	m := xwModel()
	n := xwPick("pkn", []int{1216, 0, 1215, 1217, 1184, 32}, []int{1, 1088, 1120, 1248, 2432})
	pk := verifrt.Bytes("pk", n)
	ss, ct, err := Encapsulate(pk)
	if n != xwSpecNpk {
		verifrt.Assert(err != nil && ss == nil && ct == nil, "Encapsulate rejects a public key that is not 1216 bytes")
		verifrt.Reach("rejected-length")
		return
	}
	if !verifh.MLKEMEKValid("768", pk[:xwSpecNpkM]) {
		verifrt.Assert(err != nil && ss == nil && ct == nil, "Encapsulate rejects a non-canonical ML-KEM encapsulation key")
		verifrt.Reach("rejected-encoding")
		return
	}
	verifrt.Assert(err == nil, "Encapsulate succeeds on a well-formed public key")
	verifrt.Assert(verifrt.Draws() == 2 && len(m.MLKEMDraws) == 1, "one encapsulation = one 32-byte X25519 ephemeral draw + one 32-byte ML-KEM message draw")
	wantSS, wantCT := xwSpecEncapsDerand(m, pk, xwEseed(m, 0))
	verifrt.Assert(len(ct) == xwSpecNct && len(ss) == 32, "ciphertext 1120 bytes, shared secret 32 bytes")
	verifrt.AssertEq(ct, wantCT, "ct == ct_M (1088) || ct_X (32) of EncapsulateDerand(pk, draws)")
	verifrt.AssertEq(ss, wantSS, "ss == SHA3-256(ss_M || ss_X || ct_X || pk_X || label)")
	// a second encapsulation to the same key takes two new draws
	ss2, ct2, err := Encapsulate(pk)
	verifrt.Assert(err == nil, "second Encapsulate succeeds")
	verifrt.Assert(verifrt.Draws() == 4 && len(m.MLKEMDraws) == 2 && m.MLKEMDraws[1] >= 2, "second encapsulation draws afresh")
	wantSS2, wantCT2 := xwSpecEncapsDerand(m, pk, xwEseed(m, 1))
	verifrt.AssertEq(ct2, wantCT2, "second ct is EncapsulateDerand on the NEW draws")
	verifrt.AssertEq(ss2, wantSS2, "second ss is EncapsulateDerand on the NEW draws")
	verifrt.Reach("end")
}

// Decapsulate for arbitrary ciphertext / secret strings.
func VerifH_xwing_decapsulate() {
	m := xwModel()
	cn := xwPick("ctn", []int{1120, 0, 1119, 1121, 1088, 32}, []int{1, 1152, 1216, 2240})
	sn := xwPick("skn", []int{32, 31, 33, 0}, []int{64, 96})
	ct := verifrt.Bytes("ct", cn)
	sk := verifrt.Bytes("sk", sn)
	ss, err := Decapsulate(ct, sk)
	verifrt.Assert(verifrt.Draws() == 0, "Decapsulate draws no randomness")
	if cn != xwSpecNct || sn != xwSpecNsk {
		verifrt.Assert(err != nil && ss == nil, "Decapsulate rejects ciphertexts that are not 1120 bytes and secrets that are not 32 bytes")
		verifrt.Reach("rejected")
		return
	}
	verifrt.Assert(err == nil && len(ss) == 32, "well-sized input accepted (ML-KEM rejects implicitly)")
	verifrt.AssertEq(ss, xwSpecDecaps(m, ct, sk), "ss == draft Decapsulate(ct, sk)")
	verifrt.Reach("end")
}

// Round trip through the three functions (ML-KEM correctness and Diffie-Hellman
// commutativity are the model's).
func VerifH_xwing_roundtrip() {
	xwModel()
	sk := verifrt.Bytes("sk", 32)
	pk, err := PublicFromSecret(sk)
	verifrt.Assert(err == nil, "PublicFromSecret")
	ss, ct, err := Encapsulate(pk)
	verifrt.Assert(err == nil, "Encapsulate to a derived public key succeeds")
	got, err := Decapsulate(ct, sk)
	verifrt.Assert(err == nil, "Decapsulate of an own encapsulation succeeds")
	verifrt.AssertEq(got, ss, "Decapsulate(Encapsulate(pk(sk)).ct, sk) == ss")
	ss2, ct2, err := Encapsulate(pk)
	verifrt.Assert(err == nil, "second Encapsulate")
	got2, err := Decapsulate(ct2, sk)
	verifrt.Assert(err == nil, "second Decapsulate")
	verifrt.AssertEq(got2, ss2, "second round trip")
	verifrt.Reach("end")
}
