package ecies

import (
	"crypto/aes"
	"crypto/cipher"
	"crypto/sha256"
	"errors"

	"github.com/tink-crypto/tink-go/v2/aead/aesctrhmac"
	"github.com/tink-crypto/tink-go/v2/aead/aesgcm"
	"github.com/tink-crypto/tink-go/v2/daead/aessiv"
	"github.com/tink-crypto/tink-go/v2/hybrid/subtle"
	"github.com/tink-crypto/tink-go/v2/internal/internalapi"
	"github.com/tink-crypto/tink-go/v2/internal/registryconfig"
	"github.com/tink-crypto/tink-go/v2/internal/verifmodels"
	"github.com/tink-crypto/tink-go/v2/internal/verifrt"
	"github.com/tink-crypto/tink-go/v2/internal/verifspec"
	"github.com/tink-crypto/tink-go/v2/key"
)

// Under the engine the global registry is empty (it is filled by init functions): the DEM
// helper's lookup is replaced by the same three constructors the registry would find.
func stubRegistry() {
	verifrt.Summarize("registryconfig.RegistryConfig).PrimitiveFromKey", func(_ *registryconfig.RegistryConfig, k key.Key, _ internalapi.Token) (any, error) {
		switch kk := k.(type) {
		case *aesgcm.Key:
			return aesgcm.NewAEAD(kk)
		case *aessiv.Key:
			return aessiv.NewDeterministicAEAD(kk, internalapi.Token{})
		case *aesctrhmac.Key:
			return aesctrhmac.VerifNewAEAD(kk)
		}
		return nil, errors.New("no such key type")
	})
}

var eciesFormats = [...]string{"UNCOMPRESSED", "DO_NOT_USE_CRUNCHY_UNCOMPRESSED", "COMPRESSED"}
var eciesHeader = [...]int{65, 64, 33}

type eciesSetup struct {
	recip      *subtle.ECPrivateKey
	format     string
	hs         int
	salt, info []byte
	dem        *DEMHelper
	demKind    int
	enc        *subtle.ECIESAEADHKDFHybridEncrypt
	dec        *subtle.ECIESAEADHKDFHybridDecrypt
}

func setupECIES(format, dem int, vary bool) *eciesSetup {
	s := &eciesSetup{}
	curve := subtle.VerifCurve()
	stubRegistry()
	var err error
	s.recip, err = subtle.GenerateECDHKeyPair(curve)
	verifrt.Assert(err == nil, "recipient key pair")
	s.format, s.hs = eciesFormats[format], eciesHeader[format]
	if vary {
		s.salt = verifrt.Bytes("salt", verifrt.Choice("saltn", 2))
		s.info = verifrt.Bytes("info", verifrt.Choice("infon", 2))
	} else {
		s.salt, s.info = verifrt.Bytes("salt", 1), verifrt.Bytes("info", 1)
	}
	s.demKind = dem
	var dp key.Parameters
	switch s.demKind {
	case 0:
		dp, err = aesgcm.NewParameters(aesgcm.ParametersOpts{KeySizeInBytes: 16, IVSizeInBytes: 12, TagSizeInBytes: 16, Variant: aesgcm.VariantNoPrefix})
	default:
		dp, err = aesctrhmac.NewParameters(aesctrhmac.ParametersOpts{AESKeySizeInBytes: 16, HMACKeySizeInBytes: 32, IVSizeInBytes: 16, TagSizeInBytes: 16, HashType: aesctrhmac.SHA256, Variant: aesctrhmac.VariantNoPrefix})
	}
	verifrt.Assert(err == nil, "DEM parameters")
	s.dem, err = NewDEMHelper(dp)
	verifrt.Assert(err == nil, "NewDEMHelper")
	s.enc, err = subtle.NewECIESAEADHKDFHybridEncrypt(&s.recip.PublicKey, s.salt, "SHA256", s.format, s.dem)
	verifrt.Assert(err == nil, "NewECIESAEADHKDFHybridEncrypt")
	s.dec, err = subtle.NewECIESAEADHKDFHybridDecrypt(s.recip, s.salt, "SHA256", s.format, s.dem)
	verifrt.Assert(err == nil, "NewECIESAEADHKDFHybridDecrypt")
	return s
}

// demKey is the reference key derivation: HKDF-SHA256(ikm = kem || ECDH(kem point,
// recipient key), salt, info = context info), as the recipient computes it.
func (s *eciesSetup) demKey(kem, info []byte) []byte {
	pt, err := subtle.PointDecode(s.recip.PublicKey.Curve, s.format, kem)
	verifrt.Assert(err == nil, "the encapsulated key is a valid point encoding")
	secret, err := subtle.ComputeSharedSecret(pt, s.recip)
	verifrt.Assert(err == nil, "ECDH succeeds")
	return verifspec.HKDF(sha256.New, append(append([]byte{}, kem...), secret...), s.salt, info, int(s.dem.GetSymmetricKeySize()))
}

// ECIES-AEAD-HKDF: ciphertext = point encoding of the ephemeral key || DEM ciphertext under
// HKDF(kem || shared secret, salt, context info); decryption inverts it, leaves the caller's
// ciphertext buffer untouched (so that a second decryption of the same buffer gives the same
// result), and rejects every truncation, another context info, an altered encapsulated key
// and an altered payload.
func VerifH_ecies_uncompressed_gcm() { eciesRoundTrip(0, 0) }
func VerifH_ecies_uncompressed_ctrhmac() { eciesRoundTrip(0, 1) }
func VerifH_ecies_legacy_gcm() { eciesRoundTrip(1, 0) }
func VerifH_ecies_legacy_ctrhmac() { eciesRoundTrip(1, 1) }
func VerifH_ecies_compressed_gcm() { eciesRoundTrip(2, 0) }
func VerifH_ecies_compressed_ctrhmac() { eciesRoundTrip(2, 1) }

func eciesRoundTrip(format, dem int) {
	which := verifrt.Choice("case", 5)
	s := setupECIES(format, dem, which == 0)
	pt := verifrt.Bytes("pt", verifrt.Choice("ptn", 3))
	ct, err := s.enc.Encrypt(pt, s.info)
	verifrt.Assert(err == nil, "Encrypt succeeds")
	verifrt.Assert(len(ct) > s.hs, "ciphertext longer than the encapsulated key")
	kem, body := ct[:s.hs], ct[s.hs:]
	dk := s.demKey(kem, s.info)
	if s.demKind == 0 {
		// independent AES-GCM decryption of the body: IV || ciphertext || tag, empty AD
		b, _ := aes.NewCipher(dk)
		g, _ := cipher.NewGCM(b)
		verifrt.Assert(len(body) == 12+len(pt)+16, "AES-GCM DEM body length")
		got, err := g.Open(nil, body[:12], body[12:], []byte{})
		verifrt.Assert(err == nil, "DEM body is AES-GCM under the reference key")
		verifrt.AssertEq(got, pt, "DEM body decrypts to the plaintext")
	}

	// from here on everything is triggered by untrusted input (MAC unforgeability idealisation)
	verifmodels.AdversaryPhase()
	macPart := func(k []byte) []byte { // the part of the DEM key that authenticates
		if s.demKind == 1 {
			return k[16:]
		}
		return k
	}
	spare := 0
	if which == 0 {
		spare = [...]int{0, 1, 40}[verifrt.Choice("spare", 3)]
	}
	buf := make([]byte, len(ct), len(ct)+spare)
	copy(buf, ct)
	verifrt.Protect(buf, "caller ciphertext buffer")
	switch which {
	case 0:
		got, err := s.dec.Decrypt(buf, s.info)
		verifrt.Assert(err == nil, "Decrypt succeeds")
		verifrt.AssertEq(got, pt, "Decrypt(Encrypt(pt)) == pt")
		verifrt.CheckProtected()
		got2, err := s.dec.Decrypt(buf, s.info)
		verifrt.Assert(err == nil, "second Decrypt of the same buffer succeeds")
		verifrt.AssertEq(got2, pt, "second Decrypt gives the same plaintext")
	case 1:
		var cut int
		if verifrt.Thorough() {
			cut = verifrt.Choice("cut", len(ct))
		} else {
			cut = [...]int{0, 1, s.hs - 1, s.hs, s.hs + 1, len(ct) - 17, len(ct) - 16, len(ct) - 1}[verifrt.Choice("cuti", 8)]
		}
		_, err := s.dec.Decrypt(buf[:cut], s.info)
		verifrt.Assert(err != nil, "every truncation is rejected, no panic")
	case 2:
		info2 := verifrt.Bytes("info2", verifrt.Choice("info2n", 2))
		verifrt.Assume(!verifrt.EqBytes(info2, s.info))
		// idealisation: HKDF with another info gives another key
		verifrt.Assume(!verifrt.EqBytes(macPart(s.demKey(kem, info2)), macPart(dk)))
		_, err := s.dec.Decrypt(buf, info2)
		verifrt.Assert(err != nil, "another context info is rejected")
	case 3:
		// altered payload (same length)
		delta := verifrt.Bytes("delta", len(body))
		verifrt.Assume(!verifrt.EqBytes(delta, make([]byte, len(body))))
		bad := append(append([]byte{}, kem...), verifspec.XorDelta(body, delta)...)
		_, err := s.dec.Decrypt(bad, s.info)
		verifrt.Assert(err != nil, "an altered payload is rejected")
	default:
		// altered encapsulated key: either not a point, or another key
		delta := verifrt.Bytes("kdelta", s.hs)
		verifrt.Assume(!verifrt.EqBytes(delta, make([]byte, s.hs)))
		kem2 := verifspec.XorDelta(kem, delta)
		off := s.hs % 2
		verifrt.Assume(kem2[off] != 0)
		if s.hs > 33 {
			verifrt.Assume(kem2[off+32] != 0)
		}
		if p2, err := subtle.PointDecode(s.recip.PublicKey.Curve, s.format, kem2); err == nil {
			sec2, err := subtle.ComputeSharedSecret(p2, s.recip)
			if err == nil {
				k2 := verifspec.HKDF(sha256.New, append(append([]byte{}, kem2...), sec2...), s.salt, s.info, int(s.dem.GetSymmetricKeySize()))
				verifrt.Assume(!verifrt.EqBytes(macPart(k2), macPart(dk)))
			}
		}
		_, err := s.dec.Decrypt(append(append([]byte{}, kem2...), body...), s.info)
		verifrt.Assert(err != nil, "an altered encapsulated key is rejected")
	}
	verifrt.CheckProtected()
	verifrt.Reach("end")
}
