package hpke

import (
	"crypto/aes"
	"crypto/cipher"
	stdhmac "crypto/hmac"
	"crypto/sha256"
	"crypto/sha512"
	"errors"
	"hash"

	"golang.org/x/crypto/chacha20poly1305"

	"github.com/tink-crypto/tink-go/v2/insecuresecretdataaccess"
	"github.com/tink-crypto/tink-go/v2/internal/verifrt"
	"github.com/tink-crypto/tink-go/v2/internal/verifspec"
	"github.com/tink-crypto/tink-go/v2/secretdata"
)

// ---- RFC 9180 §4 / §5.1 transcription

func specI2OSP2(n int) []byte { return []byte{byte(n >> 8), byte(n)} }

func specExtract(h func() hash.Hash, salt, ikm []byte) []byte {
	if len(salt) == 0 {
		salt = make([]byte, h().Size())
	}
	m := stdhmac.New(h, salt)
	m.Write(ikm)
	return m.Sum(nil)
}

func specExpand(h func() hash.Hash, prk, info []byte, l int) []byte {
	var okm, t []byte
	for i := 1; len(okm) < l; i++ {
		m := stdhmac.New(h, prk)
		m.Write(t)
		m.Write(info)
		m.Write([]byte{byte(i)})
		t = m.Sum(nil)
		okm = append(okm, t...)
	}
	return okm[:l]
}

// LabeledExtract(salt, label, ikm) = Extract(salt, "HPKE-v1" || suite_id || label || ikm)
func specLabeledExtract(h func() hash.Hash, suite, salt []byte, label string, ikm []byte) []byte {
	li := append(append(append([]byte("HPKE-v1"), suite...), label...), ikm...)
	return specExtract(h, salt, li)
}

// LabeledExpand(prk, label, info, L) = Expand(prk, I2OSP(L,2) || "HPKE-v1" || suite_id || label || info, L)
func specLabeledExpand(h func() hash.Hash, suite, prk []byte, label string, info []byte, l int) []byte {
	li := append(append(append(append(specI2OSP2(l), "HPKE-v1"...), suite...), label...), info...)
	return specExpand(h, prk, li, l)
}

type suite struct {
	kemID          KEMID
	kdfID          KDFID
	aeadID         AEADID
	h              func() hash.Hash
	nk, nn, nenc   int
}

func hashOf(id KDFID) func() hash.Hash {
	switch id {
	case HKDFSHA256:
		return sha256.New
	case HKDFSHA384:
		return sha512.New384
	}
	return sha512.New
}

// specKeySchedule: base mode, default psk / psk_id (RFC 9180 §5.1).
func specKeySchedule(s suite, sharedSecret, info []byte) (key, baseNonce []byte) {
	id := append([]byte("HPKE"), byte(s.kemID>>8), byte(s.kemID), byte(s.kdfID>>8), byte(s.kdfID), byte(s.aeadID>>8), byte(s.aeadID))
	pskIDHash := specLabeledExtract(s.h, id, nil, "psk_id_hash", nil)
	infoHash := specLabeledExtract(s.h, id, nil, "info_hash", info)
	ksc := append(append([]byte{0}, pskIDHash...), infoHash...)
	secret := specLabeledExtract(s.h, id, sharedSecret, "secret", nil)
	return specLabeledExpand(s.h, id, secret, "key", ksc, s.nk), specLabeledExpand(s.h, id, secret, "base_nonce", ksc, s.nn)
}

func specSeal(aeadID AEADID, key, nonce, pt, aad []byte) []byte {
	if aeadID == ChaCha20Poly1305 {
		c, _ := chacha20poly1305.New(key)
		return c.Seal(nil, nonce, pt, aad)
	}
	b, _ := aes.NewCipher(key)
	g, _ := cipher.NewGCM(b)
	return g.Seal(nil, nonce, pt, aad)
}

// stubKEM is an arbitrary KEM: the encapsulation and the shared secret are symbolic strings.
type stubKEM struct {
	kemID  KEMID
	enc    []byte
	secret []byte
}

func (k *stubKEM) encapsulate(pk []byte) ([]byte, []byte, error) { return k.secret, k.enc, nil }
func (k *stubKEM) decapsulate(enc, sk []byte) ([]byte, error) {
	if !verifrt.EqBytes(enc, k.enc) {
		return nil, errors.New("stub kem: unknown encapsulation")
	}
	return k.secret, nil
}
func (k *stubKEM) id() KEMID                   { return k.kemID }
func (k *stubKEM) encapsulatedKeyLength() int  { return len(k.enc) }

var kemIDs = [...]KEMID{P256HKDFSHA256, P384HKDFSHA384, P521HKDFSHA512, X25519HKDFSHA256, MLKEM768, MLKEM1024, XWing}

func pickSuite() suite {
	var s suite
	s.kemID = kemIDs[verifrt.Choice("kem", len(kemIDs))]
	s.kdfID = [...]KDFID{HKDFSHA256, HKDFSHA384, HKDFSHA512}[verifrt.Choice("kdf", 3)]
	s.aeadID = [...]AEADID{AES128GCM, AES256GCM, ChaCha20Poly1305}[verifrt.Choice("aead", 3)]
	s.h = hashOf(s.kdfID)
	s.nk = [...]int{0, 16, 32, 32}[s.aeadID]
	s.nn = 12
	s.nenc = 4 // the key schedule does not depend on Nenc; the stub KEM uses 4-byte encapsulations
	return s
}

// Key schedule and single-shot framing for every (KEM id, KDF, AEAD) triple.
func VerifH_hpke_keyschedule() {
	s := pickSuite()
	kdf, err := newKDF(s.kdfID)
	verifrt.Assert(err == nil, "newKDF")
	ad, err := newAEAD(s.aeadID)
	verifrt.Assert(err == nil, "newAEAD")
	kem := &stubKEM{kemID: s.kemID, enc: verifrt.Bytes("enc", s.nenc), secret: verifrt.Bytes("ss", 32)}
	info := verifrt.Bytes("info", verifrt.Choice("infon", 3))
	pt := verifrt.Bytes("pt", verifrt.Choice("ptn", 3))
	ctx, err := createContext(kem.enc, kem.secret, kem, kdf, ad, info)
	verifrt.Assert(err == nil, "createContext succeeds")
	wantKey, wantNonce := specKeySchedule(s, kem.secret, info)
	verifrt.AssertEq(ctx.key, wantKey, "key == RFC 9180 KeySchedule (labels, suite id, psk defaults, length prefixes)")
	verifrt.AssertEq(ctx.baseNonce, wantNonce, "base_nonce == RFC 9180 KeySchedule")
	e := &Encrypt{recipientPubKeyBytes: []byte{1}, kem: kem, kdf: kdf, aead: ad}
	ct, err := e.Encrypt(pt, info)
	verifrt.Assert(err == nil, "Encrypt succeeds")
	want := append(append([]byte{}, kem.enc...), specSeal(s.aeadID, wantKey, wantNonce, pt, nil)...)
	verifrt.AssertEq(ct, want, "ciphertext == enc || Seal(key, base_nonce xor 0, pt, \"\")")
	d := &Decrypt{recipientPrivateKeyBytes: secretdata.NewBytesFromData([]byte{1}, insecuresecretdataaccess.Token{}), kem: kem, kdf: kdf, aead: ad, encapsulatedKeyLen: s.nenc}
	got, err := d.Decrypt(ct, info)
	verifrt.Assert(err == nil, "Decrypt of own ciphertext succeeds")
	verifrt.AssertEq(got, pt, "round trip")
	// Decrypt only reads the caller's ciphertext: the buffer is intact afterwards, so that a
	// failed attempt (another candidate key of a keyset, another context info) followed by the
	// right one, or a second decryption, still works.
	verifrt.AssertEq(ct, want, "Decrypt leaves the caller's ciphertext buffer intact")
	info2 := verifrt.Bytes("info2", len(info))
	verifrt.Assume(len(info) == 0 || !verifrt.EqBytes(info2, info))
	if len(info) > 0 {
		_, err = d.Decrypt(ct, info2)
		verifrt.Observe("otherinfo-rejected", err != nil)
		verifrt.AssertEq(ct, want, "a failed Decrypt leaves the caller's ciphertext buffer intact")
	}
	got2, err := d.Decrypt(ct, info)
	verifrt.Assert(err == nil, "a second Decrypt of the same buffer succeeds")
	verifrt.AssertEq(got2, pt, "a second Decrypt of the same buffer gives the same plaintext")
	short, err := d.Decrypt(ct[:verifrt.Choice("cut", s.nenc)], info)
	verifrt.Assert(err != nil && short == nil, "ciphertext shorter than Nenc rejected, no panic")
	verifrt.Reach("end")
}

// DHKEM shared secret (RFC 9180 §4.1): ExtractAndExpand(dh, kem_context = enc || pkR) with
// suite_id = "KEM" || I2OSP(kem_id, 2), for arbitrary dh / enc / pkR strings.
func VerifH_hpke_dhkem_secret() {
	var h func() hash.Hash
	var id KEMID
	nsecret := 32
	var got []byte
	var err error
	dh := verifrt.Bytes("dh", 4)
	enc := verifrt.Bytes("enc", 3)
	pkR := verifrt.Bytes("pkr", 3)
	switch verifrt.Choice("kem", 4) {
	case 0:
		id, h = P256HKDFSHA256, sha256.New
		k, _ := newNISTCurvesKEM(id)
		got, err = k.deriveKEMSharedSecret(dh, enc, pkR)
	case 1:
		id, h, nsecret = P384HKDFSHA384, sha512.New384, 48
		k, _ := newNISTCurvesKEM(id)
		got, err = k.deriveKEMSharedSecret(dh, enc, pkR)
	case 2:
		id, h, nsecret = P521HKDFSHA512, sha512.New, 64
		k, _ := newNISTCurvesKEM(id)
		got, err = k.deriveKEMSharedSecret(dh, enc, pkR)
	default:
		id, h = X25519HKDFSHA256, sha256.New
		k, _ := newX25519KEM(SHA256)
		got, err = k.deriveKEMSharedSecret(dh, enc, pkR)
	}
	verifrt.Assert(err == nil, "deriveKEMSharedSecret succeeds")
	suiteID := []byte{'K', 'E', 'M', byte(id >> 8), byte(id)}
	prk := specLabeledExtract(h, suiteID, nil, "eae_prk", dh)
	want := specLabeledExpand(h, suiteID, prk, "shared_secret", append(append([]byte{}, enc...), pkR...), nsecret)
	verifrt.AssertEq(got, want, "shared_secret == LabeledExpand(LabeledExtract(\"\", \"eae_prk\", dh), \"shared_secret\", enc || pkR, Nsecret)")
	verifrt.Reach("end")
}

var _ = verifspec.Prefix
