package hpke

import (
	"crypto/sha256"
	"crypto/sha512"
	"hash"

	"github.com/tink-crypto/tink-go/v2/insecuresecretdataaccess"
	"github.com/tink-crypto/tink-go/v2/internal/verifh"
	"github.com/tink-crypto/tink-go/v2/internal/verifrt"
	"github.com/tink-crypto/tink-go/v2/secretdata"
)

// The seven HPKE KEMs as wired into hybrid/internal/hpke: the identifier / length table, the
// Diffie-Hellman KEM wrappers (RFC 9180 §4.1 Encap / Decap), the ML-KEM and X-Wing wrappers
// (draft-ietf-hpke-pq, draft-connolly-cfrg-xwing-kem), and whole-HPKE round trips with the
// post-quantum KEMs. crypto/ecdh, crypto/mlkem, curve25519.X25519 and crypto/sha3 are the
// uninterpreted model verifh.KEMModel (API contracts: length checks, validity predicates,
// one logged draw per key generation / encapsulation, DH commutativity, ML-KEM correctness).
// Engine-level.

// ---- the table, written from RFC 9180 §7.1 Table 2, draft-ietf-hpke-pq §3 (ML-KEM) and
// draft-connolly-cfrg-xwing-kem §5.1 / §7 (X-Wing)

type kemSpecRow struct {
	name                  string
	id                    uint16
	nsecret, nenc, npk, nsk int
	ndh                   int // size of the Diffie-Hellman output (DH KEMs)
	h                     func() hash.Hash
}

var kemSpec = [7]kemSpecRow{
	{"P256", 0x0010, 32, 65, 65, 32, 32, sha256.New},
	{"P384", 0x0011, 48, 97, 97, 48, 48, sha512.New384},
	{"P521", 0x0012, 64, 133, 133, 66, 66, sha512.New},
	{"X25519", 0x0020, 32, 32, 32, 32, 32, sha256.New},
	{"MLKEM768", 0x0041, 32, 1088, 1184, 64, 0, nil},
	{"MLKEM1024", 0x0042, 32, 1568, 1568, 64, 0, nil},
	{"XWING", 0x647a, 32, 1120, 1216, 32, 0, nil},
}

func VerifH_hpke_kem_table() {
	// the exported constants
	verifrt.Assert(P256HKDFSHA256 == 0x0010 && P384HKDFSHA384 == 0x0011 && P521HKDFSHA512 == 0x0012 && X25519HKDFSHA256 == 0x0020, "DHKEM identifiers == RFC 9180 Table 2")
	verifrt.Assert(MLKEM768 == 0x0041 && MLKEM1024 == 0x0042 && XWing == 0x647a, "ML-KEM / X-Wing identifiers == IANA HPKE KEM registry")
	verifrt.Assert(len(kemLengths) == 7, "the table has exactly the seven KEMs")
	sel := verifrt.Choice("kem", 8)
	if sel == 7 {
		// every other identifier is refused
		id := verifrt.Uint16("id")
		for _, r := range kemSpec {
			verifrt.Assume(id != r.id)
		}
		k, err := newKEM(KEMID(id))
		verifrt.Assert(err != nil && k == nil, "newKEM refuses every identifier outside the table")
		_, _, _, err = newPrimitives(KEMID(id), HKDFSHA256, AES128GCM)
		verifrt.Assert(err != nil, "newPrimitives refuses every identifier outside the table")
		verifrt.Reach("unknown")
		return
	}
	r := kemSpec[sel]
	l, ok := kemLengths[KEMID(r.id)]
	verifrt.Assert(ok, "kemLengths has the KEM")
	verifrt.Assert(l.nSecret == r.nsecret, "Nsecret")
	verifrt.Assert(l.nEnc == r.nenc, "Nenc")
	verifrt.Assert(l.nPK == r.npk, "Npk")
	verifrt.Assert(l.nSK == r.nsk, "Nsk")
	k, err := newKEM(KEMID(r.id))
	verifrt.Assert(err == nil && k != nil, "newKEM")
	verifrt.Assert(uint16(k.id()) == r.id, "the KEM object carries the identifier it was asked for")
	verifrt.Assert(k.encapsulatedKeyLength() == r.nenc, "encapsulatedKeyLength == Nenc")
	verifrt.AssertEq(kemSuiteID(KEMID(r.id)), []byte{'K', 'E', 'M', byte(r.id >> 8), byte(r.id)}, "suite_id = \"KEM\" || I2OSP(kem_id, 2)")
	kk, _, _, err := newPrimitives(KEMID(r.id), HKDFSHA256, AES128GCM)
	verifrt.Assert(err == nil && uint16(kk.id()) == r.id, "newPrimitives gives the KEM asked for")
	d, err := NewDecrypt(secretdata.NewBytesFromData([]byte{1}, insecuresecretdataaccess.Token{}), KEMID(r.id), HKDFSHA256, AES128GCM)
	verifrt.Assert(err == nil && d.encapsulatedKeyLen == r.nenc, "Decrypt splits the ciphertext at Nenc")
	verifrt.Reach("end")
}

func kemPickLen(name string, good int) int {
	l := []int{good, good - 1, good + 1, 0}
	if verifrt.Thorough() {
		l = append(l, 1, good-2, 2*good, good+32)
	}
	return l[verifrt.Choice(name, len(l))]
}

// ---- Diffie-Hellman KEMs

type dhModel struct {
	m    *verifh.KEMModel
	nist *verifh.NISTModel
	r    kemSpecRow
}

func newDHModel(sel int) *dhModel {
	verifrt.EngineOnly()
	d := &dhModel{m: verifh.NewKEMModel(), r: kemSpec[sel]}
	if sel < 3 {
		d.nist = d.m.StubNIST(d.r.name, d.r.nsk, d.r.npk, d.r.ndh)
	} else {
		d.m.StubX25519()
	}
	return d
}

func (d *dhModel) pub(sk []byte) []byte {
	if d.nist != nil {
		return d.nist.Pub(sk)
	}
	p, _ := d.m.X25519(sk, verifh.X25519Base)
	return p
}

func (d *dhModel) dh(sk, point []byte) []byte {
	if d.nist != nil {
		return d.nist.DH(sk, point)
	}
	x, _ := d.m.X25519(sk, point)
	return x
}

// pkOK: DeserializePublicKey accepts the string.
func (d *dhModel) pkOK(p []byte) bool {
	if len(p) != d.r.npk {
		return false
	}
	if d.nist != nil {
		return p[0] == 4 && d.nist.OnCurve(p)
	}
	return true
}

func (d *dhModel) skOK(sk []byte) bool {
	if len(sk) != d.r.nsk {
		return false
	}
	if d.nist != nil {
		return d.nist.ScalarOK(sk)
	}
	return true
}

// the draw the ephemeral key generation made
func (d *dhModel) ephemeral(call int) []byte { return verifrt.DrawBytes(call) }

// ExtractAndExpand(dh, kem_context), RFC 9180 §4.1.
func (d *dhModel) specSecret(dh, kemContext []byte) []byte {
	suiteID := []byte{'K', 'E', 'M', byte(d.r.id >> 8), byte(d.r.id)}
	prk := specLabeledExtract(d.r.h, suiteID, nil, "eae_prk", dh)
	return specLabeledExpand(d.r.h, suiteID, prk, "shared_secret", kemContext, d.r.nsecret)
}

func kemCat(a, b []byte) []byte { return append(append([]byte{}, a...), b...) }

// Encap(pkR): skE fresh; dh = DH(skE, pkR); enc = Serialize(pk(skE));
// shared_secret = ExtractAndExpand(dh, enc || pkRm).
func VerifH_hpke_dhkem_encap() {
	d := newDHModel(verifrt.Choice("kem", 4))
	k, err := newKEM(KEMID(d.r.id))
	verifrt.Assert(err == nil, "newKEM")
	pkR := verifrt.Bytes("pkr", kemPickLen("pkn", d.r.npk))
	ss, enc, err := k.encapsulate(pkR)
	if !d.pkOK(pkR) {
		verifrt.Assert(err != nil && ss == nil && enc == nil, "encapsulate refuses a recipient public key of the wrong length / not on the curve")
		verifrt.Reach("rejected")
		return
	}
	verifrt.Assert(err == nil, "encapsulate succeeds")
	verifrt.Assert(verifrt.Draws() == 1 && len(d.ephemeral(0)) == d.r.nsk, "one encapsulation = one draw of Nsk bytes (the ephemeral private key)")
	skE := d.ephemeral(0)
	verifrt.Assert(len(enc) == d.r.nenc && len(ss) == d.r.nsecret, "len(enc) == Nenc, len(shared_secret) == Nsecret")
	verifrt.AssertEq(enc, d.pub(skE), "enc == SerializePublicKey(pk(skE)), skE the fresh draw")
	verifrt.AssertEq(ss, d.specSecret(d.dh(skE, pkR), kemCat(enc, pkR)), "shared_secret == ExtractAndExpand(DH(skE, pkR), enc || pkRm)")
	ss2, enc2, err := k.encapsulate(pkR)
	verifrt.Assert(err == nil, "second encapsulate succeeds")
	verifrt.Assert(verifrt.Draws() == 2 && len(d.ephemeral(1)) == d.r.nsk, "the second encapsulation draws a new ephemeral key")
	skE2 := d.ephemeral(1)
	verifrt.AssertEq(enc2, d.pub(skE2), "second enc is the public key of the NEW draw")
	verifrt.AssertEq(ss2, d.specSecret(d.dh(skE2, pkR), kemCat(enc2, pkR)), "second shared_secret from the NEW draw")
	verifrt.Reach("end")
}

// Decap(enc, skR): dh = DH(skR, Deserialize(enc)); pkRm = Serialize(pk(skR));
// shared_secret = ExtractAndExpand(dh, enc || pkRm).
func VerifH_hpke_dhkem_decap() {
	d := newDHModel(verifrt.Choice("kem", 4))
	k, err := newKEM(KEMID(d.r.id))
	verifrt.Assert(err == nil, "newKEM")
	enc := verifrt.Bytes("enc", kemPickLen("encn", d.r.nenc))
	skR := verifrt.Bytes("skr", kemPickLen("skn", d.r.nsk))
	ss, err := k.decapsulate(enc, skR)
	verifrt.Assert(verifrt.Draws() == 0, "decapsulate draws no randomness")
	if !d.pkOK(enc) || !d.skOK(skR) {
		verifrt.Assert(err != nil && ss == nil, "decapsulate refuses an encapsulated key that is not Nenc bytes / not a point, and a private key that is not Nsk bytes / out of range")
		verifrt.Reach("rejected")
		return
	}
	verifrt.Assert(err == nil && len(ss) == d.r.nsecret, "decapsulate succeeds, Nsecret bytes")
	verifrt.AssertEq(ss, d.specSecret(d.dh(skR, enc), kemCat(enc, d.pub(skR))), "shared_secret == ExtractAndExpand(DH(skR, pkE), enc || Serialize(pk(skR)))")
	verifrt.Reach("end")
}

func VerifH_hpke_dhkem_roundtrip() {
	d := newDHModel(verifrt.Choice("kem", 4))
	k, err := newKEM(KEMID(d.r.id))
	verifrt.Assert(err == nil, "newKEM")
	skR := verifrt.Bytes("skr", d.r.nsk)
	verifrt.Assume(d.skOK(skR))
	pkR := d.pub(skR)
	ss, enc, err := k.encapsulate(pkR)
	verifrt.Assert(err == nil, "encapsulate to a genuine public key succeeds")
	got, err := k.decapsulate(enc, skR)
	verifrt.Assert(err == nil, "decapsulate of an own encapsulation succeeds")
	verifrt.AssertEq(got, ss, "Decap(Encap(pk(skR)).enc, skR) == shared_secret")
	verifrt.Reach("end")
}

// ---- ML-KEM and X-Wing wrappers

func pqModel() *verifh.KEMModel {
	verifrt.EngineOnly()
	m := verifh.NewKEMModel()
	m.StubSHA3()
	m.StubMLKEM()
	m.StubX25519()
	return m
}

// ML-KEM: Encap(pk) = ML-KEM.Encaps(pk), enc = the ML-KEM ciphertext; Decap(enc, sk) =
// ML-KEM.Decaps of the key expanded from the 64-byte seed (draft-ietf-hpke-pq §3).
func VerifH_hpke_mlkem_wrapper() {
	m := pqModel()
	sel := 4 + verifrt.Choice("kem", 2)
	r := kemSpec[sel]
	v := [...]string{"768", "1024"}[sel-4]
	k, err := newKEM(KEMID(r.id))
	verifrt.Assert(err == nil, "newKEM")
	if verifrt.Choice("op", 2) == 0 {
		pk := verifrt.Bytes("pk", kemPickLen("pkn", r.npk))
		ss, enc, err := k.encapsulate(pk)
		if len(pk) != r.npk || !verifh.MLKEMEKValid(v, pk) {
			verifrt.Assert(err != nil && ss == nil && enc == nil, "encapsulate refuses a public key of the wrong length / non-canonical")
			verifrt.Reach("enc-rejected")
			return
		}
		verifrt.Assert(err == nil, "encapsulate succeeds")
		verifrt.Assert(verifrt.Draws() == 1 && len(verifrt.DrawBytes(0)) == 32, "one encapsulation = one 32-byte draw")
		wantSS, wantCT := verifh.MLKEMEncapsDerand(v, pk, verifrt.DrawBytes(0))
		verifrt.Assert(len(enc) == r.nenc && len(ss) == r.nsecret, "len(enc) == Nenc, len(shared_secret) == Nsecret")
		verifrt.AssertEq(ss, wantSS, "first result is the ML-KEM shared secret")
		verifrt.AssertEq(enc, wantCT, "second result is the ML-KEM ciphertext")
		ss2, enc2, err := k.encapsulate(pk)
		verifrt.Assert(err == nil && verifrt.Draws() == 2, "the second encapsulation draws afresh")
		wantSS2, wantCT2 := verifh.MLKEMEncapsDerand(v, pk, verifrt.DrawBytes(1))
		verifrt.AssertEq(ss2, wantSS2, "second shared secret from the NEW draw")
		verifrt.AssertEq(enc2, wantCT2, "second ciphertext from the NEW draw")
		verifrt.Reach("enc-end")
		return
	}
	enc := verifrt.Bytes("enc", kemPickLen("encn", r.nenc))
	sk := verifrt.Bytes("sk", kemPickLen("skn", r.nsk))
	ss, err := k.decapsulate(enc, sk)
	verifrt.Assert(verifrt.Draws() == 0, "decapsulate draws no randomness")
	if len(enc) != r.nenc || len(sk) != r.nsk {
		verifrt.Assert(err != nil && ss == nil, "decapsulate refuses an encapsulated key that is not Nenc bytes and a private key that is not 64 bytes")
		verifrt.Reach("dec-rejected")
		return
	}
	verifrt.Assert(err == nil && len(ss) == r.nsecret, "decapsulate succeeds")
	verifrt.AssertEq(ss, m.MLKEMDecaps(v, sk, enc), "shared_secret == ML-KEM.Decaps(key of seed sk, enc)")
	verifrt.Reach("dec-end")
}

// X-Wing wrapper: hands both arguments to hybrid/internal/xwing in the right order and
// returns its results unchanged (xwing itself: VerifH_xwing_*; here recording stubs).
func VerifH_hpke_xwing_wrapper() {
	verifrt.EngineOnly()
	r := kemSpec[6]
	calls := 0
	verifrt.Summarize("hybrid/internal/xwing.Encapsulate", func(pk []byte) ([]byte, []byte, error) {
		calls++
		if len(pk) != 1216 {
			return nil, nil, errStub
		}
		seed := verifrt.FreshBytes("rand", 64)
		return verifrt.UF("XW_SS", 32, pk, seed), verifrt.UF("XW_CT", 1120, pk, seed), nil
	})
	verifrt.Summarize("hybrid/internal/xwing.Decapsulate", func(ct, sk []byte) ([]byte, error) {
		calls++
		if len(ct) != 1120 || len(sk) != 32 {
			return nil, errStub
		}
		return verifrt.UF("XW_DEC", 32, ct, sk), nil
	})
	k, err := newKEM(KEMID(r.id))
	verifrt.Assert(err == nil, "newKEM")
	if verifrt.Choice("op", 2) == 0 {
		pk := verifrt.Bytes("pk", kemPickLen("pkn", r.npk))
		ss, enc, err := k.encapsulate(pk)
		verifrt.Assert(calls == 1, "one call of xwing.Encapsulate")
		if len(pk) != r.npk {
			verifrt.Assert(err != nil && ss == nil && enc == nil, "xwing's refusal is passed on")
			verifrt.Reach("enc-rejected")
			return
		}
		verifrt.Assert(err == nil && verifrt.Draws() == 1, "encapsulate succeeds, one encapsulation")
		verifrt.AssertEq(ss, verifrt.UF("XW_SS", 32, pk, verifrt.DrawBytes(0)), "first result is X-Wing's shared secret for this public key")
		verifrt.AssertEq(enc, verifrt.UF("XW_CT", 1120, pk, verifrt.DrawBytes(0)), "second result is X-Wing's ciphertext")
		verifrt.Assert(len(enc) == r.nenc && len(ss) == r.nsecret, "len(enc) == Nenc, len(shared_secret) == Nsecret")
		verifrt.Reach("enc-end")
		return
	}
	enc := verifrt.Bytes("enc", kemPickLen("encn", r.nenc))
	sk := verifrt.Bytes("sk", kemPickLen("skn", r.nsk))
	ss, err := k.decapsulate(enc, sk)
	verifrt.Assert(calls == 1 && verifrt.Draws() == 0, "one call of xwing.Decapsulate, no randomness")
	if len(enc) != r.nenc || len(sk) != r.nsk {
		verifrt.Assert(err != nil && ss == nil, "xwing's refusal is passed on")
		verifrt.Reach("dec-rejected")
		return
	}
	verifrt.Assert(err == nil, "decapsulate succeeds")
	verifrt.AssertEq(ss, verifrt.UF("XW_DEC", 32, enc, sk), "shared_secret == xwing.Decapsulate(enc, sk) (arguments in this order)")
	verifrt.Reach("dec-end")
}

type stubErr struct{}

func (stubErr) Error() string { return "stub: wrong length" }

var errStub error = stubErr{}

// ---- whole HPKE with the post-quantum KEMs (real wrappers, real xwing, real key schedule)

func pqPublic(m *verifh.KEMModel, sel int, sk []byte) []byte {
	switch sel {
	case 4:
		return verifh.MLKEMPub("768", sk)
	case 5:
		return verifh.MLKEMPub("1024", sk)
	}
	// X-Wing, draft §5.2: SHAKE256(sk, 96) -> ML-KEM seed (64) || X25519 secret (32)
	exp := verifh.SHAKE256(sk, 96)
	pkX, _ := m.X25519(exp[64:96], verifh.X25519Base)
	return kemCat(verifh.MLKEMPub("768", exp[0:64]), pkX)
}

// pqEncaps: the KEM's deterministic encapsulation on the draws of encapsulation number `call`.
func pqEncaps(m *verifh.KEMModel, sel int, pk []byte, call int) (ss, enc []byte) {
	switch sel {
	case 4:
		return verifh.MLKEMEncapsDerand("768", pk, verifrt.DrawBytes(call))
	case 5:
		return verifh.MLKEMEncapsDerand("1024", pk, verifrt.DrawBytes(call))
	}
	mi := m.MLKEMDraws[call]
	xi := 2*call + 1
	if mi == xi {
		xi = 2 * call
	}
	ekX := verifrt.DrawBytes(xi)
	pkM, pkX := pk[:1184], pk[1184:]
	ctX, _ := m.X25519(ekX, verifh.X25519Base)
	ssX, _ := m.X25519(ekX, pkX)
	ssM, ctM := verifh.MLKEMEncapsDerand("768", pkM, verifrt.DrawBytes(mi))
	in := kemCat(kemCat(kemCat(kemCat(ssM, ssX), ctX), pkX), []byte{0x5c, 0x2e, 0x2f, 0x2f, 0x5e, 0x5c})
	return verifh.SHA3_256(in), kemCat(ctM, ctX)
}

func VerifH_hpke_pq_roundtrip() {
	m := pqModel()
	sel := 4 + verifrt.Choice("kem", 3)
	r := kemSpec[sel]
	s := suite{kemID: KEMID(r.id)}
	// quick tier: three (KDF, AEAD) pairs; thorough: all nine (the key schedule for all 63
	// suites is VerifH_hpke_keyschedule's)
	ki := verifrt.Choice("kdf", 3)
	ai := ki
	if verifrt.Thorough() {
		ai = verifrt.Choice("aead", 3)
	}
	s.kdfID = [...]KDFID{HKDFSHA256, HKDFSHA384, HKDFSHA512}[ki]
	s.aeadID = [...]AEADID{AES128GCM, AES256GCM, ChaCha20Poly1305}[ai]
	s.h = hashOf(s.kdfID)
	s.nk = [...]int{0, 16, 32, 32}[s.aeadID]
	s.nn = 12
	sk := verifrt.Bytes("sk", r.nsk)
	pk := pqPublic(m, sel, sk)
	info := verifrt.Bytes("info", verifrt.Choice("infon", 2))
	pt := verifrt.Bytes("pt", verifrt.Choice("ptn", 3))
	e, err := NewEncrypt(pk, s.kemID, s.kdfID, s.aeadID)
	verifrt.Assert(err == nil, "NewEncrypt")
	d, err := NewDecrypt(secretdata.NewBytesFromData(sk, insecuresecretdataaccess.Token{}), s.kemID, s.kdfID, s.aeadID)
	verifrt.Assert(err == nil, "NewDecrypt")
	perEnc := 1
	if sel == 6 {
		perEnc = 2
	}
	ct, err := e.Encrypt(pt, info)
	verifrt.Assert(err == nil, "Encrypt succeeds")
	verifrt.Assert(verifrt.Draws() == perEnc, "one encapsulation's worth of randomness per Encrypt")
	ss, enc := pqEncaps(m, sel, pk, 0)
	key, nonce := specKeySchedule(s, ss, info)
	verifrt.Assert(len(enc) == r.nenc, "Nenc")
	verifrt.AssertEq(ct, kemCat(enc, specSeal(s.aeadID, key, nonce, pt, nil)), "ciphertext == enc || Seal(KeySchedule(shared_secret, info), pt)")
	got, err := d.Decrypt(ct, info)
	verifrt.Assert(err == nil, "Decrypt of an own ciphertext succeeds")
	verifrt.AssertEq(got, pt, "round trip")
	ct2, err := e.Encrypt(pt, info)
	verifrt.Assert(err == nil && verifrt.Draws() == 2*perEnc, "the second Encrypt draws afresh")
	_, enc2 := pqEncaps(m, sel, pk, 1)
	verifrt.AssertEq(ct2[:r.nenc], enc2, "the second encapsulation comes from the NEW draws")
	got2, err := d.Decrypt(ct2, info)
	verifrt.Assert(err == nil, "Decrypt of the second ciphertext succeeds")
	verifrt.AssertEq(got2, pt, "second round trip")
	short, err := d.Decrypt(ct[:r.nenc-1], info)
	verifrt.Assert(err != nil && short == nil, "a ciphertext shorter than Nenc is refused")
	verifrt.Reach("end")
}
