package cryptofmt

import (
	"github.com/tink-crypto/tink-go/v2/internal/verifrt"
	"github.com/tink-crypto/tink-go/v2/internal/verifspec"
	tinkpb "github.com/tink-crypto/tink-go/v2/proto/tink_go_proto"
)

// OutputPrefix(key) for EVERY int32 value of the prefix-type enum and every key id:
//   TINK (1)              -> 0x01 || be32(id)
//   LEGACY (2), CRUNCHY (4) -> 0x00 || be32(id)
//   RAW (3)               -> ""
//   anything else (UNKNOWN_PREFIX = 0 and values outside the enum) -> error, empty string.
// Wire numbers are written as literals (tink.proto), not taken from the generated constants.
func VerifH_cryptofmt_output_prefix() {
	pt := verifrt.Int32("pt")
	id := verifrt.Uint32("id")
	k := &tinkpb.Keyset_Key{OutputPrefixType: tinkpb.OutputPrefixType(pt), KeyId: id, Status: tinkpb.KeyStatusType_ENABLED}
	p, err := OutputPrefix(k)
	be := []byte{byte(id >> 24), byte(id >> 16), byte(id >> 8), byte(id)}
	switch pt {
	case 1:
		verifrt.Assert(err == nil, "TINK accepted")
		verifrt.AssertEq([]byte(p), append([]byte{1}, be...), "TINK prefix == 0x01 || big-endian key id")
		verifrt.AssertEq([]byte(p), verifspec.Prefix(0, id), "TINK prefix == documented prefix")
		verifrt.Reach("tink")
	case 2, 4:
		verifrt.Assert(err == nil, "LEGACY / CRUNCHY accepted")
		verifrt.AssertEq([]byte(p), append([]byte{0}, be...), "LEGACY / CRUNCHY prefix == 0x00 || big-endian key id")
		verifrt.Reach("legacy-crunchy")
	case 3:
		verifrt.Assert(err == nil && p == "" && len(p) == RawPrefixSize, "RAW prefix is empty")
		verifrt.Reach("raw")
	default:
		verifrt.Assert(err != nil && p == "", "unknown prefix types are refused with an empty prefix")
		verifrt.Reach("unknown")
	}
	verifrt.Observe("prefix", []byte(p))
}

// The exported constants.
func VerifH_cryptofmt_constants() {
	verifrt.Assert(NonRawPrefixSize == 5 && LegacyPrefixSize == 5 && TinkPrefixSize == 5 && RawPrefixSize == 0, "prefix sizes")
	verifrt.Assert(LegacyStartByte == 0 && TinkStartByte == 1 && RawPrefix == "", "start bytes and the RAW prefix")
	verifrt.Assert(int32(tinkpb.OutputPrefixType_UNKNOWN_PREFIX) == 0 && int32(tinkpb.OutputPrefixType_TINK) == 1 && int32(tinkpb.OutputPrefixType_LEGACY) == 2 && int32(tinkpb.OutputPrefixType_RAW) == 3 && int32(tinkpb.OutputPrefixType_CRUNCHY) == 4, "prefix-type wire numbers")
	verifrt.Reach("end")
}
