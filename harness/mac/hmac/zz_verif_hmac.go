package hmac

import (
	tinkpb "github.com/tink-crypto/tink-go/v2/proto/tink_go_proto"
	"github.com/tink-crypto/tink-go/v2/internal/verifh"
	macsubtle "github.com/tink-crypto/tink-go/v2/mac/subtle"
	stdhmac "crypto/hmac"
	"crypto/sha1"
	"crypto/sha256"
	"crypto/sha512"
	"hash"

	"github.com/tink-crypto/tink-go/v2/insecuresecretdataaccess"
	"github.com/tink-crypto/tink-go/v2/internal/internalapi"
	"github.com/tink-crypto/tink-go/v2/internal/verifrt"
	"github.com/tink-crypto/tink-go/v2/internal/verifspec"
	"github.com/tink-crypto/tink-go/v2/secretdata"
)

func pickHash(name string) (HashType, func() hash.Hash, int) {
	switch verifrt.Choice(name, 5) {
	case 0:
		return SHA1, sha1.New, 20
	case 1:
		return SHA224, sha256.New224, 28
	case 2:
		return SHA256, sha256.New, 32
	case 3:
		return SHA384, sha512.New384, 48
	}
	return SHA512, sha512.New, 64
}

func pickVariant(name string) (Variant, int) {
	k := verifrt.Choice(name, 4)
	return [...]Variant{VariantTink, VariantCrunchy, VariantLegacy, VariantNoPrefix}[k], k
}

// build goes through the real constructors: NewParameters, secretdata, NewKey, NewMAC.
func build() (m *fullMAC, keyBytes []byte, hf func() hash.Hash, tagSize int, kind int, id uint32) {
	ht, hf, digest := pickHash("hash")
	v, kind := pickVariant("variant")
	// tag sizes: the two boundaries and one interior value
	switch verifrt.Choice("tsz", 3) {
	case 0:
		tagSize = 10
	case 1:
		tagSize = digest
	default:
		tagSize = 16
	}
	kl := 16 + verifrt.Choice("klen", 2)*16
	keyBytes = verifrt.Bytes("key", kl)
	id = verifrt.Uint32("id")
	if kind == 3 {
		id = 0
	}
	params, err := NewParameters(ParametersOpts{KeySizeInBytes: kl, TagSizeInBytes: tagSize, HashType: ht, Variant: v})
	verifrt.Assert(err == nil, "NewParameters accepts valid sizes")
	k, err := NewKey(secretdata.NewBytesFromData(keyBytes, insecuresecretdataaccess.Token{}), params, id)
	verifrt.Assert(err == nil, "NewKey accepts matching key size")
	mac, err := NewMAC(k, internalapi.Token{})
	verifrt.Assert(err == nil, "NewMAC succeeds")
	return mac.(*fullMAC), keyBytes, hf, tagSize, kind, id
}

func specTag(hf func() hash.Hash, key, msg []byte, tagSize, kind int, id uint32) []byte {
	h := stdhmac.New(hf, key)
	h.Write(msg)
	if kind == 2 {
		h.Write([]byte{0})
	}
	return append(verifspec.Prefix(kind, id), h.Sum(nil)[:tagSize]...)
}

func VerifH_hmac_compute() {
	m, key, hf, t, kind, id := build()
	n := verifrt.Choice("n", 3)
	msg := verifrt.Bytes("msg", n)
	tag, err := m.ComputeMAC(msg)
	verifrt.Assert(err == nil, "ComputeMAC succeeds")
	want := specTag(hf, key, msg, t, kind, id)
	verifrt.AssertEq(tag, want, "ComputeMAC == prefix || HMAC(key, msg [|| 0x00 for LEGACY])[:tagSize]")
	tag2, _ := m.ComputeMAC(msg)
	verifrt.AssertEq(tag2, tag, "deterministic")
	verifrt.Assert(m.VerifyMAC(tag, msg) == nil, "VerifyMAC accepts ComputeMAC output")
	verifrt.Observe("tag", tag)
	verifrt.Reach("end")
}

// VerifyMAC(tag', msg) accepts iff tag' == ComputeMAC(msg). Same-length candidates are
// expressed as ComputeMAC(msg) xor delta (all strings of that length); other lengths are
// arbitrary bytes (truncation / extension).
func VerifH_hmac_verify() {
	m, key, hf, t, kind, id := build()
	msg := verifrt.Bytes("msg", verifrt.Choice("n", 2))
	want := specTag(hf, key, msg, t, kind, id)
	if verifrt.Choice("samelen", 2) == 0 {
		delta := verifrt.Bytes("delta", len(want))
		err := m.VerifyMAC(verifspec.XorDelta(want, delta), msg)
		verifrt.Assert((err == nil) == verifrt.EqBytes(delta, make([]byte, len(want))), "VerifyMAC accepts exactly the genuine tag")
	} else {
		// lengths around every boundary: empty, inside/at the prefix, one short, one/two long
		l := [...]int{0, 4, 5, 6, len(want) - 1, len(want) + 1, len(want) + 2}[verifrt.Choice("len", 7)]
		verifrt.Assume(l != len(want) && l >= 0)
		cand := verifrt.Bytes("cand", l)
		// worst case: the candidate agrees with the genuine tag on the common prefix
		for i := 0; i < l && i < len(want); i++ {
			cand[i] = want[i]
		}
		verifrt.Assert(m.VerifyMAC(cand, msg) != nil, "truncated or extended tag rejected")
	}
	verifrt.Reach("end")
}


// Parameter validation for every uint32 key and tag size: accepted => key >= 16, 10 <= tag <= digest.
func VerifH_hmac_validate() {
	_, _, digest := pickHash("hash")
	hname := [...]string{"SHA1", "SHA224", "SHA256", "SHA384", "SHA512"}[verifrt.Choice("hash", 5)]
	ks := verifrt.Uint32("ks")
	ts := verifrt.Uint32("ts")
	err := subtleValidate(hname, ks, ts)
	verifrt.Assert((err == nil) == (ks >= 16 && ts >= 10 && ts <= uint32(digest)), "ValidateHMACParams accepts exactly key >= 16, 10 <= tag <= digest")
	verifrt.Reach("end")
}

func subtleValidate(h string, ks, ts uint32) error { return macsubtle.ValidateHMACParams(h, ks, ts) }

func VerifH_c19_hmac() {
	m, _, _, _, _, _ := build()
	verifh.CheckMACNoWrite(m)
}

// Key objects share no memory with the caller: constructor inputs are cloned, accessors return clones.
func VerifH_c19_hmackey() {
	kb := verifrt.Bytes("key", 16)
	params, _ := NewParameters(ParametersOpts{KeySizeInBytes: 16, TagSizeInBytes: 16, HashType: SHA256, Variant: VariantTink})
	k, err := NewKey(secretdata.NewBytesFromData(kb, insecuresecretdataaccess.Token{}), params, verifrt.Uint32("id"))
	verifrt.Assert(err == nil, "NewKey")
	got := k.KeyBytes().Data(insecuresecretdataaccess.Token{})
	verifrt.AssertEq(got, kb, "key bytes preserved")
	verifrt.Assert(!verifrt.SameArray(got, kb), "key object does not retain the caller's slice")
	verifrt.Assert(!verifrt.SameArray(got, k.KeyBytes().Data(insecuresecretdataaccess.Token{})), "KeyBytes().Data returns a fresh copy each time")
	p1, p2 := k.OutputPrefix(), k.OutputPrefix()
	verifrt.Assert(len(p1) == 5 && !verifrt.SameArray(p1, p2), "OutputPrefix returns a fresh copy each time")
	p1[0] ^= 0xff
	got[0] ^= 0xff
	verifrt.AssertEq(k.OutputPrefix(), p2, "mutating a returned prefix does not change the key")
	verifrt.AssertEq(k.KeyBytes().Data(insecuresecretdataaccess.Token{}), kb, "mutating returned key bytes does not change the key")
	verifrt.Reach("end")
}

func VerifH_serial_hmac() {
	ht, _, digest := pickHash("hash")
	v, kind := pickVariant("variant")
	id := verifrt.Uint32("id")
	if kind == 3 {
		id = 0
	}
	kl := 16 + verifrt.Choice("klen", 3)
	tag := [...]int{10, 11, digest}[verifrt.Choice("tsz", 3)]
	params, err := NewParameters(ParametersOpts{KeySizeInBytes: kl, TagSizeInBytes: tag, HashType: ht, Variant: v})
	verifrt.Assert(err == nil, "NewParameters")
	k, err := NewKey(secretdata.NewBytesFromData(verifrt.Bytes("key", kl), insecuresecretdataaccess.Token{}), params, id)
	verifrt.Assert(err == nil, "NewKey")
	verifh.CheckKeyRoundTrip(k, &keySerializer{}, &keyParser{}, &parametersSerializer{}, &parametersParser{}, kind, id, typeURL, tinkpb.KeyData_SYMMETRIC)
}

func VerifH_c18_hmac() {
	verifrt.EngineOnly()
	m, _, _, _, _, _ := build()
	verifh.CheckMACShared(m)
}

// Key sizes around the hash block sizes (64 bytes for SHA-1/224/256, 128 for SHA-384/512):
// RFC 2104 pads keys up to the block size and hashes only longer ones.
func VerifH_hmac_keysizes() {
	ht, hf, digest := pickHash("hash")
	kl := [...]int{16, 63, 64, 65, 127, 128, 129, 200}[verifrt.Choice("klen", 8)]
	key := verifrt.Bytes("key", kl)
	params, err := NewParameters(ParametersOpts{KeySizeInBytes: kl, TagSizeInBytes: digest, HashType: ht, Variant: VariantNoPrefix})
	verifrt.Assert(err == nil, "NewParameters accepts the key size")
	k, err := NewKey(secretdata.NewBytesFromData(key, insecuresecretdataaccess.Token{}), params, 0)
	verifrt.Assert(err == nil, "NewKey")
	m, err := NewMAC(k, internalapi.Token{})
	verifrt.Assert(err == nil, "NewMAC")
	msg := verifrt.Bytes("msg", verifrt.Choice("n", 2))
	tag, err := m.ComputeMAC(msg)
	verifrt.Assert(err == nil, "ComputeMAC")
	verifrt.AssertEq(tag, specTag(hf, key, msg, digest, 3, 0), "ComputeMAC == HMAC(key, msg) for keys below, at and above the block size")
	verifrt.Assert(m.VerifyMAC(tag, msg) == nil, "VerifyMAC accepts")
	verifrt.Reach("end")
}
