package hmac

import (
	"google.golang.org/protobuf/proto"

	"github.com/tink-crypto/tink-go/v2/insecuresecretdataaccess"
	"github.com/tink-crypto/tink-go/v2/internal/verifh"
	"github.com/tink-crypto/tink-go/v2/internal/verifrt"
	commonpb "github.com/tink-crypto/tink-go/v2/proto/common_go_proto"
	pb "github.com/tink-crypto/tink-go/v2/proto/hmac_go_proto"
	tinkpb "github.com/tink-crypto/tink-go/v2/proto/tink_go_proto"
)

func parseHashOf(hash int32) HashType {
	switch hash {
	case 1:
		return SHA1
	case 2:
		return SHA384
	case 3:
		return SHA256
	case 4:
		return SHA512
	case 5:
		return SHA224
	}
	return UnknownHashType
}

var parseVariants = [...]Variant{VariantTink, VariantCrunchy, VariantLegacy, VariantNoPrefix}

// VerifH_parse_hmac: keyParser.ParseKey on hostile field values.
//
// Documented validity of an HMAC key (HmacKey{version, params{hash, tag_size}, key_value}):
// version 0; key >= 16 bytes; hash one of SHA1/SHA224/SHA256/SHA384/SHA512; tag size in
// [10, digest length]; SYMMETRIC key material (an HMAC key is a secret: every other
// material type mislabels it, e.g. for keyset.NewHandleWithNoSecrets); own type URL; prefix
// TINK/CRUNCHY/LEGACY/RAW; RAW => id 0. Absent params read as hash UNKNOWN_HASH: invalid.
func VerifH_parse_hmac() {
	h := verifh.NewHostile()
	version, tag, hash := verifrt.Uint32("version"), verifrt.Uint32("tag"), verifrt.Int32("hash")
	n := h.Len("keylen", 32, 0, 1, 15, 16, 17, 20, 31, 33, 63, 64, 65)
	kv := verifrt.Bytes("key", n)
	msg := &pb.HmacKey{Version: version, Params: &pb.HmacParams{Hash: commonpb.HashType(hash), TagSize: tag}, KeyValue: kv}
	shape := h.Shape("shape", 3)
	var value []byte
	switch shape {
	case 1:
		msg.Params, hash, tag = nil, 0, 0
	case 2:
		version, tag, hash, n, kv = 0, 0, 0, 0, nil
	}
	if shape != 2 {
		var err error
		value, err = proto.Marshal(msg)
		verifrt.Assert(err == nil, "marshal")
	}
	if !h.Wrap(typeURL, value) {
		return
	}
	k, err := (&keyParser{}).ParseKey(h.KS)
	dl := verifh.DigestLen(hash)
	body := verifrt.And(verifrt.And(version == 0, n >= 16), verifrt.And(dl != 0, tag >= 10 && uint64(tag) <= uint64(dl)))
	valid := verifrt.And(h.EnvelopeValid(tinkpb.KeyData_SYMMETRIC, true), body)
	// stated separately so that a defect in one rule does not hide the others
	// NOT asserted: "accepted => key material type is SYMMETRIC". This parser deliberately does not
	// check the material type ("for compatibility with other Tink implementations", see the
	// comment in mac/hmac/protoserialization.go); recorded as an observation in DESIGN.md.
	verifrt.Observe("material-unchecked", err == nil && h.Material != tinkpb.KeyData_SYMMETRIC)
	verifrt.Assert(verifrt.Implies(err == nil, verifrt.And(h.EnvelopeValidKinds(h.Material, 0b1111), body)), "accepted => version 0, key >= 16 bytes, known hash, tag in [10, digest], own type URL, known prefix type, RAW => id 0")
	verifrt.Assert(verifrt.Implies(valid, err == nil), "every valid HMAC key is accepted")
	if err != nil {
		verifrt.Reach("rejected")
		return
	}
	h.CheckParsedEnvelope(k)
	ak, ok := k.(*Key)
	verifrt.Assert(ok && ak != nil, "parsed key is *hmac.Key")
	p := ak.Parameters().(*Parameters)
	verifrt.Assert(p.KeySizeInBytes() == n && p.CryptographicTagSizeInBytes() == int(tag) && p.HashType() == parseHashOf(hash), "parameters: key size = len(key_value), tag size and hash = the message's")
	verifrt.Assert(p.Variant() == parseVariants[h.Kind()], "variant mirrors the prefix type")
	verifrt.AssertEq(ak.KeyBytes().Data(insecuresecretdataaccess.Token{}), kv, "key bytes are key_value")
	verifrt.AssertEq(ak.OutputPrefix(), h.WantPrefix(), "output prefix of (prefix type, id)")
	verifrt.Reach("accepted")
}

// VerifH_parse_hmac_params: parametersParser.Parse on a hostile key template
// (HmacKeyFormat{params{hash, tag_size}, key_size, version}).
func VerifH_parse_hmac_params() {
	version, tag, hash, ks := verifrt.Uint32("version"), verifrt.Uint32("tag"), verifrt.Int32("hash"), verifrt.Uint32("keysize")
	msg := &pb.HmacKeyFormat{Version: version, Params: &pb.HmacParams{Hash: commonpb.HashType(hash), TagSize: tag}, KeySize: ks}
	if verifrt.Choice("nilparams", 2) == 1 {
		msg.Params, hash, tag = nil, 0, 0
	}
	value, err := proto.Marshal(msg)
	verifrt.Assert(err == nil, "marshal")
	t, urlOK, prefix := verifh.HostileTemplate(typeURL, value)
	p, err := (&parametersParser{}).Parse(t)
	kind := verifh.KindOf(prefix)
	dl := verifh.DigestLen(hash)
	valid := verifrt.And(urlOK && kind >= 0, verifrt.And(verifrt.And(version == 0, ks >= 16), verifrt.And(dl != 0, tag >= 10 && uint64(tag) <= uint64(dl))))
	verifrt.Assert((err == nil) == valid, "template accepted <=> own type URL, version 0, key size >= 16, known hash, tag in [10, digest], known prefix type")
	if err != nil {
		verifrt.Reach("rejected")
		return
	}
	ap := p.(*Parameters)
	verifrt.Assert(ap.KeySizeInBytes() == int(ks) && ap.CryptographicTagSizeInBytes() == int(tag) && ap.HashType() == parseHashOf(hash), "parameters mirror the format")
	verifrt.Assert(ap.Variant() == parseVariants[kind], "variant mirrors the prefix type")
	verifrt.Assert(ap.HasIDRequirement() == (kind != 3), "id requirement iff not RAW")
	_, nerr := (&parametersParser{}).Parse(nil)
	verifrt.Assert(nerr != nil, "nil template rejected, no panic")
	verifrt.Reach("accepted")
}
